import PMH.Model.Basic
import PMH.Model.Scalar
import PMH.Model.MaxTracker
import PMH.Props.C15

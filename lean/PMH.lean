import PMH.Model.Basic
import PMH.Model.Scalar
import PMH.Model.MaxTracker
import PMH.Props.C15
import PMH.Model.InvHashGen
import PMH.Props.C19

import PMH.Model.Basic
/-!
# Model of the counting Jaccard estimators

One definition `countEq` for the six entry points
(`jaccard::compute_probminhash_jaccard`, `jaccard::get_jaccard_index_estimate`,
`SuperMinHash::get_jaccard_index_estimate`, `superminhasher::compute_superminhash_jaccard`,
`SuperMinHash2::get_jaccard_index_estimate`, `superminhasher2::compute_superminhash_jaccard`):
they differ only in how a length mismatch is reported (`assert_eq!` panic vs `Err`) and in the
float type of the final quotient `count as F / len as F`.
-/
namespace PMH

/-- number of positions where the two sketches are equal (lengths assumed equal) -/
def countSame {α : Type} [DecidableEq α] : List α → List α → Nat
  | a :: as, b :: bs => (if a = b then 1 else 0) + countSame as bs
  | _, _ => 0

/-- `(count, len)` or the mismatch error -/
def countEq {α : Type} [DecidableEq α] (a b : List α) : Except Err (Nat × Nat) :=
  if a.length ≠ b.length then .error (.badArg "sketch length mismatch")
  else .ok (countSame a b, a.length)

/-- the `f64` quotient -/
def jaccardF64 {α : Type} [DecidableEq α] (a b : List α) : Except Err Float :=
  match countEq a b with
  | .ok (c, n) => .ok (Float.ofNat c / Float.ofNat n)
  | .error e => .error e

/-- the `f32` quotient of `superminhasher2::compute_superminhash_jaccard` -/
def jaccardF32 {α : Type} [DecidableEq α] (a b : List α) : Except Err Float32 :=
  match countEq a b with
  | .ok (c, n) => .ok (Float32.ofNat c / Float32.ofNat n)
  | .error e => .error e

end PMH

import PMH.Model.MaxTracker
import PMH.Model.FYShuffle
/-!
# Model of `ProbMinHash2` (`src/probminhasher/probminhash2.rs`)

Per item the code alternates on one generator: `Exp1` sample, then (inside the loop) one
Fisher–Yates draw (one raw 64-bit word) and one more `Exp1` sample.  `Exp1` is `rand_distr`'s
ziggurat and is *not* modelled: the item's stream `[(x_0,u_0),(x_1,u_1),…]` (exponential samples and
the raw words the shuffle consumes) is supplied — `Src2`.
-/
namespace PMH

structure Src2 (F G : Type) where
  /-- next `Exp1` sample -/
  nextE : G → Except Err (F × G)
  /-- next raw word, consumed by `FYshuffle::next` -/
  nextU : G → Except Err (UInt64 × G)

structure PMH2 (F : Type) where
  m : Nat
  initobj : Nat
  tracker : Tracker F
  fy : FY
  betas : Array F
  sig : Array Nat

namespace PMH2
variable {F G : Type} [Add F] [Mul F] [Div F] [LT F] [DecidableLT F] [NatCast F]

/-- `new(nbhash, initobj)`: `betas[x] = m / (m - x - 1)` (last one divides by zero: `inf` in f64) -/
def new (top : F) (m : Nat) (initobj : Nat) : PMH2 F :=
  { m := m, initobj := initobj, tracker := Tracker.new top m, fy := FY.new m,
    betas := (Array.range m).map (fun x => ((m : Nat) : F) / (((m - x - 1 : Nat)) : F)),
    sig := Array.replicate m initobj }

def loop (src : Src2 F G) (offsetOf : F → Nat → Nat) (unif : UInt64 → F) (id : Nat) (winv : F) :
    Nat → PMH2 F → F → Nat → F → G → Except Err (PMH2 F)
  | 0, _, _, _, _, _ => .error (.fuel "probminhash2.hash_item")
  | fuel + 1, s, h, i, qmax, g =>
    if h < qmax then
      match src.nextU g with
      | .error e => .error e
      | .ok (u, g) =>
        match s.fy.nextOff (offsetOf (unif u) (s.fy.m - s.fy.cursor)) with
        | .error e => .error e
        | .ok (k, fy) =>
          let s := { s with fy := fy }
          match s.tracker.getValue k with
          | .error e => .error e
          | .ok vk =>
            let upd : Except Err (PMH2 F × F × Bool) :=
              if h < vk then
                match s.tracker.update k h with
                | .error e => .error e
                | .ok t =>
                  match t.getMax with
                  | .error e => .error e
                  | .ok q => .ok ({ s with sig := s.sig.setIfInBounds k id, tracker := t }, q, decide (¬ (h < q)))
              else .ok (s, qmax, false)
            match upd with
            | .error e => .error e
            | .ok (s, qmax, stop) =>
              if stop then .ok s                  -- `if h >= qmax { break }` (only after an update)
              else
                match src.nextE g with
                | .error e => .error e
                | .ok (x, g) =>
                  match s.betas[i]? with
                  | none => .error (.oob "probminhash2 betas[i]")
                  | some beta =>
                    let h := h + winv * beta * x
                    if ¬ (i + 1 < s.m) then .error (.assertFail "probminhash2 i < m")
                    else loop src offsetOf unif id winv fuel s h (i + 1) qmax g
    else .ok s

/-- `hash_item(id, weight)` -/
def hashItem (src : Src2 F G) (offsetOf : F → Nat → Nat) (unif : UInt64 → F) (s : PMH2 F) (id : Nat) (w : F) (g0 : G) :
    Except Err (PMH2 F) :=
  if ¬ (((0 : Nat) : F) < w) then .error (.assertFail "probminhash2 weight > 0") else
  let winv := ((1 : Nat) : F) / w
  let s := { s with fy := s.fy.reset }
  match src.nextE g0 with
  | .error e => .error e
  | .ok (x, g) =>
    match s.tracker.getMax with
    | .error e => .error e
    | .ok qmax => loop src offsetOf unif id winv (s.m + 2) s (winv * x) 0 qmax g

/-- `reset()` -/
def reset (top : F) (s : PMH2 F) : PMH2 F :=
  { s with sig := Array.replicate s.sig.size s.initobj, tracker := s.tracker.reset top, fy := s.fy.reset }

end PMH2
end PMH

/-!
# Scalars of the executable models

`Float` = IEEE binary64 with the same libm as Rust's `f64` methods (`exp`, `ln`, `powf`, `exp_m1`,
`ln_1p` all resolve to the system `libm.so.6`; checked bit-for-bit by the correspondence runs).
`expm1`/`log1p` are not in core Lean: they are reached through `@[extern]` and are therefore
executable-only (compiled driver), never unfolded in a theorem.
-/
namespace PMH

@[extern "expm1"] opaque Float.expm1 : Float → Float
@[extern "log1p"] opaque Float.log1p : Float → Float

def hexDigit (c : Char) : Option Nat :=
  if '0' ≤ c ∧ c ≤ '9' then some (c.toNat - '0'.toNat)
  else if 'a' ≤ c ∧ c ≤ 'f' then some (c.toNat - 'a'.toNat + 10)
  else if 'A' ≤ c ∧ c ≤ 'F' then some (c.toNat - 'A'.toNat + 10)
  else none

def parseHex (s : String) : Option Nat :=
  if s.isEmpty then none else
  s.toList.foldl (fun acc c => match acc, hexDigit c with
    | some a, some d => some (a * 16 + d)
    | _, _ => none) (some 0)

def hexChar (n : Nat) : Char :=
  if n < 10 then Char.ofNat (n + '0'.toNat) else Char.ofNat (n - 10 + 'a'.toNat)

def toHexW (width : Nat) (n : Nat) : String :=
  String.ofList ((List.range width).reverse.map (fun i => hexChar ((n >>> (4 * i)) % 16)))

def f64OfHex (s : String) : Option Float := (parseHex s).map (fun n => Float.ofBits n.toUInt64)
def f64Hex (x : Float) : String := toHexW 16 x.toBits.toNat
def u64Hex (x : UInt64) : String := toHexW 16 x.toNat
def f32OfHex (s : String) : Option Float32 := (parseHex s).map (fun n => Float32.ofBits n.toUInt32)
def f32Hex (x : Float32) : String := toHexW 8 x.toBits.toNat

/-- `f64::MAX` -/
def f64Max : Float := Float.ofBits 0x7FEFFFFFFFFFFFFF

def joinSp (l : List String) : String := " ".intercalate l

end PMH

import PMH.Model.Basic
/-!
# Model of `SetSketchParams::get_jaccard_bounds` (`src/setsketcher.rs`)

Generic in the scalar; `pow`, `sqrt`, `max`, `min` come in through `BOps` (`f64::powf`, `sqrt`, `max`, `min`).
The `assert!(jac <= 1.)` is `Except.error`.
-/
namespace PMH

structure BOps (F : Type) where
  pow : F → F → F
  sqrt : F → F
  max : F → F → F
  min : F → F → F

variable {F : Type} [Add F] [Sub F] [Mul F] [Div F] [LT F] [DecidableLT F] [LE F] [DecidableLE F] [NatCast F]

/-- `get_jaccard_bounds(jac)` for base `b` -/
def jaccardBoundsG (o : BOps F) (b jac : F) : Except Err (F × F) :=
  let one : F := ((1 : Nat) : F)
  let two : F := ((2 : Nat) : F)
  if ¬ (jac ≤ one) then .error (.assertFail "get_jaccard_bounds: jac <= 1") else
  let baux := o.pow b (jac * (one / two))
  let jsup := (baux * baux - one) / (b - one)
  let binf := two * (baux * o.sqrt b - one) / (b - one) - one
  let jinf := o.min (o.max binf ((0 : Nat) : F)) jsup      -- `b_inf.max(0.).min(jsup)`
  .ok (jinf, jsup)

end PMH

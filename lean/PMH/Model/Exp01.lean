import PMH.Model.Prng
/-!
# Model of `src/exp01.rs` (`ExpRestricted01`): exponential law truncated to `[0,1)`

Generic in the scalar `F` and in the source of uniform draws (`next : G → F × G`, executable
instance: `unif01` on Xoshiro256++).  The rejection loop takes fuel.
-/
namespace PMH

structure Exp01 (F : Type) where
  lambda : F
  c1 : F
  c2 : F
  c3 : F

/-- the transcendental functions the constants and the exact test need -/
structure ExpOps (F : Type) where
  exp : F → F
  ln : F → F
  expm1 : F → F

namespace Exp01
variable {F : Type} [Add F] [Sub F] [Mul F] [Div F] [Neg F] [LT F] [DecidableLT F] [LE F] [DecidableLE F] [NatCast F]

/-- `ExpRestricted01::new(lambda)` -/
def new (o : ExpOps F) (lambda : F) : Exp01 F :=
  let one : F := ((1 : Nat) : F)
  let two : F := ((2 : Nat) : F)
  { lambda := lambda
    c1 := o.expm1 lambda / lambda
    c2 := o.ln (two / (one + o.exp (-lambda))) / lambda
    c3 := (one - o.exp (-lambda)) / lambda }

/-- the rejection loop of `sample` -/
def loop {G : Type} (o : ExpOps F) (e : Exp01 F) (next : G → F × G) : Nat → G → Except Err (F × G)
  | 0, _ => .error (.fuel "exp01 rejection loop")
  | f + 1, g =>
    let one : F := ((1 : Nat) : F)
    let (x, g) := next g
    if x < e.c2 then .ok (x, g)
    else
      let (u, g) := next g
      let y0 := u / ((2 : Nat) : F)                      -- `0.5 * u`
      let (x, y) := if one - x < y0 then (one - x, one - y0) else (x, y0)
      if x ≤ e.c3 * (one - y) then .ok (x, g)
      else if e.c1 * y ≤ one - x then .ok (x, g)
      else if y * e.c1 * e.lambda ≤ o.expm1 (e.lambda * (one - x)) then .ok (x, g)
      else loop o e next f g

/-- `sample(rng)` -/
def sample {G : Type} (o : ExpOps F) (e : Exp01 F) (next : G → F × G) (g : G) : Except Err (F × G) :=
  let (u, g) := next g
  let x := e.c1 * u
  if x < ((1 : Nat) : F) then .ok (x, g) else loop o e next 10000 g

end Exp01
end PMH

import PMH.Model.Basic
/-!
# Model of `src/maxvaluetrack.rs` (`MaxValueTracker<V>`)

`values` has `2m-1` entries: leaves `0..m`, internal nodes `m..2m-1`; the parent of node `k` is
`m + k/2`, its sibling `k ^^^ 1`; the root is `last_index = 2m-2`.
The loop of `update` is transcribed branch for branch, including both `assert!`s.
-/
namespace PMH

structure Tracker (α : Type) where
  m : Nat
  vals : Array α
  deriving Repr

namespace Tracker
variable {α : Type} [LT α] [DecidableLT α]

/-- `MaxValueTracker::new(m)`; `(m << 1) - 2` underflows (debug panic / wrap) for `m = 0`. -/
def new (top : α) (m : Nat) : Tracker α := ⟨m, Array.replicate (2 * m - 1) top⟩

def lastIndex (t : Tracker α) : Nat := 2 * t.m - 2

/-- body of `while more { … }`; `fuel` bounds the number of levels. -/
def updLoop (m : Nat) : Nat → Array α → Nat → α → Except Err (Array α)
  | 0, _, _, _ => .error (.fuel "maxtracker.update")
  | f + 1, vals, k, cur =>
    if hk : k < vals.size then
      let vals1 := vals.set k cur hk            -- self.values[current_k] = current_value
      let p := m + k / 2
      if p > 2 * m - 2 then .ok vals1            -- if pidx > self.last_index { break }
      else
        let s := k ^^^ 1
        match vals1[s]?, vals1[p]? with
        | some vs, some vp =>
          if vp < vs then .error (.assertFail "maxtracker sibling<=parent")
          else if vp < cur then .error (.assertFail "maxtracker current<=parent")
          else if ¬ (vs < vp) ∧ ¬ (cur < vp) then .ok vals1     -- all three equal
          else
            let cur' := if cur < vs then vs else cur
            if ¬ (cur' < vp) then .ok vals1                      -- more = false
            else updLoop m f vals1 p cur'
        | _, _ => .error (.oob "maxtracker.update")
    else .error (.oob "maxtracker.update")

/-- `update(k, value)` -/
def update (t : Tracker α) (k : Nat) (v : α) : Except Err (Tracker α) :=
  if k < t.m then
    match t.vals[k]? with
    | some old =>
      if v < old then
        match updLoop t.m (2 * t.m) t.vals k v with
        | .ok vals => .ok { t with vals := vals }
        | .error e => .error e
      else .ok t
    | none => .error (.oob "maxtracker.update")
  else .error (.assertFail "maxtracker k<m")

def getMax (t : Tracker α) : Except Err α :=
  match t.vals[t.lastIndex]? with
  | some v => .ok v
  | none => .error (.oob "maxtracker.get_max_value")

def getValue (t : Tracker α) (i : Nat) : Except Err α :=
  match t.vals[i]? with
  | some v => .ok v
  | none => .error (.oob "maxtracker.get_value")

def isUpdatePossible (t : Tracker α) (v : α) : Except Err Bool :=
  match t.getMax with
  | .ok mx => .ok (decide (v < mx))
  | .error e => .error e

/-- `reset()` : `values.fill(V::get_max())` -/
def reset (top : α) (t : Tracker α) : Tracker α := { t with vals := Array.replicate t.vals.size top }

end Tracker
end PMH

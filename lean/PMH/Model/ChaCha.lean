import PMH.Model.Basic
/-!
# `ChaCha12Rng::seed_from_u64` + `next_u32` stream (`rand_chacha 0.9`, `rand_core 0.9`) — executable only

Used by the densification of `densminhash.rs` (one generator per bin / per pass).  Seed expansion is
`rand_core`'s default `seed_from_u64` (PCG32 output function, eight words); the generator is plain
ChaCha with 12 rounds, 64-bit block counter starting at 0, zero nonce; words are served in order.
-/
namespace PMH.ChaCha

def rotl32 (x : UInt32) (k : UInt32) : UInt32 := (x <<< k) ||| (x >>> (32 - k))
def rotr32 (x : UInt32) (k : UInt32) : UInt32 := if k == 0 then x else (x >>> k) ||| (x <<< (32 - k))

/-- one PCG32 step of `seed_from_u64`: new state and output word -/
def pcg32 (state : UInt64) : UInt64 × UInt32 :=
  let state := state * 6364136223846793005 + 11634580027462260723
  let xorshifted : UInt32 := (((state >>> 18) ^^^ state) >>> 27).toUInt32
  let rot : UInt32 := (state >>> 59).toUInt32
  (state, rotr32 xorshifted rot)

/-- the eight key words -/
def keyOfSeed (seed : UInt64) : Array UInt32 :=
  let rec go : Nat → UInt64 → Array UInt32 → Array UInt32
    | 0, _, acc => acc
    | n + 1, st, acc => let (st, w) := pcg32 st; go n st (acc.push w)
  go 8 seed #[]

def qr (s : Array UInt32) (a b c d : Nat) : Array UInt32 :=
  let sa := s[a]! + s[b]!
  let sd := rotl32 (s[d]! ^^^ sa) 16
  let sc := s[c]! + sd
  let sb := rotl32 (s[b]! ^^^ sc) 12
  let sa := sa + sb
  let sd := rotl32 (sd ^^^ sa) 8
  let sc := sc + sd
  let sb := rotl32 (sb ^^^ sc) 7
  (((s.set! a sa).set! b sb).set! c sc).set! d sd

def doubleRound (s : Array UInt32) : Array UInt32 :=
  let s := qr s 0 4 8 12
  let s := qr s 1 5 9 13
  let s := qr s 2 6 10 14
  let s := qr s 3 7 11 15
  let s := qr s 0 5 10 15
  let s := qr s 1 6 11 12
  let s := qr s 2 7 8 13
  qr s 3 4 9 14

/-- block number `ctr` of the ChaCha12 stream with the given key (nonce 0) -/
def block (key : Array UInt32) (ctr : UInt64) : Array UInt32 :=
  let init : Array UInt32 := (#[0x61707865, 0x3320646e, 0x79622d32, 0x6b206574] : Array UInt32) ++ key ++
    (#[ctr.toUInt32, (ctr >>> 32).toUInt32, 0, 0] : Array UInt32)
  let w := (List.range 6).foldl (fun s _ => doubleRound s) init
  (Array.range 16).map (fun i => w[i]! + init[i]!)

/-- generator state: key, index of the next 32-bit word in the stream -/
structure Rng where
  key : Array UInt32
  idx : Nat
  cur : Array UInt32      -- current block
  deriving Inhabited

def seedFromU64 (seed : UInt64) : Rng := { key := keyOfSeed seed, idx := 0, cur := #[] }

def nextU32 (r : Rng) : UInt32 × Rng :=
  let w := r.idx % 16
  let r := if w == 0 then { r with cur := block r.key (r.idx / 16).toUInt64 } else r
  (r.cur[w]!, { r with idx := r.idx + 1 })

/-- `Uniform::<usize>::new(0, m).sample(rng)` for `m - 1 ≤ u32::MAX` (32-bit Lemire with rejection) -/
def unifBelow (m : Nat) : Nat → Rng → Except Err (Nat × Rng)
  | 0, _ => .error (.fuel "uniform int rejection loop (chacha)")
  | f + 1, r =>
    let range := m % 4294967296
    if range = 0 then let (u, r) := nextU32 r; .ok (u.toNat, r) else
    let thresh := (4294967296 - range) % range
    let (u, r) := nextU32 r
    let prod := u.toNat * range
    if prod % 4294967296 ≥ thresh then .ok (prod / 4294967296, r) else unifBelow m f r

end PMH.ChaCha

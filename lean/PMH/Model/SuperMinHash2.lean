import PMH.Model.FYShuffle
/-!
# Model of `SuperMinHash2<I, T, H>` (`src/superminhasher2.rs`), `I = u32 | u64`

Per item (64-bit hash `hval`, generator seeded with it): for `j = 0..=a_upper` draw `r ∈ [0, usize::MAX)`
and a fresh slot `k` of a per-item Fisher–Yates permutation; position `k` keeps the lexicographically
smallest `(j, r)` — with `<=` on `r` — together with the item's hash.
-/
namespace PMH

structure Smh2Ops (G : Type) where
  nextR : G → Except Err (Nat × G)        -- `Uniform::new(0u64, usize::MAX as u64)`
  nextU : G → UInt64 × G                  -- raw word for `FYshuffle::next`
  offsetOf : UInt64 → Nat → Nat

structure SMH2 where
  hsketch : Array Nat
  values : Array Nat
  l : Array Nat
  b : Array Nat
  itemRank : Nat
  aUpper : Nat
  fy : FY
  imax : Nat            -- `I::MAX` (from_u64 fails above)

namespace SMH2

def usizeMax : Nat := 18446744073709551615

def new (imax : Nat) (size : Nat) : Except Err SMH2 :=
  if size = 0 then .error (.oob "superminhash2 size - 1") else
  .ok { hsketch := Array.replicate size 0, values := Array.replicate size usizeMax, l := Array.replicate size (size - 1),
        b := (Array.replicate size 0).setIfInBounds (size - 1) size, itemRank := 0, aUpper := size - 1,
        fy := FY.new size, imax := imax }

def reinit (s : SMH2) : SMH2 :=
  let size := s.hsketch.size
  { s with hsketch := Array.replicate size 0, values := Array.replicate size usizeMax, l := Array.replicate size (size - 1),
           b := (Array.replicate size 0).setIfInBounds (size - 1) size, itemRank := 0, aUpper := size - 1, fy := s.fy.reset }

def lowerUpper (b : Array Nat) : Nat → Nat → Except Err Nat
  | 0, _ => .error (.fuel "superminhash2 a_upper loop")
  | f + 1, a =>
    match b[a]? with
    | none => .error (.oob "superminhash2 b[a_upper]")
    | some v => if v == 0 then (if a = 0 then .error (.oob "superminhash2 a_upper underflow") else lowerUpper b f (a - 1)) else .ok a

def loop {G : Type} (o : Smh2Ops G) (hval : Nat) : Nat → SMH2 → Nat → G → Except Err SMH2
  | 0, _, _, _ => .error (.fuel "superminhash2.sketch")
  | fuel + 1, s, j, g =>
    if j ≤ s.aUpper then
      match o.nextR g with
      | .error e => .error e
      | .ok (r, g) =>
        let (u, g) := o.nextU g
        match s.fy.nextOff (o.offsetOf u (s.fy.m - s.fy.cursor)) with
        | .error e => .error e
        | .ok (k, fy) =>
          let s := { s with fy := fy }
          match s.l[k]?, s.values[k]? with
          | some lk, some vk =>
            if lk ≥ j then
              if lk = j then
                if r ≤ vk then loop o hval fuel { s with values := s.values.setIfInBounds k r, hsketch := s.hsketch.setIfInBounds k hval } (j + 1) g
                else loop o hval fuel s (j + 1) g
              else
                match s.b[lk]? with
                | none => .error (.oob "superminhash2 b[l[k]]")
                | some blk =>
                  if blk = 0 then .error (.oob "superminhash2 b[l[k]] underflow") else
                  let b := s.b.setIfInBounds lk (blk - 1)
                  let b := b.setIfInBounds j (b.getD j 0 + 1)
                  match lowerUpper b (s.hsketch.size + 1) s.aUpper with
                  | .error e => .error e
                  | .ok a =>
                    loop o hval fuel { s with b := b, aUpper := a, l := s.l.setIfInBounds k j,
                                              values := s.values.setIfInBounds k r, hsketch := s.hsketch.setIfInBounds k hval } (j + 1) g
            else loop o hval fuel s (j + 1) g
          | _, _ => .error (.oob "superminhash2 l[k]")
    else .ok { s with itemRank := s.itemRank + 1 }

/-- `sketch(item)`: `I::from_u64(hval).unwrap()`, reset of the shuffle, the loop -/
def sketch {G : Type} (o : Smh2Ops G) (s : SMH2) (hval : Nat) (g : G) : Except Err SMH2 :=
  if hval > s.imax then .error (.assertFail "superminhash2 I::from_u64(hval).unwrap()") else
  loop o hval (s.hsketch.size + 2) { s with fy := s.fy.reset } 0 g

end SMH2
end PMH

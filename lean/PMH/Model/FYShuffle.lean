import PMH.Model.Prng
/-!
# Model of `src/fyshuffle.rs` (`FYshuffle`): lazy Fisher–Yates

`next` is split in two: `offsetOf xsi n = (xsi * n as f64) as usize` (the only floating-point step)
and `nextOff s off`, which is pure index bookkeeping: wrap `lastidx ≥ m` to `0`, read
`v[lastidx+off]`, swap it to `lastidx`, advance.  Indexing panics are `Except.error`.
-/
namespace PMH

structure FY where
  m : Nat
  v : Array Nat
  lastidx : Nat
  deriving Repr

namespace FY

/-- `FYshuffle::new(m)` : `v = [0..m)`, `lastidx = m` -/
def new (m : Nat) : FY := ⟨m, Array.range m, m⟩

/-- cursor after the `if self.lastidx >= self.m { self.lastidx = 0 }` of `next` -/
def cursor (s : FY) : Nat := if s.lastidx ≥ s.m then 0 else s.lastidx

/-- `next` once the random offset into the remaining suffix is known -/
def nextOff (s : FY) (off : Nat) : Except Err (Nat × FY) :=
  let last := s.cursor
  let idx := last + off
  match s.v[idx]?, s.v[last]? with
  | some vi, some vl =>
    .ok (vi, { s with v := (s.v.setIfInBounds idx vl).setIfInBounds last vi, lastidx := last + 1 })
  | _, _ => .error (.oob "fyshuffle.next")

/-- `(xsi * n as f64) as usize` (Rust float→int casts truncate and saturate) -/
def offsetOf (xsi : Float) (n : Nat) : Nat := (xsi * n.toFloat).toUInt64.toNat

/-- `next(rng)` given the raw 64-bit word the `Uniform<f64>` draws from the generator -/
def nextU64 (s : FY) (u : UInt64) : Except Err (Nat × FY) :=
  s.nextOff (offsetOf (unif01OfU64 u) (s.m - s.cursor))

def nextRng (s : FY) (g : Xo) : Except Err (Nat × FY × Xo) :=
  let (u, g) := g.next
  match s.nextU64 u with
  | .ok (k, s) => .ok (k, s, g)
  | .error e => .error e

/-- `reset()` -/
def reset (s : FY) : FY := { s with lastidx := 0, v := Array.range s.m }

end FY
end PMH

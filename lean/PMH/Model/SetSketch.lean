import PMH.Model.FYShuffle
/-!
# Model of `SetSketcher<I, T, H>` (`src/setsketcher.rs`), algorithm "sketch1" of the SetSketch paper

Registers `k_vec : m × I` (I = u16 | u32 | u64) only grow.  Per item: `x_j = x_{j-1} + (1/a)/(m-j)·Exp1`,
register candidate `k = clamp(⌊1 - log_b x_j⌋, 0, q+1)` goes to a fresh Fisher–Yates slot; the loop stops
as soon as the candidate cannot exceed `lower_k`, a lower bound of all registers refreshed every `m`
register updates.  `lower_k` is an `f64` in the code but only ever holds a register value: `Nat` here.
-/
namespace PMH

/-- per-item draws and the scalar pipeline from `x_j` to the candidate register.
`F` is the type of the `x_j` (`f64` in the code; an ordered field in the theorems):
* `step xpred j e = xpred + ((1/a) / (m-j)) * e`,
* `early x L`  = the first break `log_b x > -L`,
* `cand x`     = `max(0, min(q+1, ⌊1 - log_b x⌋))`, the candidate register. -/
structure SskOps (F G : Type) where
  nextE : G → Except Err (F × G)            -- `Exp1`
  nextU : G → UInt64 × G                    -- raw word for `FYshuffle::next`
  offsetOf : UInt64 → Nat → Nat
  zero : F
  step : F → Nat → F → F
  early : F → Nat → Bool
  cand : F → Nat

structure SSK where
  b : Float
  m : Nat
  a : Float
  q : Nat
  kvec : Array Nat
  lowerK : Nat
  nbmin : Nat
  fy : FY
  nbOverflow : Nat
  lnb : Float
  imax : Nat

namespace SSK

/-- `new(params, hasher)`: `lnb = ln_1p(b - 1)` is supplied by the caller (extern libm) -/
def new (b : Float) (m : Nat) (a : Float) (q : Nat) (imax : Nat) (lnb : Float) : SSK :=
  { b := b, m := m, a := a, q := q, kvec := Array.replicate m 0, lowerK := 0, nbmin := 0, fy := FY.new m,
    nbOverflow := 0, lnb := lnb, imax := imax }

/-- `reinit()` -/
def reinit (s : SSK) : SSK :=
  { s with fy := s.fy.reset, kvec := Array.replicate s.m 0, lowerK := 0, nbmin := 0, nbOverflow := 0 }

/-- Rust `f as i64` (saturating, NaN ↦ 0) -/
def f64ToI64 (x : Float) : Int :=
  if x.isNaN then 0
  else if x >= 9223372036854775808.0 then 9223372036854775807
  else if x <= -9223372036854775808.0 then -9223372036854775808
  else if x < 0 then -((-x).toUInt64.toNat : Int) else (x.toUInt64.toNat : Int)

def minReg (a : Array Nat) : Nat := a.foldl (fun mn x => if x < mn then x else mn) (a.getD 0 0)

def loop {F G : Type} (o : SskOps F G) : Nat → SSK → Nat → F → G → Except Err SSK
  | 0, s, _, _, _ => .ok s
  | fuel + 1, s, j, xpred, g =>
    if ¬ (j < s.m) then .ok s else
    match o.nextE g with
    | .error e => .error e
    | .ok (ex, g) =>
      let xj := o.step xpred j ex
      if o.early xj s.lowerK then .ok s                           -- first break (`lb_xj > -lower_k`)
      else
        let k : Nat := o.cand xj
        if k ≤ s.lowerK then .ok s                                -- second break (`k as f64 <= lower_k`)
        else
          let (u, g) := o.nextU g
          match s.fy.nextOff (o.offsetOf u (s.fy.m - s.fy.cursor)) with
          | .error e => .error e
          | .ok (i, fy) =>
            let s := { s with fy := fy }
            match s.kvec[i]? with
            | none => .error (.oob "setsketch k_vec[i]")
            | some old =>
              if k > old then
                let (kv, ov) := if k > s.imax then (s.kvec.setIfInBounds i s.imax, s.nbOverflow + 1)
                                else (s.kvec.setIfInBounds i k, s.nbOverflow)
                let nbmin := s.nbmin + 1
                let s := { s with kvec := kv, nbOverflow := ov, nbmin := nbmin }
                let s := if nbmin % s.m = 0 then
                    let flow := minReg s.kvec
                    if flow > s.lowerK then { s with lowerK := flow } else s
                  else s
                loop o fuel s (j + 1) xj g
              else loop o fuel s (j + 1) xj g

/-- `sketch(item)` with the item's generator -/
def sketch {F G : Type} (o : SskOps F G) (s : SSK) (g : G) : Except Err SSK :=
  loop o (s.m + 1) { s with fy := s.fy.reset } 0 o.zero g

/-- the `f64` pipeline of the code for parameters `(m, a, q, lnb)` -/
def floatOps {G : Type} (nextE : G → Except Err (Float × G)) (nextU : G → UInt64 × G) (offsetOf : UInt64 → Nat → Nat)
    (m : Nat) (a : Float) (q : Nat) (lnb : Float) : SskOps Float G :=
  { nextE := nextE, nextU := nextU, offsetOf := offsetOf, zero := 0.0
    step := fun xpred j ex => xpred + ((1.0 / a) / (m - j).toFloat) * ex
    early := fun xj L => (Float.log xj / lnb) > -(L.toFloat)
    cand := fun xj =>
      let lb := Float.log xj / lnb
      let iq1 : Int := (q : Int) + 1
      let z : Int := min iq1 (f64ToI64 (Float.floor (1.0 - lb)))
      (max 0 z).toNat }

/-- `merge(other)`: refused (state unchanged) on parameter mismatch; `eps = f64::EPSILON` -/
def merge (s other : SSK) : Except Err SSK :=
  let eps : Float := Float.ofBits 0x3CB0000000000000
  if s.m ≠ other.m ∨ s.q ≠ other.q then .error (.badArg "non mergeable : different sketching parameters")
  else if Float.abs (s.b - other.b) / s.b >= eps || Float.abs (s.a - other.a) / s.a >= eps then
    .error (.badArg "non mergeable : different sketching parameters")
  else
    .ok { s with kvec := (Array.range s.kvec.size).map (fun i => max (s.kvec.getD i 0) (other.kvec.getD i 0)),
                 nbOverflow := s.nbOverflow + other.nbOverflow }

/-- `get_cardinal_stats()`; `l1b = ln_1p(b-1)` supplied (extern) -/
def cardinalStats (s : SSK) (l1b : Float) : Float × Float :=
  let sumbk := s.kvec.foldl (fun acc c => acc + Float.exp (-(c.toFloat) * l1b)) 0.0
  let card := s.m.toFloat * (1.0 - 1.0 / s.b) / (s.a * s.lnb * sumbk)
  let rsd := ((s.b + 1.0) / (s.b - 1.0) * s.lnb - 1.0) / s.m.toFloat
  (card, Float.sqrt rsd)

end SSK
end PMH

/-!
# Model of `src/probminhasher/sig.rs` (trait `Sig`: byte identity of hashed objects)

Integers are their values (`Nat` below `2^(8w)`; `i16`/`i32` enter as their two's-complement bit
pattern); the target is little-endian (x86-64), so `to_ne_bytes` = least significant byte first.
-/
namespace PMH.Sig

/-- `w` little-endian bytes of `x` -/
def leBytes : Nat → Nat → List Nat
  | 0, _ => []
  | w + 1, x => (x % 256) :: leBytes w (x / 256)

def sigU8 (x : Nat) : List Nat := leBytes 1 x
def sigU16 (x : Nat) : List Nat := leBytes 2 x
def sigU32 (x : Nat) : List Nat := leBytes 4 x
def sigU64 (x : Nat) : List Nat := leBytes 8 x
/-- `Vec<u8>` : the bytes themselves (`clone`) -/
def sigVecU8 (v : List Nat) : List Nat := v
/-- `Vec<u16>` / `Vec<u32>` : concatenation of the elements' bytes -/
def sigVecU16 (v : List Nat) : List Nat := v.flatMap sigU16
def sigVecU32 (v : List Nat) : List Nat := v.flatMap sigU32
/-- `String` : its UTF-8 bytes -/
def sigString (s : String) : List Nat := s.toByteArray.data.toList.map (·.toNat)

end PMH.Sig

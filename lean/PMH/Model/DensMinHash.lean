import PMH.Model.Basic
import PMH.Model.Hashers
/-!
# Model of `OptDensMinHash` / `RevOptDensMinHash` (`src/densminhash.rs`)

One-permutation hashing: an item (64-bit hash `hval`, generator seeded with it) draws `r ∈ [0,1)` and a
bin `k`; the bin keeps the smallest `r` (with `<=`) and that item's hash.  `densify` fills the empty bins
from populated ones, using a fresh ChaCha12 generator per bin (optimal) or per (bin, pass) (reverse).
The ChaCha generators enter through `mk`/`draw` (`draw` = one `Uniform<usize>(0,m)` sample).
-/
namespace PMH

structure DensOps (F G R : Type) where
  unif : G → F × G
  unifK : Nat → G → Except Err (Nat × G)
  mkRng : Nat → R                              -- `ChaCha12Rng::seed_from_u64(seed)`
  draw : Nat → R → Except Err (Nat × R)        -- `Uniform::<usize>::new(0, m).sample(rng)`

structure Dens (F : Type) where
  hsketch : Array F
  values : Array Nat
  init : Array Bool
  nbEmpty : Int

namespace Dens
variable {F G R : Type} [LT F] [DecidableLT F]

def u64Max : Nat := 18446744073709551615

/-- `get_hsketch_u32` : every stored 64-bit hash through `murmur3_32(to_ne_bytes, seed 127)` (`Hashers.murmurOfU64`) -/
def u32View (s : Dens F) : List UInt32 := s.values.toList.map (fun v => Hashers.murmurOfU64 v.toUInt64)

def new (large : F) (m : Nat) : Dens F :=
  { hsketch := Array.replicate m large, values := Array.replicate m u64Max, init := Array.replicate m false, nbEmpty := m }

def reinit (large : F) (s : Dens F) : Dens F := new large s.hsketch.size

/-- `sketch(item)`: the bin keeps the lexicographically smallest `(r, hash)` -/
def sketch (o : DensOps F G R) (s : Dens F) (hval : Nat) (g : G) : Except Err (Dens F) :=
  let m := s.hsketch.size
  let (r, g) := o.unif g
  match o.unifK m g with
  | .error e => .error e
  | .ok (k, _) =>
    match s.hsketch[k]?, s.init[k]?, s.values[k]? with
    | some old, some ini, some oldv =>
      if r < old ∨ (¬ (old < r) ∧ hval ≤ oldv) then   -- `r < h[k] || (r == h[k] && hval <= values[k])`
        let s := { s with hsketch := s.hsketch.setIfInBounds k r, values := s.values.setIfInBounds k hval }
        if ini then .ok s else .ok { s with init := s.init.setIfInBounds k true, nbEmpty := s.nbEmpty - 1 }
      else .ok s
    | _, _, _ => .error (.oob "densminhash hsketch[k]")

/-- inner `loop { j = sample; if init[j] { copy; break } }` of the optimal densification -/
def probe (o : DensOps F G R) (m : Nat) (s : Dens F) (k : Nat) : Nat → R → Except Err (Dens F)
  | 0, _ => .error (.fuel "OptDensMinHash::densify probe loop")
  | fuel + 1, r =>
    match o.draw m r with
    | .error e => .error e
    | .ok (j, r) =>
      match s.init[j]?, s.values[j]?, s.hsketch[j]? with
      | some true, some vj, some hj =>
        .ok { s with values := s.values.setIfInBounds k vj, hsketch := s.hsketch.setIfInBounds k hj,
                     init := s.init.setIfInBounds k true, nbEmpty := s.nbEmpty - 1 }
      | some false, _, _ => probe o m s k fuel r
      | _, _, _ => .error (.oob "densminhash init[j]")

/-- `OptDensMinHash::densify`; `Err` (`badArg`) when no bin is populated -/
def densifyOpt (o : DensOps F G R) (fuel : Nat) (s : Dens F) : Except Err (Dens F) :=
  let m := s.hsketch.size
  if s.nbEmpty ≥ (m : Int) then .error (.badArg "densify : no item sketched") else
  let rec go : Nat → Nat → Dens F → Except Err (Dens F)
    | 0, _, s => .ok s
    | n + 1, k, s =>
      match s.init[k]? with
      | none => .error (.oob "densminhash init[k]")
      | some true => go n (k + 1) s
      | some false =>
        match probe o m s k fuel (o.mkRng (k + 123743)) with
        | .error e => .error e
        | .ok s => go n (k + 1) s
  match go m 0 s with
  | .error e => .error e
  | .ok s => if s.nbEmpty ≠ 0 then .error (.assertFail "densify nb_empty == 0") else .ok s

/-- one `for k in 0..m` sweep of the reverse densification -/
def revPass (o : DensOps F G R) (m pass : Nat) : Nat → Nat → Dens F → Except Err (Dens F)
  | 0, _, s => .ok s
  | n + 1, k, s =>
    match s.init[k]? with
    | none => .error (.oob "densminhash init[k]")
    | some false => revPass o m pass n (k + 1) s
    | some true =>
      match o.draw m (o.mkRng ((k + 1) * m + pass + 253713)) with
      | .error e => .error e
      | .ok (j, _) =>
        match s.init[j]?, s.values[k]?, s.hsketch[k]? with
        | some false, some vk, some hk =>
          revPass o m pass n (k + 1)
            { s with values := s.values.setIfInBounds j vk, hsketch := s.hsketch.setIfInBounds j hk,
                     init := s.init.setIfInBounds j true, nbEmpty := s.nbEmpty - 1 }
        | some true, _, _ => revPass o m pass n (k + 1) s
        | _, _, _ => .error (.oob "densminhash init[j]")

/-- passes of `RevOptDensMinHash::densify` until `nb_empty == 0` -/
def revPasses (o : DensOps F G R) : Nat → Nat → Dens F → Except Err (Dens F)
  | 0, _, _ => .error (.fuel "RevOptDensMinHash::densify passes")
  | fuel + 1, pass, s =>
    if s.nbEmpty > 0 then
      match revPass o s.hsketch.size pass s.hsketch.size 0 s with
      | .error e => .error e
      | .ok s => revPasses o fuel (pass + 1) s
    else if s.nbEmpty ≠ 0 then .error (.assertFail "densify nb_empty == 0") else .ok s

/-- `RevOptDensMinHash::densify`; `Err` (`badArg`) when no bin is populated -/
def densifyRev (o : DensOps F G R) (fuel : Nat) (pass : Nat) (s : Dens F) : Except Err (Dens F) :=
  if s.nbEmpty ≥ (s.hsketch.size : Int) then .error (.badArg "densify : no item sketched") else revPasses o fuel pass s

/-- `end_sketch()` : `opt` selects the algorithm; `assert!(res.is_ok())` turns a densify error into a panic -/
def endSketch (o : DensOps F G R) (opt : Bool) (fuel : Nat) (s : Dens F) : Except Err (Dens F) :=
  if s.nbEmpty = 0 then .ok s
  else
    match (if opt then densifyOpt o fuel s else densifyRev o fuel 1 s) with
    | .ok s => .ok s
    | .error (.badArg _) => .error (.assertFail "end_sketch: assert!(res.is_ok())")
    | .error e => .error e

/-- `sketch_slice(items)`: item-wise `sketch`, then densify if some bin is empty -/
def sketchSlice (o : DensOps F G R) (opt : Bool) (fuel : Nat) (s : Dens F) (items : List (Nat × G)) : Except Err (Dens F) :=
  let rec go : List (Nat × G) → Dens F → Except Err (Dens F)
    | [], s => .ok s
    | (h, g) :: rest, s => match s.sketch o h g with | .ok s => go rest s | .error e => .error e
  match go items s with
  | .error e => .error e
  | .ok s => if s.nbEmpty > 0 then (if opt then densifyOpt o fuel s else densifyRev o fuel 1 s) else .ok s

end Dens
end PMH

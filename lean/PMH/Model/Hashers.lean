/-!
# Executable models of the external hash functions called by `probminhash`

Core-only (no imports).  Every definition is a total, computable `def`; loops are `for … in [a:b]`
inside `Id.run do` or `foldl`.  All of them are validated bit-for-bit against the Rust crates by
`validate/` (see `REPORT.txt`).

* FNV-1a 64          — crate `fnv 1.0.7`            (`lib.rs`: `FnvHasher::default/write/finish`)
* MurmurHash3 x86_32 — crate `murmur3 0.5.2`        (`src/murmur3_32.rs`)
* SHA-512/256        — crate `sha2 0.10.9`          (`src/sha512/soft.rs`, `src/consts.rs`, `src/core_api.rs`)
* WyHash (v1 layout) — crate `wyhash 0.5.0`         (`src/functions.rs`, `src/traits.rs`)

Target is the 64-bit little-endian platform the crate is run on: `usize` is 8 bytes and
`to_ne_bytes` = `to_le_bytes`.
-/
namespace PMH.Hashers

/-! ## Byte helpers -/

/-- a `List UInt8` as a `ByteArray` -/
def ofList (l : List UInt8) : ByteArray := ⟨l.toArray⟩

/-- a `ByteArray` as a `List UInt8` -/
def toList (b : ByteArray) : List UInt8 := b.data.toList

/-- `u16::to_le_bytes` -/
def leBytes16 (x : UInt16) : ByteArray :=
  ⟨#[x.toUInt8, (x >>> 8).toUInt8]⟩

/-- `u32::to_le_bytes` (= `to_ne_bytes` on the target) -/
def leBytes32 (x : UInt32) : ByteArray :=
  ⟨#[x.toUInt8, (x >>> 8).toUInt8, (x >>> 16).toUInt8, (x >>> 24).toUInt8]⟩

/-- `u64::to_le_bytes` (= `to_ne_bytes`, and `usize::to_ne_bytes`, on the target) -/
def leBytes64 (x : UInt64) : ByteArray :=
  ⟨#[x.toUInt8, (x >>> 8).toUInt8, (x >>> 16).toUInt8, (x >>> 24).toUInt8,
     (x >>> 32).toUInt8, (x >>> 40).toUInt8, (x >>> 48).toUInt8, (x >>> 56).toUInt8]⟩

/-- byte `i` widened to 64 bits (0 when out of range) -/
@[inline] def b64 (b : ByteArray) (i : Nat) : UInt64 := (b.get! i).toUInt64

/-- byte `i` widened to 32 bits (0 when out of range) -/
@[inline] def b32 (b : ByteArray) (i : Nat) : UInt32 := (b.get! i).toUInt32

/-- `u32::from_le_bytes(b[o..o+4])` -/
@[inline] def le32At (b : ByteArray) (o : Nat) : UInt32 :=
  b32 b o ||| (b32 b (o+1) <<< 8) ||| (b32 b (o+2) <<< 16) ||| (b32 b (o+3) <<< 24)

/-- `u64::from_le_bytes(b[o..o+8])` -/
@[inline] def le64At (b : ByteArray) (o : Nat) : UInt64 :=
  b64 b o ||| (b64 b (o+1) <<< 8) ||| (b64 b (o+2) <<< 16) ||| (b64 b (o+3) <<< 24) |||
  (b64 b (o+4) <<< 32) ||| (b64 b (o+5) <<< 40) ||| (b64 b (o+6) <<< 48) ||| (b64 b (o+7) <<< 56)

/-- `u64::from_be_bytes(b[o..o+8])` -/
@[inline] def be64At (b : ByteArray) (o : Nat) : UInt64 :=
  (b64 b o <<< 56) ||| (b64 b (o+1) <<< 48) ||| (b64 b (o+2) <<< 40) ||| (b64 b (o+3) <<< 32) |||
  (b64 b (o+4) <<< 24) ||| (b64 b (o+5) <<< 16) ||| (b64 b (o+6) <<< 8) ||| b64 b (o+7)

/-- append `x.to_be_bytes()` -/
@[inline] def pushBe64 (out : ByteArray) (x : UInt64) : ByteArray :=
  ((((((((out.push (x >>> 56).toUInt8).push (x >>> 48).toUInt8).push (x >>> 40).toUInt8).push
    (x >>> 32).toUInt8).push (x >>> 24).toUInt8).push (x >>> 16).toUInt8).push
    (x >>> 8).toUInt8).push x.toUInt8)

@[inline] def rotr64 (x k : UInt64) : UInt64 := (x >>> k) ||| (x <<< (64 - k))
@[inline] def rotl32 (x k : UInt32) : UInt32 := (x <<< k) ||| (x >>> (32 - k))

/-! ## 1. FNV-1a 64 (`fnv 1.0.7`) -/

/-- `FnvHasher::default()` : the FNV offset basis -/
def fnvOffset : UInt64 := 0xcbf29ce484222325
/-- the 64-bit FNV prime -/
def fnvPrime : UInt64 := 0x100000001b3

/-- one byte of `FnvHasher::write` : xor then multiply (FNV-1a order) -/
@[inline] def fnvStep (h : UInt64) (b : UInt8) : UInt64 := (h ^^^ b.toUInt64) * fnvPrime

/-- `FnvHasher(h).write(bytes)` : the new state -/
def fnvWrite (h : UInt64) (bytes : ByteArray) : UInt64 := bytes.foldl fnvStep h

/-- `let mut s = FnvHasher::default(); s.write(bytes); s.finish()` -/
def fnv1a (bytes : ByteArray) : UInt64 := fnvWrite fnvOffset bytes

/-- the same on a list of bytes (`List.foldl`, convenient for proofs) -/
def fnv1aL (bytes : List UInt8) : UInt64 := bytes.foldl fnvStep fnvOffset

/-- `BuildHasherDefault::<FnvHasher>::default().hash_one(x)` for `x : u64` **and** `x : usize` :
`Hash for u64/usize` calls `write_u64/write_usize`, whose default bodies are
`self.write(&x.to_ne_bytes())` (8 little-endian bytes). -/
def fnvU64 (x : UInt64) : UInt64 := fnv1a (leBytes64 x)

/-- `hash_one(x)` for `x : u32` (`write_u32` → 4 little-endian bytes) -/
def fnvU32 (x : UInt32) : UInt64 := fnv1a (leBytes32 x)

/-- `hash_one(x)` for `x : u16` (`write_u16` → 2 little-endian bytes) -/
def fnvU16 (x : UInt16) : UInt64 := fnv1a (leBytes16 x)

/-! ## 2. MurmurHash3 x86_32 (`murmur3 0.5.2`, `murmur3_32`) -/

/-- `calc_k` -/
@[inline] def murmurCalcK (k : UInt32) : UInt32 := rotl32 (k * 0xcc9e2d51) 15 * 0x1b873593

/-- `finish(state, processed)` : xor the length, then `fmix32` -/
def murmurFinish (state processed : UInt32) : UInt32 :=
  let h := state ^^^ processed
  let h := h ^^^ (h >>> 16)
  let h := h * 0x85ebca6b
  let h := h ^^^ (h >>> 13)
  let h := h * 0xc2b2ae35
  h ^^^ (h >>> 16)

/-- `murmur3::murmur3_32(&mut Cursor::new(bytes), seed).unwrap()`.
`read_bytes` fills the 4-byte buffer until EOF, so the source is cut in `size / 4` full
little-endian words followed by a tail of `size % 4` bytes. -/
def murmur3_32 (bytes : ByteArray) (seed : UInt32) : UInt32 := Id.run do
  let n := bytes.size
  let nb := n / 4
  let mut st := seed
  for i in [0:nb] do
    st := st ^^^ murmurCalcK (le32At bytes (4 * i))
    st := rotl32 st 13
    st := st * 5 + 0xe6546b64
  let o := 4 * nb
  let r := n % 4
  if r == 3 then
    st := st ^^^ murmurCalcK ((b32 bytes (o+2) <<< 16) ||| (b32 bytes (o+1) <<< 8) ||| b32 bytes o)
  else if r == 2 then
    st := st ^^^ murmurCalcK ((b32 bytes (o+1) <<< 8) ||| b32 bytes o)
  else if r == 1 then
    st := st ^^^ murmurCalcK (b32 bytes o)
  return murmurFinish st (UInt32.ofNat n)

def murmur3_32L (bytes : List UInt8) (seed : UInt32) : UInt32 := murmur3_32 (ofList bytes) seed

/-- the seed hard-wired in `densminhash.rs` -/
def murmurSeed : UInt32 := 127

/-- `murmur3_32(&mut Cursor::new(v.to_ne_bytes()), 127).unwrap()` for `v : u64`
(`densminhash.rs`, the `u32` view of the `u64` signature) -/
def murmurOfU64 (v : UInt64) : UInt32 := murmur3_32 (leBytes64 v) murmurSeed

/-! ## 3. SHA-512/256 (`sha2 0.10.9`, `Sha512_256`) -/

/-- `consts::K64` -/
def sha512K : Array UInt64 := #[
  0x428a2f98d728ae22, 0x7137449123ef65cd, 0xb5c0fbcfec4d3b2f, 0xe9b5dba58189dbbc,
  0x3956c25bf348b538, 0x59f111f1b605d019, 0x923f82a4af194f9b, 0xab1c5ed5da6d8118,
  0xd807aa98a3030242, 0x12835b0145706fbe, 0x243185be4ee4b28c, 0x550c7dc3d5ffb4e2,
  0x72be5d74f27b896f, 0x80deb1fe3b1696b1, 0x9bdc06a725c71235, 0xc19bf174cf692694,
  0xe49b69c19ef14ad2, 0xefbe4786384f25e3, 0x0fc19dc68b8cd5b5, 0x240ca1cc77ac9c65,
  0x2de92c6f592b0275, 0x4a7484aa6ea6e483, 0x5cb0a9dcbd41fbd4, 0x76f988da831153b5,
  0x983e5152ee66dfab, 0xa831c66d2db43210, 0xb00327c898fb213f, 0xbf597fc7beef0ee4,
  0xc6e00bf33da88fc2, 0xd5a79147930aa725, 0x06ca6351e003826f, 0x142929670a0e6e70,
  0x27b70a8546d22ffc, 0x2e1b21385c26c926, 0x4d2c6dfc5ac42aed, 0x53380d139d95b3df,
  0x650a73548baf63de, 0x766a0abb3c77b2a8, 0x81c2c92e47edaee6, 0x92722c851482353b,
  0xa2bfe8a14cf10364, 0xa81a664bbc423001, 0xc24b8b70d0f89791, 0xc76c51a30654be30,
  0xd192e819d6ef5218, 0xd69906245565a910, 0xf40e35855771202a, 0x106aa07032bbd1b8,
  0x19a4c116b8d2d0c8, 0x1e376c085141ab53, 0x2748774cdf8eeb99, 0x34b0bcb5e19b48a8,
  0x391c0cb3c5c95a63, 0x4ed8aa4ae3418acb, 0x5b9cca4f7763e373, 0x682e6ff3d6b2b8a3,
  0x748f82ee5defb2fc, 0x78a5636f43172f60, 0x84c87814a1f0ab72, 0x8cc702081a6439ec,
  0x90befffa23631e28, 0xa4506cebde82bde9, 0xbef9a3f7b2c67915, 0xc67178f2e372532b,
  0xca273eceea26619c, 0xd186b8c721c0c207, 0xeada7dd6cde0eb1e, 0xf57d4f7fee6ed178,
  0x06f067aa72176fba, 0x0a637dc5a2c898a6, 0x113f9804bef90dae, 0x1b710b35131c471b,
  0x28db77f523047d84, 0x32caab7b40c72493, 0x3c9ebe0a15c9bebc, 0x431d67c49c100d4c,
  0x4cc5d4becb3e42b6, 0x597f299cfc657e2a, 0x5fcb6fab3ad6faec, 0x6c44198c4a475817]

/-- `consts::H512_256` : the initial state of SHA-512/256 -/
def sha512_256IV : Array UInt64 := #[
  0x22312194fc2bf72c, 0x9f555fa3c84c64c2, 0x2393b86b6f53b151, 0x963877195940eabd,
  0x96283ee2a88effe3, 0xbe5e1e2553863992, 0x2b0199fc2c85b8aa, 0x0eb72ddc81c52ca2]

/-- the message schedule `W[0..80]` of the 128-byte block starting at `off` -/
def sha512Schedule (msg : ByteArray) (off : Nat) : Array UInt64 := Id.run do
  let mut w : Array UInt64 := Array.replicate 80 0
  for t in [0:16] do
    w := w.set! t (be64At msg (off + 8 * t))
  for t in [16:80] do
    let w15 := w[t - 15]!
    let w2 := w[t - 2]!
    let s0 := rotr64 w15 1 ^^^ rotr64 w15 8 ^^^ (w15 >>> 7)
    let s1 := rotr64 w2 19 ^^^ rotr64 w2 61 ^^^ (w2 >>> 6)
    w := w.set! t (w[t - 16]! + s0 + w[t - 7]! + s1)
  return w

/-- the SHA-512 compression function on the 128-byte block of `msg` starting at `off` -/
def sha512Compress (h : Array UInt64) (msg : ByteArray) (off : Nat) : Array UInt64 := Id.run do
  let w := sha512Schedule msg off
  let mut a := h[0]!
  let mut b := h[1]!
  let mut c := h[2]!
  let mut d := h[3]!
  let mut e := h[4]!
  let mut f := h[5]!
  let mut g := h[6]!
  let mut hh := h[7]!
  for t in [0:80] do
    let bigS1 := rotr64 e 14 ^^^ rotr64 e 18 ^^^ rotr64 e 41
    let ch := (e &&& f) ^^^ ((~~~ e) &&& g)
    let t1 := hh + bigS1 + ch + sha512K[t]! + w[t]!
    let bigS0 := rotr64 a 28 ^^^ rotr64 a 34 ^^^ rotr64 a 39
    let maj := (a &&& b) ^^^ (a &&& c) ^^^ (b &&& c)
    let t2 := bigS0 + maj
    hh := g
    g := f
    f := e
    e := d + t1
    d := c
    c := b
    b := a
    a := t1 + t2
  return #[h[0]! + a, h[1]! + b, h[2]! + c, h[3]! + d, h[4]! + e, h[5]! + f, h[6]! + g, h[7]! + hh]

/-- SHA-512 padding: `msg ‖ 0x80 ‖ 0…0 ‖ (8·len as 128-bit big-endian)`, a multiple of 128 bytes -/
def sha512Pad (msg : ByteArray) : ByteArray := Id.run do
  let n := msg.size
  let r := (n + 17) % 128
  let z := if r == 0 then 0 else 128 - r
  let mut out := msg.push 0x80
  for _ in [0:z] do
    out := out.push 0
  let bits := 8 * n
  for i in [0:16] do
    out := out.push (UInt8.ofNat (bits >>> (8 * (15 - i))))
  return out

/-- the final 8-word state after absorbing the padded message, from initial state `iv` -/
def sha512State (iv : Array UInt64) (msg : ByteArray) : Array UInt64 := Id.run do
  let p := sha512Pad msg
  let mut h := iv
  for i in [0:p.size / 128] do
    h := sha512Compress h p (128 * i)
  return h

/-- `let mut s = Sha512_256::new(); s.update(msg); s.finalize()` : the 32-byte digest
(big-endian serialisation of the first four state words) -/
def sha512_256 (msg : ByteArray) : ByteArray :=
  let h := sha512State sha512_256IV msg
  pushBe64 (pushBe64 (pushBe64 (pushBe64 (ByteArray.emptyWithCapacity 32) h[0]!) h[1]!) h[2]!) h[3]!

def sha512_256L (msg : List UInt8) : List UInt8 := toList (sha512_256 (ofList msg))

/-- `probminhash3sha.rs` : `hasher.update(&key.get_sig()); let new_hash = hasher.finalize();
seed.copy_from_slice(&new_hash.as_slice()[..32])` — the `[u8; 32]` handed to
`Xoshiro256PlusPlus::from_seed`.  The digest is exactly 32 bytes, so the slice is the whole digest. -/
def shaSeed (sig : ByteArray) : ByteArray := (sha512_256 sig).extract 0 32

def shaSeedL (sig : List UInt8) : List UInt8 := toList (shaSeed (ofList sig))

/-- `read_u64_into(&seed, &mut state)` in `Xoshiro256PlusPlus::from_seed` : the four little-endian
words `s[0..4]` of a 32-byte seed (before `deal_with_zero_seed!`, which only fires on an all-zero
seed). -/
def seedWords (seed : ByteArray) : UInt64 × UInt64 × UInt64 × UInt64 :=
  (le64At seed 0, le64At seed 8, le64At seed 16, le64At seed 24)

/-- the Xoshiro256++ state words obtained from an item signature in `probminhash3sha.rs` -/
def shaSeedWords (sig : ByteArray) : UInt64 × UInt64 × UInt64 × UInt64 := seedWords (shaSeed sig)

/-! ## 4. WyHash (`wyhash 0.5.0`) -/

def wyP0 : UInt64 := 0xa0761d6478bd642f
def wyP1 : UInt64 := 0xe7037ed1a0b428db
def wyP2 : UInt64 := 0x8ebc6af09c88c6e3
def wyP3 : UInt64 := 0x589965cc75374cc3
def wyP4 : UInt64 := 0x1d8e4e27c47d124f
def wyP5 : UInt64 := 0xeb44accab455d165

/-- high 64 bits of the 128-bit product `a * b` (schoolbook on 32-bit halves) -/
@[inline] def mulHi64 (a b : UInt64) : UInt64 :=
  let m : UInt64 := 0xffffffff
  let al := a &&& m
  let ah := a >>> 32
  let bl := b &&& m
  let bh := b >>> 32
  let ll := al * bl
  let lh := al * bh
  let hl := ah * bl
  let hh := ah * bh
  let carry := ((ll >>> 32) + (lh &&& m) + (hl &&& m)) >>> 32
  hh + (lh >>> 32) + (hl >>> 32) + carry

/-- `wymum` : `let r = a as u128 * b as u128; ((r >> 64) ^ r) as u64` -/
@[inline] def wymum (a b : UInt64) : UInt64 := mulHi64 a b ^^^ (a * b)

/-- `read32` -/
@[inline] def wyRead32 (b : ByteArray) (o : Nat) : UInt64 :=
  (b64 b (o+3) <<< 24) ||| (b64 b (o+2) <<< 16) ||| (b64 b (o+1) <<< 8) ||| b64 b o

/-- `read64` -/
@[inline] def wyRead64 (b : ByteArray) (o : Nat) : UInt64 := le64At b o

/-- `read64_swapped` : the two 32-bit halves exchanged -/
@[inline] def wyRead64Swapped (b : ByteArray) (o : Nat) : UInt64 :=
  (wyRead32 b o <<< 32) ||| wyRead32 b (o + 4)

/-- `read_rest(&data[o..o+len])`, `1 ≤ len ≤ 8` (the Rust code panics otherwise; here 0) -/
def wyReadRest (b : ByteArray) (o len : Nat) : UInt64 :=
  match len with
  | 1 => b64 b o
  | 2 => (b64 b (o+1) <<< 8) ||| b64 b o
  | 3 => (b64 b (o+1) <<< 16) ||| (b64 b o <<< 8) ||| b64 b (o+2)
  | 4 => wyRead32 b o
  | 5 => (wyRead32 b o <<< 8) ||| b64 b (o+4)
  | 6 => (wyRead32 b o <<< 16) ||| (b64 b (o+5) <<< 8) ||| b64 b (o+4)
  | 7 => (wyRead32 b o <<< 24) ||| (b64 b (o+5) <<< 16) ||| (b64 b (o+4) <<< 8) ||| b64 b (o+6)
  | 8 => wyRead64Swapped b o
  | _ => 0

/-- `wyhash_core(bytes, seed)` -/
def wyhashCore (bytes : ByteArray) (seed : UInt64) : UInt64 := Id.run do
  let n := bytes.size
  let mut s := seed
  for i in [0:n / 32] do
    let o := 32 * i
    s := wymum (s ^^^ wyP0)
          (wymum (wyRead64 bytes o ^^^ wyP1) (wyRead64 bytes (o + 8) ^^^ wyP2) ^^^
           wymum (wyRead64 bytes (o + 16) ^^^ wyP3) (wyRead64 bytes (o + 24) ^^^ wyP4))
  s := s ^^^ wyP0
  let rest := n % 32
  if rest != 0 then
    let st := n - rest
    let q := (rest - 1) / 8
    if q == 0 then
      s := wymum s (wyReadRest bytes st rest ^^^ wyP1)
    else if q == 1 then
      s := wymum (wyRead64Swapped bytes st ^^^ s) (wyReadRest bytes (st + 8) (rest - 8) ^^^ wyP2)
    else if q == 2 then
      s := wymum (wyRead64Swapped bytes st ^^^ s) (wyRead64Swapped bytes (st + 8) ^^^ wyP2) ^^^
           wymum s (wyReadRest bytes (st + 16) (rest - 16) ^^^ wyP3)
    else
      s := wymum (wyRead64Swapped bytes st ^^^ s) (wyRead64Swapped bytes (st + 8) ^^^ wyP2) ^^^
           wymum (wyRead64Swapped bytes (st + 16) ^^^ s) (wyReadRest bytes (st + 24) (rest - 24) ^^^ wyP4)
  return s

/-- `wyhash_finish(length, seed)` -/
def wyhashFinish (length seed : UInt64) : UInt64 := wymum seed (length ^^^ wyP5)

/-- one-shot `wyhash::wyhash(bytes, seed)` -/
def wyhash (bytes : ByteArray) (seed : UInt64) : UInt64 :=
  wyhashFinish bytes.size.toUInt64 (wyhashCore bytes seed)

/-- the streaming hasher `wyhash::WyHash` -/
structure WyHash where
  h : UInt64
  size : UInt64
  deriving Repr, BEq, Inhabited

/-- `WyHash::with_seed(seed)` -/
def WyHash.withSeed (seed : UInt64) : WyHash := ⟨seed, 0⟩

/-- `Hasher::write(bytes)` : every call runs a complete `wyhash_core` on its own slice, chained
through `h` (so the result depends on how the input is split across calls); an empty slice only
xors `P0` in. (`chunks(u64::MAX as usize)` is a single chunk.) -/
def WyHash.write (s : WyHash) (bytes : ByteArray) : WyHash :=
  if bytes.size == 0 then { s with h := s.h ^^^ wyP0 }
  else ⟨wyhashCore bytes s.h, s.size + bytes.size.toUInt64⟩

/-- `Hasher::write_u64(x)` (default body: `self.write(&x.to_ne_bytes())`) -/
def WyHash.writeU64 (s : WyHash) (x : UInt64) : WyHash := s.write (leBytes64 x)

/-- `Hasher::finish()` -/
def WyHash.finish (s : WyHash) : UInt64 := wyhashFinish s.size s.h

/-- `OrdMinHashStore::new` : the fixed `wyhash_seed` (until `change_wyhash_seed` is called) -/
def wyDefaultSeed : UInt64 := 0xcf7355744a6e8145

/-- The combiner of `OrdMinHashStore::create_signature` (`probordminhash2.rs`), one slot:
`let mut c = WyHash::with_seed(self.wyhash_seed);` then, for the `l` selected data indices in
increasing order, `c.write_u64(b_hasher.hash_one(&data[idx]))`; finally `c.finish()`.
`vals` are the element hashes in the order written. -/
def wyCombine (seed : UInt64) (vals : List UInt64) : UInt64 :=
  (vals.foldl WyHash.writeU64 (WyHash.withSeed seed)).finish

/-- closed form of the state update done by one `write_u64(x)` : an 8-byte slice has no 32-byte
chunk and falls in the `read_rest` length-8 case, i.e. `x` with its 32-bit halves exchanged. -/
@[inline] def wyStepU64 (h x : UInt64) : UInt64 :=
  wymum (h ^^^ wyP0) (((x <<< 32) ||| (x >>> 32)) ^^^ wyP1)

/-- closed form of `wyCombine` (validated equal to it and to the crate on every vector) -/
def wyCombineFast (seed : UInt64) (vals : List UInt64) : UInt64 :=
  wyhashFinish (8 * vals.length.toUInt64) (vals.foldl wyStepU64 seed)

end PMH.Hashers

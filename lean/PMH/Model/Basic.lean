/-!
# Shared conventions of the executable models (core Lean only — no Mathlib, no Batteries)

Every model operation that mirrors a Rust function which can `panic!` (an `assert!`, an `unwrap`,
an out-of-range index) returns `Except Err σ`; `Err` names the Rust site.  A loop whose termination
depends on data takes a fuel argument and returns `Err.fuel` when it runs out.
-/
namespace PMH

inductive Err where
  | assertFail (site : String)
  | oob (site : String)
  | fuel (site : String)
  | badArg (site : String)
  deriving Repr, DecidableEq, Inhabited

def Err.toString : Err → String
  | .assertFail s => "PANIC assert " ++ s
  | .oob s => "PANIC index " ++ s
  | .fuel s => "HANG " ++ s
  | .badArg s => "ERR " ++ s

instance : ToString Err := ⟨Err.toString⟩

/-- Ordered scalar with a largest element, as used by the trackers (`MaxValue` trait in Rust).
`lt` is the only comparison the models use: Rust's `a <= b` on non-NaN floats is `¬ (b < a)`. -/
class OrdTop (α : Type) where
  lt : α → α → Bool
  top : α

end PMH

import PMH.Model.Prng
import PMH.Model.ZigTables
/-!
# `rand_distr::Exp1` (ziggurat, `rand_distr 0.5.1`) on Xoshiro256++ — executable only

`ziggurat(rng, symmetric=false, ZIG_EXP_X, ZIG_EXP_F, pdf = exp(-x), zero_case = R - ln(random::<f64>()))`
with `random::<f64>()` = `(next_u64 >> 11) as f64 * 2^-53`.
In the theorems an `Exp1` sample is just a positive scalar supplied by the item's stream.
-/
namespace PMH

/-- `StandardUniform` for `f64` -/
def std01 (g : Xo) : Float × Xo :=
  let (u, g) := g.next
  (Float.ofBits 0x3CA0000000000000 * (u >>> 11).toNat.toFloat, g)

def exp1Loop : Nat → Xo → Except Err (Float × Xo)
  | 0, _ => .error (.fuel "Exp1 ziggurat")
  | f + 1, g =>
    let (bits, g) := g.next
    let i := (bits &&& 0xff).toNat
    let u := Float.ofBits ((bits >>> 12) ||| 0x3FF0000000000000) - (1.0 - Float.ofBits 0x3CA0000000000000)
    let xi := Float.ofBits (Zig.expXBits[i]!)
    let xi1 := Float.ofBits (Zig.expXBits[i + 1]!)
    let x := u * xi
    if x < xi1 then .ok (x, g)
    else if i == 0 then
      let (r, g) := std01 g
      .ok (Zig.expR - Float.log r, g)
    else
      let fi := Float.ofBits (Zig.expFBits[i]!)
      let fi1 := Float.ofBits (Zig.expFBits[i + 1]!)
      let (r, g) := std01 g
      if fi1 + (fi - fi1) * r < Float.exp (-x) then .ok (x, g) else exp1Loop f g

def exp1 (g : Xo) : Except Err (Float × Xo) := exp1Loop 1000 g

end PMH

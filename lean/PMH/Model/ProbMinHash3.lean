import PMH.Model.MaxTracker
import PMH.Model.Exp01
/-!
# Model of `ProbMinHash3::hash_item` and of the two-pass `ProbMinHash3a` / `ProbMinHash3aSha` batch

An item arrives as `(id, weight, g0)` where `g0` is its private generator state (the code seeds
Xoshiro256++ with the item's 64-bit hash, or with its Sha512/256 digest).  `Src` is what the loop
draws from that generator: `nextX` = one `ExpRestricted01` sample, `nextK` = one `Uniform<usize>(0,m)`.
Registers live in the max tracker (leaves), identities in `sig`.
-/
namespace PMH

structure Src (F G : Type) where
  nextX : G → Except Err (F × G)
  nextK : G → Except Err (Nat × G)

structure PMH3 (F G : Type) where
  m : Nat
  tracker : Tracker F
  sig : Array Nat
  /-- `to_be_processed` of the 3a variants: (id, 1/weight, generator) -/
  tbp : Array (Nat × F × G)

namespace PMH3
variable {F G : Type} [Add F] [Mul F] [Div F] [LT F] [DecidableLT F] [NatCast F]

/-- `new(nbhash, initobj)`; `assert!(nbhash >= 2)` -/
def new (top : F) (m : Nat) (initobj : Nat) : Except Err (PMH3 F G) :=
  if m < 2 then .error (.assertFail "probminhash3 nbhash >= 2")
  else .ok { m := m, tracker := Tracker.new top m, sig := Array.replicate m initobj, tbp := #[] }

/-- `if h < value(k) { signature[k] = id; tracker.update(k, h); qmax = get_max_value() }` -/
def offer (s : PMH3 F G) (k : Nat) (h : F) (id : Nat) (qmax : F) : Except Err (PMH3 F G × F) :=
  match s.tracker.getValue k with
  | .error e => .error e
  | .ok vk =>
    if h < vk then
      match s.tracker.update k h with
      | .error e => .error e
      | .ok t =>
        match t.getMax with
        | .error e => .error e
        | .ok q => .ok ({ s with sig := s.sig.setIfInBounds k id, tracker := t }, q)
    else .ok (s, qmax)

/-- the `while h < qmax { … }` loop of `ProbMinHash3::hash_item` -/
def itemLoop (src : Src F G) (id : Nat) (winv : F) : Nat → PMH3 F G → F → Nat → F → G → Except Err (PMH3 F G)
  | 0, _, _, _, _, _ => .error (.fuel "probminhash3.hash_item")
  | fuel + 1, s, h, i, qmax, g =>
    if h < qmax then
      match src.nextK g with
      | .error e => .error e
      | .ok (k, g) =>
        if ¬ (k < s.m) then .error (.assertFail "probminhash3 k < m") else
        match s.offer k h id qmax with
        | .error e => .error e
        | .ok (s, qmax) =>
          let h := winv * ((i : Nat) : F)
          if ¬ (h < qmax) then .ok s           -- `if h >= qmax { break }`
          else
            match src.nextX g with
            | .error e => .error e
            | .ok (x, g) => itemLoop src id winv fuel s (h + winv * x) (i + 1) qmax g
    else .ok s

/-- `ProbMinHash3::hash_item(id, weight)` with the item's generator `g0` -/
def hashItem (src : Src F G) (fuel : Nat) (s : PMH3 F G) (id : Nat) (w : F) (g0 : G) : Except Err (PMH3 F G) :=
  if ¬ (((0 : Nat) : F) < w) then .error (.assertFail "probminhash3 weight > 0") else
  let winv := ((1 : Nat) : F) / w
  match src.nextX g0 with
  | .error e => .error e
  | .ok (x, g) =>
    match s.tracker.getMax with
    | .error e => .error e
    | .ok qmax => itemLoop src id winv fuel s (winv * x) 1 qmax g

/-- first pass of the 3a batch over the items in iteration order -/
def firstPass (src : Src F G) (okWeight : F → Bool) : List (Nat × F × G) → PMH3 F G → F → Except Err (PMH3 F G × F)
  | [], s, qmax => .ok (s, qmax)
  | (id, w, g0) :: rest, s, _ =>
    if ¬ okWeight w then .error (.assertFail "probminhash3a weight finite and >= 0") else
    let winv := ((1 : Nat) : F) / w
    match src.nextX g0 with
    | .error e => .error e
    | .ok (x, g) =>
      let h := winv * x
      match s.tracker.getMax with
      | .error e => .error e
      | .ok qmax =>
        if h < qmax then
          match src.nextK g with
          | .error e => .error e
          | .ok (k, g) =>
            if ¬ (k < s.m) then .error (.assertFail "probminhash3a k < m") else
            match s.offer k h id qmax with
            | .error e => .error e
            | .ok (s, qmax) =>
              let s := if winv < qmax then { s with tbp := s.tbp.push (id, winv, g) } else s
              firstPass src okWeight rest s qmax
        else firstPass src okWeight rest s qmax

/-- one `for j in 0..to_be_processed.len()` sweep of round `i`; `kept` is the compacted prefix -/
def roundPass (src : Src F G) (i : Nat) : List (Nat × F × G) → PMH3 F G → F → Array (Nat × F × G) →
    Except Err (PMH3 F G × F × Array (Nat × F × G))
  | [], s, qmax, kept => .ok (s, qmax, kept)
  | (id, winv, g) :: rest, s, qmax, kept =>
    let h := winv * (((i - 1 : Nat)) : F)
    match s.tracker.getMax with
    | .error e => .error e
    | .ok mx =>
      if h < mx then
        match src.nextX g with
        | .error e => .error e
        | .ok (x, g) =>
          let h := h + winv * x
          match src.nextK g with
          | .error e => .error e
          | .ok (k, g) =>
            match s.offer k h id qmax with
            | .error e => .error e
            | .ok (s, qmax) =>
              let kept := if winv * ((i : Nat) : F) < qmax then kept.push (id, winv, g) else kept
              roundPass src i rest s qmax kept
      else roundPass src i rest s qmax kept

/-- `while !to_be_processed.is_empty() { … i += 1 }` -/
def rounds (src : Src F G) : Nat → Nat → PMH3 F G → F → Except Err (PMH3 F G)
  | 0, _, _, _ => .error (.fuel "probminhash3a rounds")
  | fuel + 1, i, s, qmax =>
    if s.tbp.isEmpty then .ok s
    else
      match roundPass src i s.tbp.toList s qmax #[] with
      | .error e => .error e
      | .ok (s, qmax, kept) => rounds src fuel (i + 1) { s with tbp := kept } qmax

/-- `ProbMinHash3a::hash_weigthed_idxmap` / `_hashmap` (and the Sha variant) on the items in iteration order -/
def hashBatch (src : Src F G) (okWeight : F → Bool) (fuel : Nat) (s : PMH3 F G) (items : List (Nat × F × G)) :
    Except Err (PMH3 F G) :=
  match s.tracker.getMax with
  | .error e => .error e
  | .ok qmax0 =>
    match firstPass src okWeight items s qmax0 with
    | .error e => .error e
    | .ok (s, qmax) => rounds src fuel 2 s qmax

end PMH3
end PMH

import PMH.Model.Basic
/-!
# Model of `SetSketchParams::{dump_json, reload_json}` at the byte level

`dump_json` writes `{"b":<b>,"m":<m>,"a":<a>,"q":<q>}` (serde_json, field order of the struct).
The two floats are opaque *number tokens* (what ryu prints is external); `m`, `q` are decimal.
`parse` accepts exactly that shape followed by optional JSON whitespace — which is all that is
needed to decide the fate of every prefix of a dumped file (the crash-point clause of C20).
-/
namespace PMH.PJ

def numChar (c : Char) : Bool :=
  c.isDigit || c == '.' || c == 'e' || c == 'E' || c == '+' || c == '-'

def isWs (c : Char) : Bool := c == ' ' || c == '\n' || c == '\t' || c == '\r'

def litB : List Char := "{\"b\":".toList
def litM : List Char := ",\"m\":".toList
def litA : List Char := ",\"a\":".toList
def litQ : List Char := ",\"q\":".toList

def fmtNat (n : Nat) : List Char := Nat.toDigits 10 n

/-- the bytes `dump_json` writes, given the two float tokens -/
def serialize (bv : List Char) (m : Nat) (av : List Char) (q : Nat) : List Char :=
  litB ++ bv ++ litM ++ fmtNat m ++ litA ++ av ++ litQ ++ fmtNat q ++ ['}']

def expect (pre s : List Char) : Option (List Char) :=
  if pre.isPrefixOf s then some (s.drop pre.length) else none

/-- decimal `u64` token: non-empty, digits only, below 2^64 (serde_json also rejects a leading
zero; irrelevant on prefixes of a dumped file, which is the domain this model is used on) -/
def parseNat (cs : List Char) : Option Nat :=
  if cs.isEmpty || !cs.all Char.isDigit then none
  else
    let n := Nat.ofDigitChars 10 cs 0
    if n < 18446744073709551616 then some n else none

/-- a float token must at least be non-empty and start like a JSON number -/
def okNum (cs : List Char) : Bool :=
  match cs with
  | [] => false
  | c :: _ => c.isDigit || c == '-'

def parse (s : List Char) : Except Err (List Char × Nat × List Char × Nat) :=
  let bad : Except Err (List Char × Nat × List Char × Nat) := .error (.badArg "reload_json: parse error")
  match expect litB s with
  | none => bad
  | some s1 =>
    let bv := s1.takeWhile numChar
    match expect litM (s1.dropWhile numChar) with
    | none => bad
    | some s2 =>
      let ms := s2.takeWhile Char.isDigit
      match expect litA (s2.dropWhile Char.isDigit) with
      | none => bad
      | some s3 =>
        let av := s3.takeWhile numChar
        match expect litQ (s3.dropWhile numChar) with
        | none => bad
        | some s4 =>
          let qs := s4.takeWhile Char.isDigit
          match expect ['}'] (s4.dropWhile Char.isDigit) with
          | none => bad
          | some s5 =>
            if !s5.all isWs then bad else
            match parseNat ms, parseNat qs with
            | some m, some q => if okNum bv && okNum av then .ok (bv, m, av, q) else bad
            | _, _ => bad

end PMH.PJ

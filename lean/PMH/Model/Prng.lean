import PMH.Model.Basic
/-!
# Pseudo-random generators and `rand 0.9` distributions used by the sketchers (executable model)

* `Xo`: Xoshiro256++ (`rand_xoshiro 0.7`), `seed_from_u64` through SplitMix64, `from_seed` of 32 bytes.
* `unif01` : `Uniform::<f64>::new(0.,1.)` — `((u >> 12) | 0x3FF0…) as f64 - 1.0` (scale 1, offset 0).
* `unif01f32` : same for `f32` with `next_u32() >> 9`.
* `unifUsize lo hi` : `Uniform::<usize>::new(lo, hi)` — 32-bit Lemire widening multiply with rejection
  when `hi-1 ≤ u32::MAX`, 64-bit otherwise.
* `unifU64 lo hi` : `Uniform::<u64>::new(lo, hi)`.
All of them are validated bit-for-bit against the crates by the correspondence runs.
-/
namespace PMH

structure Xo where
  s0 : UInt64
  s1 : UInt64
  s2 : UInt64
  s3 : UInt64
  deriving Repr, BEq, Inhabited

def rotl (x : UInt64) (k : UInt64) : UInt64 := (x <<< k) ||| (x >>> (64 - k))

def splitmix (x : UInt64) : UInt64 × UInt64 :=
  let x := x + 0x9e3779b97f4a7c15
  let z := x
  let z := (z ^^^ (z >>> 30)) * 0xbf58476d1ce4e5b9
  let z := (z ^^^ (z >>> 27)) * 0x94d049bb133111eb
  (z ^^^ (z >>> 31), x)

namespace Xo

def next (g : Xo) : UInt64 × Xo :=
  let r := rotl (g.s0 + g.s3) 23 + g.s0
  let t := g.s1 <<< 17
  let s2 := g.s2 ^^^ g.s0
  let s3 := g.s3 ^^^ g.s1
  let s1 := g.s1 ^^^ s2
  let s0 := g.s0 ^^^ s3
  let s2 := s2 ^^^ t
  let s3 := rotl s3 45
  (r, ⟨s0, s1, s2, s3⟩)

def seedFromU64 (seed : UInt64) : Xo :=
  let (a, x) := splitmix seed
  let (b, x) := splitmix x
  let (c, x) := splitmix x
  let (d, _) := splitmix x
  if a == 0 && b == 0 && c == 0 && d == 0 then
    -- `deal_with_zero_seed!`: cannot happen for SplitMix64 outputs, kept for fidelity
    ⟨0xe220a8397b1dcdaf, 0x6e789e6aa1b965f4, 0x06c45d188009454f, 0xf88bb8a8724c81ec⟩
  else ⟨a, b, c, d⟩

/-- `from_seed` of the 32 bytes read as four little-endian words -/
def fromWords (a b c d : UInt64) : Xo :=
  if a == 0 && b == 0 && c == 0 && d == 0 then seedFromU64 0 else ⟨a, b, c, d⟩

def nextU32 (g : Xo) : UInt64 × Xo :=
  let (u, g) := g.next
  (u >>> 32, g)

end Xo

/-- `Uniform<f64>[0,1)` from one raw word -/
def unif01OfU64 (u : UInt64) : Float := Float.ofBits ((u >>> 12) ||| 0x3FF0000000000000) - 1.0
def unif01 (g : Xo) : Float × Xo := let (u, g) := g.next; (unif01OfU64 u, g)

def unif01f32OfU64 (u : UInt64) : Float32 :=
  Float32.ofBits ((((u >>> 32).toUInt32) >>> 9) ||| 0x3F800000) - 1.0
def unif01f32 (g : Xo) : Float32 × Xo := let (u, g) := g.next; (unif01f32OfU64 u, g)

def two32 : Nat := 4294967296
def two64 : Nat := 18446744073709551616

/-- rejection loop of the Lemire sampler on `bits`-bit words -/
def lemire (bits : Nat) (range thresh : Nat) : Nat → Xo → Except Err (Nat × Xo)
  | 0, _ => .error (.fuel "uniform int rejection loop")
  | f + 1, g =>
    let (u, g) := g.next
    let w := if bits = 32 then (u >>> 32).toNat else u.toNat
    let prod := w * range
    let hi := prod / (2 ^ bits)
    let lo := prod % (2 ^ bits)
    if lo ≥ thresh then .ok (hi, g) else lemire bits range thresh f g

/-- `Uniform::<usize>::new(lo, hi).sample(rng)`; `lo < hi` is the constructor's `unwrap` -/
def unifUsize (lo hi : Nat) (g : Xo) : Except Err (Nat × Xo) :=
  if ¬ (lo < hi) then .error (.badArg "Uniform::new empty range") else
  let high := hi - 1
  if high ≤ 4294967295 then
    let range := (high - lo + 1) % two32
    if range = 0 then let (u, g) := g.nextU32; .ok (u.toNat, g) else
    let thresh := (two32 - range) % range
    match lemire 32 range thresh 1000 g with
    | .ok (h, g) => .ok (lo + h, g)
    | .error e => .error e
  else
    let range := (high - lo + 1) % two64
    if range = 0 then let (u, g) := g.next; .ok (u.toNat, g) else
    let thresh := (two64 - range) % range
    match lemire 64 range thresh 1000 g with
    | .ok (h, g) => .ok ((lo + h) % two64, g)
    | .error e => .error e

/-- `Uniform::<u64>::new(lo, hi).sample(rng)` -/
def unifU64 (lo hi : Nat) (g : Xo) : Except Err (Nat × Xo) :=
  if ¬ (lo < hi) then .error (.badArg "Uniform::new empty range") else
  let range := (hi - 1 - lo + 1) % two64
  if range = 0 then let (u, g) := g.next; .ok (u.toNat, g) else
  let thresh := (two64 - range) % range
  match lemire 64 range thresh 1000 g with
  | .ok (h, g) => .ok ((lo + h) % two64, g)
  | .error e => .error e

end PMH

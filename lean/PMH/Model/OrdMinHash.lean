import PMH.Model.MaxTracker
import PMH.Model.FYShuffle
import PMH.Model.Hashers
/-!
# Model of `ProbOrdMinHash2` / `OrdMinHashStore` (`src/probminhasher/probordminhash2.rs`)

`hash_set(data)`: clears counter, store and tracker; for element `i` with hash `h` and occurrence
number `c` a generator is seeded from `(h, c, seed)`; its non-decreasing values `x` go to fresh
Fisher–Yates slots `k`; slot `k` keeps the `l` smallest `(value, index)` pairs in a sorted block
(`update_with_maxtracker`), the tracker holding each block's largest kept value.
`create_signature` sorts each block's indices and hashes the elements in that order with WyHash —
external; the model stops at the sorted index blocks.
-/
namespace PMH

structure OrdOps (F G : Type) where
  nextE : G → Except Err (F × G)        -- `Exp1`
  nextU : G → UInt64 × G                 -- raw word for `FYshuffle::next`
  offsetOf : UInt64 → Nat → Nat
  /-- generator seeded from `(id_hash, count, seed)` -/
  mkGen : UInt64 → UInt64 → UInt64 → G

structure OrdMH (F : Type) where
  m : Nat
  l : Nat
  indices : Array Nat          -- m*l, `u64::MAX` when free
  values : Array F             -- m*l, sorted increasingly inside each block
  tracker : Tracker F
  g : Array F                  -- g[i-1] = m / (m - i)
  fy : FY
  seed : UInt64

namespace OrdMH
variable {F G : Type} [Add F] [Mul F] [Div F] [LT F] [DecidableLT F] [NatCast F]

def u64Max : Nat := 18446744073709551615

/-- `ProbOrdMinHash2::new(m, l)` with the seed as a parameter (the code draws it from `ThreadRng`) -/
def new (top : F) (m l : Nat) (seed : UInt64) : Except Err (OrdMH F) :=
  if ¬ (l < 16) then .error (.assertFail "ordminhash l < 16") else
  .ok { m := m, l := l, indices := Array.replicate (m * l) u64Max, values := Array.replicate (m * l) top,
        tracker := Tracker.new top m, g := (Array.range (m - 1)).map (fun i => ((m : Nat) : F) / (((m - (i + 1) : Nat)) : F)),
        fy := FY.new m, seed := seed }

/-- shifting loop of `update_with_maxtracker`: insert `(value, idx)` into the sorted block -/
def insertAt (first : Nat) (value : F) : Nat → Nat → Array F → Array Nat → Array F × Array Nat × Nat
  | 0, a, vals, idxs => (vals, idxs, a)
  | f + 1, a, vals, idxs =>
    if decide (a > first) && (match vals[a - 1]? with | some v => decide (value < v) | none => false) then
      insertAt first value f (a - 1) (vals.setIfInBounds a (vals.getD (a - 1) value)) (idxs.setIfInBounds a (idxs.getD (a - 1) 0))
    else (vals, idxs, a)

/-- `update_with_maxtracker(permuted_idx, value, data_idx, tracker)` -/
def update (s : OrdMH F) (k : Nat) (value : F) (dataIdx : Nat) : Except Err (OrdMH F × Bool) :=
  if ¬ (k < s.m) then .error (.assertFail "ordminhash permuted_idx < m") else
  if s.l = 0 then .error (.oob "ordminhash l - 1") else
  let first := k * s.l
  let last := first + s.l - 1
  match s.values[last]? with
  | none => .error (.oob "ordminhash values[last]")
  | some vlast =>
    if value < vlast then
      let (vals, idxs, a) := insertAt first value s.l last s.values s.indices
      let vals := vals.setIfInBounds a value
      let idxs := idxs.setIfInBounds a dataIdx
      match vals[last]? with
      | none => .error (.oob "ordminhash values[last]")
      | some nl =>
        match s.tracker.update k nl with
        | .error e => .error e
        | .ok t => .ok ({ s with values := vals, indices := idxs, tracker := t }, true)
    else .ok (s, false)

/-- the `while x < max { … }` loop for one element; a value rejected by its slot does not end the loop -/
def elemLoop (o : OrdOps F G) (i : Nat) : Nat → OrdMH F → F → Nat → G → Except Err (OrdMH F)
  | 0, _, _, _, _ => .error (.fuel "ordminhash.hash_set element loop")
  | fuel + 1, s, x, nbIns, g =>
    match s.tracker.getMax with
    | .error e => .error e
    | .ok mx =>
      if x < mx then
        let (u, g) := o.nextU g
        match s.fy.nextOff (o.offsetOf u (s.fy.m - s.fy.cursor)) with
        | .error e => .error e
        | .ok (k, fy) =>
          let s := { s with fy := fy }
          match s.update k x i with
          | .error e => .error e
          | .ok (s, _inserted) =>
              match s.tracker.isUpdatePossible x with
              | .error e => .error e
              | .ok false => .ok s
              | .ok true =>
                if nbIns + 1 ≥ s.m then .ok s
                else
                  match o.nextE g with
                  | .error e => .error e
                  | .ok (y, g) =>
                    match s.g[nbIns]? with
                    | none => .error (.oob "ordminhash g[nb_inserted]")
                    | some gi => elemLoop o i fuel s (x + y * gi) (nbIns + 1) g
      else .ok s

/-- occurrence counting (`counter: HashMap<u64,u64>`) as an association list -/
def bump (c : List (UInt64 × Nat)) (h : UInt64) : List (UInt64 × Nat) × Nat :=
  match c.find? (fun p => p.1 == h) with
  | some (_, n) => (c.map (fun p => if p.1 == h then (p.1, n + 1) else p), n + 1)
  | none => ((h, 1) :: c, 1)

def setLoop (o : OrdOps F G) : List UInt64 → Nat → List (UInt64 × Nat) → OrdMH F → Except Err (OrdMH F)
  | [], _, _, s => .ok s
  | h :: rest, i, cnt, s =>
    let s := { s with fy := s.fy.reset }
    let (cnt, c) := bump cnt h
    let g := o.mkGen h c.toUInt64 s.seed
    match o.nextE g with
    | .error e => .error e
    | .ok (x, g) =>
      match elemLoop o i (s.m + 2) s x 0 g with
      | .error e => .error e
      | .ok s => setLoop o rest (i + 1) cnt s

/-- insertion sort of one block's indices (`sort_unstable`) -/
def sortBlock (l : List Nat) : List Nat := l.foldr (fun x acc => (acc.takeWhile (· < x)) ++ x :: acc.dropWhile (· < x)) []

/-- `hash_set(data)` up to the sorted index blocks; `hashes` = the elements' 64-bit hashes in sequence order -/
def hashSet (o : OrdOps F G) (top : F) (s : OrdMH F) (hashes : List UInt64) : Except Err (OrdMH F) :=
  if hashes.length < s.l then .error (.badArg "ordminhash data length must be greater than l") else
  let s := { s with indices := Array.replicate (s.m * s.l) u64Max, values := Array.replicate (s.m * s.l) top,
                    tracker := s.tracker.reset top }
  match setLoop o hashes 0 [] s with
  | .error e => .error e
  | .ok s =>
    -- `create_signature`: sort each block; an index ≥ data.len() (free slot) trips `assert_eq!(nb_bad_indices, 0)`
    let blocks := (List.range s.m).map (fun b => sortBlock ((List.range s.l).map (fun j => s.indices.getD (b * s.l + j) 0)))
    if blocks.any (fun b => b.any (fun ix => ix ≥ hashes.length)) then .error (.assertFail "ordminhash nb_bad_indices == 0")
    else .ok { s with indices := blocks.flatten.toArray }

/-- `create_signature`, the combining step: position `b` of the signature is the WyHash (seed `wyseed`) of the element
hashes at the (sorted) selected indices of block `b`, written one `write_u64` each (`Hashers.wyCombine`).
`s` is a state returned by `hashSet`, whose index blocks are already sorted. -/
def signature (s : OrdMH F) (hashes : List UInt64) (wyseed : UInt64) : List UInt64 :=
  let hs := hashes.toArray
  (List.range s.m).map (fun b =>
    Hashers.wyCombine wyseed ((List.range s.l).map (fun j => hs.getD (s.indices.getD (b * s.l + j) 0) 0)))

end OrdMH
end PMH

import PMH.Model.Prng
/-!
# Model of `SuperMinHash<F, T, H>` (`src/superminhasher.rs`), `F = f64 | f32`

Per item: a generator `g` seeded with the item's hash; for `j = 0, 1, …, a_upper`: draw `r ∈ [0,1)`,
draw `k ∈ [j, m)`, do one step of an in-place Fisher–Yates on the lazily initialised identity
permutation `p` (validity marker `q[·] = item_rank`), offer `r + j` to position `p[j]`.
`b[t]` counts positions whose value has integer part `min(⌊h⌋, m-1) = t`; `a_upper` is the largest `t`
with `b[t] > 0`.
-/
namespace PMH

/-- what the loop draws and the two float conversions -/
structure SmhOps (F G : Type) where
  unif : G → F × G                                   -- `Uniform<F>(0,1)`
  unifK : Nat → Nat → G → Except Err (Nat × G)       -- `Uniform<usize>(j, m)`
  ofNat : Nat → F                                    -- `F::from(j)`
  toUsize : F → Option Nat                           -- `to_usize()` (`None` ⇒ the `unwrap` panics)

structure SMH (F : Type) where
  hsketch : Array F
  q : Array Int
  p : Array Nat
  b : Array Int
  itemRank : Nat
  aUpper : Nat

namespace SMH
variable {F G : Type} [Add F] [LT F] [DecidableLT F]

/-- `new(size, …)`; `large = F::from(u32::MAX)`; `assert!(size < large.to_usize())`; `size = 0` underflows -/
def new (o : SmhOps F G) (large : F) (size : Nat) : Except Err (SMH F) :=
  match o.toUsize large with
  | none => .error (.assertFail "superminhash large.to_usize")
  | some lg =>
    if ¬ (size < lg) then .error (.assertFail "superminhash size < large")
    else if size = 0 then .error (.oob "superminhash size - 1")
    else .ok { hsketch := Array.replicate size large, q := Array.replicate size (-1), p := Array.replicate size 0,
               b := (Array.replicate size (0 : Int)).setIfInBounds (size - 1) (size : Int),
               itemRank := 0, aUpper := size - 1 }

/-- `reinit()` -/
def reinit (large : F) (s : SMH F) : SMH F :=
  let size := s.hsketch.size
  { hsketch := Array.replicate size large, q := Array.replicate size (-1), p := Array.replicate size 0,
    b := (Array.replicate size (0 : Int)).setIfInBounds (size - 1) (size : Int), itemRank := 0, aUpper := size - 1 }

/-- `while self.b[self.a_upper] == 0 { self.a_upper -= 1 }` -/
def lowerUpper (b : Array Int) : Nat → Nat → Except Err Nat
  | 0, _ => .error (.fuel "superminhash a_upper loop")
  | f + 1, a =>
    match b[a]? with
    | none => .error (.oob "superminhash b[a_upper]")
    | some v => if v == 0 then (if a = 0 then .error (.oob "superminhash a_upper underflow") else lowerUpper b f (a - 1)) else .ok a

def loop (o : SmhOps F G) (m : Nat) (irank : Int) : Nat → SMH F → Nat → G → Except Err (SMH F)
  | 0, _, _, _ => .error (.fuel "superminhash.sketch")
  | fuel + 1, s, j, g =>
    if j ≤ s.aUpper then
      let (r, g) := o.unif g
      match o.unifK j m g with
      | .error e => .error e
      | .ok (k, g) =>
        if ¬ (j < m ∧ k < m) then .error (.oob "superminhash q[j]/q[k]") else
        let (q, p) := if s.q.getD j 0 ≠ irank then (s.q.setIfInBounds j irank, s.p.setIfInBounds j j) else (s.q, s.p)
        let (q, p) := if q.getD k 0 ≠ irank then (q.setIfInBounds k irank, p.setIfInBounds k k) else (q, p)
        let pj := p.getD j 0
        let pk := p.getD k 0
        let p := (p.setIfInBounds j pk).setIfInBounds k pj        -- swap(j, k)
        let pos := p.getD j 0
        let rpj := r + o.ofNat j
        match s.hsketch[pos]? with
        | none => .error (.oob "superminhash hsketch[p[j]]")
        | some old =>
          if rpj < old then
            match o.toUsize old with
            | none => .error (.assertFail "superminhash to_usize")
            | some fl =>
              let j2 := min fl (m - 1)
              let hs := s.hsketch.setIfInBounds pos rpj
              if j < j2 then
                let b := s.b.setIfInBounds j2 (s.b.getD j2 0 - 1)
                let b := b.setIfInBounds j (b.getD j 0 + 1)
                match lowerUpper b (m + 1) s.aUpper with
                | .error e => .error e
                | .ok a => loop o m irank fuel { s with hsketch := hs, q := q, p := p, b := b, aUpper := a } (j + 1) g
              else loop o m irank fuel { s with hsketch := hs, q := q, p := p } (j + 1) g
          else loop o m irank fuel { s with q := q, p := p } (j + 1) g
    else .ok { s with itemRank := s.itemRank + 1 }

/-- `sketch(item)` with the item's generator -/
def sketch (o : SmhOps F G) (s : SMH F) (g : G) : Except Err (SMH F) :=
  loop o s.hsketch.size (s.itemRank : Int) (s.hsketch.size + 2) s 0 g

end SMH
end PMH

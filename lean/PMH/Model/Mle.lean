import PMH.Model.Basic
/-!
# Model of `MleJaccard::get_mle` (`src/setsketcher.rs`) and of argmin 0.10's golden-section search

Generic in the scalar `F` (executable: `Float`; theorems: an ordered field).  The float-only
predicates (`is_nan`, `is_infinite`, sign) and the transcendental functions come in through `FOps`.
`best_cost = +∞` initially is `none`.
-/
namespace PMH.Mle

structure FOps (F : Type) where
  exp : F → F
  ln : F → F
  ln1p : F → F
  isNaN : F → Bool
  /-- `a.is_infinite() && b.is_infinite() && same sign` -/
  bothInfSame : F → F → Bool
  /-- `a.is_infinite() && a.is_sign_positive()` -/
  isPosInf : F → Bool
  abs : F → F

variable {F : Type} [Add F] [Sub F] [Mul F] [Div F] [Neg F] [LT F] [DecidableLT F] [LE F] [DecidableLE F] [NatCast F]

/-- solver state of `GoldenSectionSearch` -/
structure Gss (F : Type) where
  x0 : F
  x1 : F
  x2 : F
  x3 : F
  f1 : F
  f2 : F

/-- the part of argmin's `IterState` that matters: current param/cost, best so far, iteration count -/
structure ISt (F : Type) where
  param : F
  cost : F
  bestParam : Option F
  bestCost : Option F     -- `none` = +∞ (initial)
  iter : Nat

/-- acceptance test of `IterState::update` -/
def ISt.accept (o : FOps F) (s : ISt F) : Bool :=
  match s.bestCost with
  | none => (! o.isNaN s.cost)                       -- cost < +∞, or cost = +∞ = best
  | some bc => decide (s.cost < bc) || o.bothInfSame s.cost bc

/-- `IterState::update` -/
def ISt.update (o : FOps F) (s : ISt F) : ISt F :=
  if s.accept o then { s with bestParam := some s.param, bestCost := some s.cost } else s

/-- `best_cost <= target_cost` with the default target `-∞` -/
def ISt.targetReached (o : FOps F) (s : ISt F) : Bool :=
  match s.bestCost with
  | some bc => o.bothInfSame bc bc && ! o.isPosInf bc
  | none => false

/-- `GoldenSectionSearch::init` (after `new(min,max)`), `g2 = 1 - g1`; `cost` may fail (`?`) -/
def gssInit (o : FOps F) (g2 : F) (cost : F → Except Err F) (lo hi init : F) : Except Err (Gss F × F × F) :=
  if init < lo ∨ hi < init then .error (.badArg "GoldenSectionSearch: initial estimate outside [min_bound,max_bound]")
  else
    let ieMin := init - lo
    let maxIe := hi - init
    let (x1, x2) := if o.abs ieMin < o.abs maxIe then (init, init + g2 * maxIe) else (init - g2 * ieMin, init)
    match cost x1 with
    | .error e => .error e
    | .ok f1 =>
      match cost x2 with
      | .error e => .error e
      | .ok f2 =>
        let g : Gss F := ⟨lo, x1, x2, hi, f1, f2⟩
        if f1 < f2 then .ok (g, x1, f1) else .ok (g, x2, f2)

/-- `next_iter` -/
def gssNext (g1 g2 : F) (cost : F → Except Err F) (g : Gss F) : Except Err (Gss F × F × F) :=
  let r : Except Err (Gss F) :=
    if g.f2 < g.f1 then
      let x2 := g1 * g.x2 + g2 * g.x3
      match cost x2 with
      | .ok c => .ok { x0 := g.x1, x1 := g.x2, x2 := x2, x3 := g.x3, f1 := g.f2, f2 := c }
      | .error e => .error e
    else
      let x1 := g1 * g.x1 + g2 * g.x0
      match cost x1 with
      | .ok c => .ok { x0 := g.x0, x1 := x1, x2 := g.x1, x3 := g.x2, f1 := c, f2 := g.f1 }
      | .error e => .error e
  match r with
  | .error e => .error e
  | .ok g' => if g'.f1 < g'.f2 then .ok (g', g'.x1, g'.f1) else .ok (g', g'.x2, g'.f2)

/-- `terminate`: `tolerance * (|x1| + |x2|) >= |x3 - x0|` -/
def gssDone (o : FOps F) (tol : F) (g : Gss F) : Bool :=
  decide (o.abs (g.x3 - g.x0) ≤ tol * (o.abs g.x1 + o.abs g.x2))

/-- the executor loop: terminate check (solver, max_iters; target cost −∞ only reached by a −∞ best
cost), `next_iter`, `update`, `increment_iter` -/
def execLoop (o : FOps F) (g1 g2 tol : F) (cost : F → Except Err F) (maxIters : Nat) :
    Nat → Gss F → ISt F → Except Err (ISt F)
  | 0, _, s => .ok s
  | fuel + 1, g, s =>
    if gssDone o tol g then .ok s
    else if s.iter ≥ maxIters then .ok s
    else if s.targetReached o then .ok s
    else
      match gssNext g1 g2 cost g with
      | .error e => .error e
      | .ok (g', p, c) =>
        let s' := ISt.update o { s with param := p, cost := c }
        execLoop o g1 g2 tol cost maxIters fuel g' { s' with iter := s'.iter + 1 }

/-- `Executor::new(cost, GoldenSectionSearch::new(lo,hi)?).configure(param(init).max_iters(n)).run()?.state().best_param` -/
def gssRun (o : FOps F) (g1 g2 tol : F) (cost : F → Except Err F) (lo hi init : F) (maxIters : Nat) : Except Err (Option F) :=
  if hi ≤ lo then .error (.badArg "GoldenSectionSearch::new: max_bound <= min_bound")
  else
    match gssInit o g2 cost lo hi init with
    | .error e => .error e
    | .ok (g, p, c) =>
      let s0 : ISt F := ISt.update o ⟨p, c, none, none, 0⟩
      match execLoop o g1 g2 tol cost maxIters (maxIters + 1) g s0 with
      | .ok s => .ok s.bestParam
      | .error e => .error e

/-! ### the likelihood and `get_mle` -/

/-- `MleCost::pb` (the `assert!(!val.is_nan())` is the error) -/
def pb (o : FOps F) (b : F) (x : F) : Except Err F :=
  let one : F := ((1 : Nat) : F)
  let val : F :=
    if x ≤ ((0 : Nat) : F) then (-(o.ln1p (-x * (b - one) / b)) / o.ln1p (b - one))
    else (-(o.ln (one - x * (b - one) / b)) / o.ln1p (b - one))
  if o.isNaN val then .error (.assertFail "MleCost::pb is NaN") else .ok val

/-- `MleCost::cost` -/
def cost (o : FOps F) (dplus dless dequal u v b : F) (j : F) : Except Err F :=
  let one : F := ((1 : Nat) : F)
  match pb o b (u - v * j), pb o b (v - u * j) with
  | .ok pp, .ok pl => .ok (-(dplus * o.ln pp + dless * o.ln pl + dequal * o.ln (one - pp - pl)))
  | .error e, _ => .error e
  | _, .error e => .error e

/-- the three counters of `get_mle` -/
def counts : List Nat → List Nat → Nat × Nat × Nat
  | a :: as, b :: bs =>
    let (p, l, e) := counts as bs
    if a > b then (p + 1, l, e) else if a < b then (p, l + 1, e) else (p, l, e + 1)
  | _, _ => (0, 0, 0)

/-- sequential `sum_i exp(-k_i * ln_1p(b-1))` -/
def sumbk (o : FOps F) (b : F) (regs : List Nat) : F :=
  regs.foldl (fun acc c => acc + o.exp (-((c : Nat) : F) * o.ln1p (b - ((1 : Nat) : F)))) ((0 : Nat) : F)

/-- `get_cardinal_estimate` / first component of `get_cardinal_stats` -/
def cardEst (o : FOps F) (b a : F) (m : Nat) (regs : List Nat) : F :=
  let one : F := ((1 : Nat) : F)
  let lnb := o.ln1p (b - one)
  ((m : Nat) : F) * (one - one / b) / (a * lnb * sumbk o b regs)

/-- bracket top and starting point as `get_mle` computes them -/
def bracketTop (card1 card2 : F) : F :=
  let aux := card1 / card2
  let inv := ((1 : Nat) : F) / aux
  if inv < aux then inv else aux          -- `aux.min(1. / aux)`

def startPoint (dequal m : Nat) : F := ((dequal : Nat) : F) / ((m : Nat) : F)

/-- `init_param` handed to the solver: `jac.min(b_sup)` (clamped into the bracket; fix of F5) -/
def initParam (jac bsup : F) : F := if bsup < jac then bsup else jac

/-- `get_mle`, with the two cardinal estimates supplied -/
def getMle (o : FOps F) (g1 g2 tol : F) (b : F) (m : Nat) (card1 card2 : F) (s1 s2 : List Nat) : Except Err (Option F) :=
  if s1.length ≠ m ∨ s2.length ≠ m then .error (.assertFail "get_mle: sketch length") else
  let u := card1 / (card1 + card2)
  let v := card2 / (card1 + card2)
  let (dp, dl, de) := counts s1 s2
  let bsup := bracketTop card1 card2
  let jac : F := startPoint de m
  let c : F → Except Err F := cost o ((dp : Nat) : F) ((dl : Nat) : F) ((de : Nat) : F) u v b
  match gssRun o g1 g2 tol c ((0 : Nat) : F) bsup (initParam jac bsup) 100 with
  | .error e => .error e
  | .ok r =>
    -- "simple exploration around jac estimate": ten more cost evaluations, each `unwrap`ped
    let one : F := ((1 : Nat) : F)
    let pts : List F := (List.range 5).map (fun i => jac * (one + ((i : Nat) : F) / ((200 : Nat) : F))) ++
                        (List.range 5).map (fun i => jac * (one - ((i : Nat) : F) / ((200 : Nat) : F)))
    match pts.mapM c with
    | .error e => .error e
    | .ok _ => .ok r

end PMH.Mle

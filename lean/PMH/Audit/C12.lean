import PMH.Props.C12
#print axioms PMH.C12.pmh3a_hashmap_order_irrelevant
#print axioms PMH.C12.pmh3_hashmap_order_irrelevant
#print axioms PMH.C12.pmh2_hashmap_order_irrelevant

import PMH.Props.C06
#print axioms PMH.C06.cardEst_eq
#print axioms PMH.C06.estimate_monotone
#print axioms PMH.C06.reduction_order_free
#print axioms PMH.C06.reduction_split
#print axioms PMH.C06.estimate_pos
#print axioms PMH.C06.rsd_well_defined

import PMH.Props.C09
#print axioms PMH.C09.finish_structure
#print axioms PMH.C09.finished_holds_streamed
#print axioms PMH.C09.u32view_fixed_function
#print axioms PMH.C09.u64_equal_float_equal
#print axioms PMH.C09.endSketch_idempotent
#print axioms PMH.C09.sketchSlice_is_stream_then_end
#print axioms PMH.C09.empty_stream_reports_failure
#print axioms PMH.C09.sketch_phase_set_semantics
#print axioms PMH.C09.reinit_eq_new
#print axioms PMH.DensP.densifyOpt_structure
#print axioms PMH.DensP.densifyRev_structure
#print axioms PMH.C09.optimal_finishing_terminates_almost_surely
#print axioms PMH.C09.optimal_finishing_fuel_bound
#print axioms PMH.C09.reverse_finishing_terminates_almost_surely
#print axioms PMH.C09.reverse_finishing_fuel_bound
#print axioms PMH.C09.model_u32_view_is_murmur_of_u64_view
#print axioms PMH.C09.model_u64_equal_u32_equal

import PMH.Props.C17
#print axioms PMH.C17.next_inv
#print axioms PMH.C17.block_is_perm
#print axioms PMH.C17.reset_forgets
#print axioms PMH.C17.reset_like_new
#print axioms PMH.C17.draws_reset_like_new
#print axioms PMH.C17.offsets_bijective
#print axioms PMH.C17.floor_offset_lt
#print axioms PMH.C17.floor_offset_eq_iff

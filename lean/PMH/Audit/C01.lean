import PMH.Props.C01
#print axioms PMH.C01.pmh3_first_hit_is_exponential
#print axioms PMH.C01.pmh3_rate_is_forced
#print axioms PMH.C01.pmh3_weighted_rate
#print axioms PMH.C01.pmh2_first_hit_is_exponential
#print axioms PMH.C01.pmh2_mean_first_hit_time
#print axioms PMH.C01.race_winner
#print axioms PMH.C02.run_spec
#print axioms PMH.C02.run2_spec
#print axioms PMH.C01.pmh3_position_holds_earliest
#print axioms PMH.C01.pmh3_collision_iff_same_earliest
#print axioms PMH.C01.pmh3_equal_weights_unbiased
#print axioms PMH.C01.pmh3_equal_weights_single_set_law
#print axioms PMH.C01.pmh2_equal_weights_unbiased

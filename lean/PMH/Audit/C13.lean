import PMH.Props.C13
#print axioms PMH.C13.smh_reinit_eq_new
#print axioms PMH.C13.smh2_reinit_fields
#print axioms PMH.C13.smh2_reinit_sketch
#print axioms PMH.C13.ssk_reinit_sketch
#print axioms PMH.C13.ssk_reinit_state
#print axioms PMH.C13.dens_reinit_eq_new
#print axioms PMH.C13.pmh2_reset_hashItem
#print axioms PMH.C13.fy_reset_like_new

import PMH.Props.C15
#print axioms PMH.C15.tracker_refines_spec
#print axioms PMH.C15.max_spec
#print axioms PMH.C15.possible_iff
#print axioms PMH.C15.update_out_of_range
#print axioms PMH.C15.reset_eq_new
#print axioms PMH.C15.c15_all

import PMH.Props.C20
#print axioms PMH.C20.parse_ok_has_brace
#print axioms PMH.C20.body_no_brace
#print axioms PMH.C20.prefix_rejected
#print axioms PMH.C20.parseNat_fmtNat
#print axioms PMH.C20.parse_serialize

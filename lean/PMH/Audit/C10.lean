import PMH.Props.C10L
#print axioms PMH.C10.position_is_omh_selection
#print axioms PMH.C10.collision_is_omh_event
#print axioms PMH.C10.ranking_uniform_tool
#print axioms PMH.OrdP.selected_char
#print axioms PMH.C10.induced_ranking_uniform
#print axioms PMH.C10.omh_event_reading
#print axioms PMH.C10.collision_probability_is_omh_probability
#print axioms PMH.C10.expected_fraction_is_omh_probability
#print axioms PMH.OmhLaw.ex_model_identity
#print axioms PMH.OmhLaw.ex_model_collisions
#print axioms PMH.C10.raw_state_seeding_first_output

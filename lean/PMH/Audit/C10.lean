import PMH.Props.C10
#print axioms PMH.C10.position_is_omh_selection
#print axioms PMH.C10.collision_is_omh_event
#print axioms PMH.C10.ranking_uniform_tool
#print axioms PMH.OrdP.selected_char

import PMH.Props.C02
#print axioms PMH.C02.run_spec
#print axioms PMH.C02.runNew_spec
#print axioms PMH.C02.signature_function_of_set
#print axioms PMH.C02.pmh3_eq_pmh3a
#print axioms PMH.C02.reinsert_idempotent
#print axioms PMH.C02.holds_inserted_item
#print axioms PMH.C02.union_position
#print axioms PMH.C02.scale_invariant
#print axioms PMH.P3.itemLoop_spec
#print axioms PMH.P3.hashBatch_spec
#print axioms PMH.Race.spec_unique_reg
#print axioms PMH.Race.spec_unique_tag
#print axioms PMH.C02.run2_spec
#print axioms PMH.C02.pmh2_function_of_set
#print axioms PMH.C02.pmh2_holds_inserted_item
#print axioms PMH.P2.loop_spec

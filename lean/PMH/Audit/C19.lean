import PMH.Props.C19
#print axioms PMH.C19.int64_inverse_hash
#print axioms PMH.C19.int64_hash_inverse_id
#print axioms PMH.C19.int32_inverse_hash
#print axioms PMH.C19.int32_hash_inverse_id
#print axioms PMH.C19.int64_hash_bijective
#print axioms PMH.C19.int32_hash_bijective

import PMH.Props.C16
#print axioms PMH.C16.sample_in_unit_interval
#print axioms PMH.C16.constants
#print axioms PMH.C16.squeeze_tests_sound
#print axioms PMH.C16.density_identity
#print axioms PMH.C16.rejection_mass

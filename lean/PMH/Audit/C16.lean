import PMH.Props.C16
#print axioms PMH.C16.sample_in_unit_interval
#print axioms PMH.C16.constants
#print axioms PMH.C16.squeeze_tests_sound
#print axioms PMH.C16.density_identity
#print axioms PMH.C16.rejection_mass
#print axioms PMH.C16.acceptance_is_under_curve
#print axioms PMH.C16.accepted_region_measure
#print axioms PMH.C16.sample_law
#print axioms PMH.C16.sample_distribution_function
#print axioms PMH.C16.fuel_defect_bounds
#print axioms PMH.C16.distribution_function_limit
#print axioms PMH.C16.iid_uniform_draws_exist
#print axioms PMH.C16.source_eq_model
#print axioms PMH.C16.source_sample_in_unit_interval
#print axioms PMH.C16.source_sample_distribution_function

import PMH.Props.C11
#print axioms PMH.C11.block_is_l_smallest
#print axioms PMH.C11.spelled_in_sequence_order
#print axioms PMH.C11.selection_order_free
#print axioms PMH.C11.l1_signature_permutation_invariant
#print axioms PMH.C11.earlier_calls_irrelevant
#print axioms PMH.C11.no_bad_indices
#print axioms PMH.OrdP.hashSet_spec
#print axioms PMH.OrdP.update_spec
#print axioms PMH.C11.signature_is_combined_hash_of_block
#print axioms PMH.C11.signature_position_depends_on_spelled_hashes

import PMH.Props.C03
#print axioms PMH.C03.single_item_sketch
#print axioms PMH.C03.draws_permutation_bijective
#print axioms PMH.C03.uniform_draws_uniform_permutation
#print axioms PMH.C03.sketcher_perm_is_fyswap
#print axioms PMH.C03.listPts_eq_pointsOf
#print axioms PMH.C03.smh_collision_count
#print axioms PMH.Coll.collision_count_regs
#print axioms PMH.CS.collision_prob_eq_jaccard_gen
#print axioms PMH.C03.smh2_collision_count
#print axioms PMH.C03.smh2_collision_count_regs
#print axioms PMH.C03.smh2_position_law
#print axioms PMH.SMH2Coll.ex_collision_third
#print axioms PMH.C03.mse_bound_of_nonpositive_correlation

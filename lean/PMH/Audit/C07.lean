import PMH.Props.C07
#print axioms PMH.C07.model_eq
#print axioms PMH.C07.bounds_total
#print axioms PMH.C07.bounds_ordered
#print axioms PMH.C07.bounds_contain_J
#print axioms PMH.RA.bounds_contain_min
#print axioms PMH.C07.register_distribution
#print axioms PMH.C07.register_collision_probability
#print axioms PMH.C07.collision_determined_by_cardinalities
#print axioms PMH.C07.expected_fraction_of_equal_registers
#print axioms PMH.C07.position_sees_exponential
#print axioms PMH.SskLaw.scheme_expected_fraction
#print axioms PMH.SskLaw.position_law_perm
#print axioms PMH.C07.source_eq_model
#print axioms PMH.C07.source_bounds_total
#print axioms PMH.C07.source_bounds_ordered
#print axioms PMH.C07.source_bounds_contain_J

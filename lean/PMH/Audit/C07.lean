import PMH.Props.C07
#print axioms PMH.C07.model_eq
#print axioms PMH.C07.bounds_total
#print axioms PMH.C07.bounds_ordered
#print axioms PMH.C07.bounds_contain_J
#print axioms PMH.RA.bounds_contain_min

import PMH.Props.C04
#print axioms PMH.C04.smh_run_spec
#print axioms PMH.C04.smh_set_semantics
#print axioms PMH.C04.smh_never_panics
#print axioms PMH.C04.smh2_set_semantics
#print axioms PMH.C04.smh2_holds_hashes
#print axioms PMH.C04.smh2_never_panics
#print axioms PMH.C04.ssk_run_spec
#print axioms PMH.C04.ssk_set_semantics
#print axioms PMH.C04.ssk_never_panics
#print axioms PMH.C04.dens_set_semantics
#print axioms PMH.C04.dens_holds_hashes
#print axioms PMH.SMHP.sketch_spec
#print axioms PMH.SMH2P.sketch_regs_spec
#print axioms PMH.SSKP.sketch_spec
#print axioms PMH.DensP.stream_set_semantics

import PMH.Props.C05
#print axioms PMH.C05.smh_union_is_min
#print axioms PMH.C05.ssk_union_is_max
#print axioms PMH.C05.merge_is_union
#print axioms PMH.C05.merge_registers
#print axioms PMH.C05.merge_comm_regs
#print axioms PMH.C05.merge_idem_regs
#print axioms PMH.C05.merge_assoc_regs
#print axioms PMH.C05.merge_refused_iff
#print axioms PMH.C05.low_sketch_le_min
#print axioms PMH.SSKP.merge_spec

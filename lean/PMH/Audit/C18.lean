import PMH.Props.C18
#print axioms PMH.C18.leBytes_length
#print axioms PMH.C18.sigU8_inj
#print axioms PMH.C18.sigU16_inj
#print axioms PMH.C18.sigU32_inj
#print axioms PMH.C18.sigU64_inj
#print axioms PMH.C18.sigVecU8_inj
#print axioms PMH.C18.sigVecU16_inj
#print axioms PMH.C18.sigVecU32_inj
#print axioms PMH.C18.sigVecU16_length
#print axioms PMH.C18.sigVecU32_length
#print axioms PMH.C18.sigString_inj
#print axioms PMH.C18.sig_bytes_lt

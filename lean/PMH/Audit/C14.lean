import PMH.Props.C14
#print axioms PMH.C14.countEq_comm
#print axioms PMH.C14.countEq_self
#print axioms PMH.C14.countEq_mismatch
#print axioms PMH.C14.countEq_ok
#print axioms PMH.C14.quotient_range
#print axioms PMH.C14.gss_contained
#print axioms PMH.C14.start_in_bracket
#print axioms PMH.C14.getMle_total
#print axioms PMH.C14.unclamped_start_outside_witness

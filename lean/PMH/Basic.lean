def hello := "world"

import PMH.Model.Sig
/-!
# C18 — byte identities are faithful (the memory-safety clause is checked by Miri, see DESIGN.md)

For each of the ten `Sig` implementations: the bytes have the right length and the map value ↦ bytes
is injective on the type's value range (so equal values give equal bytes — it is a function — and
different values give different bytes).
-/
namespace PMH.C18
open PMH.Sig

theorem leBytes_length (w x : Nat) : (leBytes w x).length = w := by
  induction w generalizing x with
  | zero => rfl
  | succ w ih => simp [leBytes, ih]

theorem leBytes_inj (w : Nat) : ∀ x y, x < 256 ^ w → y < 256 ^ w → leBytes w x = leBytes w y → x = y := by
  induction w with
  | zero => intro x y hx hy _; simp at hx hy; omega
  | succ w ih =>
    intro x y hx hy h
    simp only [leBytes, List.cons.injEq] at h
    have hx' : x / 256 < 256 ^ w := by
      rw [Nat.div_lt_iff_lt_mul (by decide)]; rw [Nat.pow_succ] at hx; exact hx
    have hy' : y / 256 < 256 ^ w := by
      rw [Nat.div_lt_iff_lt_mul (by decide)]; rw [Nat.pow_succ] at hy; exact hy
    have := ih _ _ hx' hy' h.2
    omega

theorem leBytes_byte (w x : Nat) : ∀ b ∈ leBytes w x, b < 256 := by
  induction w generalizing x with
  | zero => simp [leBytes]
  | succ w ih =>
    intro b hb
    simp only [leBytes, List.mem_cons] at hb
    rcases hb with rfl | hb
    · omega
    · exact ih _ b hb

/-- scalars: `u8`, `u16`/`i16`, `u32`/`i32`, `u64` -/
theorem sigU8_inj (x y : Nat) (hx : x < 2 ^ 8) (hy : y < 2 ^ 8) (h : sigU8 x = sigU8 y) : x = y :=
  leBytes_inj 1 x y (by simpa using hx) (by simpa using hy) h
theorem sigU16_inj (x y : Nat) (hx : x < 2 ^ 16) (hy : y < 2 ^ 16) (h : sigU16 x = sigU16 y) : x = y :=
  leBytes_inj 2 x y (by simpa using hx) (by simpa using hy) h
theorem sigU32_inj (x y : Nat) (hx : x < 2 ^ 32) (hy : y < 2 ^ 32) (h : sigU32 x = sigU32 y) : x = y :=
  leBytes_inj 4 x y (by simpa using hx) (by simpa using hy) h
theorem sigU64_inj (x y : Nat) (hx : x < 2 ^ 64) (hy : y < 2 ^ 64) (h : sigU64 x = sigU64 y) : x = y :=
  leBytes_inj 8 x y (by simpa using hx) (by simpa using hy) h

/-- concatenating fixed-width injective encodings is injective -/
theorem flatMap_inj {α : Type} (f : α → List Nat) (w : Nat) (P : α → Prop)
    (hlen : ∀ a, (f a).length = w) (hw : 0 < w) (hinj : ∀ a b, P a → P b → f a = f b → a = b) :
    ∀ (u v : List α), (∀ a ∈ u, P a) → (∀ a ∈ v, P a) → u.flatMap f = v.flatMap f → u = v := by
  intro u
  induction u with
  | nil =>
    intro v _ _ h
    cases v with
    | nil => rfl
    | cons b v =>
      have := congrArg List.length h
      simp [hlen] at this; omega
  | cons a u ih =>
    intro v hu hv h
    cases v with
    | nil =>
      have := congrArg List.length h
      simp [hlen] at this; omega
    | cons b v =>
      simp only [List.flatMap_cons] at h
      have := List.append_inj h (by rw [hlen, hlen])
      have hab := hinj a b (hu a List.mem_cons_self) (hv b List.mem_cons_self) this.1
      rw [hab, ih v (fun x hx => hu x (List.mem_cons_of_mem _ hx)) (fun x hx => hv x (List.mem_cons_of_mem _ hx)) this.2]

theorem sigVecU8_inj (u v : List Nat) (h : sigVecU8 u = sigVecU8 v) : u = v := h

theorem sigVecU16_inj (u v : List Nat) (hu : ∀ a ∈ u, a < 2 ^ 16) (hv : ∀ a ∈ v, a < 2 ^ 16)
    (h : sigVecU16 u = sigVecU16 v) : u = v :=
  flatMap_inj sigU16 2 (· < 2 ^ 16) (leBytes_length 2) (by decide) sigU16_inj u v hu hv h

theorem sigVecU32_inj (u v : List Nat) (hu : ∀ a ∈ u, a < 2 ^ 32) (hv : ∀ a ∈ v, a < 2 ^ 32)
    (h : sigVecU32 u = sigVecU32 v) : u = v :=
  flatMap_inj sigU32 4 (· < 2 ^ 32) (leBytes_length 4) (by decide) sigU32_inj u v hu hv h

theorem sigVecU16_length (v : List Nat) : (sigVecU16 v).length = 2 * v.length := by
  induction v with
  | nil => rfl
  | cons a v ih => simp only [sigVecU16, List.flatMap_cons, List.length_append, List.length_cons] at ih ⊢
                   rw [ih]; simp [sigU16, leBytes_length]; omega

theorem sigVecU32_length (v : List Nat) : (sigVecU32 v).length = 4 * v.length := by
  induction v with
  | nil => rfl
  | cons a v ih => simp only [sigVecU32, List.flatMap_cons, List.length_append, List.length_cons] at ih ⊢
                   rw [ih]; simp [sigU32, leBytes_length]; omega

theorem sigString_inj (s t : String) (h : sigString s = sigString t) : s = t := by
  unfold sigString at h
  have h1 : s.toByteArray.data.toList = t.toByteArray.data.toList :=
    (List.map_inj_right (fun a b hab => UInt8.toNat_inj.mp hab)).mp h
  have h2 : s.toByteArray = t.toByteArray := ByteArray.ext (Array.toList_inj.mp h1)
  exact String.toByteArray_inj.mp h2

/-- all bytes are bytes -/
theorem sig_bytes_lt (w x : Nat) : ∀ b ∈ leBytes w x, b < 256 := leBytes_byte w x

/-! non-vacuity: little-endian layout, multi-element vectors -/
example : sigU16 0x1234 = [0x34, 0x12] := by decide
example : sigVecU16 [1, 0x0203] = [1, 0, 3, 2] := by decide
example : sigU32 0xdeadbeef = [0xef, 0xbe, 0xad, 0xde] := by decide

end PMH.C18

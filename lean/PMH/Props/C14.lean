import PMH.Model.Jaccard
import PMH.Model.Mle
import Mathlib.Algebra.Order.Field.Basic
import Mathlib.Tactic.Linarith
import Mathlib.Tactic.Positivity
/-!
# C14 — similarity estimators are total, symmetric and exact; the MLE stays in its bracket

Part 1 (counting estimators, full): `countEq` is what the six entry points compute before the
final float division.  Part 2 (MLE, partial — exact arithmetic, cost assumed non-NaN): the
golden-section search transcribed from argmin 0.10 never leaves `[min_bound, max_bound]`, the start
handed to it by `get_mle` lies in the bracket, so the run cannot fail and returns `Some v` with
`0 ≤ v ≤ b_sup ≤ 1`.
-/
namespace PMH.C14
open PMH

/-! ## Part 1: counting -/
section Counting
variable {α : Type} [DecidableEq α]

theorem countSame_comm (a b : List α) : countSame a b = countSame b a := by
  induction a generalizing b with
  | nil => cases b <;> simp [countSame]
  | cons x xs ih =>
    cases b with
    | nil => simp [countSame]
    | cons y ys => simp only [countSame, ih ys, eq_comm]

theorem countSame_self (a : List α) : countSame a a = a.length := by
  induction a with
  | nil => rfl
  | cons x xs ih => simp [countSame, ih]; omega

theorem countSame_le (a b : List α) : countSame a b ≤ a.length := by
  induction a generalizing b with
  | nil => cases b <;> simp [countSame]
  | cons x xs ih =>
    cases b with
    | nil => simp [countSame]
    | cons y ys => simp only [countSame, List.length_cons]; have := ih ys; split <;> omega

/-- the count is exactly the number of positions where the two sketches hold equal values -/
theorem countSame_eq_filter (a b : List α) :
    countSame a b = ((a.zip b).filter (fun p => decide (p.1 = p.2))).length := by
  induction a generalizing b with
  | nil => cases b <;> simp [countSame]
  | cons x xs ih =>
    cases b with
    | nil => simp [countSame]
    | cons y ys =>
      simp only [countSame, List.zip_cons_cons, List.filter_cons, ih ys]
      by_cases h : x = y <;> simp [h] <;> omega

/-- **C14 (a)** symmetric -/
theorem countEq_comm (a b : List α) : countEq a b = countEq b a := by
  unfold countEq
  by_cases h : a.length = b.length
  · simp [h, countSame_comm a b]
  · have h' : ¬ b.length = a.length := fun e => h e.symm
    simp [h, h']

/-- **C14 (b)** identical sketches: count = length, i.e. estimate 1 -/
theorem countEq_self (a : List α) : countEq a a = .ok (a.length, a.length) := by
  simp [countEq, countSame_self]

/-- **C14 (c)** a length mismatch is an error, never a prefix computation -/
theorem countEq_mismatch (a b : List α) (h : a.length ≠ b.length) :
    countEq a b = .error (.badArg "sketch length mismatch") := by
  simp [countEq, h]

/-- **C14 (d)** on equal lengths the result is `(#equal positions, len)` with `count ≤ len` -/
theorem countEq_ok (a b : List α) (h : a.length = b.length) :
    countEq a b = .ok (((a.zip b).filter (fun p => decide (p.1 = p.2))).length, a.length) ∧
    ((a.zip b).filter (fun p => decide (p.1 = p.2))).length ≤ a.length := by
  refine ⟨by simp [countEq, h, countSame_eq_filter], ?_⟩
  rw [← countSame_eq_filter]; exact countSame_le a b

/-- **C14 (e)** the exact quotient lies in `[0,1]` (lengths ≥ 1) -/
theorem quotient_range {K : Type} [Field K] [LinearOrder K] [IsStrictOrderedRing K]
    (c n : Nat) (hc : c ≤ n) (hn : 1 ≤ n) : (0 : K) ≤ (c : K) / n ∧ (c : K) / n ≤ 1 := by
  have hn' : (0 : K) < n := by exact_mod_cast hn
  refine ⟨by positivity, ?_⟩
  rw [div_le_one hn']; exact_mod_cast hc

example : countEq [1, 2, 3, 4] [1, 9, 3, 8] = .ok (2, 4) := by decide
example : countEq [1, 2, 3] [1, 2] = .error (.badArg "sketch length mismatch") := by decide
end Counting

/-! ## Part 2: golden-section search and `get_mle` in exact arithmetic -/
section MLE
open PMH.Mle
variable {K : Type} [Field K] [LinearOrder K] [IsStrictOrderedRing K]

/-- `FOps` of an ordered field: no NaN, no infinities; `exp/ln/ln1p` arbitrary -/
def exactOps (e l l1 : K → K) : FOps K :=
  { exp := e, ln := l, ln1p := l1, isNaN := fun _ => false, bothInfSame := fun _ _ => false,
    isPosInf := fun _ => false, abs := fun x => |x| }

/-- solver invariant: the four abscissae are ordered inside the bracket -/
def GInv (lo hi : K) (g : Gss K) : Prop := lo ≤ g.x0 ∧ g.x0 ≤ g.x1 ∧ g.x1 ≤ g.x2 ∧ g.x2 ≤ g.x3 ∧ g.x3 ≤ hi

theorem gssInit_inv (o : FOps K) (habs : ∀ x, o.abs x = |x|) (g2 : K) (h0 : 0 ≤ g2) (h1 : g2 ≤ 1) (cost : K → K) (lo hi init : K)
    (hlo : lo ≤ init) (hhi : init ≤ hi) :
    ∃ g p c, gssInit o g2 (fun x => .ok (cost x)) lo hi init = .ok (g, p, c) ∧ GInv lo hi g ∧ lo ≤ p ∧ p ≤ hi := by
  unfold gssInit
  have hng : ¬ (init < lo ∨ hi < init) := by
    intro h; rcases h with h | h
    · exact absurd hlo (not_le.mpr h)
    · exact absurd hhi (not_le.mpr h)
  simp only [hng, if_false, habs]
  have a1 : 0 ≤ hi - init := sub_nonneg.mpr hhi
  have a2 : 0 ≤ init - lo := sub_nonneg.mpr hlo
  have b1 : g2 * (hi - init) ≤ hi - init := by nlinarith
  have b2 : g2 * (init - lo) ≤ init - lo := by nlinarith
  have c1 : 0 ≤ g2 * (hi - init) := mul_nonneg h0 a1
  have c2 : 0 ≤ g2 * (init - lo) := mul_nonneg h0 a2
  by_cases hab : |init - lo| < |hi - init|
  · simp only [hab, if_true]
    by_cases hc : cost init < cost (init + g2 * (hi - init))
    · simp only [hc, if_true]
      exact ⟨_, _, _, rfl, ⟨le_refl _, hlo, by linarith, by linarith, le_refl _⟩, hlo, hhi⟩
    · simp only [hc, if_false]
      exact ⟨_, _, _, rfl, ⟨le_refl _, hlo, by linarith, by linarith, le_refl _⟩, by linarith, by linarith⟩
  · simp only [hab, if_false]
    by_cases hc : cost (init - g2 * (init - lo)) < cost init
    · simp only [hc, if_true]
      exact ⟨_, _, _, rfl, ⟨le_refl _, by linarith, by linarith, hhi, le_refl _⟩, by linarith, by linarith⟩
    · simp only [hc, if_false]
      exact ⟨_, _, _, rfl, ⟨le_refl _, by linarith, by linarith, hhi, le_refl _⟩, hlo, hhi⟩

theorem gssNext_inv (g1 g2 : K) (h0 : 0 ≤ g2) (h1 : g2 ≤ 1) (hg : g1 = 1 - g2) (cost : K → K) (lo hi : K)
    (g : Gss K) (hinv : GInv lo hi g) :
    ∃ g' p c, gssNext g1 g2 (fun x => .ok (cost x)) g = .ok (g', p, c) ∧ GInv lo hi g' ∧ lo ≤ p ∧ p ≤ hi := by
  obtain ⟨i0, i1, i2, i3, i4⟩ := hinv
  unfold gssNext
  subst hg
  by_cases hc : g.f2 < g.f1
  · simp only [hc, if_true]
    have e1 : g.x2 ≤ (1 - g2) * g.x2 + g2 * g.x3 := by nlinarith
    have e2 : (1 - g2) * g.x2 + g2 * g.x3 ≤ g.x3 := by nlinarith
    have inv' : GInv lo hi ⟨g.x1, g.x2, (1 - g2) * g.x2 + g2 * g.x3, g.x3, g.f2, cost ((1 - g2) * g.x2 + g2 * g.x3)⟩ :=
      ⟨by linarith, i2, e1, e2, i4⟩
    by_cases hd : g.f2 < cost ((1 - g2) * g.x2 + g2 * g.x3)
    · simp only [hd, if_true]
      exact ⟨_, _, _, rfl, inv', by linarith, by linarith⟩
    · simp only [hd, if_false]
      exact ⟨_, _, _, rfl, inv', by linarith, by linarith⟩
  · simp only [hc, if_false]
    have e1 : g.x0 ≤ (1 - g2) * g.x1 + g2 * g.x0 := by nlinarith
    have e2 : (1 - g2) * g.x1 + g2 * g.x0 ≤ g.x1 := by nlinarith
    have inv' : GInv lo hi ⟨g.x0, (1 - g2) * g.x1 + g2 * g.x0, g.x1, g.x2, cost ((1 - g2) * g.x1 + g2 * g.x0), g.f1⟩ :=
      ⟨i0, e1, e2, i2, by linarith⟩
    by_cases hd : cost ((1 - g2) * g.x1 + g2 * g.x0) < g.f1
    · simp only [hd, if_true]
      exact ⟨_, _, _, rfl, inv', by linarith, by linarith⟩
    · simp only [hd, if_false]
      exact ⟨_, _, _, rfl, inv', by linarith, by linarith⟩

/-- best parameter so far is in the bracket -/
def BestIn (lo hi : K) (s : ISt K) : Prop := ∀ v, s.bestParam = some v → lo ≤ v ∧ v ≤ hi

theorem update_cases (o : FOps K) (s : ISt K) :
    ISt.update o s = s ∨ ISt.update o s = { s with bestParam := some s.param, bestCost := some s.cost } := by
  unfold ISt.update
  by_cases h : s.accept o = true
  · right; simp only [h, if_true]
  · left; simp only [h]; rfl

theorem update_best (o : FOps K) (lo hi : K) (s : ISt K) (hb : BestIn lo hi s) (hp : lo ≤ s.param ∧ s.param ≤ hi) :
    BestIn lo hi (ISt.update o s) := by
  rcases update_cases o s with h | h
  · rw [h]; exact hb
  · rw [h]; intro v hv; simp only [Option.some.injEq] at hv; subst hv; exact hp

theorem update_some (o : FOps K) (s : ISt K) (h : s.bestParam.isSome) : (ISt.update o s).bestParam.isSome := by
  rcases update_cases o s with h' | h'
  · rw [h']; exact h
  · rw [h']; rfl

theorem execLoop_best (o : FOps K) (g1 g2 tol : K) (h0 : 0 ≤ g2) (h1 : g2 ≤ 1) (hg : g1 = 1 - g2) (cost : K → K) (lo hi : K) (maxIters : Nat) :
    ∀ (fuel : Nat) (g : Gss K) (s : ISt K), GInv lo hi g → BestIn lo hi s →
    ∃ s', execLoop o g1 g2 tol (fun x => .ok (cost x)) maxIters fuel g s = .ok s' ∧ BestIn lo hi s' ∧
      (s.bestParam.isSome → s'.bestParam.isSome) := by
  intro fuel
  induction fuel with
  | zero => intro g s _ hb; exact ⟨s, rfl, hb, id⟩
  | succ f ih =>
    intro g s hinv hb
    unfold execLoop
    by_cases hd : gssDone o tol g = true
    · simp only [hd, if_true]; exact ⟨s, rfl, hb, id⟩
    · simp only [hd]
      by_cases hi' : s.iter ≥ maxIters
      · simp only [hi', if_true]; exact ⟨s, rfl, hb, id⟩
      · simp only [hi', if_false]
        by_cases ht : s.targetReached o = true
        · simp only [ht, if_true]; exact ⟨s, rfl, hb, id⟩
        · simp only [ht]
          obtain ⟨g', p, c, e, inv', hp1, hp2⟩ := gssNext_inv g1 g2 h0 h1 hg cost lo hi g hinv
          simp only [e]
          have hb' : BestIn lo hi (ISt.update o { s with param := p, cost := c }) :=
            update_best o lo hi _ hb ⟨hp1, hp2⟩
          obtain ⟨s', e', b', some'⟩ := ih g' { (ISt.update o { s with param := p, cost := c }) with iter := (ISt.update o { s with param := p, cost := c }).iter + 1 } inv' hb'
          exact ⟨s', e', b', fun hs => some' (update_some o { s with param := p, cost := c } hs)⟩

/-- **C14 (f)** golden-section search, every cost function, exact arithmetic: with a start in the
bracket the run cannot fail, returns `Some v`, and `v` lies in the bracket. -/
theorem gss_contained (e l l1 : K → K) (g1 g2 tol : K) (h0 : 0 ≤ g2) (h1 : g2 ≤ 1) (hg : g1 = 1 - g2)
    (cost : K → K) (lo hi init : K) (hlt : lo < hi) (hlo : lo ≤ init) (hhi : init ≤ hi) (n : Nat) :
    ∃ v, gssRun (exactOps e l l1) g1 g2 tol (fun x => .ok (cost x)) lo hi init n = .ok (some v) ∧ lo ≤ v ∧ v ≤ hi := by
  unfold gssRun
  simp only [not_le.mpr hlt, if_false]
  obtain ⟨g, p, c, e1, inv, hp1, hp2⟩ := gssInit_inv (exactOps e l l1) (fun _ => rfl) g2 h0 h1 cost lo hi init hlo hhi
  simp only [e1]
  have hs0 : BestIn lo hi (ISt.update (exactOps e l l1) ⟨p, c, none, none, 0⟩) :=
    update_best _ lo hi _ (by intro v hv; simp at hv) ⟨hp1, hp2⟩
  have hsome : (ISt.update (exactOps e l l1) ⟨p, c, none, none, 0⟩).bestParam.isSome := by
    unfold ISt.update exactOps; rfl
  obtain ⟨s', e', b', some'⟩ := execLoop_best (exactOps e l l1) g1 g2 tol h0 h1 hg cost lo hi n (n + 1) g _ inv hs0
  simp only [e']
  have := some' hsome
  obtain ⟨v, hv⟩ := Option.isSome_iff_exists.mp this
  exact ⟨v, by rw [hv], b' v hv⟩

/-- **C14 (g)** the start handed to the solver by `get_mle` lies in `[0, b_sup]`, and `b_sup ≤ 1` -/
theorem start_in_bracket (card1 card2 : K) (h1 : 0 < card1) (h2 : 0 < card2) (dequal m : Nat) :
    0 < bracketTop card1 card2 ∧ bracketTop card1 card2 ≤ 1 ∧
    0 ≤ initParam (startPoint (F := K) dequal m) (bracketTop card1 card2) ∧
    initParam (startPoint (F := K) dequal m) (bracketTop card1 card2) ≤ bracketTop card1 card2 := by
  have haux : 0 < card1 / card2 := div_pos h1 h2
  have hinv : 0 < 1 / (card1 / card2) := by positivity
  have hb : 0 < bracketTop card1 card2 ∧ bracketTop card1 card2 ≤ 1 := by
    unfold bracketTop
    simp only [Nat.cast_one]
    split
    · rename_i h
      refine ⟨hinv, ?_⟩
      by_contra hc
      have hc : 1 < 1 / (card1 / card2) := not_le.mp hc
      have : card1 / card2 < 1 := by
        rw [lt_div_iff₀ haux] at hc; linarith
      linarith
    · rename_i h
      have h : card1 / card2 ≤ 1 / (card1 / card2) := not_lt.mp h
      refine ⟨haux, ?_⟩
      rw [le_div_iff₀ haux] at h
      nlinarith
  have hs : (0 : K) ≤ startPoint dequal m := by unfold startPoint; positivity
  refine ⟨hb.1, hb.2, ?_, ?_⟩
  · unfold initParam; split
    · exact le_of_lt hb.1
    · exact hs
  · unfold initParam; split
    · exact le_refl _
    · rename_i h; exact not_lt.mp h

/-- in exact arithmetic (no NaN) the likelihood is a total function -/
theorem cost_total (e l l1 : K → K) (dp dl de u v b : K) :
    ∃ f : K → K, cost (exactOps e l l1) dp dl de u v b = fun j => .ok (f j) := by
  refine ⟨fun j => -(dp * l (if u - v * j ≤ ((0:Nat):K) then (-(l1 (-(u - v * j) * (b - ((1:Nat):K)) / b)) / l1 (b - ((1:Nat):K)))
            else (-(l (((1:Nat):K) - (u - v * j) * (b - ((1:Nat):K)) / b)) / l1 (b - ((1:Nat):K))))
        + dl * l (if v - u * j ≤ ((0:Nat):K) then (-(l1 (-(v - u * j) * (b - ((1:Nat):K)) / b)) / l1 (b - ((1:Nat):K)))
            else (-(l (((1:Nat):K) - (v - u * j) * (b - ((1:Nat):K)) / b)) / l1 (b - ((1:Nat):K))))
        + de * l (((1:Nat):K) - (if u - v * j ≤ ((0:Nat):K) then (-(l1 (-(u - v * j) * (b - ((1:Nat):K)) / b)) / l1 (b - ((1:Nat):K)))
            else (-(l (((1:Nat):K) - (u - v * j) * (b - ((1:Nat):K)) / b)) / l1 (b - ((1:Nat):K))))
          - (if v - u * j ≤ ((0:Nat):K) then (-(l1 (-(v - u * j) * (b - ((1:Nat):K)) / b)) / l1 (b - ((1:Nat):K)))
            else (-(l (((1:Nat):K) - (v - u * j) * (b - ((1:Nat):K)) / b)) / l1 (b - ((1:Nat):K)))))), ?_⟩
  funext j
  simp only [cost, pb, exactOps, Bool.false_eq_true, if_false]

/-- **C14 (h)** `get_mle` in exact arithmetic: for same-length sketches and positive cardinal
estimates it neither aborts nor returns `None`; the value lies in `[0, b_sup] ⊆ [0,1]`. -/
theorem getMle_total (e l l1 : K → K) (g1 g2 tol b : K) (h0 : 0 ≤ g2) (h1 : g2 ≤ 1) (hg : g1 = 1 - g2)
    (m : Nat) (card1 card2 : K) (hc1 : 0 < card1) (hc2 : 0 < card2) (s1 s2 : List Nat)
    (hl1 : s1.length = m) (hl2 : s2.length = m) :
    ∃ v, getMle (exactOps e l l1) g1 g2 tol b m card1 card2 s1 s2 = .ok (some v) ∧ 0 ≤ v ∧
      v ≤ bracketTop card1 card2 ∧ bracketTop card1 card2 ≤ 1 := by
  unfold getMle
  have hlen : ¬ (s1.length ≠ m ∨ s2.length ≠ m) := by simp [hl1, hl2]
  simp only [hlen, if_false]
  obtain ⟨hb0, hb1, hi0, hi1⟩ := start_in_bracket card1 card2 hc1 hc2 (counts s1 s2).2.2 m
  obtain ⟨f, hf⟩ := cost_total e l l1 (((counts s1 s2).1 : Nat) : K) (((counts s1 s2).2.1 : Nat) : K)
    (((counts s1 s2).2.2 : Nat) : K) (card1 / (card1 + card2)) (card2 / (card1 + card2)) b
  obtain ⟨v, hv, hv0, hv1⟩ := gss_contained e l l1 g1 g2 tol h0 h1 hg f ((0:Nat):K) (bracketTop card1 card2)
    (initParam (startPoint (counts s1 s2).2.2 m) (bracketTop card1 card2)) (by simpa using hb0) (by simpa using hi0) hi1 100
  refine ⟨v, ?_, by simpa using hv0, hv1, hb1⟩
  simp only [hf, hv]
  have hm : ∀ pts : List K, List.mapM (fun j => (Except.ok (f j) : Except Err K)) pts = .ok (pts.map f) := by
    intro pts
    induction pts with
    | nil => rfl
    | cons x xs ih => simp only [List.mapM_cons, ih, List.map_cons]; rfl
  simp only [hm]

/-- the witness behind defect F5 (fixed in /repo): for nested sets the *unclamped* start
`dequal/m` can exceed the bracket top — e.g. `card2 = 2·card1` and 59 of 100 registers equal. -/
theorem unclamped_start_outside_witness :
    ∃ (card1 card2 : ℚ) (dequal m : Nat), 0 < card1 ∧ 0 < card2 ∧ dequal ≤ m ∧
      bracketTop card1 card2 < startPoint dequal m := by
  refine ⟨1, 2, 59, 100, by norm_num, by norm_num, by norm_num, ?_⟩
  unfold bracketTop startPoint
  norm_num

end MLE
end PMH.C14

import PMH.Proofs.SMH
import PMH.Proofs.SSK
import PMH.Proofs.SMH2
import PMH.Props.C09
/-!
# C04 — unweighted sketches have set semantics

For each sketcher: any stream of items, in any order, with any repetition and any chunking over several
calls (`sketch_slice` is a loop of `sketch`), gives a final sketch that depends only on the *set* of
items.  Each model is proved to refine the `Race` specification "position p holds the extremum over
all points of the streamed items that land on p", whose registers are unique for a given point set.
An item is identified with its private generator (the code seeds it with the item's hash).
-/
namespace PMH.C04
open PMH PMH.Race

/-! ## SuperMinHash (float sketch) -/
section SMH
open PMH.SMHP
variable {K G : Type} [Field K] [LinearOrder K] [IsStrictOrderedRing K] [FloorSemiring K]

/-- stream a list of items (generators) into a sketcher -/
def smhRun (t : SMHP.TOps K G) : SMH K → List G → Except Err (SMH K) := runList (fun s g => s.sketch t.toOps g)

theorem smh_run_spec (t : SMHP.TOps K G) (hn : SMHP.Nice t) (large : K) (m : Nat) (hl : (m : K) ≤ large) (gs : List G)
    (s0 s : SMH K) (h0 : SMH.new t.toOps large m = .ok s0) (e : smhRun t s0 gs = .ok s) :
    SMHP.WF large m s ∧ Spec m large () (listPts (SMHP.itemPts t m) gs) (SMHP.view large s) := by
  obtain ⟨wf0, sp0⟩ := SMHP.new_wf t large m s0 h0
  have := runList_spec (m := m) (top := large) (init := ()) (fun (s : SMH K) (g : G) => s.sketch t.toOps g) (SMHP.WF large m) (SMHP.view large)
    (SMHP.itemPts t m) (fun s g s' P hwf hs e => SMHP.sketch_spec hn hl hwf hs e) gs s0 s ∅ wf0 sp0 e
  simpa using this

/-- **C04 (SuperMinHash)**: same set of items ⇒ identical sketch (every reordering, repetition, chunking) -/
theorem smh_set_semantics (t : SMHP.TOps K G) (hn : SMHP.Nice t) (large : K) (m : Nat) (hl : (m : K) ≤ large)
    (gs gs' : List G) (hset : ∀ g, g ∈ gs ↔ g ∈ gs') (s0 s s' : SMH K) (h0 : SMH.new t.toOps large m = .ok s0)
    (e : smhRun t s0 gs = .ok s) (e' : smhRun t s0 gs' = .ok s') : s.hsketch = s'.hsketch := by
  obtain ⟨wf, sp⟩ := smh_run_spec t hn large m hl gs s0 s h0 e
  obtain ⟨wf', sp'⟩ := smh_run_spec t hn large m hl gs' s0 s' h0 e'
  rw [← listPts_congr (SMHP.itemPts t m) hset] at sp'
  have hreg := spec_unique_reg sp sp'
  apply Array.ext
  · rw [wf.core.hsz, wf'.core.hsz]
  · intro i hi hi'
    have := hreg i (by rw [← wf.core.hsz]; exact hi)
    simpa [SMHP.view, Array.getD_eq_getD_getElem?, hi, hi'] using this

/-- … and the stream never aborts: no index out of range, `a_upper` never underflows -/
theorem smh_never_panics (t : SMHP.TOps K G) (hn : SMHP.Nice t) (large : K) (m : Nat) (hl : (m : K) ≤ large) (hm : 1 ≤ m)
    (s : SMH K) (hwf : SMHP.WF large m s) (g : G) : ∃ s', s.sketch t.toOps g = .ok s' :=
  SMHP.sketch_ok hn hl hwf hm g
end SMH

/-! ## SuperMinHash2 (integer sketch storing item hashes) -/
section SMH2
open PMH.SMH2P
variable {G : Type}

/-- **C04 (SuperMinHash2)**: two streams over the same set of items (as (hash, generator) pairs) from a new
sketcher end with the same levels and values everywhere, and — unless two different items tie exactly on
`(level, r)` at a slot (the code compares `r <=`) — with the same stored hashes. -/
theorem smh2_set_semantics (t : SMH2P.TOps G) (hn : SMH2P.Nice t) (imax m : Nat) (items items' : List (Nat × G))
    (hset : ∀ x, x ∈ items ↔ x ∈ items') (s0 s s' : SMH2) (h0 : SMH2.new imax m = .ok s0)
    (e : SMH2P.run t s0 items = .ok s) (e' : SMH2P.run t s0 items' = .ok s') :
    (∀ k, k < m → s.l.getD k 0 = s'.l.getD k 0 ∧ s.values.getD k 0 = s'.values.getD k 0) ∧
    (TieFree (SMH2P.streamPts t m items) → ∀ k, k < m → s.hsketch.getD k 0 = s'.hsketch.getD k 0) := by
  have hP : SMH2P.streamPts t m items = SMH2P.streamPts t m items' := by
    ext p; simp only [SMH2P.streamPts, Set.mem_setOf_eq]
    constructor
    · rintro ⟨x, hx, hp⟩; exact ⟨x, (hset x).mp hx, hp⟩
    · rintro ⟨x, hx, hp⟩; exact ⟨x, (hset x).mpr hx, hp⟩
  exact SMH2P.stream_set_semantics t hn imax m items items' s0 s s' h0 e e' hP

/-- after at least one item every position holds the hash of a streamed item -/
theorem smh2_holds_hashes (t : SMH2P.TOps G) (hn : SMH2P.Nice t) (imax m : Nat) (items : List (Nat × G)) (s0 s : SMH2)
    (h0 : SMH2.new imax m = .ok s0) (e : SMH2P.run t s0 items = .ok s) (hne : items ≠ []) (k : Nat) (hk : k < m) :
    ∃ x ∈ items, s.hsketch.getD k 0 = x.1 :=
  ((SMH2P.holds_item_hash t hn imax m items s0 s h0 e).2 hne k hk).2

/-- the stream never aborts as long as the hashes fit the sketch type (`I::from_u64`) -/
theorem smh2_never_panics (t : SMH2P.TOps G) (hn : SMH2P.Nice t) (m : Nat) (items : List (Nat × G)) (s : SMH2)
    (hwf : SMH2P.WF m s) (hfit : ∀ x ∈ items, x.1 ≤ s.imax) : ∃ s', SMH2P.run t s items = .ok s' :=
  SMH2P.run_ok t hn m items s hwf hfit
end SMH2

/-! ## SetSketch -/
section SSK
open PMH.SSKP
variable {F G : Type}

def sskRun (t : SSKP.TOps F G) : SSK → List G → Except Err SSK := runList (fun s g => s.sketch t.toOps g)

theorem ssk_run_spec (t : SSKP.TOps F G) (hn : SSKP.Nice t) (b : Float) (m : Nat) (a : Float) (q imax : Nat) (lnb : Float)
    (gs : List G) (s : SSK) (e : sskRun t (SSK.new b m a q imax lnb) gs = .ok s) :
    SSKP.WF m imax s ∧ Spec m (OrderDual.toDual 0) () (listPts (SSKP.itemPts t m imax) gs) (SSKP.view s) := by
  obtain ⟨wf0, sp0⟩ := SSKP.new_wf b m a q imax lnb
  have := runList_spec (m := m) (top := OrderDual.toDual 0) (init := ()) (fun (s : SSK) (g : G) => s.sketch t.toOps g) (SSKP.WF m imax) SSKP.view
    (SSKP.itemPts t m imax) (fun s g s' P hwf hs e => SSKP.sketch_spec t hn g P hwf hs e) gs _ s ∅ wf0 sp0 e
  simpa using this

/-- **C04 (SetSketch)**: same set of items ⇒ identical registers -/
theorem ssk_set_semantics (t : SSKP.TOps F G) (hn : SSKP.Nice t) (b : Float) (m : Nat) (a : Float) (q imax : Nat) (lnb : Float)
    (gs gs' : List G) (hset : ∀ g, g ∈ gs ↔ g ∈ gs') (s s' : SSK)
    (e : sskRun t (SSK.new b m a q imax lnb) gs = .ok s) (e' : sskRun t (SSK.new b m a q imax lnb) gs' = .ok s') :
    s.kvec = s'.kvec := by
  obtain ⟨wf, sp⟩ := ssk_run_spec t hn b m a q imax lnb gs s e
  obtain ⟨wf', sp'⟩ := ssk_run_spec t hn b m a q imax lnb gs' s' e'
  rw [← listPts_congr (SSKP.itemPts t m imax) hset] at sp'
  have hreg := spec_unique_reg sp sp'
  apply Array.ext
  · rw [wf.hsize, wf'.hsize]
  · intro i hi hi'
    have hk : i < m := by rw [← wf.hsize]; exact hi
    have := hreg i hk
    simp only [SSKP.view, wf.hm, wf'.hm, hk, if_true] at this
    have h2 := congrArg OrderDual.ofDual this
    simpa [Array.getD_eq_getD_getElem?, hi, hi'] using h2

theorem ssk_never_panics (t : SSKP.TOps F G) (hn : SSKP.Nice t) (m imax : Nat) (s : SSK) (hwf : SSKP.WF m imax s) (g : G) :
    ∃ s', s.sketch t.toOps g = .ok s' := SSKP.sketch_ok t hn g hwf
end SSK

/-! ## densified one-permutation sketchers: see `C09` -/
section Dens
variable {K G R : Type} [LinearOrder K]
/-- **C04 (densified sketchers)**: the state before finishing depends only on the item set (whole state:
floats, hashes, flags, counter); finishing is a deterministic function of that state; and
`sketch_slice` = item-wise `sketch` + `end_sketch` (`C09.sketchSlice_is_stream_then_end`). -/
theorem dens_set_semantics (large : K) (m : Nat) (t : DensP.TOps K G R) (hn : DensP.Nice t m) (hr : ∀ g, (t.fr g).1 < large)
    (items items' : List (Nat × G)) (hset : ∀ it, it ∈ items ↔ it ∈ items') (opt : Bool) (fuel : Nat) :
    ∃ s, DensP.stream t.toOps (Dens.new large m) items = .ok s ∧ DensP.stream t.toOps (Dens.new large m) items' = .ok s ∧
      s.endSketch t.toOps opt fuel = s.endSketch t.toOps opt fuel := by
  obtain ⟨s, e, e'⟩ := C09.sketch_phase_set_semantics large m t hn hr items items' hset
  exact ⟨s, e, e', rfl⟩

/-- the u64 view of a finished densified sketch holds hashes of streamed items (`C09.finished_holds_streamed`) -/
theorem dens_holds_hashes (large : K) (m : Nat) (t : DensP.TOps K G R) (hn : DensP.Nice t m) (hr : ∀ g, (t.fr g).1 < large)
    (gen : Nat → G) (hs : List Nat) (opt : Bool) (fuel : Nat) (s1 s' : Dens K)
    (e1 : DensP.stream t.toOps (Dens.new large m) (C09.withGen gen hs) = .ok s1) (e2 : s1.endSketch t.toOps opt fuel = .ok s')
    (k : Nat) (hk : k < m) : ∃ h ∈ hs, s'.values.getD k Dens.u64Max = h := by
  obtain ⟨h, hh, a, _⟩ := C09.finished_holds_streamed large m t hn hr gen hs opt fuel s1 s' e1 e2 k hk
  exact ⟨h, hh, a⟩
end Dens

end PMH.C04

import PMH.Model.Mle
import PMH.Proofs.RealAnalysis
import Mathlib.Algebra.BigOperators.Group.List.Basic
/-!
# C06 — the SetSketch cardinality estimate is monotone in the registers and independent of the reduction order

Model: `PMH.Mle.cardEst` / `sumbk` (`Model/Mle.lean`): the sequential fold of `get_cardinal_stats` and
`MleJaccard::get_cardinal_estimate`, here at `ℝ` with `exp := Real.exp`, `ln_1p x := Real.log (1 + x)`.
Not mechanised: the two distributional clauses (expected relative error O(1/m); observed spread within
15 % of the advertised RSD for m ≥ 64) — statements about the law of `Σ b^{-K_i}` with no closed form.
-/
namespace PMH.C06
open PMH PMH.Mle PMH.RA

noncomputable def realFOps : FOps ℝ :=
  { exp := Real.exp, ln := Real.log, ln1p := fun x => Real.log (1 + x), isNaN := fun _ => false,
    bothInfSame := fun _ _ => false, isPosInf := fun _ => false, abs := fun x => |x| }

theorem foldl_add_eq (f : ℕ → ℝ) (l : List ℕ) (a : ℝ) : l.foldl (fun acc c => acc + f c) a = a + (l.map f).sum := by
  induction l generalizing a with
  | nil => simp
  | cons x xs ih => simp only [List.foldl_cons, List.map_cons, List.sum_cons, ih]; ring

/-- the model's sequential fold is the sum `RA.sumbk` -/
theorem sumbk_eq (b : ℝ) (regs : List ℕ) : Mle.sumbk realFOps b regs = RA.sumbk b regs := by
  unfold Mle.sumbk RA.sumbk
  rw [foldl_add_eq]
  simp only [realFOps, Nat.cast_zero, zero_add, Nat.cast_one]
  congr 1
  apply List.map_congr_left
  intro k _
  congr 2
  ring_nf

theorem cardEst_eq (b a : ℝ) (m : ℕ) (regs : List ℕ) : Mle.cardEst realFOps b a m regs = RA.cardEst b a m regs := by
  unfold Mle.cardEst RA.cardEst
  rw [sumbk_eq]
  simp only [realFOps, Nat.cast_one]
  congr 2
  ring_nf

/-- **C06 (a)** larger registers ⇒ larger (or equal) estimate: since sketching an item and merging a
sketch only raise registers (C05), the estimate never decreases along any history -/
theorem estimate_monotone (b a : ℝ) (m : ℕ) (hb : 1 < b) (ha : 0 < a) {regs regs' : List ℕ}
    (h : List.Forall₂ (· ≤ ·) regs regs') :
    Mle.cardEst realFOps b a m regs ≤ Mle.cardEst realFOps b a m regs' := by
  rw [cardEst_eq, cardEst_eq]; exact cardEst_mono b a m hb ha h

/-- **C06 (b)** the sum behind the estimate does not depend on the order of the registers nor on how the
slice is split (`sum(l₁ ++ l₂) = sum l₁ + sum l₂`): every rayon reduction tree equals the sequential fold -/
theorem reduction_order_free (b : ℝ) {regs regs' : List ℕ} (h : regs.Perm regs') :
    Mle.sumbk realFOps b regs = Mle.sumbk realFOps b regs' := by
  rw [sumbk_eq, sumbk_eq]; exact sumbk_perm b h

theorem reduction_split (b : ℝ) (l₁ l₂ : List ℕ) :
    Mle.sumbk realFOps b (l₁ ++ l₂) = Mle.sumbk realFOps b l₁ + Mle.sumbk realFOps b l₂ := by
  rw [sumbk_eq, sumbk_eq, sumbk_eq]; exact sumbk_append b l₁ l₂

/-- **C06 (c)** the estimate is positive and the advertised relative standard deviation is well defined -/
theorem estimate_pos (b a : ℝ) (m : ℕ) (hb : 1 < b) (ha : 0 < a) (hm : 0 < m) {regs : List ℕ} (hr : regs ≠ []) :
    0 < Mle.cardEst realFOps b a m regs := by
  rw [cardEst_eq]; exact cardEst_pos b a m hb ha hm hr

theorem rsd_well_defined (b : ℝ) (m : ℕ) (hb : 1 < b) (hm : 0 < m) :
    0 ≤ ((b + 1) / (b - 1) * Real.log b - 1) / (m : ℝ) := rsd_radicand_nonneg b m hb hm

end PMH.C06

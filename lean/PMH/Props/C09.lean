import PMH.Proofs.Dens
import PMH.Proofs.DensTerm
/-!
# C09 — densification only copies populated bins, is idempotent, and reports an empty stream

Model: `PMH.Dens` (`Model/DensMinHash.lean`): `sketch`, `densifyOpt` / `densifyRev` (ChaCha12 probes enter
through `mkRng`/`draw`), `endSketch`, `sketchSlice`, `reinit`.  `K` is any linear order (the `r` values);
an item is its 64-bit hash `h` with generator `gen h`.
-/
namespace PMH.C09
open PMH PMH.Race PMH.DensP
variable {K G R : Type} [LinearOrder K]

/-- items of a stream as (hash, generator) pairs: the generator is seeded with the hash -/
def withGen (gen : Nat → G) (hs : List Nat) : List (Nat × G) := hs.map (fun h => (h, gen h))

/-- **C09 (a)** finishing (either algorithm): populated bins untouched; every bin ends with the
`(value, hash)` pair of an originally populated bin; no empty bin is left (`nb_empty = 0`, so the
`assert_eq!(nb_empty, 0)` of the code cannot fire on a run that returns). -/
theorem finish_structure (large : K) (m : Nat) (o : DensOps K G R) (opt : Bool) (fuel : Nat) (s0 s' : Dens K)
    (hinv : DInv large m s0) (hne : s0.nbEmpty ≠ 0) (e : s0.endSketch o opt fuel = .ok s') :
    Densified large m s0 s' := by
  unfold Dens.endSketch at e
  simp only [hne, if_false] at e
  cases opt with
  | true =>
    simp only [if_true] at e
    cases hd : Dens.densifyOpt o fuel s0 with
    | error er => rw [hd] at e; cases er <;> simp at e
    | ok s1 => rw [hd] at e; injection e with e; subst e; exact densifyOpt_structure large m o fuel s0 _ hinv hd
  | false =>
    simp only [Bool.false_eq_true, if_false] at e
    cases hd : Dens.densifyRev o fuel 1 s0 with
    | error er => rw [hd] at e; cases er <;> simp at e
    | ok s1 => rw [hd] at e; injection e with e; subst e; exact densifyRev_structure large m o fuel s0 _ hinv hd

/-- **C09 (b)** after streaming any items and finishing, every position holds the hash of a streamed
item, and its float value is the `r` that item drew — so the float view is a function of the u64 view. -/
theorem finished_holds_streamed (large : K) (m : Nat) (t : TOps K G R) (hn : Nice t m) (hr : ∀ g, (t.fr g).1 < large)
    (gen : Nat → G) (hs : List Nat) (opt : Bool) (fuel : Nat) (s1 s' : Dens K)
    (e1 : stream t.toOps (Dens.new large m) (withGen gen hs) = .ok s1) (e2 : s1.endSketch t.toOps opt fuel = .ok s')
    (k : Nat) (hk : k < m) :
    ∃ h ∈ hs, s'.values.getD k Dens.u64Max = h ∧ s'.hsketch.getD k large = (t.fr (gen h)).1 := by
  obtain ⟨inv0, sp0⟩ := new_inv (K := K) large m
  obtain ⟨s1', e1', inv1, _⟩ := stream_spec large m t hn hr (withGen gen hs) _ _ inv0 sp0
  rw [e1] at e1'; injection e1' with e1'; subst e1'
  have key : ∀ j, j < m → s1.init.getD j false = true →
      ∃ h ∈ hs, s1.values.getD j Dens.u64Max = h ∧ s1.hsketch.getD j large = (t.fr (gen h)).1 := by
    intro j hj hf
    obtain ⟨it, hit, a, b, _⟩ := stream_holds_items large m t hn hr (withGen gen hs) s1 e1 j hj hf
    obtain ⟨h, hh, rfl⟩ := List.mem_map.mp hit
    exact ⟨h, hh, a, b⟩
  by_cases hz : s1.nbEmpty = 0
  · have : s' = s1 := by unfold Dens.endSketch at e2; simp [hz] at e2; exact e2.symm
    subst this
    have hall := all_init_of_count s'.init (by rw [← inv1.2.2.2.1, hz]) k (by rw [inv1.2.2.1]; exact hk)
    exact key k hk hall
  · obtain ⟨_, _, _, _, _, _, hsrc⟩ := finish_structure large m t.toOps opt fuel s1 s' inv1 hz e2
    obtain ⟨j, hj, hjp, hpair⟩ := hsrc k hk
    obtain ⟨h, hh, a, b⟩ := key j hj hjp
    simp only [pair, Prod.mk.injEq] at hpair
    exact ⟨h, hh, by rw [hpair.2, a], by rw [hpair.1, b]⟩

/-- the u32 view is `murmur3_32` mapped over the u64 view: a fixed function of it -/
def u32view (f : Nat → Nat) (s : Dens K) : Array Nat := s.values.map f
theorem u32view_fixed_function (f : Nat → Nat) (s s' : Dens K) (k : Nat)
    (h : s.values[k]? = s'.values[k]?) : (u32view f s)[k]? = (u32view f s')[k]? := by
  simp [u32view, h]

/-- the same for the view the MODEL itself computes (`Dens.u32View`, with `murmur3_32` modelled in `Model/Hashers.lean` and
compared with the code after every operation): it is `murmurOfU64` mapped over the stored hashes, so two sketches that agree at
a position in the u64 view agree there in the u32 view -/
theorem model_u32_view_is_murmur_of_u64_view (s : Dens K) :
    s.u32View = s.values.toList.map (fun v => Hashers.murmurOfU64 v.toUInt64) := rfl

theorem model_u64_equal_u32_equal (s s' : Dens K) (k : Nat) (h : s.values[k]? = s'.values[k]?) :
    s.u32View[k]? = s'.u32View[k]? := by
  simp only [Dens.u32View, List.getElem?_map, Array.getElem?_toList, h]

/-- **C09 (c)** two finished sketches that agree at a position in the u64 view agree there in the float view -/
theorem u64_equal_float_equal (large : K) (m : Nat) (t : TOps K G R) (hn : Nice t m) (hr : ∀ g, (t.fr g).1 < large)
    (gen : Nat → G) (hs hs' : List Nat) (opt opt' : Bool) (fuel fuel' : Nat) (a1 a b1 b : Dens K)
    (ea1 : stream t.toOps (Dens.new large m) (withGen gen hs) = .ok a1) (ea : a1.endSketch t.toOps opt fuel = .ok a)
    (eb1 : stream t.toOps (Dens.new large m) (withGen gen hs') = .ok b1) (eb : b1.endSketch t.toOps opt' fuel' = .ok b)
    (k : Nat) (hk : k < m) (heq : a.values.getD k Dens.u64Max = b.values.getD k Dens.u64Max) :
    a.hsketch.getD k large = b.hsketch.getD k large := by
  obtain ⟨h, _, a2, a3⟩ := finished_holds_streamed large m t hn hr gen hs opt fuel a1 a ea1 ea k hk
  obtain ⟨h', _, b2, b3⟩ := finished_holds_streamed large m t hn hr gen hs' opt' fuel' b1 b eb1 eb k hk
  rw [a3, b3]
  have : h = h' := by rw [← a2, ← b2, heq]
  rw [this]

/-- **C09 (d)** `end_sketch` is idempotent -/
theorem endSketch_idempotent (o : DensOps K G R) (opt : Bool) (fuel : Nat) (s s' : Dens K)
    (e : s.endSketch o opt fuel = .ok s') : s'.endSketch o opt fuel = .ok s' :=
  endSketch_idem o opt fuel s s' e

/-- **C09 (e)** `sketch_slice` = item-wise `sketch` + `end_sketch` -/
theorem sketchSlice_is_stream_then_end (large : K) (m : Nat) (t : TOps K G R) (hn : Nice t m) (hr : ∀ g, (t.fr g).1 < large)
    (items : List (Nat × G)) (opt : Bool) (fuel : Nat) (s' : Dens K) :
    ∃ s1, stream t.toOps (Dens.new large m) items = .ok s1 ∧
      ((Dens.new large m).sketchSlice t.toOps opt fuel items = .ok s' ↔ s1.endSketch t.toOps opt fuel = .ok s') := by
  obtain ⟨inv0, sp0⟩ := new_inv (K := K) large m
  obtain ⟨s1, e1, inv1, _⟩ := stream_spec large m t hn hr items _ _ inv0 sp0
  refine ⟨s1, e1, sketchSlice_eq t.toOps opt fuel _ s1 s' items e1 ?_⟩
  rw [inv1.2.2.2.1]; exact Int.natCast_nonneg _

/-- **C09 (f)** nothing streamed: finishing reports failure at once — it does not search, hence cannot hang -/
theorem empty_stream_reports_failure (large : K) (o : DensOps K G R) (opt : Bool) (fuel m : Nat) (hm : 1 ≤ m) :
    (Dens.new large m).endSketch o opt fuel = .error (.assertFail "end_sketch: assert!(res.is_ok())") ∧
    (Dens.new large m).sketchSlice o opt fuel [] = .error (.badArg "densify : no item sketched") :=
  ⟨endSketch_empty large o opt fuel m hm, sketchSlice_empty large o opt fuel m hm⟩

/-- **C04 (densified sketchers, sketch phase)** the state before finishing is a function of the item set -/
theorem sketch_phase_set_semantics (large : K) (m : Nat) (t : TOps K G R) (hn : Nice t m) (hr : ∀ g, (t.fr g).1 < large)
    (items items' : List (Nat × G)) (hset : ∀ it, it ∈ items ↔ it ∈ items') :
    ∃ s, stream t.toOps (Dens.new large m) items = .ok s ∧ stream t.toOps (Dens.new large m) items' = .ok s :=
  stream_set_semantics large m t hn hr items items' hset

/-- `reinit` = `new` (C13 for the densified sketchers) -/
theorem reinit_eq_new (large : K) (s : Dens K) : s.reinit large = Dens.new large s.hsketch.size := rfl


/-! ### termination of finishing on non-empty streams: almost sure under ideal probes, with a fuel bound

Surely-termination cannot be a theorem (it depends on what the ChaCha12 probes hit).  Under the ideal-hash
idealisation — probes of a bin independent and uniform on the `m` bins (`IdealDraws`) — it holds with
probability 1, and the probability of exhausting a budget of `n` probes (passes) is at most `m (1 − 1/m)^n`
(`Proofs/DensTerm.lean`; `idealOps` is an operations record whose generators read an i.i.d. uniform family, so no
probabilistic hypothesis is left). -/
section Termination
open MeasureTheory PMH.DensSel PMH.DensTerm
open scoped ENNReal
variable {K G R : Type} [LinearOrder K] {m : Nat} [NeZero m]

/-- **C09 (d)** optimal densification of a sketch with at least one populated bin returns almost surely -/
theorem optimal_finishing_terminates_almost_surely (large : K) (o0 : DensOps K G R) (s0 : Dens K)
    (hinv : DInv large m s0) (hpop : ∃ b, (V0 large m s0).pop b) :
    ∀ᵐ ω ∂(Pcan m), ∃ fuel s', Dens.densifyOpt (idealOps m o0 ω) fuel s0 = .ok s' :=
  idealOps_opt_terminates_ae m large o0 s0 hinv hpop

/-- … and a budget of `n` probes per bin is exhausted with probability at most `m (1 − 1/m)^n` -/
theorem optimal_finishing_fuel_bound (large : K) (o0 : DensOps K G R) (s0 : Dens K)
    (hinv : DInv large m s0) (hpop : ∃ b, (V0 large m s0).pop b) (n : ℕ) :
    Pcan m {ω | ¬ ∃ s', Dens.densifyOpt (idealOps m o0 ω) n s0 = .ok s'} ≤ m * (1 - 1 / (m : ℝ≥0∞)) ^ n :=
  idealOps_opt_fuel_bound m large o0 s0 hinv hpop n

/-- **C09 (d), reverse algorithm** -/
theorem reverse_finishing_terminates_almost_surely (large : K) (o0 : DensOps K G R) (s0 : Dens K)
    (hinv : DInv large m s0) (hpop : ∃ b, (V0 large m s0).pop b) :
    ∀ᵐ ω ∂(Pcan m), ∃ fuel s', Dens.densifyRev (idealOps m o0 ω) fuel 1 s0 = .ok s' :=
  idealOps_rev_terminates_ae m large o0 s0 hinv hpop

theorem reverse_finishing_fuel_bound (large : K) (o0 : DensOps K G R) (s0 : Dens K)
    (hinv : DInv large m s0) (hpop : ∃ b, (V0 large m s0).pop b) (n : ℕ) :
    Pcan m {ω | ¬ ∃ s', Dens.densifyRev (idealOps m o0 ω) (n + 1) 1 s0 = .ok s'} ≤ m * (1 - 1 / (m : ℝ≥0∞)) ^ n :=
  idealOps_rev_fuel_bound m large o0 s0 hinv hpop n
end Termination

end PMH.C09

import PMH.Model.InvHashGen
import Std.Tactic.BVDecide
import Mathlib.Logic.Function.Defs
/-!
# C19 — the invertible integer hashes are bijections with the given inverses

The definitions in `PMH.InvHashGen` are **generated from `src/invhash.rs`** on every check run
(`tools/translate_invhash.py`): one `…_step<i>` per assignment to the running key.  Each step of the
inverse undoes one step of the hash (and conversely); xor-shift and add-shift steps are settled by
`bv_decide` (bit-blasting + LRAT certificate), multiplication steps algebraically (plain `bv_decide`
times out on 64-bit multiplications).
-/
namespace PMH.C19
open PMH.InvHashGen

/-- `x + x<<<n = x * (1 + 2^n)` and `x<<<n - x = x * (2^n - 1)`: the algebra behind the multiplication steps -/
theorem add_shl {w : Nat} (x : BitVec w) (n : Nat) (c : BitVec w) (hc : 1#w + BitVec.twoPow w n = c) :
    x + (x <<< n) = x * c := by
  rw [← hc, BitVec.mul_add, BitVec.mul_one, BitVec.shiftLeft_eq_mul_twoPow]
theorem shl_sub {w : Nat} (x : BitVec w) (n : Nat) (c : BitVec w) (hc : BitVec.twoPow w n - 1#w = c) :
    (x <<< n) - x = x * c := by
  rw [← hc, BitVec.mul_sub, BitVec.mul_one, BitVec.shiftLeft_eq_mul_twoPow]

/-! ## 64 bit: inverse step `8-i` undoes hash step `i` -/
theorem h64_7 (x : BitVec 64) : int64_hash_inverse_step1 (int64_hash_step7 x) = x := by
  unfold int64_hash_inverse_step1 int64_hash_step7; bv_decide
theorem h64_6 (x : BitVec 64) : int64_hash_inverse_step2 (int64_hash_step6 x) = x := by
  unfold int64_hash_inverse_step2 int64_hash_step6; bv_decide
theorem h64_5 (x : BitVec 64) : int64_hash_inverse_step3 (int64_hash_step5 x) = x := by
  unfold int64_hash_inverse_step3 int64_hash_step5
  have hc : 21#64 * 14933078535860113213#64 = 1#64 := by decide
  first
  | (have h : x + (x <<< 2) + (x <<< 4) = x * 21#64 := by bv_decide
     rw [h, BitVec.mul_assoc, hc, BitVec.mul_one])
  | rw [BitVec.mul_assoc, hc, BitVec.mul_one]   -- the source spells the step `key.wrapping_mul(21)`
theorem h64_4 (x : BitVec 64) : int64_hash_inverse_step4 (int64_hash_step4 x) = x := by
  unfold int64_hash_inverse_step4 int64_hash_step4; bv_decide
theorem h64_3 (x : BitVec 64) : int64_hash_inverse_step5 (int64_hash_step3 x) = x := by
  unfold int64_hash_inverse_step5 int64_hash_step3
  have hc : 265#64 * 15244667743933553977#64 = 1#64 := by decide
  first
  | (have h : x + (x <<< 3) + (x <<< 8) = x * 265#64 := by bv_decide
     rw [h, BitVec.mul_assoc, hc, BitVec.mul_one])
  | rw [BitVec.mul_assoc, hc, BitVec.mul_one]   -- `key.wrapping_mul(265)`
theorem h64_2 (x : BitVec 64) : int64_hash_inverse_step6 (int64_hash_step2 x) = x := by
  unfold int64_hash_inverse_step6 int64_hash_step2; bv_decide
theorem h64_1 (x : BitVec 64) : int64_hash_inverse_step7 (int64_hash_step1 x) = x := by
  unfold int64_hash_inverse_step7 int64_hash_step1; bv_decide

/-- **C19 (64-bit, first half)**: `int64_hash_inverse (int64_hash x) = x` for all 2^64 values. -/
theorem int64_inverse_hash (x : BitVec 64) : int64_hash_inverse (int64_hash x) = x := by
  unfold int64_hash_inverse int64_hash
  rw [h64_7, h64_6, h64_5, h64_4, h64_3, h64_2, h64_1]

/-! ## 64 bit, other direction: hash step `i` undoes inverse step `8-i` -/
theorem g64_1 (x : BitVec 64) : int64_hash_step1 (int64_hash_inverse_step7 x) = x := by
  unfold int64_hash_inverse_step7 int64_hash_step1; bv_decide
theorem g64_2 (x : BitVec 64) : int64_hash_step2 (int64_hash_inverse_step6 x) = x := by
  unfold int64_hash_inverse_step6 int64_hash_step2; bv_decide
theorem g64_3 (x : BitVec 64) : int64_hash_step3 (int64_hash_inverse_step5 x) = x := by
  unfold int64_hash_inverse_step5 int64_hash_step3
  have h : ∀ y : BitVec 64, y + (y <<< 3) + (y <<< 8) = y * 265#64 := by intro y; bv_decide
  have hc : 15244667743933553977#64 * 265#64 = 1#64 := by decide
  first
  | rw [h, BitVec.mul_assoc, hc, BitVec.mul_one]
  | rw [BitVec.mul_assoc, hc, BitVec.mul_one]
theorem g64_4 (x : BitVec 64) : int64_hash_step4 (int64_hash_inverse_step4 x) = x := by
  unfold int64_hash_inverse_step4 int64_hash_step4; bv_decide
theorem g64_5 (x : BitVec 64) : int64_hash_step5 (int64_hash_inverse_step3 x) = x := by
  unfold int64_hash_inverse_step3 int64_hash_step5
  have h : ∀ y : BitVec 64, y + (y <<< 2) + (y <<< 4) = y * 21#64 := by intro y; bv_decide
  have hc : 14933078535860113213#64 * 21#64 = 1#64 := by decide
  first
  | rw [h, BitVec.mul_assoc, hc, BitVec.mul_one]
  | rw [BitVec.mul_assoc, hc, BitVec.mul_one]
theorem g64_6 (x : BitVec 64) : int64_hash_step6 (int64_hash_inverse_step2 x) = x := by
  unfold int64_hash_inverse_step2 int64_hash_step6; bv_decide
theorem g64_7 (x : BitVec 64) : int64_hash_step7 (int64_hash_inverse_step1 x) = x := by
  unfold int64_hash_inverse_step1 int64_hash_step7; bv_decide

/-- **C19 (64-bit, second half)**: `int64_hash (int64_hash_inverse x) = x` for all 2^64 values. -/
theorem int64_hash_inverse_id (x : BitVec 64) : int64_hash (int64_hash_inverse x) = x := by
  unfold int64_hash_inverse int64_hash
  rw [g64_1, g64_2, g64_3, g64_4, g64_5, g64_6, g64_7]

/-! ## 32 bit -/
theorem h32_6 (x : BitVec 32) : int32_hash_inverse_step1 (int32_hash_step6 x) = x := by
  unfold int32_hash_inverse_step1 int32_hash_step6; bv_decide
theorem h32_5 (x : BitVec 32) : int32_hash_inverse_step2 (int32_hash_step5 x) = x := by
  unfold int32_hash_inverse_step2 int32_hash_step5
  have h : ~~~(x + ~~~(x <<< 11)) = x * 2047#32 := by
    rw [← shl_sub x 11 2047#32 (by decide)]; bv_decide
  rw [h, BitVec.mul_assoc]
  have : 2047#32 * 4290770943#32 = 1#32 := by decide
  rw [this, BitVec.mul_one]
theorem h32_4 (x : BitVec 32) : int32_hash_inverse_step3 (int32_hash_step4 x) = x := by
  unfold int32_hash_inverse_step3 int32_hash_step4; bv_decide
theorem h32_3 (x : BitVec 32) : int32_hash_inverse_step4 (int32_hash_step3 x) = x := by
  unfold int32_hash_inverse_step4 int32_hash_step3
  have h : x + (x <<< 3) = x * 9#32 := add_shl x 3 9#32 (by decide)
  have hc : 9#32 * 954437177#32 = 1#32 := by decide
  first
  | rw [h, BitVec.mul_assoc, hc, BitVec.mul_one]
  | rw [BitVec.mul_assoc, hc, BitVec.mul_one]
theorem h32_2 (x : BitVec 32) : int32_hash_inverse_step5 (int32_hash_step2 x) = x := by
  unfold int32_hash_inverse_step5 int32_hash_step2; bv_decide
theorem h32_1 (x : BitVec 32) : int32_hash_inverse_step6 (int32_hash_step1 x) = x := by
  unfold int32_hash_inverse_step6 int32_hash_step1
  have h : ~~~(x + ~~~(x <<< 15)) = x * 32767#32 := by
    rw [← shl_sub x 15 32767#32 (by decide)]; bv_decide
  rw [h, BitVec.mul_assoc]
  have : 32767#32 * 3221192703#32 = 1#32 := by decide
  rw [this, BitVec.mul_one]

/-- **C19 (32-bit, first half)**: `int32_hash_inverse (int32_hash x) = x` for all 2^32 values. -/
theorem int32_inverse_hash (x : BitVec 32) : int32_hash_inverse (int32_hash x) = x := by
  unfold int32_hash_inverse int32_hash
  rw [h32_6, h32_5, h32_4, h32_3, h32_2, h32_1]

theorem g32_1 (x : BitVec 32) : int32_hash_step1 (int32_hash_inverse_step6 x) = x := by
  unfold int32_hash_inverse_step6 int32_hash_step1
  have h : ∀ y : BitVec 32, y + ~~~(y <<< 15) = ~~~(y * 32767#32) := by
    intro y; rw [← shl_sub y 15 32767#32 (by decide)]; bv_decide
  rw [h, BitVec.mul_assoc]
  have : 3221192703#32 * 32767#32 = 1#32 := by decide
  rw [this, BitVec.mul_one, BitVec.not_not]
theorem g32_2 (x : BitVec 32) : int32_hash_step2 (int32_hash_inverse_step5 x) = x := by
  unfold int32_hash_inverse_step5 int32_hash_step2; bv_decide
theorem g32_3 (x : BitVec 32) : int32_hash_step3 (int32_hash_inverse_step4 x) = x := by
  unfold int32_hash_inverse_step4 int32_hash_step3
  have h : ∀ y : BitVec 32, y + (y <<< 3) = y * 9#32 := fun y => add_shl y 3 9#32 (by decide)
  have hc : 954437177#32 * 9#32 = 1#32 := by decide
  first
  | rw [h, BitVec.mul_assoc, hc, BitVec.mul_one]
  | rw [BitVec.mul_assoc, hc, BitVec.mul_one]
theorem g32_4 (x : BitVec 32) : int32_hash_step4 (int32_hash_inverse_step3 x) = x := by
  unfold int32_hash_inverse_step3 int32_hash_step4; bv_decide
theorem g32_5 (x : BitVec 32) : int32_hash_step5 (int32_hash_inverse_step2 x) = x := by
  unfold int32_hash_inverse_step2 int32_hash_step5
  have h : ∀ y : BitVec 32, y + ~~~(y <<< 11) = ~~~(y * 2047#32) := by
    intro y; rw [← shl_sub y 11 2047#32 (by decide)]; bv_decide
  rw [h, BitVec.mul_assoc]
  have : 4290770943#32 * 2047#32 = 1#32 := by decide
  rw [this, BitVec.mul_one, BitVec.not_not]
theorem g32_6 (x : BitVec 32) : int32_hash_step6 (int32_hash_inverse_step1 x) = x := by
  unfold int32_hash_inverse_step1 int32_hash_step6; bv_decide

/-- **C19 (32-bit, second half)**: `int32_hash (int32_hash_inverse x) = x` for all 2^32 values. -/
theorem int32_hash_inverse_id (x : BitVec 32) : int32_hash (int32_hash_inverse x) = x := by
  unfold int32_hash_inverse int32_hash
  rw [g32_1, g32_2, g32_3, g32_4, g32_5, g32_6]

/-- consequence: both hashes are bijections -/
theorem int64_hash_bijective : Function.Bijective int64_hash :=
  ⟨fun a b h => by rw [← int64_inverse_hash a, h, int64_inverse_hash],
   fun y => ⟨int64_hash_inverse y, int64_hash_inverse_id y⟩⟩
theorem int32_hash_bijective : Function.Bijective int32_hash :=
  ⟨fun a b h => by rw [← int32_inverse_hash a, h, int32_inverse_hash],
   fun y => ⟨int32_hash_inverse y, int32_hash_inverse_id y⟩⟩

/-! non-vacuity / sanity: concrete values through the generated definitions -/
example : int64_hash 1#64 ≠ 1#64 := by decide
example : int32_hash_inverse (int32_hash 0xdeadbeef#32) = 0xdeadbeef#32 := by decide

end PMH.C19

import PMH.Props.C04
import PMH.Proofs.Collision
import PMH.Proofs.FYSwapSMH
import PMH.Proofs.SMH2Coll
import PMH.Proofs.MseLaw
import PMH.Proofs.ExchLaw
/-!
# C03 — SuperMinHash estimates the Jaccard index without bias (exact finite statement), and the
single-item sketch is a permutation of integer parts with the drawn fractional parts

* `single_item_sketch`: one item ⇒ position `σ j` holds exactly `r_j + j` (`0 ≤ r_j < 1`), `σ` a permutation
  of `0..m-1` — the in-place Fisher–Yates permutation of the item; `draws_permutation_bijective`: the map
  draw vector ↦ permutation is a bijection (uniform draws ⇒ uniformly random permutation).
* `smh_collision_count`: for any finite, relabelling-closed family Ω of tie-free assignments of
  generators to items, `#{ω | sketch_A[p] = sketch_B[p]} · |A ∪ B| = |A ∩ B| · #Ω` — the expected
  fraction of equal positions is exactly `J`, for every `m ≥ 1`, every pair of sets, every position.
* `smh2_collision_count` (+ `_regs`, `smh2_position_law`): the same exact statement for the integer sketcher
  SuperMinHash2 (observable: the winning item's hash, or the register pair).
Not mechanised: the variance bound `MSE ≤ J(1-J)/m` (needs the joint law of two positions), and the
idealisation "per-item generators behave as exchangeable random objects".
-/
namespace PMH.C03
open PMH PMH.Race PMH.SMHP
variable {K G : Type} [Field K] [LinearOrder K] [IsStrictOrderedRing K] [FloorSemiring K]

/-- **C03 (a)** sketch of a single item from a new sketcher -/
theorem single_item_sketch (t : SMHP.TOps K G) (hn : SMHP.Nice t) (large : K) (m : Nat) (hl : (m : K) ≤ large)
    (g : G) (s0 s : SMH K) (h0 : SMH.new t.toOps large m = .ok s0) (e : s0.sketch t.toOps g = .ok s) :
    ∃ σ : Equiv.Perm Nat, (∀ i, i < m → σ i < m) ∧ (∀ i, m ≤ i → σ i = i) ∧
      ∀ j, j < m → s.hsketch.getD (σ j) large = rOf t m g j + (j : K) ∧
        0 ≤ rOf t m g j ∧ rOf t m g j < 1 ∧ ⌊s.hsketch.getD (σ j) large⌋₊ = j := by
  obtain ⟨wf0, sp0⟩ := SMHP.new_wf t large m s0 h0
  obtain ⟨_, sp⟩ := SMHP.sketch_spec hn hl wf0 sp0 e
  rw [Set.empty_union] at sp
  obtain ⟨σ, h1, h2, h3, _⟩ := SMHP.itemPts_perm hn m g
  obtain ⟨_, hinj, _⟩ := SMHP.itemPts_pos_bij hn m g
  refine ⟨σ, h1, h2, fun j hj => ?_⟩
  obtain ⟨hpos, hlo, hhi⟩ := h3 j hj
  have hr0 : 0 ≤ rOf t m g j := by
    have : (j : K) ≤ rOf t m g j + (j : K) := hlo
    linarith
  have hr1 : rOf t m g j < 1 := by
    have : rOf t m g j + (j : K) < (j : K) + 1 := hhi
    linarith
  have hlb : (view large s).reg (σ j) ≤ rOf t m g j + (j : K) := by
    have := sp.1 (ptOf t m g j) ⟨j, hj, rfl⟩
    rw [hpos] at this; exact this
  have hjm : ((j : K) + 1) ≤ (m : K) := by exact_mod_cast hj
  have hlt : (view large s).reg (σ j) < large := lt_of_le_of_lt hlb (by linarith)
  obtain ⟨pt, ⟨j', hj', rfl⟩, p1, _, p3⟩ := spec_tag_mem sp (σ j) (h1 j hj) hlt
  have : j' = j := hinj j' j hj' hj (by rw [p1, hpos])
  subst this
  have hval : s.hsketch.getD (σ j') large = rOf t m g j' + (j' : K) := p3.symm
  refine ⟨hval, hr0, hr1, ?_⟩
  rw [hval, Nat.floor_eq_iff (by linarith [Nat.cast_nonneg (α := K) j'])]
  constructor <;> linarith

/-- **C03 (b)** draw vectors ↦ permutations is a bijection: every permutation of the positions is produced by
exactly one admissible vector `(k_0,…,k_{m-1})`, `j ≤ k_j < m`, so uniform draws give a uniform permutation -/
theorem draws_permutation_bijective (m : Nat) : Function.Bijective (FYSwap.permFin (m := m)) :=
  FYSwap.permFin_bijective m

theorem uniform_draws_uniform_permutation (m : Nat) (S : Finset (Equiv.Perm (Fin m))) :
    (Finset.univ.filter (fun c : FYSwap.Draws m => FYSwap.permFin c ∈ S)).card = S.card ∧
    Fintype.card (FYSwap.Draws m) = m.factorial :=
  ⟨FYSwap.card_draws_filter m S, FYSwap.card_draws m⟩

/-- the sketcher's permutation is the Fisher–Yates product of swaps of its draws -/
theorem sketcher_perm_is_fyswap (t : SMHP.TOps K G) (hn : SMHP.Nice t) (m : Nat) (g : G) :
    (∀ j, SMHP.perm t m g j = FYSwap.perm (kOf t m g) j) ∧ FYSwap.Adm m (kOf t m g) :=
  ⟨SMHP.perm_eq_fyswap t m g, SMHP.kOf_adm hn m g⟩

/-! ### collision probability -/

/-- the value an item (generator `g`) offers to position `p`: the `r_j + j` of the unique `j` with `p[j] = p` -/
noncomputable def score (t : SMHP.TOps K G) (m : Nat) (g : G) (p : Nat) : K :=
  open Classical in
  if h : ∃ j, j < m ∧ (ptOf t m g j).pos = p then (ptOf t m g h.choose).val else 0

theorem score_spec (t : SMHP.TOps K G) (hn : SMHP.Nice t) (m : Nat) (g : G) (j : Nat) (hj : j < m) :
    score t m g (ptOf t m g j).pos = (ptOf t m g j).val := by
  obtain ⟨_, hinj, _⟩ := SMHP.itemPts_pos_bij hn m g
  have hex : ∃ j', j' < m ∧ (ptOf t m g j').pos = (ptOf t m g j).pos := ⟨j, hj, rfl⟩
  have hch := hex.choose_spec
  have hc : hex.choose = j := hinj _ _ hch.1 hj hch.2
  unfold score
  rw [dif_pos hex, hc]

theorem itemPts_eq_scores (t : SMHP.TOps K G) (hn : SMHP.Nice t) (m : Nat) (g : G) :
    SMHP.itemPts t m g = {pt | ∃ p, p < m ∧ pt = ⟨p, score t m g p, ()⟩} := by
  obtain ⟨hlt, _, hsurj⟩ := SMHP.itemPts_pos_bij hn m g
  ext pt
  constructor
  · rintro ⟨j, hj, rfl⟩
    refine ⟨(ptOf t m g j).pos, hlt j hj, ?_⟩
    rw [score_spec t hn m g j hj]
  · rintro ⟨p, hp, rfl⟩
    obtain ⟨j, hj, hjp⟩ := hsurj p hp
    refine ⟨j, hj, ?_⟩
    rw [← hjp, score_spec t hn m g j hj]

theorem score_lt (t : SMHP.TOps K G) (hn : SMHP.Nice t) (m : Nat) (g : G) (p : Nat) (hp : p < m) : score t m g p < (m : K) := by
  obtain ⟨_, _, hsurj⟩ := SMHP.itemPts_pos_bij hn m g
  obtain ⟨j, hj, hjp⟩ := hsurj p hp
  rw [← hjp, score_spec t hn m g j hj]
  obtain ⟨σ, _, _, h3, _⟩ := SMHP.itemPts_perm hn m g
  have := (h3 j hj).2.2
  have hjm : ((j : K) + 1) ≤ (m : K) := by exact_mod_cast hj
  linarith

variable {ι : Type} [Fintype ι] [DecidableEq ι] [Inhabited ι]

/-- the point set of the items of `A` under the assignment `r` of generators is of the one-score-per-position form -/
theorem listPts_eq_pointsOf (t : SMHP.TOps K G) (hn : SMHP.Nice t) (m : Nat) (r : ι → G) (A : Finset ι) :
    listPts (SMHP.itemPts t m) (A.toList.map r) = Coll.pointsOf (fun d p => score t m (r d) p) (fun _ => ()) m A := by
  ext pt
  simp only [listPts, Set.mem_setOf_eq, List.mem_map, Finset.mem_toList, Coll.pointsOf]
  constructor
  · rintro ⟨g, ⟨d, hd, rfl⟩, hp⟩
    rw [itemPts_eq_scores t hn m (r d)] at hp
    obtain ⟨p, hp1, rfl⟩ := hp
    exact ⟨d, hd, p, hp1, rfl⟩
  · rintro ⟨d, hd, p, hp1, rfl⟩
    refine ⟨r d, ⟨d, hd, rfl⟩, ?_⟩
    rw [itemPts_eq_scores t hn m (r d)]
    exact ⟨p, hp1, rfl⟩

/-- **C03 (c)** SuperMinHash: the probability that two sketches agree at a position is exactly the Jaccard
index. Ω: any finite set of assignments of generators to the items of `A ∪ B = univ`, closed under
relabelling of the items, tie-free at position `p`; `a r`, `b r`: the sketches of `A`, `B` under `r`
(items streamed in any order). -/
theorem smh_collision_count (t : SMHP.TOps K G) (hn : SMHP.Nice t) (large : K) (m : Nat) (hl : (m : K) ≤ large)
    (Ω : Finset (ι → G)) (hΩ : CS.PermClosed Ω) (p : Nat) (hp : p < m)
    (hinj : ∀ r ∈ Ω, Function.Injective (fun d => score t m (r d) p))
    {A B : Finset ι} (hAB : A ∪ B = Finset.univ) (s0 : SMH K) (h0 : SMH.new t.toOps large m = .ok s0)
    (a b : (ι → G) → SMH K)
    (ha : ∀ r ∈ Ω, C04.smhRun t s0 (A.toList.map r) = .ok (a r))
    (hb : ∀ r ∈ Ω, C04.smhRun t s0 (B.toList.map r) = .ok (b r)) :
    (Ω.filter (fun r => (a r).hsketch.getD p large = (b r).hsketch.getD p large)).card * (A ∪ B).card
      = (A ∩ B).card * Ω.card := by
  have := Coll.collision_count_regs Ω hΩ m large () (fun r d p => score t m (r d) p) (fun _ => ()) p hp hinj
    (fun r _ d => lt_of_lt_of_le (score_lt t hn m (r d) p hp) hl)
    (fun r _ σ d => by simp [Function.comp]) hAB
    (fun r => view large (a r)) (fun r => view large (b r))
    (fun r hr => by
      have := (C04.smh_run_spec t hn large m hl _ s0 (a r) h0 (ha r hr)).2
      rw [listPts_eq_pointsOf t hn m r A] at this; exact this)
    (fun r hr => by
      have := (C04.smh_run_spec t hn large m hl _ s0 (b r) h0 (hb r hr)).2
      rw [listPts_eq_pointsOf t hn m r B] at this; exact this)
  simpa [view] using this


/-! ### SuperMinHash2 (integer sketch types): the same exact finite unbiasedness -/
section SMH2
open PMH.SMH2P PMH.SMH2Coll
variable {G2 : Type} {ι2 : Type} [Fintype ι2] [DecidableEq ι2] [Inhabited ι2]

/-- **C03 (d)** SuperMinHash2, observable `get_hsketch` (the hash of the winning item): for every
relabelling-closed family Ω of tie-free generator assignments, every `m`, every position,
`#{sketch_A[p] = sketch_B[p]} · |A ∪ B| = |A ∩ B| · #Ω` (distinct items have distinct hashes: `hh`). -/
theorem smh2_collision_count (t : SMH2P.TOps G2) (hn : SMH2P.Nice t) (imax m : Nat) (h : ι2 → Nat)
    (hh : Function.Injective h) (Ω : Finset (ι2 → G2)) (hΩ : CS.PermClosed Ω) (p : Nat) (hp : p < m)
    (hinj : ∀ r ∈ Ω, Function.Injective (fun d => SMH2Coll.score t m (r d) p))
    {A B : Finset ι2} (hA : A.Nonempty) (hB : B.Nonempty) (hAB : A ∪ B = Finset.univ)
    (s0 : SMH2) (h0 : SMH2.new imax m = .ok s0) (a b : (ι2 → G2) → SMH2)
    (ha : ∀ r ∈ Ω, SMH2P.run t s0 (itemsOf h r A) = .ok (a r))
    (hb : ∀ r ∈ Ω, SMH2P.run t s0 (itemsOf h r B) = .ok (b r)) :
    (Ω.filter (fun r => (a r).hsketch.getD p 0 = (b r).hsketch.getD p 0)).card * (A ∪ B).card
      = (A ∩ B).card * Ω.card :=
  SMH2Coll.smh2_collision_count t hn imax m h hh Ω hΩ p hp hinj hA hB hAB s0 h0 a b ha hb

/-- the register form (no hypothesis on the hashes, empty sets allowed) -/
theorem smh2_collision_count_regs (t : SMH2P.TOps G2) (hn : SMH2P.Nice t) (imax m : Nat) (h : ι2 → Nat)
    (Ω : Finset (ι2 → G2)) (hΩ : CS.PermClosed Ω) (p : Nat) (hp : p < m)
    (hinj : ∀ r ∈ Ω, Function.Injective (fun d => SMH2Coll.score t m (r d) p))
    {A B : Finset ι2} (hAB : A ∪ B = Finset.univ)
    (s0 : SMH2) (h0 : SMH2.new imax m = .ok s0) (a b : (ι2 → G2) → SMH2)
    (ha : ∀ r ∈ Ω, SMH2P.run t s0 (itemsOf h r A) = .ok (a r))
    (hb : ∀ r ∈ Ω, SMH2P.run t s0 (itemsOf h r B) = .ok (b r)) :
    (Ω.filter (fun r => (a r).l.getD p 0 = (b r).l.getD p 0 ∧
        (a r).values.getD p 0 = (b r).values.getD p 0)).card * (A ∪ B).card = (A ∩ B).card * Ω.card :=
  SMH2Coll.smh2_collision_count_regs t hn imax m h Ω hΩ p hp hinj hAB s0 h0 a b ha hb

/-- every item of a single set is shown at a position for exactly `#Ω / n` assignments -/
theorem smh2_position_law (t : SMH2P.TOps G2) (hn : SMH2P.Nice t) (imax m : Nat) (h : ι2 → Nat)
    (hh : Function.Injective h) (Ω : Finset (ι2 → G2)) (hΩ : CS.PermClosed Ω) (p : Nat) (hp : p < m)
    (hinj : ∀ r ∈ Ω, Function.Injective (fun d => SMH2Coll.score t m (r d) p))
    (s0 : SMH2) (h0 : SMH2.new imax m = .ok s0) (a : (ι2 → G2) → SMH2)
    (ha : ∀ r ∈ Ω, SMH2P.run t s0 (itemsOf h r Finset.univ) = .ok (a r)) (d : ι2) :
    (Ω.filter (fun r => (a r).hsketch.getD p 0 = h d)).card * Fintype.card ι2 = Ω.card :=
  SMH2Coll.smh2_position_law t hn imax m h hh Ω hΩ p hp hinj s0 h0 a ha d

/-- non-vacuity: a toy instance where all runs return, #Ω = 6 and exactly 2 assignments collide (J = 1/3) -/
example (p : Nat) (hp : p < 4) :
    ∃ (s0 : SMH2) (a b : (Fin 3 → Fin 3) → SMH2), SMH2.new 1000 4 = .ok s0 ∧
      (∀ r, SMH2P.run (exOps 3) s0 (itemsOf (fun d => 10 + d.val) r {0, 1}) = .ok (a r)) ∧
      (∀ r, SMH2P.run (exOps 3) s0 (itemsOf (fun d => 10 + d.val) r {1, 2}) = .ok (b r)) ∧
      (CS.injAssignments (Fin 3) (Fin 3)).card = 6 ∧
      ((CS.injAssignments (Fin 3) (Fin 3)).filter
        (fun r => (a r).hsketch.getD p 0 = (b r).hsketch.getD p 0)).card = 2 := ex_collision_third p hp
end SMH2


/-! ### the MSE clause in the counting form of this file, reduced to one named assumption

With `I = |A ∩ B|`, `U = |A ∪ B|`, `H1` is exactly the conclusion of `smh_collision_count` at every position;
`H2` says that two different positions collide together for at most `(I/U)² · #Ω` assignments (non-positive
correlation — Ertl 2017 proves it for SuperMinHash; the only part of C03 not mechanised).  Conclusion:
`Σ_ω (U·#equal positions − m·I)² ≤ m·#Ω·I·(U−I)`, i.e. `MSE ≤ J(1−J)/m` multiplied by `m²U²#Ω`. -/
theorem mse_bound_of_nonpositive_correlation {α : Type*} {m : ℕ} (hm : 0 < m) (Ω : Finset α) (C : Fin m → α → Prop)
    [∀ k ω, Decidable (C k ω)] (I U : ℕ) (hU : 0 < U)
    (H1 : ∀ k, (Ω.filter (C k)).card * U = I * Ω.card)
    (H2 : ∀ k k', k ≠ k' → (Ω.filter fun ω => C k ω ∧ C k' ω).card * (U * U) ≤ I * I * Ω.card) :
    ∑ ω ∈ Ω, ((U : ℤ) * ((Finset.univ.filter fun k => C k ω).card : ℤ) - (m : ℤ) * I) ^ 2
      ≤ (m : ℤ) * Ω.card * I * ((U : ℤ) - I) :=
  MseLaw.mse_le_ratio hm Ω C I U hU H1 H2


/-! ### beyond uniform finite families: ANY exchangeable law gives the Jaccard index  (`Proofs/ExchLaw.lean`)

The counting theorems above are the uniform law on a finite relabelling-closed family.  The same holds for every
relabelling-invariant WEIGHTING of such a family, and for every exchangeable probability measure on assignments
(in particular i.i.d. coordinates) — the selection is the arg-min of an equivariant tie-free score, which is what a
SuperMinHash / SuperMinHash2 / densified / equal-weight ProbMinHash position is (refinement theorems). -/
section Exch
open MeasureTheory PMH.CS PMH.ExchLaw
open scoped ENNReal

/-- weighted finite form: `Σ_{collision} w · |A ∪ B| = |A ∩ B| · Σ w` for relabelling-invariant weights -/
theorem collision_weight_is_jaccard {ι Rnd : Type} {K' : Type*} [Fintype ι] [DecidableEq ι] [Semiring K'] [Inhabited ι]
    {V Pos : Type} [LinearOrder V] (Ω : Finset (ι → Rnd)) (hΩ : PermClosed Ω) (w : (ι → Rnd) → K')
    (hw : ∀ r ∈ Ω, ∀ σ : Equiv.Perm ι, w (r ∘ ⇑σ.symm) = w r)
    (v : (ι → Rnd) → Pos → ι → V) (p : Pos) (hinj : ∀ r ∈ Ω, Function.Injective (v r p))
    (hequiv : ∀ r ∈ Ω, ∀ (σ : Equiv.Perm ι) (d : ι), v (r ∘ ⇑σ.symm) p (σ d) = v r p d)
    {A B : Finset ι} (hA : A.Nonempty) (hB : B.Nonempty) (hAB : A ∪ B = Finset.univ) :
    (∑ r ∈ Ω.filter (fun r => argmin (v r p) A = argmin (v r p) B), w r) * ((A ∪ B).card : K')
      = ((A ∩ B).card : K') * ∑ r ∈ Ω, w r :=
  weighted_collision_prob_eq_jaccard Ω hΩ w hw v p hinj hequiv hA hB hAB

/-- measure form: under any exchangeable probability law on the assignments, a.s. tie-free equivariant scores -/
theorem collision_probability_is_jaccard_exchangeable {ι : Type} {Rnd : Type*} [MeasurableSpace Rnd] [Fintype ι]
    [DecidableEq ι] [Inhabited ι] {V : Type} [LinearOrder V]
    (μ : Measure (ι → Rnd)) [IsProbabilityMeasure μ] (hμ : Exchangeable μ) (v : (ι → Rnd) → ι → V)
    (hmeas : ∀ d, NullMeasurableSet {x | argmin (v x) Finset.univ = d} μ)
    (hinj : ∀ᵐ x ∂μ, Function.Injective (v x))
    (hequiv : ∀ σ : Equiv.Perm ι, ∀ᵐ x ∂μ, ∀ d, v (x ∘ ⇑σ.symm) (σ d) = v x d)
    {A B : Finset ι} (hA : A.Nonempty) (hB : B.Nonempty) (hAB : A ∪ B = Finset.univ) :
    μ {x | argmin (v x) A = argmin (v x) B} = ((A ∩ B).card : ℝ≥0∞) / ((A ∪ B).card : ℝ≥0∞) :=
  exch_argmin_collision μ hμ v hmeas hinj hequiv hA hB hAB

/-- i.i.d. coordinates are exchangeable -/
theorem iid_is_exchangeable {ι : Type} {Rnd : Type*} [MeasurableSpace Rnd] [Fintype ι] [DecidableEq ι]
    (ν : Measure Rnd) [SigmaFinite ν] : Exchangeable (Measure.pi (fun _ : ι => ν)) := exchangeable_pi ν

/-- fully concrete: three items with i.i.d. uniform [0,1] hash values, A = {0,1}, B = {1,2}: probability 1/3 -/
example : Measure.pi (fun _ : Fin 3 => ExchLaw.unif01)
      {x | argmin x ({0, 1} : Finset (Fin 3)) = argmin x ({1, 2} : Finset (Fin 3))} = 1 / 3 := unif01_example
end Exch

end PMH.C03

import PMH.Model.ParamsJson
/-!
# C20 — dump/reload round trip and torn files (byte-level model)

`serialize` is what `dump_json` writes (float tokens opaque); `parse` is the acceptance condition of
`reload_json` on such files.  Theorems: reload ∘ dump = id on the token level, and **every proper
prefix of a dumped file is rejected** (the file's only `}` is its last byte).
-/
namespace PMH.C20
open PMH.PJ

theorem expect_suffix (pre s t : List Char) (h : expect pre s = some t) : t <:+ s := by
  unfold expect at h
  split at h
  · simp only [Option.some.injEq] at h; subst h; exact List.drop_suffix _ _
  · simp at h

theorem expect_append (pre rest : List Char) : expect pre (pre ++ rest) = some rest := by
  simp [expect]

theorem expect_head (c : Char) (s t : List Char) (h : expect [c] s = some t) : c ∈ s := by
  unfold expect at h
  split at h
  · rename_i hp
    cases s with
    | nil => simp at hp
    | cons d ds => simp at hp; simp [hp]
  · simp at h

/-- acceptance implies the text contains a closing brace -/
theorem parse_ok_has_brace (s : List Char) (r : List Char × Nat × List Char × Nat) (h : parse s = .ok r) :
    '}' ∈ s := by
  unfold parse at h
  dsimp only at h
  split at h
  · simp at h
  · rename_i s1 e1
    split at h
    · simp at h
    · rename_i s2 e2
      split at h
      · simp at h
      · rename_i s3 e3
        split at h
        · simp at h
        · rename_i s4 e4
          split at h
          · simp at h
          · rename_i s5 e5
            have m5 : '}' ∈ List.dropWhile Char.isDigit s4 := expect_head _ _ _ e5
            have m4 : '}' ∈ s4 := (List.dropWhile_suffix _).subset m5
            have m3' : '}' ∈ List.dropWhile numChar s3 := (expect_suffix _ _ _ e4).subset m4
            have m3 : '}' ∈ s3 := (List.dropWhile_suffix _).subset m3'
            have m2' : '}' ∈ List.dropWhile Char.isDigit s2 := (expect_suffix _ _ _ e3).subset m3
            have m2 : '}' ∈ s2 := (List.dropWhile_suffix _).subset m2'
            have m1' : '}' ∈ List.dropWhile numChar s1 := (expect_suffix _ _ _ e2).subset m2
            have m1 : '}' ∈ s1 := (List.dropWhile_suffix _).subset m1'
            exact (expect_suffix _ _ _ e1).subset m1

theorem numChar_ne_brace (cs : List Char) (h : cs.all numChar = true) : '}' ∉ cs := by
  intro hm
  have := List.all_eq_true.mp h _ hm
  simp [numChar] at this

theorem digits_numChar (n : Nat) : (fmtNat n).all numChar = true := by
  rw [List.all_eq_true]
  intro c hc
  have := Nat.isDigit_of_mem_toDigits (by decide) (by decide) hc
  simp [numChar, this]

theorem digits_isDigit (n : Nat) : ∀ c ∈ fmtNat n, c.isDigit = true :=
  fun _ hc => Nat.isDigit_of_mem_toDigits (by decide) (by decide) hc

/-- the body of a dumped file (everything but the last byte) contains no `}` -/
theorem body_no_brace (bv av : List Char) (m q : Nat) (hb : bv.all numChar = true) (ha : av.all numChar = true) :
    '}' ∉ litB ++ bv ++ litM ++ fmtNat m ++ litA ++ av ++ litQ ++ fmtNat q := by
  simp only [List.mem_append, not_or]
  refine ⟨⟨⟨⟨⟨⟨⟨by decide, numChar_ne_brace _ hb⟩, by decide⟩, numChar_ne_brace _ (digits_numChar m)⟩, by decide⟩,
    numChar_ne_brace _ ha⟩, by decide⟩, numChar_ne_brace _ (digits_numChar q)⟩

/-- **C20 (torn file)** every proper prefix of a dumped file is rejected by the reload — for every
parameter value and every cut point. -/
theorem prefix_rejected (bv av : List Char) (m q : Nat) (hb : bv.all numChar = true) (ha : av.all numChar = true)
    (s : List Char) (hp : s <+: serialize bv m av q) (hne : s ≠ serialize bv m av q) :
    ∃ e, parse s = .error e := by
  have hnb : '}' ∉ s := by
    intro hm
    unfold serialize at hp hne
    obtain ⟨t, ht⟩ := hp
    have hsub : s <+: litB ++ bv ++ litM ++ fmtNat m ++ litA ++ av ++ litQ ++ fmtNat q := by
      rcases List.eq_nil_or_concat t with rfl | ⟨t', c, rfl⟩
      · rw [List.append_nil] at ht; exact absurd ht hne
      · rw [List.concat_eq_append, ← List.append_assoc] at ht
        have := List.append_inj' ht (by simp)
        exact ⟨t', this.1⟩
    exact body_no_brace bv av m q hb ha (hsub.subset hm)
  cases h : parse s with
  | error e => exact ⟨e, rfl⟩
  | ok r => exact absurd (parse_ok_has_brace s r h) hnb

theorem takeWhile_stop (p : Char → Bool) (xs rest : List Char) (c : Char) (hx : ∀ a ∈ xs, p a = true) (hc : p c = false) :
    (xs ++ c :: rest).takeWhile p = xs ∧ (xs ++ c :: rest).dropWhile p = c :: rest := by
  constructor
  · rw [List.takeWhile_append_of_pos hx]; simp [hc]
  · rw [List.dropWhile_append_of_pos hx]; simp [hc]

theorem parseNat_fmtNat (n : Nat) (hn : n < 18446744073709551616) : parseNat (fmtNat n) = some n := by
  unfold parseNat
  have h1 : (fmtNat n).isEmpty = false := by
    unfold fmtNat
    cases h : Nat.toDigits 10 n with
    | nil => have := Nat.length_toDigits_pos (b := 10) (n := n); rw [h] at this; simp at this
    | cons => rfl
  have h2 : (fmtNat n).all Char.isDigit = true := List.all_eq_true.mpr (digits_isDigit n)
  simp only [h1, h2, Bool.not_true, Bool.or_false, Bool.false_eq_true, if_false]
  unfold fmtNat
  rw [Nat.ofDigitChars_ten_toDigits]
  simp [hn]

/-- **C20 (round trip)** reload ∘ dump returns the same tokens: `m`, `q` exactly, the float tokens
verbatim (their value is whatever the external float parser makes of what the printer wrote). -/
theorem parse_serialize (bv av : List Char) (m q : Nat) (hb : bv.all numChar = true) (ha : av.all numChar = true)
    (hbo : okNum bv = true) (hao : okNum av = true) (hm : m < 18446744073709551616) (hq : q < 18446744073709551616) :
    parse (serialize bv m av q) = .ok (bv, m, av, q) := by
  have hb' := List.all_eq_true.mp hb
  have ha' := List.all_eq_true.mp ha
  have e1 : serialize bv m av q = litB ++ (bv ++ (',' :: ("\"m\":".toList ++ (fmtNat m ++ (',' :: ("\"a\":".toList ++ (av ++ (',' :: ("\"q\":".toList ++ (fmtNat q ++ ['}'])))))))))) := by
    simp [serialize, litM, litA, litQ, List.append_assoc]
  unfold parse
  dsimp only
  rw [e1, expect_append]
  dsimp only
  obtain ⟨t1, d1⟩ := takeWhile_stop numChar bv _ ',' hb' (by decide)
  rw [t1, d1]
  have x2 : expect litM (',' :: ("\"m\":".toList ++ (fmtNat m ++ (',' :: ("\"a\":".toList ++ (av ++ (',' :: ("\"q\":".toList ++ (fmtNat q ++ ['}']))))))))) =
      some (fmtNat m ++ (',' :: ("\"a\":".toList ++ (av ++ (',' :: ("\"q\":".toList ++ (fmtNat q ++ ['}']))))))) := by
    have := expect_append litM (fmtNat m ++ (',' :: ("\"a\":".toList ++ (av ++ (',' :: ("\"q\":".toList ++ (fmtNat q ++ ['}'])))))))
    simpa [litM] using this
  rw [x2]
  dsimp only
  obtain ⟨t2, d2⟩ := takeWhile_stop Char.isDigit (fmtNat m) ("\"a\":".toList ++ (av ++ (',' :: ("\"q\":".toList ++ (fmtNat q ++ ['}']))))) ',' (digits_isDigit m) (by decide)
  rw [t2, d2]
  have x3 : expect litA (',' :: ("\"a\":".toList ++ (av ++ (',' :: ("\"q\":".toList ++ (fmtNat q ++ ['}'])))))) =
      some (av ++ (',' :: ("\"q\":".toList ++ (fmtNat q ++ ['}'])))) := by
    have := expect_append litA (av ++ (',' :: ("\"q\":".toList ++ (fmtNat q ++ ['}']))))
    simpa [litA] using this
  rw [x3]
  dsimp only
  obtain ⟨t3, d3⟩ := takeWhile_stop numChar av ("\"q\":".toList ++ (fmtNat q ++ ['}'])) ',' ha' (by decide)
  rw [t3, d3]
  have x4 : expect litQ (',' :: ("\"q\":".toList ++ (fmtNat q ++ ['}']))) = some (fmtNat q ++ ['}']) := by
    have := expect_append litQ (fmtNat q ++ ['}'])
    simpa [litQ] using this
  rw [x4]
  dsimp only
  obtain ⟨t4, d4⟩ := takeWhile_stop Char.isDigit (fmtNat q) [] '}' (digits_isDigit q) (by decide)
  rw [t4, d4]
  have x5 : expect ['}'] ['}'] = some [] := by decide
  rw [x5]
  simp [parseNat_fmtNat m hm, parseNat_fmtNat q hq, hbo, hao]

/-! non-vacuity: a real dump and some of its prefixes -/
example : (parse "{\"b\":1.001,\"m\":4096,\"a\":20.0,\"q\":65534}".toList).toOption
    = some ("1.001".toList, 4096, "20.0".toList, 65534) := by decide
example : (parse "{\"b\":1.001,\"m\":4096,\"a\":20.0,\"q\":65534".toList).toOption = none := by decide
example : (parse "{\"b\":1.001,\"m\":40".toList).toOption = none := by decide

end PMH.C20

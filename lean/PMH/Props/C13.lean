import PMH.Props.C04
import PMH.Props.C02
/-!
# C13 — after reinit / reset a sketcher behaves exactly like a new one

For every state `s` (not only reachable ones; only the array sizes matter) `reinit s` is the state
`new` returns — up to the cursor of the lazy Fisher–Yates shuffle, which no operation can observe
because every sketching operation resets the shuffle first.  Hence the next operation — and therefore
every later one — gives identical results on `reinit s` and on a new sketcher.
-/
namespace PMH.C13
open PMH

/-- **SuperMinHash**: `reinit` = `new`, for every well-sized state -/
theorem smh_reinit_eq_new {K G : Type} [Field K] [LinearOrder K] [IsStrictOrderedRing K] [FloorSemiring K]
    (t : SMHP.TOps K G) (large : K) (m : Nat) (s s0 : SMH K) (hwf : SMHP.WF large m s)
    (h : SMH.new t.toOps large m = .ok s0) : s.reinit large = s0 :=
  SMHP.reinit_eq_new t hwf h

/-- **SuperMinHash2**: `reinit` restores every field of `new`; the shuffle is reset … -/
theorem smh2_reinit_fields (s s0 : SMH2) (m : Nat) (hm : s.hsketch.size = m) (h0 : SMH2.new s.imax m = .ok s0) :
    s.reinit.hsketch = s0.hsketch ∧ s.reinit.values = s0.values ∧ s.reinit.l = s0.l ∧ s.reinit.b = s0.b ∧
    s.reinit.itemRank = s0.itemRank ∧ s.reinit.aUpper = s0.aUpper ∧ s.reinit.imax = s0.imax ∧ s.reinit.fy = s.fy.reset :=
  SMH2P.reinit_spec s s0 m hm h0

/-- … so the next `sketch` on the reinitialised sketcher equals the same `sketch` on a new one -/
theorem smh2_reinit_sketch {G : Type} (o : Smh2Ops G) (s s0 : SMH2) (m : Nat) (hm : s.hsketch.size = m) (hfm : s.fy.m = m)
    (h0 : SMH2.new s.imax m = .ok s0) (hval : Nat) (g : G) : s.reinit.sketch o hval g = s0.sketch o hval g := by
  obtain ⟨a1, a2, a3, a4, a5, a6, a7, a8⟩ := SMH2P.reinit_spec s s0 m hm h0
  have hs0 : s0.fy = FY.new m := by
    unfold SMH2.new at h0
    split at h0
    · simp at h0
    · injection h0 with h0; subst h0; rfl
  have hfy : s.reinit.fy.reset = s0.fy.reset := by
    rw [a8, hs0]; exact C17.reset_forgets _ _ (by simp [FY.reset, FY.new, hfm])
  have hsz : s.reinit.hsketch.size = s0.hsketch.size := by rw [a1]
  unfold SMH2.sketch
  simp only [a1, a2, a3, a4, a5, a6, a7, hfy]

/-- **SetSketch**: the next `sketch` after `reinit` equals the same `sketch` on `new` with the same parameters -/
theorem ssk_reinit_sketch {F G : Type} (s : SSK) (h : s.fy.m = s.m) (o : SskOps F G) (g : G) :
    s.reinit.sketch o g = (SSK.new s.b s.m s.a s.q s.imax s.lnb).sketch o g :=
  SSKP.reinit_sketch s h o g

theorem ssk_reinit_state (s : SSK) :
    s.reinit.kvec = Array.replicate s.m 0 ∧ s.reinit.lowerK = 0 ∧ s.reinit.nbmin = 0 ∧ s.reinit.nbOverflow = 0 ∧
    s.reinit.fy = s.fy.reset := by
  obtain ⟨a, b, c, d, e, _⟩ := SSKP.reinit_eq_new s
  exact ⟨a, b, c, d, e⟩

/-- **densified sketchers**: `reinit` = `new` (whatever the densification state) -/
theorem dens_reinit_eq_new {K : Type} (large : K) (s : Dens K) : s.reinit large = Dens.new large s.hsketch.size := rfl

/-- **ProbMinHash2**: `reset` restores signature and registers of `new`; the next `hash_item` is identical -/
theorem pmh2_reset_hashItem {K G : Type} [Field K] [LinearOrder K] [IsStrictOrderedRing K]
    (top : K) (m init : Nat) (s : PMH2 K) (hm : s.m = m) (hi : s.initobj = init) (hsz : s.sig.size = m)
    (htm : s.tracker.m = m) (hts : s.tracker.vals.size = 2 * m - 1) (hfm : s.fy.m = m)
    (hb : s.betas = (PMH2.new top m init : PMH2 K).betas)
    (src : Src2 K G) (offsetOf : K → Nat → Nat) (unif : UInt64 → K) (id : Nat) (w : K) (g0 : G) :
    (s.reset top).hashItem src offsetOf unif id w g0 = (PMH2.new top m init).hashItem src offsetOf unif id w g0 := by
  have hfy : (s.reset top).fy.reset = (PMH2.new top m init : PMH2 K).fy.reset := by
    simp only [PMH2.reset, PMH2.new]
    exact C17.reset_forgets _ _ (by simp [FY.reset, FY.new, hfm])
  have e1 : (s.reset top).m = (PMH2.new top m init : PMH2 K).m := by simp [PMH2.reset, PMH2.new, hm]
  have e2 : (s.reset top).initobj = (PMH2.new top m init : PMH2 K).initobj := by simp [PMH2.reset, PMH2.new, hi]
  have e3 : (s.reset top).tracker = (PMH2.new top m init : PMH2 K).tracker := by
    simp only [PMH2.reset, PMH2.new, Tracker.reset, Tracker.new, hts, htm]
  have e4 : (s.reset top).betas = (PMH2.new top m init : PMH2 K).betas := by simp only [PMH2.reset]; exact hb
  have e5 : (s.reset top).sig = (PMH2.new top m init : PMH2 K).sig := by simp [PMH2.reset, PMH2.new, hsz, hi]
  unfold PMH2.hashItem
  simp only [e1, e2, e3, e4, e5, hfy]

/-- **Fisher–Yates**: a reset shuffle draws like a new one (C17) -/
theorem fy_reset_like_new (s : FY) (c : Nat) : s.reset.nextOff c = (FY.new s.m).nextOff c := C17.reset_like_new s c

end PMH.C13

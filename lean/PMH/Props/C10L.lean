import PMH.Proofs.OmhLaw
/-!
# C10 (second part) — the collision probability of ProbOrdMinHash2 IS the order-min-hash probability

`Props/C10.lean` shows that the index block at a slot is the order-min-hash selection under the ranking
`labVal k` and that a collision is the OMH event of the COMMON ranking.  Here (`Proofs/OmhLaw.lean`):
labels `Lab A B` = all `(element, occurrence-number)` pairs of the two sequences; a generator assignment
`ω : Lab A B → G` (in the code the generator of a label is seeded from (hash, occurrence, seed)); Ω any
relabelling-closed finite family of assignments (finite exchangeability = ideal hashing), tie-free and
below the ceiling at the slot.  Then the ranking induced by the slot values is UNIFORM on the `|L|!`
rankings, and
`#{ω ∈ Ω | collision at slot k} · |L|! = #{ρ ranking | OmhEvent l A B ρ} · #Ω`,
i.e. P(collision at k) = P_{ρ uniform}(the l lowest-ranked pairs of each sequence, read in sequence
order, spell the same elements) — the statement of the property, for every pair of sequences (repeats
included), every `m ≥ 1`, every `l ≥ 1`, every slot.
-/
namespace PMH.C10
open PMH PMH.OrdP PMH.OmhLaw Finset
variable {K G : Type} [Field K] [LinearOrder K] [IsStrictOrderedRing K]

/-- **C10 (c)** every ranking of the labels is induced by exactly `#Ω / |L|!` of the assignments -/
theorem induced_ranking_uniform {L : Type} [Fintype L] [DecidableEq L] {K' G' : Type} [LinearOrder K']
    (Ω : Finset (L → G')) (hΩ : CS.PermClosed Ω) (sc : (L → G') → L → K')
    (hequiv : ∀ ω ∈ Ω, ∀ (σ : Equiv.Perm L) (x : L), sc (ω ∘ ⇑σ.symm) (σ x) = sc ω x)
    (hinj : ∀ ω ∈ Ω, Function.Injective (sc ω)) (ρ : L ≃ Fin (Fintype.card L)) :
    (Ω.filter (fun ω => rankOf (sc ω) = ρ)).card * (Fintype.card L).factorial = Ω.card :=
  ranking_uniform Ω hΩ sc hequiv hinj ρ

/-- the OMH event in plain words: positions of the `l` lowest-ranked labels of each sequence, in sequence
order, spell the same elements -/
theorem omh_event_reading (l : Nat) (hsA hsB : List UInt64) (hlA : l ≤ hsA.length) (hlB : l ≤ hsB.length)
    (ρ : Ranking hsA hsB) :
    OmhEvent l hsA hsB ρ ↔
      spelled hsA (lowest l (rkVal (Lab hsA hsB) ρ) (labels hsA)) = spelled hsB (lowest l (rkVal (Lab hsA hsB) ρ) (labels hsB)) :=
  omhEvent_iff_lowest l hsA hsB hlA hlB ρ

/-- **C10 (d)** collision probability at a slot = order-min-hash probability (counting form, model runs) -/
theorem collision_probability_is_omh_probability (top : K) (m l : Nat) (hm : 1 ≤ m) (hl : 1 ≤ l) (t : OrdP.TOps K G)
    (hn : OrdP.Nice t) (s : OrdMH K) (hp : Params m l s) (hsA hsB : List UInt64)
    (hlenA : hsA.length ≤ OrdMH.u64Max) (hlenB : hsB.length ≤ OrdMH.u64Max)
    (g0 : G) (Ω : Finset (↥(Lab hsA hsB) → G)) (hΩ : CS.PermClosed Ω) (k : Nat) (hk : k < m)
    (rA rB : (↥(Lab hsA hsB) → G) → OrdMH K)
    (hrA : ∀ ω ∈ Ω, OrdMH.hashSet (withGen t (Lab hsA hsB) g0 ω).toOps top s hsA = .ok (rA ω))
    (hrB : ∀ ω ∈ Ω, OrdMH.hashSet (withGen t (Lab hsA hsB) g0 ω).toOps top s hsB = .ok (rB ω))
    (htf : ∀ ω ∈ Ω, TieFreeOn (withGen t (Lab hsA hsB) g0 ω) m s.g s.seed k (Lab hsA hsB))
    (hlt : ∀ ω ∈ Ω, ∀ x : ↥(Lab hsA hsB), labVal (withGen t (Lab hsA hsB) g0 ω) m s.g s.seed k x.1 < top) :
    (Ω.filter (fun ω => spelled hsA (finalBlock (rA ω) k) = spelled hsB (finalBlock (rB ω) k))).card
        * (Fintype.card ↥(Lab hsA hsB)).factorial
      = (univ.filter (OmhEvent l hsA hsB)).card * Ω.card :=
  model_collision_count top m l hm hl t hn s hp hsA hsB hlenA hlenB g0 Ω hΩ k hk rA rB hrA hrB htf hlt

/-- **C10 (e)** summed over the `m` slots: the expected FRACTION of equal signature positions is the
order-min-hash probability `#{ρ | OmhEvent ρ} / |L|!` -/
theorem expected_fraction_is_omh_probability (top : K) (m l : Nat) (hm : 1 ≤ m) (hl : 1 ≤ l) (t : OrdP.TOps K G)
    (hn : OrdP.Nice t) (s : OrdMH K) (hp : Params m l s) (hsA hsB : List UInt64)
    (hlenA : hsA.length ≤ OrdMH.u64Max) (hlenB : hsB.length ≤ OrdMH.u64Max)
    (g0 : G) (Ω : Finset (↥(Lab hsA hsB) → G)) (hΩ : CS.PermClosed Ω)
    (rA rB : (↥(Lab hsA hsB) → G) → OrdMH K)
    (hrA : ∀ ω ∈ Ω, OrdMH.hashSet (withGen t (Lab hsA hsB) g0 ω).toOps top s hsA = .ok (rA ω))
    (hrB : ∀ ω ∈ Ω, OrdMH.hashSet (withGen t (Lab hsA hsB) g0 ω).toOps top s hsB = .ok (rB ω))
    (htf : ∀ k < m, ∀ ω ∈ Ω, TieFreeOn (withGen t (Lab hsA hsB) g0 ω) m s.g s.seed k (Lab hsA hsB))
    (hlt : ∀ k < m, ∀ ω ∈ Ω, ∀ x : ↥(Lab hsA hsB), labVal (withGen t (Lab hsA hsB) g0 ω) m s.g s.seed k x.1 < top) :
    (∑ ω ∈ Ω, ((range m).filter (fun k => spelled hsA (finalBlock (rA ω) k) = spelled hsB (finalBlock (rB ω) k))).card)
        * (Fintype.card ↥(Lab hsA hsB)).factorial
      = m * ((univ.filter (OmhEvent l hsA hsB)).card * Ω.card) :=
  model_expected_matches top m l hm hl t hn s hp hsA hsB hlenA hlenB g0 Ω hΩ rA rB hrA hrB htf hlt

/-- why raw state seeding is wrong (finding F13, fixed in the code): seeded with the raw words
`(hash, occurrence, seed, 0)`, the first output of xoshiro256++ is `rotl(hash,23) + hash` — it ignores the
occurrence number and the seed, so all occurrences of an element shared their first draw and the induced ranking
of the labels could not be uniform (exact ties between `(x,1)` and `(x,2)`).  The code now scrambles the three
words through SplitMix64 (`seed_from_u64`), and so does the executable model (`Driver.ordOps.mkGen`). -/
theorem raw_state_seeding_first_output (h c c' sd sd' : UInt64) (hh : h ≠ 0) :
    (Xo.next (Xo.fromWords h c sd 0)).1 = (Xo.next (Xo.fromWords h c' sd' 0)).1 := by
  have e : ∀ c sd, Xo.fromWords h c sd 0 = ⟨h, c, sd, 0⟩ := by
    intro c sd
    unfold Xo.fromWords
    have : (h == 0) = false := by simpa using hh
    simp [this]
  rw [e, e]
  rfl

/-! non-vacuity: `A = [1,2,3]`, `B = [2,1,3]`, `l = 2`, real `OrdMH.hashSet` runs over ℚ: every hypothesis holds,
`#Ω = 6`, 4 assignments collide, 4 of the 6 rankings have the OMH event (probability 2/3) -/
example : (exΩ.filter (fun ω => spelled exA (finalBlock (exRA ω) 0) = spelled exB (finalBlock (exRB ω) 0))).card
        * (Fintype.card ↥(Lab exA exB)).factorial
      = (univ.filter (OmhEvent 2 exA exB)).card * exΩ.card := ex_model_identity

end PMH.C10

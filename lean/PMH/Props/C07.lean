import PMH.Model.JaccardBounds
import PMH.Proofs.RealAnalysis
/-!
# C07 — the Jaccard-bounds function is total on `[0,1]`, ordered, and contains `J` under the collision model

Model: `PMH.jaccardBoundsG` (`Model/JaccardBounds.lean`), transcription of
`SetSketchParams::get_jaccard_bounds`, instantiated at `ℝ` with `Real.rpow`, `Real.sqrt`, `max`, `min`.
Not mechanised: that register collisions of real sketches follow the collision model `P` (the first
sentence of the property) — a statement about the distribution of hash values.
-/
namespace PMH.C07
open PMH PMH.RA

noncomputable def realBOps : BOps ℝ := ⟨fun x y => x ^ y, Real.sqrt, max, min⟩

/-- the model at `ℝ` computes `RA.jaccardBounds` (lower end clamped to the upper one) and never aborts on `jac ≤ 1` -/
theorem model_eq (b jac : ℝ) (hj : jac ≤ 1) :
    jaccardBoundsG realBOps b jac = .ok (min (jaccardBounds b jac).1 (jaccardBounds b jac).2, (jaccardBounds b jac).2) := by
  unfold jaccardBoundsG
  have h1 : jac ≤ ((1 : Nat) : ℝ) := by simpa using hj
  simp only [h1, not_true_eq_false, if_false, realBOps, jaccardBounds]
  norm_num
  constructor <;> ring_nf

/-- **C07 (a)** total: for every `b` and every collision fraction `≤ 1` the function returns -/
theorem bounds_total (b jac : ℝ) (hj : jac ≤ 1) : ∃ r, jaccardBoundsG realBOps b jac = .ok r :=
  ⟨_, model_eq b jac hj⟩

/-- **C07 (b)** for `b > 1` and `jac ∈ [0,1]` the result is `(J_low, J_up)` with `0 ≤ J_low ≤ J_up ≤ 1` -/
theorem bounds_ordered (b jac : ℝ) (hb : 1 < b) (h0 : 0 ≤ jac) (h1 : jac ≤ 1) :
    ∃ lo hi, jaccardBoundsG realBOps b jac = .ok (lo, hi) ∧ lo = (jaccardBounds b jac).1 ∧ hi = (jaccardBounds b jac).2 ∧
      0 ≤ lo ∧ lo ≤ hi ∧ hi ≤ 1 := by
  have ho := RA.bounds_ordered b jac hb h0 h1
  obtain ⟨n0, n1, _⟩ := bounds_nonneg_le_one b jac hb h0 h1
  exact ⟨_, _, model_eq b jac h1, min_eq_left ho, rfl, by rw [min_eq_left ho]; exact n0, by rw [min_eq_left ho]; exact ho, n1⟩

/-- **C07 (c)** containment: if the collision fraction is the model value
`P = 1 - p_b(u - vJ) - p_b(v - uJ)` (`u + v = 1`, `0 ≤ J`, `vJ ≤ u`, `uJ ≤ v`), the returned interval contains `J` -/
theorem bounds_contain_J (b u v J : ℝ) (hb : 1 < b) (hu : 0 ≤ u) (hv : 0 ≤ v) (huv : u + v = 1)
    (hJ : 0 ≤ J) (h1 : v * J ≤ u) (h2 : u * J ≤ v) (hP : collisionP b u v J ≤ 1) (hP0 : 0 ≤ collisionP b u v J) :
    ∃ lo hi, jaccardBoundsG realBOps b (collisionP b u v J) = .ok (lo, hi) ∧ lo ≤ J ∧ J ≤ hi := by
  obtain ⟨c1, c2⟩ := RA.bounds_contain b u v J hb hu hv huv hJ h1 h2
  refine ⟨_, _, model_eq b _ hP, le_trans (min_le_left _ _) c1, c2⟩

end PMH.C07

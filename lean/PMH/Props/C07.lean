import PMH.Model.JaccardBounds
import PMH.Proofs.GenEq
import PMH.Proofs.RealAnalysis
import PMH.Proofs.SskLaw
/-!
# C07 — the Jaccard-bounds function is total on `[0,1]`, ordered, and contains `J` under the collision model

Model: `PMH.jaccardBoundsG` (`Model/JaccardBounds.lean`), transcription of
`SetSketchParams::get_jaccard_bounds`, instantiated at `ℝ` with `Real.rpow`, `Real.sqrt`, `max`, `min`.
First sentence of the property (`Proofs/SskLaw.lean`, Mathlib measure theory): with the register of a set at a
position = maximum over its items of `level x = clamp(⌊1 − log_b x⌋, 0, q+1)` (the SetSketch refinement, C04/C05)
and per-item values `Exp(a)`, independent across items, the probability that two sets show the same register
is an explicit finite sum `Pcoll b a q |A\B| |B\A| |A∩B|` — a function of the base, the rate, the register
range and the three cardinalities ONLY; the expected fraction of equal registers is `Pcoll` whatever the
dependence across positions; and the code's generation scheme (spacings `E_l/(a(m−l))` assigned to positions by
an independent uniform permutation) gives every position exactly the `Exp(a)` law.
Not mechanised: the relation between the exact `Pcoll` and the paper's closed-form approximation used by
`get_jaccard_bounds` (hence the 1e-4 slack of the property, checked numerically by the harness).
-/
namespace PMH.C07
open PMH PMH.RA

noncomputable def realBOps : BOps ℝ := ⟨fun x y => x ^ y, Real.sqrt, max, min⟩

/-- the model at `ℝ` computes `RA.jaccardBounds` (lower end clamped to the upper one) and never aborts on `jac ≤ 1` -/
theorem model_eq (b jac : ℝ) (hj : jac ≤ 1) :
    jaccardBoundsG realBOps b jac = .ok (min (jaccardBounds b jac).1 (jaccardBounds b jac).2, (jaccardBounds b jac).2) := by
  unfold jaccardBoundsG
  have h1 : jac ≤ ((1 : Nat) : ℝ) := by simpa using hj
  simp only [h1, not_true_eq_false, if_false, realBOps, jaccardBounds]
  norm_num
  constructor <;> ring_nf

/-- **C07 (a)** total: for every `b` and every collision fraction `≤ 1` the function returns -/
theorem bounds_total (b jac : ℝ) (hj : jac ≤ 1) : ∃ r, jaccardBoundsG realBOps b jac = .ok r :=
  ⟨_, model_eq b jac hj⟩

/-- **C07 (b)** for `b > 1` and `jac ∈ [0,1]` the result is `(J_low, J_up)` with `0 ≤ J_low ≤ J_up ≤ 1` -/
theorem bounds_ordered (b jac : ℝ) (hb : 1 < b) (h0 : 0 ≤ jac) (h1 : jac ≤ 1) :
    ∃ lo hi, jaccardBoundsG realBOps b jac = .ok (lo, hi) ∧ lo = (jaccardBounds b jac).1 ∧ hi = (jaccardBounds b jac).2 ∧
      0 ≤ lo ∧ lo ≤ hi ∧ hi ≤ 1 := by
  have ho := RA.bounds_ordered b jac hb h0 h1
  obtain ⟨n0, n1, _⟩ := bounds_nonneg_le_one b jac hb h0 h1
  exact ⟨_, _, model_eq b jac h1, min_eq_left ho, rfl, by rw [min_eq_left ho]; exact n0, by rw [min_eq_left ho]; exact ho, n1⟩

/-- **C07 (c)** containment: if the collision fraction is the model value
`P = 1 - p_b(u - vJ) - p_b(v - uJ)` (`u + v = 1`, `0 ≤ J`, `vJ ≤ u`, `uJ ≤ v`), the returned interval contains `J` -/
theorem bounds_contain_J (b u v J : ℝ) (hb : 1 < b) (hu : 0 ≤ u) (hv : 0 ≤ v) (huv : u + v = 1)
    (hJ : 0 ≤ J) (h1 : v * J ≤ u) (h2 : u * J ≤ v) (hP : collisionP b u v J ≤ 1) (hP0 : 0 ≤ collisionP b u v J) :
    ∃ lo hi, jaccardBoundsG realBOps b (collisionP b u v J) = .ok (lo, hi) ∧ lo ≤ J ∧ J ≤ hi := by
  obtain ⟨c1, c2⟩ := RA.bounds_contain b u v J hb hu hv huv hJ h1 h2
  refine ⟨_, _, model_eq b _ hP, le_trans (min_le_left _ _) c1, c2⟩


/-! ### the same three clauses for the definition GENERATED from `src/setsketcher.rs` on every check
(`Model/JaccardBoundsGen.lean`, `tools/translate_float.py`); `GenEq.jaccardBounds_eq` is re-proved on every run -/

/-- the generated definition computes the same function as the transcription the theorems above are about -/
theorem source_eq_model (b jac : ℝ) : Gen.jaccardBounds realBOps b jac = jaccardBoundsG realBOps b jac :=
  GenEq.jaccardBounds_eq b jac

/-- **C07 (a), source** total on every collision fraction `≤ 1` -/
theorem source_bounds_total (b jac : ℝ) (hj : jac ≤ 1) : ∃ r, Gen.jaccardBounds realBOps b jac = .ok r := by
  rw [source_eq_model]; exact bounds_total b jac hj

/-- **C07 (b), source** `0 ≤ J_low ≤ J_up ≤ 1` -/
theorem source_bounds_ordered (b jac : ℝ) (hb : 1 < b) (h0 : 0 ≤ jac) (h1 : jac ≤ 1) :
    ∃ lo hi, Gen.jaccardBounds realBOps b jac = .ok (lo, hi) ∧ 0 ≤ lo ∧ lo ≤ hi ∧ hi ≤ 1 := by
  obtain ⟨lo, hi, h, _, _, a, c, d⟩ := bounds_ordered b jac hb h0 h1
  exact ⟨lo, hi, by rw [source_eq_model]; exact h, a, c, d⟩

/-- **C07 (c), source** the interval returned for the model collision probability contains `J` -/
theorem source_bounds_contain_J (b u v J : ℝ) (hb : 1 < b) (hu : 0 ≤ u) (hv : 0 ≤ v) (huv : u + v = 1)
    (hJ : 0 ≤ J) (h1 : v * J ≤ u) (h2 : u * J ≤ v) (hP : collisionP b u v J ≤ 1) (hP0 : 0 ≤ collisionP b u v J) :
    ∃ lo hi, Gen.jaccardBounds realBOps b (collisionP b u v J) = .ok (lo, hi) ∧ lo ≤ J ∧ J ≤ hi := by
  obtain ⟨lo, hi, h, a, c⟩ := bounds_contain_J b u v J hb hu hv huv hJ h1 h2 hP hP0
  exact ⟨lo, hi, by rw [source_eq_model]; exact h, a, c⟩


/-! ### first sentence: the collision probability of SetSketch registers -/
section Law
open MeasureTheory ProbabilityTheory PMH.SskLaw
variable {ι : Type} [Fintype ι] [DecidableEq ι]

/-- **C07 (d)** law of the register of a set of `n` items: `P(register ≤ k) = exp(−a n b^{−k})` for `k ≤ q`, 1 above -/
theorem register_distribution {b a : ℝ} (hb : 1 < b) (ha : 0 < a) (q : ℕ) (S : Finset ι) (k : ℕ) :
    μ a ι {x | reg b q S x ≤ k} = ENNReal.ofReal (G b a q S.card k) := maxlevel_cdf hb ha q S k

/-- **C07 (e)** collision probability of one register of two sets -/
theorem register_collision_probability {b a : ℝ} (hb : 1 < b) (ha : 0 < a) (q : ℕ) (A B : Finset ι) :
    (μ a ι).real {x | reg b q A x = reg b q B x} = Pcoll b a q (A \ B).card (B \ A).card (A ∩ B).card :=
  collision_probability hb ha q A B

/-- … which is determined by the base, the rate, the register range and the three cardinalities only -/
theorem collision_determined_by_cardinalities {ι' : Type} [Fintype ι'] [DecidableEq ι']
    {b a : ℝ} (hb : 1 < b) (ha : 0 < a) (q : ℕ) (A B : Finset ι) (A' B' : Finset ι')
    (h1 : (A \ B).card = (A' \ B').card) (h2 : (B \ A).card = (B' \ A').card)
    (h3 : (A ∩ B).card = (A' ∩ B').card) :
    (μ a ι).real {x | reg b q A x = reg b q B x} = (μ a ι').real {x | reg b q A' x = reg b q B' x} :=
  collision_depends_only_on_cardinalities hb ha q A B A' B' h1 h2 h3

open Classical in
/-- **C07 (f)** the expected FRACTION of equal registers is `Pcoll` (positions may depend on each other) -/
theorem expected_fraction_of_equal_registers {Ω : Type} [MeasurableSpace Ω] (P : Measure Ω) [IsProbabilityMeasure P]
    {b a : ℝ} (hb : 1 < b) (ha : 0 < a) (q : ℕ) {m : ℕ} (hm : 0 < m) (X : Fin m → Ω → ι → ℝ)
    (hX : ∀ p, Measurable (X p)) (hlaw : ∀ p, P.map (X p) = μ a ι) (A B : Finset ι) :
    ∫ ω, ((Finset.univ.filter fun p => reg b q A (X p ω) = reg b q B (X p ω)).card : ℝ) / m ∂P
      = Pcoll b a q (A \ B).card (B \ A).card (A ∩ B).card :=
  SskLaw.expected_fraction P hb ha q hm X hX hlaw A B

/-- **C07 (g)** the code's generation scheme: the value seen by a fixed position (the `j`-th spacing sum with `j`
uniform) has survival function `exp(−a t)` — every position sees an `Exp(a)` value per item -/
theorem position_sees_exponential {a : ℝ} (ha : 0 < a) {m : ℕ} (hm : 0 < m) {t : ℝ} (ht : 0 ≤ t) :
    (1 / (m : ℝ)) * ∑ j : Fin m, (μ 1 (Fin m)).real {E | t < xs a m j E} = Real.exp (-(a * t)) :=
  position_survival ha hm ht

/-- sanity: identical sets always collide; a two-level example -/
example (b a : ℝ) (q n3 : ℕ) : Pcoll b a q 0 0 n3 = 1 := Pcoll_identical b a q n3
example : Pcoll 2 1 0 1 1 0 = Real.exp (-1) ^ 2 + (1 - Real.exp (-1)) ^ 2 := Pcoll_example
end Law

end PMH.C07

import PMH.Proofs.FYShuffle
import Mathlib.Algebra.Order.Floor.Semiring
import Mathlib.Algebra.Order.Field.Basic
/-!
# C17 — the lazy shuffle yields permutations, is a bijection offsets ↔ orders, and forgets history on reset

Model: `PMH.FY` (`Model/FYShuffle.lean`), the array-with-cursor transcription of `FYshuffle`.
`next` = (floating point) `offsetOf` + (pure bookkeeping) `nextOff`; the theorems are about
`nextOff` for every offset in range, and `floor_offset_lt` shows that in exact arithmetic the offset
`⌊xsi·n⌋` of a draw `xsi ∈ [0,1)` is in range, with `floor_offset_eq_iff` giving uniformity of the offset.
-/
namespace PMH.C17
open PMH PMH.FYL PMH.FYP

/-- state invariant: the array is a permutation of `0..m-1` -/
def Inv (s : FY) : Prop := List.Perm s.v.toList (List.range s.m)

theorem new_inv (m : Nat) : Inv (FY.new m) := by simp [Inv, FY.new]
theorem reset_inv (s : FY) : Inv s.reset := by simp [Inv, FY.reset]

/-- **C17 (a)** a draw with an in-range offset never indexes out of bounds, returns a value
`< m`, keeps the array a permutation and advances the (wrapped) cursor by one. -/
theorem next_inv (s : FY) (hinv : Inv s) (c : Nat) (hc : c < s.m - s.cursor) :
    ∃ k s', s.nextOff c = .ok (k, s') ∧ Inv s' ∧ s'.m = s.m ∧ k < s.m ∧ s'.lastidx = s.cursor + 1 := by
  have hlen : s.v.toList.length = s.m := by rw [hinv.length_eq]; simp
  have hlen' : s.v.size = s.m := by simpa using hlen
  obtain ⟨x, xs, hd⟩ : ∃ x xs, s.v.toList.drop s.cursor = x :: xs := by
    cases h : s.v.toList.drop s.cursor with
    | nil => simp at h; omega
    | cons x xs => exact ⟨x, xs, rfl⟩
  obtain ⟨pre, hpre⟩ : ∃ pre, pre = s.v.toList.take s.cursor := ⟨_, rfl⟩
  have hv : s.v.toList = pre ++ x :: xs := by rw [hpre, ← hd, List.take_append_drop]
  have hpl : pre.length = s.cursor := by rw [hpre]; simp; omega
  have hxl : xs.length + 1 = s.m - s.cursor := by
    have := congrArg List.length hv
    simp at this; omega
  obtain ⟨s', e, v', l', m'⟩ := nextOff_step s pre x xs c hv hpl.symm (by omega)
  refine ⟨_, s', e, ?_, m', ?_, by rw [l', hpl]⟩
  · unfold Inv
    rw [v', m']
    refine List.Perm.trans ?_ hinv
    rw [hv]
    exact List.Perm.append_left _ (step_perm x xs c (by omega))
  · have hmem : pick x xs c ∈ s.v.toList := by
      have := (step_perm x xs c (by omega)).subset (List.mem_cons_self)
      rw [hv]; exact List.mem_append_right _ this
    have := hinv.subset hmem
    simpa using this

/-- **C17 (b)** a block: from any state whose cursor is at a block boundary (fresh, just reset, or
after a full block), `m` draws with in-range offsets return each of `0..m-1` exactly once, the
array afterwards spells the draws, and the state is again at a block boundary — so the next block
of `m` draws is again a permutation, with or without a reset in between. -/
theorem block_is_perm (s : FY) (hinv : Inv s) (hb : s.cursor = 0) (hl : s.m = 0 → s.lastidx = 0) (cs : List Nat) (hcs : Valid s.m cs) :
    ∃ o s', draws s cs = .ok (o, s') ∧ List.Perm o (List.range s.m) ∧ s'.v.toList = o ∧
      s'.lastidx = s.m ∧ s'.m = s.m ∧ Inv s' ∧ s'.cursor = 0 := by
  have hlen : s.v.toList.length = s.m := by rw [hinv.length_eq]; simp
  obtain ⟨s', e, v', l', m'⟩ := draws_block s.m s [] s.v.toList cs hlen (by simp) (by intro _; simpa using hb)
    (by intro h; rw [hl h, h]) (by simp) hcs
  have hperm : List.Perm (fy s.v.toList cs) (List.range s.m) :=
    (fy_perm s.m s.v.toList cs hlen hcs).trans hinv
  refine ⟨_, s', e, hperm, by simpa using v', l', m', ?_, ?_⟩
  · unfold Inv; rw [m']; simpa [v'] using hperm
  · unfold FY.cursor; rw [l', m']; simp

/-- **C17 (c)** `reset` forgets everything but the size … -/
theorem reset_forgets (s s' : FY) (h : s.m = s'.m) : s.reset = s'.reset := by
  simp [FY.reset, h]

/-- … and a reset shuffle draws exactly like a freshly constructed one. -/
theorem reset_like_new (s : FY) (c : Nat) : s.reset.nextOff c = (FY.new s.m).nextOff c := by
  simp [FY.nextOff, FY.reset, FY.new, FY.cursor]

theorem draws_reset_like_new (s : FY) (cs : List Nat) :
    (draws s.reset cs).map Prod.fst = (draws (FY.new s.m) cs).map Prod.fst := by
  cases cs with
  | nil => simp [draws, Except.map]
  | cons c cs => simp only [draws, reset_like_new]

/-- **C17 (d)** after a reset the draws are `fy (range m) cs`, and for every arrangement `o` of
`0..m-1` there is exactly one in-range offset vector producing it: offsets ↔ orders is a bijection,
so uniform offsets make each of the `m!` orders equally likely. -/
theorem offsets_bijective (s : FY) (o : List Nat) (ho : List.Perm o (List.range s.m)) :
    ∃! cs, Valid s.m cs ∧ (draws s.reset cs).map Prod.fst = .ok o := by
  have key : ∀ cs, Valid s.m cs → (draws s.reset cs).map Prod.fst = .ok (fy (List.range s.m) cs) := by
    intro cs hcs
    obtain ⟨s', e, _⟩ := draws_block s.m s.reset [] (List.range s.m) cs (by simp) (by simp [FY.reset])
      (by intro _; simp [FY.cursor, FY.reset]) (by intro h; simp [FY.reset, h]) (by simp [FY.reset]) hcs
    rw [e]; rfl
  obtain ⟨cs, hv, hcs⟩ := fy_surj s.m (List.range s.m) o (by simp) (List.nodup_range) ho
  refine ⟨cs, ⟨hv, by rw [key cs hv, hcs]⟩, ?_⟩
  intro cs' ⟨hv', h'⟩
  rw [key cs' hv'] at h'
  have : fy (List.range s.m) cs' = fy (List.range s.m) cs := by
    rw [hcs]; exact Except.ok.inj h'
  exact fy_inj s.m (List.range s.m) cs' cs (by simp) (List.nodup_range) hv' hv this

/-! ### exact-arithmetic link between a draw `xsi ∈ [0,1)` and its offset -/
section Real
variable {K : Type} [Field K] [LinearOrder K] [IsStrictOrderedRing K] [FloorSemiring K]

/-- the offset `⌊xsi·n⌋` is in range for `0 ≤ xsi < 1` -/
theorem floor_offset_lt (xsi : K) (n : Nat) (h0 : 0 ≤ xsi) (h1 : xsi < 1) (hn : 0 < n) :
    ⌊xsi * n⌋₊ < n := by
  rw [Nat.floor_lt (mul_nonneg h0 (Nat.cast_nonneg n))]
  have : (0:K) < n := Nat.cast_pos.mpr hn
  calc xsi * n < 1 * n := by exact mul_lt_mul_of_pos_right h1 this
    _ = n := one_mul _

/-- `⌊xsi·n⌋ = j ↔ xsi ∈ [j/n, (j+1)/n)`: a uniform `xsi` gives a uniform offset -/
theorem floor_offset_eq_iff (xsi : K) (n j : Nat) (h0 : 0 ≤ xsi) (hn : 0 < n) :
    ⌊xsi * n⌋₊ = j ↔ (j : K) / n ≤ xsi ∧ xsi < ((j : K) + 1) / n := by
  have hn' : (0:K) < n := Nat.cast_pos.mpr hn
  rw [Nat.floor_eq_iff (mul_nonneg h0 (le_of_lt hn')), div_le_iff₀ hn', lt_div_iff₀ hn']
end Real

/-! ### non-vacuity -/
example : Valid 3 [2, 0, 0] := by simp [Valid]
example : (draws (FY.new 3) [2, 0, 0]).toOption.map (·.1) = some [2, 1, 0] := by decide
example : (draws (FY.new 3) [2, 0, 0, 1, 1, 0]).toOption.map (·.1) = some [2, 1, 0, 1, 0, 2] := by decide

end PMH.C17

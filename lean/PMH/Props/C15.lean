import PMH.Proofs.MaxTracker
/-!
# C15 — the max tracker always reports the true maximum of per-slot minima

Model: `PMH.Tracker` (`Model/MaxTracker.lean`), a branch-for-branch transcription of
`MaxValueTracker::{new, update, get_max_value, get_value, is_update_possible, reset}` including
both `assert!`s (as `Except.error`).  All statements are for an arbitrary linear order `α`, any
`m ≥ 1` and any finite sequence of operations.
-/
namespace PMH.C15
open PMH PMH.MT
variable {α : Type} [LinearOrder α]

inductive Op (α : Type) where
  | upd (k : Nat) (v : α)
  | reset

def applyOp (top : α) (t : Tracker α) : Op α → Except Err (Tracker α)
  | .upd k v => t.update k v
  | .reset => .ok (t.reset top)

def run (top : α) (t : Tracker α) : List (Op α) → Except Err (Tracker α)
  | [] => .ok t
  | op :: ops =>
    match applyOp top t op with
    | .ok t' => run top t' ops
    | .error e => .error e

/-- The specification: an abstract map slot ↦ smallest value offered since the last reset. -/
def specStep (top : α) (L : Nat → α) : Op α → (Nat → α)
  | .upd k v => Function.update L k (min (L k) v)
  | .reset => fun _ => top

def spec (top : α) (ops : List (Op α)) : Nat → α := ops.foldl (specStep top) (fun _ => top)

def ValidOps (m : Nat) (ops : List (Op α)) : Prop :=
  ∀ op ∈ ops, match op with | .upd k _ => k < m | .reset => True

/-- reachable-state invariant: right size, every internal node is the max of its children -/
def Good (top : α) (m : Nat) (t : Tracker α) : Prop := t.m = m ∧ InvA top m t.vals

theorem new_good (top : α) (m : Nat) (_hm : 1 ≤ m) : Good top m (Tracker.new top m) := by
  refine ⟨rfl, by simp [Tracker.new], ?_⟩
  intro i hi1 hi2
  have h : ∀ j, vw top (Tracker.new top m).vals j = top := by
    intro j; unfold vw Tracker.new
    simp only [Array.getD_eq_getD_getElem?, Array.getElem?_replicate]
    split <;> simp
  simp [NodeOK, h]

theorem reset_eq_new (top : α) (m : Nat) (t : Tracker α) (h : Good top m t) :
    t.reset top = Tracker.new top m := by
  obtain ⟨hm, hs, _⟩ := h
  unfold Tracker.reset Tracker.new
  cases t; simp_all

/-- One `update` from a good state: never panics, stays good, and acts on the leaves as the spec. -/
theorem update_good (top : α) (m : Nat) (hm : 1 ≤ m) (t : Tracker α) (h : Good top m t)
    (k : Nat) (hk : k < m) (v : α) :
    ∃ t', t.update k v = .ok t' ∧ Good top m t' ∧
      ∀ i, i < m → vw top t'.vals i = Function.update (vw top t.vals) k (min (vw top t.vals k) v) i := by
  obtain ⟨tm, tvals⟩ := t
  obtain ⟨htm, hs, hinv⟩ := h
  simp only at htm hs hinv
  subst htm
  have hka : k < tvals.size := by omega
  simp only [Tracker.update, hk, if_true, getElem?_vw top _ _ hka]
  by_cases hlt : v < vw top tvals k
  · simp only [hlt, if_true]
    have hex : InvExceptF tm (vw top tvals) k v := by
      refine ⟨fun i hi1 hi2 _ _ => hinv i hi1 hi2, fun h => by omega, ?_, le_of_lt hlt, by omega⟩
      intro hk2
      have hi1 : tm ≤ tm + k/2 := by omega
      have hi2 : tm + k/2 < 2*tm - 1 := by omega
      have := hinv _ hi1 hi2
      simp only [NodeOK] at this
      rw [this]
      rcases children tm k hk2 with ⟨e1, e2⟩ | ⟨e1, e2⟩
      · rw [e2, e1]
      · rw [e2, e1, max_comm]
    obtain ⟨a', h1, h2, h3⟩ := updLoop_spec top tm hm (2 * tm) tvals k v hs (by omega) hex
    rw [h1]
    refine ⟨_, rfl, ⟨rfl, h2⟩, ?_⟩
    intro i hi
    simp only [h3 i hi, Function.update, eq_rec_constant, dite_eq_ite, min_eq_right (le_of_lt hlt)]
  · simp only [hlt, if_false]
    refine ⟨_, rfl, ⟨rfl, hs, hinv⟩, ?_⟩
    intro i _
    rw [min_eq_left (not_lt.mp hlt)]
    simp

/-- **C15 (i)** Refinement: from `new`, every valid operation sequence runs without panic (neither
`assert!` fires, no index is out of range), ends in a good state, and each slot holds exactly the
smallest value offered to it since the last reset (`top` if none). -/
theorem tracker_refines_spec (top : α) (m : Nat) (hm : 1 ≤ m) (ops : List (Op α)) (hv : ValidOps m ops) :
    ∃ t, run top (Tracker.new top m) ops = .ok t ∧ Good top m t ∧
      ∀ k, k < m → t.getValue k = .ok (spec top ops k) := by
  suffices H : ∀ (ops : List (Op α)) (t : Tracker α) (L : Nat → α), ValidOps m ops → Good top m t →
      (∀ i, i < m → vw top t.vals i = L i) →
      ∃ t', run top t ops = .ok t' ∧ Good top m t' ∧
        ∀ i, i < m → vw top t'.vals i = ops.foldl (specStep top) L i by
    obtain ⟨t, h1, h2, h3⟩ := H ops (Tracker.new top m) (fun _ => top) hv (new_good top m hm) (by
      intro i _; unfold vw Tracker.new
      simp only [Array.getD_eq_getD_getElem?, Array.getElem?_replicate]; split <;> simp)
    refine ⟨t, h1, h2, ?_⟩
    intro k hk
    unfold Tracker.getValue
    rw [getElem?_vw top _ _ (by have := h2.2.1; omega), h3 k hk]; rfl
  intro ops
  induction ops with
  | nil => intro t L _ hg hL; exact ⟨t, rfl, hg, hL⟩
  | cons op ops ih =>
    intro t L hv hg hL
    have hv' : ValidOps m ops := fun o ho => hv o (List.mem_cons_of_mem _ ho)
    cases op with
    | upd k v =>
      have hk : k < m := hv (.upd k v) List.mem_cons_self
      obtain ⟨t1, e1, g1, l1⟩ := update_good top m hm t hg k hk v
      obtain ⟨t', e', g', l'⟩ := ih t1 (specStep top L (.upd k v)) hv' g1 (by
        intro i hi
        rw [l1 i hi]
        simp only [specStep, Function.update, eq_rec_constant, dite_eq_ite]
        split
        · subst_vars; rw [hL _ hk]
        · exact hL i hi)
      exact ⟨t', by simp only [run, applyOp, e1, e'], g', l'⟩
    | reset =>
      have hr : t.reset top = Tracker.new top m := reset_eq_new top m t hg
      obtain ⟨t', e', g', l'⟩ := ih (t.reset top) (specStep top L .reset) hv' (hr ▸ new_good top m hm) (by
        intro i _; rw [hr]; unfold vw Tracker.new
        simp only [specStep, Array.getD_eq_getD_getElem?, Array.getElem?_replicate]; split <;> simp)
      exact ⟨t', by simp only [run, applyOp, e'], g', l'⟩

/-- every node equals some leaf -/
theorem node_is_leaf (m : Nat) (hm : 1 ≤ m) (v : Nat → α) (h : InvF m v) :
    ∀ i, i < 2*m - 1 → ∃ k, k < m ∧ v k = v i := by
  intro i
  induction i using Nat.strong_induction_on with
  | _ i ih =>
    intro hi
    by_cases hl : i < m
    · exact ⟨i, hl, rfl⟩
    · have hn := h i (by omega) hi
      simp only [NodeOK] at hn
      rcases max_choice (v (2*(i-m))) (v (2*(i-m)+1)) with e | e
      · obtain ⟨k, hk, hv⟩ := ih (2*(i-m)) (by omega) (by omega)
        exact ⟨k, hk, by rw [hv, hn, e]⟩
      · obtain ⟨k, hk, hv⟩ := ih (2*(i-m)+1) (by omega) (by omega)
        exact ⟨k, hk, by rw [hv, hn, e]⟩

/-- every node is below the root -/
theorem node_le_root (m : Nat) (hm : 1 ≤ m) (v : Nat → α) (h : InvF m v) :
    ∀ d i, i + d = 2*m - 2 → v i ≤ v (2*m - 2) := by
  intro d
  induction d using Nat.strong_induction_on with
  | _ d ih =>
    intro i hi
    by_cases hr : i = 2*m - 2
    · rw [hr]
    · have hk2 : i < 2*m - 2 := by omega
      have hp := h (m + i/2) (by omega) (by omega)
      simp only [NodeOK] at hp
      have hle : v i ≤ v (m + i/2) := by
        rw [hp]
        rcases children m i hk2 with ⟨e1, e2⟩ | ⟨e1, e2⟩
        · rw [e1]; exact le_max_left _ _
        · rw [e2]; exact le_max_right _ _
      exact le_trans hle (ih (2*m - 2 - (m + i/2)) (by omega) (m + i/2) (by omega))

/-- **C15 (ii)** In every good state the reported maximum is the largest slot value: it bounds
every slot and is attained by one. -/
theorem max_spec (top : α) (m : Nat) (hm : 1 ≤ m) (t : Tracker α) (h : Good top m t) :
    ∃ mx, t.getMax = .ok mx ∧ (∀ k, k < m → vw top t.vals k ≤ mx) ∧ (∃ k, k < m ∧ vw top t.vals k = mx) := by
  obtain ⟨htm, hs, hinv⟩ := h
  refine ⟨vw top t.vals (2*m - 2), ?_, ?_, ?_⟩
  · unfold Tracker.getMax Tracker.lastIndex
    rw [htm, getElem?_vw top _ _ (by omega)]
  · intro k hk
    exact node_le_root m hm _ hinv (2*m - 2 - k) k (by omega)
  · exact node_is_leaf m hm _ hinv (2*m - 2) (by omega)

/-- **C15 (iii)** an update is reported possible exactly for values below the maximum. -/
theorem possible_iff (top : α) (m : Nat) (hm : 1 ≤ m) (t : Tracker α) (h : Good top m t) (v : α) :
    ∃ mx, t.getMax = .ok mx ∧ t.isUpdatePossible v = .ok (decide (v < mx)) := by
  obtain ⟨mx, h1, _, _⟩ := max_spec top m hm t h
  exact ⟨mx, h1, by unfold Tracker.isUpdatePossible; rw [h1]⟩

/-- **C15 (iv)** a slot outside `0..m` is rejected (the code's `assert!(k < self.m)`). -/
theorem update_out_of_range (t : Tracker α) (k : Nat) (v : α) (hk : t.m ≤ k) :
    t.update k v = .error (.assertFail "maxtracker k<m") := by
  unfold Tracker.update
  simp [Nat.not_lt.mpr hk]

/-- **C15** combined, for every operation history from `new`. -/
theorem c15_all (top : α) (m : Nat) (hm : 1 ≤ m) (ops : List (Op α)) (hv : ValidOps m ops) :
    ∃ t mx, run top (Tracker.new top m) ops = .ok t ∧
      (∀ k, k < m → t.getValue k = .ok (spec top ops k)) ∧
      t.getMax = .ok mx ∧ (∀ k, k < m → spec top ops k ≤ mx) ∧ (∃ k, k < m ∧ spec top ops k = mx) ∧
      (∀ v, t.isUpdatePossible v = .ok (decide (v < mx))) ∧
      t.reset top = Tracker.new top m := by
  obtain ⟨t, h1, h2, h3⟩ := tracker_refines_spec top m hm ops hv
  obtain ⟨mx, g1, g2, g3⟩ := max_spec top m hm t h2
  have hleaf : ∀ k, k < m → vw top t.vals k = spec top ops k := by
    intro k hk
    have := h3 k hk
    unfold Tracker.getValue at this
    rw [getElem?_vw top _ _ (by have := h2.2.1; omega)] at this
    simpa using this
  refine ⟨t, mx, h1, h3, g1, ?_, ?_, ?_, reset_eq_new top m t h2⟩
  · intro k hk; rw [← hleaf k hk]; exact g2 k hk
  · obtain ⟨k, hk, e⟩ := g3; exact ⟨k, hk, by rw [← hleaf k hk]; exact e⟩
  · intro v; unfold Tracker.isUpdatePossible; rw [g1]

/-! ### non-vacuity: an odd size (leaf 2 is the sibling of internal node 3) with ties in sibling slots -/
example : ValidOps 3 [Op.upd 0 (5:Nat), .upd 1 5, .upd 2 7, .upd 0 5, .reset, .upd 2 1] := by
  intro op h; simp at h; rcases h with h | h | h | h | h | h <;> subst h <;> simp
example : (run (100:Nat) (Tracker.new 100 3) [Op.upd 0 5, .upd 1 5, .upd 2 7, .upd 0 3]).toOption.map (·.vals.toList)
    = some [3, 5, 7, 5, 7] := by decide

end PMH.C15

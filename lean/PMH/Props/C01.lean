import PMH.Props.C02
import PMH.Proofs.PmhLaws
/-!
# C01 — ProbMinHash estimates the probability-Jaccard index J_P

What a code change can break is deterministic and is settled by C02: the signature *is* the consistent
sample defined by the per-item streams (`C02.run_spec`: position `k` holds the item whose stream hits
`k` earliest).  What remains is mathematics about ideal streams, of which the parts that depend on the
code's constants are proved here: the rate `λ = ln(m/(m-1))` of ProbMinHash3 and the `β_i = m/(m-i-1)`
of ProbMinHash2 are exactly the parameters for which the first time an item of weight `w` hits a given
position is exponential (rate `λw`, resp. `w/m`), and the winner of a race of independent exponential
clocks is item `d` with probability `w_d/Σw`.
Not mechanised: the measure-theoretic step from "first-hit times are independent exponentials" to
`P(collision) = J_P` for unequal weights (Ertl 2020; Moulton–Jiang 2018) and the MSE bound `J_P(1-J_P)/m`.
-/
namespace PMH.C01
open PMH PMH.Laws

/-- **C01 (a)** ProbMinHash3: with the code's `λ = ln(m/(m-1))`, the probability that a fixed position has
not been hit by time `n + s` (unit weight; `n` whole intervals, `s ∈ [0,1]`) is `e^{-λ(n+s)}`: each of
the first `n` points misses with probability `1-1/m`, the next one has arrived with probability `F(s)` —
the truncated-exponential CDF of C16 — and then hits with probability `1/m` -/
theorem pmh3_first_hit_is_exponential {m : ℕ} (hm : 2 ≤ m) (n : ℕ) (s : ℝ) :
    (1 - 1 / (m : ℝ)) ^ n * (1 - (1 / (m : ℝ)) * F m s) = Real.exp (-(lam m) * ((n : ℝ) + s)) :=
  pmh3_survival hm n s

/-- the rate is forced: no other `μ` satisfies even the `n = 1, s = 0` instance -/
theorem pmh3_rate_is_forced {m : ℕ} (hm : 2 ≤ m) (mu : ℝ) (hmu : 0 < mu)
    (h : (1 - 1 / (m : ℝ)) ^ 1 * 1 = Real.exp (-mu * 1)) : mu = lam m :=
  pmh3_rate_unique hm mu hmu h

/-- for weight `w` the first-hit time of a position is exponential of rate `λ·w` -/
theorem pmh3_weighted_rate {m : ℕ} (hm : 2 ≤ m) {w t : ℝ} (hw : 0 ≤ w) (ht : 0 ≤ t) :
    survival m w t = Real.exp (-(lam m * w) * t) :=
  pmh3_first_hit_rate hm hw ht

/-- **C01 (b)** ProbMinHash2: with the code's `β_i = m/(m-i-1)` the Laplace transform of the first-hit time
of a fixed position (a uniformly random rank `J` in the item's permutation; gaps `Exp` with means
`1, β_0, β_1, …`) is that of `Exp(1/m)`, for every `m ≥ 1` -/
theorem pmh2_first_hit_is_exponential (m : ℕ) (hm : 1 ≤ m) {s : ℝ} (hs : 0 ≤ s) :
    (1 / (m : ℝ)) * ∑ J ∈ Finset.range m, ∏ i ∈ Finset.range (J + 1), 1 / (1 + s * gapMean m i)
      = (1 / (m : ℝ)) / (1 / (m : ℝ) + s) :=
  pmh2_survival m hm hs

/-- its first moment: the mean first-hit time is `m` -/
theorem pmh2_mean_first_hit_time (m : ℕ) (hm : 1 ≤ m) : (1 / (m : ℚ)) * ∑ J ∈ Finset.range m, E m J = m :=
  pmh2_mean_first_hit_E m hm

/-- **C01 (c)** the race of independent exponential clocks: item with rate `a` beats the rest (total rate `b`)
with probability `a/(a+b)` — for a single weighted set, position holds `d` with probability `w_d/Σw` -/
theorem race_winner {a b : ℝ} (ha : 0 < a) (hb : 0 ≤ b) :
    ∫ t in Set.Ioi (0 : ℝ), a * Real.exp (-(a + b) * t) = a / (a + b) :=
  race_winner_integral ha hb

end PMH.C01

import PMH.Proofs.GenEq
import PMH.Props.C02
import PMH.Proofs.PmhLaws
import PMH.Proofs.PmhColl
import PMH.Proofs.JpLaw
import PMH.Proofs.MseLaw
/-!
# C01 — ProbMinHash estimates the probability-Jaccard index J_P

What a code change can break is deterministic and is settled by C02: the signature *is* the consistent
sample defined by the per-item streams (`C02.run_spec`: position `k` holds the item whose stream hits
`k` earliest).  What remains is mathematics about ideal streams, of which the parts that depend on the
code's constants are proved here: the rate `λ = ln(m/(m-1))` of ProbMinHash3 and the `β_i = m/(m-i-1)`
of ProbMinHash2 are exactly the parameters for which the first time an item of weight `w` hits a given
position is exponential (rate `λw`, resp. `w/m`), and the winner of a race of independent exponential
clocks is item `d` with probability `w_d/Σw`.
Not mechanised: the measure-theoretic step from "first-hit times are independent exponentials" to
`P(collision) = J_P` for unequal weights (Ertl 2020; Moulton–Jiang 2018) and the MSE bound `J_P(1-J_P)/m`.
-/
namespace PMH.C01
open PMH PMH.Laws

/-- **C01 (a)** ProbMinHash3: with the code's `λ = ln(m/(m-1))`, the probability that a fixed position has
not been hit by time `n + s` (unit weight; `n` whole intervals, `s ∈ [0,1]`) is `e^{-λ(n+s)}`: each of
the first `n` points misses with probability `1-1/m`, the next one has arrived with probability `F(s)` —
the truncated-exponential CDF of C16 — and then hits with probability `1/m` -/
theorem pmh3_first_hit_is_exponential {m : ℕ} (hm : 2 ≤ m) (n : ℕ) (s : ℝ) :
    (1 - 1 / (m : ℝ)) ^ n * (1 - (1 / (m : ℝ)) * F m s) = Real.exp (-(lam m) * ((n : ℝ) + s)) :=
  pmh3_survival hm n s

/-- the rate is forced: no other `μ` satisfies even the `n = 1, s = 0` instance -/
theorem pmh3_rate_is_forced {m : ℕ} (hm : 2 ≤ m) (mu : ℝ) (hmu : 0 < mu)
    (h : (1 - 1 / (m : ℝ)) ^ 1 * 1 = Real.exp (-mu * 1)) : mu = lam m :=
  pmh3_rate_unique hm mu hmu h

/-- for weight `w` the first-hit time of a position is exponential of rate `λ·w` -/
theorem pmh3_weighted_rate {m : ℕ} (hm : 2 ≤ m) {w t : ℝ} (hw : 0 ≤ w) (ht : 0 ≤ t) :
    survival m w t = Real.exp (-(lam m * w) * t) :=
  pmh3_first_hit_rate hm hw ht

/-- **C01 (b)** ProbMinHash2: with the code's `β_i = m/(m-i-1)` the Laplace transform of the first-hit time
of a fixed position (a uniformly random rank `J` in the item's permutation; gaps `Exp` with means
`1, β_0, β_1, …`) is that of `Exp(1/m)`, for every `m ≥ 1` -/
theorem pmh2_first_hit_is_exponential (m : ℕ) (hm : 1 ≤ m) {s : ℝ} (hs : 0 ≤ s) :
    (1 / (m : ℝ)) * ∑ J ∈ Finset.range m, ∏ i ∈ Finset.range (J + 1), 1 / (1 + s * gapMean m i)
      = (1 / (m : ℝ)) / (1 / (m : ℝ) + s) :=
  pmh2_survival m hm hs

/-- its first moment: the mean first-hit time is `m` -/
theorem pmh2_mean_first_hit_time (m : ℕ) (hm : 1 ≤ m) : (1 / (m : ℚ)) * ∑ J ∈ Finset.range m, E m J = m :=
  pmh2_mean_first_hit_E m hm

/-! ### the same two statements for the constants CUT OUT OF THE SOURCE on every check (`Model/PmhConstGen.lean`,
`tools/translate_float.py`): the `let lambda = …` of the three ProbMinHash3 constructors and the closure of the `betas` table -/

/-- the rate computed by `ProbMinHash3::new`, `ProbMinHash3a::new` and `ProbMinHash3aSha::new` is the `λ` of (a) -/
theorem source_rate_is_lam {m : ℕ} (hm : 2 ≤ m) :
    Gen.pmh3Lambda RA.realOps m = lam m ∧ Gen.pmh3aLambda RA.realOps m = lam m ∧ Gen.pmh3aShaLambda RA.realOps m = lam m :=
  ⟨GenEq.pmh3Lambda_eq (by omega), GenEq.pmh3aLambda_eq (by omega), GenEq.pmh3aShaLambda_eq (by omega)⟩

/-- **C01 (a), source** the survival identity with the rate as the source computes it -/
theorem source_pmh3_first_hit_is_exponential {m : ℕ} (hm : 2 ≤ m) (n : ℕ) (s : ℝ) :
    (1 - 1 / (m : ℝ)) ^ n * (1 - (1 / (m : ℝ)) * truncCdf (Gen.pmh3Lambda RA.realOps m) s)
      = Real.exp (-(Gen.pmh3Lambda RA.realOps m) * ((n : ℝ) + s)) := by
  rw [(source_rate_is_lam hm).1]; exact pmh3_first_hit_is_exponential hm n s

/-- means of the gaps between consecutive points of an item as the source computes them: 1, then `betas[0], betas[1], …` -/
noncomputable def sourceGap (m : ℕ) : ℕ → ℝ
  | 0 => 1
  | i + 1 => Gen.pmh2Beta m i

/-- **C01 (b), source** the Laplace-transform identity with the `betas` table as the source computes it -/
theorem source_pmh2_first_hit_is_exponential (m : ℕ) (hm : 1 ≤ m) {s : ℝ} (hs : 0 ≤ s) :
    (1 / (m : ℝ)) * ∑ J ∈ Finset.range m, ∏ i ∈ Finset.range (J + 1), 1 / (1 + s * sourceGap m i)
      = (1 / (m : ℝ)) / (1 / (m : ℝ) + s) := by
  rw [← pmh2_first_hit_is_exponential m hm hs]
  congr 1
  refine Finset.sum_congr rfl (fun J hJ => Finset.prod_congr rfl (fun i hi => ?_))
  have hJ' := Finset.mem_range.mp hJ
  have hi' := Finset.mem_range.mp hi
  cases i with
  | zero => rfl
  | succ i => simp only [sourceGap]; rw [GenEq.pmh2Beta_eq (by omega)]

/-- **C01 (c)** the race of independent exponential clocks: item with rate `a` beats the rest (total rate `b`)
with probability `a/(a+b)` — for a single weighted set, position holds `d` with probability `w_d/Σw` -/
theorem race_winner {a b : ℝ} (ha : 0 < a) (hb : 0 ≤ b) :
    ∫ t in Set.Ioi (0 : ℝ), a * Real.exp (-(a + b) * t) = a / (a + b) :=
  race_winner_integral ha hb


/-! ### the signature is the consistent sample; equal weights: exactly unbiased -/
section Sample
open PMH.Race PMH.P3 PMH.C02 PMH.PmhColl
variable {K G : Type} [Field K] [LinearOrder K] [IsStrictOrderedRing K]

/-- **C01 (d)** ProbMinHash3/3a/3aSha: position `p` of the signature holds the item whose first hit of `p`
(value `sc3` = first-hit time / weight) is the earliest — for any history over the weighted set `A` -/
theorem pmh3_position_holds_earliest [Inhabited K] (top : K) (init m : ℕ) (t : TSrc K G) (hn : P3.Nice t m) (gen : ℕ → G)
    (okW : K → Bool) (fuel : ℕ) (ops : List (Op K)) (hgood : GoodOps okW ops) (s : PMH3 K G)
    (e : runNew t gen okW fuel top m init ops = .ok s) (A : Finset (ℕ × K)) (hA : A.Nonempty) (hpairs : pairs ops = ↑A)
    (hhit : ∀ d ∈ A, HitsAll t m d.1 d.2 (gen d.1)) (p : ℕ) (hp : p < m) (htop : ∀ d ∈ A, sc3 t gen d p < top)
    (hinj : Set.InjOn (fun d => sc3 t gen d p) ↑A) :
    s.sig.getD p init = (CS.argmin (fun d => sc3 t gen d p) A).1 :=
  pmh3_sig_is_argmin top init m t hn gen okW fuel ops hgood s e A hA hpairs hhit p hp htop hinj

/-- **C01 (e)** two weighted sets (each with its own weights) collide at `p` iff the same item is earliest in both -/
theorem pmh3_collision_iff_same_earliest [Inhabited K] (top : K) (init m : ℕ) (t : TSrc K G) (hn : P3.Nice t m) (gen : ℕ → G)
    (okW : K → Bool) (fa fb : ℕ) (opsA opsB : List (Op K)) (hga : GoodOps okW opsA) (hgb : GoodOps okW opsB) (a b : PMH3 K G)
    (ea : runNew t gen okW fa top m init opsA = .ok a) (eb : runNew t gen okW fb top m init opsB = .ok b)
    (A B : Finset (ℕ × K)) (hA : A.Nonempty) (hB : B.Nonempty) (hpa : pairs opsA = ↑A) (hpb : pairs opsB = ↑B)
    (hhit : ∀ d ∈ A ∪ B, HitsAll t m d.1 d.2 (gen d.1)) (p : ℕ) (hp : p < m) (htop : ∀ d ∈ A ∪ B, sc3 t gen d p < top)
    (hinjA : Set.InjOn (fun d => sc3 t gen d p) ↑A) (hinjB : Set.InjOn (fun d => sc3 t gen d p) ↑B) :
    a.sig.getD p init = b.sig.getD p init ↔
      (CS.argmin (fun d => sc3 t gen d p) A).1 = (CS.argmin (fun d => sc3 t gen d p) B).1 :=
  pmh3_collision_iff top init m t hn gen okW fa fb opsA opsB hga hgb a b ea eb A B hA hB hpa hpb hhit p hp htop hinjA hinjB

/-- **C01 (f)** equal weights: for every finite relabelling-closed family Ω of tie-free generator assignments,
`#{ω | sigA[p] = sigB[p]} · |A ∪ B| = |A ∩ B| · #Ω`: the collision probability is exactly the Jaccard index
(= J_P for equal weights), every `m ≥ 2`, every position (variants 3, 3a, 3aSha) -/
theorem pmh3_equal_weights_unbiased {ι : Type} [Fintype ι] [DecidableEq ι] [Inhabited ι] (top : K) (init m : ℕ)
    (t : TSrc K G) (hn : P3.Nice t m) (okW : K → Bool) (idOf : ι → ℕ) (hid : Function.Injective idOf) (w : K) (hw : 0 < w)
    (hok : okW w = true) (Ω : Finset (ι → G)) (hΩ : CS.PermClosed Ω) (p : ℕ) (hp : p < m)
    (hhit : ∀ r ∈ Ω, ∀ d, HitsAll t m (idOf d) w (r d))
    (hinj : ∀ r ∈ Ω, Function.Injective (fun d => firstHitVal t w (r d) p))
    (htop : ∀ r ∈ Ω, ∀ d, firstHitVal t w (r d) p < top)
    {A B : Finset ι} (hA : A.Nonempty) (hB : B.Nonempty) (hAB : A ∪ B = Finset.univ)
    (fa fb : (ι → G) → ℕ) (opsA opsB : (ι → G) → List (Op K))
    (hpa : ∀ r ∈ Ω, pairs (opsA r) = ↑(A.image (fun d => (idOf d, w))))
    (hpb : ∀ r ∈ Ω, pairs (opsB r) = ↑(B.image (fun d => (idOf d, w))))
    (a b : (ι → G) → PMH3 K G)
    (ea : ∀ r ∈ Ω, runNew t (genOf idOf r) okW (fa r) top m init (opsA r) = .ok (a r))
    (eb : ∀ r ∈ Ω, runNew t (genOf idOf r) okW (fb r) top m init (opsB r) = .ok (b r)) :
    (Ω.filter (fun r => (a r).sig.getD p init = (b r).sig.getD p init)).card * (A ∪ B).card = (A ∩ B).card * Ω.card :=
  pmh3_equal_weights_collision_count top init m t hn okW idOf hid w hw hok Ω hΩ p hp hhit hinj htop hA hB hAB fa fb opsA opsB hpa hpb a b ea eb

/-- **C01 (g)** single set, equal weights: every position holds each item for exactly `#Ω / n` assignments (`w_d/Σw = 1/n`) -/
theorem pmh3_equal_weights_single_set_law {ι : Type} [Fintype ι] [DecidableEq ι] [Inhabited ι] (top : K) (init m : ℕ)
    (t : TSrc K G) (hn : P3.Nice t m) (okW : K → Bool) (idOf : ι → ℕ) (hid : Function.Injective idOf) (w : K) (hw : 0 < w)
    (hok : okW w = true) (Ω : Finset (ι → G)) (hΩ : CS.PermClosed Ω) (p : ℕ) (hp : p < m)
    (hhit : ∀ r ∈ Ω, ∀ d, HitsAll t m (idOf d) w (r d))
    (hinj : ∀ r ∈ Ω, Function.Injective (fun d => firstHitVal t w (r d) p))
    (htop : ∀ r ∈ Ω, ∀ d, firstHitVal t w (r d) p < top)
    (fa : (ι → G) → ℕ) (opsA : (ι → G) → List (Op K))
    (hpa : ∀ r ∈ Ω, pairs (opsA r) = ↑((Finset.univ : Finset ι).image (fun d => (idOf d, w))))
    (a : (ι → G) → PMH3 K G)
    (ea : ∀ r ∈ Ω, runNew t (genOf idOf r) okW (fa r) top m init (opsA r) = .ok (a r)) (d : ι) :
    (Ω.filter (fun r => (a r).sig.getD p init = idOf d)).card * Fintype.card ι = Ω.card :=
  pmh3_equal_weights_position_law top init m t hn okW idOf hid w hw hok Ω hΩ p hp hhit hinj htop fa opsA hpa a ea d

/-- **C01 (h)** the same exact unbiasedness for ProbMinHash2 (an item's m points cover every position exactly once) -/
theorem pmh2_equal_weights_unbiased {ι : Type} [Fintype ι] [DecidableEq ι] [Inhabited ι] (top : K) (init m : ℕ) (hm : 1 ≤ m)
    (t : P2.TSrc2 K G) (offsetOf : K → ℕ → ℕ) (unif : UInt64 → K) (hn : P2.Nice2 t offsetOf unif)
    (idOf : ι → ℕ) (hid : Function.Injective idOf) (w : K) (hw : 0 < w)
    (Ω : Finset (ι → G)) (hΩ : CS.PermClosed Ω) (p : ℕ) (hp : p < m)
    (hinj : ∀ r ∈ Ω, Function.Injective (fun d => val2 t offsetOf unif m w (r d) p))
    (htop : ∀ r ∈ Ω, ∀ d, val2 t offsetOf unif m w (r d) p < top)
    {A B : Finset ι} (hA : A.Nonempty) (hB : B.Nonempty) (hAB : A ∪ B = Finset.univ)
    (itemsA itemsB : (ι → G) → List (ℕ × K))
    (hsa : ∀ r ∈ Ω, ∀ x, x ∈ itemsA r ↔ x ∈ A.image (fun d => (idOf d, w)))
    (hsb : ∀ r ∈ Ω, ∀ x, x ∈ itemsB r ↔ x ∈ B.image (fun d => (idOf d, w)))
    (a b : (ι → G) → PMH2 K)
    (ea : ∀ r ∈ Ω, run2 t (genOf idOf r) offsetOf unif (PMH2.new top m init) (itemsA r) = .ok (a r))
    (eb : ∀ r ∈ Ω, run2 t (genOf idOf r) offsetOf unif (PMH2.new top m init) (itemsB r) = .ok (b r)) :
    (Ω.filter (fun r => (a r).sig.getD p init = (b r).sig.getD p init)).card * (A ∪ B).card = (A ∩ B).card * Ω.card :=
  pmh2_equal_weights_collision_count top init m hm t offsetOf unif hn idOf hid w hw Ω hΩ p hp hinj htop hA hB hAB
    itemsA itemsB hsa hsb a b ea eb
end Sample


/-! ### unequal weights: P(collision) = J_P  (measure theory; `Proofs/JpLaw.lean`)

`x d` = first-hit time of the position by item `d` after dividing out the common rate — by (a)/(b) above an
Exp(1) variable; items have independent streams (ideal hashing), so `x ~ μ ι = ⨂_d Exp(1)`.  Position `p` of
the sketch of the weighted set `w` holds the item minimising `x d / w d` ((d) above); the SAME `x` serves
both sets. -/
section JP
open MeasureTheory PMH.JpLaw
variable {ι : Type} [Fintype ι] [DecidableEq ι]

/-- **C01 (i)** single weighted set: a position holds item `d` with probability `w_d / Σ w` -/
theorem position_holds_item_with_probability {w : ι → ℝ} (hw : ∀ e, 0 ≤ w e) {d : ι} (hd : 0 < w d) :
    μ ι {x | winner w x d} = ENNReal.ofReal (w d / ∑ e, w e) := single_set_law hw hd

/-- **C01 (j)** two weighted sets: the probability that the same item wins in both — a collision at the
position — is the probability-Jaccard index `J_P = Σ_d 1 / Σ_e max(wA e / wA d, wB e / wB d)` -/
theorem collision_probability_is_JP {wA wB : ι → ℝ} (hA : ∀ e, 0 ≤ wA e) (hB : ∀ e, 0 ≤ wB e) :
    μ ι {x | ∃ d, winner wA x d ∧ winner wB x d} = ENNReal.ofReal (JP wA wB) := collision_law hA hB

/-- the same with the `CS.argmin` of (d)/(e) — ties have probability 0 -/
theorem collision_probability_is_JP_argmin [Inhabited ι] {wA wB : ι → ℝ} (hA : ∀ e, 0 ≤ wA e) (hB : ∀ e, 0 ≤ wB e)
    (hneA : (supp wA).Nonempty) (hneB : (supp wB).Nonempty) :
    μ ι {x | CS.argmin (fun d => x d / wA d) (supp wA) = CS.argmin (fun d => x d / wB d) (supp wB)}
      = ENNReal.ofReal (JP wA wB) := collision_law_argmin hA hB hneA hneB

open Classical in
/-- **C01 (k)** the sentence of the property: the expected FRACTION of equal signature positions is `J_P`
(each position's first-hit vector has law `μ ι`; nothing is assumed about dependence ACROSS positions) -/
theorem expected_fraction_is_JP {Ω : Type} [MeasurableSpace Ω] (P : Measure Ω) [IsProbabilityMeasure P]
    {m : ℕ} (hm : 0 < m) (X : Fin m → Ω → ι → ℝ) (hX : ∀ p, Measurable (X p))
    (hlaw : ∀ p, P.map (X p) = μ ι) {wA wB : ι → ℝ} (hA : ∀ e, 0 ≤ wA e) (hB : ∀ e, 0 ≤ wB e) :
    ∫ ω, ((Finset.univ.filter fun p => ∃ d, winner wA (X p ω) d ∧ winner wB (X p ω) d).card : ℝ) / m ∂P
      = JP wA wB := expected_fraction P hm X hX hlaw hA hB

/-- sanity: `J_P(w,w) = 1`; for 0/1 weights `J_P` is the Jaccard index; `0 ≤ J_P ≤ 1`; an unequal example -/
theorem JP_facts : (∀ (w : ι → ℝ), (∀ e, 0 ≤ w e) → 0 < ∑ e, w e → JP w w = 1) ∧
    (∀ A B : Finset ι, JP (fun e => if e ∈ A then (1:ℝ) else 0) (fun e => if e ∈ B then (1:ℝ) else 0)
      = ((A ∩ B).card : ℝ) / ((A ∪ B).card : ℝ)) ∧
    (∀ wA wB : ι → ℝ, (∀ e, 0 ≤ wA e) → (∀ e, 0 ≤ wB e) → 0 ≤ JP wA wB ∧ JP wA wB ≤ 1) :=
  ⟨fun _ hw hp => JP_self hw hp, JP_indicator, fun _ _ hA hB => ⟨JP_nonneg hA, JP_le_one hA hB⟩⟩
example : JP (ι := Fin 2) ![1, 2] ![2, 1] = 2 / 3 := JP_example
end JP


/-! ### the MSE clause, reduced to one named assumption (`Proofs/MseLaw.lean`)

`MSE ≤ J_P(1−J_P)/m` holds as soon as the collision events of two different positions are non-positively
correlated (Ertl 2020 proves this for ProbMinHash; it is the ONLY part of C01 not mechanised); with
independent positions it is an equality; without the assumption it can fail (`mse_needs_the_assumption`). -/
section MSE
open MeasureTheory ProbabilityTheory PMH.MseLaw

open Classical in
theorem mse_bound_of_nonpositive_correlation {Ω : Type*} [MeasurableSpace Ω] (P : Measure Ω) [IsProbabilityMeasure P]
    {m : ℕ} (hm : 0 < m) (C : Fin m → Set Ω) (hC : ∀ k, MeasurableSet (C k)) (p : ℝ)
    (H1 : ∀ k, P.real (C k) = p)
    (H2 : ∀ k k', k ≠ k' → cov[(C k).indicator (1 : Ω → ℝ), (C k').indicator (1 : Ω → ℝ); P] ≤ 0) :
    ∫ ω, (((Finset.univ.filter fun k => ω ∈ C k).card : ℝ) / m - p) ^ 2 ∂P ≤ p * (1 - p) / m :=
  mse_le_measure_cov P hm C hC p H1 H2

theorem mse_needs_the_assumption :
    (∀ _k : Fin 2, E (Finset.univ : Finset Bool) (fun ω => (ind (ω = true) : ℚ)) = 1 / 2) ∧
    E (Finset.univ : Finset Bool) (fun ω => (ind (ω = true) : ℚ) * ind (ω = true)) = 1 / 2 ∧
    E (Finset.univ : Finset Bool)
      (fun ω => ((∑ _k : Fin 2, (ind (ω = true) : ℚ)) / (2 : ℕ) - 1 / 2) ^ 2) = 1 / 4 ∧
    ¬ E (Finset.univ : Finset Bool)
      (fun ω => ((∑ _k : Fin 2, (ind (ω = true) : ℚ)) / (2 : ℕ) - 1 / 2) ^ 2)
        ≤ (1 / 2 : ℚ) * (1 - 1 / 2) / (2 : ℕ) := mse_counterexample
end MSE

end PMH.C01

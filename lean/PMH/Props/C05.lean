import PMH.Props.C04
/-!
# C05 — the sketch of a union is the position-wise join; SetSketch merge is exact

* SuperMinHash: the sketch of a set is the position-wise **minimum** of the sketches of its single items.
* SetSketch: the registers are the position-wise **maximum**; `merge` computes exactly the sketch of the
  union, is commutative / associative / idempotent on registers, may be followed by further streaming
  (the invariant `lower_k ≤ every register` survives a merge), is refused — no state is produced — on a
  parameter mismatch, and the reported lowest register never exceeds the true minimum.
-/
namespace PMH.C05
open PMH PMH.Race

section SMH
open PMH.SMHP
variable {K G : Type} [Field K] [LinearOrder K] [IsStrictOrderedRing K] [FloorSemiring K]

/-- **C05 (SuperMinHash)**: position-wise, the sketch of the items `gs` is the minimum of the singleton sketches -/
theorem smh_union_is_min (t : SMHP.TOps K G) (hn : SMHP.Nice t) (large : K) (m : Nat) (hl : (m : K) ≤ large)
    (gs : List G) (hne : gs ≠ []) (s0 s : SMH K) (h0 : SMH.new t.toOps large m = .ok s0)
    (e : C04.smhRun t s0 gs = .ok s) (single : G → SMH K)
    (hsingle : ∀ g ∈ gs, C04.smhRun t s0 [g] = .ok (single g)) :
    ∀ k, k < m → (∀ g ∈ gs, s.hsketch.getD k large ≤ (single g).hsketch.getD k large) ∧
      ∃ g ∈ gs, s.hsketch.getD k large = (single g).hsketch.getD k large := by
  obtain ⟨_, sp⟩ := C04.smh_run_spec t hn large m hl gs s0 s h0 e
  have hs : ∀ g ∈ {g | g ∈ gs}, Spec m large () (SMHP.itemPts t m g) (SMHP.view large (single g)) := by
    intro g hg
    obtain ⟨_, sp1⟩ := C04.smh_run_spec t hn large m hl [g] s0 (single g) h0 (hsingle g hg)
    refine spec_congr sp1 ?_
    ext p; simp [listPts]
  obtain ⟨g0, hg0⟩ := List.exists_mem_of_ne_nil gs hne
  exact spec_family_min (SMHP.itemPts t m) (fun g => SMHP.view large (single g)) (SMHP.view large s) {g | g ∈ gs}
    ⟨g0, hg0⟩ sp hs
end SMH

section SSK
open PMH.SSKP
variable {F G : Type}

/-- **C05 (SetSketch, union = max)**: the registers of the sketch of `gs` are the position-wise maximum of the singleton sketches -/
theorem ssk_union_is_max (t : SSKP.TOps F G) (hn : SSKP.Nice t) (b : Float) (m : Nat) (a : Float) (q imax : Nat) (lnb : Float)
    (gs : List G) (hne : gs ≠ []) (s : SSK) (e : C04.sskRun t (SSK.new b m a q imax lnb) gs = .ok s) (single : G → SSK)
    (hsingle : ∀ g ∈ gs, C04.sskRun t (SSK.new b m a q imax lnb) [g] = .ok (single g)) :
    ∀ k, k < m → (∀ g ∈ gs, (single g).kvec.getD k 0 ≤ s.kvec.getD k 0) ∧
      ∃ g ∈ gs, s.kvec.getD k 0 = (single g).kvec.getD k 0 := by
  obtain ⟨wf, sp⟩ := C04.ssk_run_spec t hn b m a q imax lnb gs s e
  have hs : ∀ g ∈ {g | g ∈ gs}, Spec m (OrderDual.toDual 0) () (SSKP.itemPts t m imax g) (SSKP.view (single g)) := by
    intro g hg
    obtain ⟨_, sp1⟩ := C04.ssk_run_spec t hn b m a q imax lnb [g] (single g) (hsingle g hg)
    refine spec_congr sp1 ?_
    ext p; simp [listPts]
  have hwfs : ∀ g ∈ gs, (single g).m = m := fun g hg => (C04.ssk_run_spec t hn b m a q imax lnb [g] (single g) (hsingle g hg)).1.hm
  obtain ⟨g0, hg0⟩ := List.exists_mem_of_ne_nil gs hne
  intro k hk
  obtain ⟨h1, g, hg, h2⟩ := spec_family_min (SSKP.itemPts t m imax) (fun g => SSKP.view (single g)) (SSKP.view s) {g | g ∈ gs}
    ⟨g0, hg0⟩ sp hs k hk
  refine ⟨fun g hg => ?_, g, hg, ?_⟩
  · have := h1 g hg
    simp only [SSKP.view, wf.hm, hwfs g hg, hk, if_true] at this
    exact OrderDual.toDual_le_toDual.mp this
  · simp only [SSKP.view, wf.hm, hwfs g hg, hk, if_true] at h2
    exact OrderDual.toDual_inj.mp h2

/-- **C05 (merge is exact)**: merging `SetSketch(B)` into `SetSketch(A)` yields a well-formed sketcher whose
registers satisfy the specification for `A ∪ B` — hence equal those of sketching the union directly, and
further streaming after the merge is covered by `C04.ssk_run_spec`/`SSKP.sketch_spec` again. -/
theorem merge_is_union (m imax : Nat) (s o s' u : SSK) (P Q : Set (Pt ℕᵒᵈ Unit))
    (hs : SSKP.WF m imax s) (ho : SSKP.WF m imax o) (hu : SSKP.WF m imax u)
    (sps : Spec m (OrderDual.toDual 0) () P (SSKP.view s)) (spo : Spec m (OrderDual.toDual 0) () Q (SSKP.view o))
    (spu : Spec m (OrderDual.toDual 0) () (P ∪ Q) (SSKP.view u)) (e : s.merge o = .ok s') :
    SSKP.WF m imax s' ∧ ∀ k, k < m → s'.kvec.getD k 0 = u.kvec.getD k 0 := by
  obtain ⟨wf', sp'⟩ := SSKP.merge_spec P Q hs ho sps spo e
  refine ⟨wf', fun k hk => ?_⟩
  have := spec_unique_reg sp' spu k hk
  simp only [SSKP.view, wf'.hm, hu.hm, hk, if_true] at this
  exact OrderDual.toDual_inj.mp this

/-- registers after a merge: the position-wise maximum; bookkeeping untouched -/
theorem merge_registers (s o s' : SSK) (e : s.merge o = .ok s') :
    s'.kvec.size = s.kvec.size ∧ (∀ k, k < s.kvec.size → s'.kvec.getD k 0 = max (s.kvec.getD k 0) (o.kvec.getD k 0)) ∧
    s'.lowerK = s.lowerK := by
  obtain ⟨a, b, _, _, c, _⟩ := SSKP.merge_regs e
  exact ⟨a, b, c⟩

/-- hence merge is commutative, associative and idempotent on registers (max is) -/
theorem merge_comm_regs (s o a b : SSK) (hsz : s.kvec.size = o.kvec.size) (e1 : s.merge o = .ok a) (e2 : o.merge s = .ok b) :
    ∀ k, k < s.kvec.size → a.kvec.getD k 0 = b.kvec.getD k 0 := by
  intro k hk
  rw [(merge_registers s o a e1).2.1 k hk, (merge_registers o s b e2).2.1 k (by omega), max_comm]

theorem merge_idem_regs (s a : SSK) (e : s.merge s = .ok a) : ∀ k, k < s.kvec.size → a.kvec.getD k 0 = s.kvec.getD k 0 := by
  intro k hk; rw [(merge_registers s s a e).2.1 k hk, max_self]

theorem merge_assoc_regs (x y z xy yz l r : SSK) (h1 : x.kvec.size = y.kvec.size) (h2 : y.kvec.size = z.kvec.size)
    (e1 : x.merge y = .ok xy) (e2 : xy.merge z = .ok l) (e3 : y.merge z = .ok yz) (e4 : x.merge yz = .ok r) :
    ∀ k, k < x.kvec.size → l.kvec.getD k 0 = r.kvec.getD k 0 := by
  intro k hk
  have a1 := merge_registers x y xy e1
  have a2 := merge_registers xy z l e2
  have a3 := merge_registers y z yz e3
  have a4 := merge_registers x yz r e4
  rw [a2.2.1 k (by omega), a1.2.1 k hk, a4.2.1 k hk, a3.2.1 k (by omega), max_assoc]

/-- a merge between sketchers with different parameters is refused: it returns an error, i.e. no new
state — the receiver is left as it was — exactly when `m`, `q` differ or `a`/`b` differ by ≥ 2^-52 relatively -/
theorem merge_refused_iff (s o : SSK) :
    ((∃ e, s.merge o = .error e) ↔ s.m ≠ o.m ∨ s.q ≠ o.q ∨ SSKP.fmismatch s o = true) :=
  (SSKP.merge_refused_unchanged s o).1

/-- the reported lowest register never exceeds the true minimum register -/
theorem low_sketch_le_min (m imax : Nat) (s : SSK) (h : SSKP.WF m imax s) (hm : 1 ≤ m) :
    s.lowerK ≤ SSK.minReg s.kvec ∧ ∀ k, k < m → s.lowerK ≤ s.kvec.getD k 0 :=
  ⟨SSKP.lowerK_le_minReg h hm, fun k hk => SSKP.lowerK_le_min h k hk⟩
end SSK

end PMH.C05

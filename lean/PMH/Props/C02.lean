import PMH.Proofs.PMH3
import PMH.Proofs.PMH2
import Mathlib.Tactic.FieldSimp
import Mathlib.Tactic.Ring
/-!
# C02 — a ProbMinHash signature is a function of the weighted set alone (variants 3, 3a, 3aSha)

Model: `PMH.PMH3` (`Model/ProbMinHash3.lean`) — `hashItem` transcribes `ProbMinHash3::hash_item`,
`hashBatch` the two-pass `ProbMinHash3a(Sha)::hash_weigthed_{idx,hash}map`.  Exact arithmetic: `K` is
any ordered field; an item's private generator is `gen id` (the code: Xoshiro256++ seeded with the
item's hash / Sha digest) and is *total* and *nice* (`0 ≤ x < 1`, `k < m`) — `Nice`.
All statements are for histories that returned (`run … = ok`; the loops take fuel).

The refinement theorem `run_spec` says the final registers/identities satisfy the `Race`
specification for the set of **all points of all pairs mentioned** — a function of the *set* of
`(item, weight)` pairs.  Everything else is a corollary.
-/
namespace PMH.C02
open PMH PMH.Race PMH.P3 PMH.C15
variable {K G : Type} [Field K] [LinearOrder K] [IsStrictOrderedRing K]

/-- one call on the sketcher: `hash_item` (variant 3) or one batch (variants 3a) -/
inductive Op (K : Type) where
  | item (id : Nat) (w : K)
  | batch (items : List (Nat × K))

def opPairs : Op K → Set (Nat × K)
  | .item id w => {(id, w)}
  | .batch items => {d | d ∈ items}

/-- the weighted pairs a history mentions -/
def pairs : List (Op K) → Set (Nat × K)
  | [] => ∅
  | op :: ops => opPairs op ∪ pairs ops

def applyOp (t : TSrc K G) (gen : Nat → G) (okW : K → Bool) (fuel : Nat) (s : PMH3 K G) : Op K → Except Err (PMH3 K G)
  | .item id w => s.hashItem t.toSrc fuel id w (gen id)
  | .batch items => s.hashBatch t.toSrc okW fuel (items.map (fun d => (d.1, d.2, gen d.1)))

def run (t : TSrc K G) (gen : Nat → G) (okW : K → Bool) (fuel : Nat) : PMH3 K G → List (Op K) → Except Err (PMH3 K G)
  | s, [] => .ok s
  | s, op :: ops =>
    match applyOp t gen okW fuel s op with
    | .ok s' => run t gen okW fuel s' ops
    | .error e => .error e

/-- all points of a weighted set: the union of its items' streams -/
def setPts (t : TSrc K G) (gen : Nat → G) (S : Set (Nat × K)) : Set (Pt K Nat) :=
  {p | ∃ d ∈ S, p ∈ itemPts t d.1 d.2 (gen d.1)}

/-- weights of a history are positive and accepted by the batch entry point's check -/
def GoodOps (okW : K → Bool) (ops : List (Op K)) : Prop := ∀ d ∈ pairs ops, 0 < d.2 ∧ okW d.2 = true

theorem setPts_union (t : TSrc K G) (gen : Nat → G) (A B : Set (Nat × K)) :
    setPts t gen (A ∪ B) = setPts t gen A ∪ setPts t gen B := by
  ext p; simp only [setPts, Set.mem_setOf_eq, Set.mem_union]
  constructor
  · rintro ⟨d, hd | hd, hp⟩
    · exact Or.inl ⟨d, hd, hp⟩
    · exact Or.inr ⟨d, hd, hp⟩
  · rintro (⟨d, hd, hp⟩ | ⟨d, hd, hp⟩)
    · exact ⟨d, Or.inl hd, hp⟩
    · exact ⟨d, Or.inr hd, hp⟩

theorem setPts_single (t : TSrc K G) (gen : Nat → G) (id : Nat) (w : K) :
    setPts t gen {(id, w)} = itemPts t id w (gen id) := by
  ext p; simp [setPts]

theorem AllPts_map (t : TSrc K G) (gen : Nat → G) (items : List (Nat × K)) :
    AllPts t (items.map (fun d => (d.1, d.2, gen d.1))) = setPts t gen {d | d ∈ items} := by
  ext p; simp only [AllPts, setPts, Set.mem_setOf_eq, List.mem_map]
  constructor
  · rintro ⟨it, ⟨d, hd, rfl⟩, hp⟩; exact ⟨d, hd, hp⟩
  · rintro ⟨d, hd, hp⟩; exact ⟨_, ⟨d, hd, rfl⟩, hp⟩

theorem new_spec (top : K) (init m : Nat) (s0 : PMH3 K G) (h : PMH3.new top m init = .ok s0) :
    2 ≤ m ∧ WF top m s0 ∧ Spec m top init ∅ (view top init s0) ∧ s0.tbp.toList = [] := by
  unfold PMH3.new at h
  split at h
  · simp at h
  · rename_i hm
    injection h with h; subst h
    have hm2 : 2 ≤ m := by omega
    refine ⟨hm2, ⟨rfl, new_good top m (by omega), by simp⟩, ?_, by simp⟩
    refine ⟨fun _ hp => absurd hp (Set.notMem_empty _), fun k hk => Or.inl ⟨?_, ?_⟩⟩
    · have : MT.vw top (Tracker.new top m).vals k = top := by
        unfold MT.vw Tracker.new
        simp only [Array.getD_eq_getD_getElem?, Array.getElem?_replicate]; split <;> simp
      simp [view, hk, this]
    · simp [view, Array.getD_eq_getD_getElem?, Array.getElem?_replicate, hk]

/-- **C02 refinement theorem.** Any history of item-wise calls and batches, in any order, with any
repetition: if it returned, the final state is well-formed, nothing is pending, and registers and
identities satisfy the specification for the points of the *set* of mentioned pairs. -/
theorem run_spec (top : K) (init m : Nat) (hm : 1 ≤ m) (t : TSrc K G) (hn : Nice t m) (gen : Nat → G)
    (okW : K → Bool) (fuel : Nat) :
    ∀ (ops : List (Op K)) (s s' : PMH3 K G) (S : Set (Nat × K)), GoodOps okW ops →
      WF top m s → s.tbp.toList = [] → Spec m top init (setPts t gen S) (view top init s) →
      run t gen okW fuel s ops = .ok s' →
      WF top m s' ∧ s'.tbp.toList = [] ∧ Spec m top init (setPts t gen (S ∪ pairs ops)) (view top init s') := by
  intro ops
  induction ops with
  | nil =>
    intro s s' S _ hwf htb hs e
    simp only [run] at e; injection e with e; subst e
    exact ⟨hwf, htb, by simpa [pairs] using hs⟩
  | cons op ops ih =>
    intro s s' S hgood hwf htb hs e
    simp only [run] at e
    have hgood' : GoodOps okW ops := fun d hd => hgood d (Or.inr hd)
    cases h1 : applyOp t gen okW fuel s op with
    | error er => rw [h1] at e; simp at e
    | ok s1 =>
      rw [h1] at e
      dsimp only at e
      have step : WF top m s1 ∧ s1.tbp.toList = [] ∧ Spec m top init (setPts t gen (S ∪ opPairs op)) (view top init s1) := by
        cases op with
        | item id w =>
          have hw := (hgood (id, w) (Or.inl rfl)).1
          obtain ⟨a, b, c⟩ := hashItem_spec top init m hm t hn fuel s s1 id w hw (gen id) _ hwf hs h1
          exact ⟨a, by rw [c]; exact htb, by rw [setPts_union, opPairs, setPts_single]; exact b⟩
        | batch items =>
          obtain ⟨a, b, c⟩ := hashBatch_spec top init m hm t hn okW fuel s s1 _ _ hwf htb (by
            intro it hit
            obtain ⟨d, hd, rfl⟩ := List.mem_map.mp hit
            have := hgood d (Or.inl hd)
            exact ⟨this.2, this.1⟩) hs h1
          exact ⟨a, c, by rw [setPts_union, opPairs, ← AllPts_map]; exact b⟩
      obtain ⟨a, b, c⟩ := ih s1 s' (S ∪ opPairs op) hgood' step.1 step.2.1 step.2.2 e
      exact ⟨a, b, by rw [pairs, ← Set.union_assoc]; exact c⟩

/-- a full history from a fresh sketcher -/
def runNew (t : TSrc K G) (gen : Nat → G) (okW : K → Bool) (fuel : Nat) (top : K) (m init : Nat) (ops : List (Op K)) :
    Except Err (PMH3 K G) :=
  match PMH3.new top m init with
  | .ok s0 => run t gen okW fuel s0 ops
  | .error e => .error e

theorem runNew_spec (top : K) (init m : Nat) (t : TSrc K G) (hn : Nice t m) (gen : Nat → G) (okW : K → Bool) (fuel : Nat)
    (ops : List (Op K)) (hgood : GoodOps okW ops) (s : PMH3 K G) (e : runNew t gen okW fuel top m init ops = .ok s) :
    WF top m s ∧ Spec m top init (setPts t gen (pairs ops)) (view top init s) := by
  unfold runNew at e
  cases h0 : (PMH3.new top m init : Except Err (PMH3 K G)) with
  | error er => rw [h0] at e; simp at e
  | ok s0 =>
    rw [h0] at e
    obtain ⟨hm2, wf0, sp0, tb0⟩ := new_spec top init m s0 h0
    have hs0 : Spec m top init (setPts t gen ∅) (view top init s0) := by
      have : setPts t gen (∅ : Set (Nat × K)) = ∅ := by ext p; simp [setPts]
      rw [this]; exact sp0
    obtain ⟨a, _, c⟩ := run_spec top init m (by omega) t hn gen okW fuel ops s0 s ∅ hgood wf0 tb0 hs0 e
    exact ⟨a, by simpa using c⟩

/-- the signature as the code returns it (`get_signature`) agrees with the view -/
theorem sig_eq_of_view (top : K) (init m : Nat) (s s' : PMH3 K G) (h : WF top m s) (h' : WF top m s')
    (hv : ∀ k, k < m → (view top init s).tag k = (view top init s').tag k) : s.sig = s'.sig := by
  apply Array.ext
  · rw [h.2.2, h'.2.2]
  · intro i hi hi'
    have := hv i (by rw [← h.2.2]; exact hi)
    simpa [view, Array.getD_eq_getD_getElem?, hi, hi'] using this

/-- **C02 (a): function of the weighted set.**  Two histories — any insertion orders, any entry
points (item-wise / batches, one batch or several), any repetition of pairs, variant 3 or 3a — that
mention the same *set* of `(item, weight)` pairs end with identical registers; and with identical
signatures unless two different items tie exactly on a position. -/
theorem signature_function_of_set (top : K) (init m : Nat) (t : TSrc K G) (hn : Nice t m) (gen : Nat → G)
    (okW : K → Bool) (fuel fuel' : Nat) (ops ops' : List (Op K)) (hg : GoodOps okW ops) (hg' : GoodOps okW ops')
    (hset : pairs ops = pairs ops') (s s' : PMH3 K G)
    (e : runNew t gen okW fuel top m init ops = .ok s) (e' : runNew t gen okW fuel' top m init ops' = .ok s') :
    (∀ k, k < m → (view top init s).reg k = (view top init s').reg k) ∧
    (TieFree (setPts t gen (pairs ops)) → s.sig = s'.sig) := by
  obtain ⟨wf, sp⟩ := runNew_spec top init m t hn gen okW fuel ops hg s e
  obtain ⟨wf', sp'⟩ := runNew_spec top init m t hn gen okW fuel' ops' hg' s' e'
  rw [← hset] at sp'
  exact ⟨spec_unique_reg sp sp', fun htf => sig_eq_of_view top init m s s' wf wf' (spec_unique_tag htf sp sp')⟩

theorem pairs_map_item (items : List (Nat × K)) :
    pairs (items.map (fun d => Op.item (K := K) d.1 d.2)) = {d | d ∈ items} := by
  induction items with
  | nil => simp [pairs]
  | cons d ds ih =>
    simp only [List.map_cons, pairs, opPairs, ih]
    ext x; simp

theorem pairs_append_item (ops : List (Op K)) (d : Nat × K) :
    pairs (ops ++ [Op.item d.1 d.2]) = pairs ops ∪ {d} := by
  induction ops with
  | nil => simp [pairs, opPairs]
  | cons o os ih => simp only [List.cons_append, pairs, ih, Set.union_assoc]

/-- **C02 (b): ProbMinHash3 = ProbMinHash3a** — item-wise streaming of a list vs one batch of it -/
theorem pmh3_eq_pmh3a (top : K) (init m : Nat) (t : TSrc K G) (hn : Nice t m) (gen : Nat → G)
    (okW : K → Bool) (fuel fuel' : Nat) (items : List (Nat × K)) (hw : ∀ d ∈ items, 0 < d.2 ∧ okW d.2 = true)
    (s s' : PMH3 K G)
    (e : runNew t gen okW fuel top m init (items.map (fun d => Op.item d.1 d.2)) = .ok s)
    (e' : runNew t gen okW fuel' top m init [Op.batch items] = .ok s') :
    (∀ k, k < m → (view top init s).reg k = (view top init s').reg k) ∧
    (TieFree (setPts t gen {d | d ∈ items}) → s.sig = s'.sig) := by
  have hp : pairs (items.map (fun d => Op.item (K := K) d.1 d.2)) = {d | d ∈ items} := pairs_map_item items
  have hp' : pairs [Op.batch items] = {d | d ∈ items} := by simp [pairs, opPairs]
  have := signature_function_of_set top init m t hn gen okW fuel fuel' _ _ (by rw [GoodOps, hp]; exact hw)
    (by rw [GoodOps, hp']; exact hw) (hp.trans hp'.symm) s s' e e'
  rw [hp] at this; exact this

/-- **C02 (c): inserting an already inserted pair again changes nothing** -/
theorem reinsert_idempotent (top : K) (init m : Nat) (t : TSrc K G) (hn : Nice t m) (gen : Nat → G)
    (okW : K → Bool) (fuel fuel' : Nat) (ops : List (Op K)) (hg : GoodOps okW ops) (d : Nat × K) (hd : d ∈ pairs ops)
    (s s' : PMH3 K G)
    (e : runNew t gen okW fuel top m init ops = .ok s)
    (e' : runNew t gen okW fuel' top m init (ops ++ [Op.item d.1 d.2]) = .ok s') :
    (∀ k, k < m → (view top init s).reg k = (view top init s').reg k) ∧
    (TieFree (setPts t gen (pairs ops)) → s.sig = s'.sig) := by
  have hp : pairs (ops ++ [Op.item d.1 d.2]) = pairs ops := by
    rw [pairs_append_item]
    ext x; simp only [Set.mem_union, Set.mem_singleton_iff]
    constructor
    · rintro (h | h)
      · exact h
      · subst h; exact hd
    · exact Or.inl
  exact signature_function_of_set top init m t hn gen okW fuel fuel' _ _ hg (by rw [GoodOps, hp]; exact hg) hp.symm s s' e e'

/-- **C02 (d): no placeholder, no foreign item.**  A position on which some inserted item has a point
below the register ceiling (`top` = `f64::MAX`: race values did not overflow) holds an inserted item. -/
theorem holds_inserted_item (top : K) (init m : Nat) (t : TSrc K G) (hn : Nice t m) (gen : Nat → G)
    (okW : K → Bool) (fuel : Nat) (ops : List (Op K)) (hg : GoodOps okW ops) (s : PMH3 K G)
    (e : runNew t gen okW fuel top m init ops = .ok s) (k : Nat) (hk : k < m)
    (hex : ∃ p ∈ setPts t gen (pairs ops), p.pos = k ∧ p.val < top) :
    ∃ d ∈ pairs ops, s.sig.getD k init = d.1 := by
  obtain ⟨_, sp⟩ := runNew_spec top init m t hn gen okW fuel ops hg s e
  obtain ⟨_, pt, hpt, _, htag⟩ := spec_populated sp k hk hex
  obtain ⟨d, hd, ⟨j, rfl⟩⟩ := hpt
  refine ⟨d, hd, ?_⟩
  rw [ptFrom_tag] at htag
  exact htag.symm

/-- **C02 (e): union.**  If `A` and `B` give their common items the same weight (so that the pairs
of the union are the union of the pairs), every position of the signature of the union equals that
position in the signature of `A` or of `B` (and its register is the smaller of the two). -/
theorem union_position (top : K) (init m : Nat) (t : TSrc K G) (hn : Nice t m) (gen : Nat → G)
    (okW : K → Bool) (fa fb fu : Nat) (opsA opsB opsU : List (Op K))
    (hga : GoodOps okW opsA) (hgb : GoodOps okW opsB) (hgu : GoodOps okW opsU)
    (hU : pairs opsU = pairs opsA ∪ pairs opsB)
    (htf : TieFree (setPts t gen (pairs opsU)))
    (a b u : PMH3 K G)
    (ea : runNew t gen okW fa top m init opsA = .ok a) (eb : runNew t gen okW fb top m init opsB = .ok b)
    (eu : runNew t gen okW fu top m init opsU = .ok u) :
    ∀ k, k < m → (u.sig.getD k init = a.sig.getD k init ∨ u.sig.getD k init = b.sig.getD k init) ∧
      (view top init u).reg k = min ((view top init a).reg k) ((view top init b).reg k) := by
  obtain ⟨_, spa⟩ := runNew_spec top init m t hn gen okW fa opsA hga a ea
  obtain ⟨_, spb⟩ := runNew_spec top init m t hn gen okW fb opsB hgb b eb
  obtain ⟨_, spu⟩ := runNew_spec top init m t hn gen okW fu opsU hgu u eu
  rw [hU, setPts_union] at spu htf
  intro k hk
  refine ⟨?_, spec_union spa spb spu k hk⟩
  rcases spec_union_tag htf spa spb spu k hk with h | h
  · exact Or.inl h.1
  · exact Or.inr h.1


/-! ### scaling all weights by a common factor -/

def scalePt (c : K) (p : Pt K Nat) : Pt K Nat := ⟨p.pos, p.val / c, p.tag⟩

theorem ptFrom_scale (t : TSrc K G) (c : K) (hc : c ≠ 0) (winv : K) (id : Nat) :
    ∀ (j : Nat) (h : K) (i : Nat) (g : G),
      ptFrom t (winv / c) id (h / c) i g j = scalePt c (ptFrom t winv id h i g j) := by
  intro j
  induction j with
  | zero => intro h i g; rfl
  | succ j ih =>
    intro h i g
    simp only [ptFrom]
    rw [← ih]
    congr 1
    field_simp

theorem itemPts_scale (t : TSrc K G) (c : K) (hc : 0 < c) (id : Nat) (w : K) (hw : 0 < w) (g0 : G) :
    itemPts t id (c * w) g0 = scalePt c '' itemPts t id w g0 := by
  have hc' : c ≠ 0 := ne_of_gt hc
  have hw' : w ≠ 0 := ne_of_gt hw
  have e1 : 1 / (c * w) = (1 / w) / c := by field_simp
  have e2 : 1 / (c * w) * (t.fx g0).1 = (1 / w * (t.fx g0).1) / c := by field_simp
  unfold itemPts
  rw [e2, e1]
  ext p; constructor
  · rintro ⟨j, rfl⟩
    exact ⟨_, ⟨j, rfl⟩, (ptFrom_scale t c hc' (1 / w) id j _ 1 _).symm⟩
  · rintro ⟨_, ⟨j, rfl⟩, rfl⟩
    exact ⟨j, ptFrom_scale t c hc' (1 / w) id j _ 1 _⟩

/-- **C02 (f): multiplying all weights by the same factor `c > 0`** (in IEEE arithmetic: a power of two,
where the scaling is exact) leaves every populated position of the signature unchanged. -/
theorem scale_invariant (top : K) (init m : Nat) (t : TSrc K G) (hn : Nice t m) (gen : Nat → G)
    (okW : K → Bool) (fuel fuel' : Nat) (c : K) (hc : 0 < c) (ops ops' : List (Op K))
    (hg : GoodOps okW ops) (hg' : GoodOps okW ops')
    (hset : pairs ops' = (fun d => (d.1, c * d.2)) '' pairs ops)
    (htf : TieFree (setPts t gen (pairs ops))) (s s' : PMH3 K G)
    (e : runNew t gen okW fuel top m init ops = .ok s) (e' : runNew t gen okW fuel' top m init ops' = .ok s')
    (k : Nat) (hk : k < m) (hpop : (view top init s).reg k < top) (hpop' : (view top init s').reg k < top) :
    s.sig.getD k init = s'.sig.getD k init := by
  obtain ⟨_, sp⟩ := runNew_spec top init m t hn gen okW fuel ops hg s e
  obtain ⟨_, sp'⟩ := runNew_spec top init m t hn gen okW fuel' ops' hg' s' e'
  have hP' : setPts t gen (pairs ops') = scalePt c '' setPts t gen (pairs ops) := by
    rw [hset]
    ext p; constructor
    · rintro ⟨d', ⟨d, hd, rfl⟩, hp⟩
      dsimp only at hp
      rw [itemPts_scale t c hc d.1 d.2 (hg d hd).1] at hp
      obtain ⟨q, hq, rfl⟩ := hp
      exact ⟨q, ⟨d, hd, hq⟩, rfl⟩
    · rintro ⟨q, ⟨d, hd, hq⟩, rfl⟩
      refine ⟨(d.1, c * d.2), ⟨d, hd, rfl⟩, ?_⟩
      dsimp only
      rw [itemPts_scale t c hc d.1 d.2 (hg d hd).1]
      exact ⟨q, hq, rfl⟩
  rw [hP'] at sp'
  obtain ⟨pt, hpt, p1, p2, p3⟩ := spec_tag_mem sp k hk hpop
  obtain ⟨_, ⟨q, hq, rfl⟩, q1, q2, q3⟩ := spec_tag_mem sp' k hk hpop'
  have h1 : (view top init s').reg k ≤ pt.val / c := by
    have := sp'.1 (scalePt c pt) ⟨pt, hpt, rfl⟩
    simpa [scalePt, p1] using this
  have h2 : (view top init s).reg k ≤ q.val := by
    have := sp.1 q hq
    have hqk : q.pos = k := q1
    rw [hqk] at this; exact this
  have hle : q.val ≤ pt.val := by
    have : q.val / c ≤ pt.val / c := by
      have hq3 : q.val / c = (view top init s').reg k := q3
      rw [hq3]; exact h1
    exact (div_le_div_iff_of_pos_right hc).mp this
  have heq : pt.val = q.val := le_antisymm (by rw [p3]; exact h2) hle
  have htag := htf pt hpt q hq (by rw [p1]; exact q1.symm) heq
  have : (view top init s).tag k = (view top init s').tag k := by
    rw [← p2, ← q2]; exact htag
  simpa [view] using this


/-! ### variant 2 (`ProbMinHash2`): every entry point is a sequence of `hash_item` calls -/
section V2
open PMH.P2

def run2 (t : TSrc2 K G) (gen : Nat → G) (offsetOf : K → Nat → Nat) (unif : UInt64 → K) :
    PMH2 K → List (Nat × K) → Except Err (PMH2 K)
  | s, [] => .ok s
  | s, d :: ds =>
    match s.hashItem t.toSrc offsetOf unif d.1 d.2 (gen d.1) with
    | .ok s' => run2 t gen offsetOf unif s' ds
    | .error e => .error e

def setPts2 (t : TSrc2 K G) (gen : Nat → G) (offsetOf : K → Nat → Nat) (unif : UInt64 → K) (m : Nat) (S : Set (Nat × K)) :
    Set (Pt K Nat) := {p | ∃ d ∈ S, p ∈ P2.itemPts t offsetOf unif m d.1 d.2 (gen d.1)}

theorem run2_spec (top : K) (init m : Nat) (hm : 1 ≤ m) (t : TSrc2 K G) (offsetOf : K → Nat → Nat) (unif : UInt64 → K)
    (hn : Nice2 t offsetOf unif) (gen : Nat → G) :
    ∀ (items : List (Nat × K)) (s s' : PMH2 K) (S : Set (Nat × K)), (∀ d ∈ items, 0 < d.2) →
      P2.WF top m s → s.betas = betasOf m → Spec m top init (setPts2 t gen offsetOf unif m S) (P2.view top init s) →
      run2 t gen offsetOf unif s items = .ok s' →
      P2.WF top m s' ∧ s'.betas = betasOf m ∧
        Spec m top init (setPts2 t gen offsetOf unif m (S ∪ {d | d ∈ items})) (P2.view top init s') := by
  intro items
  induction items with
  | nil =>
    intro s s' S _ hwf hb hs e
    simp only [run2] at e; injection e with e; subst e
    exact ⟨hwf, hb, by simpa using hs⟩
  | cons d ds ih =>
    intro s s' S hpos hwf hb hs e
    simp only [run2] at e
    cases h1 : s.hashItem t.toSrc offsetOf unif d.1 d.2 (gen d.1) with
    | error er => rw [h1] at e; simp at e
    | ok s1 =>
      rw [h1] at e
      dsimp only at e
      obtain ⟨a, b, c⟩ := P2.hashItem_spec top init m hm t offsetOf unif hn s s1 d.1 d.2 (hpos d List.mem_cons_self) (gen d.1) _ hwf hb hs h1
      have c' : Spec m top init (setPts2 t gen offsetOf unif m (S ∪ {d})) (P2.view top init s1) := by
        refine spec_congr c ?_
        ext p; simp only [setPts2, Set.mem_union, Set.mem_setOf_eq, Set.mem_singleton_iff]
        constructor
        · rintro (⟨x, hx, hp⟩ | hp)
          · exact ⟨x, Or.inl hx, hp⟩
          · exact ⟨d, Or.inr rfl, hp⟩
        · rintro ⟨x, hx | hx, hp⟩
          · exact Or.inl ⟨x, hx, hp⟩
          · subst hx; exact Or.inr hp
      obtain ⟨a2, b2, c2⟩ := ih s1 s' (S ∪ {d}) (fun x hx => hpos x (List.mem_cons_of_mem _ hx)) a b c' e
      refine ⟨a2, b2, spec_congr c2 ?_⟩
      congr 1
      ext x; simp only [Set.mem_union, Set.mem_singleton_iff, Set.mem_setOf_eq, List.mem_cons]
      tauto

/-- **C02 for variant 2**: two insertion sequences (any order, any repetition; `hash_item`,
`hash_wset` and `hash_weigthed_hashmap` are all such sequences) over the same set of pairs end with
identical registers, and identical signatures unless two different items tie exactly on a position. -/
theorem pmh2_function_of_set (top : K) (init m : Nat) (hm : 1 ≤ m) (t : TSrc2 K G) (offsetOf : K → Nat → Nat)
    (unif : UInt64 → K) (hn : Nice2 t offsetOf unif) (gen : Nat → G) (items items' : List (Nat × K))
    (hpos : ∀ d ∈ items, 0 < d.2) (hpos' : ∀ d ∈ items', 0 < d.2) (hset : ∀ d, d ∈ items ↔ d ∈ items')
    (s s' : PMH2 K)
    (e : run2 t gen offsetOf unif (PMH2.new top m init) items = .ok s)
    (e' : run2 t gen offsetOf unif (PMH2.new top m init) items' = .ok s') :
    (∀ k, k < m → (P2.view top init s).reg k = (P2.view top init s').reg k) ∧
    (TieFree (setPts2 t gen offsetOf unif m {d | d ∈ items}) → s.sig = s'.sig) := by
  obtain ⟨wf0, sp0, hb0⟩ := P2.new_wf (K := K) top init m hm
  have hs0 : Spec m top init (setPts2 t gen offsetOf unif m ∅) (P2.view top init (PMH2.new top m init : PMH2 K)) := by
    have : setPts2 t gen offsetOf unif m (∅ : Set (Nat × K)) = ∅ := by ext p; simp [setPts2]
    rw [this]; exact sp0
  obtain ⟨wf, _, sp⟩ := run2_spec top init m hm t offsetOf unif hn gen items _ s ∅ hpos wf0 hb0 hs0 e
  obtain ⟨wf', _, sp'⟩ := run2_spec top init m hm t offsetOf unif hn gen items' _ s' ∅ hpos' wf0 hb0 hs0 e'
  have hS : (∅ ∪ {d | d ∈ items'} : Set (Nat × K)) = ∅ ∪ {d | d ∈ items} := by
    ext d; simp [hset d]
  rw [hS] at sp'
  simp only [Set.empty_union] at sp sp'
  refine ⟨spec_unique_reg sp sp', fun htf => ?_⟩
  have htag := spec_unique_tag htf sp sp'
  apply Array.ext
  · rw [wf.2.2.1, wf'.2.2.1]
  · intro i hi hi'
    have := htag i (by rw [← wf.2.2.1]; exact hi)
    simpa [P2.view, Array.getD_eq_getD_getElem?, hi, hi'] using this

/-- variant 2 never leaves the placeholder on a position that one of the items reaches below `top` -/
theorem pmh2_holds_inserted_item (top : K) (init m : Nat) (hm : 1 ≤ m) (t : TSrc2 K G) (offsetOf : K → Nat → Nat)
    (unif : UInt64 → K) (hn : Nice2 t offsetOf unif) (gen : Nat → G) (items : List (Nat × K))
    (hpos : ∀ d ∈ items, 0 < d.2) (s : PMH2 K)
    (e : run2 t gen offsetOf unif (PMH2.new top m init) items = .ok s) (k : Nat) (hk : k < m)
    (hex : ∃ p ∈ setPts2 t gen offsetOf unif m {d | d ∈ items}, p.pos = k ∧ p.val < top) :
    ∃ p ∈ setPts2 t gen offsetOf unif m {d | d ∈ items}, p.pos = k ∧ p.tag = s.sig.getD k init := by
  obtain ⟨wf0, sp0, hb0⟩ := P2.new_wf (K := K) top init m hm
  have hs0 : Spec m top init (setPts2 t gen offsetOf unif m ∅) (P2.view top init (PMH2.new top m init : PMH2 K)) := by
    have : setPts2 t gen offsetOf unif m (∅ : Set (Nat × K)) = ∅ := by ext p; simp [setPts2]
    rw [this]; exact sp0
  obtain ⟨_, _, sp⟩ := run2_spec top init m hm t offsetOf unif hn gen items _ s ∅ hpos wf0 hb0 hs0 e
  simp only [Set.empty_union] at sp
  obtain ⟨_, pt, hpt, h1, h2⟩ := spec_populated sp k hk hex
  exact ⟨pt, hpt, h1, h2⟩
end V2

/-! ### non-vacuity: a concrete generator over ℚ, a 3-item weighted set, m = 4 -/
section NonVacuity
/-- draws `x = 1/2` always and walks through the positions -/
def tq : TSrc ℚ Nat := ⟨fun g => ((1 : ℚ) / 2, g + 1), fun g => (g / 2 % 4, g + 1)⟩
example : Nice tq 4 := ⟨fun g => by simp [tq]; norm_num, fun g => by simp [tq]; omega⟩
def opsQ : List (Op ℚ) := [Op.item 1 2, Op.batch [(2, 1), (3, 5)]]
example : GoodOps (fun _ => true) opsQ := by
  intro d hd
  simp only [opsQ, pairs, opPairs, Set.mem_union, Set.mem_singleton_iff, Set.mem_setOf_eq, List.mem_cons,
    List.not_mem_nil, or_false, Set.mem_empty_iff_false] at hd
  rcases hd with rfl | rfl | rfl <;> norm_num
/-- the history returns; item 3 (weight 5) wins three positions, item 1 one, item 2 is pruned everywhere -/
example : (match runNew tq (fun id => 6 * id) (fun _ => true) 100 (1000 : ℚ) 4 99 opsQ with
    | .ok s => s.sig.toList | .error _ => []) = [3, 3, 3, 1] := by decide +kernel
/-- the same set, items in another order and all item-wise: same signature -/
example : (match runNew tq (fun id => 6 * id) (fun _ => true) 100 (1000 : ℚ) 4 99
      [Op.item 3 5, Op.item 2 1, Op.item 1 2, Op.item 2 1] with
    | .ok s => s.sig.toList | .error _ => []) = [3, 3, 3, 1] := by decide +kernel
end NonVacuity

end PMH.C02

import PMH.Proofs.RealAnalysis
/-!
# C16 — the truncated-exponential sampler: range, exact acceptance region, target density

Model: `PMH.Exp01` (`Model/Exp01.lean`), transcription of `ExpRestricted01::{new, sample}`, generic in the
scalar and in the source of uniform draws; here instantiated at `ℝ` (`RA.realOps`).  The probabilistic
reading (a uniform point in a region has an abscissa with density ∝ the region's height — one Fubini
step) is not mechanised; what is proved is everything that depends on the code: every returned value is
in `[0,1)` for every λ > 0 and every input stream, the two cheap acceptance tests are sound w.r.t. the
exact one, and the mixture of the two branches has exactly the density `λ e^{-λx}/(1-e^{-λ})`.
-/
namespace PMH.C16
open PMH PMH.RA

/-- **C16 (a)** every sample lies in `[0,1)`: all rates λ > 0, all generator outputs in `[0,1)` -/
theorem sample_in_unit_interval {G : Type} (lam : ℝ) (hl : 0 < lam) (next : G → ℝ × G)
    (hnext : ∀ g, 0 ≤ (next g).1 ∧ (next g).1 < 1) (g : G) (x : ℝ) (g' : G)
    (h : Exp01.sample realOps (Exp01.new realOps lam) next g = .ok (x, g')) : 0 ≤ x ∧ x < 1 :=
  sample_range lam hl next hnext g x g' h

/-- **C16 (b)** the constants: `c1 = (e^λ-1)/λ > 1`, `0 < c2 < 1`, `0 < c3 < 1` -/
theorem constants (lam : ℝ) (hl : 0 < lam) :
    0 < (Exp01.new realOps lam).c1 ∧ 1 ≤ (Exp01.new realOps lam).c1 ∧ 0 < (Exp01.new realOps lam).c2 ∧
    (Exp01.new realOps lam).c2 < 1 ∧ 0 < (Exp01.new realOps lam).c3 ∧ (Exp01.new realOps lam).c3 < 1 :=
  constants_pos lam hl

/-- **C16 (c)** the two cheap tests imply the exact test `y·c1·λ ≤ e^{λ(1-x)} - 1`: tangents of
`T(x) = (e^{λ(1-x)}-1)/(e^λ-1)` at `x = 0` and at `x = 1` lie below the convex curve -/
theorem squeeze_tests_sound (lam x y : ℝ) (hl : 0 < lam) :
    (x ≤ (Exp01.new realOps lam).c3 * (1 - y) → y * (Exp01.new realOps lam).c1 * lam ≤ Real.exp (lam * (1 - x)) - 1) ∧
    ((Exp01.new realOps lam).c1 * y ≤ 1 - x → y * (Exp01.new realOps lam).c1 * lam ≤ Real.exp (lam * (1 - x)) - 1) :=
  ⟨squeeze_sound_c3 lam x y hl, squeeze_sound_c1 lam x y hl⟩

/-- **C16 (d)** mixture density: first branch (mass `1/c1`, uniform) + rejection branch (density `T/∫T`)
= `λ e^{-λx} / (1 - e^{-λ})`, the density of the exponential law of rate λ conditioned on `[0,1)`;
its primitive is the distribution function `(1 - e^{-λx})/(1 - e^{-λ})` of the property. -/
theorem density_identity (lam x : ℝ) (hl : 0 < lam) :
    1 / (Exp01.new realOps lam).c1 * 1 + (1 - 1 / (Exp01.new realOps lam).c1) * (T lam x / I lam)
      = lam * Real.exp (-lam * x) / (1 - Real.exp (-lam)) :=
  mixture_density lam x hl

/-- the normalising constant of the rejection branch is the integral of `T` -/
theorem rejection_mass (lam : ℝ) (hl : 0 < lam) : ∫ x in (0:ℝ)..1, T lam x = I lam := integral_T lam hl

/-! non-vacuity: a concrete stream for λ = ln 2 (m = 2) -/
example : (0 : ℝ) < Real.log 2 := Real.log_pos (by norm_num)

end PMH.C16

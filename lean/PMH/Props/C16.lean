import PMH.Proofs.RealAnalysis
import PMH.Proofs.Exp01Law
import PMH.Proofs.GenEq
/-!
# C16 — the truncated-exponential sampler: range, exact acceptance region, target density

Model: `PMH.Exp01` (`Model/Exp01.lean`), transcription of `ExpRestricted01::{new, sample}`, generic in the
scalar and in the source of uniform draws; here instantiated at `ℝ` (`RA.realOps`).  Proved: every
returned value is in `[0,1)` for every λ > 0 and every input stream; the two cheap acceptance tests are
sound w.r.t. the exact one; the mixture of the two branches has exactly the density
`λ e^{-λx}/(1-e^{-λ})`; and (`Proofs/Exp01Law.lean`) the LAW of the model itself: fed with i.i.d. uniform
draws on any probability space, `P(sample < x) = (1-e^{-λx})/(1-e^{-λ}) − δ` with the fuel defect
`0 ≤ δ ≤ q^10000`, `q = 1 − 2∫T < 1` the rejection probability of one candidate (the loop of the code is
bounded by 10000 attempts, so the defect is the probability that all of them are rejected).
-/
namespace PMH.C16
open PMH PMH.RA

/-- **C16 (a)** every sample lies in `[0,1)`: all rates λ > 0, all generator outputs in `[0,1)` -/
theorem sample_in_unit_interval {G : Type} (lam : ℝ) (hl : 0 < lam) (next : G → ℝ × G)
    (hnext : ∀ g, 0 ≤ (next g).1 ∧ (next g).1 < 1) (g : G) (x : ℝ) (g' : G)
    (h : Exp01.sample realOps (Exp01.new realOps lam) next g = .ok (x, g')) : 0 ≤ x ∧ x < 1 :=
  sample_range lam hl next hnext g x g' h

/-- **C16 (b)** the constants: `c1 = (e^λ-1)/λ > 1`, `0 < c2 < 1`, `0 < c3 < 1` -/
theorem constants (lam : ℝ) (hl : 0 < lam) :
    0 < (Exp01.new realOps lam).c1 ∧ 1 ≤ (Exp01.new realOps lam).c1 ∧ 0 < (Exp01.new realOps lam).c2 ∧
    (Exp01.new realOps lam).c2 < 1 ∧ 0 < (Exp01.new realOps lam).c3 ∧ (Exp01.new realOps lam).c3 < 1 :=
  constants_pos lam hl

/-- **C16 (c)** the two cheap tests imply the exact test `y·c1·λ ≤ e^{λ(1-x)} - 1`: tangents of
`T(x) = (e^{λ(1-x)}-1)/(e^λ-1)` at `x = 0` and at `x = 1` lie below the convex curve -/
theorem squeeze_tests_sound (lam x y : ℝ) (hl : 0 < lam) :
    (x ≤ (Exp01.new realOps lam).c3 * (1 - y) → y * (Exp01.new realOps lam).c1 * lam ≤ Real.exp (lam * (1 - x)) - 1) ∧
    ((Exp01.new realOps lam).c1 * y ≤ 1 - x → y * (Exp01.new realOps lam).c1 * lam ≤ Real.exp (lam * (1 - x)) - 1) :=
  ⟨squeeze_sound_c3 lam x y hl, squeeze_sound_c1 lam x y hl⟩

/-- **C16 (d)** mixture density: first branch (mass `1/c1`, uniform) + rejection branch (density `T/∫T`)
= `λ e^{-λx} / (1 - e^{-λ})`, the density of the exponential law of rate λ conditioned on `[0,1)`;
its primitive is the distribution function `(1 - e^{-λx})/(1 - e^{-λ})` of the property. -/
theorem density_identity (lam x : ℝ) (hl : 0 < lam) :
    1 / (Exp01.new realOps lam).c1 * 1 + (1 - 1 / (Exp01.new realOps lam).c1) * (T lam x / I lam)
      = lam * Real.exp (-lam * x) / (1 - Real.exp (-lam)) :=
  mixture_density lam x hl

/-- the normalising constant of the rejection branch is the integral of `T` -/
theorem rejection_mass (lam : ℝ) (hl : 0 < lam) : ∫ x in (0:ℝ)..1, T lam x = I lam := integral_T lam hl

/-! non-vacuity: a concrete stream for λ = ln 2 (m = 2) -/
example : (0 : ℝ) < Real.log 2 := Real.log_pos (by norm_num)


/-! ### the law of the sampler (measure theory; `Proofs/Exp01Law.lean`) -/
section Law
open MeasureTheory ProbabilityTheory Set PMH.Exp01Law

/-- **C16 (e)** the three acceptance tests of the code, in the order it evaluates them, accept exactly the
points under the curve `T` -/
theorem acceptance_is_under_curve {lam : ℝ} (hl : 0 < lam) (x y : ℝ) : accept lam x y ↔ y ≤ T lam x :=
  accept_iff hl x y

/-- **C16 (f)** the Fubini step: the accepted candidates with abscissa in `A` have Lebesgue measure `∫_A T` -/
theorem accepted_region_measure {lam : ℝ} (hl : 0 < lam) {A : Set ℝ} (hA : MeasurableSet A) (hA01 : A ⊆ Ico 0 1) :
    volume {q : ℝ × ℝ | q.1 ∈ A ∧ 0 ≤ q.2 ∧ q.2 < 1 ∧ accept lam q.1 q.2} = ENNReal.ofReal (∫ x in A, T lam x) :=
  volume_accept hl hA hA01

/-- **C16 (g)** LAW OF THE MODEL: on any probability space with i.i.d. uniform `[0,1)` draws `U 0, U 1, …`,
the probability that `Exp01.sample` returns a value in `A ⊆ [0,1)` is `∫_A densN λ 10000`, where
`densN λ n x = 1/c1 + (1−1/c1)(1−q^n) T(x)/I` tends to `λe^{−λx}/(1−e^{−λ})` (`densN_tendsto`). -/
theorem sample_law {lam : ℝ} (hl : 0 < lam) {A : Set ℝ} (hA : MeasurableSet A) (hA01 : A ⊆ Ico 0 1)
    {Ω : Type*} [MeasurableSpace Ω] (μ : Measure Ω) [IsProbabilityMeasure μ]
    (U : ℕ → Ω → ℝ) (hU : ∀ i, Measurable (U i)) (hind : iIndepFun U μ)
    (hunif : ∀ i, μ.map (U i) = volume.restrict (Ico (0:ℝ) 1)) :
    μ {ω | ∃ x ∈ A, ∃ g', Exp01.sample realOps (Exp01.new realOps lam) (nextN fun i => U i ω) 0 = .ok (x, g')} =
      ENNReal.ofReal (∫ x in A, densN lam 10000 x) :=
  sample_law_iid hl hA hA01 μ U hU hind hunif

/-- **C16 (h)** DISTRIBUTION FUNCTION of the property, for the model with its 10000-attempt bound:
`P(sample < x) = (1−e^{−λx})/(1−e^{−λ}) − δ`, `δ = (1−1/c1)·q^10000·J[0,x)` -/
theorem sample_distribution_function {lam : ℝ} (hl : 0 < lam) {x : ℝ} (hx0 : 0 ≤ x) (hx1 : x ≤ 1)
    {Ω : Type*} [MeasurableSpace Ω] (μ : Measure Ω) [IsProbabilityMeasure μ]
    (U : ℕ → Ω → ℝ) (hU : ∀ i, Measurable (U i)) (hind : iIndepFun U μ)
    (hunif : ∀ i, μ.map (U i) = volume.restrict (Ico (0:ℝ) 1)) :
    μ {ω | ∃ y ∈ Ico (0:ℝ) x, ∃ g', Exp01.sample realOps (Exp01.new realOps lam) (nextN fun i => U i ω) 0 = .ok (y, g')} =
      ENNReal.ofReal ((1 - Real.exp (-lam * x)) / (1 - Real.exp (-lam)) -
        (1 - 1 / (par lam).c1) * q lam ^ 10000 * J lam (Ico 0 x)) :=
  sample_cdf_iid hl hx0 hx1 μ U hU hind hunif

/-- the fuel defect is between 0 and `q^10000`, and `0 ≤ q < 1` -/
theorem fuel_defect_bounds {lam : ℝ} (hl : 0 < lam) {x : ℝ} (hx0 : 0 ≤ x) (hx1 : x ≤ 1) :
    0 ≤ (1 - 1 / (par lam).c1) * q lam ^ 10000 * J lam (Ico 0 x) ∧
    (1 - 1 / (par lam).c1) * q lam ^ 10000 * J lam (Ico 0 x) ≤ q lam ^ 10000 ∧ 0 ≤ q lam ∧ q lam < 1 :=
  ⟨(sample_cdf hl hx0 hx1 20000 le_rfl).2.1, (sample_cdf hl hx0 hx1 20000 le_rfl).2.2, q_nonneg hl, q_lt_one hl⟩

/-- without the attempt bound the limit is exactly the distribution function of the property -/
theorem distribution_function_limit {lam : ℝ} (hl : 0 < lam) {x : ℝ} (hx0 : 0 ≤ x) (hx1 : x ≤ 1) :
    Filter.Tendsto (fun n => ∫ t in Ico (0:ℝ) x, densN lam n t) Filter.atTop
      (nhds ((1 - Real.exp (-lam * x)) / (1 - Real.exp (-lam)))) := cdf_tendsto hl hx0 hx1

/-- non-vacuity: an i.i.d. uniform sequence exists (coordinates of the infinite product measure) -/
theorem iid_uniform_draws_exist :
    ∃ (Ω : Type) (_ : MeasurableSpace Ω) (μ : Measure Ω) (_ : IsProbabilityMeasure μ)
      (U : ℕ → Ω → ℝ), (∀ i, Measurable (U i)) ∧ iIndepFun U μ ∧
        ∀ i, μ.map (U i) = volume.restrict (Ico (0:ℝ) 1) := iid_uniform_exists
end Law


/-! ### the same statements for the definitions GENERATED from `src/exp01.rs` on every check
(`Model/Exp01Gen.lean`, `tools/translate_float.py`); the equalities of `Proofs/GenEq.lean` are re-proved on every run -/
section Source
open MeasureTheory ProbabilityTheory Set PMH.Exp01Law

/-- the generated constants and sampler compute the same functions as the transcription -/
theorem source_eq_model {G : Type} (lam : ℝ) (next : G → ℝ × G) (g : G) :
    Gen.exp01Sample realOps (Gen.exp01New realOps lam) next g = Exp01.sample realOps (Exp01.new realOps lam) next g := by
  rw [GenEq.exp01New_eq, GenEq.exp01Sample_eq]

/-- **C16 (a), source** every sample lies in `[0,1)` -/
theorem source_sample_in_unit_interval {G : Type} (lam : ℝ) (hl : 0 < lam) (next : G → ℝ × G)
    (hnext : ∀ g, 0 ≤ (next g).1 ∧ (next g).1 < 1) (g : G) (x : ℝ) (g' : G)
    (h : Gen.exp01Sample realOps (Gen.exp01New realOps lam) next g = .ok (x, g')) : 0 ≤ x ∧ x < 1 := by
  rw [source_eq_model] at h; exact sample_in_unit_interval lam hl next hnext g x g' h

/-- **C16 (h), source** distribution function of the generated sampler under i.i.d. uniform draws -/
theorem source_sample_distribution_function {lam : ℝ} (hl : 0 < lam) {x : ℝ} (hx0 : 0 ≤ x) (hx1 : x ≤ 1)
    {Ω : Type*} [MeasurableSpace Ω] (μ : Measure Ω) [IsProbabilityMeasure μ]
    (U : ℕ → Ω → ℝ) (hU : ∀ i, Measurable (U i)) (hind : iIndepFun U μ)
    (hunif : ∀ i, μ.map (U i) = volume.restrict (Ico (0:ℝ) 1)) :
    μ {ω | ∃ y ∈ Ico (0:ℝ) x, ∃ g', Gen.exp01Sample realOps (Gen.exp01New realOps lam) (nextN fun i => U i ω) 0 = .ok (y, g')} =
      ENNReal.ofReal ((1 - Real.exp (-lam * x)) / (1 - Real.exp (-lam)) -
        (1 - 1 / (par lam).c1) * q lam ^ 10000 * J lam (Ico 0 x)) := by
  simp only [source_eq_model]
  exact sample_distribution_function hl hx0 hx1 μ U hU hind hunif
end Source

end PMH.C16

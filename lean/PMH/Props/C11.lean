import PMH.Proofs.OrdMH
/-!
# C11 — ProbOrdMinHash2 selects per position independently of sequence order

Model: `PMH.OrdMH` (`Model/OrdMinHash.lean`): `hash_set` up to the sorted index blocks (the WyHash combiner of
`create_signature` is external: the signature of a position is a fixed function of the list of element
hashes spelled by its sorted index block).  After the fix of F6 the model (and the code) no longer leaves
an element's loop at the first slot that rejects its value.
-/
namespace PMH.C11
open PMH PMH.OrdP
variable {K G : Type} [Field K] [LinearOrder K] [IsStrictOrderedRing K]

/-- **C11 (a)** refinement: for every slot, the stored block is the `l` smallest `(value, index)` pairs among ALL
points of all elements landing on the slot (ties by arrival), the loops never fail, and the final index
block is its sorted list of indices, all valid positions of the sequence. -/
theorem block_is_l_smallest (top : K) (m l : Nat) (hm : 1 ≤ m) (hl : 1 ≤ l) (t : OrdP.TOps K G) (hn : OrdP.Nice t)
    (s : OrdMH K) (hp : Params m l s) (hs : List UInt64) (r : OrdMH K) (hr : OrdMH.hashSet t.toOps top s hs = .ok r)
    (k : Nat) (hk : k < m) :
    finalBlock r k = OrdMH.sortBlock ((lSmallest top l (allPts t m s.g s.seed hs k)).map (·.2)) ∧
    (finalBlock r k).Pairwise (· ≤ ·) ∧ (∀ ix ∈ finalBlock r k, ix < hs.length) := by
  obtain ⟨s', _, _, hb, _, _, _, hfb, hix⟩ := hashSet_spec top m l hm hl t hn s hp hs r hr
  have hbs := hb k hk
  unfold BlockSpec at hbs
  refine ⟨by rw [hfb k hk, hbs], (sorted_indices top m l hm hl t hn s hp hs r hr k hk).1, hix k hk⟩

/-- **C11 (b)** every signature position is the combined hash of `l` elements taken in sequence order: the index
block is sorted increasingly and has exactly `l` entries -/
theorem spelled_in_sequence_order (top : K) (m l : Nat) (hm : 1 ≤ m) (hl : 1 ≤ l) (t : OrdP.TOps K G) (hn : OrdP.Nice t)
    (s : OrdMH K) (hp : Params m l s) (hs : List UInt64) (r : OrdMH K) (hr : OrdMH.hashSet t.toOps top s hs = .ok r)
    (k : Nat) (hk : k < m) : (finalBlock r k).Pairwise (· ≤ ·) ∧ (finalBlock r k).length = l := by
  obtain ⟨_, _, _, _, _, _, hrl, _, _⟩ := hashSet_spec top m l hm hl t hn s hp hs r hr
  exact ⟨(sorted_indices top m l hm hl t hn s hp hs r hr k hk).1, by rw [finalBlock_length, hrl]⟩

/-- **C11 (c)** which `(element, occurrence)` pairs are selected for a position depends only on the multiset of
elements: for two orders of the same sequence the selected labels form the same multiset at every position -/
theorem selection_order_free (top : K) (m l : Nat) (hm : 1 ≤ m) (hl : 1 ≤ l) (t : OrdP.TOps K G) (hn : OrdP.Nice t)
    (s : OrdMH K) (hp : Params m l s) (hs hs' : List UInt64) (hperm : hs.Perm hs') (hlen64 : hs.length ≤ OrdMH.u64Max)
    (htf : TieFree t m s.g s.seed hs) (r r' : OrdMH K)
    (hr : OrdMH.hashSet t.toOps top s hs = .ok r) (hr' : OrdMH.hashSet t.toOps top s hs' = .ok r') (k : Nat) (hk : k < m) :
    (selLabels hs r k).Perm (selLabels hs' r' k) :=
  OrdP.selection_order_free top m l hm hl t hn s hp hs hs' hperm hlen64 htf r r' hr hr' k hk

/-- **C11 (d)** `l = 1`: the selected element of every position — hence the signature — is invariant under every
permutation of the sequence -/
theorem l1_signature_permutation_invariant (top : K) (m : Nat) (hm : 1 ≤ m) (t : OrdP.TOps K G) (hn : OrdP.Nice t)
    (s : OrdMH K) (hp : Params m 1 s) (hs hs' : List UInt64) (hperm : hs.Perm hs') (hlen64 : hs.length ≤ OrdMH.u64Max)
    (htf : TieFree t m s.g s.seed hs) (r r' : OrdMH K)
    (hr : OrdMH.hashSet t.toOps top s hs = .ok r) (hr' : OrdMH.hashSet t.toOps top s hs' = .ok r') (k : Nat) (hk : k < m) :
    (finalBlock r k).map (fun i => hs[i]?) = (finalBlock r' k).map (fun i => hs'[i]?) :=
  l1_selected_hash_invariant top m hm t hn s hp hs hs' hperm hlen64 htf r r' hr hr' k hk

/-- **C11 (e)** any number of earlier `hash_set` calls on the same instance is irrelevant (self-clearing): the
result depends on the instance only through `(m, l, g, seed)` -/
theorem earlier_calls_irrelevant {F : Type} [Add F] [Mul F] [Div F] [LT F] [DecidableLT F] [NatCast F]
    (o : OrdOps F G) (top : F) (s s' : OrdMH F) (hs : List UInt64) (h : Agree s s')
    (htm : s.tracker.m = s'.tracker.m) (hts : s.tracker.vals.size = s'.tracker.vals.size) :
    (OrdMH.hashSet o top s hs).map (fun r => (r.indices, r.values)) =
      (OrdMH.hashSet o top s' hs).map (fun r => (r.indices, r.values)) :=
  hashSet_self_clearing o top s s' hs h htm hts

/-- **C11 (f)** `nb_bad_indices == 0`: with at least `l` elements whose values stay below the ceiling, `hash_set` returns -/
theorem no_bad_indices (top : K) (m l : Nat) (hm : 1 ≤ m) (hl : 1 ≤ l) (t : OrdP.TOps K G) (hn : OrdP.Nice t)
    (s : OrdMH K) (hp : Params m l s) (hs : List UInt64) (hlen : l ≤ hs.length)
    (hlt : ∀ p ∈ allPtsFrom t m s.g s.seed hs 0 [], p.2.1 < top) : ∃ r, OrdMH.hashSet t.toOps top s hs = .ok r :=
  no_bad_index top m l hm hl t hn s hp hs hlen hlt

/-- **C11 (g)** the SIGNATURE itself (the model now contains the combiner, `Model/Hashers.lean`): position `k` is the WyHash
combination, seeded with `wyseed`, of the hashes of the elements at the indices of block `k` — which by (a), (b) are the `l`
selected elements in sequence order; the signature has exactly `m` positions -/
theorem signature_is_combined_hash_of_block {F : Type} (r : OrdMH F) (hs : List UInt64) (wy : UInt64) (k : Nat) (hk : k < r.m) :
    (r.signature hs wy)[k]? =
      some (Hashers.wyCombine wy ((OrdP.finalBlock r k).map (fun i => hs.toArray.getD i 0))) ∧
    (r.signature hs wy).length = r.m := by
  unfold OrdMH.signature OrdP.finalBlock
  simp [List.getElem?_map, List.getElem?_range, hk, List.map_map, Function.comp_def]

/-- consequently two runs whose index blocks spell the same element hashes at a position give the same signature there,
whatever else differs (in particular for `l = 1` under every permutation of the sequence, by (d)) -/
theorem signature_position_depends_on_spelled_hashes {F : Type} (r r' : OrdMH F) (hs hs' : List UInt64) (wy : UInt64) (k : Nat)
    (hk : k < r.m) (hk' : k < r'.m)
    (h : (OrdP.finalBlock r k).map (fun i => hs.toArray.getD i 0) = (OrdP.finalBlock r' k).map (fun i => hs'.toArray.getD i 0)) :
    (r.signature hs wy)[k]? = (r'.signature hs' wy)[k]? := by
  rw [(signature_is_combined_hash_of_block r hs wy k hk).1, (signature_is_combined_hash_of_block r' hs' wy k hk').1, h]

end PMH.C11

import PMH.Props.C11
import PMH.Proofs.CS
/-!
# C10 — ProbOrdMinHash2: a signature position is the order-min-hash selection under the ranking induced
by the slot's values

`omhBlock top l val hs` is the order-min-hash selection of the sequence `hs` under the "ranking" `val` of
its `(element, occurrence)` labels: take the `l` labels of smallest value, read their positions in
sequence order.  `position_is_omh_selection`: the index block the sketcher produces at slot `k` is exactly
`omhBlock` for `val = labVal k` — a function of the labels only (`labVal` does not depend on the sequence:
an element's generator is seeded with `(hash, occurrence, seed)`).  Hence two sequences collide at `k`
iff their order-min-hash selections under the COMMON ranking `labVal k` spell the same elements
(`collision_is_omh_event`).  The probabilistic half — the ranking induced by exchangeable, tie-free slot
values is uniform, so the collision probability is the order-min-hash probability by definition — is the
generic orbit-counting lemma `CS.uniform_of_transitive`; its instantiation to rankings, the injectivity of
the 64-bit WyHash combiner on the candidate spellings and the ideal-hash assumption are not mechanised.
-/
namespace PMH.C10
open PMH PMH.OrdP
variable {K G : Type} [Field K] [LinearOrder K] [IsStrictOrderedRing K]

/-- order-min-hash selection of `hs` under the value function `val` on labels: positions (sorted) of the `l` smallest labels -/
def omhBlock (top : K) (l : Nat) (val : UInt64 × Nat → K) (hs : List UInt64) : List Nat :=
  OrdMH.sortBlock ((lSmallest top l (((labels hs).zipIdx 0).map (fun p => (val p.1, p.2)))).map (·.2))

/-- **C10 (a)** the sketcher's index block at slot `k` is the order-min-hash selection under `labVal k` -/
theorem position_is_omh_selection (top : K) (m l : Nat) (hm : 1 ≤ m) (hl : 1 ≤ l) (t : OrdP.TOps K G) (hn : OrdP.Nice t)
    (s : OrdMH K) (hp : Params m l s) (hs : List UInt64) (r : OrdMH K) (hr : OrdMH.hashSet t.toOps top s hs = .ok r)
    (k : Nat) (hk : k < m) :
    finalBlock r k = omhBlock top l (labVal t m s.g s.seed k) hs := by
  obtain ⟨h1, _, _⟩ := C11.block_is_l_smallest top m l hm hl t hn s hp hs r hr k hk
  rw [h1]
  unfold omhBlock allPts
  rw [ptsOn_allPtsFrom t hn m s.g s.seed k hk hs 0 []]
  rfl

/-- the elements a position spells -/
def spelled (hs : List UInt64) (block : List Nat) : List (Option UInt64) := block.map (fun i => hs[i]?)

/-- **C10 (b)** two sequences sketched by the same sketcher collide at slot `k` (spell the same elements) iff
their order-min-hash selections under the common ranking `labVal k` spell the same elements -/
theorem collision_is_omh_event (top : K) (m l : Nat) (hm : 1 ≤ m) (hl : 1 ≤ l) (t : OrdP.TOps K G) (hn : OrdP.Nice t)
    (s : OrdMH K) (hp : Params m l s) (hsA hsB : List UInt64) (rA rB : OrdMH K)
    (hrA : OrdMH.hashSet t.toOps top s hsA = .ok rA) (hrB : OrdMH.hashSet t.toOps top s hsB = .ok rB)
    (k : Nat) (hk : k < m) :
    spelled hsA (finalBlock rA k) = spelled hsB (finalBlock rB k) ↔
      spelled hsA (omhBlock top l (labVal t m s.g s.seed k) hsA) = spelled hsB (omhBlock top l (labVal t m s.g s.seed k) hsB) := by
  rw [position_is_omh_selection top m l hm hl t hn s hp hsA rA hrA k hk,
      position_is_omh_selection top m l hm hl t hn s hp hsB rB hrB k hk]

/-- **C10 (c)** the generic exchangeability tool: an equivariant statistic of a relabelling-closed finite family is
uniform on a transitive target (here: the ranking of the labels induced by the slot values) -/
theorem ranking_uniform_tool {Gp Ω X : Type*} [Group Gp] [MulAction Gp Ω] [MulAction Gp X]
    [Fintype Ω] [Fintype X] [DecidableEq X] [MulAction.IsPretransitive Gp X]
    (f : Ω → X) (hf : ∀ (g : Gp) (ω : Ω), f (g • ω) = g • f ω) (T : Finset X) :
    (Finset.univ.filter (fun ω => f ω ∈ T)).card * Fintype.card X = T.card * Fintype.card Ω :=
  CS.uniform_of_transitive f hf T

end PMH.C10

import PMH.Props.C02
import PMH.Props.C13
/-!
# C12 — a sketch is a pure function of parameters, hasher and input

In the models every constructor and every operation is a (total, pure) Lean function of its explicit
arguments; there is no ambient state to depend on.  The only places where the *real* code could see
ambient state are (i) the iteration order of `HashMap` (random per process and per instance) in the
`hash_weigthed_hashmap` entry points and (ii) the `ThreadRng`-drawn seed of `ProbOrdMinHash2` (finding
F7, fixed: the seed is now a constant and is an explicit argument of the model's `OrdMH.new`).
(i) is settled by the theorems below — whatever order the map is iterated in, the signature is the same;
the rest of C12 (threads, processes, address-space layout) is outside what a Lean model can exhibit and
rests on the multi-thread / multi-process correspondence run.
-/
namespace PMH.C12
open PMH PMH.Race PMH.P3 PMH.C02
variable {K G : Type} [Field K] [LinearOrder K] [IsStrictOrderedRing K]

/-- **C12 (HashMap order, ProbMinHash3a / 3aSha)**: two iteration orders of the same map (two lists with
the same elements) give identical registers, and identical signatures unless two different items tie -/
theorem pmh3a_hashmap_order_irrelevant (top : K) (init m : Nat) (t : TSrc K G) (hn : Nice t m) (gen : Nat → G)
    (okW : K → Bool) (fuel fuel' : Nat) (items items' : List (Nat × K)) (hperm : ∀ d, d ∈ items ↔ d ∈ items')
    (hw : ∀ d ∈ items, 0 < d.2 ∧ okW d.2 = true) (s s' : PMH3 K G)
    (e : runNew t gen okW fuel top m init [Op.batch items] = .ok s)
    (e' : runNew t gen okW fuel' top m init [Op.batch items'] = .ok s') :
    (∀ k, k < m → (view top init s).reg k = (view top init s').reg k) ∧
    (TieFree (setPts t gen (pairs [Op.batch items])) → s.sig = s'.sig) := by
  have hp : pairs [Op.batch items] = pairs [Op.batch items'] := by
    simp only [pairs, opPairs, Set.union_empty]; ext d; exact hperm d
  have hg : GoodOps okW [Op.batch items] := by
    intro d hd; simp only [pairs, opPairs, Set.union_empty] at hd; exact hw d hd
  have hg' : GoodOps okW [Op.batch items'] := by
    intro d hd; simp only [pairs, opPairs, Set.union_empty] at hd; exact hw d ((hperm d).mpr hd)
  exact signature_function_of_set top init m t hn gen okW fuel fuel' _ _ hg hg' hp s s' e e'

/-- **C12 (HashMap order, ProbMinHash3 item-wise)** -/
theorem pmh3_hashmap_order_irrelevant (top : K) (init m : Nat) (t : TSrc K G) (hn : Nice t m) (gen : Nat → G)
    (okW : K → Bool) (fuel fuel' : Nat) (items items' : List (Nat × K)) (hperm : ∀ d, d ∈ items ↔ d ∈ items')
    (hw : ∀ d ∈ items, 0 < d.2 ∧ okW d.2 = true) (s s' : PMH3 K G)
    (e : runNew t gen okW fuel top m init (items.map (fun d => Op.item d.1 d.2)) = .ok s)
    (e' : runNew t gen okW fuel' top m init (items'.map (fun d => Op.item d.1 d.2)) = .ok s') :
    (∀ k, k < m → (view top init s).reg k = (view top init s').reg k) ∧
    (TieFree (setPts t gen {d | d ∈ items}) → s.sig = s'.sig) := by
  have hp : pairs (items.map (fun d => Op.item (K := K) d.1 d.2)) = pairs (items'.map (fun d => Op.item (K := K) d.1 d.2)) := by
    rw [pairs_map_item, pairs_map_item]; ext d; exact hperm d
  have := signature_function_of_set top init m t hn gen okW fuel fuel' _ _
    (by rw [GoodOps, pairs_map_item]; exact hw)
    (by rw [GoodOps, pairs_map_item]; intro d hd; exact hw d ((hperm d).mpr hd)) hp s s' e e'
  rw [pairs_map_item] at this; exact this

/-- **C12 (HashMap order, ProbMinHash2)** -/
theorem pmh2_hashmap_order_irrelevant (top : K) (init m : Nat) (hm : 1 ≤ m) (t : P2.TSrc2 K G) (offsetOf : K → Nat → Nat)
    (unif : UInt64 → K) (hn : P2.Nice2 t offsetOf unif) (gen : Nat → G) (items items' : List (Nat × K))
    (hpos : ∀ d ∈ items, 0 < d.2) (hperm : ∀ d, d ∈ items ↔ d ∈ items') (s s' : PMH2 K)
    (e : run2 t gen offsetOf unif (PMH2.new top m init) items = .ok s)
    (e' : run2 t gen offsetOf unif (PMH2.new top m init) items' = .ok s') :
    (∀ k, k < m → (P2.view top init s).reg k = (P2.view top init s').reg k) ∧
    (TieFree (setPts2 t gen offsetOf unif m {d | d ∈ items}) → s.sig = s'.sig) :=
  pmh2_function_of_set top init m hm t offsetOf unif hn gen items items' hpos
    (fun d hd => hpos d ((hperm d).mpr hd)) hperm s s' e e'

end PMH.C12

import PMH.Proofs.DensSel
import PMH.Proofs.DensSelRev
import PMH.Props.C09
import Mathlib.Algebra.BigOperators.Group.Finset.Sigma
import Mathlib.Algebra.BigOperators.Ring.Finset
/-!
# C08 — densified one-permutation hashing is an unbiased Jaccard LSH at any fill ratio

Model: `PMH.Dens` (`Model/DensMinHash.lean`).  An item is its 64-bit hash `h`, with generator `gen h`
(Xoshiro seeded by `h` in the code) giving `(r, bin)`; the densification probes come from generators
keyed by the bin index only (`mkRng (k + 123743)`), so they are the same for every set.

The statement proved, for BOTH algorithms (optimal: `sel`, `Proofs/DensSel`; reverse-optimal: `selRev`,
`Proofs/DensSelRev`, theorems suffixed `_rev` below):

* every position `k` of a finished sketch shows `sel S k`, a function of the hash SET `S`, the position
  and the generators — not of the stream's order, repetitions or entry point (`position_is_selection`);
* `sel` is a consistent selection scheme: `sel S k ∈ S` (M) and `S ⊆ U`, `sel U k ∈ S` ⇒ `sel S k = sel U k` (R);
* hence two sketches agree at `k` iff the hash selected for `A ∪ B` lies in `A ∩ B` (`collision_iff`);
* hence for every relabelling-closed (exchangeable) finite family Ω of generator assignments without
  `r`-ties, every sketch size `m`, every position `k` and every pair of nonempty sets,
  `#{ω | a[k] = b[k]} · |A ∪ B| = |A ∩ B| · #Ω`:  the collision probability at EVERY position is exactly
  the Jaccard index, at any fill ratio (the sparse regime `m ≫ |A ∪ B|` included) — so the expected
  fraction of equal positions is `J` (`collision_count_is_jaccard`);
* the float and u32 views are functions of the u64 view (C09: `u64_equal_float_equal`,
  `u32view_fixed_function`), so the same holds for them whenever distinct selected hashes show distinct
  floats / u32 values (no `r`-ties: `hinj`; u32: murmur collisions are outside the model).
-/
namespace PMH.C08
open PMH PMH.Race PMH.DensP PMH.DensSel
variable {K G R : Type} [LinearOrder K]

/-- **C08 (a)** a finished sketch (items streamed one by one in any order, then `end_sketch` with the
optimal densification) shows at every position the selection `sel` of the hash SET, in the u64 view and
in the float view -/
theorem position_is_selection (t : TOps K G R) (gen : Nat → G) (m : Nat) (large : K) (hn : Nice t m)
    (hr : ∀ g, (t.fr g).1 < large) (hs : List Nat) (fuel : Nat) (s1 s' : Dens K)
    (e1 : stream t.toOps (Dens.new large m) (withGen gen hs) = .ok s1)
    (e2 : s1.endSketch t.toOps true fuel = .ok s') (k : Nat) (hk : k < m) :
    TermAtH t gen m hs.toFinset k ∧
    s'.values.getD k Dens.u64Max = sel t gen m hs.toFinset k ∧
    s'.hsketch.getD k large = (t.fr (gen (sel t gen m hs.toFinset k))).1 :=
  endSketch_selects t gen m large hn hr hs fuel s1 s' e1 e2 k hk

/-- the same through `sketch_slice` -/
theorem slice_position_is_selection (t : TOps K G R) (gen : Nat → G) (m : Nat) (large : K) (hn : Nice t m)
    (hr : ∀ g, (t.fr g).1 < large) (hs : List Nat) (fuel : Nat) (s' : Dens K)
    (e : (Dens.new large m).sketchSlice t.toOps true fuel (withGen gen hs) = .ok s') (k : Nat) (hk : k < m) :
    TermAtH t gen m hs.toFinset k ∧
    s'.values.getD k Dens.u64Max = sel t gen m hs.toFinset k ∧
    s'.hsketch.getD k large = (t.fr (gen (sel t gen m hs.toFinset k))).1 :=
  sketchSlice_selects t gen m large hn hr hs fuel s' e k hk

/-- consequently two streams spelling the same SET give the same finished position -/
theorem finished_function_of_set (t : TOps K G R) (gen : Nat → G) (m : Nat) (large : K) (hn : Nice t m)
    (hr : ∀ g, (t.fr g).1 < large) (hs hs' : List Nat) (hset : hs.toFinset = hs'.toFinset) (fuel fuel' : Nat)
    (a1 a b1 b : Dens K)
    (ea1 : stream t.toOps (Dens.new large m) (withGen gen hs) = .ok a1) (ea : a1.endSketch t.toOps true fuel = .ok a)
    (eb1 : stream t.toOps (Dens.new large m) (withGen gen hs') = .ok b1) (eb : b1.endSketch t.toOps true fuel' = .ok b)
    (k : Nat) (hk : k < m) :
    a.values.getD k Dens.u64Max = b.values.getD k Dens.u64Max ∧ a.hsketch.getD k large = b.hsketch.getD k large := by
  obtain ⟨_, va, fa⟩ := position_is_selection t gen m large hn hr hs fuel a1 a ea1 ea k hk
  obtain ⟨_, vb, fb⟩ := position_is_selection t gen m large hn hr hs' fuel' b1 b eb1 eb k hk
  rw [va, vb, fa, fb, hset]; exact ⟨rfl, rfl⟩

/-- **C08 (b)** (M): the selected hash is a member of the set -/
theorem selection_membership (t : TOps K G R) (gen : Nat → G) (m : Nat) {S : Finset Nat} {k : Nat}
    (h : TermAtH t gen m S k) : sel t gen m S k ∈ S := sel_mem t gen m h

/-- **C08 (b)** (R): restriction consistency — the heart of the LSH property.  Termination of the probing
for the subset is derived, not assumed. -/
theorem selection_restriction (t : TOps K G R) (gen : Nat → G) (m : Nat) {S U : Finset Nat} (hSU : S ⊆ U) {k : Nat}
    (hU : TermAtH t gen m U k) (hin : sel t gen m U k ∈ S) : sel t gen m S k = sel t gen m U k :=
  sel_restrict t gen m hSU hU hin

/-- **C08 (c)** two finished sketches agree at `k` iff the hash selected for the union is common -/
theorem collision_iff (t : TOps K G R) (gen : Nat → G) (m : Nat) (large : K) (hn : Nice t m)
    (hr : ∀ g, (t.fr g).1 < large) (ha hb : List Nat) (fuel fuel' : Nat) (a' b' : Dens K)
    (ea : (Dens.new large m).sketchSlice t.toOps true fuel (withGen gen ha) = .ok a')
    (eb : (Dens.new large m).sketchSlice t.toOps true fuel' (withGen gen hb) = .ok b')
    (k : Nat) (hk : k < m) :
    a'.values.getD k Dens.u64Max = b'.values.getD k Dens.u64Max ↔
      sel t gen m (ha.toFinset ∪ hb.toFinset) k ∈ ha.toFinset ∩ hb.toFinset :=
  sketchSlice_collision_iff t gen m large hn hr ha hb fuel fuel' a' b' ea eb k hk

/-- **C08 (d)** exact unbiasedness, any fill ratio: for every sketch size `m`, every position `k < m`,
every two hash lists and every relabelling-closed finite family Ω of `r`-tie-free generator assignments
on the hashes of `A ∪ B` for which the runs return,
`#{ω ∈ Ω | a_ω[k] = b_ω[k]} · |A ∪ B| = |A ∩ B| · #Ω`. -/
theorem collision_count_is_jaccard (t : TOps K G R) (m : Nat) (g0 : G) (large : K) (hn : Nice t m)
    (hr : ∀ g, (t.fr g).1 < large)
    (la lb : List Nat) (Ω : Finset (↥(la.toFinset ∪ lb.toFinset) → G)) (hΩ : CS.PermClosed Ω)
    (hinj : ∀ ω ∈ Ω, Function.Injective (fun d : ↥(la.toFinset ∪ lb.toFinset) => (t.fr (ω d)).1))
    (fa fb : (↥(la.toFinset ∪ lb.toFinset) → G) → Nat)
    (a1 sa b1 sb : (↥(la.toFinset ∪ lb.toFinset) → G) → Dens K)
    (ea1 : ∀ ω ∈ Ω, stream t.toOps (Dens.new large m)
      (withGen (extGen (la.toFinset ∪ lb.toFinset) g0 ω) la) = .ok (a1 ω))
    (ea2 : ∀ ω ∈ Ω, Dens.densifyOpt t.toOps (fa ω) (a1 ω) = .ok (sa ω))
    (eb1 : ∀ ω ∈ Ω, stream t.toOps (Dens.new large m)
      (withGen (extGen (la.toFinset ∪ lb.toFinset) g0 ω) lb) = .ok (b1 ω))
    (eb2 : ∀ ω ∈ Ω, Dens.densifyOpt t.toOps (fb ω) (b1 ω) = .ok (sb ω))
    (k : Nat) (hk : k < m) :
    (Ω.filter (fun ω => (sa ω).values.getD k Dens.u64Max = (sb ω).values.getD k Dens.u64Max)).card
        * (la.toFinset ∪ lb.toFinset).card = (la.toFinset ∩ lb.toFinset).card * Ω.card :=
  finished_collision_count t m g0 large hn hr la lb Ω hΩ hinj fa fb a1 sa b1 sb ea1 ea2 eb1 eb2 k hk

/-- summed over the positions: the expected NUMBER of equal positions is `m · J` -/
theorem expected_equal_positions (t : TOps K G R) (m : Nat) (g0 : G) (large : K) (hn : Nice t m)
    (hr : ∀ g, (t.fr g).1 < large)
    (la lb : List Nat) (Ω : Finset (↥(la.toFinset ∪ lb.toFinset) → G)) (hΩ : CS.PermClosed Ω)
    (hinj : ∀ ω ∈ Ω, Function.Injective (fun d : ↥(la.toFinset ∪ lb.toFinset) => (t.fr (ω d)).1))
    (fa fb : (↥(la.toFinset ∪ lb.toFinset) → G) → Nat)
    (a1 sa b1 sb : (↥(la.toFinset ∪ lb.toFinset) → G) → Dens K)
    (ea1 : ∀ ω ∈ Ω, stream t.toOps (Dens.new large m)
      (withGen (extGen (la.toFinset ∪ lb.toFinset) g0 ω) la) = .ok (a1 ω))
    (ea2 : ∀ ω ∈ Ω, Dens.densifyOpt t.toOps (fa ω) (a1 ω) = .ok (sa ω))
    (eb1 : ∀ ω ∈ Ω, stream t.toOps (Dens.new large m)
      (withGen (extGen (la.toFinset ∪ lb.toFinset) g0 ω) lb) = .ok (b1 ω))
    (eb2 : ∀ ω ∈ Ω, Dens.densifyOpt t.toOps (fb ω) (b1 ω) = .ok (sb ω)) :
    (∑ ω ∈ Ω, ((Finset.range m).filter (fun k =>
        (sa ω).values.getD k Dens.u64Max = (sb ω).values.getD k Dens.u64Max)).card)
        * (la.toFinset ∪ lb.toFinset).card = m * ((la.toFinset ∩ lb.toFinset).card * Ω.card) := by
  classical
  have hswap : (∑ ω ∈ Ω, ((Finset.range m).filter (fun k =>
        (sa ω).values.getD k Dens.u64Max = (sb ω).values.getD k Dens.u64Max)).card)
      = ∑ k ∈ Finset.range m, (Ω.filter (fun ω =>
        (sa ω).values.getD k Dens.u64Max = (sb ω).values.getD k Dens.u64Max)).card := by
    simp only [Finset.card_filter]
    exact Finset.sum_comm
  rw [hswap, Finset.sum_mul]
  rw [Finset.sum_congr rfl (fun k hk => collision_count_is_jaccard t m g0 large hn hr la lb Ω hΩ hinj fa fb
    a1 sa b1 sb ea1 ea2 eb1 eb2 k (Finset.mem_range.mp hk))]
  simp

/-- the probing terminates for every nonempty set as soon as every bin is eventually probed -/
theorem probing_terminates (t : TOps K G R) (m : Nat) (gen : Nat → G) (hn : Nice t m)
    (honto : ∀ k b, b < m → ∃ i, probeOf t.toOps m k i = b) {S : Finset Nat} (hS : S.Nonempty) :
    ∀ k, TermAtH t gen m S k := termAtH_of_probe_onto t m gen hn honto hS

/-! ### non-vacuity: an instance meeting every hypothesis, with collision probability 1/3 in a
sparse-ish regime (two bins, sets {0,1} and {1,2}) and runs that return -/
example (g0 : Fin 3 × Fin 2) (k : Nat) :
    ((exΩ 3 2 (({0, 1} : Finset Nat) ∪ {1, 2})).filter (fun ω =>
        sel (exOps 3 2) (extGen _ g0 ω) 2 {0, 1} k = sel (exOps 3 2) (extGen _ g0 ω) 2 {1, 2} k)).card * 3
      = (exΩ 3 2 (({0, 1} : Finset Nat) ∪ {1, 2})).card := ex_collision_third g0 k
example : (exΩ 3 2 (({0, 1} : Finset Nat) ∪ {1, 2})).Nonempty := exΩ_nonempty
example (n m : Nat) (gen : Nat → Fin n × Fin m) (hs : List Nat) (hne : hs ≠ []) (fuel : Nat) (hf : m ≤ fuel) :
    ∃ s1 s', stream (exOps n m).toOps (Dens.new n m) (withGen gen hs) = .ok s1 ∧
      Dens.densifyOpt (exOps n m).toOps fuel s1 = .ok s' := ex_runs n m gen hs hne fuel hf


/-! ## reverse-optimal densification (`RevOptDensMinHash`): the same four statements

The reverse process (pass p = 1,2,…; every currently populated bin k pushes its content to the target
drawn from a generator keyed by (k, p) if that target is empty) is again a function of the populated
bins only, and restriction-consistent: run on `S ⊆ U` with the same event sequence, (1) S-populated ⇒
U-populated and (2) a U-content that lies in S is also the S-content (invariant `Rel`, `step_rel`). -/
section Rev
open PMH.DensSelRev

theorem position_is_selection_rev (t : TOps K G R) (gen : Nat → G) (m : Nat) (large : K) (hn : Nice t m)
    (hr : ∀ g, (t.fr g).1 < large) (hs : List Nat) (fuel : Nat) (s1 s' : Dens K)
    (e1 : stream t.toOps (Dens.new large m) (withGen gen hs) = .ok s1)
    (e2 : s1.endSketch t.toOps false fuel = .ok s') (k : Nat) (hk : k < m) :
    TermRevH t gen m hs.toFinset k ∧
    s'.values.getD k Dens.u64Max = selRev t gen m hs.toFinset k ∧
    s'.hsketch.getD k large = (t.fr (gen (selRev t gen m hs.toFinset k))).1 :=
  endSketch_selects_rev t gen m large hn hr hs fuel s1 s' e1 e2 k hk

theorem slice_position_is_selection_rev (t : TOps K G R) (gen : Nat → G) (m : Nat) (large : K) (hn : Nice t m)
    (hr : ∀ g, (t.fr g).1 < large) (hs : List Nat) (fuel : Nat) (s' : Dens K)
    (e : (Dens.new large m).sketchSlice t.toOps false fuel (withGen gen hs) = .ok s') (k : Nat) (hk : k < m) :
    TermRevH t gen m hs.toFinset k ∧
    s'.values.getD k Dens.u64Max = selRev t gen m hs.toFinset k ∧
    s'.hsketch.getD k large = (t.fr (gen (selRev t gen m hs.toFinset k))).1 :=
  sketchSlice_selects_rev t gen m large hn hr hs fuel s' e k hk

theorem selection_membership_rev (t : TOps K G R) (gen : Nat → G) (m : Nat) {S : Finset Nat} {k : Nat}
    (h : TermRevH t gen m S k) : selRev t gen m S k ∈ S := selRev_mem t gen m h

theorem selection_restriction_rev (t : TOps K G R) (gen : Nat → G) (m : Nat) {S U : Finset Nat} (hSU : S ⊆ U) {k : Nat}
    (hU : TermRevH t gen m U k) (hin : selRev t gen m U k ∈ S) :
    TermRevH t gen m S k ∧ selRev t gen m S k = selRev t gen m U k :=
  selRev_restrict_term t gen m hSU hU hin

theorem collision_iff_rev (t : TOps K G R) (gen : Nat → G) (m : Nat) (large : K) (hn : Nice t m)
    (hr : ∀ g, (t.fr g).1 < large) (ha hb : List Nat) (fuel fuel' : Nat) (a' b' : Dens K)
    (ea : (Dens.new large m).sketchSlice t.toOps false fuel (withGen gen ha) = .ok a')
    (eb : (Dens.new large m).sketchSlice t.toOps false fuel' (withGen gen hb) = .ok b')
    (k : Nat) (hk : k < m) :
    a'.values.getD k Dens.u64Max = b'.values.getD k Dens.u64Max ↔
      selRev t gen m (ha.toFinset ∪ hb.toFinset) k ∈ ha.toFinset ∩ hb.toFinset :=
  sketchSlice_collision_iff_rev t gen m large hn hr ha hb fuel fuel' a' b' ea eb k hk

/-- **C08 (d), reverse algorithm** exact unbiasedness at every position, any fill ratio -/
theorem collision_count_is_jaccard_rev (t : TOps K G R) (m : Nat) (g0 : G) (large : K) (hn : Nice t m)
    (hr : ∀ g, (t.fr g).1 < large)
    (la lb : List Nat) (Ω : Finset (↥(la.toFinset ∪ lb.toFinset) → G)) (hΩ : CS.PermClosed Ω)
    (hinj : ∀ ω ∈ Ω, Function.Injective (fun d : ↥(la.toFinset ∪ lb.toFinset) => (t.fr (ω d)).1))
    (fa fb : (↥(la.toFinset ∪ lb.toFinset) → G) → Nat)
    (a1 sa b1 sb : (↥(la.toFinset ∪ lb.toFinset) → G) → Dens K)
    (ea1 : ∀ ω ∈ Ω, stream t.toOps (Dens.new large m)
      (withGen (extGen (la.toFinset ∪ lb.toFinset) g0 ω) la) = .ok (a1 ω))
    (ea2 : ∀ ω ∈ Ω, Dens.densifyRev t.toOps (fa ω) 1 (a1 ω) = .ok (sa ω))
    (eb1 : ∀ ω ∈ Ω, stream t.toOps (Dens.new large m)
      (withGen (extGen (la.toFinset ∪ lb.toFinset) g0 ω) lb) = .ok (b1 ω))
    (eb2 : ∀ ω ∈ Ω, Dens.densifyRev t.toOps (fb ω) 1 (b1 ω) = .ok (sb ω))
    (k : Nat) (hk : k < m) :
    (Ω.filter (fun ω => (sa ω).values.getD k Dens.u64Max = (sb ω).values.getD k Dens.u64Max)).card
        * (la.toFinset ∪ lb.toFinset).card = (la.toFinset ∩ lb.toFinset).card * Ω.card :=
  finished_collision_count_rev t m g0 large hn hr la lb Ω hΩ hinj fa fb a1 sa b1 sb ea1 ea2 eb1 eb2 k hk

/-- the reverse process populates every bin as soon as every bin is eventually targeted from every bin -/
theorem reverse_terminates (t : TOps K G R) (m : Nat) (gen : Nat → G) (hn : Nice t m)
    (honto : ∀ b k, b < m → k < m → ∃ p, 1 ≤ p ∧ tgtOf t.toOps m b p = k) {S : Finset Nat} (hS : S.Nonempty) :
    ∀ k, k < m → TermRevH t gen m S k := termRevH_of_tgt_onto t m gen hn honto hS

/-! non-vacuity for the reverse algorithm -/
example (g0 : Fin 3 × Fin 2) (k : Nat) (hk : k < 2) :
    ((exΩ 3 2 (({0, 1} : Finset Nat) ∪ {1, 2})).filter (fun ω =>
        selRev (exOpsRev 3 2) (extGen _ g0 ω) 2 {0, 1} k = selRev (exOpsRev 3 2) (extGen _ g0 ω) 2 {1, 2} k)).card * 3
      = (exΩ 3 2 (({0, 1} : Finset Nat) ∪ {1, 2})).card
    ∧ (exΩ 3 2 (({0, 1} : Finset Nat) ∪ {1, 2})).Nonempty := ex_collision_third_rev g0 k hk
example (n m : Nat) (gen : Nat → Fin n × Fin m) (hs : List Nat) (hne : hs ≠ []) (fuel : Nat) (hf : m * 253715 < fuel) :
    ∃ s1 s', stream (exOpsRev n m).toOps (Dens.new n m) (withGen gen hs) = .ok s1 ∧
      Dens.densifyRev (exOpsRev n m).toOps fuel 1 s1 = .ok s' := ex_runs_rev n m gen hs hne fuel hf
end Rev

end PMH.C08

import Mathlib.Data.List.Perm.Basic
import Mathlib.Data.List.Nodup
/-! Fisher–Yates on the "remaining suffix" view (helper theory for C17 / C03).
    step: choose `c < rest.length`, output `rest[c]`, slot `c` receives `rest[0]`, drop the head. -/
open List
namespace PMH.FYL
variable {α : Type} [DecidableEq α]
/-- remaining suffix after choosing offset c -/
def nextRest (x : α) (xs : List α) (c : Nat) : List α := ((x :: xs).set c x).tail
def pick (x : α) (xs : List α) (c : Nat) : α := (x :: xs).getD c x

def fy : List α → List Nat → List α
  | [], _ => []
  | _ :: _, [] => []
  | x :: xs, c :: cs => pick x xs c :: fy (nextRest x xs c) cs

def Valid : Nat → List Nat → Prop
  | 0, cs => cs = []
  | _+1, [] => False
  | n+1, c :: cs => c < n+1 ∧ Valid n cs

theorem nextRest_length (x : α) (xs : List α) (c : Nat) : (nextRest x xs c).length = xs.length := by
  simp [nextRest]

theorem step_perm (x : α) (xs : List α) (c : Nat) (hc : c < xs.length + 1) :
    List.Perm (pick x xs c :: nextRest x xs c) (x :: xs) := by
  cases c with
  | zero => simp [pick, nextRest]
  | succ c =>
    have hc' : c < xs.length := by omega
    simp only [pick, nextRest, List.set_cons_succ, List.tail_cons, List.getD_cons_succ]
    have h1 : xs.getD c x = xs[c] := by simp [List.getD_eq_getElem?_getD, hc']
    rw [h1]
    have := List.set_set_perm (as := x :: xs) (i := 0) (j := c+1) (by simp) (by simp; omega)
    simpa using this

theorem fy_perm : ∀ (n : Nat) (rest : List α) (cs : List Nat), rest.length = n → Valid n cs →
    List.Perm (fy rest cs) rest := by
  intro n
  induction n with
  | zero => intro rest cs h _; cases rest with
    | nil => simp [fy]
    | cons _ _ => simp at h
  | succ n ih =>
    intro rest cs h hv
    cases rest with
    | nil => simp at h
    | cons x xs =>
      cases cs with
      | nil => exact absurd hv (by simp [Valid])
      | cons c cs =>
        obtain ⟨hc, hv'⟩ := hv
        simp only [fy]
        have hl : xs.length = n := by simpa using h
        have := ih (nextRest x xs c) cs (by rw [nextRest_length]; exact hl) hv'
        exact (List.Perm.cons _ this).trans (step_perm x xs c (by omega))

theorem pick_inj (x : α) (xs : List α) (hnd : (x :: xs).Nodup) (c c' : Nat)
    (hc : c < xs.length + 1) (hc' : c' < xs.length + 1) (h : pick x xs c = pick x xs c') : c = c' := by
  have e : ∀ d (hd : d < xs.length + 1), pick x xs d = (x :: xs)[d]'(by simpa using hd) := by
    intro d hd; simp [pick, List.getD_eq_getElem?_getD, hd]
  rw [e c hc, e c' hc'] at h
  exact (List.Nodup.getElem_inj_iff hnd).mp h

theorem fy_inj : ∀ (n : Nat) (rest : List α) (cs cs' : List Nat), rest.length = n → rest.Nodup →
    Valid n cs → Valid n cs' → fy rest cs = fy rest cs' → cs = cs' := by
  intro n
  induction n with
  | zero => intro rest cs cs' _ _ hv hv' _; simp [Valid] at hv hv'; rw [hv, hv']
  | succ n ih =>
    intro rest cs cs' h hnd hv hv' heq
    cases rest with
    | nil => simp at h
    | cons x xs =>
      cases cs with
      | nil => exact absurd hv (by simp [Valid])
      | cons c cs =>
        cases cs' with
        | nil => exact absurd hv' (by simp [Valid])
        | cons c' cs' =>
          obtain ⟨hc, hv1⟩ := hv
          obtain ⟨hc', hv1'⟩ := hv'
          have hl : xs.length = n := by simpa using h
          simp only [fy, List.cons.injEq] at heq
          obtain ⟨hp, ht⟩ := heq
          have hcc : c = c' := pick_inj x xs hnd c c' (by omega) (by omega) hp
          subst hcc
          have hnd' : (nextRest x xs c).Nodup := by
            have := (step_perm x xs c (by omega)).nodup_iff.mpr hnd
            exact (List.nodup_cons.mp this).2
          rw [ih (nextRest x xs c) cs cs' (by rw [nextRest_length]; exact hl) hnd' hv1 hv1' ht]

theorem fy_surj : ∀ (n : Nat) (rest o : List α), rest.length = n → rest.Nodup → List.Perm o rest →
    ∃ cs, Valid n cs ∧ fy rest cs = o := by
  intro n
  induction n with
  | zero =>
    intro rest o h _ hp
    have : rest = [] := List.length_eq_zero_iff.mp h
    subst this
    exact ⟨[], rfl, by rw [List.Perm.eq_nil hp]; simp [fy]⟩
  | succ n ih =>
    intro rest o h hnd hp
    cases rest with
    | nil => simp at h
    | cons x xs =>
      have hl : xs.length = n := by simpa using h
      cases o with
      | nil => exact absurd hp.length_eq (by simp)
      | cons y ys =>
        have hy : y ∈ x :: xs := hp.subset (by simp)
        obtain ⟨c, hc, hcy⟩ := List.getElem_of_mem hy
        have hc1 : c < xs.length + 1 := by simpa using hc
        have hpk : pick x xs c = y := by simp [pick, List.getD_eq_getElem?_getD, hc1, hcy]
        have hsp := step_perm x xs c hc1
        rw [hpk] at hsp
        have hys : List.Perm ys (nextRest x xs c) := by
          have : List.Perm (y :: ys) (y :: nextRest x xs c) := hp.trans hsp.symm
          exact (List.perm_cons y).mp this
        have hnd' : (nextRest x xs c).Nodup := by
          have := hsp.nodup_iff.mpr hnd
          exact (List.nodup_cons.mp this).2
        obtain ⟨cs, hv, hcs⟩ := ih (nextRest x xs c) ys (by rw [nextRest_length]; exact hl) hnd' hys
        exact ⟨c :: cs, ⟨by omega, hv⟩, by simp only [fy, hpk, hcs]⟩
end PMH.FYL

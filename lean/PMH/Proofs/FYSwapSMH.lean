import PMH.Proofs.SMH
import PMH.Proofs.FYSwap
/-!
Bridge: the Fisher–Yates array `PMH.SMHP.perm` of the SuperMinHash refinement proof is
`PMH.FYSwap.perm` at the draw vector `k j := kOf t m g j`, which is admissible for a `Nice` draw
source; hence all of `FYSwap` applies to it.
-/
namespace PMH.SMHP
theorem perm_eq_fyswap {K G : Type} (t : TOps K G) (m : Nat) (g : G) :
    ∀ j, perm t m g j = PMH.FYSwap.perm (kOf t m g) j := by
  intro j
  induction j with
  | zero => rfl
  | succ j ih => show perm t m g j * _ = PMH.FYSwap.perm (kOf t m g) j * _; rw [ih]

variable {K G : Type} [Field K] [LinearOrder K] [IsStrictOrderedRing K] [FloorSemiring K]

theorem kOf_adm {t : TOps K G} (hn : Nice t) (m : Nat) (g : G) : PMH.FYSwap.Adm m (kOf t m g) :=
  fun j hj => kOf_bounds hn m g j hj

/-- two generators whose items get the same final array drew the same `k_j`, `j < m` -/
theorem kOf_eq_of_perm_eq {t : TOps K G} (hn : Nice t) (m : Nat) (g g' : G)
    (h : perm t m g m = perm t m g' m) : ∀ j, j < m → kOf t m g j = kOf t m g' j :=
  PMH.FYSwap.perm_injective (kOf_adm hn m g) (kOf_adm hn m g')
    (fun i _ => by rw [← perm_eq_fyswap, ← perm_eq_fyswap, h])

end PMH.SMHP

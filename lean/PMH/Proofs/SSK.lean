import PMH.Model.SetSketch
import PMH.Proofs.Race
import PMH.Props.C17
import Mathlib.Order.OrderDual
import Mathlib.Order.Monotone.Basic
/-!
# Refinement of the SetSketch ("sketch1") model to the `Race` specification

Registers of `SetSketcher` only grow and hold a *maximum*; the generic theory `PMH.Race` is written for
minimum registers over a linear order `V`, so it is used with `V := ℕᵒᵈ` (order dual), `top := toDual 0`
(the empty register) and trivial tags `T := Unit`.

The item's source is *total* (`TOps`): `nextE g = ok (fe g)`.  Hypotheses (`Nice`): the shuffle offset is
in range, the candidate register does not increase along the item's stream `x_0, x_1, …`, and the first
early exit is sound (`early x L → cand x ≤ L`).
-/
namespace PMH.SSKP
open PMH PMH.Race OrderDual

variable {F G : Type}

/-! ### total item source -/

/-- a total item source and scalar pipeline (`SskOps` with `nextE` that never fails) -/
structure TOps (F G : Type) where
  fe : G → F × G                            -- `Exp1`
  fu : G → UInt64 × G                       -- raw word for `FYshuffle::next`
  offsetOf : UInt64 → Nat → Nat
  zero : F
  step : F → Nat → F → F
  early : F → Nat → Bool
  cand : F → Nat

def TOps.toOps (t : TOps F G) : SskOps F G :=
  { nextE := fun g => .ok (t.fe g), nextU := t.fu, offsetOf := t.offsetOf, zero := t.zero, step := t.step,
    early := t.early, cand := t.cand }

/-- the values an item's stream can take: `x_0 = step zero 0 e_0` and `x_{j} = step x_{j-1} j e_j`, the `e`'s
being draws of `fe` (in the code: `x_j = x_{j-1} + c_j·Exp1 > 0`, non-decreasing) -/
inductive Str (t : TOps F G) : F → Prop
  | first (g : G) : Str t (t.step t.zero 0 (t.fe g).1)
  | next (x : F) (j : Nat) (g : G) : Str t x → Str t (t.step x j (t.fe g).1)

/-- hypotheses on the item source:
* `off`   : the shuffle offset `(xsi·n) as usize` is `< n` (`C17.floor_offset_lt` in exact arithmetic);
* `mono`  : along an item's stream the candidate register never increases (`x_j` non-decreasing, `cand` antitone);
* `early` : the first break is sound: `log_b x > -L` implies `⌊1 - log_b x⌋ ≤ L`. -/
structure Nice (t : TOps F G) : Prop where
  off : ∀ u n, 0 < n → t.offsetOf u n < n
  mono : ∀ x j g, Str t x → t.cand (t.step x j (t.fe g).1) ≤ t.cand x
  early : ∀ x L, t.early x L = true → t.cand x ≤ L

/-- a convenient sufficient condition for `Nice.mono`: `F` preordered, steps with drawn `e` do not
decrease `x`, and `cand` is antitone -/
theorem mono_of_antitone [Preorder F] (t : TOps F G) (hstep : ∀ x j g, x ≤ t.step x j (t.fe g).1)
    (hc : Antitone t.cand) : ∀ x j g, Str t x → t.cand (t.step x j (t.fe g).1) ≤ t.cand x :=
  fun x j g _ => hc (hstep x j g)

/-! ### view and well-formedness -/

/-- registers as a `Race` state over `ℕᵒᵈ`; positions `≥ m` read `toDual 0` -/
def view (s : SSK) : St ℕᵒᵈ Unit :=
  ⟨fun k => if k < s.m then toDual (s.kvec.getD k 0) else toDual 0, fun _ => ()⟩

/-- well-formedness of a sketcher with `m` registers of capacity `imax` -/
structure WF (m imax : Nat) (s : SSK) : Prop where
  hm : s.m = m
  hsize : s.kvec.size = m
  hfm : s.fy.m = m
  hinv : C17.Inv s.fy
  himax : s.imax = imax
  hlow : ∀ k, k < m → s.lowerK ≤ s.kvec.getD k 0
  hcap : ∀ k, k < m → s.kvec.getD k 0 ≤ imax

theorem view_reg_lt {m imax : Nat} {s : SSK} (h : WF m imax s) (k : Nat) (hk : k < m) :
    (view s).reg k = toDual (s.kvec.getD k 0) := by
  simp [view, h.hm, hk]

theorem view_reg_ge {m imax : Nat} {s : SSK} (h : WF m imax s) (k : Nat) (hk : m ≤ k) :
    (view s).reg k = toDual 0 := by
  have : ¬ k < m := by omega
  simp [view, h.hm, this]

theorem st_ext (a b : St ℕᵒᵈ Unit) (h : ∀ k, a.reg k = b.reg k) : a = b := by
  cases a; cases b
  congr 1
  · exact funext h
  · exact funext fun _ => rfl

/-! ### `minReg` is the minimum register -/

theorem foldl_min_le (l : List Nat) (a : Nat) :
    l.foldl (fun mn x => if x < mn then x else mn) a ≤ a ∧
      ∀ x ∈ l, l.foldl (fun mn x => if x < mn then x else mn) a ≤ x := by
  induction l generalizing a with
  | nil => exact ⟨le_refl _, fun _ h => absurd h List.not_mem_nil⟩
  | cons y ys ih =>
    simp only [List.foldl_cons]
    obtain ⟨h1, h2⟩ := ih (if y < a then y else a)
    have h3 : (if y < a then y else a) ≤ a := by split <;> omega
    have h4 : (if y < a then y else a) ≤ y := by split <;> omega
    refine ⟨le_trans h1 h3, ?_⟩
    intro x hx
    rcases List.mem_cons.mp hx with rfl | hx
    · exact le_trans h1 h4
    · exact h2 x hx

theorem foldl_min_mem (l : List Nat) (a : Nat) :
    l.foldl (fun mn x => if x < mn then x else mn) a = a ∨
      l.foldl (fun mn x => if x < mn then x else mn) a ∈ l := by
  induction l generalizing a with
  | nil => exact Or.inl rfl
  | cons y ys ih =>
    simp only [List.foldl_cons]
    rcases ih (if y < a then y else a) with h | h
    · by_cases hy : y < a
      · right; rw [h]; simp [hy]
      · left; rw [h]; simp [hy]
    · right; exact List.mem_cons_of_mem _ h

theorem minReg_le (a : Array Nat) (k : Nat) (hk : k < a.size) : SSK.minReg a ≤ a.getD k 0 := by
  unfold SSK.minReg
  rw [← Array.foldl_toList]
  have hmem : a.getD k 0 ∈ a.toList := by
    simp [Array.getD_eq_getD_getElem?, hk]
  exact (foldl_min_le a.toList _).2 _ hmem

theorem minReg_mem (a : Array Nat) (h : 0 < a.size) : ∃ k, k < a.size ∧ SSK.minReg a = a.getD k 0 := by
  unfold SSK.minReg
  rw [← Array.foldl_toList]
  rcases foldl_min_mem a.toList (a.getD 0 0) with e | e
  · exact ⟨0, h, e⟩
  · rw [Array.mem_toList_iff, Array.mem_iff_getElem] at e
    obtain ⟨k, hk, e⟩ := e
    refine ⟨k, hk, ?_⟩
    rw [← e]; simp [Array.getD_eq_getD_getElem?, hk]

/-! ### one register update -/

/-- count the update and refresh `lowerK` every `m` updates -/
def bumpCore (s : SSK) (kv : Array Nat) (ov : Nat) : SSK :=
  let nbmin := s.nbmin + 1
  let s := { s with kvec := kv, nbOverflow := ov, nbmin := nbmin }
  if nbmin % s.m = 0 then
    let flow := SSK.minReg s.kvec
    if flow > s.lowerK then { s with lowerK := flow } else s
  else s

/-- the body of the `if k > old` branch of the loop: store the clipped candidate, count, refresh `lowerK`
every `m` updates -/
def bump (s : SSK) (i k : Nat) : SSK :=
  let kvov := if k > s.imax then (s.kvec.setIfInBounds i s.imax, s.nbOverflow + 1)
              else (s.kvec.setIfInBounds i k, s.nbOverflow)
  bumpCore s kvov.1 kvov.2

theorem bumpCore_fields (s : SSK) (kv : Array Nat) (ov : Nat) :
    (bumpCore s kv ov).m = s.m ∧ (bumpCore s kv ov).fy = s.fy ∧ (bumpCore s kv ov).imax = s.imax ∧
    (bumpCore s kv ov).kvec = kv ∧
    ((bumpCore s kv ov).lowerK = s.lowerK ∨ (bumpCore s kv ov).lowerK = SSK.minReg kv) := by
  unfold bumpCore; dsimp only
  by_cases h1 : (s.nbmin + 1) % s.m = 0
  · by_cases h2 : SSK.minReg kv > s.lowerK
    · simp [h1, h2]
    · simp [h1, h2]
  · simp [h1]

/-- one iteration of the model loop, for a total source -/
theorem loop_succ (t : TOps F G) (fuel : Nat) (s : SSK) (j : Nat) (x : F) (g : G) :
    SSK.loop t.toOps (fuel + 1) s j x g =
      if ¬ (j < s.m) then .ok s else
      if t.early (t.step x j (t.fe g).1) s.lowerK then .ok s else
      if t.cand (t.step x j (t.fe g).1) ≤ s.lowerK then .ok s else
      match s.fy.nextOff (t.offsetOf (t.fu (t.fe g).2).1 (s.fy.m - s.fy.cursor)) with
      | .error e => .error e
      | .ok (i, fy) =>
        match s.kvec[i]? with
        | none => .error (.oob "setsketch k_vec[i]")
        | some old =>
          if t.cand (t.step x j (t.fe g).1) > old then
            SSK.loop t.toOps fuel (bump { s with fy := fy } i (t.cand (t.step x j (t.fe g).1))) (j + 1)
              (t.step x j (t.fe g).1) (t.fu (t.fe g).2).2
          else SSK.loop t.toOps fuel { s with fy := fy } (j + 1) (t.step x j (t.fe g).1) (t.fu (t.fe g).2).2 := by
  rfl

/-! ### one register update = `Race.offer` -/

theorem offer_reg_eq {V T : Type} [LinearOrder V] (st : St V T) (p : Pt V T) (k : Nat) :
    (offer st p).reg k = if k = p.pos then min (st.reg k) p.val else st.reg k := by
  unfold offer
  by_cases hlt : p.val < st.reg p.pos
  · simp only [hlt, if_true]
    by_cases hk : k = p.pos
    · subst hk; simp [min_eq_right (le_of_lt hlt)]
    · simp [hk]
  · simp only [hlt, if_false]
    by_cases hk : k = p.pos
    · subst hk; simp [min_eq_left (not_lt.mp hlt)]
    · simp [hk]

theorem getD_setIfInBounds (a : Array Nat) (i v k : Nat) :
    (a.setIfInBounds i v).getD k 0 = if i = k ∧ i < a.size then v else a.getD k 0 := by
  simp only [Array.getD_eq_getD_getElem?, Array.getElem?_setIfInBounds]
  by_cases h1 : i = k
  · subst h1
    by_cases h2 : i < a.size
    · simp [h2]
    · simp [h2]
  · simp [h1]

theorem bump_m (s : SSK) (i k : Nat) : (bump s i k).m = s.m := (bumpCore_fields s _ _).1

theorem bump_fy (s : SSK) (i k : Nat) : (bump s i k).fy = s.fy := (bumpCore_fields s _ _).2.1

theorem bump_imax (s : SSK) (i k : Nat) : (bump s i k).imax = s.imax := (bumpCore_fields s _ _).2.2.1

theorem bump_kvec (s : SSK) (i k : Nat) : (bump s i k).kvec = s.kvec.setIfInBounds i (min k s.imax) := by
  have key : (if k > s.imax then (s.kvec.setIfInBounds i s.imax, s.nbOverflow + 1)
              else (s.kvec.setIfInBounds i k, s.nbOverflow)).1 = s.kvec.setIfInBounds i (min k s.imax) := by
    by_cases h : k > s.imax
    · simp only [h, if_true]; rw [Nat.min_eq_right (by omega)]
    · simp only [h, if_false]; rw [Nat.min_eq_left (by omega)]
  exact (bumpCore_fields s _ _).2.2.2.1.trans key

theorem bump_lowerK (s : SSK) (i k : Nat) :
    (bump s i k).lowerK = s.lowerK ∨ (bump s i k).lowerK = SSK.minReg (bump s i k).kvec := by
  rcases (bumpCore_fields s _ _).2.2.2.2 with h | h
  · exact Or.inl h
  · right
    have e : (bump s i k).kvec = _ := (bumpCore_fields s _ _).2.2.2.1
    rw [e]; exact h

/-- the register update of the model (compare the *unclipped* candidate with the old register, store the
*clipped* one) is `Race.offer` of the clipped candidate: the register becomes `max old (min k imax)` -/
theorem bump_spec {m imax : Nat} {s : SSK} (h : WF m imax s) (i k : Nat) (hi : i < m)
    (hk : s.kvec.getD i 0 < k) :
    WF m imax (bump s i k) ∧ (bump s i k).fy = s.fy ∧
      view (bump s i k) = offer (view s) ⟨i, toDual (min k imax), ()⟩ := by
  have hkv : (bump s i k).kvec = s.kvec.setIfInBounds i (min k imax) := by rw [bump_kvec, h.himax]
  have hget : ∀ k', (bump s i k).kvec.getD k' 0 = if i = k' then min k imax else s.kvec.getD k' 0 := by
    intro k'
    rw [hkv, getD_setIfInBounds]
    by_cases e : i = k'
    · have : i < s.kvec.size := by rw [h.hsize]; exact hi
      rw [if_pos ⟨e, this⟩, if_pos e]
    · rw [if_neg (fun x => e x.1), if_neg e]
  have hold_cap := h.hcap i hi
  have hold_low := h.hlow i hi
  have hwf : WF m imax (bump s i k) := by
    refine ⟨by rw [bump_m, h.hm], by rw [hkv]; simp [h.hsize], by rw [bump_fy, h.hfm], by rw [bump_fy]; exact h.hinv,
      by rw [bump_imax, h.himax], ?_, ?_⟩
    · intro k' hk'
      rcases bump_lowerK s i k with e | e
      · rw [e, hget]
        split
        · have : s.lowerK ≤ min k imax := by rw [Nat.le_min]; omega
          exact this
        · exact h.hlow k' hk'
      · rw [e]
        exact minReg_le _ _ (by rw [hkv]; simp [h.hsize, hk'])
    · intro k' hk'
      rw [hget]
      split
      · exact Nat.min_le_right _ _
      · exact h.hcap k' hk'
  refine ⟨hwf, bump_fy s i k, ?_⟩
  apply st_ext
  intro k'
  rw [offer_reg_eq]
  by_cases hk' : k' < m
  · rw [view_reg_lt hwf k' hk', view_reg_lt h k' hk', hget]
    by_cases e : i = k'
    · subst e
      simp only [if_true]
      rw [← toDual_max]
      congr 1
      have : s.kvec.getD i 0 ≤ min k imax := by rw [Nat.le_min]; omega
      exact (max_eq_right this).symm
    · have e' : ¬ k' = i := fun x => e x.symm
      simp [e, e']
  · have hne : ¬ k' = i := by omega
    rw [view_reg_ge hwf k' (by omega), view_reg_ge h k' (by omega)]
    simp [hne]

/-- explicitly: the updated register is `max old (min k imax)`, all others are unchanged -/
theorem bump_reg {m imax : Nat} {s : SSK} (h : WF m imax s) (i k : Nat) (hi : i < m) (hk : s.kvec.getD i 0 < k) :
    (bump s i k).kvec.getD i 0 = max (s.kvec.getD i 0) (min k imax) ∧
      ∀ k', k' ≠ i → (bump s i k).kvec.getD k' 0 = s.kvec.getD k' 0 := by
  have hsz : i < s.kvec.size := by rw [h.hsize]; exact hi
  have hcap := h.hcap i hi
  rw [bump_kvec, h.himax]
  refine ⟨?_, fun k' hk' => ?_⟩
  · rw [getD_setIfInBounds, if_pos ⟨rfl, hsz⟩]
    have : s.kvec.getD i 0 ≤ min k imax := by rw [Nat.le_min]; omega
    exact (max_eq_right this).symm
  · rw [getD_setIfInBounds, if_neg (fun x => hk' x.1.symm)]

/-! ### the points of an item -/

/-- the (at most `n`) points still to come of the *unpruned* process at step `j`, previous stream value
`x`, generator `g`, shuffle state `fy`: draw `e_j` (`fe`), then the slot (`fu`), value = clipped candidate -/
def ptsFrom (t : TOps F G) (imax : Nat) : Nat → Nat → F → G → FY → List (Pt ℕᵒᵈ Unit)
  | 0, _, _, _, _ => []
  | n + 1, j, x, g, fy =>
    match fy.nextOff (t.offsetOf (t.fu (t.fe g).2).1 (fy.m - fy.cursor)) with
    | .ok (k, fy') =>
      ⟨k, toDual (min (t.cand (t.step x j (t.fe g).1)) imax), ()⟩ ::
        ptsFrom t imax n (j + 1) (t.step x j (t.fe g).1) (t.fu (t.fe g).2).2 fy'
    | .error _ => []

/-- **all `m` points of an item**: a function of `(t, m, imax, g)` alone -/
def itemPts (t : TOps F G) (m imax : Nat) (g : G) : Set (Pt ℕᵒᵈ Unit) :=
  {p | p ∈ ptsFrom t imax m 0 t.zero g (FY.new m).reset}

theorem ptsFrom_val_le (t : TOps F G) (hn : Nice t) (imax : Nat) :
    ∀ (n j : Nat) (x : F) (g : G) (fy : FY), Str t (t.step x j (t.fe g).1) →
      ∀ p ∈ ptsFrom t imax n j x g fy, ofDual p.val ≤ t.cand (t.step x j (t.fe g).1) := by
  intro n
  induction n with
  | zero => intro j x g fy _ p hp; simp [ptsFrom] at hp
  | succ n ih =>
    intro j x g fy hstr p hp
    simp only [ptsFrom] at hp
    split at hp
    · rcases List.mem_cons.mp hp with rfl | hp
      · exact Nat.min_le_left _ _
      · have h1 := ih _ _ _ _ (Str.next _ (j + 1) (t.fu (t.fe g).2).2 hstr) p hp
        exact le_trans h1 (hn.mono _ _ _ hstr)
    · simp at hp

theorem cursor_lt (fy : FY) (h : 0 < fy.m) : fy.cursor < fy.m := by
  unfold FY.cursor; split <;> omega

theorem ptsFrom_pos (t : TOps F G) (hn : Nice t) (imax m : Nat) :
    ∀ (n j : Nat) (x : F) (g : G) (fy : FY), fy.m = m → C17.Inv fy →
      ∀ p ∈ ptsFrom t imax n j x g fy, p.pos < m := by
  intro n
  induction n with
  | zero => intro j x g fy _ _ p hp; simp [ptsFrom] at hp
  | succ n ih =>
    intro j x g fy hfm hinv p hp
    simp only [ptsFrom] at hp
    split at hp
    · rename_i k fy' e
      rcases Nat.eq_zero_or_pos fy.m with h0 | h0
      · -- `m = 0`: no draw can succeed
        exfalso
        have hsz : fy.v.size = 0 := by
          have := hinv.length_eq; simp [h0] at this; simpa using this
        simp [FY.nextOff, hsz] at e
      · have hcur := cursor_lt fy h0
        obtain ⟨k', fy'', efy, hinv', hm', hk, _⟩ := C17.next_inv fy hinv _ (hn.off (t.fu (t.fe g).2).1 _ (by omega))
        rw [efy] at e
        injection e with e
        injection e with e1 e2
        subst e1; subst e2
        rcases List.mem_cons.mp hp with rfl | hp
        · rw [← hfm]; exact hk
        · exact ih _ _ _ _ (by rw [hm', hfm]) hinv' p hp
    · simp at hp

/-! ### the loop -/

theorem kvec_getElem? {m imax : Nat} {s : SSK} (h : WF m imax s) (i : Nat) (hi : i < m) :
    s.kvec[i]? = some (s.kvec.getD i 0) := by
  have : i < s.kvec.size := by rw [h.hsize]; exact hi
  simp [Array.getD_eq_getD_getElem?, this]

/-- a point whose (unclipped) candidate is below `lowerK` is dominated -/
theorem dominated_of_le_lowerK {m imax : Nat} {s : SSK} (h : WF m imax s) (p : Pt ℕᵒᵈ Unit) (hp : p.pos < m)
    (hv : ofDual p.val ≤ s.lowerK) : (view s).reg p.pos ≤ p.val := by
  rw [view_reg_lt h _ hp, toDual_le]
  exact le_trans hv (h.hlow _ hp)

/-- **the loop of `sketch`** never fails, keeps well-formedness and ends in a state that satisfies the
specification for the old points plus *all* remaining points of the item (`n` of them, `n ≤ fuel`). -/
theorem loop_spec (t : TOps F G) (hn : Nice t) (m imax : Nat) :
    ∀ (fuel : Nat) (s : SSK) (j : Nat) (x : F) (g : G) (P : Set (Pt ℕᵒᵈ Unit)) (n : Nat),
      WF m imax s → Spec m (toDual 0) () P (view s) → j + n = m → n ≤ fuel →
      ((x = t.zero ∧ j = 0) ∨ Str t x) →
      ∃ s', SSK.loop t.toOps fuel s j x g = .ok s' ∧ WF m imax s' ∧
        Spec m (toDual 0) () (P ∪ {p | p ∈ ptsFrom t imax n j x g s.fy}) (view s') := by
  intro fuel
  induction fuel with
  | zero =>
    intro s j x g P n hwf hs _ hnf _
    obtain rfl : n = 0 := by omega
    refine ⟨s, rfl, hwf, spec_congr hs ?_⟩
    ext p; simp [ptsFrom]
  | succ f ih =>
    intro s j x g P n hwf hs hjn hnf hx
    rw [loop_succ]
    by_cases hj : j < s.m
    · simp only [hj, not_true_eq_false, if_false]
      have hjm : j < m := by rw [← hwf.hm]; exact hj
      obtain ⟨n, rfl⟩ : ∃ n', n = n' + 1 := ⟨n - 1, by omega⟩
      have hstr : Str t (t.step x j (t.fe g).1) := by
        rcases hx with ⟨rfl, rfl⟩ | hx
        · exact Str.first g
        · exact Str.next x j g hx
      have hval := ptsFrom_val_le t hn imax (n + 1) j x g s.fy hstr
      have hpos := ptsFrom_pos t hn imax m (n + 1) j x g s.fy hwf.hfm hwf.hinv
      -- both early exits: every remaining candidate is `≤ lowerK`
      have hexit : t.cand (t.step x j (t.fe g).1) ≤ s.lowerK →
          Spec m (toDual 0) () (P ∪ {p | p ∈ ptsFrom t imax (n + 1) j x g s.fy}) (view s) := by
        intro hle
        refine spec_dominated hs ?_
        intro p hp
        exact dominated_of_le_lowerK hwf p (hpos p hp) (le_trans (hval p hp) hle)
      by_cases hearly : t.early (t.step x j (t.fe g).1) s.lowerK = true
      · simp only [hearly, if_true]
        exact ⟨s, rfl, hwf, hexit (hn.early _ _ hearly)⟩
      · simp only [hearly]
        by_cases hle : t.cand (t.step x j (t.fe g).1) ≤ s.lowerK
        · simp only [hle, if_true]
          exact ⟨s, rfl, hwf, hexit hle⟩
        · simp only [hle, if_false]
          have hcur := cursor_lt s.fy (by rw [hwf.hfm]; omega)
          obtain ⟨i, fy', efy, hinv', hm', hi, _⟩ :=
            C17.next_inv s.fy hwf.hinv _ (hn.off (t.fu (t.fe g).2).1 _ (by omega))
          have him : i < m := by rw [← hwf.hfm]; exact hi
          have hwf1 : WF m imax { s with fy := fy' } :=
            ⟨hwf.hm, hwf.hsize, by rw [← hwf.hfm]; exact hm', hinv', hwf.himax, hwf.hlow, hwf.hcap⟩
          have hv1 : view { s with fy := fy' } = view s := rfl
          have hpts : ptsFrom t imax (n + 1) j x g s.fy =
              ⟨i, toDual (min (t.cand (t.step x j (t.fe g).1)) imax), ()⟩ ::
                ptsFrom t imax n (j + 1) (t.step x j (t.fe g).1) (t.fu (t.fe g).2).2 fy' := by
            simp only [ptsFrom, efy]
          have hset : ∀ (A : Set (Pt ℕᵒᵈ Unit)),
              (P ∪ {⟨i, toDual (min (t.cand (t.step x j (t.fe g).1)) imax), ()⟩}) ∪ A =
              P ∪ ({⟨i, toDual (min (t.cand (t.step x j (t.fe g).1)) imax), ()⟩} ∪ A) := fun A => Set.union_assoc _ _ _
          have hfin : ∀ s1, WF m imax s1 → s1.fy = fy' →
              Spec m (toDual 0) () (P ∪ {⟨i, toDual (min (t.cand (t.step x j (t.fe g).1)) imax), ()⟩}) (view s1) →
              ∃ s', SSK.loop t.toOps f s1 (j + 1) (t.step x j (t.fe g).1) (t.fu (t.fe g).2).2 = .ok s' ∧ WF m imax s' ∧
                Spec m (toDual 0) () (P ∪ {p | p ∈ ptsFrom t imax (n + 1) j x g s.fy}) (view s') := by
            intro s1 hwf' hfy hs'
            obtain ⟨s', e, wf', sp'⟩ := ih s1 (j + 1) (t.step x j (t.fe g).1) (t.fu (t.fe g).2).2 _ n hwf' hs'
              (by omega) (by omega) (Or.inr hstr)
            refine ⟨s', e, wf', spec_congr sp' ?_⟩
            rw [hpts, hfy]
            ext p
            simp only [Set.mem_union, Set.mem_singleton_iff, Set.mem_ofPred_eq, List.mem_cons]
            tauto
          rw [efy]
          dsimp only
          rw [kvec_getElem? hwf i him]
          dsimp only
          by_cases hgt : t.cand (t.step x j (t.fe g).1) > s.kvec.getD i 0
          · simp only [hgt, if_true]
            obtain ⟨wf2, fy2, v2⟩ := bump_spec hwf1 i (t.cand (t.step x j (t.fe g).1)) him hgt
            refine hfin _ wf2 fy2 ?_
            rw [v2, hv1]
            exact spec_offer hs _
          · simp only [hgt, if_false]
            refine hfin _ hwf1 rfl ?_
            rw [hv1]
            refine spec_dominated hs ?_
            intro p hp
            rw [Set.mem_singleton_iff] at hp; subst hp
            rw [view_reg_lt hwf _ him, toDual_le_toDual]
            exact le_trans (Nat.min_le_left _ _) (not_lt.mp hgt)
    · simp only [hj, not_false_eq_true, if_true]
      obtain rfl : n = 0 := by have := hwf.hm; omega
      refine ⟨s, rfl, hwf, spec_congr hs ?_⟩
      ext p; simp [ptsFrom]

/-- **(4) `sketch` refines the specification**: the new state is well-formed and holds, per register, the
maximum over the old points and all `m` points of the item. -/
theorem sketch_spec (t : TOps F G) (hn : Nice t) {m imax : Nat} {s s' : SSK} (g : G) (P : Set (Pt ℕᵒᵈ Unit))
    (hwf : WF m imax s) (hs : Spec m (toDual 0) () P (view s)) (e : s.sketch t.toOps g = .ok s') :
    WF m imax s' ∧ Spec m (toDual 0) () (P ∪ itemPts t m imax g) (view s') := by
  have hwf1 : WF m imax { s with fy := s.fy.reset } :=
    ⟨hwf.hm, hwf.hsize, by simp [FY.reset, hwf.hfm], C17.reset_inv _, hwf.himax, hwf.hlow, hwf.hcap⟩
  obtain ⟨s'', e', wf', sp'⟩ := loop_spec t hn m imax (s.m + 1) { s with fy := s.fy.reset } 0 t.zero g P m hwf1 hs
    (by omega) (by have := hwf.hm; omega) (Or.inl ⟨rfl, rfl⟩)
  unfold SSK.sketch at e
  have hz : t.toOps.zero = t.zero := rfl
  rw [hz, e'] at e
  injection e with e; subst e
  refine ⟨wf', ?_⟩
  have hreset : s.fy.reset = (FY.new m).reset := C17.reset_forgets _ _ (by rw [hwf.hfm]; rfl)
  dsimp only at sp'
  rw [hreset] at sp'
  exact sp'

/-- every well-formed state satisfies the specification for *some* point set (its own registers) -/
theorem spec_self {m imax : Nat} {s : SSK} (hwf : WF m imax s) :
    Spec m (toDual 0) () {p | p.pos < m ∧ p.val = (view s).reg p.pos} (view s) := by
  refine ⟨fun p hp => le_of_eq hp.2.symm, fun k hk => ?_⟩
  rcases Nat.eq_zero_or_pos (s.kvec.getD k 0) with h0 | h0
  · left; exact ⟨by rw [view_reg_lt hwf k hk, h0], rfl⟩
  · right
    refine ⟨by rw [view_reg_lt hwf k hk, toDual_lt_toDual]; exact h0, ⟨k, (view s).reg k, ()⟩, ⟨hk, rfl⟩, rfl, rfl, rfl⟩

/-- **(5) `sketch` never panics** on a well-formed state (also for `m = 0`, where it does nothing) -/
theorem sketch_ok (t : TOps F G) (hn : Nice t) {m imax : Nat} {s : SSK} (g : G) (hwf : WF m imax s) :
    ∃ s', s.sketch t.toOps g = .ok s' := by
  have hwf1 : WF m imax { s with fy := s.fy.reset } :=
    ⟨hwf.hm, hwf.hsize, by simp [FY.reset, hwf.hfm], C17.reset_inv _, hwf.himax, hwf.hlow, hwf.hcap⟩
  obtain ⟨s'', e', _, _⟩ := loop_spec t hn m imax (s.m + 1) { s with fy := s.fy.reset } 0 t.zero g _ m hwf1
    (spec_self hwf1) (by omega) (by have := hwf.hm; omega) (Or.inl ⟨rfl, rfl⟩)
  exact ⟨s'', e'⟩

/-! ### the item's points occupy every slot exactly once -/

theorem ptsFrom_perm (t : TOps F G) (hn : Nice t) (imax : Nat) :
    ∀ (n j : Nat) (x : F) (g : G) (fy : FY) (pre rest : List Nat), rest.length = n → fy.v.toList = pre ++ rest →
      (n ≠ 0 → fy.cursor = pre.length) → pre.length + n = fy.m →
      List.Perm ((ptsFrom t imax n j x g fy).map Pt.pos) rest := by
  intro n
  induction n with
  | zero =>
    intro j x g fy pre rest hl _ _ _
    have : rest = [] := List.length_eq_zero_iff.mp hl
    subst this; simp [ptsFrom]
  | succ n ih =>
    intro j x g fy pre rest hl hv hcur hm
    cases rest with
    | nil => simp at hl
    | cons x0 xs =>
      have hxl : xs.length = n := by simpa using hl
      have hcur' := hcur (by omega)
      have hc : t.offsetOf (t.fu (t.fe g).2).1 (fy.m - fy.cursor) < xs.length + 1 := by
        have := hn.off (t.fu (t.fe g).2).1 (fy.m - fy.cursor) (by omega)
        omega
      obtain ⟨fy', e1, v1, l1, m1⟩ := FYP.nextOff_step fy pre x0 xs _ hv hcur' hc
      simp only [ptsFrom, e1, List.map_cons]
      have hcur1 : n ≠ 0 → fy'.cursor = (pre ++ [FYL.pick x0 xs (t.offsetOf (t.fu (t.fe g).2).1 (fy.m - fy.cursor))]).length := by
        intro hn0
        unfold FY.cursor
        rw [l1, m1]
        simp only [List.length_append, List.length_cons, List.length_nil]
        split <;> omega
      have := ih (j + 1) (t.step x j (t.fe g).1) (t.fu (t.fe g).2).2 fy'
        (pre ++ [FYL.pick x0 xs (t.offsetOf (t.fu (t.fe g).2).1 (fy.m - fy.cursor))])
        (FYL.nextRest x0 xs (t.offsetOf (t.fu (t.fe g).2).1 (fy.m - fy.cursor)))
        (by rw [FYL.nextRest_length]; exact hxl) (by simpa using v1) hcur1 (by rw [m1]; simp; omega)
      exact (List.Perm.cons _ this).trans (FYL.step_perm x0 xs _ hc)

/-- the slots of the `m` points of an item are a permutation of `0..m-1`: **every register receives
exactly one point of every item** -/
theorem itemPts_pos_perm (t : TOps F G) (hn : Nice t) (m imax : Nat) (g : G) :
    List.Perm ((ptsFrom t imax m 0 t.zero g (FY.new m).reset).map Pt.pos) (List.range m) :=
  ptsFrom_perm t hn imax m 0 t.zero g (FY.new m).reset [] (List.range m) (by simp) (by simp [FY.reset, FY.new])
    (by intro _; simp [FY.cursor, FY.reset, FY.new]) (by simp [FY.reset, FY.new])

theorem itemPts_length (t : TOps F G) (hn : Nice t) (m imax : Nat) (g : G) :
    (ptsFrom t imax m 0 t.zero g (FY.new m).reset).length = m := by
  have := (itemPts_pos_perm t hn m imax g).length_eq
  simpa using this

theorem itemPts_slot (t : TOps F G) (hn : Nice t) (m imax : Nat) (g : G) (k : Nat) (hk : k < m) :
    ∃ p ∈ itemPts t m imax g, p.pos = k := by
  have : k ∈ (ptsFrom t imax m 0 t.zero g (FY.new m).reset).map Pt.pos :=
    (itemPts_pos_perm t hn m imax g).symm.subset (List.mem_range.mpr hk)
  obtain ⟨p, hp, e⟩ := List.mem_map.mp this
  exact ⟨p, hp, e⟩

/-! ### `new`, `reinit` -/

/-- **(6)** a fresh sketcher is well-formed and satisfies the specification for the empty point set -/
theorem new_wf (b : Float) (m : Nat) (a : Float) (q imax : Nat) (lnb : Float) :
    WF m imax (SSK.new b m a q imax lnb) ∧ Spec m (toDual 0) () ∅ (view (SSK.new b m a q imax lnb)) := by
  have hget : ∀ k, (Array.replicate m 0).getD k 0 = 0 := by
    intro k
    simp only [Array.getD_eq_getD_getElem?, Array.getElem?_replicate]; split <;> simp
  refine ⟨⟨rfl, by simp [SSK.new], rfl, C17.new_inv m, rfl, ?_, ?_⟩, ?_⟩
  · intro k _; simp [SSK.new]
  · intro k _; simp only [SSK.new, hget]; omega
  · refine ⟨fun _ hp => absurd hp (Set.notMem_empty _), fun k hk => Or.inl ⟨?_, rfl⟩⟩
    simp only [view, SSK.new, hget]; simp

/-- **(9) `reinit`** restores the registers, `lowerK` and the counters of `new` with the same parameters;
the shuffle is `reset` (which draws exactly like a new one, `C17.reset_like_new`) -/
theorem reinit_eq_new (s : SSK) :
    s.reinit.kvec = Array.replicate s.m 0 ∧ s.reinit.lowerK = 0 ∧ s.reinit.nbmin = 0 ∧ s.reinit.nbOverflow = 0 ∧
    s.reinit.fy = s.fy.reset ∧
    s.reinit.kvec = (SSK.new s.b s.m s.a s.q s.imax s.lnb).kvec ∧
    s.reinit.lowerK = (SSK.new s.b s.m s.a s.q s.imax s.lnb).lowerK ∧
    s.reinit.nbmin = (SSK.new s.b s.m s.a s.q s.imax s.lnb).nbmin ∧
    s.reinit.nbOverflow = (SSK.new s.b s.m s.a s.q s.imax s.lnb).nbOverflow ∧
    s.reinit.b = s.b ∧ s.reinit.m = s.m ∧ s.reinit.a = s.a ∧ s.reinit.q = s.q ∧ s.reinit.imax = s.imax ∧
    s.reinit.lnb = s.lnb :=
  ⟨rfl, rfl, rfl, rfl, rfl, rfl, rfl, rfl, rfl, rfl, rfl, rfl, rfl, rfl, rfl⟩

/-- … the only difference to `new` is the shuffle's `lastidx` (`0` instead of `m`): -/
theorem reinit_eq_new_mod_fy (s : SSK) (h : s.fy.m = s.m) :
    s.reinit = { SSK.new s.b s.m s.a s.q s.imax s.lnb with fy := ⟨s.m, Array.range s.m, 0⟩ } := by
  simp only [SSK.reinit, SSK.new, FY.reset, h]

/-- … which no draw can observe -/
theorem reinit_nextOff (s : SSK) (h : s.fy.m = s.m) (c : Nat) :
    s.reinit.fy.nextOff c = (SSK.new s.b s.m s.a s.q s.imax s.lnb).fy.nextOff c := by
  have := C17.reset_like_new s.fy c
  rw [h] at this
  exact this

/-- … and after `reinit` the sketcher processes every item exactly like a new one -/
theorem reinit_sketch (s : SSK) (h : s.fy.m = s.m) (o : SskOps F G) (g : G) :
    s.reinit.sketch o g = (SSK.new s.b s.m s.a s.q s.imax s.lnb).sketch o g := by
  unfold SSK.sketch
  have : ({ s.reinit with fy := s.reinit.fy.reset } : SSK) =
      { SSK.new s.b s.m s.a s.q s.imax s.lnb with fy := (SSK.new s.b s.m s.a s.q s.imax s.lnb).fy.reset } := by
    simp only [SSK.reinit, SSK.new, FY.reset, FY.new, h]
  rw [this]
  rfl

theorem reinit_wf {m imax : Nat} {s : SSK} (h : WF m imax s) :
    WF m imax s.reinit ∧ Spec m (toDual 0) () ∅ (view s.reinit) := by
  have hm := h.hm
  have hi := h.himax
  subst hm; subst hi
  obtain ⟨w, sp⟩ := new_wf s.b s.m s.a s.q s.imax s.lnb
  exact ⟨⟨rfl, w.hsize, by simp [SSK.reinit, FY.reset, h.hfm], C17.reset_inv _, rfl, w.hlow, w.hcap⟩, sp⟩

/-! ### `lowerK` -/

/-- **(8)** the reported lowest register never exceeds any register … -/
theorem lowerK_le_min {m imax : Nat} {s : SSK} (h : WF m imax s) (k : Nat) (hk : k < m) :
    s.lowerK ≤ s.kvec.getD k 0 := h.hlow k hk

/-- … i.e. it is below the true minimum `minReg` (the value `get_low_register`-style scans compute) -/
theorem lowerK_le_minReg {m imax : Nat} {s : SSK} (h : WF m imax s) (hm : 1 ≤ m) : s.lowerK ≤ SSK.minReg s.kvec := by
  obtain ⟨k, hk, e⟩ := minReg_mem s.kvec (by rw [h.hsize]; omega)
  rw [e]; exact h.hlow k (by rw [← h.hsize]; exact hk)

/-! ### `merge` -/

/-- the floating-point part of the compatibility test of `merge` (`eps = f64::EPSILON`) -/
def fmismatch (s o : SSK) : Bool :=
  Float.abs (s.b - o.b) / s.b >= Float.ofBits 0x3CB0000000000000 ||
    Float.abs (s.a - o.a) / s.a >= Float.ofBits 0x3CB0000000000000

/-- the merged register file -/
def mergedKvec (s o : SSK) : Array Nat :=
  (Array.range s.kvec.size).map (fun i => max (s.kvec.getD i 0) (o.kvec.getD i 0))

theorem merge_eq (s o : SSK) :
    s.merge o =
      if s.m ≠ o.m ∨ s.q ≠ o.q ∨ fmismatch s o = true then
        .error (.badArg "non mergeable : different sketching parameters")
      else .ok { s with kvec := mergedKvec s o, nbOverflow := s.nbOverflow + o.nbOverflow } := by
  unfold SSK.merge
  by_cases h1 : s.m ≠ o.m ∨ s.q ≠ o.q
  · have : s.m ≠ o.m ∨ s.q ≠ o.q ∨ fmismatch s o = true := by tauto
    simp only [h1, this, if_true]
  · by_cases h2 : fmismatch s o = true
    · have : s.m ≠ o.m ∨ s.q ≠ o.q ∨ fmismatch s o = true := by tauto
      simp only [h1, this, if_true, if_false]
      unfold fmismatch at h2
      simp only [h2, if_true]
    · have : ¬ (s.m ≠ o.m ∨ s.q ≠ o.q ∨ fmismatch s o = true) := by tauto
      simp only [h1, this, if_false]
      unfold fmismatch at h2
      simp only [h2]
      rfl

/-- **(7b) refusal**: `merge` returns an error — and, being a pure function into `Except`, *no* state: the
caller's `s` is untouched — exactly when the sizes or `q` differ or the relative difference of `b` or `a`
reaches `f64::EPSILON`; the error is then the `badArg` of the code. -/
theorem merge_refused_unchanged (s o : SSK) :
    ((∃ e, s.merge o = .error e) ↔ (s.m ≠ o.m ∨ s.q ≠ o.q ∨ fmismatch s o = true)) ∧
    (∀ e, s.merge o = .error e → e = .badArg "non mergeable : different sketching parameters") ∧
    ((∃ s', s.merge o = .ok s') ↔ (s.m = o.m ∧ s.q = o.q ∧ fmismatch s o = false)) := by
  rw [merge_eq]
  by_cases h : s.m ≠ o.m ∨ s.q ≠ o.q ∨ fmismatch s o = true
  · simp only [h, if_true]
    refine ⟨⟨fun _ => trivial, fun _ => ⟨_, rfl⟩⟩, fun e he => by injection he with he; exact he.symm, ?_⟩
    constructor
    · rintro ⟨s', e⟩; exact absurd e (by simp)
    · rintro ⟨h1, h2, h3⟩
      rcases h with h | h | h
      · exact absurd h1 h
      · exact absurd h2 h
      · rw [h3] at h; exact absurd h (by simp)
  · simp only [h, if_false]
    refine ⟨⟨fun ⟨e, he⟩ => absurd he (by simp), fun h' => absurd h' (by simp)⟩, fun e he => absurd he (by simp), ?_⟩
    constructor
    · intro _
      refine ⟨?_, ?_, ?_⟩
      · by_contra h1; exact h (Or.inl h1)
      · by_contra h1; exact h (Or.inr (Or.inl h1))
      · cases h3 : fmismatch s o with
        | false => rfl
        | true => exact absurd (Or.inr (Or.inr h3)) h
    · intro _; exact ⟨_, rfl⟩

theorem merge_ok_form {s o s' : SSK} (e : s.merge o = .ok s') :
    s' = { s with kvec := mergedKvec s o, nbOverflow := s.nbOverflow + o.nbOverflow } := by
  rw [merge_eq] at e
  split at e
  · exact absurd e (by simp)
  · injection e with e; exact e.symm

theorem mergedKvec_getD (s o : SSK) (k : Nat) :
    (mergedKvec s o).getD k 0 = max (s.kvec.getD k 0) (o.kvec.getD k 0) ∨
      (s.kvec.size ≤ k ∧ (mergedKvec s o).getD k 0 = 0) := by
  unfold mergedKvec
  by_cases hk : k < s.kvec.size
  · left; simp [Array.getD_eq_getD_getElem?, hk]
  · right; exact ⟨by omega, by simp [Array.getD_eq_getD_getElem?, hk]⟩

/-- **(7c)** the registers of a successful merge are the pointwise maximum; every other field but
`nbOverflow` (the sum) is that of `s` -/
theorem merge_regs {s o s' : SSK} (e : s.merge o = .ok s') :
    s'.kvec.size = s.kvec.size ∧
    (∀ k, k < s.kvec.size → s'.kvec.getD k 0 = max (s.kvec.getD k 0) (o.kvec.getD k 0)) ∧
    s'.m = s.m ∧ s'.q = s.q ∧ s'.lowerK = s.lowerK ∧ s'.fy = s.fy ∧ s'.imax = s.imax ∧ s'.nbmin = s.nbmin ∧
    s'.nbOverflow = s.nbOverflow + o.nbOverflow := by
  have := merge_ok_form e
  subst this
  refine ⟨by simp [mergedKvec], ?_, rfl, rfl, rfl, rfl, rfl, rfl, rfl⟩
  intro k hk
  rcases mergedKvec_getD s o k with h | ⟨h, _⟩
  · exact h
  · omega

/-- position-wise minimum of two `Race` states (trivial tags) satisfies the specification of the union -/
theorem spec_min {V : Type} [LinearOrder V] {m : Nat} {top : V} {P Q : Set (Pt V Unit)} {a b u : St V Unit}
    (ha : Spec m top () P a) (hb : Spec m top () Q b) (hu : ∀ k, u.reg k = min (a.reg k) (b.reg k)) :
    Spec m top () (P ∪ Q) u := by
  refine ⟨?_, ?_⟩
  · intro p hp
    rw [hu]
    rcases hp with hp | hp
    · exact le_trans (min_le_left _ _) (ha.1 p hp)
    · exact le_trans (min_le_right _ _) (hb.1 p hp)
  · intro k hk
    have side : ∀ {R : Set (Pt V Unit)} {c : St V Unit}, R ⊆ P ∪ Q → Spec m top () R c → u.reg k = c.reg k →
        (u.reg k = top ∧ u.tag k = ()) ∨
          (u.reg k < top ∧ ∃ pt ∈ P ∪ Q, pt.pos = k ∧ pt.val = u.reg k ∧ pt.tag = u.tag k) := by
      intro R c hR hc e
      rcases hc.2 k hk with h0 | ⟨hlt, pt, hpt, h1, h2, _⟩
      · left; exact ⟨by rw [e, h0.1], rfl⟩
      · right; exact ⟨by rw [e]; exact hlt, pt, hR hpt, h1, by rw [e]; exact h2, rfl⟩
    rcases min_choice (a.reg k) (b.reg k) with e | e
    · exact side Set.subset_union_left ha (by rw [hu, e])
    · exact side Set.subset_union_right hb (by rw [hu, e])

/-- **(7a) `merge` refines the specification**: the merged sketcher is well-formed and holds, per register,
the maximum over the points of both inputs — it is a sketch of the union. -/
theorem merge_spec {m imax : Nat} {s o s' : SSK} (P Q : Set (Pt ℕᵒᵈ Unit))
    (hs : WF m imax s) (ho : WF m imax o) (sp : Spec m (toDual 0) () P (view s))
    (sq : Spec m (toDual 0) () Q (view o)) (e : s.merge o = .ok s') :
    WF m imax s' ∧ Spec m (toDual 0) () (P ∪ Q) (view s') := by
  obtain ⟨hsz, hreg, hm, _, hlow, hfy, himax, _, _⟩ := merge_regs e
  have hreg' : ∀ k, k < m → s'.kvec.getD k 0 = max (s.kvec.getD k 0) (o.kvec.getD k 0) :=
    fun k hk => hreg k (by rw [hs.hsize]; exact hk)
  have hwf : WF m imax s' := by
    refine ⟨by rw [hm, hs.hm], by rw [hsz, hs.hsize], by rw [hfy, hs.hfm], by rw [hfy]; exact hs.hinv,
      by rw [himax, hs.himax], ?_, ?_⟩
    · intro k hk
      rw [hlow, hreg' k hk]
      exact le_trans (hs.hlow k hk) (le_max_left _ _)
    · intro k hk
      rw [hreg' k hk]
      exact max_le (hs.hcap k hk) (ho.hcap k hk)
  refine ⟨hwf, spec_min sp sq ?_⟩
  intro k
  by_cases hk : k < m
  · rw [view_reg_lt hwf k hk, view_reg_lt hs k hk, view_reg_lt ho k hk, hreg' k hk, toDual_max]
  · rw [view_reg_ge hwf k (by omega), view_reg_ge hs k (by omega), view_reg_ge ho k (by omega), min_self]

/-- consequently merging is the same as sketching the union: any well-formed state that satisfies the
specification for `P ∪ Q` (e.g. one that was fed both streams) has the registers of the merge -/
theorem merge_eq_union {m imax : Nat} {s o s' u : SSK} (P Q : Set (Pt ℕᵒᵈ Unit))
    (hs : WF m imax s) (ho : WF m imax o) (hu : WF m imax u) (sp : Spec m (toDual 0) () P (view s))
    (sq : Spec m (toDual 0) () Q (view o)) (su : Spec m (toDual 0) () (P ∪ Q) (view u))
    (e : s.merge o = .ok s') : ∀ k, k < m → u.kvec.getD k 0 = s'.kvec.getD k 0 := by
  intro k hk
  obtain ⟨hwf, sm⟩ := merge_spec P Q hs ho sp sq e
  have := spec_unique_reg su sm k hk
  rw [view_reg_lt hu k hk, view_reg_lt hwf k hk] at this
  exact this

/-- the order in which items are sketched is irrelevant, duplicates are idempotent: registers are a
function of the *set* of points -/
theorem regs_unique {m imax : Nat} {s u : SSK} (P : Set (Pt ℕᵒᵈ Unit)) (hs : WF m imax s) (hu : WF m imax u)
    (sp : Spec m (toDual 0) () P (view s)) (su : Spec m (toDual 0) () P (view u)) :
    ∀ k, k < m → s.kvec.getD k 0 = u.kvec.getD k 0 := by
  intro k hk
  have := spec_unique_reg sp su k hk
  rw [view_reg_lt hs k hk, view_reg_lt hu k hk] at this
  exact this

/-! ### non-vacuity: a toy source satisfying `Nice`, run through the executable model -/
section Example
/-- `x_j = x_{j-1} + 1 + (g mod 3)`, candidate `20 - x`, slot offsets `u mod n` -/
def toy : TOps Nat Nat :=
  { fe := fun g => (1 + g % 3, g + 1), fu := fun g => (UInt64.ofNat (7 * g + 3), g + 1),
    offsetOf := fun u n => u.toNat % n, zero := 0, step := fun x _ e => x + e,
    early := fun x L => decide (20 - x ≤ L), cand := fun x => 20 - x }

theorem toy_nice : Nice toy :=
  ⟨fun u n hn => Nat.mod_lt _ hn, fun x j g _ => by simp only [toy]; omega, fun x L h => by simpa [toy] using h⟩

-- the executable model on the toy source, and the item's points (evaluated, not proved)
#guard ((SSK.new 2.0 4 20.0 62 15 0.69).sketch toy.toOps 0).toOption.map (·.kvec) == some #[14, 15, 15, 13]
#guard (ptsFrom toy 15 4 0 toy.zero 0 (FY.new 4).reset).map (fun p => (p.pos, ofDual p.val)) ==
  [(2, 15), (1, 15), (0, 14), (3, 13)]
#guard (((SSK.new 2.0 4 20.0 62 15 0.69).sketch toy.toOps 0).toOption.bind
  (fun s => (s.sketch toy.toOps 5).toOption)).map (fun s => (s.kvec, s.lowerK)) == some (#[14, 15, 15, 15], 13)
#guard (ptsFrom toy 15 4 0 toy.zero 5 (FY.new 4).reset).map (fun p => (p.pos, ofDual p.val)) ==
  [(1, 15), (3, 15), (0, 14), (2, 11)]
end Example

end PMH.SSKP

import PMH.Proofs.Race
import PMH.Proofs.CS
import Mathlib.Order.OrderDual
import Mathlib.Order.Nat
/-!
# `Coll`: from `Race.Spec` to `CS.argmin`, and the exact Jaccard collision law for registers/tags

Every MinHash-type sketcher refines `Race.Spec` for the set of points of the items it saw.  When
each item `d` contributes exactly one relevant score `sc d p` per position `p` (unweighted sketchers,
equal weights), the point set is `pointsOf sc tg m A`.  Then

* the register at `p` is the score of `CS.argmin (fun d => sc d p) A` (`reg_eq_argmin`), and with
  tie-free scores the tag is the tag of that item (`tag_eq_argmin`);
* two sketches agree at `p` iff the arg-mins agree iff the arg-min of the union lies in the
  intersection (`regs_collide_iff`, `regs_collide_iff_inter`, `tags_collide_iff`, …);
* over a permutation-closed finite set `Ω` of per-item randomness with equivariant scores, the
  number of `r ∈ Ω` with equal registers (tags) at `p`, times `|A ∪ B|`, is `|A ∩ B| · #Ω`
  (`collision_count_regs`, `collision_count_tags`), and each item of `A` is shown at position `p`
  for exactly `#Ω / |A|` of the `r` (`position_holds_item_count`).

Max-register sketches (SetSketch) are the instance `V := Wᵒᵈ`.
-/
namespace PMH.Coll
open PMH

section Order
variable {Item V T : Type} [LinearOrder V]

/-- the points of a set `A` of items: item `d` offers `sc d p` with tag `tg d` at every `p < m` -/
def pointsOf (sc : Item → ℕ → V) (tg : Item → T) (m : ℕ) (A : Finset Item) : Set (Race.Pt V T) :=
  {pt | ∃ d ∈ A, ∃ p, p < m ∧ pt = ⟨p, sc d p, tg d⟩}

omit [LinearOrder V] in
theorem mem_pointsOf {sc : Item → ℕ → V} {tg : Item → T} {m : ℕ} {A : Finset Item} {d : Item}
    (hd : d ∈ A) {p : ℕ} (hp : p < m) : (⟨p, sc d p, tg d⟩ : Race.Pt V T) ∈ pointsOf sc tg m A :=
  ⟨d, hd, p, hp, rfl⟩

omit [LinearOrder V] in
theorem pointsOf_mono {sc : Item → ℕ → V} {tg : Item → T} {m : ℕ} {A B : Finset Item}
    (h : A ⊆ B) : pointsOf sc tg m A ⊆ pointsOf sc tg m B := by
  rintro pt ⟨d, hd, p, hp, rfl⟩
  exact ⟨d, h hd, p, hp, rfl⟩

omit [LinearOrder V] in
theorem pointsOf_union [DecidableEq Item] (sc : Item → ℕ → V) (tg : Item → T) (m : ℕ)
    (A B : Finset Item) :
    pointsOf sc tg m (A ∪ B) = pointsOf sc tg m A ∪ pointsOf sc tg m B := by
  ext pt
  constructor
  · rintro ⟨d, hd, p, hp, rfl⟩
    rcases Finset.mem_union.mp hd with h | h
    · exact Or.inl ⟨d, h, p, hp, rfl⟩
    · exact Or.inr ⟨d, h, p, hp, rfl⟩
  · rintro (h | h)
    · exact pointsOf_mono Finset.subset_union_left h
    · exact pointsOf_mono Finset.subset_union_right h

/-- the points of the empty set leave every position untouched -/
theorem spec_empty_reg {m : ℕ} {top : V} {init : T} {sc : Item → ℕ → V} {tg : Item → T}
    {s : Race.St V T} (h : Race.Spec m top init (pointsOf sc tg m (∅ : Finset Item)) s)
    (p : ℕ) (hp : p < m) : s.reg p = top ∧ s.tag p = init := by
  rcases h.2 p hp with h0 | ⟨_, pt, ⟨d, hd, _⟩, _⟩
  · exact h0
  · exact absurd hd (Finset.notMem_empty d)

omit [LinearOrder V] in
/-- tie-free scores on `A` at every position make the point set `Race.TieFree` -/
theorem tieFree_pointsOf {sc : Item → ℕ → V} {tg : Item → T} {m : ℕ} {A : Finset Item}
    (hinj : ∀ p, p < m → Set.InjOn (fun d => sc d p) ↑A) : Race.TieFree (pointsOf sc tg m A) := by
  rintro _ ⟨d, hd, p, hp, rfl⟩ _ ⟨e, he, q, _, rfl⟩ hpos hval
  have hpq : p = q := hpos
  subst hpq
  have : d = e := hinj p hp hd he hval
  subst this
  rfl

variable [Inhabited Item]

/-- `CS.argmin_unique` for scores that are tie-free on `S` only -/
theorem argmin_unique_on {w : Item → V} {S : Finset Item} (hw : Set.InjOn w ↑S) {d : Item}
    (hd : d ∈ S) (hmin : ∀ d' ∈ S, w d ≤ w d') : d = CS.argmin w S := by
  obtain ⟨hm, hle⟩ := CS.argmin_spec w ⟨d, hd⟩
  exact hw hd hm (le_antisymm (hmin _ hm) (hle _ hd))

/-- restriction property of `argmin` for scores that are tie-free on the superset -/
theorem argmin_restrict_on {w : Item → V} {S U : Finset Item} (hSU : S ⊆ U)
    (hw : Set.InjOn w ↑U) (hin : CS.argmin w U ∈ S) : CS.argmin w S = CS.argmin w U :=
  (argmin_unique_on (hw.mono (Finset.coe_subset.mpr hSU)) hin
    (fun d' hd' => (CS.argmin_spec w ⟨d', hSU hd'⟩).2 d' (hSU hd'))).symm

/-- `CS.collision_iff_min_in_inter'` for scores that are tie-free on `A ∪ B` only -/
theorem argmin_collision_on [DecidableEq Item] {w : Item → V} {A B : Finset Item}
    (hw : Set.InjOn w ↑(A ∪ B)) (hA : A.Nonempty) (hB : B.Nonempty) :
    CS.argmin w A = CS.argmin w B ↔ CS.argmin w (A ∪ B) ∈ A ∩ B := by
  have hU : (A ∪ B).Nonempty := hA.mono Finset.subset_union_left
  constructor
  · intro h
    rcases Finset.mem_union.mp (CS.argmin_spec w hU).1 with hm | hm
    · have e := argmin_restrict_on Finset.subset_union_left hw hm
      refine Finset.mem_inter.mpr ⟨hm, ?_⟩
      rw [← e, h]; exact (CS.argmin_spec w hB).1
    · have e := argmin_restrict_on Finset.subset_union_right hw hm
      refine Finset.mem_inter.mpr ⟨?_, hm⟩
      rw [← e, ← h]; exact (CS.argmin_spec w hA).1
  · intro h
    obtain ⟨ha, hb⟩ := Finset.mem_inter.mp h
    rw [argmin_restrict_on Finset.subset_union_left hw ha,
      argmin_restrict_on Finset.subset_union_right hw hb]

/-! ### registers and tags are those of the arg-min item -/

/-- position-wise core: position `p` holds the value and tag of an item of `A` whose score at `p`
equals that of the arg-min -/
theorem spec_holds_min {m : ℕ} {top : V} {init : T} {sc : Item → ℕ → V} {tg : Item → T}
    {A : Finset Item} {s : Race.St V T} (h : Race.Spec m top init (pointsOf sc tg m A) s)
    (hA : A.Nonempty) {p : ℕ} (hp : p < m) (htop : ∀ d ∈ A, sc d p < top) :
    ∃ d ∈ A, s.reg p = sc d p ∧ s.tag p = tg d ∧
      sc d p = sc (CS.argmin (fun d => sc d p) A) p := by
  obtain ⟨hm, hle⟩ := CS.argmin_spec (fun d => sc d p) hA
  have h1 : s.reg p ≤ sc (CS.argmin (fun d => sc d p) A) p := h.1 _ (mem_pointsOf hm hp)
  have hlt : s.reg p < top := lt_of_le_of_lt h1 (htop _ hm)
  obtain ⟨pt, ⟨d, hd, q, _, rfl⟩, hpos, htag, hval⟩ := Race.spec_tag_mem h p hp hlt
  have hqp : q = p := hpos
  subst hqp
  have hval' : sc d q = s.reg q := hval
  have htag' : tg d = s.tag q := htag
  refine ⟨d, hd, hval'.symm, htag'.symm, le_antisymm ?_ (hle d hd)⟩
  rw [hval']; exact h1

/-- `reg_eq_argmin`, with the bound on the scores assumed at position `p` only -/
theorem reg_eq_argmin_at {m : ℕ} {top : V} {init : T} {sc : Item → ℕ → V} {tg : Item → T}
    {A : Finset Item} {s : Race.St V T} (h : Race.Spec m top init (pointsOf sc tg m A) s)
    (hA : A.Nonempty) {p : ℕ} (hp : p < m) (htop : ∀ d ∈ A, sc d p < top) :
    s.reg p = sc (CS.argmin (fun d => sc d p) A) p := by
  obtain ⟨d, _, h1, _, h3⟩ := spec_holds_min h hA hp htop
  rw [h1, h3]

/-- `tag_eq_argmin`, with the hypotheses on the scores assumed at position `p` only -/
theorem tag_eq_argmin_at {m : ℕ} {top : V} {init : T} {sc : Item → ℕ → V} {tg : Item → T}
    {A : Finset Item} {s : Race.St V T} (h : Race.Spec m top init (pointsOf sc tg m A) s)
    (hA : A.Nonempty) {p : ℕ} (hp : p < m) (htop : ∀ d ∈ A, sc d p < top)
    (hinj : Set.InjOn (fun d => sc d p) ↑A) :
    s.tag p = tg (CS.argmin (fun d => sc d p) A) := by
  obtain ⟨d, hd, _, h2, h3⟩ := spec_holds_min h hA hp htop
  have : d = CS.argmin (fun d => sc d p) A := hinj hd (CS.argmin_spec _ hA).1 h3
  rw [h2, this]

/-- **the register at `p` is the score of the arg-min item of `A` at `p`** -/
theorem reg_eq_argmin {m : ℕ} {top : V} {init : T} {sc : Item → ℕ → V} {tg : Item → T}
    {A : Finset Item} {s : Race.St V T} (h : Race.Spec m top init (pointsOf sc tg m A) s)
    (hA : A.Nonempty) (htop : ∀ d ∈ A, ∀ p, p < m → sc d p < top) :
    ∀ p, p < m → s.reg p = sc (CS.argmin (fun d => sc d p) A) p :=
  fun p hp => reg_eq_argmin_at h hA hp (fun d hd => htop d hd p hp)

/-- **with tie-free scores, the tag at `p` is the tag of the arg-min item of `A` at `p`** -/
theorem tag_eq_argmin {m : ℕ} {top : V} {init : T} {sc : Item → ℕ → V} {tg : Item → T}
    {A : Finset Item} {s : Race.St V T} (h : Race.Spec m top init (pointsOf sc tg m A) s)
    (hA : A.Nonempty) (htop : ∀ d ∈ A, ∀ p, p < m → sc d p < top)
    (hinj : ∀ p, p < m → Set.InjOn (fun d => sc d p) ↑A) :
    ∀ p, p < m → s.tag p = tg (CS.argmin (fun d => sc d p) A) :=
  fun p hp => tag_eq_argmin_at h hA hp (fun d hd => htop d hd p hp) (hinj p hp)

/-- converse (non-vacuity of the `Spec` hypotheses): the arg-min state satisfies the specification -/
theorem spec_argmin_state (m : ℕ) (top : V) (init : T) (sc : Item → ℕ → V) (tg : Item → T)
    {A : Finset Item} (hA : A.Nonempty) (htop : ∀ d ∈ A, ∀ p, p < m → sc d p < top) :
    Race.Spec m top init (pointsOf sc tg m A)
      ⟨fun p => sc (CS.argmin (fun d => sc d p) A) p, fun p => tg (CS.argmin (fun d => sc d p) A)⟩ := by
  refine ⟨?_, fun p hp => Or.inr ⟨?_, _, mem_pointsOf (CS.argmin_spec _ hA).1 hp, rfl, rfl, rfl⟩⟩
  · rintro _ ⟨d, hd, p, _, rfl⟩
    exact (CS.argmin_spec (fun d => sc d p) hA).2 d hd
  · exact htop _ (CS.argmin_spec _ hA).1 p hp

/-! ### collisions of two sketches -/
section Collide
variable [DecidableEq Item] {m : ℕ} {top : V} {init : T} {sc : Item → ℕ → V} {tg : Item → T}
  {A B : Finset Item} {a b : Race.St V T}

/-- **registers agree at `p` iff the arg-min items of `A` and `B` at `p` agree** -/
theorem regs_collide_iff (ha : Race.Spec m top init (pointsOf sc tg m A) a)
    (hb : Race.Spec m top init (pointsOf sc tg m B) b) (hA : A.Nonempty) (hB : B.Nonempty)
    {p : ℕ} (hp : p < m) (htop : ∀ d ∈ A ∪ B, sc d p < top)
    (hinj : Set.InjOn (fun d => sc d p) ↑(A ∪ B)) :
    a.reg p = b.reg p ↔ CS.argmin (fun d => sc d p) A = CS.argmin (fun d => sc d p) B := by
  rw [reg_eq_argmin_at ha hA hp (fun d hd => htop d (Finset.mem_union_left _ hd)),
    reg_eq_argmin_at hb hB hp (fun d hd => htop d (Finset.mem_union_right _ hd))]
  constructor
  · intro h
    exact hinj (Finset.mem_coe.mpr (Finset.mem_union_left _ (CS.argmin_spec _ hA).1))
      (Finset.mem_coe.mpr (Finset.mem_union_right _ (CS.argmin_spec _ hB).1)) h
  · intro h; rw [h]

/-- **… iff the arg-min item of `A ∪ B` at `p` lies in `A ∩ B`** -/
theorem regs_collide_iff_inter (ha : Race.Spec m top init (pointsOf sc tg m A) a)
    (hb : Race.Spec m top init (pointsOf sc tg m B) b) (hA : A.Nonempty) (hB : B.Nonempty)
    {p : ℕ} (hp : p < m) (htop : ∀ d ∈ A ∪ B, sc d p < top)
    (hinj : Set.InjOn (fun d => sc d p) ↑(A ∪ B)) :
    a.reg p = b.reg p ↔ CS.argmin (fun d => sc d p) (A ∪ B) ∈ A ∩ B :=
  (regs_collide_iff ha hb hA hB hp htop hinj).trans (argmin_collision_on hinj hA hB)

/-- **tags agree at `p` iff the arg-min items agree** (tags injective on `A ∪ B`) -/
theorem tags_collide_iff (ha : Race.Spec m top init (pointsOf sc tg m A) a)
    (hb : Race.Spec m top init (pointsOf sc tg m B) b) (hA : A.Nonempty) (hB : B.Nonempty)
    {p : ℕ} (hp : p < m) (htop : ∀ d ∈ A ∪ B, sc d p < top)
    (hinj : Set.InjOn (fun d => sc d p) ↑(A ∪ B)) (htg : Set.InjOn tg ↑(A ∪ B)) :
    a.tag p = b.tag p ↔ CS.argmin (fun d => sc d p) A = CS.argmin (fun d => sc d p) B := by
  rw [tag_eq_argmin_at ha hA hp (fun d hd => htop d (Finset.mem_union_left _ hd))
      (hinj.mono (Finset.coe_subset.mpr Finset.subset_union_left)),
    tag_eq_argmin_at hb hB hp (fun d hd => htop d (Finset.mem_union_right _ hd))
      (hinj.mono (Finset.coe_subset.mpr Finset.subset_union_right))]
  constructor
  · intro h
    exact htg (Finset.mem_coe.mpr (Finset.mem_union_left _ (CS.argmin_spec _ hA).1))
      (Finset.mem_coe.mpr (Finset.mem_union_right _ (CS.argmin_spec _ hB).1)) h
  · intro h; rw [h]

theorem tags_collide_iff_inter (ha : Race.Spec m top init (pointsOf sc tg m A) a)
    (hb : Race.Spec m top init (pointsOf sc tg m B) b) (hA : A.Nonempty) (hB : B.Nonempty)
    {p : ℕ} (hp : p < m) (htop : ∀ d ∈ A ∪ B, sc d p < top)
    (hinj : Set.InjOn (fun d => sc d p) ↑(A ∪ B)) (htg : Set.InjOn tg ↑(A ∪ B)) :
    a.tag p = b.tag p ↔ CS.argmin (fun d => sc d p) (A ∪ B) ∈ A ∩ B :=
  (tags_collide_iff ha hb hA hB hp htop hinj htg).trans (argmin_collision_on hinj hA hB)

/-- registers agree iff tags agree (both are "same arg-min item") -/
theorem regs_collide_iff_tags_collide (ha : Race.Spec m top init (pointsOf sc tg m A) a)
    (hb : Race.Spec m top init (pointsOf sc tg m B) b) (hA : A.Nonempty) (hB : B.Nonempty)
    {p : ℕ} (hp : p < m) (htop : ∀ d ∈ A ∪ B, sc d p < top)
    (hinj : Set.InjOn (fun d => sc d p) ↑(A ∪ B)) (htg : Set.InjOn tg ↑(A ∪ B)) :
    a.reg p = b.reg p ↔ a.tag p = b.tag p :=
  (regs_collide_iff ha hb hA hB hp htop hinj).trans
    (tags_collide_iff ha hb hA hB hp htop hinj htg).symm

end Collide

/-- Max-register sketches (SetSketch): take `V := Wᵒᵈ`; e.g. `W = ℕ`. Registers start at the
bottom `top : ℕᵒᵈ`, `offer` raises them, and all statements above apply verbatim. -/
example {Item T : Type} [DecidableEq Item] [Inhabited Item] {m : ℕ} {top : ℕᵒᵈ} {init : T}
    {sc : Item → ℕ → ℕᵒᵈ} {tg : Item → T} {A B : Finset Item} {a b : Race.St ℕᵒᵈ T}
    (ha : Race.Spec m top init (pointsOf sc tg m A) a)
    (hb : Race.Spec m top init (pointsOf sc tg m B) b) (hA : A.Nonempty) (hB : B.Nonempty)
    {p : ℕ} (hp : p < m) (htop : ∀ d ∈ A ∪ B, sc d p < top)
    (hinj : Set.InjOn (fun d => sc d p) ↑(A ∪ B)) :
    a.reg p = b.reg p ↔ CS.argmin (fun d => sc d p) A = CS.argmin (fun d => sc d p) B :=
  regs_collide_iff ha hb hA hB hp htop hinj

end Order

/-! ### the exact collision law (finite counting over a permutation-closed `Ω`) -/
section Count
open Finset
variable {ι Rnd V T : Type} [Fintype ι] [DecidableEq ι] [Inhabited ι] [LinearOrder V]
  [DecidableEq T]

/-- the argmin-collision count, without nonemptiness assumptions, in terms of any two predicates
`R r` that are equivalent to "same arg-min" when both sets are nonempty and false when exactly one
is empty -/
private theorem count_core (Ω : Finset (ι → Rnd)) (hΩ : CS.PermClosed Ω)
    (sc : (ι → Rnd) → ι → ℕ → V) (p : ℕ)
    (hinj : ∀ r ∈ Ω, Function.Injective (fun d => sc r d p))
    (hequiv : ∀ r ∈ Ω, ∀ (σ : Equiv.Perm ι) (d : ι), sc (r ∘ ⇑σ.symm) (σ d) p = sc r d p)
    {A B : Finset ι} (hAB : A ∪ B = univ) (R : (ι → Rnd) → Prop) [DecidablePred R]
    (hR : A.Nonempty → B.Nonempty → ∀ r ∈ Ω,
      (R r ↔ CS.argmin (fun d => sc r d p) A = CS.argmin (fun d => sc r d p) B))
    (hRA : A = ∅ → ∀ r ∈ Ω, ¬ R r) (hRB : B = ∅ → ∀ r ∈ Ω, ¬ R r) :
    (Ω.filter R).card * (A ∪ B).card = (A ∩ B).card * Ω.card := by
  rcases A.eq_empty_or_nonempty with hA | hA
  · rw [Finset.filter_false_of_mem (hRA hA)]; subst hA; simp
  rcases B.eq_empty_or_nonempty with hB | hB
  · rw [Finset.filter_false_of_mem (hRB hB)]; subst hB; simp
  rw [Finset.filter_congr (hR hA hB)]
  exact CS.collision_prob_eq_jaccard_gen Ω hΩ (fun r p d => sc r d p) p hinj hequiv hA hB hAB

omit [DecidableEq T] in
/-- **Collision law for registers.** `ι = A ∪ B` the item universe, `Ω` a permutation-closed finite
set of assignments of per-item randomness, scores tie-free, below `top` and equivariant on `Ω`;
`a r`, `b r` any states satisfying the `Race` specification for the points of `A`, `B` under `r`.
Then `#{r ∈ Ω | (a r).reg p = (b r).reg p} · |A ∪ B| = |A ∩ B| · #Ω`: the registers at `p` agree
with probability exactly the Jaccard index. (No nonemptiness assumption on `A`, `B`.) -/
theorem collision_count_regs (Ω : Finset (ι → Rnd)) (hΩ : CS.PermClosed Ω)
    (m : ℕ) (top : V) (init : T) (sc : (ι → Rnd) → ι → ℕ → V) (tg : ι → T) (p : ℕ) (hp : p < m)
    (hinj : ∀ r ∈ Ω, Function.Injective (fun d => sc r d p))
    (htop : ∀ r ∈ Ω, ∀ d, sc r d p < top)
    (hequiv : ∀ r ∈ Ω, ∀ (σ : Equiv.Perm ι) (d : ι), sc (r ∘ ⇑σ.symm) (σ d) p = sc r d p)
    {A B : Finset ι} (hAB : A ∪ B = univ) (a b : (ι → Rnd) → Race.St V T)
    (ha : ∀ r ∈ Ω, Race.Spec m top init (pointsOf (sc r) tg m A) (a r))
    (hb : ∀ r ∈ Ω, Race.Spec m top init (pointsOf (sc r) tg m B) (b r)) :
    (Ω.filter (fun r => (a r).reg p = (b r).reg p)).card * (A ∪ B).card
      = (A ∩ B).card * Ω.card := by
  refine count_core Ω hΩ sc p hinj hequiv hAB _ ?_ ?_ ?_
  · intro hA hB r hr
    exact regs_collide_iff (ha r hr) (hb r hr) hA hB hp (fun d _ => htop r hr d)
      ((hinj r hr).injOn)
  · intro hA r hr h
    subst hA
    have hBu : B = univ := by simpa using hAB
    have h1 := (spec_empty_reg (ha r hr) p hp).1
    have h2 := reg_eq_argmin_at (hb r hr) (hBu ▸ univ_nonempty) hp (fun d _ => htop r hr d)
    have := htop r hr (CS.argmin (fun d => sc r d p) B)
    rw [← h2, ← h, h1] at this
    exact lt_irrefl _ this
  · intro hB r hr h
    subst hB
    have hAu : A = univ := by simpa using hAB
    have h1 := (spec_empty_reg (hb r hr) p hp).1
    have h2 := reg_eq_argmin_at (ha r hr) (hAu ▸ univ_nonempty) hp (fun d _ => htop r hr d)
    have := htop r hr (CS.argmin (fun d => sc r d p) A)
    rw [← h2, h, h1] at this
    exact lt_irrefl _ this

/-- **Collision law for tags** (tags injective; `A`, `B` nonempty — for an empty `A` the tag is
`init`, which may coincide with the tag of an item). -/
theorem collision_count_tags (Ω : Finset (ι → Rnd)) (hΩ : CS.PermClosed Ω)
    (m : ℕ) (top : V) (init : T) (sc : (ι → Rnd) → ι → ℕ → V) (tg : ι → T)
    (htg : Function.Injective tg) (p : ℕ) (hp : p < m)
    (hinj : ∀ r ∈ Ω, Function.Injective (fun d => sc r d p))
    (htop : ∀ r ∈ Ω, ∀ d, sc r d p < top)
    (hequiv : ∀ r ∈ Ω, ∀ (σ : Equiv.Perm ι) (d : ι), sc (r ∘ ⇑σ.symm) (σ d) p = sc r d p)
    {A B : Finset ι} (hA : A.Nonempty) (hB : B.Nonempty) (hAB : A ∪ B = univ)
    (a b : (ι → Rnd) → Race.St V T)
    (ha : ∀ r ∈ Ω, Race.Spec m top init (pointsOf (sc r) tg m A) (a r))
    (hb : ∀ r ∈ Ω, Race.Spec m top init (pointsOf (sc r) tg m B) (b r)) :
    (Ω.filter (fun r => (a r).tag p = (b r).tag p)).card * (A ∪ B).card
      = (A ∩ B).card * Ω.card := by
  refine count_core Ω hΩ sc p hinj hequiv hAB _ ?_ ?_ ?_
  · intro hA hB r hr
    exact tags_collide_iff (ha r hr) (hb r hr) hA hB hp (fun d _ => htop r hr d)
      ((hinj r hr).injOn) htg.injOn
  · intro h; exact absurd hA (h ▸ Finset.not_nonempty_empty)
  · intro h; exact absurd hB (h ▸ Finset.not_nonempty_empty)

/-- **Single-set law**: each item `d` of `A = univ` is the one shown (by its tag) at position `p`
for exactly `#Ω / |A|` of the assignments. -/
theorem position_holds_item_count (Ω : Finset (ι → Rnd)) (hΩ : CS.PermClosed Ω)
    (m : ℕ) (top : V) (init : T) (sc : (ι → Rnd) → ι → ℕ → V) (tg : ι → T)
    (htg : Function.Injective tg) (p : ℕ) (hp : p < m)
    (hinj : ∀ r ∈ Ω, Function.Injective (fun d => sc r d p))
    (htop : ∀ r ∈ Ω, ∀ d, sc r d p < top)
    (hequiv : ∀ r ∈ Ω, ∀ (σ : Equiv.Perm ι) (d : ι), sc (r ∘ ⇑σ.symm) (σ d) p = sc r d p)
    {A : Finset ι} (hA : A = univ) (a : (ι → Rnd) → Race.St V T)
    (ha : ∀ r ∈ Ω, Race.Spec m top init (pointsOf (sc r) tg m A) (a r)) (d : ι) :
    (Ω.filter (fun r => (a r).tag p = tg d)).card * A.card = Ω.card := by
  subst hA
  have hfil : Ω.filter (fun r => (a r).tag p = tg d)
      = Ω.filter (fun r => CS.argmin (fun d => sc r d p) univ = d) := by
    refine Finset.filter_congr (fun r hr => ?_)
    rw [tag_eq_argmin_at (ha r hr) univ_nonempty hp (fun d _ => htop r hr d) ((hinj r hr).injOn)]
    exact htg.eq_iff
  rw [hfil, Finset.card_univ]
  exact CS.position_uniform_gen Ω hΩ (fun r => CS.argmin (fun d => sc r d p) univ)
    (CS.argmin_univ_equivariant Ω hΩ (fun r p d => sc r d p) p hinj hequiv) d

omit [DecidableEq T] in
/-- the same for registers: position `p` holds the score of `d` for exactly `#Ω / |A|` of the `r` -/
theorem position_holds_score_count (Ω : Finset (ι → Rnd)) (hΩ : CS.PermClosed Ω)
    (m : ℕ) (top : V) (init : T) (sc : (ι → Rnd) → ι → ℕ → V) (tg : ι → T) (p : ℕ) (hp : p < m)
    (hinj : ∀ r ∈ Ω, Function.Injective (fun d => sc r d p))
    (htop : ∀ r ∈ Ω, ∀ d, sc r d p < top)
    (hequiv : ∀ r ∈ Ω, ∀ (σ : Equiv.Perm ι) (d : ι), sc (r ∘ ⇑σ.symm) (σ d) p = sc r d p)
    {A : Finset ι} (hA : A = univ) (a : (ι → Rnd) → Race.St V T)
    (ha : ∀ r ∈ Ω, Race.Spec m top init (pointsOf (sc r) tg m A) (a r)) (d : ι) :
    (Ω.filter (fun r => (a r).reg p = sc r d p)).card * A.card = Ω.card := by
  subst hA
  have hfil : Ω.filter (fun r => (a r).reg p = sc r d p)
      = Ω.filter (fun r => CS.argmin (fun d => sc r d p) univ = d) := by
    refine Finset.filter_congr (fun r hr => ?_)
    rw [reg_eq_argmin_at (ha r hr) univ_nonempty hp (fun d _ => htop r hr d)]
    exact (hinj r hr).eq_iff
  rw [hfil, Finset.card_univ]
  exact CS.position_uniform_gen Ω hΩ (fun r => CS.argmin (fun d => sc r d p) univ)
    (CS.argmin_univ_equivariant Ω hΩ (fun r p d => sc r d p) p hinj hequiv) d

/-- Non-vacuity: all hypotheses of `collision_count_regs` are jointly satisfiable. `Ω` = all injective
assignments `ι → Fin n` (`CS.injAssignments`, nonempty as soon as `|ι| ≤ n`, cf. `CS.ex_nonempty`),
score of `d` at every position = the assigned number, `top = n`, states = the arg-min states of
`spec_argmin_state`. -/
theorem collision_count_regs_instance (n m : ℕ) {A B : Finset ι} (hA : A.Nonempty)
    (hB : B.Nonempty) (hAB : A ∪ B = univ) (p : ℕ) (hp : p < m) :
    ((CS.injAssignments ι (Fin n)).filter (fun r =>
        (r (CS.argmin (fun d => (r d : ℕ)) A) : ℕ)
          = (r (CS.argmin (fun d => (r d : ℕ)) B) : ℕ))).card * (A ∪ B).card
      = (A ∩ B).card * (CS.injAssignments ι (Fin n)).card := by
  have hinj : ∀ r ∈ CS.injAssignments ι (Fin n),
      Function.Injective (fun d => ((r d : Fin n) : ℕ)) := fun r hr =>
    Fin.val_injective.comp (mem_filter.mp hr).2
  exact collision_count_regs (T := Unit) (CS.injAssignments ι (Fin n)) CS.injAssignments_closed
    m n () (fun r d _ => (r d : ℕ)) (fun _ => ()) p hp
    hinj (fun r _ d => (r d).2)
    (fun r _ σ d => by simp) hAB
    (fun r => ⟨fun q => (r (CS.argmin (fun d => (r d : ℕ)) A) : ℕ), fun _ => ()⟩)
    (fun r => ⟨fun q => (r (CS.argmin (fun d => (r d : ℕ)) B) : ℕ), fun _ => ()⟩)
    (fun r _ => spec_argmin_state m n () (fun d _ => (r d : ℕ)) (fun _ => ()) hA
      (fun d _ _ _ => (r d).2))
    (fun r _ => spec_argmin_state m n () (fun d _ => (r d : ℕ)) (fun _ => ()) hB
      (fun d _ _ _ => (r d).2))

end Count

end PMH.Coll

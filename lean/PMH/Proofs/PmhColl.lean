import PMH.Proofs.Collision
import PMH.Props.C02
import Mathlib.Logic.Function.Basic
import Mathlib.Data.Finset.Image
import Mathlib.Order.Monotone.Basic
/-!
# `PmhColl`: from the all-points `Race.Spec` of ProbMinHash3 / ProbMinHash2 to `Coll.pointsOf` (C01)

The refinement theorems (`C02.runNew_spec`, `C02.run2_spec`) say that the final signature satisfies
`Race.Spec` for the set of **all** points of all items.  At position `p` only an item's *first hit*
of `p` matters (its smallest value among the points landing on `p`).

* `spec_first_hits` / `spec_of_first_hits` (generic): the all-points specification is equivalent to the
  one-point-per-(item, position) specification `Coll.pointsOf` of the first hits.
* ProbMinHash3: `firstIdx`, `firstHit`, `firstHitVal`, `pmh3_firstHits`, `pmh3_sig_is_argmin`,
  `pmh3_collision_iff`, `pmh3_equal_weights_collision_count`, `pmh3_equal_weights_position_law`.
* ProbMinHash2: `pmh2_item_positions_perm`, `pmh2_points_eq_pointsOf`, `pmh2_sig_is_argmin`,
  `pmh2_collision_iff`, `pmh2_equal_weights_collision_count`, `pmh2_equal_weights_position_law`.
-/
namespace PMH.PmhColl
open PMH PMH.Race

/-! ## 1. generic: first hits -/
section Generic
variable {Item V T : Type} [LinearOrder V]

/-- `fh d p` is the first hit of position `p` by item `d`: a point of `d` on `p` of least value; and all
points of `d` carry the tag `tg d`. -/
structure FirstHits (pts : Item → Set (Pt V T)) (tg : Item → T) (fh : Item → ℕ → Pt V T)
    (A : Finset Item) (m : ℕ) : Prop where
  tag : ∀ d ∈ A, ∀ q ∈ pts d, q.tag = tg d
  mem : ∀ d ∈ A, ∀ p, p < m → fh d p ∈ pts d
  pos : ∀ d ∈ A, ∀ p, p < m → (fh d p).pos = p
  le : ∀ d ∈ A, ∀ p, p < m → ∀ q ∈ pts d, q.pos = p → (fh d p).val ≤ q.val

/-- the first hit, as a point, is the `pointsOf` point -/
theorem FirstHits.pt_eq {pts : Item → Set (Pt V T)} {tg : Item → T} {fh : Item → ℕ → Pt V T}
    {A : Finset Item} {m : ℕ} (H : FirstHits pts tg fh A m) {d : Item} (hd : d ∈ A) {p : ℕ} (hp : p < m) :
    (⟨p, (fh d p).val, tg d⟩ : Pt V T) = fh d p := by
  have h1 := H.pos d hd p hp
  have h2 := H.tag d hd _ (H.mem d hd p hp)
  cases h : fh d p with
  | mk a b c => rw [h] at h1 h2; simp only at h1 h2; subst h1 h2; rfl

/-- **all points ⇒ first hits.**  A state meeting the specification for all points of all items of `A`
meets it for the first hits alone. -/
theorem spec_first_hits {pts : Item → Set (Pt V T)} {tg : Item → T} {fh : Item → ℕ → Pt V T}
    {A : Finset Item} {m : ℕ} {top : V} {init : T} {s : St V T} (H : FirstHits pts tg fh A m)
    (h : Spec m top init {q | ∃ d ∈ A, q ∈ pts d} s) :
    Spec m top init (Coll.pointsOf (fun d p => (fh d p).val) tg m A) s := by
  refine ⟨?_, fun k hk => ?_⟩
  · rintro _ ⟨d, hd, p, hp, rfl⟩
    have := h.1 (fh d p) ⟨d, hd, H.mem d hd p hp⟩
    rw [H.pos d hd p hp] at this
    exact this
  · rcases h.2 k hk with h0 | ⟨hlt, q, ⟨d, hd, hq⟩, h1, h2, h3⟩
    · exact Or.inl h0
    · refine Or.inr ⟨hlt, ⟨k, (fh d k).val, tg d⟩, Coll.mem_pointsOf hd hk, rfl, ?_, ?_⟩
      · apply le_antisymm
        · rw [← h2]; exact H.le d hd k hk q hq h1
        · have := h.1 (fh d k) ⟨d, hd, H.mem d hd k hk⟩
          rw [H.pos d hd k hk] at this
          exact this
      · show tg d = s.tag k
        rw [← h3]; exact (H.tag d hd q hq).symm

/-- **first hits ⇒ all points** (all points land on positions `< m`). -/
theorem spec_of_first_hits {pts : Item → Set (Pt V T)} {tg : Item → T} {fh : Item → ℕ → Pt V T}
    {A : Finset Item} {m : ℕ} {top : V} {init : T} {s : St V T} (H : FirstHits pts tg fh A m)
    (hpos : ∀ d ∈ A, ∀ q ∈ pts d, q.pos < m)
    (h : Spec m top init (Coll.pointsOf (fun d p => (fh d p).val) tg m A) s) :
    Spec m top init {q | ∃ d ∈ A, q ∈ pts d} s := by
  refine spec_mono h ?_ ?_
  · rintro _ ⟨d, hd, p, hp, rfl⟩
    rw [H.pt_eq hd hp]
    exact ⟨d, hd, H.mem d hd p hp⟩
  · rintro q ⟨d, hd, hq⟩ _
    have hp := hpos d hd q hq
    exact le_trans (h.1 ⟨q.pos, (fh d q.pos).val, tg d⟩ (Coll.mem_pointsOf hd hp))
      (H.le d hd q.pos hp q hq rfl)

theorem spec_first_hits_iff {pts : Item → Set (Pt V T)} {tg : Item → T} {fh : Item → ℕ → Pt V T}
    {A : Finset Item} {m : ℕ} {top : V} {init : T} {s : St V T} (H : FirstHits pts tg fh A m)
    (hpos : ∀ d ∈ A, ∀ q ∈ pts d, q.pos < m) :
    Spec m top init {q | ∃ d ∈ A, q ∈ pts d} s ↔
      Spec m top init (Coll.pointsOf (fun d p => (fh d p).val) tg m A) s :=
  ⟨spec_first_hits H, spec_of_first_hits H hpos⟩

omit [LinearOrder V] in
/-- `pointsOf` of an image -/
theorem pointsOf_image {Item' : Type} [DecidableEq Item'] (f : Item → Item') (sc : Item' → ℕ → V)
    (tg : Item' → T) (m : ℕ) (A : Finset Item) :
    Coll.pointsOf sc tg m (A.image f) = Coll.pointsOf (fun d => sc (f d)) (fun d => tg (f d)) m A := by
  ext pt; constructor
  · rintro ⟨d', hd', p, hp, rfl⟩
    obtain ⟨d, hd, rfl⟩ := Finset.mem_image.mp hd'
    exact ⟨d, hd, p, hp, rfl⟩
  · rintro ⟨d, hd, p, hp, rfl⟩
    exact ⟨f d, Finset.mem_image_of_mem f hd, p, hp, rfl⟩

end Generic

/-! ## 2. ProbMinHash3: first hits of an item's stream -/
section V3
open PMH.P3 PMH.C02
variable {K G : Type} [Field K] [LinearOrder K] [IsStrictOrderedRing K]

/-- the `j`-th point of item `(id, w)` whose generator starts at `g0` (`P3.itemPts` is its range) -/
def stream (t : TSrc K G) (id : ℕ) (w : K) (g0 : G) (j : ℕ) : Pt K ℕ :=
  ptFrom t (1 / w) id (1 / w * (t.fx g0).1) 1 (t.fx g0).2 j

omit [LinearOrder K] [IsStrictOrderedRing K] in
theorem itemPts_eq_range (t : TSrc K G) (id : ℕ) (w : K) (g0 : G) :
    itemPts t id w g0 = Set.range (stream t id w g0) := rfl

omit [LinearOrder K] [IsStrictOrderedRing K] in
/-- positions and values of the stream do not depend on the identity -/
theorem ptFrom_retag (t : TSrc K G) (winv : K) (id id' : ℕ) :
    ∀ (j : ℕ) (h : K) (i : ℕ) (g : G),
      ptFrom t winv id h i g j = ⟨(ptFrom t winv id' h i g j).pos, (ptFrom t winv id' h i g j).val, id⟩ := by
  intro j
  induction j with
  | zero => intro h i g; rfl
  | succ j ih => intro h i g; simp only [ptFrom]; exact ih _ _ _

omit [LinearOrder K] [IsStrictOrderedRing K] in
theorem stream_retag (t : TSrc K G) (id id' : ℕ) (w : K) (g0 : G) (j : ℕ) :
    stream t id w g0 j = ⟨(stream t id' w g0 j).pos, (stream t id' w g0 j).val, id⟩ :=
  ptFrom_retag t _ id id' j _ _ _

omit [LinearOrder K] [IsStrictOrderedRing K] in
theorem stream_pos_id (t : TSrc K G) (id id' : ℕ) (w : K) (g0 : G) (j : ℕ) :
    (stream t id w g0 j).pos = (stream t id' w g0 j).pos := by rw [stream_retag t id id']

omit [LinearOrder K] [IsStrictOrderedRing K] in
theorem stream_val_id (t : TSrc K G) (id id' : ℕ) (w : K) (g0 : G) (j : ℕ) :
    (stream t id w g0 j).val = (stream t id' w g0 j).val := by rw [stream_retag t id id']

theorem stream_tag (t : TSrc K G) (id : ℕ) (w : K) (g0 : G) (j : ℕ) : (stream t id w g0 j).tag = id :=
  ptFrom_tag t _ id j _ _ _

/-- values are non-decreasing along `ptFrom` -/
theorem ptFrom_val_succ (t : TSrc K G) (m : ℕ) (hn : Nice t m) (winv : K) (hw : 0 < winv) (id : ℕ) :
    ∀ (j : ℕ) (h : K) (i : ℕ) (g : G), h ≤ winv * (i : K) →
      (ptFrom t winv id h i g j).val ≤ (ptFrom t winv id h i g (j + 1)).val := by
  intro j
  induction j with
  | zero =>
    intro h i g hle
    have hx := hn.1 (t.fk g).2
    have := mul_nonneg (le_of_lt hw) hx.1
    show h ≤ winv * (i : K) + winv * (t.fx (t.fk g).2).1
    linarith
  | succ j ih =>
    intro h i g _
    have hx := hn.1 (t.fk g).2
    have h2 : winv * (i : K) + winv * (t.fx (t.fk g).2).1 ≤ winv * ((i + 1 : ℕ) : K) := by
      have : winv * (t.fx (t.fk g).2).1 ≤ winv * 1 :=
        mul_le_mul_of_nonneg_left (le_of_lt hx.2) (le_of_lt hw)
      push_cast; linarith
    exact ih _ (i + 1) (t.fx (t.fk g).2).2 h2

/-- values are non-decreasing along an item's stream -/
theorem stream_mono (t : TSrc K G) (m : ℕ) (hn : Nice t m) (id : ℕ) (w : K) (hw : 0 < w) (g0 : G) :
    Monotone (fun j => (stream t id w g0 j).val) := by
  have hwinv : (0 : K) < 1 / w := by simpa using hw
  apply monotone_nat_of_le_succ
  intro j
  refine ptFrom_val_succ t m hn (1 / w) hwinv id j _ 1 _ ?_
  have hx := hn.1 g0
  have := mul_le_mul_of_nonneg_left (le_of_lt hx.2) (le_of_lt hwinv)
  simpa using this

/-- the item's stream reaches every position (true of an ideal generator with probability one; it cannot
be proved for an arbitrary `t`, and is kept as an explicit hypothesis) -/
def HitsAll (t : TSrc K G) (m : ℕ) (id : ℕ) (w : K) (g0 : G) : Prop :=
  ∀ p, p < m → ∃ j, (ptFrom t (1 / w) id (1 / w * (t.fx g0).1) 1 (t.fx g0).2 j).pos = p

omit [LinearOrder K] [IsStrictOrderedRing K] in
theorem hitsAll_id (t : TSrc K G) (m : ℕ) (id id' : ℕ) (w : K) (g0 : G) :
    HitsAll t m id w g0 ↔ HitsAll t m id' w g0 := by
  constructor <;> intro h p hp <;> obtain ⟨j, hj⟩ := h p hp
  · exact ⟨j, by rw [← hj]; exact stream_pos_id t id' id w g0 j⟩
  · exact ⟨j, by rw [← hj]; exact stream_pos_id t id id' w g0 j⟩

open Classical in
/-- index of the first point of the item's stream that lands on `p` (`0` if none does) -/
noncomputable def firstIdx (t : TSrc K G) (w : K) (g0 : G) (p : ℕ) : ℕ :=
  if h : ∃ j, (stream t 0 w g0 j).pos = p then Nat.find h else 0

/-- the first hit of position `p` by item `(id, w)` -/
noncomputable def firstHit (t : TSrc K G) (id : ℕ) (w : K) (g0 : G) (p : ℕ) : Pt K ℕ :=
  stream t id w g0 (firstIdx t w g0 p)

/-- its value: the item's score at position `p` (independent of the identity) -/
noncomputable def firstHitVal (t : TSrc K G) (w : K) (g0 : G) (p : ℕ) : K :=
  (stream t 0 w g0 (firstIdx t w g0 p)).val

omit [LinearOrder K] [IsStrictOrderedRing K] in
theorem firstHit_val (t : TSrc K G) (id : ℕ) (w : K) (g0 : G) (p : ℕ) :
    (firstHit t id w g0 p).val = firstHitVal t w g0 p := stream_val_id t id 0 w g0 _

omit [LinearOrder K] [IsStrictOrderedRing K] in
theorem firstHit_pos (t : TSrc K G) (m : ℕ) (id : ℕ) (w : K) (g0 : G) (h : HitsAll t m id w g0)
    (p : ℕ) (hp : p < m) : (firstHit t id w g0 p).pos = p := by
  have hex : ∃ j, (stream t 0 w g0 j).pos = p := (hitsAll_id t m id 0 w g0).mp h p hp
  unfold firstHit firstIdx
  rw [dif_pos hex, stream_pos_id t id 0]
  exact Nat.find_spec hex

omit [LinearOrder K] [IsStrictOrderedRing K] in
theorem firstIdx_le (t : TSrc K G) (id : ℕ) (w : K) (g0 : G) (p j : ℕ)
    (hj : (stream t id w g0 j).pos = p) : firstIdx t w g0 p ≤ j := by
  have hj0 : (stream t 0 w g0 j).pos = p := by rw [stream_pos_id t 0 id]; exact hj
  have hex : ∃ j, (stream t 0 w g0 j).pos = p := ⟨j, hj0⟩
  unfold firstIdx
  rw [dif_pos hex]
  exact Nat.find_min' hex hj0

/-- **the first hits of ProbMinHash3 items**: for a finite set `A` of `(id, weight)` pairs with positive
weights whose streams reach all positions, `firstHit` is a first-hit family for `P3.itemPts`. -/
theorem pmh3_firstHits (t : TSrc K G) (m : ℕ) (hn : Nice t m) (gen : ℕ → G) (A : Finset (ℕ × K))
    (hw : ∀ d ∈ A, 0 < d.2) (hhit : ∀ d ∈ A, HitsAll t m d.1 d.2 (gen d.1)) :
    FirstHits (fun d => itemPts t d.1 d.2 (gen d.1)) (fun d => d.1)
      (fun d p => firstHit t d.1 d.2 (gen d.1) p) A m where
  tag := by
    rintro d _ _ ⟨j, rfl⟩
    exact ptFrom_tag t _ d.1 j _ _ _
  mem := fun d _ p _ => ⟨_, rfl⟩
  pos := fun d hd p hp => firstHit_pos t m d.1 d.2 (gen d.1) (hhit d hd) p hp
  le := by
    rintro d hd p _ _ ⟨j, rfl⟩ hj
    exact stream_mono t m hn d.1 d.2 (hw d hd) (gen d.1) (firstIdx_le t d.1 d.2 (gen d.1) p j hj)

/-- the score of the pair `d = (id, w)` at position `p`: the value of its first hit of `p` -/
noncomputable def sc3 (t : TSrc K G) (gen : ℕ → G) (d : ℕ × K) (p : ℕ) : K :=
  firstHitVal t d.2 (gen d.1) p

/-- the all-points specification of a finite weighted set is the `pointsOf` specification of the first
hits (both directions) -/
theorem pmh3_spec_iff (t : TSrc K G) (m : ℕ) (hn : Nice t m) (gen : ℕ → G) (A : Finset (ℕ × K))
    (hw : ∀ d ∈ A, 0 < d.2) (hhit : ∀ d ∈ A, HitsAll t m d.1 d.2 (gen d.1)) (top : K) (init : ℕ)
    (s : St K ℕ) :
    Spec m top init (setPts t gen ↑A) s ↔
      Spec m top init (Coll.pointsOf (sc3 t gen) (fun d => d.1) m A) s := by
  have H := pmh3_firstHits t m hn gen A hw hhit
  have e1 : setPts t gen (↑A : Set (ℕ × K)) = {q | ∃ d ∈ A, q ∈ itemPts t d.1 d.2 (gen d.1)} := by
    ext q; simp [setPts]
  have e2 : Coll.pointsOf (sc3 t gen) (fun d => d.1) m A =
      Coll.pointsOf (fun d p => (firstHit t d.1 d.2 (gen d.1) p).val) (fun d => d.1) m A := by
    congr 1; funext d p; exact (firstHit_val t d.1 d.2 (gen d.1) p).symm
  rw [e1, e2]
  refine spec_first_hits_iff H ?_
  rintro d _ _ ⟨j, rfl⟩
  exact ptFrom_pos t m hn _ _ j _ _ _

/-! ## 3. the signature holds the item whose first hit is earliest -/

variable [Inhabited K]

/-- **C01 (ProbMinHash3/3a), position-wise.**  For a history over the finite weighted set `A` (any order,
any entry points), position `p` of the signature holds the identity of the pair whose first hit of `p`
has the smallest value. -/
theorem pmh3_sig_is_argmin (top : K) (init m : ℕ) (t : TSrc K G) (hn : Nice t m) (gen : ℕ → G)
    (okW : K → Bool) (fuel : ℕ) (ops : List (Op K)) (hgood : GoodOps okW ops) (s : PMH3 K G)
    (e : runNew t gen okW fuel top m init ops = .ok s)
    (A : Finset (ℕ × K)) (hA : A.Nonempty) (hpairs : pairs ops = ↑A)
    (hhit : ∀ d ∈ A, HitsAll t m d.1 d.2 (gen d.1))
    (p : ℕ) (hp : p < m) (htop : ∀ d ∈ A, sc3 t gen d p < top)
    (hinj : Set.InjOn (fun d => sc3 t gen d p) ↑A) :
    s.sig.getD p init = (CS.argmin (fun d => sc3 t gen d p) A).1 := by
  obtain ⟨_, sp⟩ := runNew_spec top init m t hn gen okW fuel ops hgood s e
  have hw : ∀ d ∈ A, 0 < d.2 := fun d hd => (hgood d (by rw [hpairs]; exact hd)).1
  rw [hpairs] at sp
  have sp' := (pmh3_spec_iff t m hn gen A hw hhit top init _).mp sp
  exact Coll.tag_eq_argmin_at sp' hA hp htop hinj

/-- the register of position `p` is that smallest first-hit value -/
theorem pmh3_reg_is_min (top : K) (init m : ℕ) (t : TSrc K G) (hn : Nice t m) (gen : ℕ → G)
    (okW : K → Bool) (fuel : ℕ) (ops : List (Op K)) (hgood : GoodOps okW ops) (s : PMH3 K G)
    (e : runNew t gen okW fuel top m init ops = .ok s)
    (A : Finset (ℕ × K)) (hA : A.Nonempty) (hpairs : pairs ops = ↑A)
    (hhit : ∀ d ∈ A, HitsAll t m d.1 d.2 (gen d.1))
    (p : ℕ) (hp : p < m) (htop : ∀ d ∈ A, sc3 t gen d p < top) :
    (view top init s).reg p = sc3 t gen (CS.argmin (fun d => sc3 t gen d p) A) p := by
  obtain ⟨_, sp⟩ := runNew_spec top init m t hn gen okW fuel ops hgood s e
  have hw : ∀ d ∈ A, 0 < d.2 := fun d hd => (hgood d (by rw [hpairs]; exact hd)).1
  rw [hpairs] at sp
  have sp' := (pmh3_spec_iff t m hn gen A hw hhit top init _).mp sp
  exact Coll.reg_eq_argmin_at sp' hA hp htop

/-- **collision ⇔ same earliest item.**  Two weighted sets `A`, `B` (each with its own weights, sketched by
any histories): the signatures agree at `p` iff the pairs with the earliest first hit of `p` carry the same
identity. -/
theorem pmh3_collision_iff (top : K) (init m : ℕ) (t : TSrc K G) (hn : Nice t m) (gen : ℕ → G)
    (okW : K → Bool) (fa fb : ℕ) (opsA opsB : List (Op K)) (hga : GoodOps okW opsA)
    (hgb : GoodOps okW opsB) (a b : PMH3 K G)
    (ea : runNew t gen okW fa top m init opsA = .ok a) (eb : runNew t gen okW fb top m init opsB = .ok b)
    (A B : Finset (ℕ × K)) (hA : A.Nonempty) (hB : B.Nonempty)
    (hpa : pairs opsA = ↑A) (hpb : pairs opsB = ↑B)
    (hhit : ∀ d ∈ A ∪ B, HitsAll t m d.1 d.2 (gen d.1))
    (p : ℕ) (hp : p < m) (htop : ∀ d ∈ A ∪ B, sc3 t gen d p < top)
    (hinjA : Set.InjOn (fun d => sc3 t gen d p) ↑A) (hinjB : Set.InjOn (fun d => sc3 t gen d p) ↑B) :
    a.sig.getD p init = b.sig.getD p init ↔
      (CS.argmin (fun d => sc3 t gen d p) A).1 = (CS.argmin (fun d => sc3 t gen d p) B).1 := by
  rw [pmh3_sig_is_argmin top init m t hn gen okW fa opsA hga a ea A hA hpa
      (fun d hd => hhit d (Finset.mem_union_left _ hd)) p hp
      (fun d hd => htop d (Finset.mem_union_left _ hd)) hinjA,
    pmh3_sig_is_argmin top init m t hn gen okW fb opsB hgb b eb B hB hpb
      (fun d hd => hhit d (Finset.mem_union_right _ hd)) p hp
      (fun d hd => htop d (Finset.mem_union_right _ hd)) hinjB]

end V3

/-! ## 5. ProbMinHash2: an item has exactly one point per position -/
section V2
open PMH.P2 PMH.P3 PMH.C02 PMH.FYP PMH.FYL
variable {K G : Type} [Field K] [LinearOrder K] [IsStrictOrderedRing K]

omit [IsStrictOrderedRing K] in
/-- the positions of the points of `ptsFrom` are the outputs of `draws` for a valid offset vector -/
theorem ptsFrom_draws (t : TSrc2 K G) (offsetOf : K → ℕ → ℕ) (unif : UInt64 → K)
    (hn : Nice2 t offsetOf unif) (betas : Array K) (winv : K) (id : ℕ) :
    ∀ (n : ℕ) (h : K) (i : ℕ) (g : G) (fy : FY), C17.Inv fy → fy.lastidx + n = fy.m →
      ∃ cs s', Valid n cs ∧
        draws fy cs = .ok ((ptsFrom t offsetOf unif betas winv id n h i g fy).map (·.pos), s') := by
  intro n
  induction n with
  | zero => intro h i g fy _ _; exact ⟨[], fy, rfl, rfl⟩
  | succ n ih =>
    intro h i g fy hinv hl
    have hcur : fy.cursor = fy.lastidx := by
      unfold FY.cursor; split
      · omega
      · rfl
    have hoff : offsetOf (unif (t.fu g).1) (fy.m - fy.cursor) < fy.m - fy.cursor := hn.2 _ _ (by omega)
    obtain ⟨k, fy', efy, hinv', hm', hk, hl'⟩ := C17.next_inv fy hinv _ hoff
    obtain ⟨cs, s', hv, hd⟩ := ih (h + winv * betas.getD i 0 * (t.fe (t.fu g).2).1) (i + 1)
      (t.fe (t.fu g).2).2 fy' hinv' (by omega)
    refine ⟨offsetOf (unif (t.fu g).1) (fy.m - fy.cursor) :: cs, s', ⟨by omega, hv⟩, ?_⟩
    simp only [ptsFrom, efy, draws, List.map_cons, hd]

omit [IsStrictOrderedRing K] in
/-- **an item of ProbMinHash2 visits every position exactly once**: the positions of the `m` points of an
item (shuffle reset at the start of the item) are a permutation of `0..m-1`. -/
theorem pmh2_item_positions_perm (t : TSrc2 K G) (offsetOf : K → ℕ → ℕ) (unif : UInt64 → K)
    (hn : Nice2 t offsetOf unif) (betas : Array K) (winv : K) (id : ℕ) (m : ℕ) (h : K) (i : ℕ) (g : G) :
    List.Perm ((ptsFrom t offsetOf unif betas winv id m h i g (FY.new m).reset).map (·.pos))
      (List.range m) := by
  have hinv := C17.reset_inv (FY.new m)
  obtain ⟨cs, s', hv, hd⟩ := ptsFrom_draws t offsetOf unif hn betas winv id m h i g (FY.new m).reset hinv
    (by simp [FY.reset, FY.new])
  obtain ⟨o, s'', e, hperm, _⟩ := C17.block_is_perm (FY.new m).reset hinv (by simp [FY.cursor, FY.reset])
    (by simp [FY.reset]) cs hv
  rw [hd] at e
  injection e with e
  injection e with e1 _
  rw [e1]; exact hperm

/-- the list of the `m` points of item `(id, w)` with generator start `g0` (`P2.itemPts` is its set) -/
def list2 (t : TSrc2 K G) (offsetOf : K → ℕ → ℕ) (unif : UInt64 → K) (m id : ℕ) (w : K) (g0 : G) :
    List (Pt K ℕ) :=
  ptsFrom t offsetOf unif (betasOf m) (1 / w) id m (1 / w * (t.fe g0).1) 0 (t.fe g0).2 (FY.new m).reset

omit [LinearOrder K] [IsStrictOrderedRing K] in
theorem itemPts2_eq (t : TSrc2 K G) (offsetOf : K → ℕ → ℕ) (unif : UInt64 → K) (m id : ℕ) (w : K) (g0 : G) :
    P2.itemPts t offsetOf unif m id w g0 = {q | q ∈ list2 t offsetOf unif m id w g0} := rfl

omit [LinearOrder K] [IsStrictOrderedRing K] in
/-- positions and values do not depend on the identity -/
theorem ptsFrom_retag (t : TSrc2 K G) (offsetOf : K → ℕ → ℕ) (unif : UInt64 → K) (betas : Array K)
    (winv : K) (id id' : ℕ) :
    ∀ (fuel : ℕ) (h : K) (i : ℕ) (g : G) (fy : FY),
      ptsFrom t offsetOf unif betas winv id fuel h i g fy =
        (ptsFrom t offsetOf unif betas winv id' fuel h i g fy).map (fun q => ⟨q.pos, q.val, id⟩) := by
  intro fuel
  induction fuel with
  | zero => intro h i g fy; rfl
  | succ f ih =>
    intro h i g fy
    cases e : fy.nextOff (offsetOf (unif (t.fu g).1) (fy.m - fy.cursor)) with
    | error er => simp [ptsFrom, e]
    | ok r =>
      obtain ⟨k, fy'⟩ := r
      simp only [ptsFrom, e, List.map_cons]
      rw [ih]

/-- the value of the item's (unique) point on position `p` (`0` if there is none): its score at `p` -/
def val2 (t : TSrc2 K G) (offsetOf : K → ℕ → ℕ) (unif : UInt64 → K) (m : ℕ) (w : K) (g0 : G) (p : ℕ) : K :=
  ((list2 t offsetOf unif m 0 w g0).find? (fun q => q.pos = p)).elim 0 (·.val)

omit [Field K] [LinearOrder K] [IsStrictOrderedRing K] in
theorem find_pos_of_nodup {l : List (Pt K ℕ)} (hnd : (l.map (·.pos)).Nodup) {q : Pt K ℕ} (hq : q ∈ l) :
    l.find? (fun q' => q'.pos = q.pos) = some q := by
  cases h : l.find? (fun q' => decide (q'.pos = q.pos)) with
  | none =>
    have := List.find?_eq_none.mp h q hq
    simp at this
  | some q' =>
    have h1 : q'.pos = q.pos := by simpa using List.find?_some h
    have h2 : q' ∈ l := List.mem_of_find?_eq_some h
    rw [List.inj_on_of_nodup_map hnd h2 hq h1]

omit [IsStrictOrderedRing K] in
/-- **one point per position**: the points of a ProbMinHash2 item are exactly
`⟨p, val2 … p, id⟩`, `p < m`. -/
theorem pmh2_itemPts_eq (t : TSrc2 K G) (offsetOf : K → ℕ → ℕ) (unif : UInt64 → K)
    (hn : Nice2 t offsetOf unif) (m id : ℕ) (w : K) (g0 : G) :
    P2.itemPts t offsetOf unif m id w g0 =
      {pt | ∃ p, p < m ∧ pt = ⟨p, val2 t offsetOf unif m w g0 p, id⟩} := by
  have hperm := pmh2_item_positions_perm t offsetOf unif hn (betasOf m) (1 / w) 0 m (1 / w * (t.fe g0).1) 0
    (t.fe g0).2
  have hnd : ((list2 t offsetOf unif m 0 w g0).map (·.pos)).Nodup := hperm.nodup_iff.mpr List.nodup_range
  have hval : ∀ q0 ∈ list2 t offsetOf unif m 0 w g0, val2 t offsetOf unif m w g0 q0.pos = q0.val := by
    intro q0 hq0
    unfold val2
    rw [find_pos_of_nodup hnd hq0]; rfl
  have hmem : ∀ q, q ∈ list2 t offsetOf unif m id w g0 ↔
      ∃ q0 ∈ list2 t offsetOf unif m 0 w g0, q = ⟨q0.pos, q0.val, id⟩ := by
    intro q
    unfold list2
    rw [ptsFrom_retag t offsetOf unif (betasOf m) (1 / w) id 0, List.mem_map]
    constructor
    · rintro ⟨q0, h0, rfl⟩; exact ⟨q0, h0, rfl⟩
    · rintro ⟨q0, h0, rfl⟩; exact ⟨q0, h0, rfl⟩
  rw [itemPts2_eq]
  ext q
  simp only [Set.mem_ofPred_eq, hmem]
  constructor
  · rintro ⟨q0, h0, rfl⟩
    have hp : q0.pos < m := by
      have : q0.pos ∈ (list2 t offsetOf unif m 0 w g0).map (·.pos) := List.mem_map_of_mem h0
      simpa using hperm.subset this
    exact ⟨q0.pos, hp, by rw [hval q0 h0]⟩
  · rintro ⟨p, hp, rfl⟩
    have : p ∈ (list2 t offsetOf unif m 0 w g0).map (·.pos) := hperm.symm.subset (List.mem_range.mpr hp)
    obtain ⟨q0, h0, rfl⟩ := List.mem_map.mp this
    exact ⟨q0, h0, by rw [hval q0 h0]⟩

/-- the score of the pair `d = (id, w)` at position `p` in ProbMinHash2 -/
def sc2 (t : TSrc2 K G) (gen : ℕ → G) (offsetOf : K → ℕ → ℕ) (unif : UInt64 → K) (m : ℕ) (d : ℕ × K)
    (p : ℕ) : K := val2 t offsetOf unif m d.2 (gen d.1) p

omit [IsStrictOrderedRing K] in
/-- **the points of a weighted set in ProbMinHash2 are already of the one-point-per-(item, position) form** -/
theorem pmh2_points_eq_pointsOf (t : TSrc2 K G) (offsetOf : K → ℕ → ℕ) (unif : UInt64 → K)
    (hn : Nice2 t offsetOf unif) (gen : ℕ → G) (m : ℕ) (A : Finset (ℕ × K)) :
    setPts2 t gen offsetOf unif m ↑A = Coll.pointsOf (sc2 t gen offsetOf unif m) (fun d => d.1) m A := by
  ext q
  simp only [setPts2, Set.mem_ofPred_eq, Finset.mem_coe, Coll.pointsOf]
  constructor
  · rintro ⟨d, hd, hq⟩
    rw [pmh2_itemPts_eq t offsetOf unif hn] at hq
    obtain ⟨p, hp, rfl⟩ := hq
    exact ⟨d, hd, p, hp, rfl⟩
  · rintro ⟨d, hd, p, hp, rfl⟩
    refine ⟨d, hd, ?_⟩
    rw [pmh2_itemPts_eq t offsetOf unif hn]
    exact ⟨p, hp, rfl⟩

/-- the `Coll.pointsOf` specification of a ProbMinHash2 history over the finite weighted set `A` -/
theorem pmh2_run_spec (top : K) (init m : ℕ) (hm : 1 ≤ m) (t : TSrc2 K G) (offsetOf : K → ℕ → ℕ)
    (unif : UInt64 → K) (hn : Nice2 t offsetOf unif) (gen : ℕ → G) (items : List (ℕ × K))
    (A : Finset (ℕ × K)) (hset : ∀ d, d ∈ items ↔ d ∈ A) (hpos : ∀ d ∈ A, 0 < d.2) (s : PMH2 K)
    (e : run2 t gen offsetOf unif (PMH2.new top m init) items = .ok s) :
    Spec m top init (Coll.pointsOf (sc2 t gen offsetOf unif m) (fun d => d.1) m A) (P2.view top init s) := by
  obtain ⟨wf0, sp0, hb0⟩ := P2.new_wf (K := K) top init m hm
  have hs0 : Spec m top init (setPts2 t gen offsetOf unif m ∅) (P2.view top init (PMH2.new top m init : PMH2 K)) := by
    have : setPts2 t gen offsetOf unif m (∅ : Set (ℕ × K)) = ∅ := by ext p; simp [setPts2]
    rw [this]; exact sp0
  obtain ⟨_, _, sp⟩ := run2_spec top init m hm t offsetOf unif hn gen items _ s ∅
    (fun d hd => hpos d ((hset d).mp hd)) wf0 hb0 hs0 e
  have hS : (∅ ∪ {d | d ∈ items} : Set (ℕ × K)) = ↑A := by ext d; simp [hset d]
  rw [hS, pmh2_points_eq_pointsOf t offsetOf unif hn] at sp
  exact sp

variable [Inhabited K]

/-- **C01 (ProbMinHash2), position-wise.**  For an insertion sequence over the finite weighted set `A`,
position `p` of the signature holds the identity of the pair whose (unique) point on `p` is smallest. -/
theorem pmh2_sig_is_argmin (top : K) (init m : ℕ) (hm : 1 ≤ m) (t : TSrc2 K G) (offsetOf : K → ℕ → ℕ)
    (unif : UInt64 → K) (hn : Nice2 t offsetOf unif) (gen : ℕ → G) (items : List (ℕ × K))
    (A : Finset (ℕ × K)) (hA : A.Nonempty) (hset : ∀ d, d ∈ items ↔ d ∈ A) (hpos : ∀ d ∈ A, 0 < d.2)
    (s : PMH2 K) (e : run2 t gen offsetOf unif (PMH2.new top m init) items = .ok s)
    (p : ℕ) (hp : p < m) (htop : ∀ d ∈ A, sc2 t gen offsetOf unif m d p < top)
    (hinj : Set.InjOn (fun d => sc2 t gen offsetOf unif m d p) ↑A) :
    s.sig.getD p init = (CS.argmin (fun d => sc2 t gen offsetOf unif m d p) A).1 :=
  Coll.tag_eq_argmin_at (pmh2_run_spec top init m hm t offsetOf unif hn gen items A hset hpos s e) hA hp
    htop hinj

/-- **collision ⇔ same earliest item** (ProbMinHash2; `A`, `B` each with its own weights) -/
theorem pmh2_collision_iff (top : K) (init m : ℕ) (hm : 1 ≤ m) (t : TSrc2 K G) (offsetOf : K → ℕ → ℕ)
    (unif : UInt64 → K) (hn : Nice2 t offsetOf unif) (gen : ℕ → G) (itemsA itemsB : List (ℕ × K))
    (A B : Finset (ℕ × K)) (hA : A.Nonempty) (hB : B.Nonempty)
    (hsa : ∀ d, d ∈ itemsA ↔ d ∈ A) (hsb : ∀ d, d ∈ itemsB ↔ d ∈ B)
    (hpos : ∀ d ∈ A ∪ B, 0 < d.2) (a b : PMH2 K)
    (ea : run2 t gen offsetOf unif (PMH2.new top m init) itemsA = .ok a)
    (eb : run2 t gen offsetOf unif (PMH2.new top m init) itemsB = .ok b)
    (p : ℕ) (hp : p < m) (htop : ∀ d ∈ A ∪ B, sc2 t gen offsetOf unif m d p < top)
    (hinjA : Set.InjOn (fun d => sc2 t gen offsetOf unif m d p) ↑A)
    (hinjB : Set.InjOn (fun d => sc2 t gen offsetOf unif m d p) ↑B) :
    a.sig.getD p init = b.sig.getD p init ↔
      (CS.argmin (fun d => sc2 t gen offsetOf unif m d p) A).1
        = (CS.argmin (fun d => sc2 t gen offsetOf unif m d p) B).1 := by
  rw [pmh2_sig_is_argmin top init m hm t offsetOf unif hn gen itemsA A hA hsa
      (fun d hd => hpos d (Finset.mem_union_left _ hd)) a ea p hp
      (fun d hd => htop d (Finset.mem_union_left _ hd)) hinjA,
    pmh2_sig_is_argmin top init m hm t offsetOf unif hn gen itemsB B hB hsb
      (fun d hd => hpos d (Finset.mem_union_right _ hd)) b eb p hp
      (fun d hd => htop d (Finset.mem_union_right _ hd)) hinjB]

end V2

/-! ## 4. equal weights: the collision probability is exactly the Jaccard index -/
section EqualWeights
open PMH.P2 PMH.P3 PMH.C02
variable {K G : Type} [Field K] [LinearOrder K] [IsStrictOrderedRing K]
variable {ι : Type}

/-- the generator table induced by an assignment `r` of generators to the items of the universe `ι`:
identity `idOf d` gets `r d` (identities outside the universe: irrelevant) -/
noncomputable def genOf [Inhabited ι] (idOf : ι → ℕ) (r : ι → G) : ℕ → G :=
  Function.extend idOf r (fun _ => r default)

theorem genOf_idOf [Inhabited ι] {idOf : ι → ℕ} (hid : Function.Injective idOf) (r : ι → G) (d : ι) :
    genOf idOf r (idOf d) = r d := hid.extend_apply _ _ _


omit [IsStrictOrderedRing K] in
/-- `GoodOps` of an equal-weight history -/
theorem goodOps_equal (okW : K → Bool) (idOf : ι → ℕ) (w : K) (hw : 0 < w) (hok : okW w = true)
    (A : Finset ι) (ops : List (Op K)) (hp : pairs ops = ↑(A.image (fun d => (idOf d, w)))) :
    GoodOps okW ops := by
  intro d hd
  rw [hp] at hd
  obtain ⟨x, _, rfl⟩ := Finset.mem_image.mp (Finset.mem_coe.mp hd)
  exact ⟨hw, hok⟩

/-- the sketch of the equal-weight set `A × {w}` under the assignment `r` meets the `pointsOf`
specification with score `firstHitVal t w (r d)` — a function of `r d` alone -/
theorem pmh3_equal_weights_spec [Inhabited ι] (top : K) (init m : ℕ) (t : TSrc K G) (hn : Nice t m) (okW : K → Bool)
    (idOf : ι → ℕ) (hid : Function.Injective idOf) (w : K) (hw : 0 < w) (hok : okW w = true)
    (r : ι → G) (A : Finset ι) (hhit : ∀ d ∈ A, HitsAll t m (idOf d) w (r d))
    (fuel : ℕ) (ops : List (Op K)) (hp : pairs ops = ↑(A.image (fun d => (idOf d, w)))) (s : PMH3 K G)
    (e : runNew t (genOf idOf r) okW fuel top m init ops = .ok s) :
    Spec m top init (Coll.pointsOf (fun d p => firstHitVal t w (r d) p) idOf m A)
      (P3.view top init s) := by
  obtain ⟨_, sp⟩ := runNew_spec top init m t hn (genOf idOf r) okW fuel ops
    (goodOps_equal okW idOf w hw hok A ops hp) s e
  rw [hp] at sp
  have sp' := (pmh3_spec_iff t m hn (genOf idOf r) (A.image (fun d => (idOf d, w))) (by
      intro d hd; obtain ⟨x, _, rfl⟩ := Finset.mem_image.mp hd; exact hw) (by
      intro d hd; obtain ⟨x, hx, rfl⟩ := Finset.mem_image.mp hd
      show HitsAll t m (idOf x) w (genOf idOf r (idOf x))
      rw [genOf_idOf hid]; exact hhit x hx) top init _).mp sp
  rw [pointsOf_image] at sp'
  refine spec_congr sp' ?_
  congr 1
  funext d p
  show firstHitVal t w (genOf idOf r (idOf d)) p = _
  rw [genOf_idOf hid]


/-- **C01, equal weights (ProbMinHash3/3a): the signatures of `A` and `B` agree at position `p` with
probability exactly `|A ∩ B| / |A ∪ B|`.** -/
theorem pmh3_equal_weights_collision_count [Fintype ι] [DecidableEq ι] [Inhabited ι] (top : K) (init m : ℕ) (t : TSrc K G) (hn : Nice t m)
    (okW : K → Bool) (idOf : ι → ℕ) (hid : Function.Injective idOf) (w : K) (hw : 0 < w)
    (hok : okW w = true) (Ω : Finset (ι → G)) (hΩ : CS.PermClosed Ω) (p : ℕ) (hp : p < m)
    (hhit : ∀ r ∈ Ω, ∀ d, HitsAll t m (idOf d) w (r d))
    (hinj : ∀ r ∈ Ω, Function.Injective (fun d => firstHitVal t w (r d) p))
    (htop : ∀ r ∈ Ω, ∀ d, firstHitVal t w (r d) p < top)
    {A B : Finset ι} (hA : A.Nonempty) (hB : B.Nonempty) (hAB : A ∪ B = Finset.univ)
    (fa fb : (ι → G) → ℕ) (opsA opsB : (ι → G) → List (Op K))
    (hpa : ∀ r ∈ Ω, pairs (opsA r) = ↑(A.image (fun d => (idOf d, w))))
    (hpb : ∀ r ∈ Ω, pairs (opsB r) = ↑(B.image (fun d => (idOf d, w))))
    (a b : (ι → G) → PMH3 K G)
    (ea : ∀ r ∈ Ω, runNew t (genOf idOf r) okW (fa r) top m init (opsA r) = .ok (a r))
    (eb : ∀ r ∈ Ω, runNew t (genOf idOf r) okW (fb r) top m init (opsB r) = .ok (b r)) :
    (Ω.filter (fun r => (a r).sig.getD p init = (b r).sig.getD p init)).card * (A ∪ B).card
      = (A ∩ B).card * Ω.card :=
  Coll.collision_count_tags Ω hΩ m top init (fun r d p => firstHitVal t w (r d) p) idOf hid p hp hinj htop
    (fun r _ σ d => by simp) hA hB hAB (fun r => P3.view top init (a r)) (fun r => P3.view top init (b r))
    (fun r hr => pmh3_equal_weights_spec top init m t hn okW idOf hid w hw hok r A
      (fun d _ => hhit r hr d) (fa r) (opsA r) (hpa r hr) (a r) (ea r hr))
    (fun r hr => pmh3_equal_weights_spec top init m t hn okW idOf hid w hw hok r B
      (fun d _ => hhit r hr d) (fb r) (opsB r) (hpb r hr) (b r) (eb r hr))

/-- **single-set law**: in the sketch of `n` equal-weight items, each item is the one held by position `p`
for exactly `#Ω / n` of the assignments -/
theorem pmh3_equal_weights_position_law [Fintype ι] [DecidableEq ι] [Inhabited ι] (top : K) (init m : ℕ) (t : TSrc K G) (hn : Nice t m)
    (okW : K → Bool) (idOf : ι → ℕ) (hid : Function.Injective idOf) (w : K) (hw : 0 < w)
    (hok : okW w = true) (Ω : Finset (ι → G)) (hΩ : CS.PermClosed Ω) (p : ℕ) (hp : p < m)
    (hhit : ∀ r ∈ Ω, ∀ d, HitsAll t m (idOf d) w (r d))
    (hinj : ∀ r ∈ Ω, Function.Injective (fun d => firstHitVal t w (r d) p))
    (htop : ∀ r ∈ Ω, ∀ d, firstHitVal t w (r d) p < top)
    (fa : (ι → G) → ℕ) (opsA : (ι → G) → List (Op K))
    (hpa : ∀ r ∈ Ω, pairs (opsA r) = ↑((Finset.univ : Finset ι).image (fun d => (idOf d, w))))
    (a : (ι → G) → PMH3 K G)
    (ea : ∀ r ∈ Ω, runNew t (genOf idOf r) okW (fa r) top m init (opsA r) = .ok (a r)) (d : ι) :
    (Ω.filter (fun r => (a r).sig.getD p init = idOf d)).card * Fintype.card ι = Ω.card := by
  have := Coll.position_holds_item_count Ω hΩ m top init (fun r d p => firstHitVal t w (r d) p) idOf hid
    p hp hinj htop (fun r _ σ d => by simp) (A := Finset.univ) rfl (fun r => P3.view top init (a r))
    (fun r hr => pmh3_equal_weights_spec top init m t hn okW idOf hid w hw hok r Finset.univ
      (fun d _ => hhit r hr d) (fa r) (opsA r) (hpa r hr) (a r) (ea r hr)) d
  rw [Finset.card_univ] at this
  exact this

/-! ### the same for ProbMinHash2 (no `HitsAll` hypothesis) -/

theorem pmh2_equal_weights_spec [Inhabited ι] (top : K) (init m : ℕ) (hm : 1 ≤ m) (t : TSrc2 K G)
    (offsetOf : K → ℕ → ℕ) (unif : UInt64 → K) (hn : Nice2 t offsetOf unif)
    (idOf : ι → ℕ) (hid : Function.Injective idOf) (w : K) (hw : 0 < w)
    (r : ι → G) (A : Finset ι) (items : List (ℕ × K))
    (hset : ∀ x, x ∈ items ↔ x ∈ A.image (fun d => (idOf d, w))) (s : PMH2 K)
    (e : run2 t (genOf idOf r) offsetOf unif (PMH2.new top m init) items = .ok s) :
    Spec m top init (Coll.pointsOf (fun d p => val2 t offsetOf unif m w (r d) p) idOf m A)
      (P2.view top init s) := by
  have sp := pmh2_run_spec top init m hm t offsetOf unif hn (genOf idOf r) items _ hset (by
    intro d hd; obtain ⟨x, _, rfl⟩ := Finset.mem_image.mp hd; exact hw) s e
  rw [pointsOf_image] at sp
  refine spec_congr sp ?_
  congr 1
  funext d p
  show val2 t offsetOf unif m w (genOf idOf r (idOf d)) p = _
  rw [genOf_idOf hid]

/-- **C01, equal weights (ProbMinHash2).** -/
theorem pmh2_equal_weights_collision_count [Fintype ι] [DecidableEq ι] [Inhabited ι] (top : K) (init m : ℕ) (hm : 1 ≤ m) (t : TSrc2 K G)
    (offsetOf : K → ℕ → ℕ) (unif : UInt64 → K) (hn : Nice2 t offsetOf unif)
    (idOf : ι → ℕ) (hid : Function.Injective idOf) (w : K) (hw : 0 < w)
    (Ω : Finset (ι → G)) (hΩ : CS.PermClosed Ω) (p : ℕ) (hp : p < m)
    (hinj : ∀ r ∈ Ω, Function.Injective (fun d => val2 t offsetOf unif m w (r d) p))
    (htop : ∀ r ∈ Ω, ∀ d, val2 t offsetOf unif m w (r d) p < top)
    {A B : Finset ι} (hA : A.Nonempty) (hB : B.Nonempty) (hAB : A ∪ B = Finset.univ)
    (itemsA itemsB : (ι → G) → List (ℕ × K))
    (hsa : ∀ r ∈ Ω, ∀ x, x ∈ itemsA r ↔ x ∈ A.image (fun d => (idOf d, w)))
    (hsb : ∀ r ∈ Ω, ∀ x, x ∈ itemsB r ↔ x ∈ B.image (fun d => (idOf d, w)))
    (a b : (ι → G) → PMH2 K)
    (ea : ∀ r ∈ Ω, run2 t (genOf idOf r) offsetOf unif (PMH2.new top m init) (itemsA r) = .ok (a r))
    (eb : ∀ r ∈ Ω, run2 t (genOf idOf r) offsetOf unif (PMH2.new top m init) (itemsB r) = .ok (b r)) :
    (Ω.filter (fun r => (a r).sig.getD p init = (b r).sig.getD p init)).card * (A ∪ B).card
      = (A ∩ B).card * Ω.card :=
  Coll.collision_count_tags Ω hΩ m top init (fun r d p => val2 t offsetOf unif m w (r d) p) idOf hid p hp
    hinj htop (fun r _ σ d => by simp) hA hB hAB (fun r => P2.view top init (a r))
    (fun r => P2.view top init (b r))
    (fun r hr => pmh2_equal_weights_spec top init m hm t offsetOf unif hn idOf hid w hw r A (itemsA r)
      (hsa r hr) (a r) (ea r hr))
    (fun r hr => pmh2_equal_weights_spec top init m hm t offsetOf unif hn idOf hid w hw r B (itemsB r)
      (hsb r hr) (b r) (eb r hr))

theorem pmh2_equal_weights_position_law [Fintype ι] [DecidableEq ι] [Inhabited ι] (top : K) (init m : ℕ) (hm : 1 ≤ m) (t : TSrc2 K G)
    (offsetOf : K → ℕ → ℕ) (unif : UInt64 → K) (hn : Nice2 t offsetOf unif)
    (idOf : ι → ℕ) (hid : Function.Injective idOf) (w : K) (hw : 0 < w)
    (Ω : Finset (ι → G)) (hΩ : CS.PermClosed Ω) (p : ℕ) (hp : p < m)
    (hinj : ∀ r ∈ Ω, Function.Injective (fun d => val2 t offsetOf unif m w (r d) p))
    (htop : ∀ r ∈ Ω, ∀ d, val2 t offsetOf unif m w (r d) p < top)
    (itemsA : (ι → G) → List (ℕ × K))
    (hsa : ∀ r ∈ Ω, ∀ x, x ∈ itemsA r ↔ x ∈ (Finset.univ : Finset ι).image (fun d => (idOf d, w)))
    (a : (ι → G) → PMH2 K)
    (ea : ∀ r ∈ Ω, run2 t (genOf idOf r) offsetOf unif (PMH2.new top m init) (itemsA r) = .ok (a r))
    (d : ι) :
    (Ω.filter (fun r => (a r).sig.getD p init = idOf d)).card * Fintype.card ι = Ω.card := by
  have := Coll.position_holds_item_count Ω hΩ m top init
    (fun r d p => val2 t offsetOf unif m w (r d) p) idOf hid
    p hp hinj htop (fun r _ σ d => by simp) (A := Finset.univ) rfl (fun r => P2.view top init (a r))
    (fun r hr => pmh2_equal_weights_spec top init m hm t offsetOf unif hn idOf hid w hw r Finset.univ
      (itemsA r) (hsa r hr) (a r) (ea r hr)) d
  rw [Finset.card_univ] at this
  exact this

end EqualWeights

/-! ## non-vacuity of `HitsAll`: the generator `C02.tq` (m = 4) walks through all positions -/
section NonVacuity
open PMH.P3 PMH.C02

theorem tq_pos (winv : ℚ) (id : ℕ) :
    ∀ (j : ℕ) (h : ℚ) (i : ℕ) (g : ℕ), (ptFrom tq winv id h i g j).pos = (g / 2 + j) % 4 := by
  intro j
  induction j with
  | zero => intro h i g; rfl
  | succ j ih =>
    intro h i g
    simp only [ptFrom]
    rw [ih]
    simp only [tq]
    omega

/-- every item of `tq` reaches every position: `HitsAll` is satisfiable (and `Nice tq 4` holds, see `C02`) -/
theorem tq_hitsAll (id : ℕ) (w : ℚ) (g0 : ℕ) : HitsAll tq 4 id w g0 := by
  intro p hp
  refine ⟨(p + 4 - ((tq.fx g0).2 / 2) % 4) % 4, ?_⟩
  rw [tq_pos]
  omega

end NonVacuity

end PMH.PmhColl

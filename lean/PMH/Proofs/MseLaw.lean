import Mathlib.Algebra.BigOperators.Field
import Mathlib.Algebra.Order.BigOperators.Group.Finset
import Mathlib.Algebra.Order.Field.Basic
import Mathlib.Tactic.FieldSimp
import Mathlib.Tactic.Ring
import Mathlib.Tactic.Linarith
import Mathlib.Tactic.NormNum
import Mathlib.Data.Rat.Defs
import Mathlib.Data.Fintype.BigOperators
import Mathlib.MeasureTheory.Integral.Bochner.Basic
import Mathlib.MeasureTheory.Integral.Bochner.Set
import Mathlib.MeasureTheory.Measure.Real
import Mathlib.Probability.Independence.Basic
import Mathlib.Probability.Moments.Covariance

/-!
# `MseLaw`: the mean squared error of the collision-fraction estimate (C01 / C03)

The estimate is `Ĵ = (1/m) Σ_{k<m} 1[collision at position k]`.  Unbiasedness (every position collides
with probability exactly `p`) is proved elsewhere (`PmhColl`, `SMH2Coll`, `JpLaw`).  Here: if moreover the
collision indicators of two DIFFERENT positions are non-positively correlated, then
`E (Ĵ - p)² ≤ p (1 - p) / m`, with equality when they are uncorrelated (e.g. independent positions).
The non-positive correlation itself (Ertl 2017 for SuperMinHash, Ertl 2020 for ProbMinHash) is NOT proved
here; it is the only remaining hypothesis `H2`.

* pointwise algebra   : `sq_sum_idem`, `sq_err_idem`, arithmetic cores `core_le`, `core_eq`
* finite uniform form : `E`, `ind`, `E_sq_err`, `mse_le`, `mse_eq` (any ordered field),
                        division-free counting forms `mse_le_count`, `mse_le_ratio` (over `ℤ`)
* `mse_counterexample`: without `H2` the bound fails (`m = 2`, identical positions, `1/4 > 1/8`)
* measure form        : `integral_sq_err`, `mse_le_measure`, `mse_eq_measure`,
                        `cov_indicator`, `mse_le_measure_cov` (hypothesis literally `cov[1_C k, 1_C k'] ≤ 0`)
* independent positions: `mse_eq_of_pairwise_indep`, `mse_eq_of_indep`
-/
namespace PMH.MseLaw
open Finset

section Pointwise
variable {K : Type*} [Field K]

/-- off-diagonal sum of products -/
def offDiag {m : ℕ} (x : Fin m → K) : K := ∑ k, ∑ k' ∈ univ.erase k, x k * x k'

/-- square of a sum of idempotents -/
theorem sq_sum_idem {m : ℕ} (x : Fin m → K) (hx : ∀ k, x k * x k = x k) :
    (∑ k, x k) ^ 2 = ∑ k, x k + offDiag x := by
  unfold offDiag
  rw [sq, Finset.sum_mul_sum, ← Finset.sum_add_distrib]
  refine Finset.sum_congr rfl fun k _ => ?_
  rw [← Finset.add_sum_erase _ _ (Finset.mem_univ k), hx k]

/-- the pointwise identity behind the MSE computation -/
theorem sq_err_idem {m : ℕ} (x : Fin m → K) (hx : ∀ k, x k * x k = x k) (c p : K) :
    ((∑ k, x k) * c - p) ^ 2
      = c ^ 2 * (∑ k, x k) + c ^ 2 * offDiag x - 2 * p * c * (∑ k, x k) + p ^ 2 := by
  have := sq_sum_idem x hx
  calc ((∑ k, x k) * c - p) ^ 2
      = c ^ 2 * (∑ k, x k) ^ 2 - 2 * p * c * (∑ k, x k) + p ^ 2 := by ring
    _ = _ := by rw [this]; ring

end Pointwise

section Core
variable {K : Type*} [Field K] [LinearOrder K] [IsStrictOrderedRing K]

/-- arithmetic core (inequality): first moments all `p`, mixed second moments at most `p * p` -/
theorem core_le {m : ℕ} (hm : 0 < m) (p : K) (e2 : Fin m → Fin m → K)
    (h2 : ∀ k k', k ≠ k' → e2 k k' ≤ p * p) :
    (1 / (m : K)) ^ 2 * (∑ _k : Fin m, p) + (1 / (m : K)) ^ 2 * (∑ k, ∑ k' ∈ univ.erase k, e2 k k')
      - 2 * p * (1 / (m : K)) * (∑ _k : Fin m, p) + p ^ 2 ≤ p * (1 - p) / m := by
  have hm' : (0 : K) < m := Nat.cast_pos.2 hm
  have hS : (∑ k : Fin m, ∑ k' ∈ univ.erase k, e2 k k') ≤ (m : K) * ((m : K) - 1) * (p * p) := by
    calc (∑ k : Fin m, ∑ k' ∈ univ.erase k, e2 k k')
        ≤ ∑ _k : Fin m, ∑ _k' ∈ univ.erase _k, p * p :=
          Finset.sum_le_sum fun k _ => Finset.sum_le_sum fun k' hk' =>
            h2 k k' (Finset.ne_of_mem_erase hk').symm
      _ = (m : K) * ((m : K) - 1) * (p * p) := by
          simp only [Finset.sum_const, Finset.card_erase_of_mem (Finset.mem_univ _),
            Finset.card_univ, Fintype.card_fin, nsmul_eq_mul]
          rw [Nat.cast_sub hm, Nat.cast_one]; ring
  have hc : (0 : K) ≤ (1 / (m : K)) ^ 2 := sq_nonneg _
  have := mul_le_mul_of_nonneg_left hS hc
  have hrhs : p * (1 - p) / m = (1 / (m : K)) ^ 2 * (∑ _k : Fin m, p)
      + (1 / (m : K)) ^ 2 * ((m : K) * ((m : K) - 1) * (p * p))
      - 2 * p * (1 / (m : K)) * (∑ _k : Fin m, p) + p ^ 2 := by
    simp only [Finset.sum_const, Finset.card_univ, Fintype.card_fin, nsmul_eq_mul]
    field_simp
    ring
  rw [hrhs]
  linarith

/-- arithmetic core (equality) -/
theorem core_eq {m : ℕ} (hm : 0 < m) (p : K) (e2 : Fin m → Fin m → K)
    (h2 : ∀ k k', k ≠ k' → e2 k k' = p * p) :
    (1 / (m : K)) ^ 2 * (∑ _k : Fin m, p) + (1 / (m : K)) ^ 2 * (∑ k, ∑ k' ∈ univ.erase k, e2 k k')
      - 2 * p * (1 / (m : K)) * (∑ _k : Fin m, p) + p ^ 2 = p * (1 - p) / m := by
  have hm' : (m : K) ≠ 0 := Nat.cast_ne_zero.2 hm.ne'
  have hS : (∑ k : Fin m, ∑ k' ∈ univ.erase k, e2 k k') = (m : K) * ((m : K) - 1) * (p * p) := by
    calc (∑ k : Fin m, ∑ k' ∈ univ.erase k, e2 k k')
        = ∑ _k : Fin m, ∑ _k' ∈ univ.erase _k, p * p :=
          Finset.sum_congr rfl fun k _ => Finset.sum_congr rfl fun k' hk' =>
            h2 k k' (Finset.ne_of_mem_erase hk').symm
      _ = (m : K) * ((m : K) - 1) * (p * p) := by
          simp only [Finset.sum_const, Finset.card_erase_of_mem (Finset.mem_univ _),
            Finset.card_univ, Fintype.card_fin, nsmul_eq_mul]
          rw [Nat.cast_sub hm, Nat.cast_one]; ring
  rw [hS]
  simp only [Finset.sum_const, Finset.card_univ, Fintype.card_fin, nsmul_eq_mul]
  field_simp
  ring

end Core

/-! ## Task A: finite uniform outcome space -/
section Finite
variable {K : Type*} [Field K] {α : Type*}

/-- indicator of a decidable proposition -/
def ind (P : Prop) [Decidable P] : K := if P then 1 else 0

theorem ind_mul_self (P : Prop) [Decidable P] : (ind P : K) * ind P = ind P := by
  unfold ind; split <;> simp

theorem ind_mul_ind (P Q : Prop) [Decidable P] [Decidable Q] :
    (ind P : K) * ind Q = ind (P ∧ Q) := by
  unfold ind; by_cases hP : P <;> by_cases hQ : Q <;> simp [hP, hQ]

/-- expectation under the uniform law on the finset `Ω` -/
def E (Ω : Finset α) (f : α → K) : K := (∑ ω ∈ Ω, f ω) / (Ω.card : K)

theorem E_add (Ω : Finset α) (f g : α → K) : E Ω (fun ω => f ω + g ω) = E Ω f + E Ω g := by
  unfold E; rw [Finset.sum_add_distrib, add_div]

theorem E_sub (Ω : Finset α) (f g : α → K) : E Ω (fun ω => f ω - g ω) = E Ω f - E Ω g := by
  unfold E; rw [Finset.sum_sub_distrib, sub_div]

theorem E_const_mul (Ω : Finset α) (c : K) (f : α → K) : E Ω (fun ω => c * f ω) = c * E Ω f := by
  unfold E; rw [← Finset.mul_sum, mul_div_assoc]

theorem E_const [CharZero K] {Ω : Finset α} (hΩ : Ω.Nonempty) (c : K) : E Ω (fun _ => c) = c := by
  unfold E
  have : (Ω.card : K) ≠ 0 := Nat.cast_ne_zero.2 hΩ.card_pos.ne'
  rw [Finset.sum_const, nsmul_eq_mul]; field_simp

theorem E_sum {ι : Type*} (Ω : Finset α) (s : Finset ι) (f : ι → α → K) :
    E Ω (fun ω => ∑ i ∈ s, f i ω) = ∑ i ∈ s, E Ω (f i) := by
  unfold E; rw [Finset.sum_comm, Finset.sum_div]

/-- expectation of an indicator = relative frequency -/
theorem E_ind (Ω : Finset α) (P : α → Prop) [DecidablePred P] :
    E Ω (fun ω => (ind (P ω) : K)) = ((Ω.filter P).card : K) / Ω.card := by
  unfold E ind; rw [Finset.sum_boole]

/-- the estimate is the fraction of colliding positions -/
theorem sum_ind_eq_card {m : ℕ} (C : Fin m → Prop) [DecidablePred C] :
    (∑ k, (ind (C k) : K)) = ((univ.filter C).card : K) := by
  unfold ind; rw [Finset.sum_boole]

/-- the expectation of the squared error, expanded by linearity -/
theorem E_sq_err [CharZero K] {m : ℕ} (Ω : Finset α) (hΩ : Ω.Nonempty) (C : Fin m → α → Prop)
    [∀ k ω, Decidable (C k ω)] (p : K) :
    E Ω (fun ω => ((∑ k, (ind (C k ω) : K)) / m - p) ^ 2)
      = (1 / (m : K)) ^ 2 * (∑ k, E Ω (fun ω => (ind (C k ω) : K)))
        + (1 / (m : K)) ^ 2 *
          (∑ k, ∑ k' ∈ univ.erase k, E Ω (fun ω => (ind (C k ω) : K) * ind (C k' ω)))
        - 2 * p * (1 / (m : K)) * (∑ k, E Ω (fun ω => (ind (C k ω) : K))) + p ^ 2 := by
  have hpt : ∀ ω, ((∑ k, (ind (C k ω) : K)) / m - p) ^ 2
      = (1 / (m : K)) ^ 2 * (∑ k, (ind (C k ω) : K))
        + (1 / (m : K)) ^ 2 * (∑ k, ∑ k' ∈ univ.erase k, (ind (C k ω) : K) * ind (C k' ω))
        - 2 * p * (1 / (m : K)) * (∑ k, (ind (C k ω) : K)) + p ^ 2 := by
    intro ω
    rw [div_eq_mul_one_div, sq_err_idem _ (fun k => ind_mul_self (C k ω))]
    rfl
  simp_rw [hpt]
  rw [E_add, E_sub, E_add, E_const hΩ, E_const_mul, E_const_mul, E_const_mul, E_sum, E_sum]
  simp_rw [E_sum]

/-- **MSE bound (finite form)**: if every position collides with probability `p` (H1) and the
collision indicators of two different positions are non-positively correlated (H2), then the mean
squared error of the estimate `Ĵ = #{k | C k} / m` is at most `p (1 - p) / m`. -/
theorem mse_le [LinearOrder K] [IsStrictOrderedRing K] {m : ℕ} (hm : 0 < m) (Ω : Finset α) (hΩ : Ω.Nonempty) (C : Fin m → α → Prop)
    [∀ k ω, Decidable (C k ω)] (p : K)
    (H1 : ∀ k, E Ω (fun ω => (ind (C k ω) : K)) = p)
    (H2 : ∀ k k', k ≠ k' → E Ω (fun ω => (ind (C k ω) : K) * ind (C k' ω)) ≤ p * p) :
    E Ω (fun ω => ((∑ k, (ind (C k ω) : K)) / m - p) ^ 2) ≤ p * (1 - p) / m := by
  rw [E_sq_err Ω hΩ C p]
  simp_rw [H1]
  exact core_le hm p _ H2

/-- **MSE, equality case**: pairwise uncorrelated positions give exactly `p (1 - p) / m`. -/
theorem mse_eq [LinearOrder K] [IsStrictOrderedRing K] {m : ℕ} (hm : 0 < m) (Ω : Finset α) (hΩ : Ω.Nonempty) (C : Fin m → α → Prop)
    [∀ k ω, Decidable (C k ω)] (p : K)
    (H1 : ∀ k, E Ω (fun ω => (ind (C k ω) : K)) = p)
    (H2 : ∀ k k', k ≠ k' → E Ω (fun ω => (ind (C k ω) : K) * ind (C k' ω)) = p * p) :
    E Ω (fun ω => ((∑ k, (ind (C k ω) : K)) / m - p) ^ 2) = p * (1 - p) / m := by
  rw [E_sq_err Ω hΩ C p]
  simp_rw [H1]
  exact core_eq hm p _ H2

/-- **MSE bound, pure counting form** (no division): `N = #Ω` equally likely outcomes, every
position collides on exactly `c` of them, two different positions collide simultaneously on at most
`c² / N` of them. Then `Σ_ω (N · #{k | C k ω} − m · c)² ≤ m · N · c · (N − c)`, which is
`MSE ≤ p (1 − p) / m` with `p = c / N` multiplied by `m² N³`. -/
theorem mse_le_count {m : ℕ} (hm : 0 < m) (Ω : Finset α) (C : Fin m → α → Prop)
    [∀ k ω, Decidable (C k ω)] (c : ℕ)
    (H1 : ∀ k, (Ω.filter (C k)).card = c)
    (H2 : ∀ k k', k ≠ k' → (Ω.filter fun ω => C k ω ∧ C k' ω).card * Ω.card ≤ c * c) :
    ∑ ω ∈ Ω, ((Ω.card : ℤ) * ((univ.filter fun k => C k ω).card : ℤ) - (m : ℤ) * c) ^ 2
      ≤ (m : ℤ) * Ω.card * c * ((Ω.card : ℤ) - c) := by
  rcases Ω.eq_empty_or_nonempty with rfl | hΩ
  · simp
  have hN : (0 : ℚ) < Ω.card := Nat.cast_pos.2 hΩ.card_pos
  have hm' : (0 : ℚ) < m := Nat.cast_pos.2 hm
  have h := mse_le (K := ℚ) hm Ω hΩ C ((c : ℚ) / Ω.card)
    (fun k => by rw [E_ind, H1])
    (fun k k' hk => by
      simp_rw [ind_mul_ind]
      rw [E_ind, div_mul_div_comm, div_le_div_iff₀ hN (mul_pos hN hN)]
      have h2 : ((Ω.filter fun ω => C k ω ∧ C k' ω).card : ℚ) * Ω.card ≤ (c : ℚ) * c := by
        exact_mod_cast H2 k k' hk
      nlinarith [mul_le_mul_of_nonneg_right h2 hN.le])
  have hS : E Ω (fun ω => ((∑ k, (ind (C k ω) : ℚ)) / m - (c : ℚ) / Ω.card) ^ 2)
      = (∑ ω ∈ Ω, ((Ω.card : ℚ) * ((univ.filter fun k => C k ω).card : ℚ) - (m : ℚ) * c) ^ 2)
        / (((m : ℚ) * Ω.card) ^ 2 * Ω.card) := by
    have hpt : ∀ ω, ((∑ k, (ind (C k ω) : ℚ)) / m - (c : ℚ) / Ω.card) ^ 2
        = ((Ω.card : ℚ) * ((univ.filter fun k => C k ω).card : ℚ) - (m : ℚ) * c) ^ 2
          / ((m : ℚ) * Ω.card) ^ 2 := by
      intro ω
      rw [sum_ind_eq_card]
      field_simp
    unfold E
    simp_rw [hpt]
    rw [← Finset.sum_div, div_div]
  rw [hS, div_le_iff₀ (by positivity)] at h
  have h' : (∑ ω ∈ Ω, ((Ω.card : ℚ) * ((univ.filter fun k => C k ω).card : ℚ) - (m : ℚ) * c) ^ 2)
      ≤ (m : ℚ) * Ω.card * c * ((Ω.card : ℚ) - c) := by
    refine h.trans_eq ?_
    field_simp
  exact_mod_cast h'

/-- **MSE bound, counting form with `p = I / U`** (the shape of the project's collision-count
theorems `#{collision at k} * |A ∪ B| = |A ∩ B| * #Ω`): if moreover two different positions collide
simultaneously with probability at most `(I / U)²`, then
`Σ_ω (U · #{k | C k ω} − m · I)² ≤ m · #Ω · I · (U − I)`,
which is `MSE ≤ p (1 − p) / m` multiplied by `m² U² #Ω`. -/
theorem mse_le_ratio {m : ℕ} (hm : 0 < m) (Ω : Finset α) (C : Fin m → α → Prop)
    [∀ k ω, Decidable (C k ω)] (I U : ℕ) (hU : 0 < U)
    (H1 : ∀ k, (Ω.filter (C k)).card * U = I * Ω.card)
    (H2 : ∀ k k', k ≠ k' →
      (Ω.filter fun ω => C k ω ∧ C k' ω).card * (U * U) ≤ I * I * Ω.card) :
    ∑ ω ∈ Ω, ((U : ℤ) * ((univ.filter fun k => C k ω).card : ℤ) - (m : ℤ) * I) ^ 2
      ≤ (m : ℤ) * Ω.card * I * ((U : ℤ) - I) := by
  rcases Ω.eq_empty_or_nonempty with rfl | hΩ
  · simp
  have hN : (0 : ℚ) < Ω.card := Nat.cast_pos.2 hΩ.card_pos
  have hm' : (0 : ℚ) < m := Nat.cast_pos.2 hm
  have hU' : (0 : ℚ) < U := Nat.cast_pos.2 hU
  have h := mse_le (K := ℚ) hm Ω hΩ C ((I : ℚ) / U)
    (fun k => by
      rw [E_ind, div_eq_div_iff hN.ne' hU'.ne']
      exact_mod_cast H1 k)
    (fun k k' hk => by
      simp_rw [ind_mul_ind]
      rw [E_ind, div_mul_div_comm, div_le_div_iff₀ hN (mul_pos hU' hU')]
      exact_mod_cast H2 k k' hk)
  have hpt : ∀ ω, ((∑ k, (ind (C k ω) : ℚ)) / m - (I : ℚ) / U) ^ 2
      = ((U : ℚ) * ((univ.filter fun k => C k ω).card : ℚ) - (m : ℚ) * I) ^ 2
        / ((m : ℚ) * U) ^ 2 := by
    intro ω
    rw [sum_ind_eq_card]
    field_simp
  have hS : E Ω (fun ω => ((∑ k, (ind (C k ω) : ℚ)) / m - (I : ℚ) / U) ^ 2)
      = (∑ ω ∈ Ω, ((U : ℚ) * ((univ.filter fun k => C k ω).card : ℚ) - (m : ℚ) * I) ^ 2)
        / (((m : ℚ) * U) ^ 2 * Ω.card) := by
    unfold E
    simp_rw [hpt]
    rw [← Finset.sum_div, div_div]
  rw [hS, div_le_iff₀ (by positivity)] at h
  have h' : (∑ ω ∈ Ω, ((U : ℚ) * ((univ.filter fun k => C k ω).card : ℚ) - (m : ℚ) * I) ^ 2)
      ≤ (m : ℚ) * Ω.card * I * ((U : ℚ) - I) := by
    refine h.trans_eq ?_
    field_simp
  exact_mod_cast h'

/-- **(H2) cannot be dropped**: `m = 2` positions that always agree with each other (both collide
iff the fair coin `ω` shows `true`), `p = 1/2`. (H1) holds, the two indicators are positively
correlated (`1/2 > 1/4`), and the MSE is `1/4`, twice the claimed bound `1/8`. -/
theorem mse_counterexample :
    (∀ _k : Fin 2, E (Finset.univ : Finset Bool) (fun ω => (ind (ω = true) : ℚ)) = 1 / 2) ∧
    E (Finset.univ : Finset Bool) (fun ω => (ind (ω = true) : ℚ) * ind (ω = true)) = 1 / 2 ∧
    E (Finset.univ : Finset Bool)
      (fun ω => ((∑ _k : Fin 2, (ind (ω = true) : ℚ)) / (2 : ℕ) - 1 / 2) ^ 2) = 1 / 4 ∧
    ¬ E (Finset.univ : Finset Bool)
      (fun ω => ((∑ _k : Fin 2, (ind (ω = true) : ℚ)) / (2 : ℕ) - 1 / 2) ^ 2)
        ≤ (1 / 2 : ℚ) * (1 - 1 / 2) / (2 : ℕ) := by
  refine ⟨fun _ => ?_, ?_, ?_, ?_⟩ <;> simp [E, ind] <;> norm_num

end Finite

/-! ## Task B: probability space -/
section Measure
open MeasureTheory ProbabilityTheory

variable {Ω : Type*}

open Classical in
/-- the number of colliding positions as a sum of set indicators -/
theorem card_eq_sum_indicator {m : ℕ} (C : Fin m → Set Ω) (ω : Ω) :
    ((univ.filter fun k => ω ∈ C k).card : ℝ) = ∑ k, (C k).indicator (1 : Ω → ℝ) ω := by
  rw [Finset.natCast_card_filter]
  refine Finset.sum_congr rfl fun k _ => ?_
  rw [Set.indicator_apply]
  exact if_congr Iff.rfl rfl rfl

theorem indicator_one_idem (s : Set Ω) (ω : Ω) :
    s.indicator (1 : Ω → ℝ) ω * s.indicator (1 : Ω → ℝ) ω = s.indicator (1 : Ω → ℝ) ω := by
  by_cases h : ω ∈ s <;> simp [h]

theorem indicator_one_mul (s t : Set Ω) (ω : Ω) :
    s.indicator (1 : Ω → ℝ) ω * t.indicator (1 : Ω → ℝ) ω = (s ∩ t).indicator (1 : Ω → ℝ) ω := by
  by_cases h : ω ∈ s <;> by_cases h' : ω ∈ t <;> simp [h, h']

variable [MeasurableSpace Ω]

open Classical in
/-- the expectation of the squared error, expanded by linearity of the integral -/
theorem integral_sq_err (P : Measure Ω) [IsProbabilityMeasure P] {m : ℕ} (C : Fin m → Set Ω)
    (hC : ∀ k, MeasurableSet (C k)) (p : ℝ) :
    ∫ ω, (((univ.filter fun k => ω ∈ C k).card : ℝ) / m - p) ^ 2 ∂P
      = (1 / (m : ℝ)) ^ 2 * (∑ k, P.real (C k))
        + (1 / (m : ℝ)) ^ 2 * (∑ k, ∑ k' ∈ univ.erase k, P.real (C k ∩ C k'))
        - 2 * p * (1 / (m : ℝ)) * (∑ k, P.real (C k)) + p ^ 2 := by
  have hpt : ∀ ω, (((univ.filter fun k => ω ∈ C k).card : ℝ) / m - p) ^ 2
      = (1 / (m : ℝ)) ^ 2 * (∑ k, (C k).indicator (1 : Ω → ℝ) ω)
        + (1 / (m : ℝ)) ^ 2 * (∑ k, ∑ k' ∈ univ.erase k, (C k ∩ C k').indicator (1 : Ω → ℝ) ω)
        - 2 * p * (1 / (m : ℝ)) * (∑ k, (C k).indicator (1 : Ω → ℝ) ω) + p ^ 2 := by
    intro ω
    rw [card_eq_sum_indicator, div_eq_mul_one_div,
      sq_err_idem _ (fun k => indicator_one_idem (C k) ω)]
    unfold offDiag
    simp_rw [indicator_one_mul]
  simp_rw [hpt]
  have hi : ∀ s : Set Ω, MeasurableSet s → Integrable (s.indicator (1 : Ω → ℝ)) P :=
    fun s hs => (integrable_const (1 : ℝ)).indicator hs
  have hi1 : Integrable (fun ω => ∑ k, (C k).indicator (1 : Ω → ℝ) ω) P :=
    integrable_finsetSum _ fun k _ => hi _ (hC k)
  have hi2 : Integrable
      (fun ω => ∑ k, ∑ k' ∈ univ.erase k, (C k ∩ C k').indicator (1 : Ω → ℝ) ω) P :=
    integrable_finsetSum _ fun k _ => integrable_finsetSum _ fun k' _ =>
      hi _ ((hC k).inter (hC k'))
  have hA : Integrable (fun ω => (1 / (m : ℝ)) ^ 2 * ∑ k, (C k).indicator (1 : Ω → ℝ) ω) P :=
    hi1.const_mul _
  have hB : Integrable (fun ω => (1 / (m : ℝ)) ^ 2 *
      ∑ k, ∑ k' ∈ univ.erase k, (C k ∩ C k').indicator (1 : Ω → ℝ) ω) P := hi2.const_mul _
  have hD : Integrable (fun ω => 2 * p * (1 / (m : ℝ)) * ∑ k, (C k).indicator (1 : Ω → ℝ) ω) P :=
    hi1.const_mul _
  have hAB : Integrable (fun ω => (1 / (m : ℝ)) ^ 2 * ∑ k, (C k).indicator (1 : Ω → ℝ) ω
      + (1 / (m : ℝ)) ^ 2 * ∑ k, ∑ k' ∈ univ.erase k, (C k ∩ C k').indicator (1 : Ω → ℝ) ω) P :=
    hA.add hB
  have hABD : Integrable (fun ω => (1 / (m : ℝ)) ^ 2 * ∑ k, (C k).indicator (1 : Ω → ℝ) ω
      + (1 / (m : ℝ)) ^ 2 * ∑ k, ∑ k' ∈ univ.erase k, (C k ∩ C k').indicator (1 : Ω → ℝ) ω
      - 2 * p * (1 / (m : ℝ)) * ∑ k, (C k).indicator (1 : Ω → ℝ) ω) P := hAB.sub hD
  rw [integral_add hABD (integrable_const _), integral_sub hAB hD, integral_add hA hB,
    integral_const_mul, integral_const_mul, integral_const_mul, integral_const,
    integral_finsetSum _ (fun k _ => hi _ (hC k)),
    integral_finsetSum _ (fun k _ => integrable_finsetSum _ fun k' _ =>
      hi _ ((hC k).inter (hC k')))]
  simp_rw [integral_finsetSum _ (fun k' _ => hi _ ((hC _).inter (hC k'))),
    integral_indicator_one (hC _), integral_indicator_one ((hC _).inter (hC _))]
  rw [probReal_univ, one_smul]

open Classical in
/-- **MSE bound (measure form)**: measurable collision events `C k` on a probability space, every
one of probability `p`, and any two different ones non-positively correlated
(`P (C k ∩ C k') ≤ p ^ 2`): the mean squared error of the fraction of colliding positions is at
most `p (1 - p) / m`. -/
theorem mse_le_measure (P : Measure Ω) [IsProbabilityMeasure P] {m : ℕ} (hm : 0 < m)
    (C : Fin m → Set Ω) (hC : ∀ k, MeasurableSet (C k)) (p : ℝ)
    (H1 : ∀ k, P.real (C k) = p)
    (H2 : ∀ k k', k ≠ k' → P.real (C k ∩ C k') ≤ p ^ 2) :
    ∫ ω, (((univ.filter fun k => ω ∈ C k).card : ℝ) / m - p) ^ 2 ∂P ≤ p * (1 - p) / m := by
  rw [integral_sq_err P C hC p]
  simp_rw [H1]
  exact core_le hm p _ (fun k k' h => (H2 k k' h).trans_eq (sq p))

/-- covariance of the indicators of two events -/
theorem cov_indicator (P : Measure Ω) [IsProbabilityMeasure P] {s t : Set Ω}
    (hs : MeasurableSet s) (ht : MeasurableSet t) :
    cov[s.indicator (1 : Ω → ℝ), t.indicator (1 : Ω → ℝ); P]
      = P.real (s ∩ t) - P.real s * P.real t := by
  have hmem : ∀ u : Set Ω, MeasurableSet u → MemLp (u.indicator (1 : Ω → ℝ)) 2 P :=
    fun u hu => (memLp_const (1 : ℝ)).indicator hu
  rw [covariance_eq_sub (hmem s hs) (hmem t ht), ← Set.inter_indicator_one,
    integral_indicator_one (hs.inter ht), integral_indicator_one hs, integral_indicator_one ht]

open Classical in
/-- **MSE bound (measure form, covariance hypothesis)**: the only assumption besides the marginal
law is that the collision indicators of two different positions are non-positively correlated. -/
theorem mse_le_measure_cov (P : Measure Ω) [IsProbabilityMeasure P] {m : ℕ} (hm : 0 < m)
    (C : Fin m → Set Ω) (hC : ∀ k, MeasurableSet (C k)) (p : ℝ)
    (H1 : ∀ k, P.real (C k) = p)
    (H2 : ∀ k k', k ≠ k' →
      cov[(C k).indicator (1 : Ω → ℝ), (C k').indicator (1 : Ω → ℝ); P] ≤ 0) :
    ∫ ω, (((univ.filter fun k => ω ∈ C k).card : ℝ) / m - p) ^ 2 ∂P ≤ p * (1 - p) / m := by
  refine mse_le_measure P hm C hC p H1 fun k k' h => ?_
  have := H2 k k' h
  rw [cov_indicator P (hC k) (hC k'), H1, H1] at this
  nlinarith [this]

open Classical in
/-- **MSE, equality case (measure form)** -/
theorem mse_eq_measure (P : Measure Ω) [IsProbabilityMeasure P] {m : ℕ} (hm : 0 < m)
    (C : Fin m → Set Ω) (hC : ∀ k, MeasurableSet (C k)) (p : ℝ)
    (H1 : ∀ k, P.real (C k) = p)
    (H2 : ∀ k k', k ≠ k' → P.real (C k ∩ C k') = p ^ 2) :
    ∫ ω, (((univ.filter fun k => ω ∈ C k).card : ℝ) / m - p) ^ 2 ∂P = p * (1 - p) / m := by
  rw [integral_sq_err P C hC p]
  simp_rw [H1]
  exact core_eq hm p _ (fun k k' h => (H2 k k' h).trans (sq p))

/-! ## Task C: independent positions (plain consistent sampling) -/

open Classical in
/-- pairwise independent collision events: the MSE is exactly `p (1 - p) / m` -/
theorem mse_eq_of_pairwise_indep (P : Measure Ω) [IsProbabilityMeasure P] {m : ℕ} (hm : 0 < m)
    (C : Fin m → Set Ω) (hC : ∀ k, MeasurableSet (C k)) (p : ℝ)
    (H1 : ∀ k, P.real (C k) = p)
    (Hind : ∀ k k', k ≠ k' → IndepSet (C k) (C k') P) :
    ∫ ω, (((univ.filter fun k => ω ∈ C k).card : ℝ) / m - p) ^ 2 ∂P = p * (1 - p) / m := by
  refine mse_eq_measure P hm C hC p H1 fun k k' h => ?_
  rw [measureReal_def, (Hind k k' h).measure_inter_eq_mul, ENNReal.toReal_mul, ← measureReal_def,
    ← measureReal_def, H1, H1, sq]

open Classical in
/-- mutually independent collision events: the MSE is exactly `p (1 - p) / m` -/
theorem mse_eq_of_indep (P : Measure Ω) [IsProbabilityMeasure P] {m : ℕ} (hm : 0 < m)
    (C : Fin m → Set Ω) (hC : ∀ k, MeasurableSet (C k)) (p : ℝ)
    (H1 : ∀ k, P.real (C k) = p) (Hind : iIndepSet C P) :
    ∫ ω, (((univ.filter fun k => ω ∈ C k).card : ℝ) / m - p) ^ 2 ∂P = p * (1 - p) / m := by
  refine mse_eq_measure P hm C hC p H1 fun k k' h => ?_
  have := Hind.meas_biInter {k, k'}
  rw [Finset.set_biInter_insert, Finset.set_biInter_singleton, Finset.prod_pair h] at this
  rw [measureReal_def, this, ENNReal.toReal_mul, ← measureReal_def, ← measureReal_def, H1, H1, sq]

end Measure

end PMH.MseLaw

import Mathlib.Logic.Equiv.Basic
import Mathlib.Algebra.Group.End
import Mathlib.Data.Fin.Basic
import Mathlib.Data.Fintype.Pi
import Mathlib.Data.Fintype.Perm
import Mathlib.Data.Fintype.Card
import Mathlib.Tactic.SplitIfs
/-!
# `FYSwap`: the in-place Fisher–Yates of SuperMinHash is a bijection draws ↔ permutations

`perm k j` is the array `p` (a permutation of ℕ, the identity initially) after `j` iterations,
iteration `j` swapping entries `j` and `k j` — exactly `PMH.SMHP.perm` with `k j := kOf t m g j`.
A draw vector is *admissible* for `m` when `j ≤ k j < m` for all `j < m`.

* (a) `perm_fixes_ge`: `perm k m` fixes every `i ≥ m` and maps `{0..m-1}` to itself;
* (b) `perm_injective`: admissible draw vectors with the same `perm k m` agree on `[0,m)`;
* (c) `perm_surjective`: every permutation of ℕ fixing all `i ≥ m` is `perm k m` for an
  admissible `k`;
* (d) `permFin_bijective`, `exists_unique_draws`, `card_draws`: on the finite type `Draws m` of
  admissible draw vectors, `c ↦ perm c m` restricted to `Fin m` is a bijection onto
  `Equiv.Perm (Fin m)`; `Fintype.card (Draws m) = m !`.

Consequence: uniform independent draws `k j ∈ [j, m)` give a uniform permutation.
-/
namespace PMH.FYSwap

/-- the array after `j` iterations; iteration `j` swaps entries `j` and `k j` -/
def perm (k : ℕ → ℕ) : ℕ → Equiv.Perm ℕ
  | 0 => 1
  | j + 1 => perm k j * Equiv.swap j (k j)

/-- admissible draw vector: `j ≤ k j < m` for every `j < m` -/
def Adm (m : ℕ) (k : ℕ → ℕ) : Prop := ∀ j, j < m → j ≤ k j ∧ k j < m

theorem perm_zero (k : ℕ → ℕ) : perm k 0 = 1 := rfl

theorem perm_succ (k : ℕ → ℕ) (j : ℕ) : perm k (j + 1) = perm k j * Equiv.swap j (k j) := rfl

theorem perm_succ_apply (k : ℕ → ℕ) (j i : ℕ) :
    perm k (j + 1) i = perm k j (Equiv.swap j (k j) i) := rfl

/-- `perm k j` depends on `k 0, …, k (j-1)` only -/
theorem perm_congr {k k' : ℕ → ℕ} : ∀ j, (∀ i, i < j → k i = k' i) → perm k j = perm k' j := by
  intro j
  induction j with
  | zero => intro _; rfl
  | succ j ih =>
    intro h
    rw [perm_succ, perm_succ, ih (fun i hi => h i (by omega)), h j (by omega)]

theorem perm_lt {m : ℕ} {k : ℕ → ℕ} (hk : Adm m k) :
    ∀ j, j ≤ m → ∀ i, i < m → perm k j i < m := by
  intro j
  induction j with
  | zero => intro _ i hi; exact hi
  | succ j ih =>
    intro hj i hi
    rw [perm_succ_apply]
    apply ih (by omega)
    have := hk j (by omega)
    rw [Equiv.swap_apply_def]
    split_ifs <;> omega

theorem perm_ge {m : ℕ} {k : ℕ → ℕ} (hk : Adm m k) :
    ∀ j, j ≤ m → ∀ i, m ≤ i → perm k j i = i := by
  intro j
  induction j with
  | zero => intro _ i _; rfl
  | succ j ih =>
    intro hj i hi
    rw [perm_succ_apply]
    have := hk j (by omega)
    rw [Equiv.swap_apply_def, if_neg (by omega), if_neg (by omega)]
    exact ih (by omega) i hi

/-- entry `i` is final after iteration `i` -/
theorem perm_stable {m : ℕ} {k : ℕ → ℕ} (hk : Adm m k) (i j : ℕ) (hij : i < j) :
    ∀ j', j ≤ j' → j' ≤ m → perm k j' i = perm k j i := by
  intro j' hj'
  induction hj' with
  | refl => intro _; rfl
  | step h ih =>
    rename_i n
    intro hm
    have h' : j ≤ n := h
    rw [perm_succ_apply]
    have := hk n (by omega)
    rw [Equiv.swap_apply_def, if_neg (by omega), if_neg (by omega)]
    exact ih (by omega)

/-- the final entry `j` is what iteration `j` fetched from slot `k j` -/
theorem perm_final {m : ℕ} {k : ℕ → ℕ} (hk : Adm m k) (j : ℕ) (hj : j < m) :
    perm k m j = perm k j (k j) := by
  rw [perm_stable hk j (j + 1) (by omega) m (by omega) (le_refl _), perm_succ_apply,
    Equiv.swap_apply_left]

theorem perm_symm_lt {m : ℕ} {k : ℕ → ℕ} (hk : Adm m k) (j : ℕ) (hj : j ≤ m) (i : ℕ)
    (hi : i < m) : (perm k j).symm i < m := by
  by_contra hge
  have := perm_ge hk j hj _ (not_lt.mp hge)
  rw [Equiv.apply_symm_apply] at this
  omega

/-- **(a)** `perm k m` fixes every `i ≥ m` and maps `{0..m-1}` to itself -/
theorem perm_fixes_ge {m : ℕ} {k : ℕ → ℕ} (hk : Adm m k) :
    (∀ i, m ≤ i → perm k m i = i) ∧ (∀ i, i < m → perm k m i < m) ∧
      (∀ i, i < m → ∃ i', i' < m ∧ perm k m i' = i) :=
  ⟨perm_ge hk m (le_refl _), perm_lt hk m (le_refl _),
    fun i hi => ⟨(perm k m).symm i, perm_symm_lt hk m (le_refl _) i hi, by simp⟩⟩

/-- **(b)** admissible draw vectors giving the same final permutation agree on `[0,m)` -/
theorem perm_injective {m : ℕ} {k k' : ℕ → ℕ} (hk : Adm m k) (hk' : Adm m k')
    (h : ∀ i, i < m → perm k m i = perm k' m i) : ∀ j, j < m → k j = k' j := by
  intro j
  induction j using Nat.strong_induction_on with
  | _ j ih =>
    intro hj
    have hc : perm k j = perm k' j := perm_congr j (fun i hi => ih i hi (by omega))
    have := h j hj
    rw [perm_final hk j hj, perm_final hk' j hj, hc] at this
    exact (perm k' j).injective this

/-- (b), as stated: draw vectors that also agree outside `[0,m)` are equal -/
theorem perm_injective' {m : ℕ} {k k' : ℕ → ℕ} (hk : Adm m k) (hk' : Adm m k')
    (hout : ∀ j, m ≤ j → k j = k' j) (h : perm k m = perm k' m) : k = k' := by
  funext j
  rcases Nat.lt_or_ge j m with hj | hj
  · exact perm_injective hk hk' (fun i _ => by rw [h]) j hj
  · exact hout j hj

/-- **(c)** every permutation of ℕ fixing all `i ≥ m` is `perm k m` for an admissible `k` -/
theorem perm_surjective {m : ℕ} (σ : Equiv.Perm ℕ) (hσ : ∀ i, m ≤ i → σ i = i) :
    ∃ k, Adm m k ∧ perm k m = σ := by
  have hσlt : ∀ i, i < m → σ i < m := by
    intro i hi
    by_contra hge
    have := σ.injective (hσ _ (not_lt.mp hge))
    omega
  -- build `k` entry by entry
  have key : ∀ j, j ≤ m → ∃ k, Adm m k ∧ ∀ i, i < j → perm k m i = σ i := by
    intro j
    induction j with
    | zero => intro _; exact ⟨id, fun j hj => ⟨le_refl _, hj⟩, fun i hi => absurd hi (Nat.not_lt_zero _)⟩
    | succ j ih =>
      intro hj
      have hjm : j < m := hj
      obtain ⟨k, hk, hagree⟩ := ih (by omega)
      let x := (perm k j).symm (σ j)
      have hxm : x < m := perm_symm_lt hk j (by omega) _ (hσlt j hjm)
      have hpx : perm k j x = σ j := Equiv.apply_symm_apply _ _
      have hjx : j ≤ x := by
        by_contra hlt
        have hlt : x < j := not_le.mp hlt
        have h1 : perm k m x = perm k j x :=
          perm_stable hk x j hlt m (by omega) (le_refl _)
        have h2 : σ x = σ j := by rw [← hagree x hlt, h1, hpx]
        have := σ.injective h2
        omega
      let k' := Function.update k j x
      have hk' : Adm m k' := by
        intro i hi
        by_cases hij : i = j
        · subst hij; simp only [k', Function.update_self]; exact ⟨hjx, hxm⟩
        · simp only [k', Function.update_of_ne hij]; exact hk i hi
      have hcg : ∀ n, n ≤ j → perm k' n = perm k n := by
        intro n hn
        exact perm_congr n (fun i hi => Function.update_of_ne (by omega) _ _)
      refine ⟨k', hk', fun i hi => ?_⟩
      rcases Nat.lt_succ_iff_lt_or_eq.mp hi with hi | hi
      · rw [← hagree i hi, perm_stable hk' i (i + 1) (by omega) m (by omega) (le_refl _),
          perm_stable hk i (i + 1) (by omega) m (by omega) (le_refl _),
          perm_succ_apply, perm_succ_apply, hcg i (by omega),
          show k' i = k i from Function.update_of_ne (by omega) _ _]
      · subst hi
        rw [perm_final hk' i hjm, hcg i (le_refl _)]
        simp only [k', Function.update_self]
        exact hpx
  obtain ⟨k, hk, hagree⟩ := key m (le_refl _)
  refine ⟨k, hk, Equiv.ext (fun i => ?_)⟩
  rcases Nat.lt_or_ge i m with hi | hi
  · exact hagree i hi
  · rw [perm_ge hk m (le_refl _) i hi, hσ i hi]

/-- (b)+(c): for `σ` fixing all `i ≥ m` the admissible draws are unique on `[0,m)` -/
theorem exists_unique_draws_nat {m : ℕ} (σ : Equiv.Perm ℕ) (hσ : ∀ i, m ≤ i → σ i = i) :
    ∃ k, (Adm m k ∧ perm k m = σ) ∧
      ∀ k', Adm m k' → perm k' m = σ → ∀ j, j < m → k' j = k j := by
  obtain ⟨k, hk, hp⟩ := perm_surjective σ hσ
  exact ⟨k, ⟨hk, hp⟩, fun k' hk' hp' => perm_injective hk' hk (fun i _ => by rw [hp, hp'])⟩

/-! ### (d) the finite formulation -/

/-- the admissible draw vectors for `m`, as a finite type: `c j ∈ [j, m)` for `j : Fin m` -/
abbrev Draws (m : ℕ) : Type := (j : Fin m) → {x : Fin m // j ≤ x}

/-- a finite draw vector as a function `ℕ → ℕ` (the identity outside `[0,m)`) -/
def Draws.toFun {m : ℕ} (c : Draws m) (j : ℕ) : ℕ := if h : j < m then ((c ⟨j, h⟩).1 : ℕ) else j

theorem Draws.toFun_lt {m : ℕ} (c : Draws m) (j : Fin m) : c.toFun j = ((c j).1 : ℕ) := by
  simp [Draws.toFun]

theorem Draws.adm {m : ℕ} (c : Draws m) : Adm m c.toFun := by
  intro j hj
  simp only [Draws.toFun, dif_pos hj]
  exact ⟨(c ⟨j, hj⟩).2, (c ⟨j, hj⟩).1.2⟩

/-- an admissible `k : ℕ → ℕ` as a finite draw vector -/
def Draws.ofAdm {m : ℕ} {k : ℕ → ℕ} (hk : Adm m k) : Draws m :=
  fun j => ⟨⟨k j, (hk j j.2).2⟩, (hk j j.2).1⟩

theorem Draws.toFun_ofAdm {m : ℕ} {k : ℕ → ℕ} (hk : Adm m k) (j : ℕ) (hj : j < m) :
    (Draws.ofAdm hk).toFun j = k j := by
  simp [Draws.toFun, Draws.ofAdm, hj]

/-- the final Fisher–Yates array of the draws `c`, as a permutation of `Fin m` -/
def permFin {m : ℕ} (c : Draws m) : Equiv.Perm (Fin m) where
  toFun i := ⟨perm c.toFun m i, perm_lt c.adm m (le_refl _) i i.2⟩
  invFun i := ⟨(perm c.toFun m).symm i, perm_symm_lt c.adm m (le_refl _) i i.2⟩
  left_inv i := Fin.ext (by simp)
  right_inv i := Fin.ext (by simp)

@[simp] theorem permFin_apply_val {m : ℕ} (c : Draws m) (i : Fin m) :
    ((permFin c i : Fin m) : ℕ) = perm c.toFun m i := rfl

theorem permFin_injective (m : ℕ) : Function.Injective (permFin (m := m)) := by
  intro c c' h
  funext j
  have := perm_injective c.adm c'.adm (fun i hi => by
    have := congrArg (fun τ : Equiv.Perm (Fin m) => ((τ ⟨i, hi⟩ : Fin m) : ℕ)) h
    simpa using this) j j.2
  rw [Draws.toFun_lt, Draws.toFun_lt] at this
  exact Subtype.ext (Fin.ext this)

theorem permFin_surjective (m : ℕ) : Function.Surjective (permFin (m := m)) := by
  intro τ
  let σ : Equiv.Perm ℕ := τ.extendDomain (Fin.equivSubtype (n := m))
  have hσ1 : ∀ i : Fin m, σ i = τ i := by
    intro i
    exact Equiv.Perm.extendDomain_apply_image τ (Fin.equivSubtype (n := m)) i
  have hσ2 : ∀ i, m ≤ i → σ i = i := fun i hi =>
    Equiv.Perm.extendDomain_apply_not_subtype τ _ (not_lt.mpr hi)
  obtain ⟨k, hk, hp⟩ := perm_surjective σ hσ2
  refine ⟨Draws.ofAdm hk, Equiv.ext (fun i => Fin.ext ?_)⟩
  rw [permFin_apply_val, perm_congr m (Draws.toFun_ofAdm hk), hp, hσ1]

/-- **(d)** `c ↦ permFin c` is a bijection from the admissible draw vectors onto the permutations
of `Fin m` -/
theorem permFin_bijective (m : ℕ) : Function.Bijective (permFin (m := m)) :=
  ⟨permFin_injective m, permFin_surjective m⟩

/-- (d), `∃!` form: every permutation of `Fin m` is produced by exactly one draw vector -/
theorem exists_unique_draws {m : ℕ} (τ : Equiv.Perm (Fin m)) : ∃! c : Draws m, permFin c = τ :=
  (permFin_bijective m).existsUnique τ

/-- the equivalence draws ≃ permutations -/
noncomputable def drawsEquivPerm (m : ℕ) : Draws m ≃ Equiv.Perm (Fin m) :=
  Equiv.ofBijective permFin (permFin_bijective m)

/-- there are `m!` admissible draw vectors -/
theorem card_draws (m : ℕ) : Fintype.card (Draws m) = m.factorial := by
  rw [Fintype.card_congr (drawsEquivPerm m), Fintype.card_perm, Fintype.card_fin]

/-- uniformity, as a count: each permutation of `Fin m` is hit by exactly one of the `m!` draw
vectors, so any set `S` of permutations is hit by exactly `#S` draw vectors -/
theorem card_draws_filter (m : ℕ) (S : Finset (Equiv.Perm (Fin m))) :
    (Finset.univ.filter (fun c : Draws m => permFin c ∈ S)).card = S.card := by
  classical
  have : Finset.univ.filter (fun c : Draws m => permFin c ∈ S)
      = S.map (drawsEquivPerm m).symm.toEmbedding := by
    ext c
    simp only [Finset.mem_filter, Finset.mem_univ, true_and, Finset.mem_map,
      Equiv.coe_toEmbedding]
    constructor
    · intro h
      exact ⟨permFin c, h, (drawsEquivPerm m).symm_apply_apply c⟩
    · rintro ⟨τ, hτ, rfl⟩
      have : permFin ((drawsEquivPerm m).symm τ) = τ := (drawsEquivPerm m).apply_symm_apply τ
      rwa [this]
  rw [this, Finset.card_map]

end PMH.FYSwap

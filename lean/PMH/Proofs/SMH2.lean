import PMH.Model.SuperMinHash2
import PMH.Proofs.Race
import PMH.Props.C17
import Mathlib.Order.Lex
import Mathlib.Data.Prod.Lex
import Mathlib.Tactic.Set

/-!
# Refinement of the SuperMinHash2 model (`PMH.SMH2`) to the `Race` specification

Values `V = Lex (ℕ × ℕ)` (pairs `(level, r)`), tags `ℕ` (the item hash), `top m = toLex (m-1, usizeMax)`, `init = 0`.

* `view`, `ptsFrom`/`itemList`/`itemPts` (ALL `m` points of an item: the unpruned process), `itemPts_slots`;
* `WF` (sizes, shuffle invariant, `b` = histogram of `l`, `aUpper` = largest occupied level, bounds);
* `new_wf`; `iter` (one loop iteration: never fails, keeps `WF`, adds the iteration's point to `Spec`);
* MAIN `sketch_regs_spec` — **no tie hypothesis**: the model's `r ≤ values[k]` overwrite preserves `Spec`
  (`spec_overwrite`); `sketch_eq_offers`: under the tie hypothesis the step *is* the strict `Race.offer` fold;
* `sketch_ok`/`run_ok` (no panic), `sketch_wf`;
* `stream_spec`, `holds_item_hash`, `stream_set_semantics`; `reinit_spec`, `reinit_wf`.
-/
namespace PMH.SMH2P
open PMH PMH.Race PMH.FYL PMH.FYP

/-- register values: `(level, r)` in lexicographic order -/
abbrev V := Lex (ℕ × ℕ)

/-- the untouched register of a sketcher of size `m` -/
def top (m : Nat) : V := toLex (m - 1, SMH2.usizeMax)

/-! ### the total source -/

structure TOps (G : Type) where
  fr : G → Nat × G
  fu : G → UInt64 × G
  offsetOf : UInt64 → Nat → Nat

def TOps.toOps {G : Type} (t : TOps G) : Smh2Ops G :=
  { nextR := fun g => .ok (t.fr g), nextU := t.fu, offsetOf := t.offsetOf }

def Nice {G : Type} (t : TOps G) : Prop :=
  (∀ g, (t.fr g).1 < SMH2.usizeMax) ∧ (∀ u n, 0 < n → t.offsetOf u n < n)

/-! ### 1. the view -/

def view (s : SMH2) : St V ℕ :=
  ⟨fun k => toLex (s.l.getD k 0, s.values.getD k 0), fun k => s.hsketch.getD k 0⟩

/-! ### 2. the points of an item -/
variable {G : Type}

/-- the (at most `fuel`) points of the unpruned process from step `j` on, generator `g`, shuffle state `fy`;
draw order per step as in the model: `nextR`, then `nextU` -/
def ptsFrom (t : TOps G) (hval : Nat) : Nat → Nat → G → FY → List (Pt V ℕ)
  | 0, _, _, _ => []
  | fuel + 1, j, g, fy =>
    match fy.nextOff (t.offsetOf (t.fu (t.fr g).2).1 (fy.m - fy.cursor)) with
    | .ok (k, fy') => ⟨k, toLex (j, (t.fr g).1), hval⟩ :: ptsFrom t hval fuel (j + 1) (t.fu (t.fr g).2).2 fy'
    | .error _ => []

/-- the list of the `m` points of item `hval` with generator `g` in a sketcher of size `m` -/
def itemList (t : TOps G) (m hval : Nat) (g : G) : List (Pt V ℕ) :=
  ptsFrom t hval m 0 g (FY.new m).reset

/-- ALL `m` points of an item: a function of `(t, m, hval, g)` alone -/
def itemPts (t : TOps G) (m hval : Nat) (g : G) : Set (Pt V ℕ) := {p | p ∈ itemList t m hval g}

theorem cursor_lt (fy : FY) (h : 0 < fy.m) : fy.cursor < fy.m := by
  unfold FY.cursor; split <;> omega

/-- from a shuffle state with remaining suffix `rest` (`n` entries), the next `n` slots are a permutation of `rest`,
the levels are `j, j+1, …` and the tag is `hval` -/
theorem ptsFrom_block (t : TOps G) (hn : Nice t) (hval : Nat) : ∀ (n : Nat) (j : Nat) (g : G) (fy : FY) (pre rest : List Nat),
    rest.length = n → fy.v.toList = pre ++ rest → (n ≠ 0 → fy.cursor = pre.length) → pre.length + n = fy.m →
    List.Perm ((ptsFrom t hval n j g fy).map Pt.pos) rest ∧
    (ptsFrom t hval n j g fy).length = n ∧
    (∀ i (h : i < (ptsFrom t hval n j g fy).length), ∃ r, r < SMH2.usizeMax ∧
      ((ptsFrom t hval n j g fy)[i]).val = toLex (j + i, r) ∧ ((ptsFrom t hval n j g fy)[i]).tag = hval) := by
  intro n
  induction n with
  | zero =>
    intro j g fy pre rest hl _ _ _
    have : rest = [] := List.length_eq_zero_iff.mp hl
    subst this
    simp [ptsFrom]
  | succ n ih =>
    intro j g fy pre rest hl hv hcur hm
    cases rest with
    | nil => simp at hl
    | cons x xs =>
      have hxl : xs.length = n := by simpa using hl
      have hc0 := hcur (by omega)
      have hoff : t.offsetOf (t.fu (t.fr g).2).1 (fy.m - fy.cursor) < xs.length + 1 := by
        have := hn.2 (t.fu (t.fr g).2).1 (fy.m - fy.cursor) (by omega)
        omega
      obtain ⟨s1, e1, v1, l1, m1⟩ := nextOff_step fy pre x xs _ hv hc0 hoff
      set c := t.offsetOf (t.fu (t.fr g).2).1 (fy.m - fy.cursor) with hc
      have hcur1 : n ≠ 0 → s1.cursor = (pre ++ [pick x xs c]).length := by
        intro hn0
        unfold FY.cursor
        rw [l1, m1]
        simp only [List.length_append, List.length_cons, List.length_nil]
        split
        · omega
        · rfl
      obtain ⟨p1, p2, p3⟩ := ih (j + 1) (t.fu (t.fr g).2).2 s1 (pre ++ [pick x xs c]) (nextRest x xs c)
        (by rw [nextRest_length]; exact hxl) (by simpa using v1) hcur1 (by rw [m1]; simp; omega)
      have hpts : ptsFrom t hval (n + 1) j g fy =
          ⟨pick x xs c, toLex (j, (t.fr g).1), hval⟩ :: ptsFrom t hval n (j + 1) (t.fu (t.fr g).2).2 s1 := by
        simp only [ptsFrom, ← hc, e1]
      rw [hpts]
      refine ⟨?_, by simp [p2], ?_⟩
      · simp only [List.map_cons]
        exact (List.Perm.cons _ p1).trans (step_perm x xs c (by omega))
      · intro i hi
        cases i with
        | zero => exact ⟨_, hn.1 g, rfl, rfl⟩
        | succ i =>
          simp only [List.length_cons] at hi
          obtain ⟨r, hr, e2, e3⟩ := p3 i (by omega)
          refine ⟨r, hr, ?_, ?_⟩
          · simp only [List.getElem_cons_succ, e2]; congr 2; omega
          · simp only [List.getElem_cons_succ, e3]

theorem itemList_facts (t : TOps G) (hn : Nice t) (m hval : Nat) (g : G) :
    List.Perm ((itemList t m hval g).map Pt.pos) (List.range m) ∧ (itemList t m hval g).length = m ∧
    (∀ i (h : i < (itemList t m hval g).length), ∃ r, r < SMH2.usizeMax ∧
      ((itemList t m hval g)[i]).val = toLex (i, r) ∧ ((itemList t m hval g)[i]).tag = hval) := by
  have := ptsFrom_block t hn hval m 0 g (FY.new m).reset [] (List.range m) (by simp)
    (by simp [FY.reset, FY.new]) (by intro h; simp [FY.cursor, FY.reset, FY.new]) (by simp [FY.reset, FY.new])
  simpa [itemList] using this

/-- **2.** the `m` slots of an item are a permutation of `0..m-1` (in particular pairwise distinct) -/
theorem itemPts_slots (t : TOps G) (hn : Nice t) (m hval : Nat) (g : G) :
    List.Perm ((itemList t m hval g).map Pt.pos) (List.range m) ∧ ((itemList t m hval g).map Pt.pos).Nodup :=
  ⟨(itemList_facts t hn m hval g).1, (itemList_facts t hn m hval g).1.nodup_iff.mpr List.nodup_range⟩


/-! ### generic helpers -/

theorem getD_set {α : Type} (a : Array α) (k i : Nat) (x d : α) (hk : k < a.size) :
    (a.setIfInBounds k x).getD i d = if i = k then x else a.getD i d := by
  simp only [Array.getD_eq_getD_getElem?, Array.getElem?_setIfInBounds]
  by_cases hik : i = k
  · subst hik; simp [hk]
  · have : ¬ k = i := fun e => hik e.symm
    simp [hik, this]

theorem getElem?_getD {α : Type} (a : Array α) (k : Nat) (d : α) (hk : k < a.size) : a[k]? = some (a.getD k d) := by
  simp [Array.getD_eq_getD_getElem?, hk]

/-- overwrite with a value `≤` the register (the model's `r ≤ values[k]` update): still the specification,
whatever the tie-breaking -/
theorem spec_overwrite {V T : Type} [LinearOrder V] {m : Nat} {top : V} {init : T} {P : Set (Pt V T)} {s : St V T}
    (h : Spec m top init P s) (p : Pt V T) (hle : p.val ≤ s.reg p.pos) (hlt : p.val < top) :
    Spec m top init (P ∪ {p}) ⟨Function.update s.reg p.pos p.val, Function.update s.tag p.pos p.tag⟩ := by
  obtain ⟨hl, ha⟩ := h
  refine ⟨?_, ?_⟩
  · intro pt hpt
    rcases hpt with hpt | hpt
    · by_cases hk : pt.pos = p.pos
      · simp only [hk, Function.update_self]
        exact le_trans hle (by rw [← hk]; exact hl pt hpt)
      · simp only [Function.update_of_ne hk]; exact hl pt hpt
    · rw [Set.mem_singleton_iff] at hpt; subst hpt; simp
  · intro k hkm
    by_cases hk : k = p.pos
    · right
      subst hk
      exact ⟨by simpa using hlt, p, Or.inr rfl, rfl, by simp, by simp⟩
    · rcases ha k hkm with h0 | ⟨hl', pt, hpt, h1, h2, h3⟩
      · left; simpa [Function.update_of_ne hk] using h0
      · right; exact ⟨by simpa [Function.update_of_ne hk] using hl', pt, Or.inl hpt, h1,
          by simpa [Function.update_of_ne hk] using h2, by simpa [Function.update_of_ne hk] using h3⟩

/-! ### 3. the invariant -/

structure WF (m : Nat) (s : SMH2) : Prop where
  hs : s.hsketch.size = m
  vs : s.values.size = m
  ls : s.l.size = m
  bs : s.b.size = m
  fm : s.fy.m = m
  finv : C17.Inv s.fy
  /-- `b` is the histogram of the levels -/
  hist : ∀ t, s.b.getD t 0 = s.l.toList.count t
  au : s.aUpper < m
  bau : 0 < s.b.getD s.aUpper 0
  bz : ∀ t, s.aUpper < t → s.b.getD t 0 = 0
  ll : ∀ k, k < m → s.l.getD k 0 ≤ m - 1
  vl : ∀ k, k < m → s.values.getD k 0 ≤ SMH2.usizeMax

theorem WF.pos {m : Nat} {s : SMH2} (h : WF m s) : 1 ≤ m := by have := h.au; omega

/-- every level is at most `aUpper` -/
theorem WF.level_le {m : Nat} {s : SMH2} (h : WF m s) (k : Nat) (hk : k < m) : s.l.getD k 0 ≤ s.aUpper := by
  by_contra hc
  have h0 := h.bz _ (by omega : s.aUpper < s.l.getD k 0)
  rw [h.hist] at h0
  have hmem : s.l.getD k 0 ∈ s.l.toList := by
    have hk' : k < s.l.size := by rw [h.ls]; exact hk
    have : s.l.getD k 0 = s.l[k] := by simp [Array.getD_eq_getD_getElem?, hk']
    rw [this]; simp
  have := List.count_pos_iff.mpr hmem
  omega

/-- the histogram entry of an occupied level is positive -/
theorem WF.b_pos {m : Nat} {s : SMH2} (h : WF m s) (k : Nat) (hk : k < m) : 0 < s.b.getD (s.l.getD k 0) 0 := by
  rw [h.hist]
  have hk' : k < s.l.size := by rw [h.ls]; exact hk
  have : s.l.getD k 0 = s.l[k] := by simp [Array.getD_eq_getD_getElem?, hk']
  rw [this]
  exact List.count_pos_iff.mpr (by simp)

/-! ### 4. `new` -/

theorem new_wf (imax m : Nat) (s : SMH2) (h : SMH2.new imax m = .ok s) :
    WF m s ∧ Spec m (top m) 0 (∅ : Set (Pt V ℕ)) (view s) := by
  unfold SMH2.new at h
  split at h
  · exact absurd h (by simp)
  · rename_i hm
    injection h with h; subst h
    refine ⟨⟨by simp, by simp, by simp, by simp, rfl, C17.new_inv m, ?_, by dsimp only; omega, ?_, ?_, ?_, ?_⟩, ?_⟩
    · intro t
      dsimp only
      rw [getD_set _ _ _ _ _ (by simp; omega)]
      simp only [Array.toList_replicate, List.count_replicate]
      by_cases ht : t = m - 1
      · subst ht; simp
      · have : ¬ (m - 1 == t) = true := by simpa using fun e => ht e.symm
        simp only [ht, this, if_false, Array.getD_eq_getD_getElem?, Array.getElem?_replicate]
        split <;> simp
    · dsimp only
      rw [getD_set _ _ _ _ _ (by simp; omega)]
      simp; omega
    · intro t ht
      dsimp only at ht ⊢
      rw [getD_set _ _ _ _ _ (by simp; omega)]
      have : t ≠ m - 1 := by omega
      simp only [this, if_false, Array.getD_eq_getD_getElem?, Array.getElem?_replicate]
      split <;> simp
    · intro k hk
      simp [Array.getD_eq_getD_getElem?, hk]
    · intro k hk
      simp [Array.getD_eq_getD_getElem?, hk]
    · refine ⟨fun _ hp => absurd hp (Set.notMem_empty _), fun k hk => Or.inl ⟨?_, ?_⟩⟩
      · simp [view, top, Array.getD_eq_getD_getElem?, Array.getElem?_replicate, hk]
      · simp [view, Array.getD_eq_getD_getElem?, Array.getElem?_replicate, hk]

/-! ### `lowerUpper` -/

theorem lowerUpper_spec (b : Array Nat) : ∀ (fuel a : Nat), a < b.size → a < fuel → (∃ t, t ≤ a ∧ b.getD t 0 ≠ 0) →
    ∃ a', SMH2.lowerUpper b fuel a = .ok a' ∧ a' ≤ a ∧ b.getD a' 0 ≠ 0 ∧ ∀ t, a' < t → t ≤ a → b.getD t 0 = 0 := by
  intro fuel
  induction fuel with
  | zero => intro a _ h; omega
  | succ f ih =>
    intro a ha hf ⟨t, hta, htb⟩
    simp only [SMH2.lowerUpper, getElem?_getD b a 0 ha]
    by_cases hv : b.getD a 0 = 0
    · simp only [hv, beq_self_eq_true, if_true]
      have hne : t ≠ a := by intro e; rw [e] at htb; exact htb hv
      have ha0 : a ≠ 0 := by omega
      simp only [ha0, if_false]
      obtain ⟨a', e, h1, h2, h3⟩ := ih (a - 1) (by omega) (by omega) ⟨t, by omega, htb⟩
      refine ⟨a', e, by omega, h2, ?_⟩
      intro u hu1 hu2
      by_cases hua : u = a
      · rw [hua]; exact hv
      · exact h3 u hu1 (by omega)
    · have : (b.getD a 0 == 0) = false := by simpa using hv
      simp only [this, Bool.false_eq_true, if_false]
      exact ⟨a, rfl, le_refl _, hv, fun u h1 h2 => by omega⟩


/-! ### one iteration -/

theorem view_upd (s s1 : SMH2) (k j r hval : Nat)
    (e1 : ∀ i, s1.l.getD i 0 = if i = k then j else s.l.getD i 0)
    (e2 : ∀ i, s1.values.getD i 0 = if i = k then r else s.values.getD i 0)
    (e3 : ∀ i, s1.hsketch.getD i 0 = if i = k then hval else s.hsketch.getD i 0) :
    view s1 = ⟨Function.update (view s).reg k (toLex (j, r)), Function.update (view s).tag k hval⟩ := by
  unfold view
  congr 1
  · funext i
    simp only [e1, e2, Function.update]
    by_cases hik : i = k <;> simp [hik]
  · funext i
    simp only [e3, Function.update]
    by_cases hik : i = k <;> simp [hik]

theorem spec_upd {m : Nat} {P : Set (Pt V ℕ)} (s s1 : SMH2) (k j r hval : Nat)
    (e1 : ∀ i, s1.l.getD i 0 = if i = k then j else s.l.getD i 0)
    (e2 : ∀ i, s1.values.getD i 0 = if i = k then r else s.values.getD i 0)
    (e3 : ∀ i, s1.hsketch.getD i 0 = if i = k then hval else s.hsketch.getD i 0)
    (hs : Spec m (top m) 0 P (view s)) (hle : (toLex (j, r) : V) ≤ (view s).reg k) (hlt : (toLex (j, r) : V) < top m) :
    Spec m (top m) 0 (P ∪ {⟨k, toLex (j, r), hval⟩}) (view s1) := by
  rw [view_upd s s1 k j r hval e1 e2 e3]
  exact spec_overwrite hs ⟨k, toLex (j, r), hval⟩ hle hlt

theorem iter (t : TOps G) (hn : Nice t) (m hval : Nat) (s : SMH2) (j : Nat) (g : G)
    (hwf : WF m s) (hj : j ≤ s.aUpper) :
    ∃ k fy' s1, s.fy.nextOff (t.offsetOf (t.fu (t.fr g).2).1 (s.fy.m - s.fy.cursor)) = .ok (k, fy') ∧ k < m ∧
      s1.fy = fy' ∧ s1.imax = s.imax ∧ s1.hsketch.size = s.hsketch.size ∧ WF m s1 ∧
      (∀ P : Set (Pt V ℕ), Spec m (top m) 0 P (view s) → Spec m (top m) 0 (P ∪ {⟨k, toLex (j, (t.fr g).1), hval⟩}) (view s1)) ∧
      ∀ fuel, SMH2.loop t.toOps hval (fuel + 1) s j g = SMH2.loop t.toOps hval fuel s1 (j + 1) (t.fu (t.fr g).2).2 := by
  have hm := hwf.pos
  have hcur := cursor_lt s.fy (by rw [hwf.fm]; omega)
  have hoff := hn.2 (t.fu (t.fr g).2).1 (s.fy.m - s.fy.cursor) (by omega)
  obtain ⟨k, fy', efy, hinv', hm', hk, _⟩ := C17.next_inv s.fy hwf.finv _ hoff
  have hkm : k < m := by rw [← hwf.fm]; exact hk
  have hfm' : fy'.m = m := by rw [hm', hwf.fm]
  have hrlt : (t.fr g).1 < SMH2.usizeMax := hn.1 g
  set r := (t.fr g).1 with hr
  have el : s.l[k]? = some (s.l.getD k 0) := getElem?_getD _ _ _ (by rw [hwf.ls]; exact hkm)
  have ev : s.values[k]? = some (s.values.getD k 0) := getElem?_getD _ _ _ (by rw [hwf.vs]; exact hkm)
  have hlk_le := hwf.level_le k hkm
  set lk := s.l.getD k 0 with hlk
  set vk := s.values.getD k 0 with hvk
  have hreg : (view s).reg k = toLex (lk, vk) := rfl
  have hptlt : (toLex (j, r) : V) < top m := by
    rw [top, Prod.Lex.toLex_lt_toLex]
    have := hwf.au
    dsimp only
    omega
  refine ⟨k, fy', ?_⟩
  rcases Nat.lt_trichotomy lk j with hlt | heq | hgt
  · -- level below `j`: nothing happens
    refine ⟨{ s with fy := fy' }, efy, hkm, rfl, rfl, rfl,
      ⟨hwf.hs, hwf.vs, hwf.ls, hwf.bs, hfm', hinv', hwf.hist, hwf.au, hwf.bau, hwf.bz, hwf.ll, hwf.vl⟩, ?_, ?_⟩
    · intro P hs
      refine spec_dominated hs ?_
      intro p hp
      rw [Set.mem_singleton_iff] at hp; subst hp
      show (view s).reg k ≤ toLex (j, r)
      rw [hreg, Prod.Lex.toLex_le_toLex]
      exact Or.inl hlt
    · intro fuel
      have hnge : ¬ lk ≥ j := by omega
      simp only [SMH2.loop, hj, if_true, TOps.toOps, efy, el, ev, hnge, if_false]
  · -- same level: `r ≤ values[k]` decides
    have e1 : ∀ i, s.l.getD i 0 = if i = k then j else s.l.getD i 0 := by
      intro i; by_cases hik : i = k
      · subst hik; simp only [if_true]; exact heq
      · simp [hik]
    by_cases hrv : r ≤ vk
    · refine ⟨{ s with fy := fy', values := s.values.setIfInBounds k r, hsketch := s.hsketch.setIfInBounds k hval },
        efy, hkm, rfl, rfl, by simp,
        ⟨by simp [hwf.hs], by simp [hwf.vs], hwf.ls, hwf.bs, hfm', hinv', hwf.hist, hwf.au, hwf.bau, hwf.bz, hwf.ll, ?_⟩, ?_, ?_⟩
      · intro i hi
        dsimp only
        rw [getD_set _ _ _ _ _ (by rw [hwf.vs]; exact hkm)]
        split
        · omega
        · exact hwf.vl i hi
      · intro P hs
        refine spec_upd s _ k j r hval e1 (fun i => getD_set _ _ _ _ _ (by rw [hwf.vs]; exact hkm))
          (fun i => getD_set _ _ _ _ _ (by rw [hwf.hs]; exact hkm)) hs ?_ hptlt
        rw [hreg, Prod.Lex.toLex_le_toLex]
        exact Or.inr ⟨heq.symm, hrv⟩
      · intro fuel
        have hge : lk ≥ j := by omega
        have hrv' : (t.fr g).1 ≤ vk := hrv
        simp only [SMH2.loop, hj, if_true, TOps.toOps, efy, el, ev, heq, ge_iff_le, le_refl, hrv']
        rfl
    · refine ⟨{ s with fy := fy' }, efy, hkm, rfl, rfl, rfl,
        ⟨hwf.hs, hwf.vs, hwf.ls, hwf.bs, hfm', hinv', hwf.hist, hwf.au, hwf.bau, hwf.bz, hwf.ll, hwf.vl⟩, ?_, ?_⟩
      · intro P hs
        refine spec_dominated hs ?_
        intro p hp
        rw [Set.mem_singleton_iff] at hp; subst hp
        show (view s).reg k ≤ toLex (j, r)
        rw [hreg, Prod.Lex.toLex_le_toLex]
        exact Or.inr ⟨heq, by dsimp only; omega⟩
      · intro fuel
        have hge : lk ≥ j := by omega
        have hrv' : ¬ (t.fr g).1 ≤ vk := hrv
        simp only [SMH2.loop, hj, if_true, TOps.toOps, efy, el, ev, heq, ge_iff_le, le_refl, hrv', if_false]
  · -- level above `j`: the slot takes `(j, r, hval)`, the histogram moves a unit from `lk` to `j`
    have hlkm : lk < m := by have := hwf.au; omega
    have hjm : j < m := by have := hwf.au; omega
    have hbpos := hwf.b_pos k hkm
    rw [← hlk] at hbpos
    set blk := s.b.getD lk 0 with hblk
    have eb : s.b[lk]? = some blk := getElem?_getD _ _ _ (by rw [hwf.bs]; exact hlkm)
    have hb' : ∀ u, ((s.b.setIfInBounds lk (blk - 1)).setIfInBounds j ((s.b.setIfInBounds lk (blk - 1)).getD j 0 + 1)).getD u 0 =
        if u = j then s.b.getD j 0 + 1 else if u = lk then blk - 1 else s.b.getD u 0 := by
      intro u
      rw [getD_set _ _ _ _ _ (by simp [hwf.bs]; exact hjm), getD_set _ _ _ _ _ (by rw [hwf.bs]; exact hlkm),
        getD_set _ _ _ _ _ (by rw [hwf.bs]; exact hlkm)]
      have : j ≠ lk := by omega
      simp [this]
    set b' := (s.b.setIfInBounds lk (blk - 1)).setIfInBounds j ((s.b.setIfInBounds lk (blk - 1)).getD j 0 + 1) with hb'def
    obtain ⟨a, ea, ha1, ha2, ha3⟩ := lowerUpper_spec b' (s.hsketch.size + 1) s.aUpper
      (by simp [hb'def, hwf.bs]; exact hwf.au) (by have := hwf.au; rw [hwf.hs]; omega)
      ⟨j, hj, by rw [hb' j]; simp⟩
    refine ⟨{ s with fy := fy', b := b', aUpper := a, l := s.l.setIfInBounds k j,
                     values := s.values.setIfInBounds k r, hsketch := s.hsketch.setIfInBounds k hval },
        efy, hkm, rfl, rfl, by simp,
        ⟨by simp [hwf.hs], by simp [hwf.vs], by simp [hwf.ls], by simp [hb'def, hwf.bs], hfm', hinv', ?_,
         by have := hwf.au; dsimp only; omega, by dsimp only; omega, ?_, ?_, ?_⟩, ?_, ?_⟩
    · intro u
      dsimp only
      rw [hb' u, Array.toList_setIfInBounds, List.count_set (by simp [hwf.ls]; exact hkm)]
      have hlku : s.l.toList[k]'(by simp [hwf.ls]; exact hkm) = lk := by
        simp [hlk, Array.getD_eq_getD_getElem?, hwf.ls, hkm]
      rw [hlku]
      simp only [beq_iff_eq]
      have h1 := hwf.hist u
      have h2 : blk = s.l.toList.count lk := hwf.hist lk
      by_cases huj : u = j
      · rw [huj, if_pos rfl, if_neg (by omega : ¬ lk = j), if_pos rfl]
        have := hwf.hist j; omega
      · by_cases hul : u = lk
        · rw [hul, if_neg (by omega : ¬ lk = j), if_pos rfl, if_pos rfl, if_neg (by omega : ¬ j = lk)]; omega
        · rw [if_neg huj, if_neg hul, if_neg (Ne.symm hul), if_neg (Ne.symm huj)]; omega
    · intro u hu
      dsimp only at hu ⊢
      by_cases hua : u ≤ s.aUpper
      · exact ha3 u hu hua
      · rw [hb' u]
        have h1 : u ≠ j := by omega
        have h2 : u ≠ lk := by omega
        simp only [h1, h2, if_false]
        exact hwf.bz u (by omega)
    · intro i hi
      dsimp only
      rw [getD_set _ _ _ _ _ (by rw [hwf.ls]; exact hkm)]
      split
      · omega
      · exact hwf.ll i hi
    · intro i hi
      dsimp only
      rw [getD_set _ _ _ _ _ (by rw [hwf.vs]; exact hkm)]
      split
      · omega
      · exact hwf.vl i hi
    · intro P hs
      refine spec_upd s _ k j r hval (fun i => getD_set _ _ _ _ _ (by rw [hwf.ls]; exact hkm))
        (fun i => getD_set _ _ _ _ _ (by rw [hwf.vs]; exact hkm))
        (fun i => getD_set _ _ _ _ _ (by rw [hwf.hs]; exact hkm)) hs ?_ hptlt
      rw [hreg, Prod.Lex.toLex_le_toLex]
      exact Or.inl hgt
    · intro fuel
      have hge : lk ≥ j := by omega
      have hne : ¬ lk = j := by omega
      have hb0 : ¬ blk = 0 := by omega
      simp only [SMH2.loop, hj, if_true, TOps.toOps, efy, el, ev, hge, hne, if_false, eb, hb0, ← hb'def, ea]
      rfl


/-! ### the loop -/

/-- the remaining points land on slots `< m` and have levels `≥ j` -/
theorem ptsFrom_facts (t : TOps G) (hn : Nice t) (hval m : Nat) (hm : 1 ≤ m) :
    ∀ (n j : Nat) (g : G) (fy : FY), fy.m = m → C17.Inv fy →
      ∀ p ∈ ptsFrom t hval n j g fy, p.pos < m ∧ ∃ j' r, j ≤ j' ∧ p.val = toLex (j', r) := by
  intro n
  induction n with
  | zero => intro j g fy _ _ p hp; simp [ptsFrom] at hp
  | succ n ih =>
    intro j g fy hfm hinv p hp
    have hcur := cursor_lt fy (by omega)
    have hoff := hn.2 (t.fu (t.fr g).2).1 (fy.m - fy.cursor) (by omega)
    obtain ⟨k, fy', efy, hinv', hm', hk, _⟩ := C17.next_inv fy hinv _ hoff
    simp only [ptsFrom, efy] at hp
    rcases List.mem_cons.mp hp with rfl | hp
    · exact ⟨by rw [← hfm]; exact hk, j, _, le_refl _, rfl⟩
    · obtain ⟨h1, j', r, h2, h3⟩ := ih (j + 1) _ fy' (by rw [hm', hfm]) hinv' p hp
      exact ⟨h1, j', r, by omega, h3⟩

theorem loop_spec (t : TOps G) (hn : Nice t) (m hval : Nat) :
    ∀ (fuel : Nat) (s : SMH2) (j : Nat) (g : G) (P : Set (Pt V ℕ)) (s' : SMH2) (n : Nat),
      WF m s → Spec m (top m) 0 P (view s) → j + n = m →
      SMH2.loop t.toOps hval fuel s j g = .ok s' →
      WF m s' ∧ s'.imax = s.imax ∧ s'.hsketch.size = s.hsketch.size ∧
      Spec m (top m) 0 (P ∪ {p | p ∈ ptsFrom t hval n j g s.fy}) (view s') := by
  intro fuel
  induction fuel with
  | zero => intro s j g P s' n _ _ _ e; simp [SMH2.loop] at e
  | succ f ih =>
    intro s j g P s' n hwf hs hjn e
    by_cases hj : j ≤ s.aUpper
    · obtain ⟨k, fy', s1, efy, hkm, hfy, himax, hsz, hwf1, hs1, hloop⟩ := iter t hn m hval s j g hwf hj
      rw [hloop f] at e
      have := hwf.au
      cases n with
      | zero => omega
      | succ n =>
        obtain ⟨a, b, b', c⟩ := ih s1 (j + 1) _ (P ∪ {⟨k, toLex (j, (t.fr g).1), hval⟩}) s' n hwf1 (hs1 P hs) (by omega) e
        refine ⟨a, b.trans himax, b'.trans hsz, ?_⟩
        have hpts : ptsFrom t hval (n + 1) j g s.fy =
            ⟨k, toLex (j, (t.fr g).1), hval⟩ :: ptsFrom t hval n (j + 1) (t.fu (t.fr g).2).2 fy' := by
          simp only [ptsFrom, efy]
        rw [hpts]
        rw [hfy] at c
        refine spec_congr c ?_
        ext p; simp only [Set.mem_union, Set.mem_singleton_iff, Set.mem_ofPred_eq, List.mem_cons]
        tauto
    · simp only [SMH2.loop, hj, if_false] at e
      injection e with e; subst e
      refine ⟨⟨hwf.hs, hwf.vs, hwf.ls, hwf.bs, hwf.fm, hwf.finv, hwf.hist, hwf.au, hwf.bau, hwf.bz, hwf.ll, hwf.vl⟩, rfl, rfl, ?_⟩
      show Spec m (top m) 0 _ (view s)
      refine spec_dominated hs ?_
      intro p hp
      obtain ⟨hpos, j', r, hjj, hv⟩ := ptsFrom_facts t hn hval m hwf.pos n j g s.fy hwf.fm hwf.finv p hp
      rw [hv]
      show (toLex (s.l.getD p.pos 0, s.values.getD p.pos 0) : V) ≤ toLex (j', r)
      rw [Prod.Lex.toLex_le_toLex]
      have := hwf.level_le p.pos hpos
      left; dsimp only; omega

theorem loop_ok (t : TOps G) (hn : Nice t) (m hval : Nat) :
    ∀ (fuel : Nat) (s : SMH2) (j : Nat) (g : G), WF m s → j ≤ m → m + 2 ≤ fuel + j →
      ∃ s', SMH2.loop t.toOps hval fuel s j g = .ok s' := by
  intro fuel
  induction fuel with
  | zero => intro s j g _ h1 h2; omega
  | succ f ih =>
    intro s j g hwf h1 h2
    by_cases hj : j ≤ s.aUpper
    · obtain ⟨k, fy', s1, _, _, _, _, _, hwf1, _, hloop⟩ := iter t hn m hval s j g hwf hj
      rw [hloop f]
      have := hwf.au
      exact ih s1 (j + 1) _ hwf1 (by omega) (by omega)
    · exact ⟨{ s with itemRank := s.itemRank + 1 }, by simp only [SMH2.loop, hj, if_false]⟩

theorem wf_reset {m : Nat} {s : SMH2} (hwf : WF m s) : WF m { s with fy := s.fy.reset } :=
  ⟨hwf.hs, hwf.vs, hwf.ls, hwf.bs, by simp [FY.reset, hwf.fm], C17.reset_inv _, hwf.hist, hwf.au, hwf.bau, hwf.bz, hwf.ll, hwf.vl⟩

theorem loop_wf (t : TOps G) (hn : Nice t) (m hval : Nat) :
    ∀ (fuel : Nat) (s : SMH2) (j : Nat) (g : G) (s' : SMH2), WF m s →
      SMH2.loop t.toOps hval fuel s j g = .ok s' → WF m s' ∧ s'.imax = s.imax := by
  intro fuel
  induction fuel with
  | zero => intro s j g s' _ e; simp [SMH2.loop] at e
  | succ f ih =>
    intro s j g s' hwf e
    by_cases hj : j ≤ s.aUpper
    · obtain ⟨k, fy', s1, _, _, _, himax, _, hwf1, _, hloop⟩ := iter t hn m hval s j g hwf hj
      rw [hloop f] at e
      obtain ⟨a, b⟩ := ih s1 (j + 1) _ s' hwf1 e
      exact ⟨a, b.trans himax⟩
    · simp only [SMH2.loop, hj, if_false] at e
      injection e with e; subst e
      exact ⟨⟨hwf.hs, hwf.vs, hwf.ls, hwf.bs, hwf.fm, hwf.finv, hwf.hist, hwf.au, hwf.bau, hwf.bz, hwf.ll, hwf.vl⟩, rfl⟩

/-- the invariant alone is preserved (no `Spec` needed) -/
theorem sketch_wf (t : TOps G) (hn : Nice t) (m hval : Nat) (g : G) (s s' : SMH2)
    (hwf : WF m s) (e : s.sketch t.toOps hval g = .ok s') : WF m s' ∧ s'.imax = s.imax := by
  unfold SMH2.sketch at e
  split at e
  · exact absurd e (by simp)
  · exact loop_wf t hn m hval _ { s with fy := s.fy.reset } 0 g s' (wf_reset hwf) e

/-! ### 5. MAIN: one item -/

/-- **registers after one item** — no tie hypothesis is needed: the model's `r ≤ values[k]` overwrite keeps `Spec`
(`spec_overwrite`); ties only affect *which* of the tied tags is stored, and `Spec` allows any of them. -/
theorem sketch_regs_spec (t : TOps G) (hn : Nice t) (m hval : Nat) (g : G) (s s' : SMH2) (P : Set (Pt V ℕ))
    (hwf : WF m s) (hs : Spec m (top m) 0 P (view s)) (e : s.sketch t.toOps hval g = .ok s') :
    WF m s' ∧ s'.imax = s.imax ∧ Spec m (top m) 0 (P ∪ itemPts t m hval g) (view s') := by
  unfold SMH2.sketch at e
  split at e
  · exact absurd e (by simp)
  · obtain ⟨a, b, _, c⟩ := loop_spec t hn m hval _ { s with fy := s.fy.reset } 0 g P s' m (wf_reset hwf) hs (by omega) e
    refine ⟨a, b, ?_⟩
    have hreset : s.fy.reset = (FY.new m).reset := C17.reset_forgets _ _ (by rw [hwf.fm]; rfl)
    simp only [hreset] at c
    exact c

/-- **6. no panic** -/
theorem sketch_ok (t : TOps G) (hn : Nice t) (m hval : Nat) (g : G) (s : SMH2)
    (hwf : WF m s) (hm : 1 ≤ m) (hv : hval ≤ s.imax) : ∃ s', s.sketch t.toOps hval g = .ok s' := by
  unfold SMH2.sketch
  have : ¬ hval > s.imax := by omega
  simp only [this, if_false]
  exact loop_ok t hn m hval _ _ 0 g (wf_reset hwf) (by omega) (by simp [hwf.hs])


/-! ### facts about the points of one item -/

theorem itemPts_mem (t : TOps G) (hn : Nice t) (m hval : Nat) (g : G) (p : Pt V ℕ) (hp : p ∈ itemPts t m hval g) :
    p.pos < m ∧ p.tag = hval ∧ p.val < top m ∧ ∃ j r, j < m ∧ r < SMH2.usizeMax ∧ p.val = toLex (j, r) := by
  obtain ⟨h1, h2, h3⟩ := itemList_facts t hn m hval g
  have hp' : p ∈ itemList t m hval g := hp
  have hpos : p.pos < m := by
    have : p.pos ∈ (itemList t m hval g).map Pt.pos := List.mem_map.mpr ⟨p, hp', rfl⟩
    simpa using h1.subset this
  obtain ⟨i, hi, rfl⟩ := List.getElem_of_mem hp'
  obtain ⟨r, hr, e1, e2⟩ := h3 i hi
  have him : i < m := by rw [← h2]; exact hi
  refine ⟨hpos, e2, ?_, i, r, him, hr, e1⟩
  rw [e1, top, Prod.Lex.toLex_lt_toLex]
  dsimp only
  omega

/-- every slot receives a point of the item -/
theorem itemPts_cover (t : TOps G) (hn : Nice t) (m hval : Nat) (g : G) (k : Nat) (hk : k < m) :
    ∃ p ∈ itemPts t m hval g, p.pos = k := by
  have h1 := (itemList_facts t hn m hval g).1
  have : k ∈ (itemList t m hval g).map Pt.pos := h1.symm.subset (by simpa using hk)
  obtain ⟨p, hp, e⟩ := List.mem_map.mp this
  exact ⟨p, hp, e⟩

/-- within one item there are no ties at all: two points of the item on one slot are the same point -/
theorem itemPts_inj (t : TOps G) (hn : Nice t) (m hval : Nat) (g : G) (p q : Pt V ℕ)
    (hp : p ∈ itemPts t m hval g) (hq : q ∈ itemPts t m hval g) (h : p.pos = q.pos) : p = q :=
  List.inj_on_of_nodup_map (itemPts_slots t hn m hval g).2 hp hq h

/-! ### 5'. the tie hypothesis: what it buys

`sketch_regs_spec` needs no tie hypothesis.  With one — no point of `P ∪ itemPts` ties on a slot with a different
tag — the state after the item is *the* state described by `Spec`, i.e. (slots `< m`) exactly what the strict
`Race.offer` produces from the item's points in order: the model's overwrite on a tie is a no-op on the view. -/

theorem tieFree_union_item (t : TOps G) (hn : Nice t) (m hval : Nat) (g : G) (P : Set (Pt V ℕ)) (hP : TieFree P)
    (hTie : ∀ p ∈ P, ∀ q ∈ itemPts t m hval g, p.pos = q.pos → p.val = q.val → p.tag = q.tag) :
    TieFree (P ∪ itemPts t m hval g) := by
  intro p hp q hq h1 h2
  rcases hp with hp | hp <;> rcases hq with hq | hq
  · exact hP p hp q hq h1 h2
  · exact hTie p hp q hq h1 h2
  · exact (hTie q hq p hp h1.symm h2.symm).symm
  · rw [(itemPts_mem t hn m hval g p hp).2.1, (itemPts_mem t hn m hval g q hq).2.1]

theorem spec_offers {m : Nat} {tp : V} {P : Set (Pt V ℕ)} : ∀ (L : List (Pt V ℕ)) (s : St V ℕ), Spec m tp 0 P s →
    Spec m tp 0 (P ∪ {p | p ∈ L}) (L.foldl offer s) := by
  intro L
  induction L generalizing P with
  | nil => intro s h; simpa using h
  | cons x xs ih =>
    intro s h
    have := ih (offer s x) (spec_offer h x)
    refine spec_congr this ?_
    ext p; simp only [Set.mem_union, Set.mem_singleton_iff, Set.mem_ofPred_eq, List.mem_cons]
    tauto

/-- under the tie hypothesis the model's item step is, on the slots `< m`, the strict `Race.offer` of the item's `m`
points in order -/
theorem sketch_eq_offers (t : TOps G) (hn : Nice t) (m hval : Nat) (g : G) (s s' : SMH2) (P : Set (Pt V ℕ))
    (hwf : WF m s) (hs : Spec m (top m) 0 P (view s)) (hP : TieFree P)
    (hTie : ∀ p ∈ P, ∀ q ∈ itemPts t m hval g, p.pos = q.pos → p.val = q.val → p.tag = q.tag)
    (e : s.sketch t.toOps hval g = .ok s') :
    ∀ k, k < m → (view s').reg k = ((itemList t m hval g).foldl offer (view s)).reg k ∧
                 (view s').tag k = ((itemList t m hval g).foldl offer (view s)).tag k := by
  intro k hk
  have h1 := (sketch_regs_spec t hn m hval g s s' P hwf hs e).2.2
  have h2 : Spec m (top m) 0 (P ∪ itemPts t m hval g) ((itemList t m hval g).foldl offer (view s)) :=
    spec_offers (itemList t m hval g) (view s) hs
  exact ⟨spec_unique_reg h1 h2 k hk, spec_unique_tag (tieFree_union_item t hn m hval g P hP hTie) h1 h2 k hk⟩

/-! ### 7. streams of items -/

/-- sketch the items `(hash, generator)` in order -/
def run (t : TOps G) : SMH2 → List (Nat × G) → Except Err SMH2
  | s, [] => .ok s
  | s, x :: rest =>
    match s.sketch t.toOps x.1 x.2 with
    | .ok s1 => run t s1 rest
    | .error e => .error e

/-- all points of all items of a stream: a function of the *set* of items -/
def streamPts (t : TOps G) (m : Nat) (items : List (Nat × G)) : Set (Pt V ℕ) :=
  {p | ∃ x ∈ items, p ∈ itemPts t m x.1 x.2}

theorem run_spec (t : TOps G) (hn : Nice t) (m : Nat) : ∀ (items : List (Nat × G)) (s s' : SMH2) (P : Set (Pt V ℕ)),
    WF m s → Spec m (top m) 0 P (view s) → run t s items = .ok s' →
    WF m s' ∧ s'.imax = s.imax ∧ Spec m (top m) 0 (P ∪ streamPts t m items) (view s') := by
  intro items
  induction items with
  | nil =>
    intro s s' P hwf hs e
    simp only [run] at e
    injection e with e; subst e
    exact ⟨hwf, rfl, spec_congr hs (by ext p; simp [streamPts])⟩
  | cons x rest ih =>
    intro s s' P hwf hs e
    simp only [run] at e
    split at e
    · rename_i s1 e1
      obtain ⟨a1, b1, c1⟩ := sketch_regs_spec t hn m x.1 x.2 s s1 P hwf hs e1
      obtain ⟨a2, b2, c2⟩ := ih s1 s' _ a1 c1 e
      refine ⟨a2, b2.trans b1, spec_congr c2 ?_⟩
      ext p
      simp only [streamPts, Set.mem_union, Set.mem_ofPred_eq, List.mem_cons, exists_eq_or_imp]
      tauto
    · exact absurd e (by simp)

/-- a stream of admissible hashes never panics -/
theorem run_ok (t : TOps G) (hn : Nice t) (m : Nat) : ∀ (items : List (Nat × G)) (s : SMH2),
    WF m s → (∀ x ∈ items, x.1 ≤ s.imax) → ∃ s', run t s items = .ok s' := by
  intro items
  induction items with
  | nil => intro s _ _; exact ⟨s, rfl⟩
  | cons x rest ih =>
    intro s hwf hx
    obtain ⟨s1, e1⟩ := sketch_ok t hn m x.1 x.2 s hwf hwf.pos (hx x (by simp))
    obtain ⟨a1, b1⟩ := sketch_wf t hn m x.1 x.2 s s1 hwf e1
    obtain ⟨s', e'⟩ := ih s1 a1 (fun y hy => by rw [b1]; exact hx y (by simp [hy]))
    exact ⟨s', by simp only [run, e1, e']⟩

/-- **state reached from `new` by sketching `items`**: the invariant, and the registers are the lexicographic minima
over all points of all items -/
theorem stream_spec (t : TOps G) (hn : Nice t) (imax m : Nat) (items : List (Nat × G)) (s0 s : SMH2)
    (h0 : SMH2.new imax m = .ok s0) (hr : run t s0 items = .ok s) :
    WF m s ∧ s.imax = imax ∧ Spec m (top m) 0 (streamPts t m items) (view s) := by
  obtain ⟨w0, sp0⟩ := new_wf imax m s0 h0
  obtain ⟨a, b, c⟩ := run_spec t hn m items s0 s ∅ w0 sp0 hr
  refine ⟨a, ?_, spec_congr c (by simp)⟩
  rw [b]
  unfold SMH2.new at h0
  split at h0
  · exact absurd h0 (by simp)
  · injection h0 with h0; subst h0; rfl

/-- **7.** in any state reached from `new` by sketching items: a slot whose register differs from `top` holds the hash
of a sketched item (and its register is a point of that item on this slot); after at least one item every slot is
below `top`, hence holds the hash of a sketched item. -/
theorem holds_item_hash (t : TOps G) (hn : Nice t) (imax m : Nat) (items : List (Nat × G)) (s0 s : SMH2)
    (h0 : SMH2.new imax m = .ok s0) (hr : run t s0 items = .ok s) :
    (∀ k, k < m → (view s).reg k ≠ top m →
      ∃ x ∈ items, s.hsketch.getD k 0 = x.1 ∧
        ∃ p ∈ itemPts t m x.1 x.2, p.pos = k ∧ p.val = toLex (s.l.getD k 0, s.values.getD k 0)) ∧
    (items ≠ [] → ∀ k, k < m → (view s).reg k < top m ∧ ∃ x ∈ items, s.hsketch.getD k 0 = x.1) := by
  obtain ⟨hwf, _, hsp⟩ := stream_spec t hn imax m items s0 s h0 hr
  have key : ∀ k, k < m → (view s).reg k < top m →
      ∃ x ∈ items, s.hsketch.getD k 0 = x.1 ∧
        ∃ p ∈ itemPts t m x.1 x.2, p.pos = k ∧ p.val = toLex (s.l.getD k 0, s.values.getD k 0) := by
    intro k hk hlt
    obtain ⟨p, ⟨x, hx, hp⟩, h1, h2, h3⟩ := spec_tag_mem hsp k hk hlt
    refine ⟨x, hx, ?_, p, hp, h1, h3⟩
    rw [← (itemPts_mem t hn m x.1 x.2 p hp).2.1, h2]; rfl
  refine ⟨fun k hk hne => key k hk (lt_of_le_of_ne (spec_reg_le_top hsp k hk) hne), ?_⟩
  intro hne k hk
  obtain ⟨x, hx⟩ := List.exists_mem_of_ne_nil items hne
  obtain ⟨p, hp, hpk⟩ := itemPts_cover t hn m x.1 x.2 k hk
  have hlt : (view s).reg k < top m :=
    (spec_populated hsp k hk ⟨p, ⟨x, hx, hp⟩, hpk, (itemPts_mem t hn m x.1 x.2 p hp).2.2.1⟩).1
  obtain ⟨y, hy, e, _⟩ := key k hk hlt
  exact ⟨hlt, y, hy, e⟩

/-- **set semantics**: two streams with the same point set (e.g. the same items in another order, or with repetitions)
leave the same levels and values; and the same hashes when no two points tie on a slot with different hashes -/
theorem stream_set_semantics (t : TOps G) (hn : Nice t) (imax m : Nat) (items1 items2 : List (Nat × G)) (s0 s1 s2 : SMH2)
    (h0 : SMH2.new imax m = .ok s0) (hr1 : run t s0 items1 = .ok s1) (hr2 : run t s0 items2 = .ok s2)
    (hset : streamPts t m items1 = streamPts t m items2) :
    (∀ k, k < m → s1.l.getD k 0 = s2.l.getD k 0 ∧ s1.values.getD k 0 = s2.values.getD k 0) ∧
    (TieFree (streamPts t m items1) → ∀ k, k < m → s1.hsketch.getD k 0 = s2.hsketch.getD k 0) := by
  obtain ⟨_, _, sp1⟩ := stream_spec t hn imax m items1 s0 s1 h0 hr1
  obtain ⟨_, _, sp2⟩ := stream_spec t hn imax m items2 s0 s2 h0 hr2
  rw [← hset] at sp2
  refine ⟨fun k hk => ?_, fun htf k hk => spec_unique_tag htf sp1 sp2 k hk⟩
  have := spec_unique_reg sp1 sp2 k hk
  simp only [view] at this
  have := congrArg ofLex this
  simpa using this

theorem streamPts_perm (t : TOps G) (m : Nat) (items1 items2 : List (Nat × G)) (h : ∀ x, x ∈ items1 ↔ x ∈ items2) :
    streamPts t m items1 = streamPts t m items2 := by
  ext p; simp only [streamPts, Set.mem_ofPred_eq]
  constructor
  · rintro ⟨x, hx, hp⟩; exact ⟨x, (h x).mp hx, hp⟩
  · rintro ⟨x, hx, hp⟩; exact ⟨x, (h x).mpr hx, hp⟩

/-! ### 8. `reinit` -/

/-- `reinit` is `new` except for the shuffle, which is reset -/
theorem reinit_spec (s s0 : SMH2) (m : Nat) (hm : s.hsketch.size = m) (h0 : SMH2.new s.imax m = .ok s0) :
    s.reinit.hsketch = s0.hsketch ∧ s.reinit.values = s0.values ∧ s.reinit.l = s0.l ∧ s.reinit.b = s0.b ∧
    s.reinit.itemRank = s0.itemRank ∧ s.reinit.aUpper = s0.aUpper ∧ s.reinit.imax = s0.imax ∧
    s.reinit.fy = s.fy.reset := by
  unfold SMH2.new at h0
  split at h0
  · exact absurd h0 (by simp)
  · injection h0 with h0; subst h0
    simp only [SMH2.reinit, hm, and_self]

/-- … hence a reinitialised sketcher is as good as new -/
theorem reinit_wf (s : SMH2) (m : Nat) (hwf : WF m s) :
    WF m s.reinit ∧ s.reinit.imax = s.imax ∧ Spec m (top m) 0 (∅ : Set (Pt V ℕ)) (view s.reinit) := by
  have hm := hwf.pos
  have hne : ¬ m = 0 := by omega
  obtain ⟨s0, h0⟩ : ∃ s0, SMH2.new s.imax m = .ok s0 := by
    unfold SMH2.new; simp only [hne, if_false]; exact ⟨_, rfl⟩
  obtain ⟨e1, e2, e3, e4, _, e6, _, e8⟩ := reinit_spec s s0 m hwf.hs h0
  obtain ⟨w0, sp0⟩ := new_wf s.imax m s0 h0
  refine ⟨⟨by rw [e1]; exact w0.hs, by rw [e2]; exact w0.vs, by rw [e3]; exact w0.ls, by rw [e4]; exact w0.bs,
    by rw [e8]; simp [FY.reset, hwf.fm], by rw [e8]; exact C17.reset_inv _, by rw [e3, e4]; exact w0.hist,
    by rw [e6]; exact w0.au, by rw [e4, e6]; exact w0.bau, by rw [e4, e6]; exact w0.bz,
    by rw [e3]; exact w0.ll, by rw [e2]; exact w0.vl⟩, rfl, ?_⟩
  have : view s.reinit = view s0 := by simp only [view, e1, e2, e3]
  rw [this]; exact sp0

/-! ### non-vacuity -/

/-- a `Nice` source exists (a counter as generator, offset 0) -/
example : Nice (G := Nat) ⟨fun g => (g % SMH2.usizeMax, g + 1), fun g => (0, g), fun _ _ => 0⟩ :=
  ⟨fun g => Nat.mod_lt _ (by decide), fun _ _ h => h⟩

/-- the model runs (and does not panic) on a concrete `Nice` source: two items, `m = 4` -/
example :
    let tt : TOps Nat := ⟨fun g => ((g * 7919) % 1000, g + 1), fun g => (0, g + 1), fun _ n => n - 1⟩
    ((do let s ← SMH2.new 1000 4; let s ← s.sketch tt.toOps 7 0; s.sketch tt.toOps 9 5 : Except Err SMH2).toOption.map
      (fun (s : SMH2) => (s.l.toList, s.values.toList, s.hsketch.toList, s.b.toList, s.aUpper))) =
    some ([1, 2, 3, 0], [433, 271, 109, 0], [9, 9, 9, 7], [1, 1, 1, 1], 3) := by decide

end PMH.SMH2P

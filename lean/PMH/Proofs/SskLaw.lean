import Mathlib.Probability.Distributions.Exponential
import Mathlib.MeasureTheory.Constructions.Pi
import Mathlib.MeasureTheory.Measure.WithDensity
import Mathlib.MeasureTheory.Function.Floor
import Mathlib.Analysis.SpecialFunctions.Log.Base
import Mathlib.MeasureTheory.Constructions.BorelSpace.Real
import Mathlib.MeasureTheory.Function.SpecialFunctions.Basic
import Mathlib.MeasureTheory.Integral.Bochner.Set
import Mathlib.MeasureTheory.Measure.Prod
import Mathlib.MeasureTheory.Measure.Count
import Mathlib.MeasureTheory.Integral.Lebesgue.Countable
import Mathlib.Data.Fintype.Perm

/-!
# `SskLaw`: the probabilistic step of C07 (first sentence) for SetSketch

"For any two sets, the expected fraction of equal SetSketch registers equals the collision probability
determined by the base `b`, the rate `a`, the register range `q` and the three cardinalities
`|A \ B|`, `|B \ A|`, `|A ∩ B|`."

Items `ι` (finite); the values that the items give to ONE position are `x : ι → ℝ`, distributed under
`μ a ι = Measure.pi (fun _ => expMeasure a)` (independent `Exp(a)`).  The register of a set `S` at that
position is `reg b q S x = max_{i ∈ S} level b q (x i)` (`0` for `S = ∅`), where
`level b q x = clamp(⌊1 - log_b x⌋, 0, q+1)`  (the deterministic refinement is `PMH/Proofs/SSK.lean`).

* `level_le_iff`            : `level b q x ≤ k ↔ b^(-k) < x`  (`0 < x`, `k ≤ q`);  `level_le_top : level ≤ q+1`
* `level_cdf`               : `Exp(a) {x | level x ≤ k} = G 1 k`  (`= exp(-a b^{-k})` for `k ≤ q`, `1` for `k ≥ q+1`)
* `maxlevel_cdf`            : `μ {x | reg S x ≤ k} = G |S| k`;  `maxlevel_pmf`; `three_box_law` (joint cdf factorises)
* `collision_probability`   : `μ.real {x | reg A x = reg B x} = Pcoll b a q |A\B| |B\A| |A∩B|`
* `collision_depends_only_on_cardinalities`
* `expected_fraction`       : expected fraction of equal registers over `m` positions `= Pcoll …` (linearity;
                              only the per-position marginals are used)
* `Pcoll_identical`, `Pcoll_disjoint`, `Pcoll_nonneg_le_one`
* `sum_survival`, `position_survival` : `(1/m) Σ_j P(x_j > t) = exp(-a t)` for the code's generation scheme
  `x_j = Σ_{l ≤ j} E_l / (a (m - l))`, `E_l` i.i.d. `Exp(1)`
* `position_law_perm`       : with a uniformly random permutation independent of the gaps, the value seen by
                              a fixed position is `Exp(a)`-distributed
* `scheme_position_law`, `scheme_expected_fraction` : end to end, items independent
-/
namespace PMH.SskLaw
open MeasureTheory ProbabilityTheory Set Real
open scoped ENNReal

/-! ## 1. the register level of a value -/

/-- `level b q x = clamp(⌊1 - log_b x⌋, 0, q+1)` -/
noncomputable def level (b : ℝ) (q : ℕ) (x : ℝ) : ℕ := min (Int.toNat ⌊1 - Real.logb b x⌋) (q + 1)

theorem level_le_top (b : ℝ) (q : ℕ) (x : ℝ) : level b q x ≤ q + 1 := min_le_right _ _

theorem level_le_of_top_le (b : ℝ) (q : ℕ) (x : ℝ) {k : ℕ} (hk : q + 1 ≤ k) : level b q x ≤ k :=
  (level_le_top b q x).trans hk

theorem level_le_iff {b : ℝ} (hb : 1 < b) {q : ℕ} {x : ℝ} (hx : 0 < x) {k : ℕ} (hk : k ≤ q) :
    level b q x ≤ k ↔ b ^ (-(k : ℝ)) < x := by
  unfold level
  have h1 : ¬ (q + 1 ≤ k) := by omega
  rw [min_le_iff, Int.toNat_le, ← Int.lt_add_one_iff, Int.floor_lt,
    ← Real.lt_logb_iff_rpow_lt hb hx]
  simp only [h1, or_false]
  push_cast
  constructor <;> intro h <;> linarith

theorem measurable_level (b : ℝ) (q : ℕ) : Measurable (level b q) := by
  unfold level
  have h1 : Measurable fun x : ℝ => Real.logb b x := by
    unfold Real.logb
    exact Real.measurable_log.div_const _
  have h2 : Measurable fun x : ℝ => ⌊1 - Real.logb b x⌋ := (measurable_const.sub h1).floor
  have h3 : Measurable fun x : ℝ => Int.toNat ⌊1 - Real.logb b x⌋ :=
    (Measurable.of_discrete (f := Int.toNat)).comp h2
  exact h3.min measurable_const


/-! ## 2. the law of the level of one `Exp(a)` value -/

theorem expMeasure_Iic {a : ℝ} (ha : 0 < a) {t : ℝ} (ht : 0 ≤ t) :
    expMeasure a (Iic t) = ENNReal.ofReal (1 - exp (-(a * t))) := by
  have := lintegral_exponentialPDF_eq_antiDeriv ha t
  rw [if_pos ht] at this
  rw [← this]
  show (volume.withDensity (gammaPDF 1 a)) (Iic t) = _
  rw [withDensity_apply _ measurableSet_Iic]
  rfl

theorem expMeasure_Ioi {a : ℝ} (ha : 0 < a) {t : ℝ} (ht : 0 ≤ t) :
    expMeasure a (Ioi t) = ENNReal.ofReal (exp (-(a * t))) := by
  have := isProbabilityMeasure_expMeasure ha
  rw [← compl_Iic, measure_compl measurableSet_Iic (measure_ne_top _ _), measure_univ,
    expMeasure_Iic ha ht]
  rw [← ENNReal.ofReal_one, ← ENNReal.ofReal_sub _ (by simp; positivity)]
  congr 1; ring

theorem expMeasure_nonpos {a : ℝ} (ha : 0 < a) : expMeasure a (Ioi 0)ᶜ = 0 := by
  have := isProbabilityMeasure_expMeasure ha
  rw [prob_compl_eq_zero_iff measurableSet_Ioi, expMeasure_Ioi ha le_rfl]
  simp

/-- the single-item cdf of the level -/
noncomputable def G (b a : ℝ) (q n k : ℕ) : ℝ :=
  if q + 1 ≤ k then 1 else exp (-a * n * b ^ (-(k : ℝ)))

/-- `G(·, k-1)` with the convention `G(·, -1) = 0` -/
noncomputable def Gm (b a : ℝ) (q n : ℕ) : ℕ → ℝ
  | 0 => 0
  | k + 1 => G b a q n k

theorem G_nonneg (b a : ℝ) (q n k : ℕ) : 0 ≤ G b a q n k := by
  unfold G; split_ifs <;> positivity

theorem G_top (b a : ℝ) (q n : ℕ) {k : ℕ} (hk : q + 1 ≤ k) : G b a q n k = 1 := by
  simp [G, hk]

theorem G_zero_items (b a : ℝ) (q k : ℕ) : G b a q 0 k = 1 := by
  simp [G]

theorem G_pow (b a : ℝ) (q n k : ℕ) : G b a q 1 k ^ n = G b a q n k := by
  unfold G
  split_ifs
  · simp
  · rw [← Real.exp_nat_mul]; congr 1; push_cast; ring

/-- **level_cdf**: `P(level X ≤ k) = exp(-a b^{-k})` (`k ≤ q`), `= 1` (`k ≥ q+1`), for `X ~ Exp(a)` -/
theorem level_cdf {b a : ℝ} (hb : 1 < b) (ha : 0 < a) (q k : ℕ) :
    expMeasure a {x | level b q x ≤ k} = ENNReal.ofReal (G b a q 1 k) := by
  have := isProbabilityMeasure_expMeasure ha
  by_cases hk : q + 1 ≤ k
  · have : {x | level b q x ≤ k} = univ := by
      ext x; simp [level_le_of_top_le b q x hk]
    rw [this, measure_univ, G_top _ _ _ _ hk, ENNReal.ofReal_one]
  · have hk' : k ≤ q := by omega
    have hpos : (0:ℝ) < b ^ (-(k : ℝ)) := Real.rpow_pos_of_pos (by linarith) _
    rw [← measure_inter_conull (expMeasure_nonpos ha)]
    have : {x | level b q x ≤ k} ∩ Ioi 0 = Ioi (b ^ (-(k : ℝ))) := by
      ext x
      simp only [mem_inter_iff, mem_ofPred_eq, mem_Ioi]
      constructor
      · rintro ⟨h, hx⟩; exact (level_le_iff hb hx hk').1 h
      · intro h
        have hx : 0 < x := hpos.trans h
        exact ⟨(level_le_iff hb hx hk').2 h, hx⟩
    rw [this, expMeasure_Ioi ha hpos.le]
    simp [G, hk]

theorem level_cdf_explicit {b a : ℝ} (hb : 1 < b) (ha : 0 < a) {q k : ℕ} (hk : k ≤ q) :
    expMeasure a {x | level b q x ≤ k} = ENNReal.ofReal (exp (-a * b ^ (-(k : ℝ)))) := by
  rw [level_cdf hb ha]
  have : ¬ (q + 1 ≤ k) := by omega
  simp [G, this]

theorem level_cdf_top {b a : ℝ} (hb : 1 < b) (ha : 0 < a) {q k : ℕ} (hk : q + 1 ≤ k) :
    expMeasure a {x | level b q x ≤ k} = 1 := by
  rw [level_cdf hb ha, G_top _ _ _ _ hk, ENNReal.ofReal_one]


/-! ## 3. the maximum level of a group of independent `Exp(a)` values -/

variable {ι : Type} [Fintype ι] [DecidableEq ι]

/-- the joint law of the values that the items give to one position: independent `Exp(a)` -/
noncomputable abbrev μ (a : ℝ) (ι : Type) [Fintype ι] : Measure (ι → ℝ) :=
  Measure.pi (fun _ : ι => expMeasure a)

theorem μ_prob {a : ℝ} (ha : 0 < a) (ι : Type) [Fintype ι] : IsProbabilityMeasure (μ a ι) := by
  have := isProbabilityMeasure_expMeasure ha
  infer_instance

/-- register of the item set `S` at a position whose items' values are `x` (`0` for the empty set) -/
noncomputable def reg (b : ℝ) (q : ℕ) (S : Finset ι) (x : ι → ℝ) : ℕ :=
  S.sup fun i => level b q (x i)

omit [Fintype ι] [DecidableEq ι] in
theorem reg_le_iff {b : ℝ} {q : ℕ} {S : Finset ι} {x : ι → ℝ} {k : ℕ} :
    reg b q S x ≤ k ↔ ∀ i ∈ S, level b q (x i) ≤ k := Finset.sup_le_iff

omit [Fintype ι] [DecidableEq ι] in
theorem reg_le_top (b : ℝ) (q : ℕ) (S : Finset ι) (x : ι → ℝ) : reg b q S x ≤ q + 1 :=
  reg_le_iff.2 fun i _ => level_le_top b q (x i)

omit [Fintype ι] [DecidableEq ι] in
theorem reg_empty (b : ℝ) (q : ℕ) (x : ι → ℝ) : reg b q ∅ x = 0 := by simp [reg]

omit [Fintype ι] in
theorem reg_union (b : ℝ) (q : ℕ) (S T : Finset ι) (x : ι → ℝ) :
    reg b q (S ∪ T) x = max (reg b q S x) (reg b q T x) := by
  simp [reg, Finset.sup_union]

omit [DecidableEq ι] in
/-- a box of per-item level bounds -/
theorem box_law {b a : ℝ} (hb : 1 < b) (ha : 0 < a) (q : ℕ) (κ : ι → ℕ) :
    μ a ι {x | ∀ i, level b q (x i) ≤ κ i} = ENNReal.ofReal (∏ i, G b a q 1 (κ i)) := by
  have := isProbabilityMeasure_expMeasure ha
  have h : {x : ι → ℝ | ∀ i, level b q (x i) ≤ κ i}
      = Set.pi univ (fun i => {t | level b q t ≤ κ i}) := by
    ext x; simp
  rw [h, Measure.pi_pi, ENNReal.ofReal_prod_of_nonneg (fun i _ => G_nonneg _ _ _ _ _)]
  exact Finset.prod_congr rfl fun i _ => level_cdf hb ha q (κ i)

theorem prod_three (S1 S2 S3 : Finset ι) (h12 : Disjoint S1 S2) (h13 : Disjoint S1 S3)
    (h23 : Disjoint S2 S3) (f : ℕ → ℝ) (k1 k2 k3 t : ℕ) (ht : f t = 1) :
    ∏ i, f (if i ∈ S1 then k1 else if i ∈ S2 then k2 else if i ∈ S3 then k3 else t)
      = f k1 ^ S1.card * f k2 ^ S2.card * f k3 ^ S3.card := by
  have h : ∀ i, f (if i ∈ S1 then k1 else if i ∈ S2 then k2 else if i ∈ S3 then k3 else t)
      = (if i ∈ S1 then f k1 else 1) * (if i ∈ S2 then f k2 else 1) * (if i ∈ S3 then f k3 else 1) := by
    intro i
    by_cases h1 : i ∈ S1
    · have h2 : i ∉ S2 := Finset.disjoint_left.1 h12 h1
      have h3 : i ∉ S3 := Finset.disjoint_left.1 h13 h1
      simp [h1, h2, h3]
    · by_cases h2 : i ∈ S2
      · have h3 : i ∉ S3 := Finset.disjoint_left.1 h23 h2
        simp [h1, h2, h3]
      · by_cases h3 : i ∈ S3 <;> simp [h1, h2, h3, ht]
  simp_rw [h]
  rw [Finset.prod_mul_distrib, Finset.prod_mul_distrib, Finset.prod_ite_mem, Finset.prod_ite_mem,
    Finset.prod_ite_mem]
  simp

/-- joint cdf of the registers of three pairwise disjoint item sets: it factorises -/
theorem three_box_law {b a : ℝ} (hb : 1 < b) (ha : 0 < a) (q : ℕ) (S1 S2 S3 : Finset ι)
    (h12 : Disjoint S1 S2) (h13 : Disjoint S1 S3) (h23 : Disjoint S2 S3) (k1 k2 k3 : ℕ) :
    μ a ι {x | reg b q S1 x ≤ k1 ∧ reg b q S2 x ≤ k2 ∧ reg b q S3 x ≤ k3}
      = ENNReal.ofReal (G b a q S1.card k1 * G b a q S2.card k2 * G b a q S3.card k3) := by
  have h : {x : ι → ℝ | reg b q S1 x ≤ k1 ∧ reg b q S2 x ≤ k2 ∧ reg b q S3 x ≤ k3}
      = {x | ∀ i, level b q (x i) ≤
          (if i ∈ S1 then k1 else if i ∈ S2 then k2 else if i ∈ S3 then k3 else q + 1)} := by
    ext x
    simp only [mem_ofPred_eq, reg_le_iff]
    constructor
    · rintro ⟨h1, h2, h3⟩ i
      by_cases i1 : i ∈ S1
      · simpa [i1] using h1 i i1
      · by_cases i2 : i ∈ S2
        · simpa [i1, i2] using h2 i i2
        · by_cases i3 : i ∈ S3
          · simpa [i1, i2, i3] using h3 i i3
          · simpa [i1, i2, i3] using level_le_top b q (x i)
    · intro h
      refine ⟨fun i i1 => ?_, fun i i2 => ?_, fun i i3 => ?_⟩
      · simpa [i1] using h i
      · have i1 : i ∉ S1 := Finset.disjoint_right.1 h12 i2
        simpa [i1, i2] using h i
      · have i1 : i ∉ S1 := Finset.disjoint_right.1 h13 i3
        have i2 : i ∉ S2 := Finset.disjoint_right.1 h23 i3
        simpa [i1, i2, i3] using h i
  rw [h, box_law hb ha, prod_three S1 S2 S3 h12 h13 h23 (G b a q 1) k1 k2 k3 (q + 1)
    (G_top _ _ _ _ le_rfl), G_pow, G_pow, G_pow]

/-- **maxlevel_cdf**: the maximum level `M_n` of a group `S` of `n` independent `Exp(a)` values has
`P(M_n ≤ k) = G n k`, i.e. `exp(-a n b^{-k})` for `k ≤ q`, `1` for `k ≥ q+1` (and `1` for `n = 0`) -/
theorem maxlevel_cdf {b a : ℝ} (hb : 1 < b) (ha : 0 < a) (q : ℕ) (S : Finset ι) (k : ℕ) :
    μ a ι {x | reg b q S x ≤ k} = ENNReal.ofReal (G b a q S.card k) := by
  have := three_box_law hb ha q S ∅ ∅ (Finset.disjoint_empty_right _) (Finset.disjoint_empty_right _)
    (Finset.disjoint_empty_right _) k 0 0
  simpa [reg_empty, G_zero_items] using this

theorem maxlevel_cdf_explicit {b a : ℝ} (hb : 1 < b) (ha : 0 < a) {q : ℕ} (S : Finset ι) {k : ℕ}
    (hk : k ≤ q) :
    μ a ι {x | reg b q S x ≤ k} = ENNReal.ofReal (exp (-a * S.card * b ^ (-(k : ℝ)))) := by
  rw [maxlevel_cdf hb ha]
  have : ¬ (q + 1 ≤ k) := by omega
  simp [G, this]

theorem maxlevel_cdf_top {b a : ℝ} (hb : 1 < b) (ha : 0 < a) {q : ℕ} (S : Finset ι) {k : ℕ}
    (hk : q + 1 ≤ k) : μ a ι {x | reg b q S x ≤ k} = 1 := by
  rw [maxlevel_cdf hb ha, G_top _ _ _ _ hk, ENNReal.ofReal_one]

theorem maxlevel_cdf_empty {b a : ℝ} (hb : 1 < b) (ha : 0 < a) (q k : ℕ) :
    μ a ι {x | reg b q (∅ : Finset ι) x ≤ k} = 1 := by
  rw [maxlevel_cdf hb ha, Finset.card_empty, G_zero_items, ENNReal.ofReal_one]

/-- the version over `Fin n` -/
theorem maxlevel_cdf_fin {b a : ℝ} (hb : 1 < b) (ha : 0 < a) (q n k : ℕ) :
    μ a (Fin n) {x | (Finset.univ.sup fun i => level b q (x i)) ≤ k}
      = ENNReal.ofReal (G b a q n k) := by
  have := maxlevel_cdf (ι := Fin n) hb ha q Finset.univ k
  simpa [reg] using this


/-! ## 4. the collision probability -/

section abstract

variable {Ω : Type*}

/-- `{U ≤ k1, V ≤ k2, W ≤ k3}` -/
def box (U V W : Ω → ℕ) (k1 k2 k3 : ℕ) : Set Ω := {ω | U ω ≤ k1 ∧ V ω ≤ k2 ∧ W ω ≤ k3}

theorem coll_zero (U V W : Ω → ℕ) :
    {ω | max (U ω) (W ω) = 0 ∧ max (V ω) (W ω) = 0} = box U V W 0 0 0 := by
  ext ω; simp only [box, mem_ofPred_eq]; omega

theorem coll_succ (U V W : Ω → ℕ) (k : ℕ) :
    {ω | max (U ω) (W ω) = k + 1 ∧ max (V ω) (W ω) = k + 1}
      = box U V W (k + 1) (k + 1) (k + 1) \ (box U V W k (k + 1) k ∪ box U V W (k + 1) k k) := by
  ext ω; simp only [box, mem_ofPred_eq, mem_sdiff, mem_union]; omega

variable [MeasurableSpace Ω]

/-- the probability of a collision at level `k+1`, from the joint cdf `F` (inclusion–exclusion) -/
theorem coll_succ_prob (P : Measure Ω) [IsFiniteMeasure P] (U V W : Ω → ℕ) (F : ℕ → ℕ → ℕ → ℝ)
    (hmeas : ∀ k1 k2 k3, MeasurableSet (box U V W k1 k2 k3))
    (hF : ∀ k1 k2 k3, P.real (box U V W k1 k2 k3) = F k1 k2 k3) (k : ℕ) :
    P.real {ω | max (U ω) (W ω) = k + 1 ∧ max (V ω) (W ω) = k + 1}
      = F (k + 1) (k + 1) (k + 1) - F k (k + 1) k - F (k + 1) k k + F k k k := by
  rw [coll_succ]
  have hsub : box U V W k (k + 1) k ∪ box U V W (k + 1) k k ⊆ box U V W (k + 1) (k + 1) (k + 1) := by
    intro ω h
    simp only [box, mem_ofPred_eq, mem_union] at h ⊢
    omega
  have hint : box U V W k (k + 1) k ∩ box U V W (k + 1) k k = box U V W k k k := by
    ext ω; simp only [box, mem_ofPred_eq, mem_inter_iff]; omega
  rw [measureReal_sdiff hsub ((hmeas _ _ _).union (hmeas _ _ _))]
  have h := measureReal_union_add_inter (μ := P) (s := box U V W k (k + 1) k) (hmeas (k + 1) k k)
  rw [hint, hF, hF, hF] at h
  rw [hF]
  linarith

theorem measurableSet_coll_level (U V W : Ω → ℕ)
    (hmeas : ∀ k1 k2 k3, MeasurableSet (box U V W k1 k2 k3)) (k : ℕ) :
    MeasurableSet {ω | max (U ω) (W ω) = k ∧ max (V ω) (W ω) = k} := by
  cases k with
  | zero => rw [coll_zero]; exact hmeas _ _ _
  | succ k => rw [coll_succ]; exact (hmeas _ _ _).diff ((hmeas _ _ _).union (hmeas _ _ _))

omit [MeasurableSpace Ω] in
theorem coll_eq_iUnion (U V W : Ω → ℕ) (N : ℕ) (_hU : ∀ ω, U ω ≤ N) (hV : ∀ ω, V ω ≤ N)
    (hW : ∀ ω, W ω ≤ N) :
    {ω | max (U ω) (W ω) = max (V ω) (W ω)}
      = ⋃ k ∈ Finset.range (N + 1), {ω | max (U ω) (W ω) = k ∧ max (V ω) (W ω) = k} := by
  ext ω
  simp only [mem_ofPred_eq, mem_iUnion, Finset.mem_range, exists_prop]
  constructor
  · intro h
    refine ⟨max (V ω) (W ω), ?_, h, rfl⟩
    have := hV ω; have := hW ω; omega
  · rintro ⟨k, -, h1, h2⟩; rw [h1, h2]

/-- the probability of a collision as a sum over the levels -/
theorem coll_prob_sum (P : Measure Ω) [IsFiniteMeasure P] (U V W : Ω → ℕ)
    (hmeas : ∀ k1 k2 k3, MeasurableSet (box U V W k1 k2 k3))
    (N : ℕ) (hU : ∀ ω, U ω ≤ N) (hV : ∀ ω, V ω ≤ N) (hW : ∀ ω, W ω ≤ N) :
    P.real {ω | max (U ω) (W ω) = max (V ω) (W ω)}
      = ∑ k ∈ Finset.range (N + 1), P.real {ω | max (U ω) (W ω) = k ∧ max (V ω) (W ω) = k} := by
  rw [coll_eq_iUnion U V W N hU hV hW, measureReal_biUnion_finset]
  · intro k _ k' _ hne
    refine Set.disjoint_left.2 fun ω h h' => hne ?_
    exact h.1.symm.trans h'.1
  · intro k _; exact measurableSet_coll_level U V W hmeas k

end abstract

/-- the `k`-th term of the collision probability:
`P(W = k, U ≤ k, V ≤ k) + P(W < k, U = k, V = k)` -/
noncomputable def collTerm (b a : ℝ) (q n1 n2 n3 k : ℕ) : ℝ :=
  (G b a q n3 k - Gm b a q n3 k) * G b a q n1 k * G b a q n2 k
    + Gm b a q n3 k * (G b a q n1 k - Gm b a q n1 k) * (G b a q n2 k - Gm b a q n2 k)

/-- **the collision probability** as a function of `b, a, q` and the three cardinalities -/
noncomputable def Pcoll (b a : ℝ) (q n1 n2 n3 : ℕ) : ℝ :=
  ∑ k ∈ Finset.range (q + 2), collTerm b a q n1 n2 n3 k

omit [Fintype ι] [DecidableEq ι] in
theorem measurable_reg (b : ℝ) (q : ℕ) (S : Finset ι) : Measurable (reg b q S) := by
  classical
  unfold reg
  induction S using Finset.induction_on with
  | empty => simp
  | insert i S _ ih =>
    simp only [Finset.sup_insert]
    exact ((measurable_level b q).comp (measurable_pi_apply i)).max ih

omit [Fintype ι] [DecidableEq ι] in
theorem measurableSet_regbox (b : ℝ) (q : ℕ) (S1 S2 S3 : Finset ι) (k1 k2 k3 : ℕ) :
    MeasurableSet (box (reg b q S1) (reg b q S2) (reg b q S3) k1 k2 k3) := by
  have h : ∀ (S : Finset ι) (k : ℕ), MeasurableSet {x : ι → ℝ | reg b q S x ≤ k} := fun S k =>
    measurableSet_le (measurable_reg b q S) measurable_const
  exact (h S1 k1).inter ((h S2 k2).inter (h S3 k3))

/-- the probability mass function of the maximum level: `P(M_n = k) = G n k - G n (k-1)` -/
theorem maxlevel_pmf {b a : ℝ} (hb : 1 < b) (ha : 0 < a) (q : ℕ) (S : Finset ι) (k : ℕ) :
    (μ a ι).real {x | reg b q S x = k} = G b a q S.card k - Gm b a q S.card k := by
  have := μ_prob ha ι
  have hc : ∀ k, (μ a ι).real {x | reg b q S x ≤ k} = G b a q S.card k := fun k => by
    rw [measureReal_def, maxlevel_cdf hb ha, ENNReal.toReal_ofReal (G_nonneg _ _ _ _ _)]
  cases k with
  | zero =>
    have : {x : ι → ℝ | reg b q S x = 0} = {x | reg b q S x ≤ 0} := by
      ext x; simp
    rw [this, hc]; simp [Gm]
  | succ k =>
    have hm : MeasurableSet {x : ι → ℝ | reg b q S x ≤ k} :=
      measurableSet_le (measurable_reg b q S) measurable_const
    have hsub : {x : ι → ℝ | reg b q S x ≤ k} ⊆ {x | reg b q S x ≤ k + 1} :=
      fun x (h : reg b q S x ≤ k) => Nat.le_succ_of_le h
    have : {x : ι → ℝ | reg b q S x = k + 1} = {x | reg b q S x ≤ k + 1} \ {x | reg b q S x ≤ k} := by
      ext x; simp only [mem_ofPred_eq, mem_sdiff]; omega
    rw [this, measureReal_sdiff hsub hm, hc, hc]
    simp [Gm]

/-- three pairwise disjoint groups: `P(max(U,W) = max(V,W)) = Pcoll` -/
theorem collision_three {b a : ℝ} (hb : 1 < b) (ha : 0 < a) (q : ℕ) (S1 S2 S3 : Finset ι)
    (h12 : Disjoint S1 S2) (h13 : Disjoint S1 S3) (h23 : Disjoint S2 S3) :
    (μ a ι).real {x | max (reg b q S1 x) (reg b q S3 x) = max (reg b q S2 x) (reg b q S3 x)}
      = Pcoll b a q S1.card S2.card S3.card := by
  have := μ_prob ha ι
  set F : ℕ → ℕ → ℕ → ℝ := fun k1 k2 k3 =>
    G b a q S1.card k1 * G b a q S2.card k2 * G b a q S3.card k3 with hFdef
  have hmeas := measurableSet_regbox b q S1 S2 S3
  have hF : ∀ k1 k2 k3,
      (μ a ι).real (box (reg b q S1) (reg b q S2) (reg b q S3) k1 k2 k3) = F k1 k2 k3 := by
    intro k1 k2 k3
    rw [measureReal_def]
    show ((μ a ι) {x | reg b q S1 x ≤ k1 ∧ reg b q S2 x ≤ k2 ∧ reg b q S3 x ≤ k3}).toReal = _
    rw [three_box_law hb ha q S1 S2 S3 h12 h13 h23, ENNReal.toReal_ofReal]
    exact mul_nonneg (mul_nonneg (G_nonneg _ _ _ _ _) (G_nonneg _ _ _ _ _)) (G_nonneg _ _ _ _ _)
  rw [coll_prob_sum (μ a ι) _ _ _ hmeas (q + 1) (reg_le_top b q S1) (reg_le_top b q S2)
    (reg_le_top b q S3)]
  unfold Pcoll
  refine Finset.sum_congr rfl fun k _ => ?_
  cases k with
  | zero =>
    rw [coll_zero, hF]
    simp only [collTerm, Gm, hFdef]; ring
  | succ k =>
    rw [coll_succ_prob (μ a ι) _ _ _ F hmeas hF]
    simp only [collTerm, Gm, hFdef]; ring

/-- **collision_probability** (C07, first sentence): items `ι`, two sets `A B : Finset ι`, the values
seen by one position independent `Exp(a)`; the registers of `A` and `B` at that position are equal with
probability `Pcoll b a q |A \ B| |B \ A| |A ∩ B|` -/
theorem collision_probability {b a : ℝ} (hb : 1 < b) (ha : 0 < a) (q : ℕ) (A B : Finset ι) :
    (μ a ι).real {x | reg b q A x = reg b q B x}
      = Pcoll b a q (A \ B).card (B \ A).card (A ∩ B).card := by
  rw [← collision_three hb ha q (A \ B) (B \ A) (A ∩ B)
    (Finset.disjoint_left.2 fun i h h' => (Finset.mem_sdiff.1 h).2 (Finset.mem_sdiff.1 h').1)
    (Finset.disjoint_left.2 fun i h h' => (Finset.mem_sdiff.1 h).2 (Finset.mem_inter.1 h').2)
    (Finset.disjoint_left.2 fun i h h' => (Finset.mem_sdiff.1 h).2 (Finset.mem_inter.1 h').1)]
  have hA : ∀ x : ι → ℝ, reg b q A x = max (reg b q (A \ B) x) (reg b q (A ∩ B) x) := by
    intro x; rw [← reg_union, Finset.sdiff_union_inter]
  have hB : ∀ x : ι → ℝ, reg b q B x = max (reg b q (B \ A) x) (reg b q (A ∩ B) x) := by
    intro x; rw [← reg_union, Finset.inter_comm, Finset.sdiff_union_inter]
  simp_rw [← hA, ← hB]

/-- the same as an `ℝ≥0∞`-valued measure -/
theorem collision_probability_ennreal {b a : ℝ} (hb : 1 < b) (ha : 0 < a) (q : ℕ) (A B : Finset ι) :
    μ a ι {x | reg b q A x = reg b q B x}
      = ENNReal.ofReal (Pcoll b a q (A \ B).card (B \ A).card (A ∩ B).card) := by
  have := μ_prob ha ι
  rw [← collision_probability hb ha q A B, measureReal_def, ENNReal.ofReal_toReal (measure_ne_top _ _)]

/-- **the collision probability depends on the two sets only through the three cardinalities**
(even over different item universes) -/
theorem collision_depends_only_on_cardinalities {ι' : Type} [Fintype ι'] [DecidableEq ι']
    {b a : ℝ} (hb : 1 < b) (ha : 0 < a) (q : ℕ) (A B : Finset ι) (A' B' : Finset ι')
    (h1 : (A \ B).card = (A' \ B').card) (h2 : (B \ A).card = (B' \ A').card)
    (h3 : (A ∩ B).card = (A' ∩ B').card) :
    (μ a ι).real {x | reg b q A x = reg b q B x} = (μ a ι').real {x | reg b q A' x = reg b q B' x} := by
  rw [collision_probability hb ha, collision_probability hb ha, h1, h2, h3]


/-! ## 6. sanity checks on `Pcoll` -/

/-- identical sets (`A \ B = B \ A = ∅`) always collide -/
theorem Pcoll_identical (b a : ℝ) (q n3 : ℕ) : Pcoll b a q 0 0 n3 = 1 := by
  unfold Pcoll
  rw [Finset.sum_range_succ']
  have h : ∀ k, collTerm b a q 0 0 n3 (k + 1) = G b a q n3 (k + 1) - G b a q n3 k := by
    intro k; simp [collTerm, Gm, G_zero_items]
  simp_rw [h]
  rw [Finset.sum_range_sub]
  simp [collTerm, Gm, G_zero_items, G_top]

/-- disjoint sets (`A ∩ B = ∅`): `Σ_k P(U = k) P(V = k)` -/
theorem Pcoll_disjoint (b a : ℝ) (q n1 n2 : ℕ) :
    Pcoll b a q n1 n2 0 = ∑ k ∈ Finset.range (q + 2),
      (G b a q n1 k - Gm b a q n1 k) * (G b a q n2 k - Gm b a q n2 k) := by
  unfold Pcoll
  refine Finset.sum_congr rfl fun k _ => ?_
  cases k <;> simp [collTerm, Gm, G_zero_items]

theorem Pcoll_nonneg_le_one {b a : ℝ} (hb : 1 < b) (ha : 0 < a) (q : ℕ) (A B : Finset ι) :
    0 ≤ Pcoll b a q (A \ B).card (B \ A).card (A ∩ B).card ∧
      Pcoll b a q (A \ B).card (B \ A).card (A ∩ B).card ≤ 1 := by
  have := μ_prob ha ι
  rw [← collision_probability hb ha q A B]
  exact ⟨measureReal_nonneg, measureReal_le_one⟩

/-- non-vacuity: one register level besides `0` (`q = 0`), `b = 2`, `a = 1`, two disjoint singletons:
each register is `0` with probability `e^{-1}` and `1` otherwise -/
theorem Pcoll_example : Pcoll 2 1 0 1 1 0 = exp (-1) ^ 2 + (1 - exp (-1)) ^ 2 := by
  rw [Pcoll_disjoint]
  simp [Finset.sum_range_succ, G, Gm]
  ring

/-! ## 5. the expected fraction of equal registers -/

omit [Fintype ι] [DecidableEq ι] in
theorem measurableSet_collision (b : ℝ) (q : ℕ) (A B : Finset ι) :
    MeasurableSet {x : ι → ℝ | reg b q A x = reg b q B x} :=
  measurableSet_eq_fun (measurable_reg b q A) (measurable_reg b q B)

open Classical in
/-- **C07 (expected fraction)**: `m` positions; the vector (indexed by the items) of values seen by
position `p` is `X p`, with marginal law `μ` (independent `Exp(a)` across ITEMS; nothing is assumed about
the joint law across positions): the expected fraction of positions at which the registers of `A` and
`B` are equal is `Pcoll b a q |A \ B| |B \ A| |A ∩ B|` -/
theorem expected_fraction {Ω : Type} [MeasurableSpace Ω] (P : Measure Ω) [IsProbabilityMeasure P]
    {b a : ℝ} (hb : 1 < b) (ha : 0 < a) (q : ℕ) {m : ℕ} (hm : 0 < m) (X : Fin m → Ω → ι → ℝ)
    (hX : ∀ p, Measurable (X p)) (hlaw : ∀ p, P.map (X p) = μ a ι) (A B : Finset ι) :
    ∫ ω, ((Finset.univ.filter fun p => reg b q A (X p ω) = reg b q B (X p ω)).card : ℝ) / m ∂P
      = Pcoll b a q (A \ B).card (B \ A).card (A ∩ B).card := by
  set E : Set (ι → ℝ) := {x | reg b q A x = reg b q B x} with hEdef
  have hE : MeasurableSet E := measurableSet_collision b q A B
  have hP : ∀ p, P.real (X p ⁻¹' E) = Pcoll b a q (A \ B).card (B \ A).card (A ∩ B).card := by
    intro p
    rw [measureReal_def, ← Measure.map_apply (hX p) hE, hlaw p, ← measureReal_def,
      collision_probability hb ha q A B]
  have hfun : ∀ ω, ((Finset.univ.filter fun p => reg b q A (X p ω) = reg b q B (X p ω)).card : ℝ)
        = ∑ p, (X p ⁻¹' E).indicator (1 : Ω → ℝ) ω := by
    intro ω
    rw [Finset.natCast_card_filter]
    refine Finset.sum_congr rfl fun p _ => ?_
    rw [Set.indicator_apply]
    exact if_congr Iff.rfl rfl rfl
  simp_rw [hfun]
  rw [integral_div, integral_finsetSum]
  · simp_rw [integral_indicator_one (hX _ hE), hP]
    rw [Finset.sum_const, Finset.card_univ, Fintype.card_fin, nsmul_eq_mul]
    have : (m : ℝ) ≠ 0 := Nat.cast_ne_zero.2 hm.ne'
    field_simp
  · intro p _
    exact (integrable_const (1:ℝ)).indicator (hX p hE)


/-! ## 7. the marginal law of one position under the code's generation scheme

`E_0, …, E_{m-1}` independent `Exp(1)`; the `j`-th smallest value of the item is
`x_j = Σ_{l ≤ j} E_l / (a (m - l))` (0-based; in 1-based notation `E_l / (a (m - l + 1))`), and it goes to a
position chosen by a uniformly random permutation independent of the `E`'s, so a fixed position sees
`x_J` with `J` uniform on `Fin m` and independent of the `E`'s.  Its survival function is
`(1/m) Σ_j P(x_j > t) = exp(-a t)`: the position sees an `Exp(a)` value. -/

/-- `x_j = Σ_{l ≤ j} E_l / (a (m - l))` -/
noncomputable def xs (a : ℝ) (m : ℕ) (j : Fin m) (E : Fin m → ℝ) : ℝ :=
  ∑ l : Fin m, if l ≤ j then E l / (a * ((m : ℝ) - ((l : ℕ) : ℝ))) else 0

theorem xs_zero (a : ℝ) (m : ℕ) (E : Fin (m + 1) → ℝ) :
    xs a (m + 1) 0 E = E 0 / (a * ((m : ℝ) + 1)) := by
  unfold xs
  rw [Fin.sum_univ_succ]
  simp

theorem xs_succ (a : ℝ) (m : ℕ) (j : Fin m) (E : Fin (m + 1) → ℝ) :
    xs a (m + 1) j.succ E = E 0 / (a * ((m : ℝ) + 1)) + xs a m j (fun i => E i.succ) := by
  unfold xs
  rw [Fin.sum_univ_succ]
  simp only [Fin.zero_le, if_true, Fin.succ_le_succ_iff, Fin.val_zero, Nat.cast_zero, sub_zero,
    Fin.val_succ, Nat.cast_add, Nat.cast_one, add_sub_add_right_eq_sub]

theorem measurable_xs (a : ℝ) (m : ℕ) (j : Fin m) : Measurable (xs a m j) := by
  unfold xs
  refine Finset.measurable_sum _ fun l _ => ?_
  split_ifs
  · exact (measurable_pi_apply l).div_const _
  · exact measurable_const

theorem xs_nonneg {a : ℝ} (ha : 0 < a) (m : ℕ) (j : Fin m) {E : Fin m → ℝ} (hE : ∀ i, 0 ≤ E i) :
    0 ≤ xs a m j E := by
  unfold xs
  refine Finset.sum_nonneg fun l _ => ?_
  split_ifs
  · have : ((l : ℕ) : ℝ) < m := by exact_mod_cast l.2
    exact div_nonneg (hE l) (mul_nonneg ha.le (by linarith))
  · exact le_rfl

local instance : IsProbabilityMeasure (expMeasure 1) := isProbabilityMeasure_expMeasure one_pos

theorem nonneg_eq_pi (m : ℕ) :
    {E : Fin m → ℝ | ∀ i, 0 ≤ E i} = Set.pi univ (fun _ => Ici (0:ℝ)) := by
  ext x; simp only [mem_ofPred_eq, Set.mem_pi, mem_univ, forall_true_left, mem_Ici]

theorem measurableSet_nonneg (m : ℕ) : MeasurableSet {E : Fin m → ℝ | ∀ i, 0 ≤ E i} := by
  rw [nonneg_eq_pi]; exact MeasurableSet.univ_pi fun _ => measurableSet_Ici

theorem nonneg_conull (m : ℕ) : μ 1 (Fin m) {E | ∀ i, 0 ≤ E i}ᶜ = 0 := by
  rw [prob_compl_eq_zero_iff (measurableSet_nonneg m), nonneg_eq_pi, Measure.pi_pi]
  have : expMeasure 1 (Ici (0:ℝ)) = 1 := by
    refine le_antisymm prob_le_one ?_
    calc (1 : ℝ≥0∞) = expMeasure 1 (Ioi 0) := by rw [expMeasure_Ioi one_pos le_rfl]; simp
      _ ≤ expMeasure 1 (Ici 0) := measure_mono Ioi_subset_Ici_self
  simp [this]

/-- below `0` nothing is lost -/
theorem survival_neg {a : ℝ} (ha : 0 < a) (m : ℕ) (j : Fin m) {t : ℝ} (ht : t < 0) :
    μ 1 (Fin m) {E | t < xs a m j E} = 1 := by
  refine le_antisymm prob_le_one ?_
  have h1 : μ 1 (Fin m) {E | ∀ i, 0 ≤ E i} = 1 :=
    (prob_compl_eq_zero_iff (measurableSet_nonneg m)).1 (nonneg_conull m)
  rw [← h1]
  exact measure_mono fun E hE => lt_of_lt_of_le ht (xs_nonneg ha m j hE)

/-- the first value `x_0 = E_0 / (a (m+1))` -/
theorem first_term {a : ℝ} (ha : 0 < a) (m : ℕ) {t : ℝ} (ht : 0 ≤ t) :
    μ 1 (Fin (m + 1)) {E | t < xs a (m + 1) 0 E}
      = ENNReal.ofReal (exp (-(a * ((m : ℝ) + 1) * t))) := by
  have hc : 0 < a * ((m : ℝ) + 1) := by positivity
  have h : {E : Fin (m + 1) → ℝ | t < xs a (m + 1) 0 E}
      = Set.pi univ (fun i : Fin (m + 1) => if i = 0 then Ioi (a * ((m : ℝ) + 1) * t) else univ) := by
    ext E
    simp only [mem_ofPred_eq, xs_zero, Set.mem_pi, mem_univ, forall_true_left]
    constructor
    · intro h i
      by_cases hi : i = 0
      · subst hi; simp only [if_true, mem_Ioi]
        rwa [lt_div_iff₀ hc, mul_comm] at h
      · simp [hi]
    · intro h
      have := h 0
      simp only [if_true, mem_Ioi] at this
      rwa [lt_div_iff₀ hc, mul_comm]
  rw [h, Measure.pi_pi]
  have : ∀ i : Fin (m + 1), expMeasure 1 (if i = 0 then Ioi (a * ((m : ℝ) + 1) * t) else univ)
      = if i = 0 then ENNReal.ofReal (exp (-(a * ((m : ℝ) + 1) * t))) else 1 := by
    intro i
    split_ifs
    · rw [expMeasure_Ioi one_pos (by positivity), one_mul]
    · exact measure_univ
  simp_rw [this]
  rw [Finset.prod_ite_eq']
  simp

/-- conditioning on the first gap `E_0 = s`: the rest is the scheme with `m` values -/
theorem succ_term (a : ℝ) (m : ℕ) (j : Fin m) (t : ℝ) :
    μ 1 (Fin (m + 1)) {E | t < xs a (m + 1) j.succ E}
      = ∫⁻ s, μ 1 (Fin m) {E' | t - s / (a * ((m : ℝ) + 1)) < xs a m j E'} ∂(expMeasure 1) := by
  have mp := measurePreserving_piFinSuccAbove (fun _ : Fin (m + 1) => expMeasure 1) 0
  set T : Set (ℝ × (Fin m → ℝ)) := {p | t < p.1 / (a * ((m : ℝ) + 1)) + xs a m j p.2} with hT
  have hTm : MeasurableSet T :=
    measurableSet_lt measurable_const
      ((measurable_fst.div_const _).add ((measurable_xs a m j).comp measurable_snd))
  have hpre : {E : Fin (m + 1) → ℝ | t < xs a (m + 1) j.succ E}
      = (MeasurableEquiv.piFinSuccAbove (fun _ : Fin (m + 1) => ℝ) 0) ⁻¹' T := by
    ext E
    simp only [mem_ofPred_eq, mem_preimage, hT, xs_succ]
    rfl
  rw [hpre, mp.measure_preimage_equiv, Measure.prod_apply hTm]
  refine lintegral_congr fun s => ?_
  congr 1
  ext E'
  simp only [mem_preimage, hT, mem_ofPred_eq]
  constructor <;> intro h <;> linarith


/-- the integral over the first gap -/
theorem lintegral_step {a : ℝ} (ha : 0 < a) (m : ℕ) {t : ℝ} (ht : 0 ≤ t) :
    ∫⁻ s, ENNReal.ofReal ((m : ℝ) * exp (-(a * max (t - s / (a * ((m : ℝ) + 1))) 0)))
        ∂(expMeasure 1)
      = ENNReal.ofReal (((m : ℝ) + 1) * exp (-(a * t)) - exp (-(a * ((m : ℝ) + 1) * t))) := by
  rcases Nat.eq_zero_or_pos m with rfl | hm
  · simp
  have hm' : (0:ℝ) < m := by exact_mod_cast hm
  set c := a * ((m : ℝ) + 1) with hc
  have hcpos : 0 < c := by positivity
  set r := (m : ℝ) / ((m : ℝ) + 1) with hr
  have hrpos : 0 < r := by positivity
  have hr' : ((m : ℝ) + 1) * r = m := by rw [hr]; field_simp
  have hrc : r * c = a * m := by rw [hr, hc]; field_simp
  set f : ℝ → ℝ≥0∞ := fun s => ENNReal.ofReal ((m : ℝ) * exp (-(a * max (t - s / c) 0))) with hf
  have hfm : Measurable f := by
    refine ENNReal.measurable_ofReal.comp ?_
    refine measurable_const.mul (Real.measurable_exp.comp ?_)
    exact (measurable_const.mul (((measurable_const.sub (measurable_id.div_const c))).max
      measurable_const)).neg
  have hpdf : ∀ r : ℝ, Measurable (exponentialPDF r) := fun r =>
    (measurable_exponentialPDFReal r).ennreal_ofReal
  rw [← lintegral_add_compl f (measurableSet_Iic (a := c * t))]
  have h1 : ∫⁻ s in Iic (c * t), f s ∂(expMeasure 1)
      = ENNReal.ofReal (((m : ℝ) + 1) * exp (-(a * t))) * ENNReal.ofReal (1 - exp (-(r * (c * t)))) := by
    show ∫⁻ s in Iic (c * t), f s ∂(volume.withDensity (exponentialPDF 1)) = _
    rw [setLIntegral_withDensity_eq_setLIntegral_mul _ (hpdf 1) hfm measurableSet_Iic]
    have hpt : ∀ s ∈ Iic (c * t), (exponentialPDF 1 * f) s
        = ENNReal.ofReal (((m : ℝ) + 1) * exp (-(a * t))) * exponentialPDF r s := by
      intro s hs
      rw [Pi.mul_apply]
      rcases lt_or_ge s 0 with h0 | h0
      · rw [exponentialPDF_of_neg h0, exponentialPDF_of_neg h0]; simp
      · rw [exponentialPDF_of_nonneg h0, exponentialPDF_of_nonneg h0, hf,
          ← ENNReal.ofReal_mul (by positivity), ← ENNReal.ofReal_mul (by positivity)]
        congr 1
        have hmax : max (t - s / c) 0 = t - s / c := by
          apply max_eq_left
          have : s / c ≤ t := by rw [div_le_iff₀ hcpos, mul_comm]; exact hs
          linarith
        rw [hmax]
        have e1 : exp (-(1 * s)) * exp (-(a * (t - s / c))) = exp (-(a * t)) * exp (-(r * s)) := by
          rw [← exp_add, ← exp_add]; congr 1
          rw [hr, hc]; field_simp; ring
        linear_combination (m : ℝ) * e1 - exp (-(a * t)) * exp (-(r * s)) * hr'
    rw [setLIntegral_congr_fun measurableSet_Iic hpt, lintegral_const_mul _ (hpdf r),
      lintegral_exponentialPDF_eq_antiDeriv hrpos, if_pos (by positivity)]
  have h2 : ∫⁻ s in (Iic (c * t))ᶜ, f s ∂(expMeasure 1)
      = ENNReal.ofReal (m : ℝ) * ENNReal.ofReal (exp (-(1 * (c * t)))) := by
    rw [compl_Iic]
    have hpt : ∀ s ∈ Ioi (c * t), f s = ENNReal.ofReal (m : ℝ) := by
      intro s hs
      have hmax : max (t - s / c) 0 = 0 := by
        apply max_eq_right
        have : t < s / c := by rw [lt_div_iff₀ hcpos, mul_comm]; exact hs
        linarith
      rw [hf]; simp only [hmax]; simp
    rw [setLIntegral_congr_fun measurableSet_Ioi hpt, setLIntegral_const,
      expMeasure_Ioi one_pos (by positivity)]
  rw [h1, h2, ← ENNReal.ofReal_mul (by positivity), ← ENNReal.ofReal_mul (by positivity),
    ← ENNReal.ofReal_add]
  · congr 1
    have e2 : exp (-(a * t)) * exp (-(r * (c * t))) = exp (-(1 * (c * t))) := by
      rw [← exp_add]; congr 1
      rw [← mul_assoc r c t, hrc, hc]; ring
    have e3 : exp (-(a * ((m : ℝ) + 1) * t)) = exp (-(1 * (c * t))) := by
      congr 1; rw [hc]; ring
    rw [e3]
    linear_combination (-((m : ℝ) + 1)) * e2
  · refine mul_nonneg (by positivity) ?_
    have : exp (-(r * (c * t))) ≤ 1 := by
      rw [exp_le_one_iff]; have := mul_nonneg hrpos.le (mul_nonneg hcpos.le ht); linarith
    linarith
  · positivity

/-- **the sum of the survival functions** of `x_0, …, x_{m-1}` is `m e^{-a t}` -/
theorem sum_survival {a : ℝ} (ha : 0 < a) (m : ℕ) (t : ℝ) :
    ∑ j : Fin m, μ 1 (Fin m) {E | t < xs a m j E}
      = ENNReal.ofReal (m * exp (-(a * max t 0))) := by
  induction m generalizing t with
  | zero => simp
  | succ m ih =>
    rcases lt_or_ge t 0 with ht | ht
    · simp_rw [survival_neg ha _ _ ht]
      rw [max_eq_right ht.le, mul_zero, neg_zero, exp_zero, mul_one, ENNReal.ofReal_natCast]; simp
    · rw [Fin.sum_univ_succ, first_term ha m ht]
      simp_rw [succ_term]
      rw [← lintegral_finsetSum]
      · simp_rw [ih]
        rw [lintegral_step ha m ht, max_eq_left ht, ← ENNReal.ofReal_add (by positivity)]
        · congr 1; push_cast; ring
        · have h1 : exp (-(a * ((m : ℝ) + 1) * t)) ≤ exp (-(a * t)) := by
            apply exp_le_exp.2
            have : 0 ≤ a * t * m := by positivity
            nlinarith
          have h2 : 0 ≤ (m : ℝ) * exp (-(a * t)) := by positivity
          nlinarith
      · intro j _
        have hT : MeasurableSet {p : ℝ × (Fin m → ℝ) |
            t - p.1 / (a * ((m : ℝ) + 1)) < xs a m j p.2} :=
          measurableSet_lt (measurable_const.sub (measurable_fst.div_const _))
            ((measurable_xs a m j).comp measurable_snd)
        exact measurable_measure_prodMk_left hT

/-- **(7) the marginal law of one position**: the value `x_J`, `J` uniform on the `m` ranks and
independent of the gaps, has the survival function of `Exp(a)`:
`(1/m) Σ_j P(x_j > t) = exp(-a t)` -/
theorem position_survival {a : ℝ} (ha : 0 < a) {m : ℕ} (hm : 0 < m) {t : ℝ} (ht : 0 ≤ t) :
    (1 / (m : ℝ)) * ∑ j : Fin m, (μ 1 (Fin m)).real {E | t < xs a m j E} = exp (-(a * t)) := by
  have h := sum_survival ha m t
  rw [max_eq_left ht] at h
  have h' : ∑ j : Fin m, (μ 1 (Fin m)).real {E | t < xs a m j E} = m * exp (-(a * t)) := by
    simp_rw [measureReal_def]
    rw [← ENNReal.toReal_sum (fun j _ => measure_ne_top _ _), h, ENNReal.toReal_ofReal (by positivity)]
  rw [h']
  have : (m : ℝ) ≠ 0 := Nat.cast_ne_zero.2 hm.ne'
  field_simp


theorem expMeasure_Ioi' {a : ℝ} (ha : 0 < a) (t : ℝ) :
    expMeasure a (Ioi t) = ENNReal.ofReal (exp (-(a * max t 0))) := by
  have := isProbabilityMeasure_expMeasure ha
  rcases lt_or_ge t 0 with ht | ht
  · rw [max_eq_right ht.le, mul_zero, neg_zero, exp_zero, ENNReal.ofReal_one]
    refine le_antisymm prob_le_one ?_
    calc (1 : ℝ≥0∞) = expMeasure a (Ioi 0) := by rw [expMeasure_Ioi ha le_rfl]; simp
      _ ≤ expMeasure a (Ioi t) := measure_mono (Ioi_subset_Ioi ht.le)
  · rw [max_eq_left ht, expMeasure_Ioi ha ht]

theorem measurable_xs_uncurry (a : ℝ) (m : ℕ) :
    Measurable fun p : Fin m × (Fin m → ℝ) => xs a m p.1 p.2 :=
  measurable_from_prod_countable_right fun j => measurable_xs a m j

/-- the value `x_J` seen by a position, when the rank `J` it receives is a function of some
randomness `θ ~ Q` independent of the gaps and `J` is uniform: survival function of `Exp(a)` -/
theorem position_survival_general {Θ : Type*} [MeasurableSpace Θ] (Q : Measure Θ)
    [IsProbabilityMeasure Q] {a : ℝ} (ha : 0 < a) {m : ℕ} (hm : 0 < m) (J : Θ → Fin m)
    (hJ : Measurable J) (hunif : ∀ j, Q (J ⁻¹' {j}) = (m : ℝ≥0∞)⁻¹) (t : ℝ) :
    (Q.prod (μ 1 (Fin m))) {p | t < xs a m (J p.1) p.2}
      = ENNReal.ofReal (exp (-(a * max t 0))) := by
  have hval : Measurable fun p : Θ × (Fin m → ℝ) => xs a m (J p.1) p.2 :=
    (measurable_xs_uncurry a m).comp ((hJ.comp measurable_fst).prodMk measurable_snd)
  have hS : MeasurableSet {p : Θ × (Fin m → ℝ) | t < xs a m (J p.1) p.2} :=
    measurableSet_lt measurable_const hval
  rw [Measure.prod_apply hS]
  set g : Fin m → ℝ≥0∞ := fun j => μ 1 (Fin m) {E | t < xs a m j E} with hg
  have h1 : ∀ θ, μ 1 (Fin m) (Prod.mk θ ⁻¹' {p : Θ × (Fin m → ℝ) | t < xs a m (J p.1) p.2})
      = g (J θ) := fun θ => rfl
  simp_rw [h1]
  rw [← lintegral_map (f := g) (Measurable.of_discrete) hJ, lintegral_fintype]
  have h2 : ∀ j, (Q.map J) {j} = (m : ℝ≥0∞)⁻¹ := fun j => by
    rw [Measure.map_apply hJ (measurableSet_singleton j), hunif]
  simp_rw [h2]
  rw [← Finset.sum_mul, hg, sum_survival ha m t, ENNReal.ofReal_mul (Nat.cast_nonneg m),
    ENNReal.ofReal_natCast, mul_comm, ← mul_assoc,
    ENNReal.inv_mul_cancel (Nat.cast_ne_zero.2 hm.ne') (ENNReal.natCast_ne_top m), one_mul]

/-- … hence the value seen by the position is `Exp(a)`-distributed -/
theorem position_law_general {Θ : Type*} [MeasurableSpace Θ] (Q : Measure Θ)
    [IsProbabilityMeasure Q] {a : ℝ} (ha : 0 < a) {m : ℕ} (hm : 0 < m) (J : Θ → Fin m)
    (hJ : Measurable J) (hunif : ∀ j, Q (J ⁻¹' {j}) = (m : ℝ≥0∞)⁻¹) :
    (Q.prod (μ 1 (Fin m))).map (fun p => xs a m (J p.1) p.2) = expMeasure a := by
  have := isProbabilityMeasure_expMeasure ha
  have hval : Measurable fun p : Θ × (Fin m → ℝ) => xs a m (J p.1) p.2 :=
    (measurable_xs_uncurry a m).comp ((hJ.comp measurable_fst).prodMk measurable_snd)
  have : IsProbabilityMeasure ((Q.prod (μ 1 (Fin m))).map (fun p => xs a m (J p.1) p.2)) :=
    Measure.isProbabilityMeasure_map hval.aemeasurable
  refine Measure.ext_of_Iic _ _ fun t => ?_
  rw [← compl_Ioi, prob_compl_eq_one_sub measurableSet_Ioi, prob_compl_eq_one_sub measurableSet_Ioi,
    Measure.map_apply hval measurableSet_Ioi, expMeasure_Ioi' ha]
  congr 1
  exact position_survival_general Q ha hm J hJ hunif t


/-- the uniform law on a finite type -/
noncomputable def unif (α : Type*) [Fintype α] [MeasurableSpace α] : Measure α :=
  (Fintype.card α : ℝ≥0∞)⁻¹ • Measure.count

theorem unif_apply_finset {α : Type*} [Fintype α] [MeasurableSpace α] [MeasurableSingletonClass α]
    (s : Finset α) : unif α (s : Set α) = (Fintype.card α : ℝ≥0∞)⁻¹ * s.card := by
  simp [unif]

theorem unif_prob (α : Type*) [Fintype α] [Nonempty α] [MeasurableSpace α]
    [MeasurableSingletonClass α] : IsProbabilityMeasure (unif α) := by
  refine ⟨?_⟩
  rw [← Finset.coe_univ, unif_apply_finset, Finset.card_univ,
    ENNReal.inv_mul_cancel (Nat.cast_ne_zero.2 Fintype.card_ne_zero) (ENNReal.natCast_ne_top _)]

/-- **(7), rank uniform**: `J` uniform on `Fin m`, independent of the gaps: `x_J ~ Exp(a)` -/
theorem position_law_uniform_rank {a : ℝ} (ha : 0 < a) {m : ℕ} (hm : 0 < m) :
    ((unif (Fin m)).prod (μ 1 (Fin m))).map (fun p => xs a m p.1 p.2) = expMeasure a := by
  have : Nonempty (Fin m) := ⟨⟨0, hm⟩⟩
  have := unif_prob (Fin m)
  refine position_law_general (unif (Fin m)) ha hm id measurable_id fun j => ?_
  have : (id ⁻¹' {j} : Set (Fin m)) = ((({j} : Finset (Fin m))) : Set (Fin m)) := by simp
  rw [this, unif_apply_finset]
  simp

/-- all the fibres of `σ ↦ σ⁻¹ p` have the same size -/
theorem perm_fiber_card (m : ℕ) (p j : Fin m) :
    (Finset.univ.filter fun σ : Equiv.Perm (Fin m) => σ.symm p = j).card * m
      = Fintype.card (Equiv.Perm (Fin m)) := by
  have hsym : ∀ j' : Fin m,
      (Finset.univ.filter fun σ : Equiv.Perm (Fin m) => σ.symm p = j').card
        = (Finset.univ.filter fun σ : Equiv.Perm (Fin m) => σ.symm p = j).card := by
    intro j'
    refine Finset.card_equiv (Equiv.mulRight (Equiv.swap j j')) fun σ => ?_
    simp only [Finset.mem_filter, Finset.mem_univ, true_and, Equiv.symm_apply_eq,
      Equiv.coe_mulRight, Equiv.Perm.mul_apply, Equiv.swap_apply_left]
  have h := Finset.card_eq_sum_card_fiberwise (f := fun σ : Equiv.Perm (Fin m) => σ.symm p)
    (s := Finset.univ) (t := Finset.univ) (fun _ _ => Finset.mem_coe.2 (Finset.mem_univ _))
  rw [Finset.card_univ] at h
  rw [h]
  simp_rw [hsym]
  simp [mul_comm]

section perm

/-- the discrete σ-algebra on the permutations -/
local instance permMeasurableSpace (m : ℕ) : MeasurableSpace (Equiv.Perm (Fin m)) := ⊤

local instance permMSC (m : ℕ) : MeasurableSingletonClass (Equiv.Perm (Fin m)) :=
  ⟨fun _ => MeasurableSpace.measurableSet_top⟩

/-- **(7), the code's scheme**: gaps `E_l ~ Exp(1)` independent, `x_j = Σ_{l ≤ j} E_l / (a (m - l))`, the
value `x_j` goes to position `σ j` for a uniformly random permutation `σ` independent of the gaps:
the value `x_{σ⁻¹ p}` seen by a fixed position `p` is `Exp(a)`-distributed -/
theorem position_law_perm {a : ℝ} (ha : 0 < a) {m : ℕ} (hm : 0 < m) (p : Fin m) :
    ((unif (Equiv.Perm (Fin m))).prod (μ 1 (Fin m))).map (fun ω => xs a m (ω.1.symm p) ω.2)
      = expMeasure a := by
  have := unif_prob (Equiv.Perm (Fin m))
  refine position_law_general (unif (Equiv.Perm (Fin m))) ha hm (fun σ => σ.symm p)
    measurable_from_top fun j => ?_
  have hset : ((fun σ : Equiv.Perm (Fin m) => σ.symm p) ⁻¹' {j} : Set (Equiv.Perm (Fin m)))
      = ((Finset.univ.filter fun σ : Equiv.Perm (Fin m) => σ.symm p = j :
          Finset (Equiv.Perm (Fin m))) : Set (Equiv.Perm (Fin m))) := by
    ext σ; simp
  rw [hset, unif_apply_finset]
  set c := (Finset.univ.filter fun σ : Equiv.Perm (Fin m) => σ.symm p = j).card with hc
  have hN : (Fintype.card (Equiv.Perm (Fin m)) : ℝ≥0∞) = (c : ℝ≥0∞) * m := by
    exact_mod_cast (perm_fiber_card m p j).symm
  have hc0 : (c : ℝ≥0∞) ≠ 0 := by
    intro h0
    have : Fintype.card (Equiv.Perm (Fin m)) = 0 := by
      have h0' : c = 0 := by exact_mod_cast h0
      rw [← perm_fiber_card m p j, ← hc, h0', zero_mul]
    exact Fintype.card_ne_zero this
  have hct : (c : ℝ≥0∞) ≠ ⊤ := ENNReal.natCast_ne_top c
  rw [hN, ENNReal.mul_inv (Or.inl hc0) (Or.inl hct), mul_comm (c : ℝ≥0∞)⁻¹, mul_assoc,
    ENNReal.inv_mul_cancel hc0 hct, mul_one]

/-- survival-function form of `position_law_perm` -/
theorem position_survival_perm {a : ℝ} (ha : 0 < a) {m : ℕ} (hm : 0 < m) (p : Fin m) {t : ℝ}
    (ht : 0 ≤ t) :
    ((unif (Equiv.Perm (Fin m))).prod (μ 1 (Fin m))) {ω | t < xs a m (ω.1.symm p) ω.2}
      = ENNReal.ofReal (exp (-(a * t))) := by
  have hval : Measurable fun ω : Equiv.Perm (Fin m) × (Fin m → ℝ) => xs a m (ω.1.symm p) ω.2 :=
    (measurable_xs_uncurry a m).comp
      (((measurable_from_top (f := fun σ : Equiv.Perm (Fin m) => σ.symm p)).comp
        measurable_fst).prodMk measurable_snd)
  have h := position_law_perm ha hm p
  have h2 := congrArg (fun ν : Measure ℝ => ν (Ioi t)) h
  simp only [Measure.map_apply hval measurableSet_Ioi] at h2
  rw [expMeasure_Ioi ha ht] at h2
  exact h2


/-! ### end to end: the code's scheme for every item, independently across the items -/

/-- the randomness of one item: the permutation (Fisher–Yates) and the `m` gaps -/
noncomputable abbrev itemLaw (m : ℕ) : Measure (Equiv.Perm (Fin m) × (Fin m → ℝ)) :=
  (unif (Equiv.Perm (Fin m))).prod (μ 1 (Fin m))

/-- the value that an item with randomness `ω = (σ, E)` gives to position `p` -/
noncomputable def itemValue (a : ℝ) (m : ℕ) (p : Fin m) (ω : Equiv.Perm (Fin m) × (Fin m → ℝ)) : ℝ :=
  xs a m (ω.1.symm p) ω.2

theorem measurable_itemValue (a : ℝ) (m : ℕ) (p : Fin m) : Measurable (itemValue a m p) :=
  (measurable_xs_uncurry a m).comp
    (((measurable_from_top (f := fun σ : Equiv.Perm (Fin m) => σ.symm p)).comp
      measurable_fst).prodMk measurable_snd)

theorem itemLaw_prob (m : ℕ) : IsProbabilityMeasure (itemLaw m) := by
  have := unif_prob (Equiv.Perm (Fin m))
  infer_instance

omit [DecidableEq ι] in
/-- with independent item randomness, the vector (over the items) of values seen by a fixed position is
i.i.d. `Exp(a)`: this is the hypothesis `hlaw` of `expected_fraction` -/
theorem scheme_position_law {a : ℝ} (ha : 0 < a) {m : ℕ} (hm : 0 < m) (p : Fin m) :
    (Measure.pi (fun _ : ι => itemLaw m)).map (fun ω i => itemValue a m p (ω i)) = μ a ι := by
  have := isProbabilityMeasure_expMeasure ha
  have hlaw : (itemLaw m).map (itemValue a m p) = expMeasure a := position_law_perm ha hm p
  have hsf : ∀ _ : ι, SigmaFinite ((itemLaw m).map (itemValue a m p)) := fun _ => by
    rw [hlaw]; infer_instance
  have := itemLaw_prob m
  rw [Measure.pi_map_pi (hμ := hsf) (fun _ => (measurable_itemValue a m p).aemeasurable)]
  simp_rw [hlaw]

open Classical in
/-- **C07, first sentence, end to end (idealised randomness)**: every item draws independently a
uniform permutation and `m` independent `Exp(1)` gaps, its `j`-th value `x_j = Σ_{l ≤ j} E_l/(a (m-l))`
goes to position `σ j`; the register of a set at a position is the maximum level of its items' values
there.  The expected fraction of the `m` positions at which `A` and `B` have equal registers is
`Pcoll b a q |A \ B| |B \ A| |A ∩ B|`. -/
theorem scheme_expected_fraction {b a : ℝ} (hb : 1 < b) (ha : 0 < a) (q : ℕ) {m : ℕ} (hm : 0 < m)
    (A B : Finset ι) :
    ∫ ω, ((Finset.univ.filter fun p : Fin m =>
        reg b q A (fun i => itemValue a m p (ω i)) = reg b q B (fun i => itemValue a m p (ω i))).card : ℝ)
          / m ∂(Measure.pi (fun _ : ι => itemLaw m))
      = Pcoll b a q (A \ B).card (B \ A).card (A ∩ B).card := by
  have := itemLaw_prob m
  refine expected_fraction (Measure.pi (fun _ : ι => itemLaw m)) hb ha q hm
    (fun p ω i => itemValue a m p (ω i)) (fun p => ?_) (fun p => scheme_position_law ha hm p) A B
  exact measurable_pi_lambda _ fun i => (measurable_itemValue a m p).comp (measurable_pi_apply i)

end perm

end PMH.SskLaw

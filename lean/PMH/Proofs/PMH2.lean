import PMH.Model.ProbMinHash2
import PMH.Proofs.PMH3
import PMH.Props.C17
/-!
# Refinement of the ProbMinHash2 model to the `Race` specification (helper lemmas for C02)

Exact arithmetic; the item's generator is total: `nextE g = ok (fe g)` (an `Exp1` sample, `≥ 0`),
`nextU g = ok (fu g)` (a raw word for the shuffle), and `offsetOf (unif u) n < n` for `n > 0`.
-/
namespace PMH.P2
open PMH PMH.Race PMH.MT PMH.C15 PMH.P3
variable {K G : Type} [Field K] [LinearOrder K] [IsStrictOrderedRing K]

def view (top : K) (init : Nat) (s : PMH2 K) : St K Nat :=
  ⟨fun k => if k < s.m then vw top s.tracker.vals k else top, fun k => s.sig.getD k init⟩

def WF (top : K) (m : Nat) (s : PMH2 K) : Prop :=
  s.m = m ∧ Good top m s.tracker ∧ s.sig.size = m ∧ s.fy.m = m ∧ C17.Inv s.fy ∧ (∀ i, 0 ≤ s.betas.getD i 0) ∧ s.betas.size = m

theorem getMax_eq (top : K) (init : Nat) (m : Nat) (hm : 1 ≤ m) (s : PMH2 K) (h : WF top m s) :
    s.tracker.getMax = .ok (qmaxF m (view top init s)) := by
  obtain ⟨hsm, hg, _⟩ := h
  obtain ⟨mx, e, hle, k0, hk0, hat⟩ := max_spec top m hm s.tracker hg
  rw [e]
  congr 1
  have hv : ∀ k, k < m → (view top init s).reg k = vw top s.tracker.vals k := by
    intro k hk; simp [view, hsm, hk]
  apply le_antisymm
  · rw [← hat, ← hv k0 hk0]; exact qmaxF_ge m _ k0 hk0
  · obtain ⟨k, hk, e2⟩ := qmaxF_mem m hm (view top init s)
    rw [e2, hv k hk]; exact hle k hk

structure TSrc2 (K G : Type) where
  fe : G → K × G
  fu : G → UInt64 × G

def TSrc2.toSrc (t : TSrc2 K G) : Src2 K G := ⟨fun g => .ok (t.fe g), fun g => .ok (t.fu g)⟩

def Nice2 (t : TSrc2 K G) (offsetOf : K → Nat → Nat) (unif : UInt64 → K) : Prop :=
  (∀ g, 0 ≤ (t.fe g).1) ∧ (∀ u n, 0 < n → offsetOf (unif u) n < n)

/-- the points still to come when the loop is at `(h, i, g)` with shuffle state `fy`: at most `fuel` of them -/
def ptsFrom (t : TSrc2 K G) (offsetOf : K → Nat → Nat) (unif : UInt64 → K) (betas : Array K) (winv : K) (id : Nat) :
    Nat → K → Nat → G → FY → List (Pt K Nat)
  | 0, _, _, _, _ => []
  | fuel + 1, h, i, g, fy =>
    match fy.nextOff (offsetOf (unif (t.fu g).1) (fy.m - fy.cursor)) with
    | .ok (k, fy') =>
      ⟨k, h, id⟩ :: ptsFrom t offsetOf unif betas winv id fuel
        (h + winv * betas.getD i 0 * (t.fe (t.fu g).2).1) (i + 1) (t.fe (t.fu g).2).2 fy'
    | .error _ => []

theorem ptsFrom_val_ge (t : TSrc2 K G) (offsetOf : K → Nat → Nat) (unif : UInt64 → K) (hn : Nice2 t offsetOf unif)
    (betas : Array K) (hb : ∀ i, 0 ≤ betas.getD i 0) (winv : K) (hw : 0 < winv) (id : Nat) :
    ∀ (fuel : Nat) (h : K) (i : Nat) (g : G) (fy : FY), ∀ p ∈ ptsFrom t offsetOf unif betas winv id fuel h i g fy, h ≤ p.val := by
  intro fuel
  induction fuel with
  | zero => intro h i g fy p hp; simp [ptsFrom] at hp
  | succ f ih =>
    intro h i g fy p hp
    simp only [ptsFrom] at hp
    split at hp
    · rcases List.mem_cons.mp hp with rfl | hp
      · exact le_refl _
      · have := ih _ _ _ _ p hp
        have hnn : 0 ≤ winv * betas.getD i 0 * (t.fe (t.fu g).2).1 :=
          mul_nonneg (mul_nonneg (le_of_lt hw) (hb i)) (hn.1 _)
        linarith
    · simp at hp

/-- the model's conditional update = `Race.offer` on the view -/
theorem offer_sim (top : K) (init : Nat) (m : Nat) (hm : 1 ≤ m) (s : PMH2 K) (hwf : WF top m s)
    (k : Nat) (hk : k < m) (h : K) (id : Nat) (hlt : h < vw top s.tracker.vals k) :
    ∃ t', s.tracker.update k h = .ok t' ∧ WF top m { s with sig := s.sig.setIfInBounds k id, tracker := t' } ∧
      view top init { s with sig := s.sig.setIfInBounds k id, tracker := t' } = Race.offer (view top init s) ⟨k, h, id⟩ := by
  obtain ⟨hsm, hg, hsz, hfm, hfi, hb, hbs⟩ := hwf
  obtain ⟨t', e, g', l'⟩ := update_good top m hm s.tracker hg k hk h
  refine ⟨t', e, ⟨hsm, g', by simp [hsz], hfm, hfi, hb, hbs⟩, ?_⟩
  unfold view Race.offer
  have hlt' : h < (if k < s.m then vw top s.tracker.vals k else top) := by simp [hsm, hk, hlt]
  simp only [hlt', if_true]
  congr 1
  · funext i
    by_cases him : i < m
    · simp only [hsm, him, if_true]
      rw [l' i him]
      unfold Function.update
      by_cases hik : i = k
      · subst hik; simp [min_eq_right (le_of_lt hlt)]
      · simp [hik, hsm, him]
    · have hik : i ≠ k := by omega
      simp [hsm, him, Function.update_of_ne hik]
  · funext i
    unfold Function.update
    by_cases hik : i = k
    · subst hik; simp [Array.getD_eq_getD_getElem?, Array.getElem?_setIfInBounds, hsz, hk]
    · have : ¬ k = i := fun e => hik e.symm
      simp [hik, Array.getD_eq_getD_getElem?, Array.getElem?_setIfInBounds, this]

theorem ptsFrom_pos (t : TSrc2 K G) (offsetOf : K → Nat → Nat) (unif : UInt64 → K) (hn : Nice2 t offsetOf unif)
    (betas : Array K) (winv : K) (id : Nat) (m : Nat) (hm : 1 ≤ m) :
    ∀ (fuel : Nat) (h : K) (i : Nat) (g : G) (fy : FY), fy.m = m → C17.Inv fy →
      ∀ p ∈ ptsFrom t offsetOf unif betas winv id fuel h i g fy, p.pos < m := by
  intro fuel
  induction fuel with
  | zero => intro h i g fy _ _ p hp; simp [ptsFrom] at hp
  | succ f ih =>
    intro h i g fy hfm hinv p hp
    have hcur : fy.cursor < fy.m := by
      unfold FY.cursor; split
      · omega
      · omega
    have hoff : offsetOf (unif (t.fu g).1) (fy.m - fy.cursor) < fy.m - fy.cursor := hn.2 _ _ (by omega)
    obtain ⟨k, fy', efy, hinv', hm', hk, _⟩ := C17.next_inv fy hinv _ hoff
    simp only [ptsFrom, efy] at hp
    rcases List.mem_cons.mp hp with rfl | hp
    · rw [← hfm]; exact hk
    · exact ih _ _ _ fy' (by rw [hm', hfm]) hinv' p hp

/-- **loop of `ProbMinHash2::hash_item`**: if it returns, the state satisfies the specification for the
old points plus all remaining points of the item. -/
theorem loop_spec (top : K) (init : Nat) (m : Nat) (hm : 1 ≤ m) (t : TSrc2 K G) (offsetOf : K → Nat → Nat)
    (unif : UInt64 → K) (hn : Nice2 t offsetOf unif) (id : Nat) (winv : K) (hw : 0 < winv) :
    ∀ (fuel : Nat) (s : PMH2 K) (h : K) (i : Nat) (qmax : K) (g : G) (P : Set (Pt K Nat)) (s' : PMH2 K) (n : Nat),
      WF top m s → qmax = qmaxF m (view top init s) → Spec m top init P (view top init s) → i + n + 1 = m →
      PMH2.loop t.toSrc offsetOf unif id winv fuel s h i qmax g = .ok s' →
      WF top m s' ∧ s'.betas = s.betas ∧
      Spec m top init (P ∪ {p | p ∈ ptsFrom t offsetOf unif s.betas winv id (n + 1) h i g s.fy}) (view top init s') := by
  intro fuel
  induction fuel with
  | zero => intro s h i qmax g P s' n _ _ _ _ e; simp [PMH2.loop] at e
  | succ f ih =>
    intro s h i qmax g P s' n hwf hq hs hin e
    obtain ⟨hsm, hg, hsz, hfm, hfi, hb, hbs⟩ := hwf
    have hwf : WF top m s := ⟨hsm, hg, hsz, hfm, hfi, hb, hbs⟩
    have hge := ptsFrom_val_ge t offsetOf unif hn s.betas hb winv hw id
    have hpos := ptsFrom_pos t offsetOf unif hn s.betas winv id m hm
    simp only [PMH2.loop] at e
    by_cases hlt : h < qmax
    · simp only [hlt, if_true, TSrc2.toSrc] at e
      have hcur : s.fy.cursor < s.fy.m := by
        unfold FY.cursor; split
        · omega
        · omega
      have hoff : offsetOf (unif (t.fu g).1) (s.fy.m - s.fy.cursor) < s.fy.m - s.fy.cursor := hn.2 _ _ (by omega)
      obtain ⟨k, fy', efy, hinv', hm', hk, _⟩ := C17.next_inv s.fy hfi _ hoff
      rw [efy] at e
      dsimp only at e
      have hkm : k < m := by rw [← hfm]; exact hk
      have hfm' : fy'.m = m := by rw [hm', hfm]
      have hkv : k < s.tracker.vals.size := by have := hg.2.1; omega
      simp only [Tracker.getValue] at e
      rw [getElem?_vw top _ _ hkv] at e
      dsimp only at e
      have hbeta : s.betas[i]? = some (s.betas.getD i 0) := by
        have : i < s.betas.size := by omega
        simp [Array.getD_eq_getD_getElem?, this]
      -- the points from here: the current one, then the tail
      have hpts : ptsFrom t offsetOf unif s.betas winv id (n + 1) h i g s.fy =
          ⟨k, h, id⟩ :: ptsFrom t offsetOf unif s.betas winv id n
            (h + winv * s.betas.getD i 0 * (t.fe (t.fu g).2).1) (i + 1) (t.fe (t.fu g).2).2 fy' := by
        simp only [ptsFrom, efy]
      have htail_ge : ∀ p ∈ ptsFrom t offsetOf unif s.betas winv id n
            (h + winv * s.betas.getD i 0 * (t.fe (t.fu g).2).1) (i + 1) (t.fe (t.fu g).2).2 fy', h ≤ p.val := by
        intro p hp
        have := hge n _ _ _ _ p hp
        have hnn : 0 ≤ winv * s.betas.getD i 0 * (t.fe (t.fu g).2).1 :=
          mul_nonneg (mul_nonneg (le_of_lt hw) (hb i)) (hn.1 _)
        linarith
      have htail_pos := hpos n (h + winv * s.betas.getD i 0 * (t.fe (t.fu g).2).1) (i + 1) (t.fe (t.fu g).2).2 fy' hfm' hinv'
      by_cases hvk : h < vw top s.tracker.vals k
      · simp only [hvk, if_true] at e
        have hwf1 : WF top m { s with fy := fy' } := ⟨hsm, hg, hsz, hfm', hinv', hb, hbs⟩
        obtain ⟨t', et, wf2, v2⟩ := offer_sim top init m hm { s with fy := fy' } hwf1 k hkm h id hvk
        dsimp only at et wf2 v2
        rw [et] at e
        dsimp only at e
        rw [getMax_eq top init m hm _ wf2] at e
        dsimp only at e
        have hs2 : Spec m top init (P ∪ {⟨k, h, id⟩}) (view top init { s with fy := fy', sig := s.sig.setIfInBounds k id, tracker := t' }) := by
          rw [v2]; exact spec_offer hs _
        by_cases hstop : h < qmaxF m (view top init { s with fy := fy', sig := s.sig.setIfInBounds k id, tracker := t' })
        · simp only [hstop, not_true_eq_false, decide_false, Bool.false_eq_true, if_false, hbeta] at e
          by_cases hassert : i + 1 < s.m
          · simp only [hassert, not_true_eq_false, if_false] at e
            cases n with
            | zero => omega
            | succ n =>
              obtain ⟨wf', hb', sp'⟩ := ih _ _ (i + 1) _ _ (P ∪ {⟨k, h, id⟩}) s' n wf2 rfl hs2 (by omega) e
              refine ⟨wf', hb', ?_⟩
              rw [hpts]
              refine spec_congr sp' ?_
              ext p; simp only [Set.mem_union, Set.mem_singleton_iff, Set.mem_setOf_eq, List.mem_cons]
              tauto
          · simp only [hassert, not_false_eq_true, if_true] at e
            exact absurd e (by simp)
        · simp only [hstop, not_false_eq_true, decide_true, if_true] at e
          injection e with e; subst e
          refine ⟨wf2, rfl, ?_⟩
          rw [hpts]
          refine spec_mono hs2 ?_ ?_
          · intro p hp
            rcases hp with hp | hp
            · exact Or.inl hp
            · rw [Set.mem_singleton_iff] at hp; exact Or.inr (by rw [hp]; exact List.mem_cons_self)
          · intro p hp hnp
            rcases hp with hp | hp
            · exact absurd (Or.inl hp) hnp
            · rcases List.mem_cons.mp hp with rfl | hp
              · exact absurd (Or.inr rfl) hnp
              · have hq' := qmaxF_ge m (view top init { s with fy := fy', sig := s.sig.setIfInBounds k id, tracker := t' }) _ (htail_pos p hp)
                exact le_trans hq' (le_trans (not_lt.mp hstop) (htail_ge p hp))
      · simp only [hvk, if_false, Bool.false_eq_true, hbeta] at e
        have hwf1 : WF top m { s with fy := fy' } := ⟨hsm, hg, hsz, hfm', hinv', hb, hbs⟩
        have hs2 : Spec m top init (P ∪ {⟨k, h, id⟩}) (view top init { s with fy := fy' }) := by
          refine spec_dominated hs ?_
          intro p hp
          rw [Set.mem_singleton_iff] at hp; subst hp
          simp only [view, hsm, hkm, if_true]
          exact not_lt.mp hvk
        by_cases hassert : i + 1 < s.m
        · simp only [hassert, not_true_eq_false, if_false] at e
          cases n with
          | zero => omega
          | succ n =>
            obtain ⟨wf', hb', sp'⟩ := ih { s with fy := fy' } _ (i + 1) qmax _ (P ∪ {⟨k, h, id⟩}) s' n hwf1 hq hs2 (by omega) e
            refine ⟨wf', hb', ?_⟩
            rw [hpts]
            refine spec_congr sp' ?_
            ext p; simp only [Set.mem_union, Set.mem_singleton_iff, Set.mem_setOf_eq, List.mem_cons]
            tauto
        · simp only [hassert, not_false_eq_true, if_true] at e
          exact absurd e (by simp)
    · simp only [hlt, if_false] at e
      injection e with e; subst e
      refine ⟨hwf, rfl, ?_⟩
      refine spec_dominated hs ?_
      intro p hp
      have hq' := qmaxF_ge m (view top init s) _ (hpos (n + 1) h i g s.fy hfm hfi p hp)
      rw [← hq] at hq'
      exact le_trans hq' (le_trans (not_lt.mp hlt) (hge (n + 1) h i g s.fy p hp))


/-- `betas` of `new(m, …)` -/
def betasOf (m : Nat) : Array K := (Array.range m).map (fun x => ((m : Nat) : K) / (((m - x - 1 : Nat)) : K))

/-- all points of the item `(id, w)` with generator `g0` in a sketcher of size `m`: a function of these alone -/
def itemPts (t : TSrc2 K G) (offsetOf : K → Nat → Nat) (unif : UInt64 → K) (m : Nat) (id : Nat) (w : K) (g0 : G) : Set (Pt K Nat) :=
  {p | p ∈ ptsFrom t offsetOf unif (betasOf m) (1 / w) id m (1 / w * (t.fe g0).1) 0 (t.fe g0).2 (FY.new m).reset}

theorem new_wf (top : K) (init m : Nat) (hm : 1 ≤ m) :
    WF top m (PMH2.new top m init) ∧ Spec m top init ∅ (view top init (PMH2.new top m init : PMH2 K)) ∧
    (PMH2.new top m init : PMH2 K).betas = betasOf m := by
  refine ⟨⟨rfl, new_good top m hm, by simp [PMH2.new], rfl, C17.new_inv m, ?_, by simp [PMH2.new]⟩, ?_, rfl⟩
  · intro i
    simp only [PMH2.new, Array.getD_eq_getD_getElem?, Array.getElem?_map, Array.getElem?_range]
    split
    · simp only [Option.map_some, Option.getD_some]; positivity
    · simp
  · refine ⟨fun _ hp => absurd hp (Set.notMem_empty _), fun k hk => Or.inl ⟨?_, ?_⟩⟩
    · have : MT.vw top (Tracker.new top m).vals k = top := by
        unfold MT.vw Tracker.new
        simp only [Array.getD_eq_getD_getElem?, Array.getElem?_replicate]; split <;> simp
      simp [view, PMH2.new, hk, this]
    · simp [view, PMH2.new, Array.getD_eq_getD_getElem?, Array.getElem?_replicate, hk]

theorem hashItem_spec (top : K) (init : Nat) (m : Nat) (hm : 1 ≤ m) (t : TSrc2 K G) (offsetOf : K → Nat → Nat)
    (unif : UInt64 → K) (hn : Nice2 t offsetOf unif) (s s' : PMH2 K) (id : Nat) (w : K) (hw : 0 < w) (g0 : G)
    (P : Set (Pt K Nat)) (hwf : WF top m s) (hbet : s.betas = betasOf m) (hs : Spec m top init P (view top init s))
    (e : s.hashItem t.toSrc offsetOf unif id w g0 = .ok s') :
    WF top m s' ∧ s'.betas = betasOf m ∧ Spec m top init (P ∪ itemPts t offsetOf unif m id w g0) (view top init s') := by
  unfold PMH2.hashItem at e
  have h0 : ((0 : Nat) : K) < w := by simpa using hw
  simp only [h0, not_true_eq_false, if_false, TSrc2.toSrc] at e
  obtain ⟨hsm, hg, hsz, hfm, hfi, hb, hbs⟩ := hwf
  have hwf1 : WF top m { s with fy := s.fy.reset } := ⟨hsm, hg, hsz, by simp [FY.reset, hfm], C17.reset_inv _, hb, hbs⟩
  rw [getMax_eq top init m hm _ hwf1] at e
  dsimp only at e
  have hwinv : (0 : K) < ((1 : Nat) : K) / w := by simpa using hw
  obtain ⟨m', rfl⟩ : ∃ m', m = m' + 1 := ⟨m - 1, by omega⟩
  have := loop_spec top init (m' + 1) hm t offsetOf unif hn id (((1 : Nat) : K) / w) hwinv (s.m + 2) { s with fy := s.fy.reset }
    _ 0 _ _ P s' m' hwf1 rfl hs (by omega) e
  obtain ⟨a, b, c⟩ := this
  refine ⟨a, by rw [b]; exact hbet, ?_⟩
  have hreset : s.fy.reset = (FY.new (m' + 1)).reset := C17.reset_forgets _ _ (by rw [hfm]; rfl)
  simp only [hbet, hreset] at c
  simpa [itemPts] using c

end PMH.P2

import PMH.Proofs.DensSel
/-!
# `DensSelRev`: reverse densification as a consistent-sampling (selection) scheme  (C08, reverse)

* Part 1 — the abstract reverse process over bin contents `c : ℕ → Option Item` (`step`, `runFrom`,
  `runPass`, `runPasses`), `stable`, `RevSel`, `revsel_unique`, `revsel_mem`, `rev_restriction`,
  `revsel_mono`, `revsel_map`.
* Part 2 — `tgtOf o m k p`: the target function of the model; `densifyRev_revsel`: a run of
  `Dens.densifyRev` that returns refines `RevSel`; conversely (`densifyRev_complete`) the run
  returns as soon as the abstract process has populated every bin within the fuel.
* Part 3 — the selection scheme `selRev` of reverse-densified one-permutation hashing: (M), (R),
  collision.
* Part 4 — `finished_selects_rev`, `finished_collision_iff_rev`: the finished model sketch shows
  `selRev`.
* Part 5 — the counting form (exact Jaccard collision law under exchangeable generators).
* Part 6 — non-vacuity: a toy instance satisfying every hypothesis of the counting form.
-/
namespace PMH.DensSelRev
open PMH PMH.DensSel

/-! ## Part 1 — the abstract reverse process -/
section Abstract
variable (tgt : Nat → Nat → Nat)

/-- one event `(k, p)` (bin `k`, pass `p`): the content of bin `k` (if any) is copied into the target
bin `tgt k p` if that bin is empty.  (`(c b).or (c k)` is `c b` when bin `b` is populated, and `c k`
otherwise — in particular nothing happens when bin `k` is empty.) -/
def step {Item : Type} (p : Nat) (c : Nat → Option Item) (k : Nat) : Nat → Option Item :=
  fun b => if b = tgt k p then (c b).or (c k) else c b

/-- the events `(k, p), (k+1, p), …, (k+n-1, p)` in this order -/
def runFrom {Item : Type} (p : Nat) : Nat → Nat → (Nat → Option Item) → (Nat → Option Item)
  | 0, _, c => c
  | n + 1, k, c => runFrom p n (k + 1) (step tgt p c k)

/-- one sweep `for k in 0..m` of pass `p` -/
def runPass {Item : Type} (m p : Nat) (c : Nat → Option Item) : Nat → Option Item :=
  runFrom tgt p m 0 c

/-- the `n` passes `p, p+1, …, p+n-1` -/
def runPassesFrom {Item : Type} (m : Nat) : Nat → Nat → (Nat → Option Item) → (Nat → Option Item)
  | 0, _, c => c
  | n + 1, p, c => runPassesFrom m n (p + 1) (runPass tgt m p c)

/-- the first `n` passes `1, …, n` -/
def runPasses {Item : Type} (m n : Nat) (c : Nat → Option Item) : Nat → Option Item :=
  runPassesFrom tgt m n 1 c

/-! ### the event, spelled out -/

theorem step_fill {Item : Type} {p k : Nat} {c : Nat → Option Item} {x : Item} (hk : c k = some x)
    (hj : c (tgt k p) = none) : step tgt p c k = Function.update c (tgt k p) (some x) := by
  funext b
  unfold step
  by_cases hb : b = tgt k p
  · subst hb; rw [if_pos rfl, hj, hk, Function.update_self]; rfl
  · rw [if_neg hb, Function.update_of_ne hb]

theorem step_skip_empty {Item : Type} {p k : Nat} {c : Nat → Option Item} (hk : c k = none) :
    step tgt p c k = c := by
  funext b
  unfold step
  by_cases hb : b = tgt k p
  · rw [if_pos hb, hk]; cases c b <;> rfl
  · rw [if_neg hb]

theorem step_skip_full {Item : Type} {p k : Nat} {c : Nat → Option Item} {z : Item}
    (hj : c (tgt k p) = some z) : step tgt p c k = c := by
  funext b
  unfold step
  by_cases hb : b = tgt k p
  · subst hb; rw [if_pos rfl, hj]; rfl
  · rw [if_neg hb]

/-! ### lifting step-invariants to sweeps and passes -/

theorem runFrom_rel {A B : Type} (P : (Nat → Option A) → (Nat → Option B) → Prop)
    (hstep : ∀ p k cA cB, P cA cB → P (step tgt p cA k) (step tgt p cB k)) (p : Nat) :
    ∀ n k cA cB, P cA cB → P (runFrom tgt p n k cA) (runFrom tgt p n k cB) := by
  intro n
  induction n with
  | zero => intro k cA cB h; exact h
  | succ n ih => intro k cA cB h; exact ih (k + 1) _ _ (hstep p k _ _ h)

theorem runPassesFrom_rel {A B : Type} (P : (Nat → Option A) → (Nat → Option B) → Prop)
    (hstep : ∀ p k cA cB, P cA cB → P (step tgt p cA k) (step tgt p cB k)) (m : Nat) :
    ∀ n p cA cB, P cA cB → P (runPassesFrom tgt m n p cA) (runPassesFrom tgt m n p cB) := by
  intro n
  induction n with
  | zero => intro p cA cB h; exact h
  | succ n ih =>
    intro p cA cB h
    exact ih (p + 1) _ _ (runFrom_rel tgt P hstep p m 0 _ _ h)

theorem runPassesFrom_inv {A : Type} (Q : (Nat → Option A) → Prop)
    (hstep : ∀ p k c, Q c → Q (step tgt p c k)) (m n p : Nat) (c : Nat → Option A) (h : Q c) :
    Q (runPassesFrom tgt m n p c) :=
  runPassesFrom_rel tgt (fun c _ => Q c) (fun p k c _ h => hstep p k c h) m n p c c h

theorem runFrom_inv {A : Type} (Q : (Nat → Option A) → Prop)
    (hstep : ∀ p k c, Q c → Q (step tgt p c k)) (p n k : Nat) (c : Nat → Option A) (h : Q c) :
    Q (runFrom tgt p n k c) :=
  runFrom_rel tgt (fun c _ => Q c) (fun p k c _ h => hstep p k c h) p n k c c h

theorem runPassesFrom_add {A : Type} (m : Nat) :
    ∀ (n d p : Nat) (c : Nat → Option A),
      runPassesFrom tgt m (n + d) p c = runPassesFrom tgt m d (p + n) (runPassesFrom tgt m n p c) := by
  intro n
  induction n with
  | zero => intro d p c; simp only [Nat.zero_add, Nat.add_zero, runPassesFrom]
  | succ n ih =>
    intro d p c
    have : n + 1 + d = (n + d) + 1 := by omega
    rw [this]
    simp only [runPassesFrom]
    rw [ih d (p + 1)]
    have : p + 1 + n = p + (n + 1) := by omega
    rw [this]

/-! ### the step invariants -/

/-- a populated bin keeps its content -/
theorem step_stable {A : Type} {c : Nat → Option A} {b : Nat} {y : A} (h : c b = some y)
    (p k : Nat) : step tgt p c k b = some y := by
  unfold step
  by_cases hb : b = tgt k p
  · rw [if_pos hb, h]; rfl
  · rw [if_neg hb, h]

/-- every content is a start content -/
theorem step_mem {A : Type} (Q : A → Prop) {c : Nat → Option A} (h : ∀ b y, c b = some y → Q y)
    (p k : Nat) : ∀ b y, step tgt p c k b = some y → Q y := by
  intro b y
  unfold step
  by_cases hb : b = tgt k p
  · rw [if_pos hb]
    cases hcb : c b with
    | some z => intro e; exact h b y (by rw [hcb]; exact e)
    | none => intro e; exact h k y (by cases hck : c k <;> rw [hck] at e <;> exact e)
  · rw [if_neg hb]; exact h b y

/-- invariant (1): populated in the small run ⇒ populated in the large run -/
theorem step_le {A B : Type} {cA : Nat → Option A} {cB : Nat → Option B}
    (h : ∀ b, (cA b).isSome → (cB b).isSome) (p k : Nat) :
    ∀ b, (step tgt p cA k b).isSome → (step tgt p cB k b).isSome := by
  intro b
  unfold step
  by_cases hb : b = tgt k p
  · rw [if_pos hb, if_pos hb]
    have h1 := h b
    have h2 := h k
    revert h1 h2
    cases cA b <;> cases cA k <;> cases cB b <;> cases cB k <;> simp [Option.or]
  · rw [if_neg hb, if_neg hb]; exact h b

/-- the invariant of the restriction argument -/
def Rel {A : Type} (inS : A → Prop) (cS cU : Nat → Option A) : Prop :=
  (∀ b, (cS b).isSome → (cU b).isSome) ∧ (∀ b y, cU b = some y → inS y → cS b = some y)

theorem step_rel {A : Type} {inS : A → Prop} {cS cU : Nat → Option A} (h : Rel inS cS cU)
    (p k : Nat) : Rel inS (step tgt p cS k) (step tgt p cU k) := by
  refine ⟨step_le tgt h.1 p k, ?_⟩
  intro b y
  unfold step
  by_cases hb : b = tgt k p
  · rw [if_pos hb, if_pos hb]
    cases hUb : cU b with
    | some z =>
      intro e hin
      have e' : z = y := by simpa [Option.or] using e
      subst e'
      rw [h.2 b z hUb hin]; rfl
    | none =>
      intro e hin
      have hUk : cU k = some y := by cases hck : cU k <;> rw [hck] at e <;> exact e
      have hSk := h.2 k y hUk hin
      have hSb : cS b = none := by
        cases hSb : cS b with
        | none => rfl
        | some z =>
          have := h.1 b (by rw [hSb]; rfl)
          rw [hUb] at this; cases this
      rw [hSb, hSk]; rfl
  · rw [if_neg hb, if_neg hb]; exact h.2 b y

/-- relabelling the contents commutes with the event -/
theorem step_map {A B : Type} (f : A → B) {cA : Nat → Option A} {cB : Nat → Option B}
    (h : ∀ b, cB b = (cA b).map f) (p k : Nat) :
    ∀ b, step tgt p cB k b = (step tgt p cA k b).map f := by
  intro b
  unfold step
  by_cases hb : b = tgt k p
  · rw [if_pos hb, if_pos hb, h b, h k]
    cases cA b <;> cases cA k <;> rfl
  · rw [if_neg hb, if_neg hb]; exact h b

/-! ### stability -/

/-- **stable**: a populated bin keeps its content through any number of further passes -/
theorem stable {A : Type} (m : Nat) {c : Nat → Option A} {b : Nat} {y : A} (h : c b = some y)
    (n p : Nat) : runPassesFrom tgt m n p c b = some y :=
  runPassesFrom_inv tgt (fun c => c b = some y) (fun p k _ h => step_stable tgt h p k) m n p c h

theorem runFrom_stable {A : Type} {c : Nat → Option A} {b : Nat} {y : A} (h : c b = some y)
    (p n k : Nat) : runFrom tgt p n k c b = some y :=
  runFrom_inv tgt (fun c => c b = some y) (fun p k _ h => step_stable tgt h p k) p n k c h

theorem runPasses_mono {A : Type} (m : Nat) {c : Nat → Option A} {b : Nat} {y : A} {n n' : Nat}
    (hn : n ≤ n') (h : runPasses tgt m n c b = some y) : runPasses tgt m n' c b = some y := by
  obtain ⟨d, rfl⟩ := Nat.exists_eq_add_of_le hn
  unfold runPasses at h ⊢
  rw [runPassesFrom_add]
  exact stable tgt m h d _

/-! ### the relational selection -/
variable {Item : Type}

open Classical in
/-- start contents of a view -/
noncomputable def c0 (V : View Item) : Nat → Option Item :=
  fun b => if V.pop b then some (V.own b) else none

theorem c0_pop {V : View Item} {b : Nat} (h : V.pop b) : c0 V b = some (V.own b) := by
  unfold c0; rw [if_pos h]

theorem c0_not_pop {V : View Item} {b : Nat} (h : ¬ V.pop b) : c0 V b = none := by
  unfold c0; rw [if_neg h]

theorem c0_some {V : View Item} {b : Nat} {y : Item} (h : c0 V b = some y) :
    V.pop b ∧ y = V.own b := by
  by_cases hp : V.pop b
  · rw [c0_pop hp] at h; injection h with h; exact ⟨hp, h.symm⟩
  · rw [c0_not_pop hp] at h; cases h

/-- `RevSel tgt m V k y`: after some number of passes of the reverse process (sweeps over `m` bins,
started from the view `V`) bin `k` is populated and holds `y` — and then holds `y` for ever
(`revsel_unique`).  Relational, no fuel. -/
def RevSel (m : Nat) (V : View Item) (k : Nat) (y : Item) : Prop :=
  ∃ n, runPasses tgt m n (c0 V) k = some y

/-- `RevSel` is functional: a bin shows one item -/
theorem revsel_unique {m : Nat} {V : View Item} {k : Nat} {y y' : Item}
    (h : RevSel tgt m V k y) (h' : RevSel tgt m V k y') : y = y' := by
  obtain ⟨n, hn⟩ := h
  obtain ⟨n', hn'⟩ := h'
  have h1 := runPasses_mono tgt m (Nat.le_max_left n n') hn
  have h2 := runPasses_mono tgt m (Nat.le_max_right n n') hn'
  rw [h1] at h2
  injection h2

/-- a populated bin shows its own item -/
theorem revsel_self {m : Nat} {V : View Item} {k : Nat} (h : V.pop k) :
    RevSel tgt m V k (V.own k) := ⟨0, c0_pop h⟩

/-- (M) the content is the item of an originally populated bin -/
theorem revsel_mem {m : Nat} {V : View Item} {k : Nat} {y : Item} (h : RevSel tgt m V k y) :
    ∃ b, V.pop b ∧ y = V.own b := by
  obtain ⟨n, hn⟩ := h
  exact runPassesFrom_inv tgt (fun c => ∀ b y, c b = some y → ∃ b0, V.pop b0 ∧ y = V.own b0)
    (fun p k _ h => step_mem tgt _ h p k) m n 1 (c0 V) (fun b y h => ⟨b, c0_some h⟩) k y hn

theorem rel_c0 {inS : Item → Prop} {S U : View Item} (hsub : Sub inS S U) :
    Rel inS (c0 S) (c0 U) := by
  constructor
  · intro b h
    by_cases hp : S.pop b
    · rw [c0_pop (hsub.pop_mono b hp)]; rfl
    · rw [c0_not_pop hp] at h; cases h
  · intro b y h hin
    obtain ⟨hp, rfl⟩ := c0_some h
    obtain ⟨hs, he⟩ := hsub.restrict b hp hin
    rw [c0_pop hs, he]

/-- **(R) restriction**: if the bin `k` of the `U`-run finally shows an item of `S`, then the `S`-run
populates `k` as well (after the same number of passes) and shows the same item. -/
theorem rev_restriction {inS : Item → Prop} {S U : View Item} (hsub : Sub inS S U) {m k : Nat}
    {y : Item} (h : RevSel tgt m U k y) (hin : inS y) : RevSel tgt m S k y := by
  obtain ⟨n, hn⟩ := h
  have hrel := runPassesFrom_rel tgt (Rel inS) (fun p k _ _ h => step_rel tgt h p k) m n 1 _ _
    (rel_c0 hsub)
  exact ⟨n, hrel.2 k y hn hin⟩

/-- termination is monotone: with more populated bins, bin `k` is populated no later
(only `pop_mono` is needed; the item types may differ) -/
theorem revsel_mono {Item' : Type} {S : View Item} {U : View Item'}
    (hpop : ∀ b, S.pop b → U.pop b) {m k : Nat} {y : Item} (h : RevSel tgt m S k y) :
    ∃ y', RevSel tgt m U k y' := by
  obtain ⟨n, hn⟩ := h
  have hle := runPassesFrom_rel tgt
    (fun (cA : Nat → Option Item) (cB : Nat → Option Item') => ∀ b, (cA b).isSome → (cB b).isSome)
    (fun p k _ _ h => step_le tgt h p k) m n 1 (c0 S) (c0 U)
    (by
      intro b h
      by_cases hp : S.pop b
      · rw [c0_pop (hpop b hp)]; rfl
      · rw [c0_not_pop hp] at h; cases h)
  have := hle k (by show (runPasses tgt m n (c0 S) k).isSome = true; rw [hn]; rfl)
  obtain ⟨y', hy'⟩ := Option.isSome_iff_exists.mp this
  exact ⟨y', n, hy'⟩

/-- `RevSel` commutes with a relabelling of the items: if `W` has the populated bins of `V` and
shows the `f`-image of what `V` shows, then the `W`-run is the `f`-image of the `V`-run. -/
theorem revsel_map {Item' : Type} (f : Item → Item') {V : View Item} {W : View Item'}
    (hpop : ∀ b, V.pop b ↔ W.pop b) (hown : ∀ b, V.pop b → W.own b = f (V.own b)) {m k : Nat}
    {z : Item'} : RevSel tgt m W k z ↔ ∃ y, RevSel tgt m V k y ∧ z = f y := by
  have hmap : ∀ n b, runPasses tgt m n (c0 W) b = (runPasses tgt m n (c0 V) b).map f := by
    intro n
    exact runPassesFrom_rel tgt
      (fun (cA : Nat → Option Item) (cB : Nat → Option Item') => ∀ b, cB b = (cA b).map f)
      (fun p k _ _ h => step_map tgt f h p k) m n 1 (c0 V) (c0 W)
      (by
        intro b
        by_cases hp : V.pop b
        · rw [c0_pop hp, c0_pop ((hpop b).mp hp), hown b hp]; rfl
        · rw [c0_not_pop hp, c0_not_pop (fun h => hp ((hpop b).mpr h))]; rfl)
  constructor
  · rintro ⟨n, hn⟩
    rw [hmap] at hn
    cases hv : runPasses tgt m n (c0 V) k with
    | none => rw [hv] at hn; cases hn
    | some y =>
      rw [hv] at hn
      injection hn with hn
      exact ⟨y, ⟨n, hv⟩, hn.symm⟩
  · rintro ⟨y, ⟨n, hn⟩, rfl⟩
    exact ⟨n, by rw [hmap, hn]; rfl⟩

/-- `RevSel` depends on the view only through populated bins and their items -/
theorem revsel_congr {V W : View Item} (hpop : ∀ b, V.pop b ↔ W.pop b)
    (hown : ∀ b, V.pop b → W.own b = V.own b) {m k : Nat} {y : Item} (h : RevSel tgt m V k y) :
    RevSel tgt m W k y :=
  (revsel_map tgt id hpop hown).mpr ⟨y, h, rfl⟩

/-! ### a populated bin fills its target -/

theorem runFrom_hits {A : Type} (p : Nat) :
    ∀ (n k : Nat) (c : Nat → Option A) (k0 : Nat), k ≤ k0 → k0 < k + n → (c k0).isSome →
      (runFrom tgt p n k c (tgt k0 p)).isSome := by
  intro n
  induction n with
  | zero => intro k c k0 h1 h2 _; omega
  | succ n ih =>
    intro k c k0 h1 h2 hs
    obtain ⟨x, hx⟩ := Option.isSome_iff_exists.mp hs
    simp only [runFrom]
    rcases Nat.eq_or_lt_of_le h1 with rfl | hlt
    · have hst : (step tgt p c k (tgt k p)).isSome := by
        unfold step
        rw [if_pos rfl, hx]
        cases c (tgt k p) <;> rfl
      obtain ⟨y, hy⟩ := Option.isSome_iff_exists.mp hst
      rw [runFrom_stable tgt hy]; rfl
    · exact ih (k + 1) _ k0 hlt (by omega) (by rw [step_stable tgt hx]; rfl)

/-- if bin `b0 < m` is populated at the start, then after `p ≥ 1` passes the bin `tgt b0 p` is
populated -/
theorem runPasses_hits {A : Type} {m b0 p : Nat} {c : Nat → Option A} {x : A} (hb0 : b0 < m)
    (hc : c b0 = some x) (hp : 1 ≤ p) : (runPasses tgt m p c (tgt b0 p)).isSome := by
  obtain ⟨q, rfl⟩ : ∃ q, p = q + 1 := ⟨p - 1, by omega⟩
  unfold runPasses
  rw [runPassesFrom_add]
  simp only [runPassesFrom, runPass]
  rw [Nat.add_comm 1 q]
  exact runFrom_hits tgt (q + 1) m 0 _ b0 (Nat.zero_le _) (by omega)
    (by rw [stable tgt m hc]; rfl)

theorem revsel_of_hit {Item : Type} {V : View Item} {m b0 k p : Nat} (hb0 : b0 < m)
    (hp0 : V.pop b0) (hp : 1 ≤ p) (ht : tgt b0 p = k) :
    ∃ y, runPasses tgt m p (c0 V) k = some y := by
  have := runPasses_hits tgt hb0 (c0_pop hp0) hp
  rw [ht] at this
  exact Option.isSome_iff_exists.mp this

end Abstract

/-! ## Part 2 — refinement: a returning `densifyRev` computes `RevSel` -/
section Refine
open DensP
variable {K G R : Type}

/-- the target function of the model: the bin drawn from the generator of `(bin k, pass p)` -/
def tgtOf (o : DensOps K G R) (m k p : Nat) : Nat :=
  (drawT o m (o.mkRng ((k + 1) * m + p + 253713))).1

/-- the array sizes of a state -/
def Sz (m : Nat) (s : Dens K) : Prop :=
  s.hsketch.size = m ∧ s.values.size = m ∧ s.init.size = m

/-- abstraction of a model state: the flagged bins `< m` with their `(value, hash)` pairs -/
def absOf (large : K) (m : Nat) (s : Dens K) : Nat → Option (K × Nat) :=
  fun i => if i < m ∧ s.init.getD i false = true then some (pair large s i) else none

theorem absOf_eq_c0 (large : K) (m : Nat) (s : Dens K) : absOf large m s = c0 (V0 large m s) := by
  funext i
  by_cases h : i < m ∧ s.init.getD i false = true
  · have hp : (V0 large m s).pop i := h
    rw [c0_pop hp]; unfold absOf; rw [if_pos h]; rfl
  · have hp : ¬ (V0 large m s).pop i := h
    rw [c0_not_pop hp]; unfold absOf; rw [if_neg h]

/-- the model's fill is the abstract event -/
theorem absOf_fill (large : K) (m : Nat) (tgt : Nat → Nat → Nat) (s : Dens K) (hsz : Sz m s)
    (k j p : Nat) (hk : k < m) (hj : j < m) (ht : tgt k p = j)
    (hkp : s.init.getD k false = true) (hjf : s.init.getD j false = false) :
    absOf large m { s with values := s.values.setIfInBounds j (s.values.getD k Dens.u64Max),
                           hsketch := s.hsketch.setIfInBounds j (s.hsketch.getD k large),
                           init := s.init.setIfInBounds j true, nbEmpty := s.nbEmpty - 1 }
      = step tgt p (absOf large m s) k := by
  obtain ⟨h1, h2, h3⟩ := hsz
  have hj1 : j < s.hsketch.size := by rw [h1]; exact hj
  have hj2 : j < s.values.size := by rw [h2]; exact hj
  have hj3 : j < s.init.size := by rw [h3]; exact hj
  funext i
  unfold step
  rw [ht]
  by_cases hij : i = j
  · subst hij
    have hL : absOf large m s i = none := by
      unfold absOf; rw [if_neg]; rintro ⟨_, h⟩; rw [hjf] at h; cases h
    have hR : absOf large m s k = some (pair large s k) := by
      unfold absOf; rw [if_pos ⟨hk, hkp⟩]
    rw [if_pos rfl, hL, hR]
    unfold absOf
    simp only [getD_set _ _ _ _ _ hj3, if_true]
    rw [if_pos ⟨hj, trivial⟩]
    simp only [pair, getD_set _ _ _ _ _ hj1, getD_set _ _ _ _ _ hj2, if_true]
    rfl
  · rw [if_neg hij]
    unfold absOf
    simp only [pair, getD_set _ _ _ _ _ hj1, getD_set _ _ _ _ _ hj2, getD_set _ _ _ _ _ hj3, hij,
      if_false]

/-- one sweep of the model is one sweep of the abstract process -/
theorem revPass_abs (large : K) (m : Nat) (o : DensOps K G R) (pass : Nat) :
    ∀ (n k : Nat) (s s' : Dens K), Sz m s → k + n = m →
      Dens.revPass o m pass n k s = .ok s' →
      Sz m s' ∧ absOf large m s' = runFrom (tgtOf o m) pass n k (absOf large m s) := by
  intro n
  induction n with
  | zero =>
    intro k s s' hsz _ e
    simp only [Dens.revPass] at e
    injection e with e; subst e; exact ⟨hsz, rfl⟩
  | succ n ih =>
    intro k s s' hsz hkn e
    simp only [Dens.revPass] at e
    simp only [runFrom]
    have hk : k < m := by omega
    obtain ⟨h1, h2, h3⟩ := hsz
    have hsz : Sz m s := ⟨h1, h2, h3⟩
    have e1 : s.init[k]? = some (s.init.getD k false) := by
      simp [Array.getD_eq_getD_getElem?, h3, hk]
    rw [e1] at e
    by_cases hp : s.init.getD k false = true
    · simp only [hp] at e
      cases hd : o.draw m (o.mkRng ((k + 1) * m + pass + 253713)) with
      | error er => rw [hd] at e; simp at e
      | ok res =>
        obtain ⟨j, r'⟩ := res
        rw [hd] at e
        dsimp only at e
        have ht : tgtOf o m k pass = j := by unfold tgtOf; rw [drawT_of_ok hd]
        have e2 : s.values[k]? = some (s.values.getD k Dens.u64Max) := by
          simp [Array.getD_eq_getD_getElem?, h2, hk]
        have e3 : s.hsketch[k]? = some (s.hsketch.getD k large) := by
          simp [Array.getD_eq_getD_getElem?, h1, hk]
        by_cases hj : j < m
        · have e4 : s.init[j]? = some (s.init.getD j false) := by
            simp [Array.getD_eq_getD_getElem?, h3, hj]
          rw [e4, e2, e3] at e
          by_cases hjp : s.init.getD j false = true
          · simp only [hjp] at e
            have hskip : step (tgtOf o m) pass (absOf large m s) k = absOf large m s := by
              apply step_skip_full (z := pair large s j)
              rw [ht]; unfold absOf; rw [if_pos ⟨hj, hjp⟩]
            rw [hskip]
            exact ih (k + 1) s s' hsz (by omega) e
          · have hjf : s.init.getD j false = false := by simpa using hjp
            simp only [hjf] at e
            rw [← absOf_fill large m (tgtOf o m) s hsz k j pass hk hj ht hp hjf]
            exact ih (k + 1) _ s' ⟨by simp [h1], by simp [h2], by simp [h3]⟩ (by omega) e
        · have e4 : s.init[j]? = none := by simp [h3]; omega
          rw [e4] at e
          simp at e
    · have hf : s.init.getD k false = false := by simpa using hp
      simp only [hf] at e
      have hskip : step (tgtOf o m) pass (absOf large m s) k = absOf large m s := by
        apply step_skip_empty
        unfold absOf; rw [if_neg]; rintro ⟨_, h⟩; exact hp h
      rw [hskip]
      exact ih (k + 1) s s' hsz (by omega) e

/-- the passes of the model are passes of the abstract process -/
theorem revPasses_abs (large : K) (m : Nat) (o : DensOps K G R) :
    ∀ (fuel pass : Nat) (s s' : Dens K), Sz m s → Dens.revPasses o fuel pass s = .ok s' →
      ∃ n, absOf large m s' = runPassesFrom (tgtOf o m) m n pass (absOf large m s) := by
  intro fuel
  induction fuel with
  | zero => intro pass s s' _ e; simp [Dens.revPasses] at e
  | succ f ih =>
    intro pass s s' hsz e
    simp only [Dens.revPasses] at e
    split at e
    · rw [hsz.1] at e
      cases hr : Dens.revPass o m pass m 0 s with
      | error er => rw [hr] at e; simp at e
      | ok s1 =>
        rw [hr] at e
        obtain ⟨hsz1, habs1⟩ := revPass_abs large m o pass m 0 s s1 hsz (by omega) hr
        obtain ⟨n, hn⟩ := ih (pass + 1) s1 s' hsz1 e
        refine ⟨n + 1, ?_⟩
        simp only [runPassesFrom, runPass]
        rw [← habs1]; exact hn
    · split at e
      · simp at e
      · injection e with e; subst e
        exact ⟨0, rfl⟩

/-- **Refinement.** A run of the reverse densification that returns has filled every bin `k` as the
abstract reverse process does: bin `k` of the result holds the `(value, hash)` pair that the
originally populated bin `b` had at the start, where `RevSel` relates `k` to that pair.  (No
hypothesis on the draws is needed: in a run that returns, every draw that was made succeeded and
was `< m`; the abstract process ignores the targets of empty bins.) -/
theorem densifyRev_revsel [LinearOrder K] (large : K) (m : Nat) (o : DensOps K G R) (fuel : Nat)
    (s0 s' : Dens K) (hinv : DInv large m s0) (e : Dens.densifyRev o fuel 1 s0 = .ok s') :
    ∀ k, k < m → ∃ b, (V0 large m s0).pop b ∧
      RevSel (tgtOf o m) m (V0 large m s0) k ((V0 large m s0).own b) ∧
      pair large s' k = pair large s0 b := by
  have hd := densifyRev_structure large m o fuel s0 s' hinv e
  unfold Dens.densifyRev at e
  split at e
  · simp at e
  · obtain ⟨n, hn⟩ := revPasses_abs large m o fuel 1 s0 s' ⟨hinv.1, hinv.2.1, hinv.2.2.1⟩ e
    intro k hk
    have hk' : absOf large m s' k = some (pair large s' k) := by
      unfold absOf; rw [if_pos ⟨hk, hd.2.2.2.2.1 k hk⟩]
    rw [hn, absOf_eq_c0] at hk'
    have hsel : RevSel (tgtOf o m) m (V0 large m s0) k (pair large s' k) := ⟨n, hk'⟩
    obtain ⟨b, hb, hy⟩ := revsel_mem _ hsel
    refine ⟨b, hb, ?_, hy⟩
    rw [← hy]; exact hsel

end Refine

/-! ### the converse direction: the run returns as soon as the passes lie within the fuel -/
section Complete
open DensP
variable {K G R : Type}

/-- a sweep never fails if the draws never fail and stay `< m` -/
theorem revPass_total (large : K) (m : Nat) (o : DensOps K G R) (hd : DrawTotal o m)
    (hlt : ∀ r, (drawT o m r).1 < m) (pass : Nat) :
    ∀ (n k : Nat) (s : Dens K), Sz m s → k + n = m →
      ∃ s', Dens.revPass o m pass n k s = .ok s' := by
  intro n
  induction n with
  | zero => intro k s _ _; exact ⟨s, rfl⟩
  | succ n ih =>
    intro k s hsz hkn
    simp only [Dens.revPass]
    have hk : k < m := by omega
    obtain ⟨h1, h2, h3⟩ := hsz
    have hsz : Sz m s := ⟨h1, h2, h3⟩
    have e1 : s.init[k]? = some (s.init.getD k false) := by
      simp [Array.getD_eq_getD_getElem?, h3, hk]
    rw [e1]
    by_cases hp : s.init.getD k false = true
    · simp only [hp]
      obtain ⟨⟨j, r'⟩, hdr⟩ := hd (o.mkRng ((k + 1) * m + pass + 253713))
      rw [hdr]
      dsimp only
      have hj : j < m := by
        have := hlt (o.mkRng ((k + 1) * m + pass + 253713))
        rw [drawT_of_ok hdr] at this; exact this
      have e2 : s.values[k]? = some (s.values.getD k Dens.u64Max) := by
        simp [Array.getD_eq_getD_getElem?, h2, hk]
      have e3 : s.hsketch[k]? = some (s.hsketch.getD k large) := by
        simp [Array.getD_eq_getD_getElem?, h1, hk]
      have e4 : s.init[j]? = some (s.init.getD j false) := by
        simp [Array.getD_eq_getD_getElem?, h3, hj]
      rw [e4, e2, e3]
      by_cases hjp : s.init.getD j false = true
      · simp only [hjp]
        exact ih (k + 1) s hsz (by omega)
      · have hjf : s.init.getD j false = false := by simpa using hjp
        simp only [hjf]
        exact ih (k + 1) _ ⟨by simp [h1], by simp [h2], by simp [h3]⟩ (by omega)
    · have hf : s.init.getD k false = false := by simpa using hp
      simp only [hf]
      exact ih (k + 1) s hsz (by omega)

theorem runPasses_succ {A : Type} (tgt : Nat → Nat → Nat) (m n : Nat) (c : Nat → Option A) :
    runPasses tgt m (n + 1) c = runPass tgt m (n + 1) (runPasses tgt m n c) := by
  unfold runPasses
  rw [runPassesFrom_add]
  simp only [runPassesFrom]
  rw [Nat.add_comm 1 n]

theorem revPasses_complete [LinearOrder K] (large : K) (m : Nat) (o : DensOps K G R) (hd : DrawTotal o m)
    (hlt : ∀ r, (drawT o m r).1 < m) (s0 : Dens K) (N : Nat)
    (hN : ∀ k, k < m → ∃ y, runPasses (tgtOf o m) m N (absOf large m s0) k = some y) :
    ∀ (f n : Nat) (s : Dens K), Keeps large m s0 s →
      absOf large m s = runPasses (tgtOf o m) m n (absOf large m s0) → N ≤ n + f →
      ∃ s', Dens.revPasses o (f + 1) (n + 1) s = .ok s' := by
  -- all bins are flagged once `N` passes are done
  have hfull : ∀ (n : Nat) (s : Dens K), Keeps large m s0 s →
      absOf large m s = runPasses (tgtOf o m) m n (absOf large m s0) → N ≤ n → s.nbEmpty = 0 := by
    intro n s hkp habs hNn
    rw [hkp.2.2.2.1, count_false_zero s.init]; rfl
    intro k hk
    rw [hkp.2.2.1] at hk
    obtain ⟨y, hy⟩ := hN k hk
    have := runPasses_mono (tgtOf o m) m hNn hy
    rw [← habs] at this
    unfold absOf at this
    by_cases hc : k < m ∧ s.init.getD k false = true
    · exact hc.2
    · rw [if_neg hc] at this; cases this
  intro f
  induction f with
  | zero =>
    intro n s hkp habs hNn
    have hz := hfull n s hkp habs (by omega)
    simp only [Dens.revPasses]
    rw [if_neg (by rw [hz]; simp), if_neg (by rw [hz]; simp)]
    exact ⟨s, rfl⟩
  | succ f ih =>
    intro n s hkp habs hNn
    simp only [Dens.revPasses]
    have hsz : Sz m s := ⟨hkp.1, hkp.2.1, hkp.2.2.1⟩
    by_cases hpos : s.nbEmpty > 0
    · rw [if_pos hpos, hsz.1]
      obtain ⟨s1, hs1⟩ := revPass_total large m o hd hlt (n + 1) m 0 s hsz (by omega)
      rw [hs1]
      dsimp only
      have hkp1 := revPass_keeps large m o (n + 1) s0 m 0 s s1 hkp (by omega) hs1
      obtain ⟨_, habs1⟩ := revPass_abs large m o (n + 1) m 0 s s1 hsz (by omega) hs1
      refine ih (n + 1) s1 hkp1 ?_ (by omega)
      rw [habs1, habs, runPasses_succ]; rfl
    · have hz : s.nbEmpty = 0 := by
        have : (0 : Int) ≤ s.nbEmpty := by rw [hkp.2.2.2.1]; exact Int.natCast_nonneg _
        omega
      rw [if_neg hpos, if_neg (by rw [hz]; simp)]
      exact ⟨s, rfl⟩

/-- **Converse of the refinement.**  If the draws never fail and stay `< m`, some bin is populated,
and the abstract reverse process populates every bin within fewer than `fuel` passes, then the
reverse densification returns. -/
theorem densifyRev_complete [LinearOrder K] (large : K) (m : Nat) (o : DensOps K G R) (fuel : Nat)
    (s0 : Dens K) (hinv : DInv large m s0) (hd : DrawTotal o m) (hlt : ∀ r, (drawT o m r).1 < m)
    (hpop : ∃ b, (V0 large m s0).pop b)
    (hfuel : ∀ k, k < m → ∃ n, n < fuel ∧
      ∃ y, runPasses (tgtOf o m) m n (c0 (V0 large m s0)) k = some y) :
    ∃ s', Dens.densifyRev o fuel 1 s0 = .ok s' := by
  obtain ⟨b, hb, hbp⟩ := hpop
  obtain ⟨f, rfl⟩ : ∃ f, fuel = f + 1 := by
    obtain ⟨n, hn, _⟩ := hfuel b hb
    exact ⟨fuel - 1, by omega⟩
  have hnb : ¬ s0.nbEmpty ≥ (s0.hsketch.size : Int) := by
    rw [hinv.2.2.2.1, hinv.1]
    have := count_false_lt s0.init b (by rw [hinv.2.2.1]; exact hb) hbp
    rw [hinv.2.2.1] at this
    omega
  unfold Dens.densifyRev
  rw [if_neg hnb]
  refine revPasses_complete large m o hd hlt s0 f ?_ f 0 s0 (keeps_refl large m s0 hinv) rfl
    (by omega)
  intro k hk
  obtain ⟨n, hn, y, hy⟩ := hfuel k hk
  rw [absOf_eq_c0]
  exact ⟨y, runPasses_mono _ m (by omega) hy⟩

end Complete

/-! ## Part 3 — the selection scheme -/
section Select
variable {Item V : Type} [DecidableEq Item] [Inhabited Item] [LinearOrder V]
variable (tgt : Nat → Nat → Nat) (m : Nat) (bin : Item → Nat) (score : Item → V)

/-- the reverse process populates bin `k` for the item set `S` -/
def TermRev (S : Finset Item) (k : Nat) : Prop := ∃ y, RevSel tgt m (viewG bin score S) k y

open Classical in
/-- the item finally shown at position `k` for the item set `S` (`default` if the reverse process
never populates `k`) -/
noncomputable def selRevG (S : Finset Item) (k : Nat) : Item :=
  if h : ∃ y, RevSel tgt m (viewG bin score S) k y then h.choose else default

omit [DecidableEq Item] in
theorem selRevG_eq {S : Finset Item} {k : Nat} {y : Item}
    (h : RevSel tgt m (viewG bin score S) k y) : selRevG tgt m bin score S k = y := by
  have hex : ∃ y, RevSel tgt m (viewG bin score S) k y := ⟨y, h⟩
  unfold selRevG
  rw [dif_pos hex]
  exact revsel_unique tgt hex.choose_spec h

omit [DecidableEq Item] in
/-- (M) the selected item belongs to the set -/
theorem selRevG_mem {S : Finset Item} {k : Nat} (h : TermRev tgt m bin score S k) :
    selRevG tgt m bin score S k ∈ S := by
  obtain ⟨y, hy⟩ := h
  rw [selRevG_eq tgt m bin score hy]
  obtain ⟨b, hb, rfl⟩ := revsel_mem tgt hy
  exact (viewG_own_spec bin score hb).1

omit [DecidableEq Item] in
/-- termination is monotone in the item set -/
theorem termRev_monoG {S U : Finset Item} (hSU : S ⊆ U) {k : Nat}
    (h : TermRev tgt m bin score S k) : TermRev tgt m bin score U k := by
  obtain ⟨y, hy⟩ := h
  exact revsel_mono tgt (S := viewG bin score S) (U := viewG bin score U)
    (fun _ hp => hp.elim fun d hd => ⟨d, hSU hd.1, hd.2⟩) hy

omit [DecidableEq Item] in
/-- (R) restriction: if the item selected for a superset lies in `S`, `S` selects it as well
(and the reverse process for `S` populates `k`) -/
theorem selRevG_restrict (hs : Function.Injective score) {S U : Finset Item} (hSU : S ⊆ U)
    {k : Nat} (hU : TermRev tgt m bin score U k) (hin : selRevG tgt m bin score U k ∈ S) :
    TermRev tgt m bin score S k ∧ selRevG tgt m bin score S k = selRevG tgt m bin score U k := by
  obtain ⟨y, hy⟩ := hU
  rw [selRevG_eq tgt m bin score hy] at hin ⊢
  have h1 := rev_restriction tgt (viewG_sub bin score hs hSU) hy hin
  exact ⟨⟨y, h1⟩, selRevG_eq tgt m bin score h1⟩

open Classical in
/-- `selRevG`, completed by the smallest-score item where the reverse process never populates `k` -/
noncomputable def selRevT (S : Finset Item) (k : Nat) : Item :=
  if TermRev tgt m bin score S k then selRevG tgt m bin score S k else CS.argmin score S

omit [DecidableEq Item] in
theorem selRevT_of_term {S : Finset Item} {k : Nat} (h : TermRev tgt m bin score S k) :
    selRevT tgt m bin score S k = selRevG tgt m bin score S k := by
  unfold selRevT; rw [if_pos h]

/-- **reverse-densified one-permutation hashing is a selection scheme** (`CS.Scheme`): (M) and (R)
hold for every nonempty set and every position -/
noncomputable def selRevScheme (hs : Function.Injective score) : CS.Scheme Item Nat where
  c := selRevT tgt m bin score
  mem S k hS := by
    unfold selRevT
    split
    · exact selRevG_mem tgt m bin score ‹_›
    · exact (CS.argmin_spec score hS).1
  restrict S U k hSU hS hin := by
    by_cases hU : TermRev tgt m bin score U k
    · simp only [selRevT, hU, if_true] at hin ⊢
      obtain ⟨h1, h2⟩ := selRevG_restrict tgt m bin score hs hSU hU hin
      simp only [h1, if_true, h2]
    · have hS' : ¬ TermRev tgt m bin score S k :=
        fun h => hU (termRev_monoG tgt m bin score hSU h)
      simp only [selRevT, hU, hS', if_false] at hin ⊢
      exact (CS.argmin_unique hs hin
        (fun d' hd' => (CS.argmin_spec score ⟨d', hSU hd'⟩).2 d' (hSU hd'))).symm

omit [DecidableEq Item] in
theorem termRev_nonempty {S : Finset Item} {k : Nat} (h : TermRev tgt m bin score S k) :
    S.Nonempty := ⟨_, selRevG_mem tgt m bin score h⟩

/-- **collision ⇔ the item selected for the union lies in the intersection** (via `CS.cs_collision`);
for all nonempty sets -/
theorem selRevT_collision (hs : Function.Injective score) {A B : Finset Item} (k : Nat)
    (hA : A.Nonempty) (hB : B.Nonempty) :
    selRevT tgt m bin score A k = selRevT tgt m bin score B k ↔
      selRevT tgt m bin score (A ∪ B) k ∈ A ∩ B :=
  CS.cs_collision (selRevScheme tgt m bin score hs) hA hB k

end Select

/-! ### the scheme of the model: items are 64-bit hashes `h`, with generator `gen h` -/
section Hashes
open DensP Race
variable {K G R : Type} [LinearOrder K]
variable (t : TOps K G R) (gen : Nat → G) (m : Nat)

/-- the reverse process populates bin `k` for the hash set `S` -/
def TermRevH (S : Finset Nat) (k : Nat) : Prop :=
  ∃ y, RevSel (tgtOf t.toOps m) m (viewOf t gen m S) k y

/-- the reverse process populates every bin -/
def TerminatesRevH (S : Finset Nat) : Prop := ∀ k, k < m → TermRevH t gen m S k

/-- **the final selection** of the reverse densification: the hash shown at position `k` of the
finished sketch of `S` (completed by the hash of smallest `(r, h)` if the reverse process never
populates `k`) -/
noncomputable def selRev (S : Finset Nat) (k : Nat) : Nat :=
  selRevT (tgtOf t.toOps m) m (binOf t gen m) (key t gen) S k

theorem selRev_eq {S : Finset Nat} {k y : Nat}
    (h : RevSel (tgtOf t.toOps m) m (viewOf t gen m S) k y) : selRev t gen m S k = y := by
  unfold selRev
  rw [selRevT_of_term _ _ _ _ ⟨y, h⟩]
  exact selRevG_eq _ _ _ _ h

/-- the selection scheme of the model -/
noncomputable def selRevSchemeH : CS.Scheme Nat Nat :=
  selRevScheme (tgtOf t.toOps m) m (binOf t gen m) (key t gen) (key_injective t gen)

theorem selRevSchemeH_c : (selRevSchemeH t gen m).c = selRev t gen m := rfl

/-- (M) -/
theorem selRev_mem {S : Finset Nat} {k : Nat} (h : TermRevH t gen m S k) :
    selRev t gen m S k ∈ S := by
  unfold selRev
  rw [selRevT_of_term _ _ _ _ h]
  exact selRevG_mem _ _ _ _ h

/-- (M) for every nonempty set -/
theorem selRev_mem' {S : Finset Nat} (k : Nat) (h : S.Nonempty) : selRev t gen m S k ∈ S :=
  (selRevSchemeH t gen m).mem S k h

/-- (R), with the termination for the subset derived -/
theorem selRev_restrict_term {S U : Finset Nat} (hSU : S ⊆ U) {k : Nat}
    (hU : TermRevH t gen m U k) (hin : selRev t gen m U k ∈ S) :
    TermRevH t gen m S k ∧ selRev t gen m S k = selRev t gen m U k := by
  unfold selRev at hin ⊢
  rw [selRevT_of_term _ _ _ _ hU] at hin ⊢
  obtain ⟨h1, h2⟩ := selRevG_restrict _ _ _ _ (key_injective t gen) hSU hU hin
  exact ⟨h1, by rw [selRevT_of_term _ _ _ _ h1, h2]⟩

/-- (R) -/
theorem selRev_restrict {S U : Finset Nat} (hSU : S ⊆ U) {k : Nat} (hU : TermRevH t gen m U k)
    (hin : selRev t gen m U k ∈ S) : selRev t gen m S k = selRev t gen m U k :=
  (selRev_restrict_term t gen m hSU hU hin).2

theorem termRev_mono {S U : Finset Nat} (hSU : S ⊆ U) {k : Nat} (h : TermRevH t gen m S k) :
    TermRevH t gen m U k := termRev_monoG _ _ _ _ hSU h

theorem termRevH_nonempty {S : Finset Nat} {k : Nat} (h : TermRevH t gen m S k) : S.Nonempty :=
  termRev_nonempty _ _ _ _ h

/-- collision ⇔ the hash selected for the union lies in the intersection -/
theorem selRev_collision {A B : Finset Nat} {k : Nat} (hA : TermRevH t gen m A k)
    (hB : TermRevH t gen m B k) :
    selRev t gen m A k = selRev t gen m B k ↔ selRev t gen m (A ∪ B) k ∈ A ∩ B :=
  selRevT_collision _ _ _ _ (key_injective t gen) k (termRevH_nonempty t gen m hA)
    (termRevH_nonempty t gen m hB)

end Hashes

/-! ## Part 4 — tie to the model -/
section Model
open DensP Race
variable {K G R : Type} [LinearOrder K]
variable (t : TOps K G R) (gen : Nat → G) (m : Nat)

/-- a bin of the finished sketch that holds the pair `RevSel` assigns to it shows `selRev` -/
theorem selects_of_revsel (large : K) (hn : Nice t m) (hr : ∀ g, (t.fr g).1 < large) (hs : List Nat)
    (s1 s' : Dens K) (e : stream t.toOps (Dens.new large m) (withGen gen hs) = .ok s1) (k : Nat)
    (h : ∃ y, RevSel (tgtOf t.toOps m) m (V0 large m s1) k y ∧ pair large s' k = y) :
    TermRevH t gen m hs.toFinset k ∧
    s'.values.getD k Dens.u64Max = selRev t gen m hs.toFinset k ∧
    s'.hsketch.getD k large = (t.fr (gen (selRev t gen m hs.toFinset k))).1 := by
  obtain ⟨_, hpop, hown⟩ := sketch_view t gen m large hn hr hs s1 e
  obtain ⟨y, hsel, hpair⟩ := h
  obtain ⟨h0, hsel0, hy⟩ := (revsel_map (tgtOf t.toOps m) (fun h => ofLex (key t gen h))
    (V := viewOf t gen m hs.toFinset) (W := V0 large m s1) (fun b => (hpop b).symm)
    (fun b hb => hown b hb)).mp hsel
  rw [selRev_eq t gen m hsel0]
  rw [hy] at hpair
  simp only [pair, key, ofLex_toLex, Prod.mk.injEq] at hpair
  exact ⟨⟨h0, hsel0⟩, hpair.2, hpair.1⟩

/-- **the finished sketch shows `selRev`**: stream `hs` (any order, any repetition) into a fresh
sketcher, finish with the reverse densification; if the run returns, position `k` holds the hash
`selRev hs.toFinset k` (and the `r` that hash drew), and the abstract reverse process populates `k`. -/
theorem finished_selects_rev (large : K) (hn : Nice t m) (hr : ∀ g, (t.fr g).1 < large)
    (hs : List Nat) (fuel : Nat) (s1 s' : Dens K)
    (e1 : stream t.toOps (Dens.new large m) (withGen gen hs) = .ok s1)
    (e2 : Dens.densifyRev t.toOps fuel 1 s1 = .ok s') (k : Nat) (hk : k < m) :
    TermRevH t gen m hs.toFinset k ∧
    s'.values.getD k Dens.u64Max = selRev t gen m hs.toFinset k ∧
    s'.hsketch.getD k large = (t.fr (gen (selRev t gen m hs.toFinset k))).1 := by
  have hinv := (sketch_view t gen m large hn hr hs s1 e1).1
  obtain ⟨b, _, hsel, hpair⟩ := densifyRev_revsel large m t.toOps fuel s1 s' hinv e2 k hk
  exact selects_of_revsel t gen m large hn hr hs s1 s' e1 k ⟨_, hsel, hpair⟩

/-- the same for `end_sketch` with the reverse densification (which skips `densify` when no bin is
empty) … -/
theorem endSketch_selects_rev (large : K) (hn : Nice t m) (hr : ∀ g, (t.fr g).1 < large)
    (hs : List Nat) (fuel : Nat) (s1 s' : Dens K)
    (e1 : stream t.toOps (Dens.new large m) (withGen gen hs) = .ok s1)
    (e2 : s1.endSketch t.toOps false fuel = .ok s') (k : Nat) (hk : k < m) :
    TermRevH t gen m hs.toFinset k ∧
    s'.values.getD k Dens.u64Max = selRev t gen m hs.toFinset k ∧
    s'.hsketch.getD k large = (t.fr (gen (selRev t gen m hs.toFinset k))).1 := by
  have hinv := (sketch_view t gen m large hn hr hs s1 e1).1
  by_cases hz : s1.nbEmpty = 0
  · have : s' = s1 := by unfold Dens.endSketch at e2; simp [hz] at e2; exact e2.symm
    subst this
    have hall := all_init_of_count s'.init (by rw [← hinv.2.2.2.1, hz]) k (by rw [hinv.2.2.1]; exact hk)
    exact selects_of_revsel t gen m large hn hr hs s' s' e1 k
      ⟨_, revsel_self (tgtOf t.toOps m) (V := V0 large m s') ⟨hk, hall⟩, rfl⟩
  · unfold Dens.endSketch at e2
    simp only [hz, if_false, Bool.false_eq_true] at e2
    cases hd : Dens.densifyRev t.toOps fuel 1 s1 with
    | error er => rw [hd] at e2; cases er <;> simp at e2
    | ok s2 =>
      rw [hd] at e2; injection e2 with e2; subst e2
      exact finished_selects_rev t gen m large hn hr hs fuel s1 _ e1 hd k hk

/-- … and for `sketch_slice` -/
theorem sketchSlice_selects_rev (large : K) (hn : Nice t m) (hr : ∀ g, (t.fr g).1 < large)
    (hs : List Nat) (fuel : Nat) (s' : Dens K)
    (e : (Dens.new large m).sketchSlice t.toOps false fuel (withGen gen hs) = .ok s')
    (k : Nat) (hk : k < m) :
    TermRevH t gen m hs.toFinset k ∧
    s'.values.getD k Dens.u64Max = selRev t gen m hs.toFinset k ∧
    s'.hsketch.getD k large = (t.fr (gen (selRev t gen m hs.toFinset k))).1 := by
  obtain ⟨inv0, sp0⟩ := new_inv (K := K) large m
  obtain ⟨s1, e1, inv1, _⟩ := stream_spec large m t hn hr (withGen gen hs) _ _ inv0 sp0
  have hnn : 0 ≤ s1.nbEmpty := by rw [inv1.2.2.2.1]; exact Int.natCast_nonneg _
  exact endSketch_selects_rev t gen m large hn hr hs fuel s1 s' e1
    ((sketchSlice_eq t.toOps false fuel _ s1 s' _ e1 hnn).mp e) k hk

/-- **collision of two finished sketches** (same `t`, `gen`, `m`; any streams for the hash sets
`A`, `B`; reverse densification): the sketches agree at position `k` iff the hash selected for
`A ∪ B` lies in `A ∩ B`. -/
theorem finished_collision_iff_rev (large : K) (hn : Nice t m) (hr : ∀ g, (t.fr g).1 < large)
    (ha hb : List Nat) (fuel fuel' : Nat) (a1 a' b1 b' : Dens K)
    (ea1 : stream t.toOps (Dens.new large m) (withGen gen ha) = .ok a1)
    (ea2 : Dens.densifyRev t.toOps fuel 1 a1 = .ok a')
    (eb1 : stream t.toOps (Dens.new large m) (withGen gen hb) = .ok b1)
    (eb2 : Dens.densifyRev t.toOps fuel' 1 b1 = .ok b') (k : Nat) (hk : k < m) :
    a'.values.getD k Dens.u64Max = b'.values.getD k Dens.u64Max ↔
      selRev t gen m (ha.toFinset ∪ hb.toFinset) k ∈ ha.toFinset ∩ hb.toFinset := by
  obtain ⟨ta, va, _⟩ := finished_selects_rev t gen m large hn hr ha fuel a1 a' ea1 ea2 k hk
  obtain ⟨tb, vb, _⟩ := finished_selects_rev t gen m large hn hr hb fuel' b1 b' eb1 eb2 k hk
  rw [va, vb]
  exact selRev_collision t gen m ta tb

/-- the same for two `sketch_slice` calls (reverse densification) on fresh sketchers -/
theorem sketchSlice_collision_iff_rev (large : K) (hn : Nice t m) (hr : ∀ g, (t.fr g).1 < large)
    (ha hb : List Nat) (fuel fuel' : Nat) (a' b' : Dens K)
    (ea : (Dens.new large m).sketchSlice t.toOps false fuel (withGen gen ha) = .ok a')
    (eb : (Dens.new large m).sketchSlice t.toOps false fuel' (withGen gen hb) = .ok b')
    (k : Nat) (hk : k < m) :
    a'.values.getD k Dens.u64Max = b'.values.getD k Dens.u64Max ↔
      selRev t gen m (ha.toFinset ∪ hb.toFinset) k ∈ ha.toFinset ∩ hb.toFinset := by
  obtain ⟨ta, va, _⟩ := sketchSlice_selects_rev t gen m large hn hr ha fuel a' ea k hk
  obtain ⟨tb, vb, _⟩ := sketchSlice_selects_rev t gen m large hn hr hb fuel' b' eb k hk
  rw [va, vb]
  exact selRev_collision t gen m ta tb

end Model

/-! ## Part 5 — the counting form -/

section Transport
variable {Item Item' V V' : Type} [Inhabited Item] [Inhabited Item'] [LinearOrder V] [LinearOrder V']
variable (tgt : Nat → Nat → Nat) (m : Nat) (bin : Item → Nat) (score : Item → V)
variable (bin' : Item' → Nat) (score' : Item' → V')

/-- **transport of the selection along a relabelling** `f` of the items that keeps the bins and the
order of the scores of bin-mates: the relabelled set selects the relabelled item. -/
theorem selRevG_map (f : Item ↪ Item') (S : Finset Item) (hs' : Function.Injective score')
    (hbin : ∀ d ∈ S, bin' (f d) = bin d)
    (hord : ∀ d ∈ S, ∀ d' ∈ S, bin d = bin d' → score d ≤ score d' → score' (f d) ≤ score' (f d'))
    {k : Nat} (hT : TermRev tgt m bin score S k) :
    TermRev tgt m bin' score' (S.map f) k ∧
    selRevG tgt m bin' score' (S.map f) k = f (selRevG tgt m bin score S k) := by
  have hpop : ∀ b, (viewG bin score S).pop b ↔ (viewG bin' score' (S.map f)).pop b := by
    intro b
    constructor
    · rintro ⟨d, hd, hb⟩
      exact ⟨f d, Finset.mem_map_of_mem f hd, by rw [hbin d hd, hb]⟩
    · rintro ⟨d', hd', hb⟩
      obtain ⟨d, hd, rfl⟩ := Finset.mem_map.mp hd'
      exact ⟨d, hd, by rw [← hbin d hd, hb]⟩
  have hown : ∀ b, (viewG bin score S).pop b →
      (viewG bin' score' (S.map f)).own b = f ((viewG bin score S).own b) := by
    intro b hp
    obtain ⟨h1, h2, h3⟩ := viewG_own_spec bin score hp
    apply viewG_own_eq bin' score' hs' (Finset.mem_map_of_mem f h1) (by rw [hbin _ h1, h2])
    intro d' hd' hb'
    obtain ⟨d, hd, rfl⟩ := Finset.mem_map.mp hd'
    rw [hbin d hd] at hb'
    exact hord _ h1 d hd (by rw [h2, hb']) (h3 d hd hb')
  obtain ⟨y, hy⟩ := hT
  have hy' : RevSel tgt m (viewG bin' score' (S.map f)) k (f y) :=
    (revsel_map tgt f hpop hown).mpr ⟨y, hy, rfl⟩
  exact ⟨⟨_, hy'⟩, by rw [selRevG_eq tgt m bin score hy, selRevG_eq tgt m bin' score' hy']⟩

end Transport

section Counting
open DensP Finset
variable {K G R : Type} [LinearOrder K]
variable (t : TOps K G R) (m : Nat)
variable (U : Finset Nat) (g0 : G)

/-- **equivariance of the selection**: relabelling the generators of the universe by `σ` relabels
the selected hash by `σ` — provided no two hashes of the universe drew the same `r` (ties are broken
by the hash itself, which is not exchangeable). -/
theorem selRev_equivariant (ω : ↥U → G) (hinj : Function.Injective (fun d : ↥U => (t.fr (ω d)).1))
    (σ : Equiv.Perm ↥U) {k : Nat} (hT : TermRevH t (extGen U g0 ω) m U k) :
    TermRevH t (extGen U g0 (ω ∘ ⇑σ.symm)) m U k ∧
    selRev t (extGen U g0 (ω ∘ ⇑σ.symm)) m U k
      = Equiv.Perm.ofSubtype σ (selRev t (extGen U g0 ω) m U k) := by
  have hgen : ∀ h ∈ U, extGen U g0 (ω ∘ ⇑σ.symm) (Equiv.Perm.ofSubtype σ h) = extGen U g0 ω h :=
    fun h hh => extGen_perm U g0 ω σ hh
  have h := selRevG_map (tgtOf t.toOps m) m (binOf t (extGen U g0 ω) m) (key t (extGen U g0 ω))
    (binOf t (extGen U g0 (ω ∘ ⇑σ.symm)) m) (key t (extGen U g0 (ω ∘ ⇑σ.symm)))
    (Equiv.Perm.ofSubtype σ).toEmbedding U (key_injective t _)
    (by
      intro d hd
      simp only [Equiv.coe_toEmbedding, binOf]
      rw [hgen d hd])
    (by
      intro d hd d' hd' _ hle
      simp only [Equiv.coe_toEmbedding, key] at hle ⊢
      rw [hgen d hd, hgen d' hd']
      rw [Prod.Lex.toLex_le_toLex] at hle ⊢
      rcases hle with hlt | ⟨heq, _⟩
      · exact Or.inl hlt
      · have hdd : (⟨d, hd⟩ : ↥U) = ⟨d', hd'⟩ := by
          apply hinj
          simpa only [extGen_coe U g0 ω ⟨d, hd⟩, extGen_coe U g0 ω ⟨d', hd'⟩] using heq
        have : d = d' := congrArg Subtype.val hdd
        subst this
        exact Or.inr ⟨rfl, le_refl _⟩)
    hT
  rw [map_ofSubtype_univ] at h
  have hT' : TermRevH t (extGen U g0 (ω ∘ ⇑σ.symm)) m U k := h.1
  refine ⟨hT', ?_⟩
  unfold selRev
  rw [selRevT_of_term _ _ _ _ hT', selRevT_of_term _ _ _ _ hT]
  exact h.2

/-- **C08 (reverse densification), counting form.**  Let `Ω` be a finite set of assignments of
generators to the hashes of `A ∪ B` that is closed under relabelling (`CS.PermClosed`: with the
counting measure on `Ω` the generators are an exchangeable family), tie-free in `r`, and such that
the reverse process populates bin `k` for `A` and `B`.  Then the number of assignments for which `A`
and `B` select the same hash at position `k`, times `|A ∪ B|`, is `|A ∩ B| · #Ω`: the collision
probability is exactly the Jaccard index. -/
theorem selRev_collision_count (A B : Finset Nat) (Ω : Finset (↥(A ∪ B) → G))
    (hΩ : CS.PermClosed Ω)
    (hinj : ∀ ω ∈ Ω, Function.Injective (fun d : ↥(A ∪ B) => (t.fr (ω d)).1)) (k : Nat)
    (hterm : ∀ ω ∈ Ω, TermRevH t (extGen (A ∪ B) g0 ω) m A k ∧
      TermRevH t (extGen (A ∪ B) g0 ω) m B k) :
    (Ω.filter (fun ω =>
        selRev t (extGen (A ∪ B) g0 ω) m A k = selRev t (extGen (A ∪ B) g0 ω) m B k)).card
        * (A ∪ B).card = (A ∩ B).card * Ω.card := by
  classical
  by_cases hne : Ω.Nonempty
  swap
  · rw [Finset.not_nonempty_iff_eq_empty.mp hne]; simp
  obtain ⟨ω0, hω0⟩ := hne
  obtain ⟨a0, ha0⟩ := termRevH_nonempty t _ m (hterm ω0 hω0).1
  have hU : ∀ ω ∈ Ω, TermRevH t (extGen (A ∪ B) g0 ω) m (A ∪ B) k :=
    fun ω hω => termRev_mono t _ m Finset.subset_union_left (hterm ω hω).1
  let d0 : ↥(A ∪ B) := ⟨a0, Finset.mem_union_left _ ha0⟩
  let selU : (↥(A ∪ B) → G) → ↥(A ∪ B) := fun ω =>
    if h : selRev t (extGen (A ∪ B) g0 ω) m (A ∪ B) k ∈ A ∪ B then ⟨_, h⟩ else d0
  have hselU : ∀ ω ∈ Ω, (selU ω : Nat) = selRev t (extGen (A ∪ B) g0 ω) m (A ∪ B) k := by
    intro ω hω
    have := selRev_mem t _ m (hU ω hω)
    simp only [selU, dif_pos this]
  have hequiv : ∀ ω ∈ Ω, ∀ σ : Equiv.Perm ↥(A ∪ B), selU (ω ∘ ⇑σ.symm) = σ (selU ω) := by
    intro ω hω σ
    apply Subtype.ext
    rw [hselU _ (hΩ ω hω σ), (selRev_equivariant t m (A ∪ B) g0 ω (hinj ω hω) σ (hU ω hω)).2,
      ← hselU ω hω, Equiv.Perm.ofSubtype_apply_coe]
  have hcount := CS.selected_uniform_gen Ω hΩ selU hequiv ((A ∩ B).subtype (· ∈ A ∪ B))
  have hI : ((A ∩ B).subtype (· ∈ A ∪ B)).card = (A ∩ B).card := by
    rw [Finset.card_subtype, Finset.filter_true_of_mem]
    intro x hx
    exact mem_union_left _ (mem_inter.mp hx).1
  rw [Fintype.card_coe, hI] at hcount
  rw [← hcount]
  congr 1
  refine congrArg Finset.card (Finset.filter_congr (fun ω hω => ?_))
  rw [selRev_collision t _ m (hterm ω hω).1 (hterm ω hω).2, Finset.mem_subtype, hselU ω hω]

/-- **C08 for the model, reverse densification.**  For every assignment `ω ∈ Ω` of generators to the
hashes of the two streams, let `sa ω`, `sb ω` be the finished sketches (sketch phase from a fresh
sketcher, then `densifyRev`, all runs returning).  If `Ω` is closed under relabelling and tie-free
in `r`, then `#{ω | (sa ω).values[k] = (sb ω).values[k]} · |A ∪ B| = |A ∩ B| · #Ω` at every position
`k < m`. -/
theorem finished_collision_count_rev (large : K) (hn : Nice t m) (hr : ∀ g, (t.fr g).1 < large)
    (la lb : List Nat) (Ω : Finset (↥(la.toFinset ∪ lb.toFinset) → G)) (hΩ : CS.PermClosed Ω)
    (hinj : ∀ ω ∈ Ω, Function.Injective (fun d : ↥(la.toFinset ∪ lb.toFinset) => (t.fr (ω d)).1))
    (fa fb : (↥(la.toFinset ∪ lb.toFinset) → G) → Nat)
    (a1 sa b1 sb : (↥(la.toFinset ∪ lb.toFinset) → G) → Dens K)
    (ea1 : ∀ ω ∈ Ω, stream t.toOps (Dens.new large m)
      (withGen (extGen (la.toFinset ∪ lb.toFinset) g0 ω) la) = .ok (a1 ω))
    (ea2 : ∀ ω ∈ Ω, Dens.densifyRev t.toOps (fa ω) 1 (a1 ω) = .ok (sa ω))
    (eb1 : ∀ ω ∈ Ω, stream t.toOps (Dens.new large m)
      (withGen (extGen (la.toFinset ∪ lb.toFinset) g0 ω) lb) = .ok (b1 ω))
    (eb2 : ∀ ω ∈ Ω, Dens.densifyRev t.toOps (fb ω) 1 (b1 ω) = .ok (sb ω))
    (k : Nat) (hk : k < m) :
    (Ω.filter (fun ω => (sa ω).values.getD k Dens.u64Max = (sb ω).values.getD k Dens.u64Max)).card
        * (la.toFinset ∪ lb.toFinset).card = (la.toFinset ∩ lb.toFinset).card * Ω.card := by
  have hA := fun ω hω => finished_selects_rev t (extGen (la.toFinset ∪ lb.toFinset) g0 ω) m large
    hn hr la (fa ω) (a1 ω) (sa ω) (ea1 ω hω) (ea2 ω hω) k hk
  have hB := fun ω hω => finished_selects_rev t (extGen (la.toFinset ∪ lb.toFinset) g0 ω) m large
    hn hr lb (fb ω) (b1 ω) (sb ω) (eb1 ω hω) (eb2 ω hω) k hk
  rw [← selRev_collision_count t m g0 la.toFinset lb.toFinset Ω hΩ hinj k
    (fun ω hω => ⟨(hA ω hω).1, (hB ω hω).1⟩)]
  congr 1
  refine congrArg Finset.card (Finset.filter_congr (fun ω hω => ?_))
  rw [(hA ω hω).2.1, (hB ω hω).2.1]

end Counting

/-! ## Part 6 — non-vacuity: an instance satisfying every hypothesis of the counting form -/

section Onto
open DensP
variable {K G R : Type} [LinearOrder K]
variable (t : TOps K G R) (m : Nat)

/-- if every bin is eventually targeted from every bin, the reverse process populates every bin
`< m` for every nonempty hash set (so the termination hypotheses of the counting form are
satisfiable for every `Ω`) -/
theorem termRevH_of_tgt_onto (gen : Nat → G) (hn : Nice t m)
    (honto : ∀ b k, b < m → k < m → ∃ p, 1 ≤ p ∧ tgtOf t.toOps m b p = k)
    {S : Finset Nat} (hS : S.Nonempty) : ∀ k, k < m → TermRevH t gen m S k := by
  obtain ⟨h0, hh0⟩ := hS
  have hp0 : (viewOf t gen m S).pop (binOf t gen m h0) := ⟨h0, hh0, rfl⟩
  intro k hk
  obtain ⟨p, hp, ht⟩ := honto (binOf t gen m h0) k (hn _) hk
  obtain ⟨y, hy⟩ := revsel_of_hit (tgtOf t.toOps m) (hn _) hp0 hp ht
  exact ⟨y, p, hy⟩

end Onto

section Example
open DensP Finset

/-- toy operations for the reverse densification: a generator is a pair `(r, bin) : Fin n × Fin m`;
the probing generator of `(bin k, pass p)` is the counter started at its seed, so the target is
`seed % m = (p + 253713) % m` -/
def exOpsRev (n m : Nat) : TOps Nat (Fin n × Fin m) Nat where
  fr g := (g.1.val, g)
  fk _ g := (g.2.val, g)
  mkRng seed := seed
  draw m' r := .ok (r % m', r + 1)

theorem exOpsRev_nice (n m : Nat) : Nice (exOpsRev n m) m := fun g => g.2.isLt

theorem exOpsRev_lt (n m : Nat) : ∀ g, ((exOpsRev n m).fr g).1 < n := fun g => g.1.isLt

theorem exOpsRev_drawT (n m r : Nat) : drawT (exOpsRev n m).toOps m r = (r % m, r + 1) :=
  drawT_of_ok rfl

theorem exOpsRev_tgt (n m k p : Nat) : tgtOf (exOpsRev n m).toOps m k p = (p + 253713) % m := by
  unfold tgtOf
  rw [exOpsRev_drawT]
  show ((k + 1) * m + p + 253713) % m = (p + 253713) % m
  rw [Nat.add_assoc, Nat.mul_add_mod_self_right]

theorem exOpsRev_onto (n m : Nat) :
    ∀ b k, b < m → k < m → ∃ p, 1 ≤ p ∧ p ≤ m * 253715 ∧
      tgtOf (exOpsRev n m).toOps m b p = k := by
  intro b k _ hk
  refine ⟨k + (m - 1) * 253713 + m, by omega, by omega, ?_⟩
  rw [exOpsRev_tgt]
  have : k + (m - 1) * 253713 + m + 253713 = k + m * 253714 := by omega
  rw [this, Nat.add_mul_mod_self_left, Nat.mod_eq_of_lt hk]

theorem exΩ_tiefree_rev (n m : Nat) (U : Finset Nat) :
    ∀ ω ∈ exΩ n m U, Function.Injective (fun d : ↥U => ((exOpsRev n m).fr (ω d)).1) := by
  intro ω hω a b h
  simp only [exΩ, mem_filter, mem_univ, true_and] at hω
  exact hω (Fin.val_injective h)

/-- the counting form holds for the toy operations, every pair of nonempty hash sets, every `n`,
`m` and every position `k < m`: no hypothesis is left -/
theorem ex_collision_count_rev (n m : Nat) (A B : Finset Nat) (hA : A.Nonempty) (hB : B.Nonempty)
    (g0 : Fin n × Fin m) (k : Nat) (hk : k < m) :
    ((exΩ n m (A ∪ B)).filter (fun ω =>
        selRev (exOpsRev n m) (extGen (A ∪ B) g0 ω) m A k
          = selRev (exOpsRev n m) (extGen (A ∪ B) g0 ω) m B k)).card
      * (A ∪ B).card = (A ∩ B).card * (exΩ n m (A ∪ B)).card :=
  selRev_collision_count (exOpsRev n m) m g0 A B (exΩ n m (A ∪ B)) (exΩ_closed n m _)
    (exΩ_tiefree_rev n m _) k
    (fun _ _ =>
      ⟨termRevH_of_tgt_onto (exOpsRev n m) m _ (exOpsRev_nice n m)
        (fun b k hb hk => (exOpsRev_onto n m b k hb hk).imp fun _ h => ⟨h.1, h.2.2⟩) hA k hk,
       termRevH_of_tgt_onto (exOpsRev n m) m _ (exOpsRev_nice n m)
        (fun b k hb hk => (exOpsRev_onto n m b k hb hk).imp fun _ h => ⟨h.1, h.2.2⟩) hB k hk⟩)

/-- … and the family of assignments is not empty (`DensSel.exΩ_nonempty`; so the statement is not
`0 = 0`), e.g. for `A = {0,1}`, `B = {1,2}`, three `r`-values and two bins: the collision
probability of the reverse-densified sketches is `1/3` at both positions. -/
theorem ex_collision_third_rev (g0 : Fin 3 × Fin 2) (k : Nat) (hk : k < 2) :
    ((exΩ 3 2 (({0, 1} : Finset Nat) ∪ {1, 2})).filter (fun ω =>
        selRev (exOpsRev 3 2) (extGen _ g0 ω) 2 {0, 1} k
          = selRev (exOpsRev 3 2) (extGen _ g0 ω) 2 {1, 2} k)).card * 3
      = (exΩ 3 2 (({0, 1} : Finset Nat) ∪ {1, 2})).card
    ∧ (exΩ 3 2 (({0, 1} : Finset Nat) ∪ {1, 2})).Nonempty := by
  have h := ex_collision_count_rev 3 2 {0, 1} {1, 2} (by decide) (by decide) g0 k hk
  have h1 : (({0, 1} : Finset Nat) ∪ {1, 2}).card = 3 := by decide
  have h2 : (({0, 1} : Finset Nat) ∩ {1, 2}).card = 1 := by decide
  rw [h1, h2, one_mul] at h
  exact ⟨h, exΩ_nonempty⟩

/-- the runs of the toy model return for every nonempty stream, every generator assignment and
every fuel `> m · 253715` — so the run hypotheses of `finished_collision_count_rev` are satisfiable
as well -/
theorem ex_runs_rev (n m : Nat) (gen : Nat → Fin n × Fin m) (hs : List Nat) (hne : hs ≠ [])
    (fuel : Nat) (hf : m * 253715 < fuel) :
    ∃ s1 s', stream (exOpsRev n m).toOps (Dens.new n m) (withGen gen hs) = .ok s1 ∧
      Dens.densifyRev (exOpsRev n m).toOps fuel 1 s1 = .ok s' := by
  obtain ⟨inv0, sp0⟩ := new_inv (K := Nat) n m
  obtain ⟨s1, e1, _, _⟩ := stream_spec n m (exOpsRev n m) (exOpsRev_nice n m) (exOpsRev_lt n m)
    (withGen gen hs) _ _ inv0 sp0
  obtain ⟨inv1, hpop, _⟩ := sketch_view (exOpsRev n m) gen m n (exOpsRev_nice n m)
    (exOpsRev_lt n m) hs s1 e1
  obtain ⟨h0, hh0⟩ := List.exists_mem_of_ne_nil hs hne
  have hp0 : (V0 n m s1).pop (binOf (exOpsRev n m) gen m h0) :=
    (hpop _).mpr ⟨h0, List.mem_toFinset.mpr hh0, rfl⟩
  have hm : 0 < m := Nat.lt_of_le_of_lt (Nat.zero_le _) hp0.1
  obtain ⟨s', e2⟩ := densifyRev_complete n m (exOpsRev n m).toOps fuel s1 inv1
    (fun r => ⟨_, rfl⟩)
    (fun r => by rw [exOpsRev_drawT]; exact Nat.mod_lt _ hm)
    ⟨_, hp0⟩
    (fun k hk => by
      obtain ⟨p, hp1, hp2, ht⟩ := exOpsRev_onto n m _ k hp0.1 hk
      exact ⟨p, by omega, revsel_of_hit _ hp0.1 hp0 hp1 ht⟩)
  exact ⟨s1, s', e1, e2⟩

end Example

end PMH.DensSelRev

import Mathlib.Order.Basic
import Mathlib.Order.Lattice
import Mathlib.Order.MinMax
import Mathlib.Data.Set.Basic
import Mathlib.Data.Set.Insert
import Mathlib.Logic.Function.Basic
/-!
# `Race`: extremum registers, and the specification "position p holds the minimum over all points that land on p"

A *point* is `(pos, val, tag)`.  A register file is `reg : ℕ → V`, `tag : ℕ → T` (only positions
`< m` matter).  `offer` lowers a register when the value is strictly smaller.  `Spec m top init P st`:
* every point of `P` is dominated (`st.reg pt.pos ≤ pt.val`),
* every position `< m` is either untouched (`top`, `init`) or attained by a point of `P`.
The registers satisfying `Spec` for a given `P` are unique (`spec_unique_reg`), and so are the tags when
no two points of `P` tie on a position with different tags (`spec_unique_tag`).
-/
namespace PMH.Race
variable {V T : Type} [LinearOrder V]

structure Pt (V T : Type) where
  pos : Nat
  val : V
  tag : T

structure St (V T : Type) where
  reg : Nat → V
  tag : Nat → T

def offer (s : St V T) (p : Pt V T) : St V T :=
  if p.val < s.reg p.pos then
    { reg := Function.update s.reg p.pos p.val, tag := Function.update s.tag p.pos p.tag }
  else s

def LB (P : Set (Pt V T)) (s : St V T) : Prop := ∀ pt ∈ P, s.reg pt.pos ≤ pt.val
/-- every position `< m` is untouched (`top`, `init`) or holds — strictly below `top` — a point of `P` -/
def Att (m : Nat) (top : V) (init : T) (P : Set (Pt V T)) (s : St V T) : Prop :=
  ∀ k, k < m → (s.reg k = top ∧ s.tag k = init) ∨
    (s.reg k < top ∧ ∃ pt ∈ P, pt.pos = k ∧ pt.val = s.reg k ∧ pt.tag = s.tag k)
def Spec (m : Nat) (top : V) (init : T) (P : Set (Pt V T)) (s : St V T) : Prop := LB P s ∧ Att m top init P s

theorem offer_reg_le (s : St V T) (p : Pt V T) (k : Nat) : (offer s p).reg k ≤ s.reg k := by
  unfold offer; split
  · by_cases h : k = p.pos
    · subst h; simp only [Function.update_self]; exact le_of_lt ‹_›
    · simp only [Function.update_of_ne h]; exact le_refl _
  · exact le_refl _

theorem offer_reg_pos (s : St V T) (p : Pt V T) : (offer s p).reg p.pos ≤ p.val := by
  unfold offer; split
  · simp only [Function.update_self]; exact le_refl _
  · exact not_lt.mp ‹_›

theorem offer_reg_other (s : St V T) (p : Pt V T) (k : Nat) (h : k ≠ p.pos) : (offer s p).reg k = s.reg k := by
  unfold offer; split
  · simp only [Function.update_of_ne h]
  · rfl

theorem spec_reg_le_top {m : Nat} {top : V} {init : T} {P : Set (Pt V T)} {s : St V T}
    (h : Spec m top init P s) (k : Nat) (hk : k < m) : s.reg k ≤ top := by
  rcases h.2 k hk with h0 | ⟨h1, _⟩
  · rw [h0.1]
  · exact le_of_lt h1

theorem spec_empty (m : Nat) (top : V) (init : T) : Spec m top init (∅ : Set (Pt V T)) ⟨fun _ => top, fun _ => init⟩ :=
  ⟨fun _ h => absurd h (Set.notMem_empty _), fun _ _ => Or.inl ⟨rfl, rfl⟩⟩

theorem spec_mono {m : Nat} {top : V} {init : T} {P Q : Set (Pt V T)} {s : St V T}
    (h : Spec m top init P s) (hPQ : P ⊆ Q) (hd : ∀ pt ∈ Q, pt ∉ P → s.reg pt.pos ≤ pt.val) : Spec m top init Q s := by
  obtain ⟨hl, ha⟩ := h
  refine ⟨fun pt hpt => ?_, fun k hk => ?_⟩
  · by_cases hp : pt ∈ P
    · exact hl pt hp
    · exact hd pt hpt hp
  · rcases ha k hk with h0 | ⟨hlt, pt, hpt, h1, h2, h3⟩
    · exact Or.inl h0
    · exact Or.inr ⟨hlt, pt, hPQ hpt, h1, h2, h3⟩

theorem spec_offer {m : Nat} {top : V} {init : T} {P : Set (Pt V T)} {s : St V T} (h : Spec m top init P s) (p : Pt V T) :
    Spec m top init (P ∪ {p}) (offer s p) := by
  have hle := spec_reg_le_top h
  obtain ⟨hl, ha⟩ := h
  refine ⟨?_, ?_⟩
  · intro pt hpt
    rcases hpt with hpt | hpt
    · exact le_trans (offer_reg_le s p _) (hl pt hpt)
    · rw [Set.mem_singleton_iff] at hpt; subst hpt; exact offer_reg_pos s pt
  · intro k hkm
    unfold offer; split
    · rename_i hlt
      by_cases hk : k = p.pos
      · right
        refine ⟨?_, p, Or.inr rfl, hk.symm, by subst hk; simp, by subst hk; simp⟩
        subst hk; simp only [Function.update_self]; exact lt_of_lt_of_le hlt (hle _ hkm)
      · rcases ha k hkm with h0 | ⟨hl', pt, hpt, h1, h2, h3⟩
        · left; simpa [Function.update_of_ne hk] using h0
        · right; exact ⟨by simpa [Function.update_of_ne hk] using hl', pt, Or.inl hpt, h1,
            by simpa [Function.update_of_ne hk] using h2, by simpa [Function.update_of_ne hk] using h3⟩
    · rcases ha k hkm with h0 | ⟨hl', pt, hpt, h1, h2, h3⟩
      · left; exact h0
      · right; exact ⟨hl', pt, Or.inl hpt, h1, h2, h3⟩

theorem spec_dominated {m : Nat} {top : V} {init : T} {P Q : Set (Pt V T)} {s : St V T} (h : Spec m top init P s)
    (hd : ∀ pt ∈ Q, s.reg pt.pos ≤ pt.val) : Spec m top init (P ∪ Q) s :=
  spec_mono h Set.subset_union_left (fun pt hpt hn => hd pt (hpt.resolve_left hn))

theorem spec_congr {m : Nat} {top : V} {init : T} {P Q : Set (Pt V T)} {s : St V T} (h : Spec m top init P s)
    (hPQ : P = Q) : Spec m top init Q s := hPQ ▸ h

/-- **registers are determined by the point set** -/
theorem spec_unique_reg {m : Nat} {top : V} {init : T} {P : Set (Pt V T)} {s s' : St V T}
    (h : Spec m top init P s) (h' : Spec m top init P s') :
    ∀ k, k < m → s.reg k = s'.reg k := by
  intro k hk
  have key : ∀ {a b : St V T}, Spec m top init P a → Spec m top init P b → a.reg k ≤ b.reg k := by
    intro a b ha hb
    rcases hb.2 k hk with h0 | ⟨_, pt, hpt, h1, h2, _⟩
    · rw [h0.1]; exact spec_reg_le_top ha k hk
    · rw [← h2, ← h1]; exact ha.1 pt hpt
  exact le_antisymm (key h h') (key h' h)

/-- no two points of `P` on one position carry the same value with different tags -/
def TieFree (P : Set (Pt V T)) : Prop :=
  ∀ p ∈ P, ∀ q ∈ P, p.pos = q.pos → p.val = q.val → p.tag = q.tag

/-- **under `TieFree` the tags are determined by the point set as well** -/
theorem spec_unique_tag {m : Nat} {top : V} {init : T} {P : Set (Pt V T)} {s s' : St V T}
    (htf : TieFree P) (h : Spec m top init P s) (h' : Spec m top init P s') :
    ∀ k, k < m → s.tag k = s'.tag k := by
  intro k hk
  have hreg := spec_unique_reg h h' k hk
  rcases h.2 k hk with h0 | ⟨hlt, pt, hpt, h1, h2, h3⟩
  · rcases h'.2 k hk with g0 | ⟨glt, _⟩
    · rw [h0.2, g0.2]
    · rw [← hreg, h0.1] at glt; exact absurd glt (lt_irrefl _)
  · rcases h'.2 k hk with g0 | ⟨_, qt, hqt, g1, g2, g3⟩
    · rw [hreg, g0.1] at hlt; exact absurd hlt (lt_irrefl _)
    · rw [← h3, ← g3]
      exact htf pt hpt qt hqt (by rw [h1, g1]) (by rw [h2, g2, hreg])

/-- a position below `top` holds the tag of a point of `P` that lands there with the register's value -/
theorem spec_tag_mem {m : Nat} {top : V} {init : T} {P : Set (Pt V T)} {s : St V T}
    (h : Spec m top init P s) (k : Nat) (hk : k < m) (hlt : s.reg k < top) :
    ∃ pt ∈ P, pt.pos = k ∧ pt.tag = s.tag k ∧ pt.val = s.reg k := by
  rcases h.2 k hk with h0 | ⟨_, pt, hpt, h1, h2, h3⟩
  · rw [h0.1] at hlt; exact absurd hlt (lt_irrefl _)
  · exact ⟨pt, hpt, h1, h3, h2⟩

/-- if some point of `P` lands on `k` below `top`, position `k` holds (the tag of) a point of `P` -/
theorem spec_populated {m : Nat} {top : V} {init : T} {P : Set (Pt V T)} {s : St V T}
    (h : Spec m top init P s) (k : Nat) (hk : k < m) (hex : ∃ p ∈ P, p.pos = k ∧ p.val < top) :
    s.reg k < top ∧ ∃ pt ∈ P, pt.pos = k ∧ pt.tag = s.tag k := by
  obtain ⟨p, hp, hpk, hpv⟩ := hex
  have : s.reg k < top := lt_of_le_of_lt (by rw [← hpk]; exact h.1 p hp) hpv
  obtain ⟨pt, hpt, h1, h2, _⟩ := spec_tag_mem h k hk this
  exact ⟨this, pt, hpt, h1, h2⟩

/-- position-wise: the register of a union is the min of the two registers -/
theorem spec_union {m : Nat} {top : V} {init : T} {P Q : Set (Pt V T)} {a b u : St V T}
    (ha : Spec m top init P a) (hb : Spec m top init Q b) (hu : Spec m top init (P ∪ Q) u) :
    ∀ k, k < m → u.reg k = min (a.reg k) (b.reg k) := by
  intro k hk
  apply le_antisymm
  · apply le_min
    · rcases ha.2 k hk with h0 | ⟨_, pt, hpt, h1, h2, _⟩
      · rw [h0.1]; exact spec_reg_le_top hu k hk
      · rw [← h2, ← h1]; exact hu.1 pt (Or.inl hpt)
    · rcases hb.2 k hk with h0 | ⟨_, pt, hpt, h1, h2, _⟩
      · rw [h0.1]; exact spec_reg_le_top hu k hk
      · rw [← h2, ← h1]; exact hu.1 pt (Or.inr hpt)
  · rcases hu.2 k hk with g0 | ⟨_, qt, hqt, g1, g2, _⟩
    · rw [g0.1]; exact min_le_of_left_le (spec_reg_le_top ha k hk)
    · rw [← g2]
      rcases hqt with hq | hq
      · exact min_le_of_left_le (by rw [← g1]; exact ha.1 qt hq)
      · exact min_le_of_right_le (by rw [← g1]; exact hb.1 qt hq)

/-- … and (tie-free) its tag is the tag of one of the two, together with its register -/
theorem spec_union_tag {m : Nat} {top : V} {init : T} {P Q : Set (Pt V T)} {a b u : St V T}
    (htf : TieFree (P ∪ Q))
    (ha : Spec m top init P a) (hb : Spec m top init Q b) (hu : Spec m top init (P ∪ Q) u) :
    ∀ k, k < m → (u.tag k = a.tag k ∧ u.reg k = a.reg k) ∨ (u.tag k = b.tag k ∧ u.reg k = b.reg k) := by
  intro k hk
  have hmin := spec_union ha hb hu k hk
  rcases hu.2 k hk with g0 | ⟨glt, qt, hqt, g1, g2, g3⟩
  · -- untouched in the union: untouched in both
    left
    have hle : u.reg k ≤ a.reg k := by rw [hmin]; exact min_le_left _ _
    have haeq : a.reg k = top := le_antisymm (spec_reg_le_top ha k hk) (by rw [← g0.1]; exact hle)
    rcases ha.2 k hk with h0 | ⟨hlt, _⟩
    · exact ⟨by rw [g0.2, h0.2], by rw [g0.1, h0.1]⟩
    · rw [haeq] at hlt; exact absurd hlt (lt_irrefl _)
  · have side : ∀ {R : Set (Pt V T)} {c : St V T}, R ⊆ P ∪ Q → Spec m top init R c → qt ∈ R → u.reg k ≤ c.reg k →
        u.tag k = c.tag k ∧ u.reg k = c.reg k := by
      intro R c hR hc hq hle
      have h1 : c.reg k ≤ qt.val := by rw [← g1]; exact hc.1 qt hq
      have heq : c.reg k = u.reg k := le_antisymm (by rw [← g2]; exact h1) hle
      have hclt : c.reg k < top := by rw [heq]; exact glt
      obtain ⟨pt, hpt, p1, p2, p3⟩ := spec_tag_mem hc k hk hclt
      refine ⟨?_, heq.symm⟩
      rw [← g3, ← p2]
      exact htf qt hqt pt (hR hpt) (by rw [g1, p1]) (by rw [g2, p3, heq])
    rcases hqt with hq | hq
    · exact Or.inl (side Set.subset_union_left ha hq (by rw [hmin]; exact min_le_left _ _))
    · exact Or.inr (side Set.subset_union_right hb hq (by rw [hmin]; exact min_le_right _ _))

/-! ### histories: a sketcher whose single step refines `Spec` refines it along every operation list -/
section History
variable {S G ε : Type}

/-- run a list of items through a fallible step function -/
def runList (step : S → G → Except ε S) : S → List G → Except ε S
  | s, [] => .ok s
  | s, g :: gs => match step s g with | .ok s' => runList step s' gs | .error e => .error e

/-- union of the items' point sets -/
def listPts (pts : G → Set (Pt V T)) (gs : List G) : Set (Pt V T) := {p | ∃ g ∈ gs, p ∈ pts g}

theorem listPts_congr (pts : G → Set (Pt V T)) {gs gs' : List G} (h : ∀ g, g ∈ gs ↔ g ∈ gs') :
    listPts pts gs = listPts pts gs' := by
  ext p; simp only [listPts, Set.mem_setOf_eq]
  constructor
  · rintro ⟨g, hg, hp⟩; exact ⟨g, (h g).mp hg, hp⟩
  · rintro ⟨g, hg, hp⟩; exact ⟨g, (h g).mpr hg, hp⟩

theorem runList_spec {m : Nat} {top : V} {init : T} (step : S → G → Except ε S) (WF : S → Prop) (view : S → St V T)
    (pts : G → Set (Pt V T))
    (hstep : ∀ s g s' P, WF s → Spec m top init P (view s) → step s g = .ok s' →
      WF s' ∧ Spec m top init (P ∪ pts g) (view s')) :
    ∀ (gs : List G) (s s' : S) (P : Set (Pt V T)), WF s → Spec m top init P (view s) →
      runList step s gs = .ok s' → WF s' ∧ Spec m top init (P ∪ listPts pts gs) (view s') := by
  intro gs
  induction gs with
  | nil =>
    intro s s' P hwf hs e
    simp only [runList] at e; injection e with e; subst e
    refine ⟨hwf, spec_congr hs ?_⟩
    ext p; simp [listPts]
  | cons g gs ih =>
    intro s s' P hwf hs e
    simp only [runList] at e
    cases h1 : step s g with
    | error er => rw [h1] at e; simp at e
    | ok s1 =>
      rw [h1] at e
      obtain ⟨wf1, sp1⟩ := hstep s g s1 P hwf hs h1
      obtain ⟨wf', sp'⟩ := ih s1 s' _ wf1 sp1 e
      refine ⟨wf', spec_congr sp' ?_⟩
      ext p; simp only [listPts, Set.mem_union, Set.mem_setOf_eq, List.mem_cons]
      constructor
      · rintro ((hp | hp) | ⟨x, hx, hp⟩)
        · exact Or.inl hp
        · exact Or.inr ⟨g, Or.inl rfl, hp⟩
        · exact Or.inr ⟨x, Or.inr hx, hp⟩
      · rintro (hp | ⟨x, hx | hx, hp⟩)
        · exact Or.inl (Or.inl hp)
        · subst hx; exact Or.inl (Or.inr hp)
        · exact Or.inr ⟨x, hx, hp⟩

/-- position-wise, the registers of a union of families are the minimum of the members' registers -/
theorem spec_family_min {m : Nat} {top : V} {init : T} {ι : Type} (Pf : ι → Set (Pt V T)) (sf : ι → St V T)
    (u : St V T) (I : Set ι) (hne : I.Nonempty)
    (hu : Spec m top init {p | ∃ i ∈ I, p ∈ Pf i} u) (hs : ∀ i ∈ I, Spec m top init (Pf i) (sf i)) :
    ∀ k, k < m → (∀ i ∈ I, u.reg k ≤ (sf i).reg k) ∧ ∃ i ∈ I, u.reg k = (sf i).reg k := by
  intro k hk
  have hle : ∀ i ∈ I, u.reg k ≤ (sf i).reg k := by
    intro i hi
    rcases (hs i hi).2 k hk with h0 | ⟨_, pt, hpt, h1, h2, _⟩
    · rw [h0.1]; exact spec_reg_le_top hu k hk
    · rw [← h2, ← h1]; exact hu.1 pt ⟨i, hi, hpt⟩
  refine ⟨hle, ?_⟩
  rcases hu.2 k hk with g0 | ⟨_, qt, ⟨i, hi, hq⟩, g1, g2, _⟩
  · obtain ⟨i, hi⟩ := hne
    exact ⟨i, hi, le_antisymm (hle i hi) (by rw [g0.1]; exact spec_reg_le_top (hs i hi) k hk)⟩
  · refine ⟨i, hi, le_antisymm (hle i hi) ?_⟩
    rw [← g2, ← g1]; exact (hs i hi).1 qt hq
end History

/-! ### early-exit loop over one item's monotone stream (ProbMinHash3 shape) -/
section Loop
variable (qmax : St V T → V) (pt : Nat → Pt V T) (L : Nat → V)

/-- offer `pt i` while its value is below `qmax`; stop as soon as the lower bound `L i` of everything
still to come reaches `qmax` -/
def loop : Nat → St V T → Nat → Option (St V T)
  | 0, _, _ => none
  | f+1, s, i =>
    if (pt i).val < qmax s then
      let s' := offer s (pt i)
      if qmax s' ≤ L i then some s' else loop f s' (i+1)
    else some s

theorem loop_spec {m : Nat} {top : V} {init : T}
    (hq : ∀ s k, k < m → s.reg k ≤ qmax s)
    (hpos : ∀ i, (pt i).pos < m)
    (hwf1 : ∀ i, (pt i).val ≤ L i) (hwf2 : ∀ i, L i ≤ (pt (i+1)).val) :
    ∀ (fuel : Nat) (s : St V T) (i : Nat) (P : Set (Pt V T)) (s' : St V T),
      loop qmax pt L fuel s i = some s' → Spec m top init P s →
      (∀ j, j < i → s.reg (pt j).pos ≤ (pt j).val) →
      Spec m top init (P ∪ Set.range pt) s' := by
  have mono : ∀ i j, i ≤ j → (pt i).val ≤ (pt j).val := by
    intro i j hij
    induction hij with
    | refl => exact le_refl _
    | step _ ih => exact le_trans ih (le_trans (hwf1 _) (hwf2 _))
  intro fuel
  induction fuel with
  | zero => intro s i P s' h; simp [loop] at h
  | succ f ih =>
    intro s i P s' h hs hlt
    simp only [loop] at h
    split at h
    · split at h
      · rename_i hstop
        injection h with h; subst h
        have hs1 := spec_offer hs (pt i)
        refine spec_mono hs1 ?_ ?_
        · intro p hp
          rcases hp with hp | hp
          · exact Or.inl hp
          · rw [Set.mem_singleton_iff] at hp; exact Or.inr ⟨i, hp.symm⟩
        · intro p hp _
          rcases hp with hp | ⟨j, rfl⟩
          · exact hs1.1 p (Or.inl hp)
          · rcases Nat.lt_trichotomy j i with hj | hj | hj
            · exact le_trans (offer_reg_le s (pt i) _) (hlt j hj)
            · subst hj; exact offer_reg_pos s (pt j)
            · have : L i ≤ (pt j).val := le_trans (hwf2 i) (mono (i+1) j hj)
              exact le_trans (hq _ _ (hpos j)) (le_trans hstop this)
      · have hs1 := spec_offer hs (pt i)
        have := ih (offer s (pt i)) (i+1) (P ∪ {pt i}) s' h hs1 (by
          intro j hj
          rcases Nat.lt_succ_iff_lt_or_eq.mp hj with hj | hj
          · exact le_trans (offer_reg_le s (pt i) _) (hlt j hj)
          · subst hj; exact offer_reg_pos s (pt j))
        refine spec_congr this ?_
        ext p; constructor
        · rintro ((hp | hp) | hp)
          · exact Or.inl hp
          · rw [Set.mem_singleton_iff] at hp; exact Or.inr ⟨i, hp.symm⟩
          · exact Or.inr hp
        · rintro (hp | hp)
          · exact Or.inl (Or.inl hp)
          · exact Or.inr hp
    · rename_i hge
      injection h with h; subst h
      have hge : qmax s ≤ (pt i).val := not_lt.mp hge
      exact spec_dominated hs (by
        rintro _ ⟨j, rfl⟩
        rcases Nat.lt_or_ge j i with hj | hj
        · exact hlt j hj
        · exact le_trans (hq _ _ (hpos j)) (le_trans hge (mono i j hj)))
end Loop

end PMH.Race

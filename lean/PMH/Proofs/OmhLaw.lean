import PMH.Props.C10
import Mathlib.Data.Fintype.Perm
import Mathlib.Data.Fintype.EquivFin
import Mathlib.Logic.Equiv.Fin.Basic
import Mathlib.Algebra.Order.Field.Rat
import Mathlib.Data.Rat.Cast.Order
import Mathlib.Algebra.BigOperators.Group.Finset.Sigma
/-!
# `OmhLaw`: the ranking of the labels induced by exchangeable tie-free slot values is uniform, hence
the collision probability of ProbOrdMinHash2 at a slot is the order-min-hash probability (C10)

Labels = `(element hash, occurrence number)` pairs of sequence `A` or `B` (`Lab A B`); a generator assignment
`ω : Lab A B → G`; `Ω` a relabelling-closed (`CS.PermClosed`) finite family of assignments (finite exchangeability).

* Part 1: `rankFn`/`rankOf` — the ranking `L ≃ Fin |L|` induced by a tie-free score; `rank_equivariant`.
* Part 2: `Equiv.Perm L` acts simply transitively on rankings (`rankAction_pretransitive`, `rankAction_free`);
  `ranking_uniform`: every ranking is induced by exactly `#Ω / |L|!` assignments.
* Part 3: `blockL_order_congr` — the order-min-hash selection (`C10.omhBlock`) depends on the values only through
  the order they induce on the labels of the sequence.
* Part 4: `OmhEvent` (the order-min-hash event of a ranking), `collision_iff_omhEvent`, `omh_collision_count`;
  `omhEvent_iff_lowest` (plain-words reading: positions of the `l` lowest-ranked labels, in sequence order).
* Part 5: the model: `withGen t L g0 ω` (random source with per-label generators `ω`), `labVal_equivariant`,
  `model_collision_count_gen`, `model_collision_count`, `model_collision_count_tieFree`, `model_expected_matches`.
* Parts 6, 7: non-vacuity, abstract and through `OrdMH.hashSet`: `A = [1,2,3]`, `B = [2,1,3]`, `l = 2`: `4` of `6`.
-/
namespace PMH.OmhLaw
open PMH PMH.OrdP Finset

/-! ## Part 1 — the ranking induced by a score function -/
section Rank
variable {L K : Type} [Fintype L] [LinearOrder K]

/-- rank of `x` under the score `v`: the number of items of strictly smaller score -/
def rankFn (v : L → K) (x : L) : Fin (Fintype.card L) :=
  ⟨(univ.filter (fun y => v y < v x)).card, by
    rw [← Finset.card_univ]
    apply Finset.card_lt_card
    refine ⟨Finset.filter_subset _ _, fun h => ?_⟩
    have := h (Finset.mem_univ x)
    simp at this⟩

theorem rankFn_val (v : L → K) (x : L) : (rankFn v x).val = (univ.filter (fun y => v y < v x)).card := rfl

/-- the rank is an order embedding of the scores (no tie-freeness needed) -/
theorem rankFn_le_iff (v : L → K) (x y : L) : rankFn v x ≤ rankFn v y ↔ v x ≤ v y := by
  rw [Fin.le_def, rankFn_val, rankFn_val]
  constructor
  · intro h
    by_contra hlt
    rw [not_le] at hlt
    have : (univ.filter (fun z => v z < v y)).card < (univ.filter (fun z => v z < v x)).card := by
      apply Finset.card_lt_card
      refine ⟨fun z hz => ?_, fun hs => ?_⟩
      · simp only [mem_filter, mem_univ, true_and] at hz ⊢
        exact lt_trans hz hlt
      · have := hs (mem_filter.mpr ⟨mem_univ y, hlt⟩)
        simp at this
    omega
  · intro h
    apply Finset.card_le_card
    intro z hz
    simp only [mem_filter, mem_univ, true_and] at hz ⊢
    exact lt_of_lt_of_le hz h

theorem rankFn_lt_iff (v : L → K) (x y : L) : rankFn v x < rankFn v y ↔ v x < v y := by
  rw [← not_le, ← not_le, rankFn_le_iff]

theorem rankFn_injective (v : L → K) (hv : Function.Injective v) : Function.Injective (rankFn v) := by
  intro x y h
  apply hv
  exact le_antisymm ((rankFn_le_iff v x y).mp (le_of_eq h)) ((rankFn_le_iff v y x).mp (le_of_eq h.symm))

theorem rankFn_bijective (v : L → K) (hv : Function.Injective v) : Function.Bijective (rankFn v) :=
  (Fintype.bijective_iff_injective_and_card _).mpr ⟨rankFn_injective v hv, by simp⟩

/-- the rank function of a relabelled score -/
theorem rankFn_comp_symm (v : L → K) (σ : Equiv.Perm L) (x : L) :
    rankFn (v ∘ ⇑σ.symm) x = rankFn v (σ.symm x) := by
  apply Fin.ext
  rw [rankFn_val, rankFn_val]
  apply Finset.card_bij (fun y _ => σ.symm y)
  · intro y hy
    simpa using hy
  · intro a _ b _ h
    exact σ.symm.injective h
  · intro z hz
    refine ⟨σ z, ?_, by simp⟩
    simpa using hz

/-- the RANKING induced by a score: the bijection `L ≃ Fin |L|` sending an item to its rank (for a score with ties: an
arbitrary bijection, never used below) -/
noncomputable def rankOf (v : L → K) : L ≃ Fin (Fintype.card L) := by
  classical
  exact if h : Function.Injective v then Equiv.ofBijective (rankFn v) (rankFn_bijective v h) else Fintype.equivFin L

theorem rankOf_apply (v : L → K) (hv : Function.Injective v) (x : L) : rankOf v x = rankFn v x := by
  unfold rankOf
  rw [dif_pos hv]
  rfl

/-- relabelling the score by `σ` permutes the ranking: the item `σ x` gets the rank `x` had -/
theorem rankOf_comp_symm (v : L → K) (hv : Function.Injective v) (σ : Equiv.Perm L) :
    rankOf (v ∘ ⇑σ.symm) = σ.symm.trans (rankOf v) := by
  ext x
  rw [rankOf_apply _ (hv.comp σ.symm.injective), Equiv.trans_apply, rankOf_apply _ hv, rankFn_comp_symm]

variable {G : Type}

/-- **(1) `rank_equivariant`**: for an equivariant tie-free score, relabelling the generator assignment `ω` by a
permutation `σ` of the labels permutes the induced ranking accordingly -/
theorem rank_equivariant (sc : (L → G) → L → K) (ω : L → G) (σ : Equiv.Perm L)
    (hequiv : ∀ x, sc (ω ∘ ⇑σ.symm) (σ x) = sc ω x) (hinj : Function.Injective (sc ω)) :
    rankOf (sc (ω ∘ ⇑σ.symm)) = σ.symm.trans (rankOf (sc ω)) := by
  have : sc (ω ∘ ⇑σ.symm) = sc ω ∘ ⇑σ.symm := by
    funext y
    have := hequiv (σ.symm y)
    rw [Equiv.apply_symm_apply] at this
    exact this
  rw [this]
  exact rankOf_comp_symm _ hinj σ

/-- pointwise form: `rank_{σ·ω} (σ x) = rank_ω x` -/
theorem rank_equivariant_apply (sc : (L → G) → L → K) (ω : L → G) (σ : Equiv.Perm L)
    (hequiv : ∀ x, sc (ω ∘ ⇑σ.symm) (σ x) = sc ω x) (hinj : Function.Injective (sc ω)) (x : L) :
    rankOf (sc (ω ∘ ⇑σ.symm)) (σ x) = rankOf (sc ω) x := by
  rw [rank_equivariant sc ω σ hequiv hinj]
  simp

end Rank

/-! ## Part 2 — the symmetric group acts simply transitively on rankings; uniformity -/
section Uniform
variable {L : Type} [Fintype L]

/-- relabelling action on rankings: `(σ • ρ) (σ x) = ρ x` -/
@[reducible] def rankAction : MulAction (Equiv.Perm L) (L ≃ Fin (Fintype.card L)) where
  smul σ ρ := σ.symm.trans ρ
  one_smul _ := by ext; rfl
  mul_smul _ _ _ := by ext; rfl

theorem rankAction_smul (σ : Equiv.Perm L) (ρ : L ≃ Fin (Fintype.card L)) :
    (letI := rankAction (L := L); σ • ρ) = σ.symm.trans ρ := rfl

theorem rankAction_pretransitive :
    letI := rankAction (L := L); MulAction.IsPretransitive (Equiv.Perm L) (L ≃ Fin (Fintype.card L)) := by
  let _ := rankAction (L := L)
  refine ⟨fun ρ ρ' => ⟨ρ.trans ρ'.symm, ?_⟩⟩
  change (ρ.trans ρ'.symm).symm.trans ρ = ρ'
  ext x
  simp

/-- the action is free: only the identity fixes a ranking -/
theorem rankAction_free (σ : Equiv.Perm L) (ρ : L ≃ Fin (Fintype.card L)) (h : σ.symm.trans ρ = ρ) : σ = 1 := by
  ext x
  have := congrArg (fun e : L ≃ Fin (Fintype.card L) => e (σ x)) h
  simp only [Equiv.trans_apply, Equiv.symm_apply_apply] at this
  exact (ρ.injective this).symm

variable [DecidableEq L] {Rnd X : Type}
set_option linter.unusedSectionVars false

/-- generic orbit count over a permutation-closed family of assignments (generalises `CS.selected_uniform_gen`) -/
theorem uniform_gen [Fintype X] [DecidableEq X] [MulAction (Equiv.Perm L) X] [MulAction.IsPretransitive (Equiv.Perm L) X]
    (Ω : Finset (L → Rnd)) (hΩ : CS.PermClosed Ω) (f : (L → Rnd) → X)
    (hf : ∀ r ∈ Ω, ∀ σ : Equiv.Perm L, f (r ∘ ⇑σ.symm) = σ • f r) (T : Finset X) :
    (Ω.filter (fun r => f r ∈ T)).card * Fintype.card X = T.card * Ω.card := by
  let _ := CS.permAction Ω hΩ
  have h := C10.ranking_uniform_tool (Gp := Equiv.Perm L) (fun ω : ↥Ω => f ω.1) (fun σ ω => hf ω.1 ω.2 σ) T
  rw [Fintype.card_coe] at h
  rw [← h]
  congr 1
  apply Finset.card_bij (fun r hr => (⟨r, (mem_filter.mp hr).1⟩ : ↥Ω))
  · intro r hr
    simpa using (mem_filter.mp hr).2
  · intro a _ b _ hab
    exact congrArg Subtype.val hab
  · intro ω hω
    exact ⟨ω.1, mem_filter.mpr ⟨ω.2, (mem_filter.mp hω).2⟩, rfl⟩

variable {K G : Type} [LinearOrder K]

/-- the induced ranking is uniform: `P(rankOf ∈ T) = |T| / |L|!` -/
theorem ranking_uniform_set (Ω : Finset (L → G)) (hΩ : CS.PermClosed Ω) (sc : (L → G) → L → K)
    (hequiv : ∀ ω ∈ Ω, ∀ (σ : Equiv.Perm L) (x : L), sc (ω ∘ ⇑σ.symm) (σ x) = sc ω x)
    (hinj : ∀ ω ∈ Ω, Function.Injective (sc ω)) (T : Finset (L ≃ Fin (Fintype.card L))) :
    (Ω.filter (fun ω => rankOf (sc ω) ∈ T)).card * (Fintype.card L).factorial = T.card * Ω.card := by
  let _ := rankAction (L := L)
  have := rankAction_pretransitive (L := L)
  have h := uniform_gen Ω hΩ (fun ω => rankOf (sc ω))
    (fun ω hω σ => rank_equivariant sc ω σ (hequiv ω hω σ) (hinj ω hω)) T
  rwa [Fintype.card_equiv (Fintype.equivFin L)] at h

/-- **(2) `ranking_uniform`**: every ranking `ρ` of the labels is induced by exactly `#Ω / |L|!` assignments -/
theorem ranking_uniform (Ω : Finset (L → G)) (hΩ : CS.PermClosed Ω) (sc : (L → G) → L → K)
    (hequiv : ∀ ω ∈ Ω, ∀ (σ : Equiv.Perm L) (x : L), sc (ω ∘ ⇑σ.symm) (σ x) = sc ω x)
    (hinj : ∀ ω ∈ Ω, Function.Injective (sc ω)) (ρ : L ≃ Fin (Fintype.card L)) :
    (Ω.filter (fun ω => rankOf (sc ω) = ρ)).card * (Fintype.card L).factorial = Ω.card := by
  have h := ranking_uniform_set Ω hΩ sc hequiv hinj {ρ}
  simpa using h

end Uniform

/-! ## Part 3 — the order-min-hash selection depends on the values only through their order -/
section Order
variable {Λ K K' : Type} [LinearOrder K] [LinearOrder K']

theorem takeWhile_congr_mem {α : Type} (p q : α → Bool) : ∀ (S : List α), (∀ x ∈ S, p x = q x) →
    S.takeWhile p = S.takeWhile q ∧ S.dropWhile p = S.dropWhile q := by
  intro S
  induction S with
  | nil => intro _; exact ⟨rfl, rfl⟩
  | cons a S ih =>
    intro h
    have ha := h a (List.mem_cons_self)
    obtain ⟨h1, h2⟩ := ih (fun x hx => h x (List.mem_cons_of_mem _ hx))
    rw [List.takeWhile_cons, List.takeWhile_cons, List.dropWhile_cons, List.dropWhile_cons, ha, h1, h2]
    exact ⟨rfl, rfl⟩

/-- the stable sort of a keyed list is a relabelling-independent rearrangement: two key functions inducing the
same preorder on the entries sort them the same way -/
theorem ssort_order_congr (val : Λ → K) (val' : Λ → K') : ∀ (Z : List (Λ × Nat)),
    (∀ p ∈ Z, ∀ q ∈ Z, val p.1 ≤ val q.1 ↔ val' p.1 ≤ val' q.1) →
    ∃ S : List (Λ × Nat), (∀ x ∈ S, x ∈ Z) ∧
      ssort (Z.map (fun p => (val p.1, p.2))) = S.map (fun p => (val p.1, p.2)) ∧
      ssort (Z.map (fun p => (val' p.1, p.2))) = S.map (fun p => (val' p.1, p.2)) := by
  intro Z
  induction Z using List.reverseRecOn with
  | nil => intro _; exact ⟨[], fun _ h => h, rfl, rfl⟩
  | append_singleton Z p ih =>
    intro h
    obtain ⟨S, hS, h1, h2⟩ := ih (fun a ha b hb => h a (List.mem_append_left _ ha) b (List.mem_append_left _ hb))
    have hp : p ∈ Z ++ [p] := List.mem_append_right _ (List.mem_singleton.mpr rfl)
    have hcongr := takeWhile_congr_mem (fun q : Λ × Nat => decide (val q.1 ≤ val p.1))
      (fun q : Λ × Nat => decide (val' q.1 ≤ val' p.1)) S
      (fun x hx => by
        have := h x (List.mem_append_left _ (hS x hx)) p hp
        exact decide_eq_decide.mpr this)
    refine ⟨S.takeWhile (fun q => decide (val q.1 ≤ val p.1)) ++ p :: S.dropWhile (fun q => decide (val q.1 ≤ val p.1)),
      ?_, ?_, ?_⟩
    · intro x hx
      rcases List.mem_append.mp hx with hx | hx
      · exact List.mem_append_left _ (hS x ((List.takeWhile_sublist _).subset hx))
      · rcases List.mem_cons.mp hx with rfl | hx
        · exact hp
        · exact List.mem_append_left _ (hS x ((List.dropWhile_sublist _).subset hx))
    · rw [List.map_append, List.map_singleton, ssort_append_singleton, h1]
      unfold insLast
      rw [List.takeWhile_map, List.dropWhile_map, List.map_append, List.map_cons]
      rfl
    · rw [List.map_append, List.map_singleton, ssort_append_singleton, h2]
      unfold insLast
      rw [List.takeWhile_map, List.dropWhile_map, hcongr.1, hcongr.2, List.map_append, List.map_cons]
      rfl

/-- order-min-hash selection of a labelled sequence `Ls` under the value function `val` (`C10.omhBlock` for an
arbitrary label type) -/
def blockL (top : K) (l : Nat) (val : Λ → K) (Ls : List Λ) : List Nat :=
  OrdMH.sortBlock ((lSmallest top l ((Ls.zipIdx 0).map (fun p => (val p.1, p.2)))).map (·.2))

theorem omhBlock_eq_blockL (top : K) (l : Nat) (val : UInt64 × Nat → K) (hs : List UInt64) :
    C10.omhBlock top l val hs = blockL top l val (labels hs) := rfl

theorem fst_mem_of_mem_zipIdx {α : Type} (Ls : List α) (p : α × Nat) (hp : p ∈ Ls.zipIdx 0) : p.1 ∈ Ls := by
  have : (p.1, p.2) ∈ Ls.zipIdx := hp
  exact List.mem_of_getElem? (List.mem_zipIdx_iff_getElem?.mp this)

/-- with all values below the ceiling, the selection is the first `l` indices of the value-sorted sequence (padded) -/
theorem blockL_eq_of_sorted (top : K) (l : Nat) (val : Λ → K) (Ls : List Λ) (hlt : ∀ a ∈ Ls, val a < top)
    (S : List (Λ × Nat))
    (hS : ssort ((Ls.zipIdx 0).map (fun p => (val p.1, p.2))) = S.map (fun p => (val p.1, p.2))) :
    blockL top l val Ls = OrdMH.sortBlock ((S.map (·.2) ++ List.replicate l OrdMH.u64Max).take l) := by
  unfold blockL lSmallest
  have hf : ((Ls.zipIdx 0).map (fun p => (val p.1, p.2))).filter (fun p => decide (p.1 < top))
      = (Ls.zipIdx 0).map (fun p => (val p.1, p.2)) := by
    rw [List.filter_eq_self]
    intro q hq
    obtain ⟨p, hp, rfl⟩ := List.mem_map.mp hq
    simpa using hlt p.1 (fst_mem_of_mem_zipIdx Ls p hp)
  rw [hf, hS, List.map_take, List.map_append, List.map_map, List.map_replicate]
  rfl

/-- **order invariance**: two value functions (possibly into different ordered types) that stay below their ceilings
and order the labels of the sequence the same way select the same index block -/
theorem blockL_order_congr (top : K) (top' : K') (l : Nat) (val : Λ → K) (val' : Λ → K') (Ls : List Λ)
    (hlt : ∀ a ∈ Ls, val a < top) (hlt' : ∀ a ∈ Ls, val' a < top')
    (hord : ∀ a ∈ Ls, ∀ b ∈ Ls, val a ≤ val b ↔ val' a ≤ val' b) :
    blockL top l val Ls = blockL top' l val' Ls := by
  obtain ⟨S, _, h1, h2⟩ := ssort_order_congr val val' (Ls.zipIdx 0)
    (fun p hp q hq => hord p.1 (fst_mem_of_mem_zipIdx Ls p hp) q.1 (fst_mem_of_mem_zipIdx Ls q hq))
  rw [blockL_eq_of_sorted top l val Ls hlt S h1, blockL_eq_of_sorted top' l val' Ls hlt' S h2]

end Order

/-! ## Part 4 — the order-min-hash event of a ranking and the counting identity -/
section Event
variable {Λ : Type} [DecidableEq Λ] {K G : Type} [LinearOrder K]

/-- a ranking `ρ` of the label set `L`, read as a value function on all labels (labels outside `L` are irrelevant) -/
def rkVal (L : Finset Λ) (ρ : ↥L ≃ Fin (Fintype.card ↥L)) (lam : Λ) : Nat :=
  if h : lam ∈ L then (ρ ⟨lam, h⟩).val else 0

theorem rkVal_mem (L : Finset Λ) (ρ : ↥L ≃ Fin (Fintype.card ↥L)) (x : ↥L) : rkVal L ρ x.1 = (ρ x).val := by
  unfold rkVal
  rw [dif_pos x.2]

theorem rkVal_of_mem (L : Finset Λ) (ρ : ↥L ≃ Fin (Fintype.card ↥L)) (a : Λ) (h : a ∈ L) :
    rkVal L ρ a = (ρ ⟨a, h⟩).val := rkVal_mem L ρ ⟨a, h⟩

/-- a tie-free value function and the ranking it induces on `L` select the same index block of every sequence all of
whose labels lie in `L` -/
theorem blockL_rank (L : Finset Λ) (top : K) (l : Nat) (val : Λ → K) (Ls : List Λ) (hLs : ∀ a ∈ Ls, a ∈ L)
    (hlt : ∀ x : ↥L, val x.1 < top) (hinj : Function.Injective (fun x : ↥L => val x.1)) :
    blockL top l val Ls = blockL (Fintype.card ↥L) l (rkVal L (rankOf (fun x : ↥L => val x.1))) Ls := by
  have hrk : ∀ a (ha : a ∈ L), rkVal L (rankOf (fun x : ↥L => val x.1)) a = (rankFn (fun x : ↥L => val x.1) ⟨a, ha⟩).val := by
    intro a ha
    rw [rkVal_mem L _ ⟨a, ha⟩, rankOf_apply _ hinj]
  apply blockL_order_congr
  · intro a ha
    exact hlt ⟨a, hLs a ha⟩
  · intro a ha
    rw [hrk a (hLs a ha)]
    exact Fin.is_lt _
  · intro a ha b hb
    rw [hrk a (hLs a ha), hrk b (hLs b hb), ← Fin.le_def, rankFn_le_iff]

end Event

section Count
open C10
variable {K G : Type} [LinearOrder K]

/-- the label set of a pair of sequences: all `(element, occurrence number)` pairs of `A` or of `B` -/
def Lab (hsA hsB : List UInt64) : Finset (UInt64 × Nat) := (labels hsA ++ labels hsB).toFinset

theorem mem_Lab_left (hsA hsB : List UInt64) (a : UInt64 × Nat) (h : a ∈ labels hsA) : a ∈ Lab hsA hsB := by
  unfold Lab; rw [List.mem_toFinset]; exact List.mem_append_left _ h

theorem mem_Lab_right (hsA hsB : List UInt64) (a : UInt64 × Nat) (h : a ∈ labels hsB) : a ∈ Lab hsA hsB := by
  unfold Lab; rw [List.mem_toFinset]; exact List.mem_append_right _ h

/-- a ranking of the labels of the two sequences -/
abbrev Ranking (hsA hsB : List UInt64) : Type := ↥(Lab hsA hsB) ≃ Fin (Fintype.card ↥(Lab hsA hsB))

/-- **the order-min-hash event** of the property: under the ranking `ρ` of all `(element, occurrence)` pairs, the `l`
lowest-ranked pairs of `A` and of `B`, read in sequence order, spell the same elements
(`omhBlock` with the ranks as values and ceiling `|L|`, `spelled` of `Props/C10`) -/
def OmhEvent (l : Nat) (hsA hsB : List UInt64) (ρ : Ranking hsA hsB) : Prop :=
  spelled hsA (omhBlock (Fintype.card ↥(Lab hsA hsB)) l (rkVal (Lab hsA hsB) ρ) hsA) =
    spelled hsB (omhBlock (Fintype.card ↥(Lab hsA hsB)) l (rkVal (Lab hsA hsB) ρ) hsB)

instance (l : Nat) (hsA hsB : List UInt64) : DecidablePred (OmhEvent l hsA hsB) := fun _ => by
  unfold OmhEvent; infer_instance

/-- the collision event of a slot with tie-free values below the ceiling IS the order-min-hash event of the ranking
induced by the values -/
theorem collision_iff_omhEvent (top : K) (l : Nat) (hsA hsB : List UInt64) (val : UInt64 × Nat → K)
    (hlt : ∀ x : ↥(Lab hsA hsB), val x.1 < top)
    (hinj : Function.Injective (fun x : ↥(Lab hsA hsB) => val x.1)) :
    spelled hsA (omhBlock top l val hsA) = spelled hsB (omhBlock top l val hsB) ↔
      OmhEvent l hsA hsB (rankOf (fun x : ↥(Lab hsA hsB) => val x.1)) := by
  unfold OmhEvent
  rw [omhBlock_eq_blockL, omhBlock_eq_blockL, omhBlock_eq_blockL, omhBlock_eq_blockL,
    blockL_rank (Lab hsA hsB) top l val (labels hsA) (mem_Lab_left hsA hsB) hlt hinj,
    blockL_rank (Lab hsA hsB) top l val (labels hsB) (mem_Lab_right hsA hsB) hlt hinj]

/-- **(3) `omh_collision_count`**: for a relabelling-closed finite family `Ω` of generator assignments whose slot
values `val ω` are equivariant, tie-free on the labels and below the ceiling, the number of assignments under which the
two sequences collide at the slot, times `|L|!`, is the number of rankings with the order-min-hash event times `#Ω`:
`P(collision) = P_{ρ uniform}(OmhEvent ρ)`. -/
theorem omh_collision_count (top : K) (l : Nat) (hsA hsB : List UInt64)
    (Ω : Finset (↥(Lab hsA hsB) → G)) (hΩ : CS.PermClosed Ω) (val : (↥(Lab hsA hsB) → G) → UInt64 × Nat → K)
    (hequiv : ∀ ω ∈ Ω, ∀ (σ : Equiv.Perm ↥(Lab hsA hsB)) (x : ↥(Lab hsA hsB)), val (ω ∘ ⇑σ.symm) (σ x).1 = val ω x.1)
    (hinj : ∀ ω ∈ Ω, Function.Injective (fun x : ↥(Lab hsA hsB) => val ω x.1))
    (hlt : ∀ ω ∈ Ω, ∀ x : ↥(Lab hsA hsB), val ω x.1 < top) :
    (Ω.filter (fun ω => spelled hsA (omhBlock top l (val ω) hsA) = spelled hsB (omhBlock top l (val ω) hsB))).card
        * (Fintype.card ↥(Lab hsA hsB)).factorial
      = (univ.filter (OmhEvent l hsA hsB)).card * Ω.card := by
  have h := ranking_uniform_set Ω hΩ (fun ω (x : ↥(Lab hsA hsB)) => val ω x.1) hequiv hinj
    (univ.filter (OmhEvent l hsA hsB))
  rw [← h]
  congr 2
  apply Finset.filter_congr
  intro ω hω
  rw [collision_iff_omhEvent top l hsA hsB (val ω) (hlt ω hω) (hinj ω hω)]
  simp

end Count

/-! ### The clean reading of the selection: positions of the `l` lowest-valued labels, in sequence order -/
section Clean
variable {Λ K : Type} [LinearOrder K]

/-- the positions (increasing) of the labels of `Ls` that have fewer than `l` labels of `Ls` of strictly smaller value:
"the `l` lowest-ranked pairs of the sequence, read in sequence order" -/
def lowest (l : Nat) (val : Λ → K) (Ls : List Λ) : List Nat :=
  ((Ls.zipIdx 0).filter (fun p => decide (Ls.countP (fun mu => decide (val mu < val p.1)) < l))).map (·.2)

theorem lowest_sorted (l : Nat) (val : Λ → K) (Ls : List Λ) : (lowest l val Ls).Pairwise (· < ·) := by
  unfold lowest
  have hsub : (((Ls.zipIdx 0).filter (fun p => decide (Ls.countP (fun mu => decide (val mu < val p.1)) < l))).map (·.2)).Sublist
      ((Ls.zipIdx 0).map (·.2)) := List.Sublist.map _ List.filter_sublist
  rw [List.zipIdx_map_snd] at hsub
  exact List.Pairwise.sublist hsub (List.pairwise_lt_range' 1)

/-- for tie-free values below the ceiling and `l ≤ |sequence|`, the order-min-hash selection (`C10.omhBlock`) is the
list of positions of the `l` lowest-valued labels, in sequence order -/
theorem blockL_eq_lowest (top : K) (l : Nat) (val : Λ → K) (Ls : List Λ) (hlt : ∀ a ∈ Ls, val a < top)
    (hinj : Ls.Pairwise (fun a b => val a ≠ val b)) (hl : l ≤ Ls.length) :
    blockL top l val Ls = lowest l val Ls := by
  have hf : ((Ls.zipIdx 0).map (fun p => (val p.1, p.2))).filter (fun p => decide (p.1 < top))
      = (Ls.zipIdx 0).map (fun p => (val p.1, p.2)) := by
    rw [List.filter_eq_self]
    intro q hq
    obtain ⟨p, hp, rfl⟩ := List.mem_map.mp hq
    simpa using hlt p.1 (fst_mem_of_mem_zipIdx Ls p hp)
  have hA : ((Ls.zipIdx 0).map (fun p => (val p.1, p.2))).Pairwise (fun a b => a.1 ≠ b.1) := by
    rw [List.pairwise_map]
    have := hinj
    rw [← List.zipIdx_map_fst 0 Ls, List.pairwise_map] at this
    exact this
  have hperm := kept_perm_filter top l ((Ls.zipIdx 0).map (fun p => (val p.1, p.2))) (by rw [hf]; exact hA)
  rw [hf] at hperm
  have hcount : ∀ v : K, ((Ls.zipIdx 0).map (fun p => (val p.1, p.2))).countP (fun a => decide (a.1 < v))
      = Ls.countP (fun mu => decide (val mu < v)) := by
    intro v
    rw [List.countP_map]
    conv_rhs => rw [← List.zipIdx_map_fst 0 Ls, List.countP_map]
    rfl
  simp only [hcount] at hperm
  rw [List.filter_map] at hperm
  have hperm2 := hperm.map (·.2)
  rw [List.map_map] at hperm2
  have hfull : lSmallest top l ((Ls.zipIdx 0).map (fun p => (val p.1, p.2)))
      = kept top l ((Ls.zipIdx 0).map (fun p => (val p.1, p.2))) := by
    have hk : (kept top l ((Ls.zipIdx 0).map (fun p => (val p.1, p.2)))).length = l := by
      unfold kept
      rw [hf, List.length_take, ssort_length, List.length_map, List.length_zipIdx]
      exact Nat.min_eq_left hl
    rw [lSmallest_eq, hk, Nat.sub_self, List.replicate_zero, List.append_nil]
  unfold blockL
  rw [hfull]
  refine List.Perm.eq_of_pairwise (le := (· ≤ ·)) (fun a b _ _ h1 h2 => Nat.le_antisymm h1 h2)
    (OrdP.sortBlock_sorted _) ((lowest_sorted l val Ls).imp (fun h => Nat.le_of_lt h)) ?_
  exact (OrdP.sortBlock_perm _).trans hperm2

end Clean

section CleanEvent
open C10

/-- **the order-min-hash event in plain words**: for `l` at most the length of both sequences, `OmhEvent l A B ρ` says
exactly that the elements at the positions of the `l` lowest-ranked labels of `A`, in sequence order, equal those of `B` -/
theorem omhEvent_iff_lowest (l : Nat) (hsA hsB : List UInt64) (hlA : l ≤ hsA.length) (hlB : l ≤ hsB.length)
    (ρ : Ranking hsA hsB) :
    OmhEvent l hsA hsB ρ ↔
      spelled hsA (lowest l (rkVal (Lab hsA hsB) ρ) (labels hsA)) = spelled hsB (lowest l (rkVal (Lab hsA hsB) ρ) (labels hsB)) := by
  have hne : ∀ (hs : List UInt64), (∀ a ∈ labels hs, a ∈ Lab hsA hsB) →
      (labels hs).Pairwise (fun a b => rkVal (Lab hsA hsB) ρ a ≠ rkVal (Lab hsA hsB) ρ b) := by
    intro hs hmem
    refine (labels_nodup hs).imp_of_mem (fun {a b} ha hb hne e => hne ?_)
    rw [rkVal_of_mem _ ρ a (hmem a ha), rkVal_of_mem _ ρ b (hmem b hb)] at e
    exact congrArg Subtype.val (ρ.injective (Fin.ext e))
  have hlt : ∀ (hs : List UInt64), (∀ a ∈ labels hs, a ∈ Lab hsA hsB) →
      ∀ a ∈ labels hs, rkVal (Lab hsA hsB) ρ a < Fintype.card ↥(Lab hsA hsB) := by
    intro hs hmem a ha
    rw [rkVal_of_mem _ ρ a (hmem a ha)]
    exact Fin.is_lt _
  unfold OmhEvent
  rw [omhBlock_eq_blockL, omhBlock_eq_blockL,
    blockL_eq_lowest _ l _ (labels hsA) (hlt hsA (mem_Lab_left hsA hsB)) (hne hsA (mem_Lab_left hsA hsB))
      (by simpa [labels, labelsFrom_length] using hlA),
    blockL_eq_lowest _ l _ (labels hsB) (hlt hsB (mem_Lab_right hsA hsB)) (hne hsB (mem_Lab_right hsA hsB))
      (by simpa [labels, labelsFrom_length] using hlB)]

end CleanEvent

/-! ### Which pairs label a sequence -/
section Labels

/-- which `(element, occurrence)` pairs label a sequence -/
theorem mem_labelsFrom_iff (cnt : List (UInt64 × Nat)) (hs : List UInt64) (a : UInt64 × Nat) :
    a ∈ labelsFrom cnt hs ↔ look cnt a.1 < a.2 ∧ a.2 ≤ look cnt a.1 + hs.count a.1 := by
  induction hs generalizing cnt with
  | nil => simp [labelsFrom]
  | cons h rest ih =>
    rw [labelsFrom, List.mem_cons, ih, look_bump, bump_snd]
    by_cases hh : a.1 = h
    · rw [if_pos hh, hh, List.count_cons_self]
      constructor
      · rintro (e | ⟨h1, h2⟩)
        · have : a.2 = look cnt h + 1 := by rw [e]
          omega
        · omega
      · rintro ⟨h1, h2⟩
        by_cases e : a.2 = look cnt h + 1
        · left; exact Prod.ext hh e
        · right; omega
    · rw [if_neg hh, List.count_cons_of_ne (Ne.symm hh)]
      constructor
      · rintro (e | h1)
        · exact absurd (by rw [e]) hh
        · exact h1
      · intro h1; exact Or.inr h1

theorem mem_labels_iff (hs : List UInt64) (a : UInt64 × Nat) : a ∈ labels hs ↔ 0 < a.2 ∧ a.2 ≤ hs.count a.1 := by
  unfold labels
  rw [mem_labelsFrom_iff, look_nil, Nat.zero_add]

/-- every label of `A` or of `B` is a label of the concatenation `A ++ B` -/
theorem Lab_subset_labels_append (hsA hsB : List UInt64) (a : UInt64 × Nat) (ha : a ∈ Lab hsA hsB) :
    a ∈ labels (hsA ++ hsB) := by
  unfold Lab at ha
  rw [List.mem_toFinset, List.mem_append, mem_labels_iff, mem_labels_iff] at ha
  rw [mem_labels_iff, List.count_append]
  omega

end Labels

/-! ## Part 5 — the model: generator families indexed by assignments `ω : labels → G` -/
section Model
open C10
set_option linter.unusedSectionVars false
variable {K G : Type} [Field K] [LinearOrder K] [IsStrictOrderedRing K]

/-- tie-freeness of slot `k` on a label set: different labels of `L` have different values at slot `k` -/
def TieFreeOn (t : TOps K G) (m : Nat) (gvec : Array K) (seed : UInt64) (k : Nat) (L : Finset (UInt64 × Nat)) : Prop :=
  ∀ x y : ↥L, labVal t m gvec seed k x.1 = labVal t m gvec seed k y.1 → x = y

/-- **(4, general family)** `model_collision_count_gen`: for ANY family `T ω` of (nice) random sources indexed by the
assignments of a relabelling-closed `Ω`, whose slot-`k` label values are equivariant, tie-free on the labels of the two
sequences and below the ceiling, and whose two model runs return: the number of `ω` for which the two model signatures'
index blocks spell the same elements at slot `k`, times `|L|!`, equals `#{ρ | OmhEvent ρ} · #Ω`. -/
theorem model_collision_count_gen (top : K) (m l : Nat) (hm : 1 ≤ m) (hl : 1 ≤ l) (s : OrdMH K) (hp : Params m l s)
    (hsA hsB : List UInt64) (Ω : Finset (↥(Lab hsA hsB) → G)) (hΩ : CS.PermClosed Ω)
    (T : (↥(Lab hsA hsB) → G) → OrdP.TOps K G) (hn : ∀ ω ∈ Ω, OrdP.Nice (T ω))
    (k : Nat) (hk : k < m)
    (rA rB : (↥(Lab hsA hsB) → G) → OrdMH K)
    (hrA : ∀ ω ∈ Ω, OrdMH.hashSet (T ω).toOps top s hsA = .ok (rA ω))
    (hrB : ∀ ω ∈ Ω, OrdMH.hashSet (T ω).toOps top s hsB = .ok (rB ω))
    (hequiv : ∀ ω ∈ Ω, ∀ (σ : Equiv.Perm ↥(Lab hsA hsB)) (x : ↥(Lab hsA hsB)),
      labVal (T (ω ∘ ⇑σ.symm)) m s.g s.seed k (σ x).1 = labVal (T ω) m s.g s.seed k x.1)
    (htf : ∀ ω ∈ Ω, TieFreeOn (T ω) m s.g s.seed k (Lab hsA hsB))
    (hlt : ∀ ω ∈ Ω, ∀ x : ↥(Lab hsA hsB), labVal (T ω) m s.g s.seed k x.1 < top) :
    (Ω.filter (fun ω => spelled hsA (finalBlock (rA ω) k) = spelled hsB (finalBlock (rB ω) k))).card
        * (Fintype.card ↥(Lab hsA hsB)).factorial
      = (univ.filter (OmhEvent l hsA hsB)).card * Ω.card := by
  rw [← omh_collision_count top l hsA hsB Ω hΩ (fun ω => labVal (T ω) m s.g s.seed k) hequiv
    (fun ω hω x y h => htf ω hω x y h) hlt]
  congr 2
  apply Finset.filter_congr
  intro ω hω
  exact collision_is_omh_event top m l hm hl (T ω) (hn ω hω) s hp hsA hsB (rA ω) (rB ω) (hrA ω hω) (hrB ω hω) k hk

/-- the random source `t` with the generator of the label `(h, o)` replaced by `ω (h, o)` (labels outside `L` get `g0`):
the family of sources indexed by generator assignments `ω : L → G`.  `fe`, `fu`, `offsetOf` are those of `t`. -/
def withGen (t : OrdP.TOps K G) (L : Finset (UInt64 × Nat)) (g0 : G) (ω : ↥L → G) : OrdP.TOps K G :=
  { fe := t.fe, fu := t.fu, offsetOf := t.offsetOf,
    mkGen := fun h o _ => if hm : (h, o.toNat) ∈ L then ω ⟨(h, o.toNat), hm⟩ else g0 }

theorem withGen_nice (t : OrdP.TOps K G) (hn : OrdP.Nice t) (L : Finset (UInt64 × Nat)) (g0 : G) (ω : ↥L → G) :
    OrdP.Nice (withGen t L g0 ω) := hn

theorem ptsFrom_withGen (t : OrdP.TOps K G) (L : Finset (UInt64 × Nat)) (g0 : G) (ω : ↥L → G) (gvec : Array K) (i : Nat) :
    ∀ (n : Nat) (fy : FY) (x : K) (j : Nat) (g : G),
      ptsFrom (withGen t L g0 ω) gvec i n fy x j g = ptsFrom t gvec i n fy x j g := by
  intro n
  induction n with
  | zero => intro fy x j g; rfl
  | succ n ih =>
    intro fy x j g
    cases h : fy.nextOff (t.offsetOf (t.fu g).1 (fy.m - fy.cursor)) with
    | error e =>
      rw [ptsFrom_succ_of_error t gvec i n fy x j g e h, ptsFrom_succ_of_error (withGen t L g0 ω) gvec i n fy x j g e h]
    | ok p =>
      obtain ⟨k, fy'⟩ := p
      rw [ptsFrom_succ_of_ok t gvec i n fy x j g k fy' h, ptsFrom_succ_of_ok (withGen t L g0 ω) gvec i n fy x j g k fy' h,
        ih]
      rfl

/-- the slot values of a generator do not depend on `mkGen` -/
theorem slotVal_withGen (t : OrdP.TOps K G) (L : Finset (UInt64 × Nat)) (g0 : G) (ω : ↥L → G) (m : Nat) (gvec : Array K)
    (g : G) (k : Nat) : slotVal (withGen t L g0 ω) m gvec g k = slotVal t m gvec g k := by
  unfold slotVal elemPts
  rw [ptsFrom_withGen]
  rfl

theorem toUInt64_toNat_of_le (n : Nat) (h : n ≤ OrdMH.u64Max) : n.toUInt64.toNat = n := by
  unfold OrdMH.u64Max at h
  simp only [Nat.toUInt64, UInt64.toNat_ofNat']
  omega

/-- the generator of a label of `L` (occurrence number representable in 64 bits) under `withGen … ω` is `ω label` -/
theorem gen_withGen (t : OrdP.TOps K G) (L : Finset (UInt64 × Nat)) (g0 : G) (ω : ↥L → G) (seed : UInt64) (x : ↥L)
    (hx : x.1.2 ≤ OrdMH.u64Max) : gen (withGen t L g0 ω) seed x.1 = ω x := by
  unfold gen withGen
  simp only
  have e : (x.1.1, x.1.2.toUInt64.toNat) = x.1 := by rw [toUInt64_toNat_of_le _ hx]
  have hm : (x.1.1, x.1.2.toUInt64.toNat) ∈ L := by rw [e]; exact x.2
  rw [dif_pos hm]
  congr 1
  exact Subtype.ext e

/-- the slot-`k` value of a label under `withGen … ω` is a function of the generator `ω` assigns to it -/
theorem labVal_withGen (t : OrdP.TOps K G) (L : Finset (UInt64 × Nat)) (g0 : G) (ω : ↥L → G) (m : Nat) (gvec : Array K)
    (seed : UInt64) (k : Nat) (x : ↥L) (hx : x.1.2 ≤ OrdMH.u64Max) :
    labVal (withGen t L g0 ω) m gvec seed k x.1 = slotVal t m gvec (ω x) k := by
  unfold labVal
  rw [slotVal_withGen, gen_withGen t L g0 ω seed x hx]

/-- occurrence numbers are at most the length of the sequence -/
theorem labels_snd_le (hs : List UInt64) (a : UInt64 × Nat) (ha : a ∈ labels hs) : a.2 ≤ hs.length := by
  obtain ⟨i, hi, rfl⟩ := List.getElem_of_mem ha
  have hi' : i < hs.length := by simpa [labels, labelsFrom_length] using hi
  rw [labels_getElem hs i hi']
  calc List.count hs[i] (List.take (i + 1) hs) ≤ (List.take (i + 1) hs).length := List.count_le_length
    _ ≤ hs.length := by rw [List.length_take]; exact Nat.min_le_right _ _

theorem Lab_snd_le (hsA hsB : List UInt64) (hlenA : hsA.length ≤ OrdMH.u64Max) (hlenB : hsB.length ≤ OrdMH.u64Max)
    (x : ↥(Lab hsA hsB)) : x.1.2 ≤ OrdMH.u64Max := by
  have := x.2
  unfold Lab at this
  rw [List.mem_toFinset] at this
  rcases List.mem_append.mp this with h | h
  · exact le_trans (labels_snd_le hsA _ h) hlenA
  · exact le_trans (labels_snd_le hsB _ h) hlenB

/-- **(1, model)** the equivariance hypothesis is DISCHARGED for the model's `labVal`: relabelling the generator
assignment moves the slot values with the labels -/
theorem labVal_equivariant (t : OrdP.TOps K G) (hsA hsB : List UInt64)
    (hlenA : hsA.length ≤ OrdMH.u64Max) (hlenB : hsB.length ≤ OrdMH.u64Max) (g0 : G) (m : Nat) (gvec : Array K)
    (seed : UInt64) (k : Nat) (ω : ↥(Lab hsA hsB) → G) (σ : Equiv.Perm ↥(Lab hsA hsB)) (x : ↥(Lab hsA hsB)) :
    labVal (withGen t (Lab hsA hsB) g0 (ω ∘ ⇑σ.symm)) m gvec seed k (σ x).1 =
      labVal (withGen t (Lab hsA hsB) g0 ω) m gvec seed k x.1 := by
  rw [labVal_withGen _ _ _ _ _ _ _ _ _ (Lab_snd_le hsA hsB hlenA hlenB _),
    labVal_withGen _ _ _ _ _ _ _ _ _ (Lab_snd_le hsA hsB hlenA hlenB _)]
  simp

/-- **(4) `model_collision_count`**: the two model runs of `hash_set` (same sketcher `s`, random source `t` with the
per-label generators given by `ω`), for `ω` ranging over a relabelling-closed finite family `Ω` of generator assignments
that are tie-free on the labels at slot `k` with values below the ceiling: the number of `ω` under which the index blocks
of the two signatures spell the same elements at slot `k`, times `|L|!`, equals the number of rankings of the labels with
the order-min-hash event times `#Ω`. -/
theorem model_collision_count (top : K) (m l : Nat) (hm : 1 ≤ m) (hl : 1 ≤ l) (t : OrdP.TOps K G) (hn : OrdP.Nice t)
    (s : OrdMH K) (hp : Params m l s) (hsA hsB : List UInt64)
    (hlenA : hsA.length ≤ OrdMH.u64Max) (hlenB : hsB.length ≤ OrdMH.u64Max)
    (g0 : G) (Ω : Finset (↥(Lab hsA hsB) → G)) (hΩ : CS.PermClosed Ω)
    (k : Nat) (hk : k < m)
    (rA rB : (↥(Lab hsA hsB) → G) → OrdMH K)
    (hrA : ∀ ω ∈ Ω, OrdMH.hashSet (withGen t (Lab hsA hsB) g0 ω).toOps top s hsA = .ok (rA ω))
    (hrB : ∀ ω ∈ Ω, OrdMH.hashSet (withGen t (Lab hsA hsB) g0 ω).toOps top s hsB = .ok (rB ω))
    (htf : ∀ ω ∈ Ω, TieFreeOn (withGen t (Lab hsA hsB) g0 ω) m s.g s.seed k (Lab hsA hsB))
    (hlt : ∀ ω ∈ Ω, ∀ x : ↥(Lab hsA hsB), labVal (withGen t (Lab hsA hsB) g0 ω) m s.g s.seed k x.1 < top) :
    (Ω.filter (fun ω => spelled hsA (finalBlock (rA ω) k) = spelled hsB (finalBlock (rB ω) k))).card
        * (Fintype.card ↥(Lab hsA hsB)).factorial
      = (univ.filter (OmhEvent l hsA hsB)).card * Ω.card :=
  model_collision_count_gen top m l hm hl s hp hsA hsB Ω hΩ (withGen t (Lab hsA hsB) g0)
    (fun ω _ => withGen_nice t hn _ g0 ω) k hk rA rB hrA hrB
    (fun ω _ σ x => labVal_equivariant t hsA hsB hlenA hlenB g0 m s.g s.seed k ω σ x) htf hlt

/-- the tie-freeness predicate of `OrdMH.lean`/C11 for the concatenated sequence implies tie-freeness on the labels of the
two sequences (it is stronger: `A ++ B` has more labels) -/
theorem tieFreeOn_of_tieFree_append (t : OrdP.TOps K G) (m : Nat) (gvec : Array K) (seed : UInt64) (hsA hsB : List UInt64)
    (h : TieFree t m gvec seed (hsA ++ hsB)) (k : Nat) (hk : k < m) : TieFreeOn t m gvec seed k (Lab hsA hsB) :=
  fun x y e => Subtype.ext (h k hk x.1 (Lab_subset_labels_append hsA hsB x.1 x.2) y.1
    (Lab_subset_labels_append hsA hsB y.1 y.2) e)

/-- `model_collision_count` with the tie-freeness hypothesis stated with `OrdP.TieFree` (on `A ++ B`) -/
theorem model_collision_count_tieFree (top : K) (m l : Nat) (hm : 1 ≤ m) (hl : 1 ≤ l) (t : OrdP.TOps K G) (hn : OrdP.Nice t)
    (s : OrdMH K) (hp : Params m l s) (hsA hsB : List UInt64)
    (hlenA : hsA.length ≤ OrdMH.u64Max) (hlenB : hsB.length ≤ OrdMH.u64Max)
    (g0 : G) (Ω : Finset (↥(Lab hsA hsB) → G)) (hΩ : CS.PermClosed Ω)
    (k : Nat) (hk : k < m)
    (rA rB : (↥(Lab hsA hsB) → G) → OrdMH K)
    (hrA : ∀ ω ∈ Ω, OrdMH.hashSet (withGen t (Lab hsA hsB) g0 ω).toOps top s hsA = .ok (rA ω))
    (hrB : ∀ ω ∈ Ω, OrdMH.hashSet (withGen t (Lab hsA hsB) g0 ω).toOps top s hsB = .ok (rB ω))
    (htf : ∀ ω ∈ Ω, TieFree (withGen t (Lab hsA hsB) g0 ω) m s.g s.seed (hsA ++ hsB))
    (hlt : ∀ ω ∈ Ω, ∀ x : ↥(Lab hsA hsB), labVal (withGen t (Lab hsA hsB) g0 ω) m s.g s.seed k x.1 < top) :
    (Ω.filter (fun ω => spelled hsA (finalBlock (rA ω) k) = spelled hsB (finalBlock (rB ω) k))).card
        * (Fintype.card ↥(Lab hsA hsB)).factorial
      = (univ.filter (OmhEvent l hsA hsB)).card * Ω.card :=
  model_collision_count top m l hm hl t hn s hp hsA hsB hlenA hlenB g0 Ω hΩ k hk rA rB hrA hrB
    (fun ω hω => tieFreeOn_of_tieFree_append _ m s.g s.seed hsA hsB (htf ω hω) k hk) hlt

/-- **(4, all slots) expected number of equal signature positions**: summing `model_collision_count` over the `m` slots:
the total number of matching positions over all `ω ∈ Ω`, times `|L|!`, is `m · #{ρ | OmhEvent ρ} · #Ω`, i.e. the expected
FRACTION of equal positions is the order-min-hash probability `#{ρ | OmhEvent ρ} / |L|!`. -/
theorem model_expected_matches (top : K) (m l : Nat) (hm : 1 ≤ m) (hl : 1 ≤ l) (t : OrdP.TOps K G) (hn : OrdP.Nice t)
    (s : OrdMH K) (hp : Params m l s) (hsA hsB : List UInt64)
    (hlenA : hsA.length ≤ OrdMH.u64Max) (hlenB : hsB.length ≤ OrdMH.u64Max)
    (g0 : G) (Ω : Finset (↥(Lab hsA hsB) → G)) (hΩ : CS.PermClosed Ω)
    (rA rB : (↥(Lab hsA hsB) → G) → OrdMH K)
    (hrA : ∀ ω ∈ Ω, OrdMH.hashSet (withGen t (Lab hsA hsB) g0 ω).toOps top s hsA = .ok (rA ω))
    (hrB : ∀ ω ∈ Ω, OrdMH.hashSet (withGen t (Lab hsA hsB) g0 ω).toOps top s hsB = .ok (rB ω))
    (htf : ∀ k < m, ∀ ω ∈ Ω, TieFreeOn (withGen t (Lab hsA hsB) g0 ω) m s.g s.seed k (Lab hsA hsB))
    (hlt : ∀ k < m, ∀ ω ∈ Ω, ∀ x : ↥(Lab hsA hsB), labVal (withGen t (Lab hsA hsB) g0 ω) m s.g s.seed k x.1 < top) :
    (∑ ω ∈ Ω, ((range m).filter (fun k => spelled hsA (finalBlock (rA ω) k) = spelled hsB (finalBlock (rB ω) k))).card)
        * (Fintype.card ↥(Lab hsA hsB)).factorial
      = m * ((univ.filter (OmhEvent l hsA hsB)).card * Ω.card) := by
  have hswap : (∑ ω ∈ Ω, ((range m).filter (fun k => spelled hsA (finalBlock (rA ω) k) = spelled hsB (finalBlock (rB ω) k))).card)
      = ∑ k ∈ range m, (Ω.filter (fun ω => spelled hsA (finalBlock (rA ω) k) = spelled hsB (finalBlock (rB ω) k))).card := by
    simp only [Finset.card_filter]
    exact Finset.sum_comm
  rw [hswap, Finset.sum_mul]
  rw [Finset.sum_congr rfl (fun k hk => model_collision_count top m l hm hl t hn s hp hsA hsB hlenA hlenB g0 Ω hΩ k
    (mem_range.mp hk) rA rB hrA hrB (htf k (mem_range.mp hk)) (hlt k (mem_range.mp hk)))]
  rw [Finset.sum_const, card_range, smul_eq_mul]

end Model

/-! ## Part 6 — non-vacuity: `A = [1,2,3]`, `B = [2,1,3]`, `l = 2`, three labels, generators `Fin 3`, the value of a
label is its generator.  Collision probability `4/6 = 2/3`: of the three 2-subsets of lowest-ranked labels only
`{(1,1),(2,1)}` is spelled differently (`[1,2]` vs `[2,1]`). -/
section Example
open C10

def exA : List UInt64 := [1, 2, 3]
def exB : List UInt64 := [2, 1, 3]

/-- the value of a label under the assignment `ω` is the (number of the) generator assigned to it -/
def exVal (ω : ↥(Lab exA exB) → Fin 3) (lam : UInt64 × Nat) : Nat :=
  if h : lam ∈ Lab exA exB then (ω ⟨lam, h⟩).val else 0

theorem exVal_mem (ω : ↥(Lab exA exB) → Fin 3) (x : ↥(Lab exA exB)) : exVal ω x.1 = (ω x).val := by
  unfold exVal
  rw [dif_pos x.2]

/-- all tie-free assignments: relabelling-closed -/
def exΩ : Finset (↥(Lab exA exB) → Fin 3) := CS.injAssignments ↥(Lab exA exB) (Fin 3)

set_option maxRecDepth 100000 in
theorem ex_labels : Fintype.card ↥(Lab exA exB) = 3 := by decide

/-- all hypotheses of `omh_collision_count` hold for the instance -/
theorem ex_identity :
    (exΩ.filter (fun ω => spelled exA (omhBlock 3 2 (exVal ω) exA) = spelled exB (omhBlock 3 2 (exVal ω) exB))).card
        * (Fintype.card ↥(Lab exA exB)).factorial
      = (univ.filter (OmhEvent 2 exA exB)).card * exΩ.card := by
  apply omh_collision_count 3 2 exA exB exΩ CS.injAssignments_closed exVal
  · intro ω _ σ x
    rw [exVal_mem, exVal_mem]
    simp
  · intro ω hω x y h
    simp only [exVal_mem] at h
    exact (mem_filter.mp hω).2 (Fin.ext h)
  · intro ω _ x
    rw [exVal_mem]
    exact Fin.is_lt _

set_option maxRecDepth 100000 in
/-- `3! = 6` assignments … -/
theorem ex_card : exΩ.card = 6 := by decide

set_option maxRecDepth 100000 in
/-- … `4` of which make the two sequences collide … -/
theorem ex_collisions :
    (exΩ.filter (fun ω => spelled exA (omhBlock 3 2 (exVal ω) exA) = spelled exB (omhBlock 3 2 (exVal ω) exB))).card = 4 := by
  decide

set_option maxRecDepth 100000 in
/-- … and `4` of the `6` rankings have the order-min-hash event: the identity reads `4 * 6 = 4 * 6` -/
theorem ex_event_count : (univ.filter (OmhEvent 2 exA exB)).card = 4 := by decide

end Example

/-! ## Part 7 — non-vacuity at the MODEL level: the same instance run through `OrdMH.hashSet` (one slot, `l = 2`,
ceiling `3`, scalar `ℚ`, generators `Fin 3`, a generator `g` draws the value `g`) -/
section ModelExample
open C10

/-- a sketcher with one slot (`m = 1`) and `l = 2`, ceiling `3` -/
def exS : OrdMH ℚ :=
  { m := 1, l := 2, indices := Array.replicate (1 * 2) OrdMH.u64Max, values := Array.replicate (1 * 2) 3,
    tracker := Tracker.new 3 1,
    g := (Array.range (1 - 1)).map (fun i => ((1 : Nat) : ℚ) / (((1 - (i + 1) : Nat)) : ℚ)),
    fy := FY.new 1, seed := 0 }

theorem exS_new : OrdMH.new (3 : ℚ) 1 2 0 = .ok exS := by
  unfold OrdMH.new
  rw [if_neg (by decide)]
  rfl

theorem exS_params : Params 1 2 exS := (new_params 3 1 2 0 exS exS_new).1

/-- the random source: a generator `g : Fin 3` draws the value `g` -/
def exT : OrdP.TOps ℚ (Fin 3) :=
  { fe := fun g => ((g.val : ℚ), g), fu := fun g => (0, g), offsetOf := fun _ _ => 0, mkGen := fun _ _ _ => 0 }

theorem exT_nice : OrdP.Nice exT := ⟨fun _ => Nat.cast_nonneg _, fun _ _ h => h⟩

/-- with one slot every point of an element carries the first draw of its generator -/
theorem elemPts_one {K G : Type} [Add K] [Mul K] [Zero K] (t : OrdP.TOps K G) (gvec : Array K) (g : G) (i : Nat) :
    ∀ p ∈ elemPts t 1 gvec g i, p.2.1 = (t.fe g).1 := by
  intro p hp
  unfold elemPts at hp
  rcases ptsFrom_succ_cases t gvec i 0 (fy0 1) (t.fe g).1 0 (t.fe g).2 with h | ⟨k, fy', _, h⟩
  · rw [h] at hp; simp at hp
  · rw [h, ptsFrom_zero] at hp
    simp only [List.mem_singleton] at hp
    rw [hp]


theorem allPtsFrom_one {K G : Type} [Field K] [LinearOrder K] [IsStrictOrderedRing K] (t : OrdP.TOps K G) (gvec : Array K) (seed : UInt64) :
    ∀ (hs : List UInt64) (i : Nat) (cnt : List (UInt64 × Nat)),
      ∀ p ∈ allPtsFrom t 1 gvec seed hs i cnt, ∃ g, p.2.1 = (t.fe g).1 := by
  intro hs
  induction hs with
  | nil => intro i cnt p hp; simp [allPtsFrom] at hp
  | cons h rest ih =>
    intro i cnt p hp
    rw [allPtsFrom] at hp
    rcases List.mem_append.mp hp with hp | hp
    · exact ⟨_, elemPts_one t gvec _ i p hp⟩
    · exact ih _ _ p hp

theorem slotVal_one {K G : Type} [Field K] [LinearOrder K] [IsStrictOrderedRing K] (t : OrdP.TOps K G) (hn : OrdP.Nice t)
    (gvec : Array K) (g : G) : slotVal t 1 gvec g 0 = (t.fe g).1 := by
  have h := ptsOn_elemPts t hn 1 gvec g 0 0 (by decide)
  have hm : (slotVal t 1 gvec g 0, 0) ∈ ptsOn 0 (elemPts t 1 gvec g 0) := by rw [h]; simp
  exact elemPts_one t gvec g 0 _ ((mem_ptsOn 0 _ _).mp hm)

theorem ex_lenA : exA.length ≤ OrdMH.u64Max := by decide
theorem ex_lenB : exB.length ≤ OrdMH.u64Max := by decide

/-- the slot value of a label is the (number of the) generator assigned to it -/
theorem ex_labVal (ω : ↥(Lab exA exB) → Fin 3) (x : ↥(Lab exA exB)) :
    labVal (withGen exT (Lab exA exB) 0 ω) 1 exS.g exS.seed 0 x.1 = ((ω x).val : ℚ) := by
  rw [labVal_withGen _ _ _ _ _ _ _ _ _ (Lab_snd_le exA exB ex_lenA ex_lenB x), slotVal_one exT exT_nice]
  rfl

/-- both model runs return, for every assignment -/
theorem ex_runs (ω : ↥(Lab exA exB) → Fin 3) (hs : List UInt64) (hlen : 2 ≤ hs.length) :
    ∃ r, OrdMH.hashSet (withGen exT (Lab exA exB) 0 ω).toOps 3 exS hs = .ok r := by
  apply C11.no_bad_indices 3 1 2 (le_refl 1) (by decide) _ (withGen_nice exT exT_nice _ 0 ω) exS exS_params hs hlen
  intro p hp
  obtain ⟨g, hg⟩ := allPtsFrom_one _ _ _ hs 0 [] p hp
  rw [hg]
  change ((g.val : ℕ) : ℚ) < 3
  exact_mod_cast g.is_lt

noncomputable def exRA (ω : ↥(Lab exA exB) → Fin 3) : OrdMH ℚ := (ex_runs ω exA (by decide)).choose
noncomputable def exRB (ω : ↥(Lab exA exB) → Fin 3) : OrdMH ℚ := (ex_runs ω exB (by decide)).choose

/-- all hypotheses of `model_collision_count` hold for the instance: the identity for the two MODEL runs -/
theorem ex_model_identity :
    (exΩ.filter (fun ω => spelled exA (finalBlock (exRA ω) 0) = spelled exB (finalBlock (exRB ω) 0))).card
        * (Fintype.card ↥(Lab exA exB)).factorial
      = (univ.filter (OmhEvent 2 exA exB)).card * exΩ.card := by
  apply model_collision_count 3 1 2 (le_refl 1) (by decide) exT exT_nice exS exS_params exA exB ex_lenA ex_lenB 0 exΩ
    CS.injAssignments_closed 0 (by decide) exRA exRB
  · intro ω _; exact (ex_runs ω exA (by decide)).choose_spec
  · intro ω _; exact (ex_runs ω exB (by decide)).choose_spec
  · intro ω hω x y h
    rw [ex_labVal, ex_labVal] at h
    exact (mem_filter.mp hω).2 (Fin.ext (by exact_mod_cast h))
  · intro ω _ x
    rw [ex_labVal]
    exact_mod_cast (ω x).is_lt

/-- of the `6` generator assignments exactly `4` make the two model signatures agree at the slot: `2/3`, the
order-min-hash probability of `[1,2,3]` vs `[2,1,3]` for `l = 2` -/
theorem ex_model_collisions :
    (exΩ.filter (fun ω => spelled exA (finalBlock (exRA ω) 0) = spelled exB (finalBlock (exRB ω) 0))).card = 4 := by
  have h := ex_model_identity
  rw [ex_event_count, ex_card, ex_labels] at h
  rw [show Nat.factorial 3 = 6 from rfl] at h
  omega

end ModelExample

/-! ### axiom audit -/
section Audit
#print axioms rank_equivariant
#print axioms ranking_uniform
#print axioms ranking_uniform_set
#print axioms blockL_order_congr
#print axioms collision_iff_omhEvent
#print axioms omh_collision_count
#print axioms omhEvent_iff_lowest
#print axioms labVal_equivariant
#print axioms model_collision_count_gen
#print axioms model_collision_count
#print axioms model_collision_count_tieFree
#print axioms model_expected_matches
#print axioms ex_identity
#print axioms ex_card
#print axioms ex_collisions
#print axioms ex_event_count
#print axioms ex_model_identity
#print axioms ex_model_collisions
end Audit

end PMH.OmhLaw

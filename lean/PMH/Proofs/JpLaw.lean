import PMH.Proofs.PmhLaws
import PMH.Proofs.CS
import Mathlib.Probability.Distributions.Exponential
import Mathlib.MeasureTheory.Integral.Marginal
import Mathlib.MeasureTheory.Constructions.Pi
import Mathlib.MeasureTheory.Measure.WithDensity
/-!
# `JpLaw`: the measure-theoretic step of C01 for UNEQUAL weights

Items `ι` (finite), first-hit times `x : ι → ℝ` of one signature position, distributed under
`μ ι = Measure.pi (fun _ => expMeasure 1)` (independent `Exp(1)`; Mathlib's `ProbabilityTheory.expMeasure`).
The position of weighted set `w` holds the item minimising `x d / w d` among items of positive weight.

* `core_law`            : `μ {x | 0 < x d ∧ ∀ e ≠ d, c e * x d < x e} = 1 / (1 + Σ_{e ≠ d} c e)`  (Tonelli via `lmarginal`)
* `single_set_law`      : `μ {x | winner w x d} = w d / Σ w`
* `both_winner_law`     : `μ {x | winner wA x d ∧ winner wB x d} = 1 / Σ_e max (wA e / wA d) (wB e / wB d)`
* `collision_law`       : `μ {x | ∃ d, winner wA x d ∧ winner wB x d} = J_P`
* `noTie_ae`, `argmin_eq_iff_exists_winner`, `collision_law_argmin` : the same with `CS.argmin`
* `expected_fraction`   : expected fraction of colliding positions `= J_P` (linearity; only marginals used)
* `JP_self`, `JP_indicator`, `JP_nonneg`, `JP_le_one`, `JP_example`
-/
namespace PMH.JpLaw
open MeasureTheory ProbabilityTheory Set Real
open scoped ENNReal

/-- the law `Exp(1)` -/
noncomputable abbrev exp1 : Measure ℝ := expMeasure 1

instance : IsProbabilityMeasure exp1 := isProbabilityMeasure_expMeasure one_pos

theorem exp1_Iic {t : ℝ} (ht : 0 ≤ t) : exp1 (Iic t) = ENNReal.ofReal (1 - exp (-t)) := by
  have := lintegral_exponentialPDF_eq_antiDeriv one_pos t
  rw [if_pos ht, one_mul] at this
  rw [← this]
  show (volume.withDensity (gammaPDF 1 1)) (Iic t) = _
  rw [withDensity_apply _ measurableSet_Iic]
  rfl

theorem exp1_Ioi {t : ℝ} (ht : 0 ≤ t) : exp1 (Ioi t) = ENNReal.ofReal (exp (-t)) := by
  rw [← compl_Iic, measure_compl measurableSet_Iic (measure_ne_top _ _), measure_univ, exp1_Iic ht]
  rw [← ENNReal.ofReal_one, ← ENNReal.ofReal_sub _ (by simp [ht])]
  congr 1; ring


/-- integrating a function against `Exp(1)` -/
theorem lintegral_exp1 {g : ℝ → ℝ≥0∞} (hg : Measurable g) :
    ∫⁻ t, g t ∂exp1 = ∫⁻ t, exponentialPDF 1 t * g t := by
  show ∫⁻ t, g t ∂(volume.withDensity (exponentialPDF 1)) = _
  rw [lintegral_withDensity_eq_lintegral_mul _
    (show Measurable (exponentialPDF 1) from (measurable_exponentialPDFReal 1).ennreal_ofReal) hg]
  rfl

/-- `∫₀^∞ e^{-t} e^{-C t} dt = 1/(1+C)` as a Lebesgue integral against `Exp(1)` -/
theorem lintegral_exp1_tail {C : ℝ} (hC : 0 ≤ C) :
    ∫⁻ t, (if 0 < t then ENNReal.ofReal (exp (-C * t)) else 0) ∂exp1
      = ENNReal.ofReal (1 / (1 + C)) := by
  have hm : Measurable fun t : ℝ => (if 0 < t then ENNReal.ofReal (exp (-C * t)) else 0) :=
    Measurable.ite measurableSet_Ioi (by fun_prop) measurable_const
  rw [lintegral_exp1 hm]
  have h1 : ∀ t : ℝ, exponentialPDF 1 t * (if 0 < t then ENNReal.ofReal (exp (-C * t)) else 0)
      = (Ioi (0:ℝ)).indicator (fun t => ENNReal.ofReal (1 * exp (-(1 + C) * t))) t := by
    intro t
    by_cases ht : 0 < t
    · rw [indicator_of_mem (show t ∈ Ioi (0:ℝ) from ht), if_pos ht, exponentialPDF_of_nonneg ht.le,
        ← ENNReal.ofReal_mul (by positivity), one_mul, one_mul, ← exp_add]
      rw [one_mul]; congr 2; ring
    · rw [indicator_of_notMem (show t ∉ Ioi (0:ℝ) from ht), if_neg ht, mul_zero]
  simp_rw [h1]
  rw [lintegral_indicator measurableSet_Ioi, ← ofReal_integral_eq_lintegral_ofReal,
    PMH.Laws.race_winner_integral one_pos hC]
  · exact (integrableOn_exp_mul_Ioi (by linarith) 0).const_mul 1
  · exact Filter.Eventually.of_forall fun t => by positivity

variable {ι : Type} [Fintype ι] [DecidableEq ι]

/-- the joint law of the first-hit times: independent `Exp(1)` -/
noncomputable abbrev μ (ι : Type) [Fintype ι] : Measure (ι → ℝ) := Measure.pi (fun _ : ι => exp1)

/-- "`x d` is positive and `x e` exceeds `c e * x d` for every other `e`" -/
def core (c : ι → ℝ) (d : ι) : Set (ι → ℝ) := {x | 0 < x d ∧ ∀ e, e ≠ d → c e * x d < x e}

omit [DecidableEq ι] in
theorem measurableSet_core (c : ι → ℝ) (d : ι) : MeasurableSet (core c d) := by
  have : core c d = {x | 0 < x d} ∩ ⋂ e, ⋂ (_ : e ≠ d), {x | c e * x d < x e} := by
    ext x; simp [core]
  rw [this]
  refine (measurableSet_lt measurable_const (measurable_pi_apply d)).inter ?_
  refine MeasurableSet.iInter fun e => MeasurableSet.iInter fun _ => ?_
  exact measurableSet_lt ((measurable_pi_apply d).const_mul _) (measurable_pi_apply e)

/-- inner integral: given `x d = t > 0`, the others form a box of independent tails -/
theorem inner_eq (c : ι → ℝ) (hc : ∀ e, 0 ≤ c e) (d : ι) (z : ι → ℝ) :
    (∫⋯∫⁻_(Finset.univ.erase d), (core c d).indicator 1 ∂(fun _ => exp1)) z
      = if 0 < z d then ENNReal.ofReal (exp (-(∑ e ∈ Finset.univ.erase d, c e) * z d)) else 0 := by
  unfold lmarginal
  have hd : ∀ y : ((e : ↥(Finset.univ.erase d)) → ℝ),
      Function.updateFinset z (Finset.univ.erase d) y d = z d := by
    intro y; simp [Function.updateFinset_def]
  split_ifs with h
  · have key : ∀ y : ((e : ↥(Finset.univ.erase d)) → ℝ),
        Function.updateFinset z (Finset.univ.erase d) y ∈ core c d ↔
          y ∈ Set.pi univ (fun e : ↥(Finset.univ.erase d) => Ioi (c e * z d)) := by
      intro y
      simp only [core, mem_ofPred_eq, hd, h, true_and, Set.mem_pi, mem_univ, mem_Ioi,
        forall_true_left, Subtype.forall, Finset.mem_erase, Finset.mem_univ, and_true]
      refine forall_congr' fun e => forall_congr' fun he => ?_
      simp [Function.updateFinset_def, he]
    have this : (fun y : ((e : ↥(Finset.univ.erase d)) → ℝ) => (core c d).indicator (1 : (ι → ℝ) → ℝ≥0∞)
        (Function.updateFinset z (Finset.univ.erase d) y))
        = (Set.pi univ (fun e : ↥(Finset.univ.erase d) => Ioi (c e * z d))).indicator 1 := by
      funext y
      by_cases hy : y ∈ Set.pi univ (fun e : ↥(Finset.univ.erase d) => Ioi (c e * z d))
      · rw [indicator_of_mem hy, indicator_of_mem ((key y).2 hy)]; rfl
      · rw [indicator_of_notMem hy, indicator_of_notMem (mt (key y).1 hy)]
    rw [this, lintegral_indicator_one (MeasurableSet.univ_pi fun _ => measurableSet_Ioi),
      Measure.pi_pi]
    have h2 : ∀ e : ↥(Finset.univ.erase d), exp1 (Ioi (c e * z d))
        = ENNReal.ofReal (exp (-(c e * z d))) := fun e =>
      exp1_Ioi (mul_nonneg (hc _) h.le)
    simp_rw [h2]
    rw [← ENNReal.ofReal_prod_of_nonneg (fun _ _ => (exp_pos _).le), ← Real.exp_sum,
      Finset.sum_coe_sort (Finset.univ.erase d) (fun e => -(c e * z d))]
    congr 2
    rw [neg_mul, Finset.sum_mul, Finset.sum_neg_distrib]
  · have : ∀ y : ((e : ↥(Finset.univ.erase d)) → ℝ),
        (core c d).indicator (1 : (ι → ℝ) → ℝ≥0∞)
          (Function.updateFinset z (Finset.univ.erase d) y) = 0 := by
      intro y
      apply indicator_of_notMem
      intro hm
      exact h (by simpa [hd] using hm.1)
    simp_rw [this]
    exact lintegral_zero

/-- **core law**: `P(x_d > 0 ∧ ∀ e ≠ d, x_e > c_e x_d) = 1 / (1 + Σ_{e≠d} c_e)` -/
theorem core_law (c : ι → ℝ) (hc : ∀ e, 0 ≤ c e) (d : ι) :
    μ ι (core c d) = ENNReal.ofReal (1 / (1 + ∑ e ∈ Finset.univ.erase d, c e)) := by
  have hmeas : Measurable ((core c d).indicator (1 : (ι → ℝ) → ℝ≥0∞)) :=
    measurable_one.indicator (measurableSet_core c d)
  rw [← lintegral_indicator_one (measurableSet_core c d),
    lintegral_eq_lmarginal_univ (fun _ => 0),
    lmarginal_erase _ hmeas (Finset.mem_univ d)]
  simp_rw [inner_eq c hc d, Function.update_self]
  exact lintegral_exp1_tail (Finset.sum_nonneg fun e _ => hc e)


/-! ## winners, `J_P`, and the laws -/

/-- `d` is the strict arg-min of `x / w` among the items of positive weight -/
def winner (w : ι → ℝ) (x : ι → ℝ) (d : ι) : Prop :=
  0 < w d ∧ ∀ e, e ≠ d → 0 < w e → x d / w d < x e / w e

/-- the probability-Jaccard index -/
noncomputable def JP (wA wB : ι → ℝ) : ℝ :=
  ∑ d with 0 < wA d ∧ 0 < wB d, 1 / ∑ e, max (wA e / wA d) (wB e / wB d)

/-- all first-hit times are positive -/
def pos (ι : Type) : Set (ι → ℝ) := {x | ∀ e, 0 < x e}

omit [DecidableEq ι] in
theorem pos_conull : μ ι (pos ι)ᶜ = 0 := by
  have h : pos ι = Set.pi univ (fun _ : ι => Ioi (0:ℝ)) := by
    ext x; simp [pos]
  have hm : MeasurableSet (pos ι) := by
    rw [h]; exact MeasurableSet.univ_pi fun _ => measurableSet_Ioi
  rw [prob_compl_eq_zero_iff hm, h, Measure.pi_pi]
  simp [exp1_Ioi le_rfl]

theorem ratio_iff {wd we xd xe : ℝ} (hwd : 0 < wd) (hwe : 0 < we) :
    xd / wd < xe / we ↔ we / wd * xd < xe := by
  rw [div_lt_div_iff₀ hwd hwe, div_mul_eq_mul_div, div_lt_iff₀ hwd, mul_comm we xd]

omit [Fintype ι] [DecidableEq ι] in
/-- on positive vectors the double-winner event is a `core` event with `c = max` of the ratios -/
theorem both_winner_iff_core {wA wB : ι → ℝ} (hA : ∀ e, 0 ≤ wA e) (hB : ∀ e, 0 ≤ wB e) {d : ι}
    (hAd : 0 < wA d) (hBd : 0 < wB d) {x : ι → ℝ} (hx : x ∈ pos ι) :
    (winner wA x d ∧ winner wB x d) ↔
      x ∈ core (fun e => max (wA e / wA d) (wB e / wB d)) d := by
  have one : ∀ {w : ι → ℝ}, (∀ e, 0 ≤ w e) → 0 < w d →
      (winner w x d ↔ ∀ e, e ≠ d → w e / w d * x d < x e) := by
    intro w hw hwd
    unfold winner
    constructor
    · rintro ⟨-, h⟩ e he
      rcases (hw e).lt_or_eq with hwe | hwe
      · exact (ratio_iff hwd hwe).1 (h e he hwe)
      · rw [← hwe, zero_div, zero_mul]; exact hx e
    · intro h
      exact ⟨hwd, fun e he hwe => (ratio_iff hwd hwe).2 (h e he)⟩
  rw [one hA hAd, one hB hBd]
  simp only [core, mem_ofPred_eq, hx d, true_and, max_mul_of_nonneg _ _ (hx d).le, max_lt_iff]
  constructor
  · rintro ⟨h1, h2⟩ e he; exact ⟨h1 e he, h2 e he⟩
  · intro h; exact ⟨fun e he => (h e he).1, fun e he => (h e he).2⟩

/-- **(2)** `P(d wins in both A and B) = 1 / Σ_e max (wA e / wA d) (wB e / wB d)` -/
theorem both_winner_law {wA wB : ι → ℝ} (hA : ∀ e, 0 ≤ wA e) (hB : ∀ e, 0 ≤ wB e) {d : ι}
    (hAd : 0 < wA d) (hBd : 0 < wB d) :
    μ ι {x | winner wA x d ∧ winner wB x d}
      = ENNReal.ofReal (1 / ∑ e, max (wA e / wA d) (wB e / wB d)) := by
  set c : ι → ℝ := fun e => max (wA e / wA d) (wB e / wB d) with hc
  have hc0 : ∀ e, 0 ≤ c e := fun e => le_max_of_le_left (div_nonneg (hA e) hAd.le)
  have hcd : c d = 1 := by simp [hc, hAd.ne', hBd.ne']
  rw [← measure_inter_conull (pos_conull (ι := ι))]
  have : {x | winner wA x d ∧ winner wB x d} ∩ pos ι = core c d ∩ pos ι := by
    ext x
    simp only [mem_inter_iff, mem_ofPred_eq]
    constructor
    · rintro ⟨h, hx⟩; exact ⟨(both_winner_iff_core hA hB hAd hBd hx).1 h, hx⟩
    · rintro ⟨h, hx⟩; exact ⟨(both_winner_iff_core hA hB hAd hBd hx).2 h, hx⟩
  have hsum : ∑ e, c e = 1 + ∑ e ∈ Finset.univ.erase d, c e := by
    rw [← Finset.add_sum_erase _ _ (Finset.mem_univ d), hcd]
  rw [this, measure_inter_conull (pos_conull (ι := ι)), core_law c hc0 d, ← hsum]

/-- **(1)** for a single weighted set, item `d` wins with probability `w d / Σ w` -/
theorem single_set_law {w : ι → ℝ} (hw : ∀ e, 0 ≤ w e) {d : ι} (hd : 0 < w d) :
    μ ι {x | winner w x d} = ENNReal.ofReal (w d / ∑ e, w e) := by
  have := both_winner_law hw hw hd hd
  simp only [and_self_iff, max_self] at this
  rw [this, ← Finset.sum_div, one_div_div]


/-! ## (3) the collision law -/

omit [DecidableEq ι] in
theorem measurableSet_winner (w : ι → ℝ) (d : ι) : MeasurableSet {x : ι → ℝ | winner w x d} := by
  have : {x : ι → ℝ | winner w x d} = {_x | 0 < w d} ∩
      ⋂ e, ⋂ (_ : e ≠ d), ⋂ (_ : 0 < w e), {x | x d / w d < x e / w e} := by
    ext x; simp [winner]
  rw [this]
  refine (MeasurableSet.const _).inter ?_
  refine MeasurableSet.iInter fun e => MeasurableSet.iInter fun _ => MeasurableSet.iInter fun _ => ?_
  exact measurableSet_lt ((measurable_pi_apply d).div_const _) ((measurable_pi_apply e).div_const _)

omit [Fintype ι] [DecidableEq ι] in
/-- a set has at most one (strict) winner -/
theorem winner_unique {w : ι → ℝ} {x : ι → ℝ} {d d' : ι} (h : winner w x d) (h' : winner w x d') :
    d = d' := by
  by_contra hne
  have h1 := h.2 d' (Ne.symm hne) h'.1
  have h2 := h'.2 d hne h.1
  exact lt_asymm h1 h2

/-- **(3)** `P(the same item wins in A and in B) = J_P(A, B)` -/
theorem collision_law {wA wB : ι → ℝ} (hA : ∀ e, 0 ≤ wA e) (hB : ∀ e, 0 ≤ wB e) :
    μ ι {x | ∃ d, winner wA x d ∧ winner wB x d} = ENNReal.ofReal (JP wA wB) := by
  set S : Finset ι := Finset.univ.filter (fun d => 0 < wA d ∧ 0 < wB d) with hS
  have hU : {x : ι → ℝ | ∃ d, winner wA x d ∧ winner wB x d}
      = ⋃ d ∈ S, {x | winner wA x d ∧ winner wB x d} := by
    ext x
    simp only [mem_ofPred_eq, mem_iUnion, hS, Finset.mem_filter, Finset.mem_univ, true_and,
      exists_prop]
    constructor
    · rintro ⟨d, h1, h2⟩; exact ⟨d, ⟨h1.1, h2.1⟩, h1, h2⟩
    · rintro ⟨d, -, h⟩; exact ⟨d, h⟩
  rw [hU, measure_biUnion_finset]
  · unfold JP
    rw [ENNReal.ofReal_sum_of_nonneg]
    · refine Finset.sum_congr (by rw [hS]) fun d hd => ?_
      rw [Finset.mem_filter] at hd
      exact both_winner_law hA hB hd.2.1 hd.2.2
    · intro d hd
      rw [Finset.mem_filter] at hd
      refine one_div_nonneg.2 (Finset.sum_nonneg fun e _ => ?_)
      exact le_max_of_le_left (div_nonneg (hA e) hd.2.1.le)
  · intro d _ d' _ hne
    refine Set.disjoint_left.2 fun x h h' => hne (winner_unique h.1 h'.1)
  · intro d _
    exact (measurableSet_winner wA d).inter (measurableSet_winner wB d)


/-! ## (5) sanity corollaries about `J_P` -/

omit [DecidableEq ι] in
theorem JP_nonneg {wA wB : ι → ℝ} (hA : ∀ e, 0 ≤ wA e) : 0 ≤ JP wA wB := by
  unfold JP
  refine Finset.sum_nonneg fun d hd => ?_
  rw [Finset.mem_filter] at hd
  refine one_div_nonneg.2 (Finset.sum_nonneg fun e _ => ?_)
  exact le_max_of_le_left (div_nonneg (hA e) hd.2.1.le)

theorem JP_le_one {wA wB : ι → ℝ} (hA : ∀ e, 0 ≤ wA e) (hB : ∀ e, 0 ≤ wB e) : JP wA wB ≤ 1 := by
  have h := collision_law hA hB
  have h1 : ENNReal.ofReal (JP wA wB) ≤ 1 := h ▸ prob_le_one
  exact ENNReal.ofReal_le_one.1 h1

omit [DecidableEq ι] in
/-- a weighted set has probability-Jaccard index `1` with itself -/
theorem JP_self {w : ι → ℝ} (hw : ∀ e, 0 ≤ w e) (hpos : 0 < ∑ e, w e) : JP w w = 1 := by
  unfold JP
  simp only [max_self, and_self]
  have hterm : ∀ d : ι, 1 / ∑ e, w e / w d = w d / ∑ e, w e := by
    intro d; rw [← Finset.sum_div, one_div_div]
  simp_rw [hterm]
  rw [← Finset.sum_div, Finset.sum_filter_of_ne, div_self hpos.ne']
  intro d _ hd
  exact lt_of_le_of_ne (hw d) (Ne.symm hd)

/-- for `0/1` weights `J_P` is the ordinary Jaccard index `|A ∩ B| / |A ∪ B|` -/
theorem JP_indicator (A B : Finset ι) :
    JP (fun e => if e ∈ A then (1:ℝ) else 0) (fun e => if e ∈ B then (1:ℝ) else 0)
      = ((A ∩ B).card : ℝ) / ((A ∪ B).card : ℝ) := by
  unfold JP
  have hf : (Finset.univ.filter fun d => 0 < (if d ∈ A then (1:ℝ) else 0) ∧
      0 < (if d ∈ B then (1:ℝ) else 0)) = A ∩ B := by
    ext d; by_cases hA : d ∈ A <;> by_cases hB : d ∈ B <;> simp [hA, hB]
  rw [hf]
  have hterm : ∀ d ∈ A ∩ B,
      (1 / ∑ e, max ((if e ∈ A then (1:ℝ) else 0) / (if d ∈ A then (1:ℝ) else 0))
        ((if e ∈ B then (1:ℝ) else 0) / (if d ∈ B then (1:ℝ) else 0)))
        = 1 / ((A ∪ B).card : ℝ) := by
    intro d hd
    rw [Finset.mem_inter] at hd
    simp only [hd.1, hd.2, if_true, div_one]
    congr 1
    have : ∀ e, max (if e ∈ A then (1:ℝ) else 0) (if e ∈ B then (1:ℝ) else 0)
        = if e ∈ A ∪ B then 1 else 0 := by
      intro e; by_cases hA : e ∈ A <;> by_cases hB : e ∈ B <;> simp [hA, hB]
    simp_rw [this]
    simp only [Finset.sum_boole, Finset.filter_mem_eq_inter, Finset.univ_inter]
  rw [Finset.sum_congr rfl hterm, Finset.sum_const, nsmul_eq_mul, mul_one_div]


/-! ## (4) ties have probability zero; connection with `CS.argmin` -/

theorem exp1_singleton (a : ℝ) : exp1 {a} = 0 :=
  (withDensity_absolutelyContinuous (volume : Measure ℝ) (gammaPDF 1 1)) Real.volume_singleton

/-- a hyperplane `x e = k * x d` (`d ≠ e`) is a null set -/
theorem hyperplane_null {d e : ι} (hne : d ≠ e) (k : ℝ) : μ ι {x | x e = k * x d} = 0 := by
  have hT : MeasurableSet {x : ι → ℝ | x e = k * x d} :=
    measurableSet_eq_fun (f := fun x : ι → ℝ => x e) (g := fun x : ι → ℝ => k * x d)
      (by fun_prop) (by fun_prop)
  have hmeas : Measurable (({x : ι → ℝ | x e = k * x d}).indicator (1 : (ι → ℝ) → ℝ≥0∞)) :=
    measurable_one.indicator hT
  rw [← lintegral_indicator_one hT, lintegral_eq_lmarginal_univ (fun _ => 0),
    lmarginal_erase' _ hmeas (Finset.mem_univ e)]
  have inner : ∀ x : ι → ℝ, ∫⁻ t, ({x : ι → ℝ | x e = k * x d}).indicator (1 : (ι → ℝ) → ℝ≥0∞)
      (Function.update x e t) ∂exp1 = 0 := by
    intro x
    have : (fun t : ℝ => ({x : ι → ℝ | x e = k * x d}).indicator (1 : (ι → ℝ) → ℝ≥0∞)
        (Function.update x e t)) = ({k * x d} : Set ℝ).indicator 1 := by
      funext t
      have hm : Function.update x e t ∈ {x : ι → ℝ | x e = k * x d} ↔ t ∈ ({k * x d} : Set ℝ) := by
        simp [Function.update_of_ne hne]
      by_cases ht : t ∈ ({k * x d} : Set ℝ)
      · rw [indicator_of_mem ht, indicator_of_mem (hm.2 ht)]; rfl
      · rw [indicator_of_notMem ht, indicator_of_notMem (mt hm.1 ht)]
    rw [this, lintegral_indicator_one (measurableSet_singleton _), exp1_singleton]
  simp_rw [inner]
  simp [lmarginal]

/-- the items of positive weight -/
noncomputable def supp (w : ι → ℝ) : Finset ι := Finset.univ.filter fun d => 0 < w d

omit [DecidableEq ι] in
theorem mem_supp {w : ι → ℝ} {d : ι} : d ∈ supp w ↔ 0 < w d := by simp [supp]

/-- almost surely there are no ties among the scores `x d / w d` of the items of positive weight -/
theorem noTie_ae (w : ι → ℝ) :
    ∀ᵐ x ∂μ ι, Set.InjOn (fun d => x d / w d) (supp w : Set ι) := by
  have hnull : μ ι (⋃ d : ι, ⋃ e : ι, ⋃ (_ : d ≠ e), {x : ι → ℝ | x e = w e / w d * x d}) = 0 :=
    measure_iUnion_null fun d => measure_iUnion_null fun e => measure_iUnion_null fun h =>
      hyperplane_null h _
  rw [ae_iff]
  refine measure_mono_null ?_ hnull
  intro x hx
  simp only [Set.InjOn, mem_ofPred_eq, not_forall] at hx
  obtain ⟨d, hd, e, he, heq, hne⟩ := hx
  have hd' : 0 < w d := mem_supp.1 hd
  have he' : 0 < w e := mem_supp.1 he
  simp only [mem_iUnion, mem_ofPred_eq]
  refine ⟨d, e, hne, ?_⟩
  have heq' : x d / w d = x e / w e := heq
  field_simp at heq' ⊢
  linarith

omit [DecidableEq ι] in
/-- without ties, the strict winner is `CS.argmin` of the scores over the support -/
theorem winner_iff_argmin [Inhabited ι] {w : ι → ℝ} {x : ι → ℝ} (hne : (supp w).Nonempty)
    (hinj : Set.InjOn (fun d => x d / w d) (supp w : Set ι)) (d : ι) :
    winner w x d ↔ d = CS.argmin (fun d => x d / w d) (supp w) := by
  obtain ⟨hm, hmin⟩ := CS.argmin_spec (fun d => x d / w d) hne
  constructor
  · intro h
    by_contra hd
    have := h.2 _ (Ne.symm hd) (mem_supp.1 hm)
    exact absurd (hmin d (mem_supp.2 h.1)) (not_le.2 this)
  · rintro rfl
    refine ⟨mem_supp.1 hm, fun e he hwe => lt_of_le_of_ne (hmin e (mem_supp.2 hwe)) ?_⟩
    intro heq
    exact he (hinj (mem_supp.2 hwe) hm heq.symm)

omit [DecidableEq ι] in
/-- **(4)** without ties: "arg-min of `A` = arg-min of `B`" iff some item is the strict winner in both -/
theorem argmin_eq_iff_exists_winner [Inhabited ι] {wA wB : ι → ℝ} {x : ι → ℝ}
    (hneA : (supp wA).Nonempty) (hneB : (supp wB).Nonempty)
    (hinjA : Set.InjOn (fun d => x d / wA d) (supp wA : Set ι))
    (hinjB : Set.InjOn (fun d => x d / wB d) (supp wB : Set ι)) :
    CS.argmin (fun d => x d / wA d) (supp wA) = CS.argmin (fun d => x d / wB d) (supp wB) ↔
      ∃ d, winner wA x d ∧ winner wB x d := by
  constructor
  · intro h
    refine ⟨_, (winner_iff_argmin hneA hinjA _).2 rfl, (winner_iff_argmin hneB hinjB _).2 h⟩
  · rintro ⟨d, h1, h2⟩
    rw [← (winner_iff_argmin hneA hinjA d).1 h1, ← (winner_iff_argmin hneB hinjB d).1 h2]

/-- **C01, unequal weights**: with independent `Exp(1)` first-hit times, the probability that
the arg-min item of `A` (scores `x d / wA d`) equals the arg-min item of `B` is `J_P(A, B)` -/
theorem collision_law_argmin [Inhabited ι] {wA wB : ι → ℝ} (hA : ∀ e, 0 ≤ wA e)
    (hB : ∀ e, 0 ≤ wB e) (hneA : (supp wA).Nonempty) (hneB : (supp wB).Nonempty) :
    μ ι {x | CS.argmin (fun d => x d / wA d) (supp wA) = CS.argmin (fun d => x d / wB d) (supp wB)}
      = ENNReal.ofReal (JP wA wB) := by
  rw [← collision_law hA hB]
  apply measure_congr
  filter_upwards [noTie_ae wA, noTie_ae wB] with x h1 h2
  exact propext (argmin_eq_iff_exists_winner hneA hneB h1 h2)


/-! ## the expected fraction of colliding positions -/

omit [DecidableEq ι] in
theorem measurableSet_collision (wA wB : ι → ℝ) :
    MeasurableSet {x : ι → ℝ | ∃ d, winner wA x d ∧ winner wB x d} := by
  have : {x : ι → ℝ | ∃ d, winner wA x d ∧ winner wB x d}
      = ⋃ d, ({x | winner wA x d} ∩ {x | winner wB x d}) := by
    ext x; simp
  rw [this]
  exact MeasurableSet.iUnion fun d => (measurableSet_winner wA d).inter (measurableSet_winner wB d)

open Classical in
/-- **C01 (expected fraction)**: `m` positions, the vector of first-hit times of position `p` being
`X p` with marginal law `μ` (independent `Exp(1)` across ITEMS; nothing is assumed about the joint law
across positions): the expected fraction of positions at which `A` and `B` have the same winner is
`J_P(A, B)` -/
theorem expected_fraction {Ω : Type} [MeasurableSpace Ω] (P : Measure Ω) [IsProbabilityMeasure P]
    {m : ℕ} (hm : 0 < m) (X : Fin m → Ω → ι → ℝ) (hX : ∀ p, Measurable (X p))
    (hlaw : ∀ p, P.map (X p) = μ ι) {wA wB : ι → ℝ} (hA : ∀ e, 0 ≤ wA e) (hB : ∀ e, 0 ≤ wB e) :
    ∫ ω, ((Finset.univ.filter fun p => ∃ d, winner wA (X p ω) d ∧ winner wB (X p ω) d).card : ℝ)
      / m ∂P = JP wA wB := by
  set E : Set (ι → ℝ) := {x | ∃ d, winner wA x d ∧ winner wB x d} with hEdef
  have hE : MeasurableSet E := measurableSet_collision wA wB
  have hP : ∀ p, P.real (X p ⁻¹' E) = JP wA wB := by
    intro p
    rw [measureReal_def, ← Measure.map_apply (hX p) hE, hlaw p, collision_law hA hB,
      ENNReal.toReal_ofReal (JP_nonneg hA)]
  have hfun : ∀ ω, ((Finset.univ.filter fun p =>
      ∃ d, winner wA (X p ω) d ∧ winner wB (X p ω) d).card : ℝ)
        = ∑ p, (X p ⁻¹' E).indicator (1 : Ω → ℝ) ω := by
    intro ω
    rw [Finset.natCast_card_filter]
    refine Finset.sum_congr rfl fun p _ => ?_
    rw [Set.indicator_apply]
    exact if_congr Iff.rfl rfl rfl
  simp_rw [hfun]
  rw [integral_div, integral_finsetSum]
  · simp_rw [integral_indicator_one (hX _ hE), hP]
    rw [Finset.sum_const, Finset.card_univ, Fintype.card_fin, nsmul_eq_mul]
    have : (m : ℝ) ≠ 0 := Nat.cast_ne_zero.2 hm.ne'
    field_simp
  · intro p _
    exact (integrable_const (1:ℝ)).indicator (hX p hE)


/-- non-vacuity: `A = {0 ↦ 1, 1 ↦ 2}`, `B = {0 ↦ 2, 1 ↦ 1}` have `J_P = 2/3` -/
theorem JP_example : JP (ι := Fin 2) ![1, 2] ![2, 1] = 2 / 3 := by
  unfold JP
  have hf : (Finset.univ.filter fun d : Fin 2 => 0 < (![1, 2] : Fin 2 → ℝ) d ∧
      0 < (![2, 1] : Fin 2 → ℝ) d) = Finset.univ := by
    ext d; fin_cases d <;> simp
  rw [hf]
  simp only [Fin.sum_univ_two, Matrix.cons_val_zero, Matrix.cons_val_one]
  norm_num

end PMH.JpLaw

import PMH.Proofs.Dens
import PMH.Proofs.CS
import Mathlib.Data.Nat.Find
import Mathlib.Data.Finset.Image
import Mathlib.GroupTheory.Perm.Basic
import Mathlib.Data.Fintype.Prod
import Mathlib.Data.Fintype.Pi
/-!
# `DensSel`: optimal densification as a consistent-sampling (selection) scheme  (C08)

* Part 1 — `View`, `Stop`, `Src`: a relational, fuel-free description of "bin `k` finally shows the
  content of the originally populated bin `b`" for a probe function `probe k t` (= `t`-th bin probed
  for the empty bin `k`); `restriction`, `src_unique`, `src_congr`, `src_mono`.
* Part 2 — `probeOf o m k t`: the probe function of the model (`t`-th bin drawn from
  `o.mkRng (k + 123743)`).
* Part 3 — `densifyOpt_src`: a run of `Dens.densifyOpt` that returns refines `Src`; conversely
  (`densifyOpt_complete`) the run returns as soon as the relational stops lie within the fuel.
* Part 4 — the selection scheme `sel` of densified one-permutation hashing: (M), (R), collision.
* Part 5 — `finished_selects`, `finished_collision_iff`: the finished model sketch shows `sel`.
* Part 6 — the counting form (exact Jaccard collision law under exchangeable generators).
* Part 7 — non-vacuity: a toy instance satisfying every hypothesis of the counting form.
-/
namespace PMH.DensSel
open PMH

/-! ## Part 1 — the relational source of a bin -/
section Probe
variable {Item : Type}

/-- One set's view: which bins are populated, and the item shown by a populated bin. -/
structure View (Item : Type) where
  pop : Nat → Prop
  own : Nat → Item

variable (probe : Nat → Nat → Nat)

/-- stop condition of the probing loop for empty bin `k` at attempt `t` -/
def Stop (V : View Item) (k t : Nat) : Prop := probe k t < k ∨ V.pop (probe k t)

/-- `Src V k b`: bin `k` finally shows the content of populated bin `b` (relational, no fuel). -/
inductive Src (V : View Item) : Nat → Nat → Prop
  | self {k} : V.pop k → Src V k k
  | back {k t b} : ¬ V.pop k → Stop probe V k t → (∀ t' < t, ¬ Stop probe V k t') →
      probe k t < k → Src V (probe k t) b → Src V k b
  | hit {k t} : ¬ V.pop k → Stop probe V k t → (∀ t' < t, ¬ Stop probe V k t') →
      ¬ probe k t < k → Src V k (probe k t)

theorem src_pop {V : View Item} {k b : Nat} (h : Src probe V k b) : V.pop b := by
  induction h with
  | self hp => exact hp
  | back _ _ _ _ _ ih => exact ih
  | hit _ hs _ hn => exact hs.resolve_left hn

/-- `S ⊆ U` expressed on views: populated in `S` ⇒ populated in `U`; and whenever `U`'s item of a
bin lies in `S`, the bin is populated in `S` and shows the same item (argmin restriction). -/
structure Sub (inS : Item → Prop) (S U : View Item) : Prop where
  pop_mono : ∀ b, S.pop b → U.pop b
  restrict : ∀ b, U.pop b → inS (U.own b) → S.pop b ∧ S.own b = U.own b

theorem restriction {inS : Item → Prop} {S U : View Item} (hsub : Sub inS S U) :
    ∀ k b, Src probe U k b → inS (U.own b) → Src probe S k b ∧ S.own b = U.own b := by
  intro k b h
  induction h with
  | self hp =>
    intro hin
    obtain ⟨hs, he⟩ := hsub.restrict _ hp hin
    exact ⟨Src.self hs, he⟩
  | @back k t b hnp hstop hmin hlt _ ih =>
    intro hin
    obtain ⟨hs, he⟩ := ih hin
    refine ⟨Src.back (fun h => hnp (hsub.pop_mono _ h)) (Or.inl hlt) ?_ hlt hs, he⟩
    intro t' ht' hst
    exact hmin t' ht' (hst.elim Or.inl (fun h => Or.inr (hsub.pop_mono _ h)))
  | @hit k t hnp hstop hmin hn =>
    intro hin
    have hpU := hstop.resolve_left hn
    obtain ⟨hs, he⟩ := hsub.restrict _ hpU hin
    refine ⟨Src.hit (fun h => hnp (hsub.pop_mono _ h)) (Or.inr hs) ?_ hn, he⟩
    intro t' ht' hst
    exact hmin t' ht' (hst.elim Or.inl (fun h => Or.inr (hsub.pop_mono _ h)))

/-- the first stopping attempt is unique -/
theorem first_stop_unique {Item' : Type} {V : View Item} {W : View Item'} {k t t2 : Nat}
    (hVW : ∀ t, Stop probe V k t ↔ Stop probe W k t)
    (hstop : Stop probe V k t) (hmin : ∀ t' < t, ¬ Stop probe V k t')
    (hstop2 : Stop probe W k t2) (hmin2 : ∀ t' < t2, ¬ Stop probe W k t') : t = t2 := by
  rcases Nat.lt_trichotomy t t2 with h | h | h
  · exact absurd ((hVW t).mp hstop) (hmin2 t h)
  · exact h
  · exact absurd ((hVW t2).mpr hstop2) (hmin t2 h)

/-- `Src` is functional: a bin shows one source. -/
theorem src_unique {V : View Item} {k b b' : Nat} (h : Src probe V k b) (h' : Src probe V k b') :
    b = b' := by
  induction h generalizing b' with
  | self hp =>
    cases h' with
    | self _ => rfl
    | back hnp _ _ _ _ => exact absurd hp hnp
    | hit hnp _ _ _ => exact absurd hp hnp
  | @back k t b hnp hstop hmin hlt _ ih =>
    cases h' with
    | self hp => exact absurd hp hnp
    | @back _ t2 _ _ hstop2 hmin2 hlt2 hsrc2 =>
      have := first_stop_unique probe (fun _ => Iff.rfl) hstop hmin hstop2 hmin2
      subst this; exact ih hsrc2
    | @hit _ t2 _ hstop2 hmin2 hn2 =>
      have := first_stop_unique probe (fun _ => Iff.rfl) hstop hmin hstop2 hmin2
      subst this; exact absurd hlt hn2
  | @hit k t hnp hstop hmin hn =>
    cases h' with
    | self hp => exact absurd hp hnp
    | @back _ t2 _ _ hstop2 hmin2 hlt2 _ =>
      have := first_stop_unique probe (fun _ => Iff.rfl) hstop hmin hstop2 hmin2
      subst this; exact absurd hlt2 hn
    | @hit _ t2 _ hstop2 hmin2 _ =>
      have := first_stop_unique probe (fun _ => Iff.rfl) hstop hmin hstop2 hmin2
      subst this; rfl

/-- `Src` depends on the view only through its populated bins (the item types may differ). -/
theorem src_congr {Item' : Type} {V : View Item} {W : View Item'} (hpop : ∀ b, V.pop b ↔ W.pop b)
    {k b : Nat} (h : Src probe V k b) : Src probe W k b := by
  have hstop : ∀ k t, Stop probe V k t ↔ Stop probe W k t := fun k t => or_congr Iff.rfl (hpop _)
  induction h with
  | self hp => exact Src.self ((hpop _).mp hp)
  | back hnp hst hmin hlt _ ih =>
    exact Src.back (fun h => hnp ((hpop _).mpr h)) ((hstop _ _).mp hst)
      (fun t' ht' h => hmin t' ht' ((hstop _ _).mpr h)) hlt ih
  | hit hnp hst hmin hn =>
    exact Src.hit (fun h => hnp ((hpop _).mpr h)) ((hstop _ _).mp hst)
      (fun t' ht' h => hmin t' ht' ((hstop _ _).mpr h)) hn

/-- a stopping attempt yields a first stopping attempt -/
theorem exists_first_stop {V : View Item} {k t : Nat} (h : Stop probe V k t) :
    ∃ t0, t0 ≤ t ∧ Stop probe V k t0 ∧ ∀ t' < t0, ¬ Stop probe V k t' := by
  classical
  have hex : ∃ t, Stop probe V k t := ⟨t, h⟩
  exact ⟨Nat.find hex, Nat.find_min' hex h, Nat.find_spec hex, fun t' ht' => Nat.find_min hex ht'⟩

/-- termination is monotone: with more populated bins the probing still terminates
(only `pop_mono` is needed; the item types may differ). -/
theorem src_mono {Item' : Type} {S : View Item} {U : View Item'} (hpop : ∀ b, S.pop b → U.pop b)
    {k b : Nat} (h : Src probe S k b) : ∃ b', Src probe U k b' := by
  have hstop : ∀ k t, Stop probe S k t → Stop probe U k t :=
    fun k t h => h.elim Or.inl (fun h => Or.inr (hpop _ h))
  induction h with
  | self hp => exact ⟨_, Src.self (hpop _ hp)⟩
  | @back k t b hnp hst hmin hlt _ ih =>
    by_cases hU : U.pop k
    · exact ⟨_, Src.self hU⟩
    · obtain ⟨t0, ht0, hs0, hm0⟩ := exists_first_stop probe (hstop _ _ hst)
      by_cases hlt0 : probe k t0 < k
      · have : t0 = t := by
          rcases Nat.lt_or_eq_of_le ht0 with h | h
          · exact absurd (Or.inl hlt0) (hmin t0 h)
          · exact h
        subst this
        obtain ⟨b', hb'⟩ := ih
        exact ⟨b', Src.back hU hs0 hm0 hlt0 hb'⟩
      · exact ⟨_, Src.hit hU hs0 hm0 hlt0⟩
  | @hit k t hnp hst hmin hn =>
    by_cases hU : U.pop k
    · exact ⟨_, Src.self hU⟩
    · obtain ⟨t0, ht0, hs0, hm0⟩ := exists_first_stop probe (hstop _ _ hst)
      by_cases hlt0 : probe k t0 < k
      · have : t0 = t := by
          rcases Nat.lt_or_eq_of_le ht0 with h | h
          · exact absurd (Or.inl hlt0) (hmin t0 h)
          · exact h
        subst this
        exact absurd hlt0 hn
      · exact ⟨_, Src.hit hU hs0 hm0 hlt0⟩

end Probe

/-! ## Part 2 — the probe function of the model -/
section ProbeOf
variable {K G R : Type}

/-- the draw as a total function (`(0, r)` where the model's draw fails) -/
def drawT (o : DensOps K G R) (m : Nat) (r : R) : Nat × R :=
  match o.draw m r with
  | .ok p => p
  | .error _ => (0, r)

theorem drawT_of_ok {o : DensOps K G R} {m : Nat} {r : R} {p : Nat × R} (h : o.draw m r = .ok p) :
    drawT o m r = p := by
  unfold drawT; rw [h]

/-- the draw never fails -/
def DrawTotal (o : DensOps K G R) (m : Nat) : Prop := ∀ r, ∃ p, o.draw m r = .ok p

theorem draw_eq_drawT {o : DensOps K G R} {m : Nat} (h : DrawTotal o m) (r : R) :
    o.draw m r = .ok (drawT o m r) := by
  obtain ⟨p, hp⟩ := h r
  rw [hp, drawT_of_ok hp]

/-- generator state before the `t`-th probe for the empty bin `k` -/
def rngAt (o : DensOps K G R) (m k : Nat) : Nat → R
  | 0 => o.mkRng (k + 123743)
  | t + 1 => (drawT o m (rngAt o m k t)).2

/-- `probeOf o m k t`: the `t`-th bin drawn from the generator `o.mkRng (k + 123743)` of bin `k` -/
def probeOf (o : DensOps K G R) (m k t : Nat) : Nat := (drawT o m (rngAt o m k t)).1

end ProbeOf

/-! ## Part 3 — refinement: a returning `densifyOpt` computes `Src` -/
section Refine
open DensP
variable {K G R : Type}

/-- the view at the start of densification: flagged bins and their `(value, hash)` pairs -/
def V0 (large : K) (m : Nat) (s0 : Dens K) : View (K × Nat) :=
  ⟨fun b => b < m ∧ s0.init.getD b false = true, fun b => pair large s0 b⟩

/-- loop invariant of `densifyOpt.go` when bin `k` is about to be processed -/
structure GI (large : K) (m : Nat) (o : DensOps K G R) (s0 s : Dens K) (k : Nat) : Prop where
  sz1 : s.hsketch.size = m
  sz2 : s.values.size = m
  sz3 : s.init.size = m
  src : ∀ i, i < m → s.init.getD i false = true →
    ∃ b, Src (probeOf o m) (V0 large m s0) i b ∧ pair large s i = pair large s0 b
  below : ∀ i, i < k → i < m → s.init.getD i false = true
  above : ∀ i, i < m → s.init.getD i false = true → i < k ∨ s0.init.getD i false = true
  orig : ∀ i, i < m → s0.init.getD i false = true → s.init.getD i false = true

theorem GI.init [LinearOrder K] (large : K) (m : Nat) (o : DensOps K G R) (s0 : Dens K) (hinv : DInv large m s0) :
    GI large m o s0 s0 0 where
  sz1 := hinv.1
  sz2 := hinv.2.1
  sz3 := hinv.2.2.1
  src i hi h := ⟨i, Src.self ⟨hi, h⟩, rfl⟩
  below _ hi := absurd hi (Nat.not_lt_zero _)
  above _ _ h := Or.inr h
  orig _ _ h := h

theorem GI.step {large : K} {m : Nat} {o : DensOps K G R} {s0 s : Dens K} {k : Nat}
    (h : GI large m o s0 s k) (hp : s.init.getD k false = true) : GI large m o s0 s (k + 1) where
  sz1 := h.sz1
  sz2 := h.sz2
  sz3 := h.sz3
  src := h.src
  below i hi hm := by
    rcases Nat.lt_succ_iff_lt_or_eq.mp hi with hi | hi
    · exact h.below i hi hm
    · subst hi; exact hp
  above i hi hin := (h.above i hi hin).elim (fun h => Or.inl (Nat.lt_succ_of_lt h)) Or.inr
  orig := h.orig

/-- the model's stop test `init[j]` is `Stop`: all bins `< k` are filled, no bin `> k` has been -/
theorem GI.stop_iff {large : K} {m : Nat} {o : DensOps K G R} {s0 s : Dens K} {k : Nat}
    (h : GI large m o s0 s k) (j : Nat) (hj : j < m) :
    s.init.getD j false = true ↔ (j < k ∨ (V0 large m s0).pop j) :=
  ⟨fun hin => (h.above j hj hin).elim Or.inl (fun h => Or.inr ⟨hj, h⟩),
   fun hs => hs.elim (fun hlt => h.below j hlt hj) (fun hp => h.orig j hj hp.2)⟩

/-- the probing loop for the empty bin `k`, started at attempt `t` when no earlier attempt stopped:
a returning run fills `k` from its `Src`. -/
theorem probe_src (large : K) (m : Nat) (o : DensOps K G R) (s0 : Dens K) (k : Nat) (hk : k < m) :
    ∀ (fuel t : Nat) (s s' : Dens K), GI large m o s0 s k → s.init.getD k false = false →
      (∀ t' < t, ¬ Stop (probeOf o m) (V0 large m s0) k t') →
      Dens.probe o m s k fuel (rngAt o m k t) = .ok s' → GI large m o s0 s' (k + 1) := by
  intro fuel
  induction fuel with
  | zero => intro t s s' _ _ _ e; simp [Dens.probe] at e
  | succ f ih =>
    intro t s s' hgi hke hmin e
    simp only [Dens.probe] at e
    cases hd : o.draw m (rngAt o m k t) with
    | error er => rw [hd] at e; simp at e
    | ok res =>
      obtain ⟨j, r'⟩ := res
      rw [hd] at e
      dsimp only at e
      have hdt := drawT_of_ok hd
      have hprobe : probeOf o m k t = j := by unfold probeOf; rw [hdt]
      have hrng : rngAt o m k (t + 1) = r' := by simp only [rngAt]; rw [hdt]
      by_cases hj : j < m
      · have e1 : s.init[j]? = some (s.init.getD j false) := by
          simp [Array.getD_eq_getD_getElem?, hgi.sz3, hj]
        have e2 : s.values[j]? = some (s.values.getD j Dens.u64Max) := by
          simp [Array.getD_eq_getD_getElem?, hgi.sz2, hj]
        have e3 : s.hsketch[j]? = some (s.hsketch.getD j large) := by
          simp [Array.getD_eq_getD_getElem?, hgi.sz1, hj]
        rw [e1, e2, e3] at e
        have hk1 : k < s.hsketch.size := by rw [hgi.sz1]; exact hk
        have hk2 : k < s.values.size := by rw [hgi.sz2]; exact hk
        have hk3 : k < s.init.size := by rw [hgi.sz3]; exact hk
        by_cases hjp : s.init.getD j false = true
        · simp only [hjp] at e
          injection e with e; subst e
          subst hprobe
          have hnpop : ¬ (V0 large m s0).pop k := by
            intro hp
            have := hgi.orig k hk hp.2
            rw [hke] at this; cases this
          have hstop : Stop (probeOf o m) (V0 large m s0) k t := (hgi.stop_iff _ hj).mp hjp
          refine ⟨by simp [hgi.sz1], by simp [hgi.sz2], by simp [hgi.sz3], ?_, ?_, ?_, ?_⟩
          · intro i hi hin
            by_cases hik : i = k
            · subst hik
              obtain ⟨b, hsrc, hpair⟩ := hgi.src _ hj hjp
              have hpk : pair large
                  { s with values := s.values.setIfInBounds i (s.values.getD (probeOf o m i t) Dens.u64Max),
                           hsketch := s.hsketch.setIfInBounds i (s.hsketch.getD (probeOf o m i t) large),
                           init := s.init.setIfInBounds i true, nbEmpty := s.nbEmpty - 1 } i
                  = pair large s (probeOf o m i t) := by
                simp only [pair, getD_set _ _ _ _ _ hk1, getD_set _ _ _ _ _ hk2, if_true]
              rw [hpk]
              by_cases hlt : probeOf o m i t < i
              · exact ⟨b, Src.back hnpop hstop hmin hlt hsrc, hpair⟩
              · have hpj : (V0 large m s0).pop (probeOf o m i t) := hstop.resolve_left hlt
                have hb : b = probeOf o m i t := src_unique _ hsrc (Src.self hpj)
                subst hb
                exact ⟨_, Src.hit hnpop hstop hmin hlt, hpair⟩
            · rw [getD_set _ _ _ _ _ hk3] at hin
              simp only [hik, if_false] at hin
              obtain ⟨b, hsrc, hpair⟩ := hgi.src i hi hin
              refine ⟨b, hsrc, ?_⟩
              simp only [pair, getD_set _ _ _ _ _ hk1, getD_set _ _ _ _ _ hk2, hik, if_false]
              exact hpair
          · intro i hi hm
            rw [getD_set _ _ _ _ _ hk3]
            split
            · rfl
            · rename_i hik
              exact hgi.below i (by omega) hm
          · intro i hi hin
            rw [getD_set _ _ _ _ _ hk3] at hin
            by_cases hik : i = k
            · exact Or.inl (by omega)
            · simp only [hik, if_false] at hin
              exact (hgi.above i hi hin).elim (fun h => Or.inl (by omega)) Or.inr
          · intro i hi h0
            rw [getD_set _ _ _ _ _ hk3]
            split
            · rfl
            · exact hgi.orig i hi h0
        · have hjf : s.init.getD j false = false := by simpa using hjp
          simp only [hjf] at e
          rw [← hrng] at e
          refine ih (t + 1) s s' hgi hke ?_ e
          intro t' ht'
          rcases Nat.lt_succ_iff_lt_or_eq.mp ht' with h | h
          · exact hmin t' h
          · subst h
            intro hst
            unfold Stop at hst
            rw [hprobe] at hst
            exact hjp ((hgi.stop_iff j hj).mpr hst)
      · have e1 : s.init[j]? = none := by simp [hgi.sz3]; omega
        rw [e1] at e
        simp at e

theorem go_src (large : K) (m : Nat) (o : DensOps K G R) (fuel : Nat) (s0 : Dens K) :
    ∀ (n k : Nat) (s s' : Dens K), GI large m o s0 s k → k + n = m →
      Dens.densifyOpt.go o fuel m n k s = .ok s' → GI large m o s0 s' m := by
  intro n
  induction n with
  | zero =>
    intro k s s' hgi hkn e
    simp only [Dens.densifyOpt.go] at e
    injection e with e; subst e
    have : k = m := by omega
    subst this; exact hgi
  | succ n ih =>
    intro k s s' hgi hkn e
    simp only [Dens.densifyOpt.go] at e
    have hk : k < m := by omega
    have e1 : s.init[k]? = some (s.init.getD k false) := by
      simp [Array.getD_eq_getD_getElem?, hgi.sz3, hk]
    rw [e1] at e
    by_cases hp : s.init.getD k false = true
    · simp only [hp] at e
      exact ih (k + 1) s s' (hgi.step hp) (by omega) e
    · have hf : s.init.getD k false = false := by simpa using hp
      simp only [hf] at e
      cases hpr : Dens.probe o m s k fuel (o.mkRng (k + 123743)) with
      | error er => rw [hpr] at e; simp at e
      | ok s1 =>
        rw [hpr] at e
        dsimp only at e
        have hgi1 := probe_src large m o s0 k hk fuel 0 s s1 hgi hf
          (fun t' ht' => absurd ht' (Nat.not_lt_zero _)) hpr
        exact ih (k + 1) s1 s' hgi1 (by omega) e

/-- **Refinement.** A run of the optimal densification that returns has filled every bin `k` from
its relational source: there is `b` with `Src (probeOf o m) V0 k b`, and bin `k` of the result holds
the `(value, hash)` pair that bin `b` had at the start.  (No hypothesis on the draws is needed: in a
run that returns, every draw that was made succeeded and was `< m`.) -/
theorem densifyOpt_src [LinearOrder K] (large : K) (m : Nat) (o : DensOps K G R) (fuel : Nat) (s0 s' : Dens K)
    (hinv : DInv large m s0) (e : Dens.densifyOpt o fuel s0 = .ok s') :
    ∀ k, k < m → ∃ b, Src (probeOf o m) (V0 large m s0) k b ∧ pair large s' k = pair large s0 b := by
  unfold Dens.densifyOpt at e
  dsimp only at e
  split at e
  · simp at e
  · rw [hinv.1] at e
    cases hg : Dens.densifyOpt.go o fuel m m 0 s0 with
    | error er => rw [hg] at e; simp at e
    | ok s1 =>
      rw [hg] at e
      dsimp only at e
      split at e
      · simp at e
      · injection e with e; subst e
        have hgi := go_src large m o fuel s0 m 0 s0 s1 (GI.init large m o s0 hinv) (by omega) hg
        intro k hk
        exact hgi.src k hk (hgi.below k hk hk)

end Refine

/-! ### the converse direction: the run returns as soon as the stops lie within the fuel -/
section Complete
open DensP
variable {K G R : Type}

/-- the probing loop for bin `k`, started at attempt `t`, returns if some attempt in
`[t, t + fuel)` stops -/
theorem probe_complete (large : K) (m : Nat) (o : DensOps K G R) (hd : DrawTotal o m)
    (hlt : ∀ r, (drawT o m r).1 < m) (s0 : Dens K) (k : Nat) :
    ∀ (fuel t : Nat) (s : Dens K), GI large m o s0 s k →
      (∃ i, t ≤ i ∧ i < t + fuel ∧ Stop (probeOf o m) (V0 large m s0) k i) →
      ∃ s', Dens.probe o m s k fuel (rngAt o m k t) = .ok s' := by
  intro fuel
  induction fuel with
  | zero => rintro t s _ ⟨i, h1, h2, _⟩; omega
  | succ f ih =>
    rintro t s hgi ⟨i, h1, h2, hst⟩
    simp only [Dens.probe]
    obtain ⟨⟨j, r'⟩, hdr⟩ := hd (rngAt o m k t)
    rw [hdr]
    dsimp only
    have hdt := drawT_of_ok hdr
    have hprobe : probeOf o m k t = j := by unfold probeOf; rw [hdt]
    have hrng : rngAt o m k (t + 1) = r' := by simp only [rngAt]; rw [hdt]
    have hj : j < m := by have := hlt (rngAt o m k t); rw [hdt] at this; exact this
    have e1 : s.init[j]? = some (s.init.getD j false) := by
      simp [Array.getD_eq_getD_getElem?, hgi.sz3, hj]
    have e2 : s.values[j]? = some (s.values.getD j Dens.u64Max) := by
      simp [Array.getD_eq_getD_getElem?, hgi.sz2, hj]
    have e3 : s.hsketch[j]? = some (s.hsketch.getD j large) := by
      simp [Array.getD_eq_getD_getElem?, hgi.sz1, hj]
    rw [e1, e2, e3]
    by_cases hjp : s.init.getD j false = true
    · simp only [hjp]
      exact ⟨_, rfl⟩
    · have hjf : s.init.getD j false = false := by simpa using hjp
      simp only [hjf]
      rw [← hrng]
      refine ih (t + 1) s hgi ⟨i, ?_, by omega, hst⟩
      rcases Nat.lt_or_eq_of_le h1 with h | h
      · exact h
      · subst h
        unfold Stop at hst
        rw [hprobe] at hst
        exact absurd ((hgi.stop_iff j hj).mpr hst) hjp

theorem go_complete (large : K) (m : Nat) (o : DensOps K G R) (hd : DrawTotal o m)
    (hlt : ∀ r, (drawT o m r).1 < m) (fuel : Nat) (s0 : Dens K)
    (hfuel : ∀ k, k < m → ¬ (V0 large m s0).pop k →
      ∃ i, i < fuel ∧ Stop (probeOf o m) (V0 large m s0) k i) :
    ∀ (n k : Nat) (s : Dens K), GI large m o s0 s k → k + n = m →
      ∃ s', Dens.densifyOpt.go o fuel m n k s = .ok s' := by
  intro n
  induction n with
  | zero => intro k s _ _; exact ⟨s, rfl⟩
  | succ n ih =>
    intro k s hgi hkn
    simp only [Dens.densifyOpt.go]
    have hk : k < m := by omega
    have e1 : s.init[k]? = some (s.init.getD k false) := by
      simp [Array.getD_eq_getD_getElem?, hgi.sz3, hk]
    rw [e1]
    by_cases hp : s.init.getD k false = true
    · simp only [hp]
      exact ih (k + 1) s (hgi.step hp) (by omega)
    · have hf : s.init.getD k false = false := by simpa using hp
      simp only [hf]
      have hnpop : ¬ (V0 large m s0).pop k := fun h => hp (hgi.orig k hk h.2)
      obtain ⟨i, hi, hst⟩ := hfuel k hk hnpop
      obtain ⟨s1, hs1⟩ := probe_complete large m o hd hlt s0 k fuel 0 s hgi
        ⟨i, Nat.zero_le _, by omega, hst⟩
      have hs1' : Dens.probe o m s k fuel (o.mkRng (k + 123743)) = .ok s1 := hs1
      rw [hs1']
      dsimp only
      exact ih (k + 1) s1 (probe_src large m o s0 k hk fuel 0 s s1 hgi hf
        (fun t' ht' => absurd ht' (Nat.not_lt_zero _)) hs1) (by omega)

theorem count_false_lt (a : Array Bool) (b : Nat) (hb : b < a.size) (h : a.getD b false = true) :
    a.toList.count false < a.size := by
  by_contra hge
  have hle := List.count_le_length (a := false) (l := a.toList)
  have heq : a.toList.count false = a.toList.length := by
    rw [Array.length_toList] at hle ⊢; omega
  have hall := List.count_eq_length.mp heq
  have hmem : a.getD b false ∈ a.toList := by
    simp only [Array.getD_eq_getD_getElem?, hb, Array.getElem?_eq_getElem, Option.getD_some]
    exact Array.getElem_mem_toList hb
  have := hall _ hmem
  rw [h] at this
  cases this

theorem count_false_zero (a : Array Bool) (h : ∀ k, k < a.size → a.getD k false = true) :
    a.toList.count false = 0 := by
  rw [List.count_eq_zero]
  intro hmem
  obtain ⟨i, hi, he⟩ := List.mem_iff_getElem.mp hmem
  rw [Array.length_toList] at hi
  have := h i hi
  simp only [Array.getD_eq_getD_getElem?, hi, Array.getElem?_eq_getElem, Option.getD_some] at this
  rw [Array.getElem_toList] at he
  rw [he] at this
  cases this

/-- **Converse of the refinement.**  If the draws never fail and stay `< m`, some bin is populated,
and for every empty bin `k` some attempt `< fuel` stops (in the relational sense, i.e. with respect
to the start state), then the optimal densification returns. -/
theorem densifyOpt_complete [LinearOrder K] (large : K) (m : Nat) (o : DensOps K G R) (fuel : Nat)
    (s0 : Dens K) (hinv : DInv large m s0) (hd : DrawTotal o m) (hlt : ∀ r, (drawT o m r).1 < m)
    (hpop : ∃ b, (V0 large m s0).pop b)
    (hfuel : ∀ k, k < m → ¬ (V0 large m s0).pop k →
      ∃ i, i < fuel ∧ Stop (probeOf o m) (V0 large m s0) k i) :
    ∃ s', Dens.densifyOpt o fuel s0 = .ok s' := by
  obtain ⟨s1, hs1⟩ := go_complete large m o hd hlt fuel s0 hfuel m 0 s0 (GI.init large m o s0 hinv)
    (by omega)
  have hgi := go_src large m o fuel s0 m 0 s0 s1 (GI.init large m o s0 hinv) (by omega) hs1
  obtain ⟨hkeep, _, _⟩ := go_keeps large m o fuel s0 m 0 s0 s1 (keeps_refl large m s0 hinv) (by omega) hs1
  have hz : s1.nbEmpty = 0 := by
    rw [hkeep.2.2.2.1, count_false_zero s1.init (fun k hk => hgi.below k (by rw [← hgi.sz3]; exact hk)
      (by rw [← hgi.sz3]; exact hk))]
    rfl
  obtain ⟨b, hb, hbp⟩ := hpop
  have hnb : ¬ s0.nbEmpty ≥ (s0.hsketch.size : Int) := by
    rw [hinv.2.2.2.1, hinv.1]
    have := count_false_lt s0.init b (by rw [hinv.2.2.1]; exact hb) hbp
    rw [hinv.2.2.1] at this
    omega
  refine ⟨s1, ?_⟩
  unfold Dens.densifyOpt
  dsimp only
  rw [if_neg hnb, hinv.1, hs1]
  dsimp only
  rw [if_neg (by rw [hz]; simp)]

end Complete

/-! ## Part 4 — the selection scheme -/
section Select
variable {Item V : Type} [DecidableEq Item] [Inhabited Item] [LinearOrder V]
variable (probe : Nat → Nat → Nat) (bin : Item → Nat) (score : Item → V)

/-- sketch-phase view of the item set `S`: bin `b` is populated iff an item of `S` lands on it, and
then shows the item of smallest score among those. -/
noncomputable def viewG (S : Finset Item) : View Item :=
  ⟨fun b => ∃ d ∈ S, bin d = b, fun b => CS.argmin score (S.filter (fun d => bin d = b))⟩

omit [DecidableEq Item] in
theorem viewG_own_spec {S : Finset Item} {b : Nat} (hp : (viewG bin score S).pop b) :
    (viewG bin score S).own b ∈ S ∧ bin ((viewG bin score S).own b) = b ∧
      ∀ d ∈ S, bin d = b → score ((viewG bin score S).own b) ≤ score d := by
  obtain ⟨d, hd, hb⟩ := hp
  have hne : (S.filter (fun d => bin d = b)).Nonempty := ⟨d, Finset.mem_filter.mpr ⟨hd, hb⟩⟩
  obtain ⟨h1, h2⟩ := CS.argmin_spec score hne
  obtain ⟨h3, h4⟩ := Finset.mem_filter.mp h1
  exact ⟨h3, h4, fun d' hd' hb' => h2 d' (Finset.mem_filter.mpr ⟨hd', hb'⟩)⟩

omit [DecidableEq Item] in
/-- any item of `S` on bin `b` that minimises the (tie-free) score is the one shown -/
theorem viewG_own_eq (hs : Function.Injective score) {S : Finset Item} {b : Nat} {d : Item}
    (hd : d ∈ S) (hb : bin d = b) (hmin : ∀ d' ∈ S, bin d' = b → score d ≤ score d') :
    (viewG bin score S).own b = d :=
  (CS.argmin_unique hs (Finset.mem_filter.mpr ⟨hd, hb⟩)
    (fun d' hd' => hmin d' (Finset.mem_filter.mp hd').1 (Finset.mem_filter.mp hd').2)).symm

omit [DecidableEq Item] in
/-- `S ⊆ U` on item sets gives `Sub` on views (argmin restriction) -/
theorem viewG_sub (hs : Function.Injective score) {S U : Finset Item} (hSU : S ⊆ U) :
    Sub (· ∈ S) (viewG bin score S) (viewG bin score U) where
  pop_mono := fun _ ⟨d, hd, hb⟩ => ⟨d, hSU hd, hb⟩
  restrict := by
    intro b hp hin
    obtain ⟨_, h2, h3⟩ := viewG_own_spec bin score hp
    refine ⟨⟨_, hin, h2⟩, viewG_own_eq bin score hs hin h2 (fun d' hd' hb' => h3 d' (hSU hd') hb')⟩

/-- the probing for bin `k` terminates for the item set `S` -/
def TermAt (S : Finset Item) (k : Nat) : Prop := ∃ b, Src probe (viewG bin score S) k b

/-- the probing terminates for every bin `< m` -/
def Terminates (m : Nat) (S : Finset Item) : Prop := ∀ k, k < m → TermAt probe bin score S k

open Classical in
/-- the item finally shown at position `k` for the item set `S`: the item owned by the `Src`-source
of `k` (`default` if the probing does not terminate) -/
noncomputable def selG (S : Finset Item) (k : Nat) : Item :=
  if h : ∃ b, Src probe (viewG bin score S) k b then (viewG bin score S).own h.choose else default

omit [DecidableEq Item] in
theorem selG_eq {S : Finset Item} {k b : Nat} (h : Src probe (viewG bin score S) k b) :
    selG probe bin score S k = (viewG bin score S).own b := by
  have hex : ∃ b, Src probe (viewG bin score S) k b := ⟨b, h⟩
  unfold selG
  rw [dif_pos hex, src_unique probe hex.choose_spec h]

omit [DecidableEq Item] in
/-- (M) the selected item belongs to the set -/
theorem selG_mem {S : Finset Item} {k : Nat} (h : TermAt probe bin score S k) :
    selG probe bin score S k ∈ S := by
  obtain ⟨b, hb⟩ := h
  rw [selG_eq probe bin score hb]
  exact (viewG_own_spec bin score (src_pop probe hb)).1

omit [DecidableEq Item] in
/-- termination is monotone in the item set -/
theorem termAt_mono {S U : Finset Item} (hSU : S ⊆ U) {k : Nat} (h : TermAt probe bin score S k) :
    TermAt probe bin score U k := by
  obtain ⟨b, hb⟩ := h
  exact src_mono probe (S := viewG bin score S) (U := viewG bin score U)
    (fun _ hp => hp.elim fun d hd => ⟨d, hSU hd.1, hd.2⟩) hb

omit [DecidableEq Item] in
/-- (R) restriction: if the item selected for a superset lies in `S`, `S` selects it as well
(and its probing terminates) -/
theorem selG_restrict (hs : Function.Injective score) {S U : Finset Item} (hSU : S ⊆ U) {k : Nat}
    (hU : TermAt probe bin score U k) (hin : selG probe bin score U k ∈ S) :
    TermAt probe bin score S k ∧ selG probe bin score S k = selG probe bin score U k := by
  obtain ⟨b, hb⟩ := hU
  rw [selG_eq probe bin score hb] at hin ⊢
  obtain ⟨h1, h2⟩ := restriction probe (viewG_sub bin score hs hSU) k b hb hin
  exact ⟨⟨b, h1⟩, by rw [selG_eq probe bin score h1, h2]⟩

open Classical in
/-- `selG`, completed by the smallest-score item where the probing does not terminate -/
noncomputable def selT (S : Finset Item) (k : Nat) : Item :=
  if TermAt probe bin score S k then selG probe bin score S k else CS.argmin score S

/-- **densified one-permutation hashing is a selection scheme** (`CS.Scheme`): (M) and (R) hold for
every nonempty set and every position -/
noncomputable def selScheme (hs : Function.Injective score) : CS.Scheme Item Nat where
  c := selT probe bin score
  mem S k hS := by
    unfold selT
    split
    · exact selG_mem probe bin score ‹_›
    · exact (CS.argmin_spec score hS).1
  restrict S U k hSU hS hin := by
    by_cases hU : TermAt probe bin score U k
    · simp only [selT, hU, if_true] at hin ⊢
      obtain ⟨h1, h2⟩ := selG_restrict probe bin score hs hSU hU hin
      simp only [h1, if_true, h2]
    · have hS' : ¬ TermAt probe bin score S k := fun h => hU (termAt_mono probe bin score hSU h)
      simp only [selT, hU, hS', if_false] at hin ⊢
      exact (CS.argmin_unique hs hin
        (fun d' hd' => (CS.argmin_spec score ⟨d', hSU hd'⟩).2 d' (hSU hd'))).symm

omit [DecidableEq Item] in
theorem termAt_nonempty {S : Finset Item} {k : Nat} (h : TermAt probe bin score S k) : S.Nonempty :=
  ⟨_, selG_mem probe bin score h⟩

/-- **collision ⇔ the item selected for the union lies in the intersection** (via `CS.cs_collision`);
termination for `A ∪ B` follows from that for `A`. -/
theorem selG_collision (hs : Function.Injective score) {A B : Finset Item} {k : Nat}
    (hA : TermAt probe bin score A k) (hB : TermAt probe bin score B k) :
    selG probe bin score A k = selG probe bin score B k ↔ selG probe bin score (A ∪ B) k ∈ A ∩ B := by
  have hU : TermAt probe bin score (A ∪ B) k := termAt_mono probe bin score Finset.subset_union_left hA
  have h := CS.cs_collision (selScheme probe bin score hs) (termAt_nonempty probe bin score hA)
    (termAt_nonempty probe bin score hB) k
  simpa only [selScheme, selT, hA, hB, hU, if_true] using h

end Select

/-! ### the scheme of the model: items are 64-bit hashes `h`, with generator `gen h` -/
section Hashes
open DensP Race
variable {K G R : Type} [LinearOrder K]
variable (t : TOps K G R) (gen : Nat → G) (m : Nat)

/-- the bin the hash `h` lands on -/
def binOf (h : Nat) : Nat := (t.fk m (t.fr (gen h)).2).1

/-- the score of the hash `h`: `(r, h)`, compared lexicographically -/
def key (h : Nat) : Lex (K × Nat) := toLex ((t.fr (gen h)).1, h)

omit [LinearOrder K] in
theorem key_injective : Function.Injective (key t gen) := by
  intro a b h
  have := congrArg (fun x => (ofLex x).2) h
  simpa [key] using this

omit [LinearOrder K] in
theorem itemPt_eq (h : Nat) : itemPt t m h (gen h) = ⟨binOf t gen m h, key t gen h, ()⟩ := rfl

/-- sketch-phase view of the hash set `S` -/
noncomputable def viewOf (S : Finset Nat) : View Nat := viewG (binOf t gen m) (key t gen) S

/-- `S ⊆ U` gives `Sub` on the sketch-phase views -/
theorem viewOf_sub {S U : Finset Nat} (hSU : S ⊆ U) :
    Sub (· ∈ S) (viewOf t gen m S) (viewOf t gen m U) :=
  viewG_sub _ _ (key_injective t gen) hSU

/-- the probing for bin `k` terminates for the hash set `S` -/
def TermAtH (S : Finset Nat) (k : Nat) : Prop := ∃ b, Src (probeOf t.toOps m) (viewOf t gen m S) k b

/-- the probing terminates for every bin -/
def TerminatesH (S : Finset Nat) : Prop := ∀ k, k < m → TermAtH t gen m S k

/-- **the final selection**: the hash shown at position `k` of the finished sketch of `S` -/
noncomputable def sel (S : Finset Nat) (k : Nat) : Nat :=
  selG (probeOf t.toOps m) (binOf t gen m) (key t gen) S k

theorem sel_eq {S : Finset Nat} {k b : Nat} (h : Src (probeOf t.toOps m) (viewOf t gen m S) k b) :
    sel t gen m S k = (viewOf t gen m S).own b := selG_eq _ _ _ h

/-- (M) -/
theorem sel_mem {S : Finset Nat} {k : Nat} (h : TermAtH t gen m S k) : sel t gen m S k ∈ S :=
  selG_mem _ _ _ h

/-- (R) -/
theorem sel_restrict {S U : Finset Nat} (hSU : S ⊆ U) {k : Nat} (hU : TermAtH t gen m U k)
    (hin : sel t gen m U k ∈ S) : sel t gen m S k = sel t gen m U k :=
  (selG_restrict _ _ _ (key_injective t gen) hSU hU hin).2

theorem termAtH_mono {S U : Finset Nat} (hSU : S ⊆ U) {k : Nat} (h : TermAtH t gen m S k) :
    TermAtH t gen m U k := termAt_mono _ _ _ hSU h

/-- collision ⇔ the hash selected for the union lies in the intersection -/
theorem sel_collision {A B : Finset Nat} {k : Nat} (hA : TermAtH t gen m A k)
    (hB : TermAtH t gen m B k) :
    sel t gen m A k = sel t gen m B k ↔ sel t gen m (A ∪ B) k ∈ A ∩ B :=
  selG_collision _ _ _ (key_injective t gen) hA hB

/-! ## Part 5 — tie to the model -/

/-- items of a stream as (hash, generator) pairs: the generator is seeded with the hash -/
def withGen (hs : List Nat) : List (Nat × G) := hs.map (fun h => (h, gen h))

/-- **sketch phase**: after streaming `hs` into a fresh sketcher, the flagged bins are exactly the
populated bins of `viewOf hs.toFinset`, and a flagged bin holds `(r, h)` of the hash the view shows. -/
theorem sketch_view (large : K) (hn : Nice t m) (hr : ∀ g, (t.fr g).1 < large) (hs : List Nat)
    (s1 : Dens K) (e : stream t.toOps (Dens.new large m) (withGen gen hs) = .ok s1) :
    DInv large m s1 ∧
    (∀ b, (V0 large m s1).pop b ↔ (viewOf t gen m hs.toFinset).pop b) ∧
    (∀ b, (viewOf t gen m hs.toFinset).pop b →
      pair large s1 b = ofLex (key t gen ((viewOf t gen m hs.toFinset).own b))) := by
  obtain ⟨inv0, sp0⟩ := new_inv (K := K) large m
  obtain ⟨s', e', inv', sp'⟩ := stream_spec large m t hn hr (withGen gen hs) _ _ inv0 sp0
  rw [e] at e'; injection e' with e'; subst e'
  -- points of the stream
  have hpts : ∀ pt ∈ (∅ : Set (Pt (V K) Unit)) ∪ streamPts t m (withGen gen hs),
      ∃ h ∈ hs, pt = ⟨binOf t gen m h, key t gen h, ()⟩ := by
    rintro pt (hpt | ⟨it, hit, rfl⟩)
    · exact absurd hpt (Set.notMem_empty _)
    · obtain ⟨h, hh, rfl⟩ := List.mem_map.mp hit
      exact ⟨h, hh, rfl⟩
  have hmem : ∀ h ∈ hs, (⟨binOf t gen m h, key t gen h, ()⟩ : Pt (V K) Unit) ∈
      (∅ : Set (Pt (V K) Unit)) ∪ streamPts t m (withGen gen hs) :=
    fun h hh => Or.inr ⟨(h, gen h), List.mem_map.mpr ⟨h, hh, rfl⟩, rfl⟩
  have hlb : ∀ h ∈ hs, (view large s1).reg (binOf t gen m h) ≤ key t gen h :=
    fun h hh => sp'.1 _ (hmem h hh)
  have hkeylt : ∀ h, key t gen h < topV large := by
    intro h; unfold key topV; rw [Prod.Lex.toLex_lt_toLex]; exact Or.inl (hr _)
  -- a flagged bin holds a minimal streamed hash
  have hflag : ∀ b, b < m → s1.init.getD b false = true →
      ∃ h ∈ hs, binOf t gen m h = b ∧ key t gen h = (view large s1).reg b := by
    intro b hb hf
    have hlt := (inv'.2.2.2.2 b hb).mp hf
    obtain ⟨pt, hpt, p1, _, p3⟩ := spec_tag_mem sp' b hb hlt
    obtain ⟨h, hh, rfl⟩ := hpts pt hpt
    exact ⟨h, hh, p1, p3⟩
  have hpop : ∀ b, (V0 large m s1).pop b ↔ (viewOf t gen m hs.toFinset).pop b := by
    intro b
    constructor
    · rintro ⟨hb, hf⟩
      obtain ⟨h, hh, h1, _⟩ := hflag b hb hf
      exact ⟨h, List.mem_toFinset.mpr hh, h1⟩
    · rintro ⟨h, hh, rfl⟩
      have hh' := List.mem_toFinset.mp hh
      refine ⟨hn _, (inv'.2.2.2.2 _ (hn _)).mpr (lt_of_le_of_lt (hlb h hh') (hkeylt h))⟩
  refine ⟨inv', hpop, ?_⟩
  intro b hp
  obtain ⟨hb, hf⟩ := (hpop b).mpr hp
  obtain ⟨h, hh, h1, h2⟩ := hflag b hb hf
  have hown : (viewOf t gen m hs.toFinset).own b = h := by
    apply viewG_own_eq _ _ (key_injective t gen) (List.mem_toFinset.mpr hh) h1
    intro d' hd' hb'
    rw [h2, ← hb']
    exact hlb d' (List.mem_toFinset.mp hd')
  rw [hown, h2]
  rfl

/-- a bin of the finished sketch that holds the start pair of its `Src`-source shows `sel` -/
theorem selects_of_src (large : K) (hn : Nice t m) (hr : ∀ g, (t.fr g).1 < large) (hs : List Nat)
    (s1 s' : Dens K) (e : stream t.toOps (Dens.new large m) (withGen gen hs) = .ok s1) (k : Nat)
    (h : ∃ b, Src (probeOf t.toOps m) (V0 large m s1) k b ∧ pair large s' k = pair large s1 b) :
    TermAtH t gen m hs.toFinset k ∧
    s'.values.getD k Dens.u64Max = sel t gen m hs.toFinset k ∧
    s'.hsketch.getD k large = (t.fr (gen (sel t gen m hs.toFinset k))).1 := by
  obtain ⟨_, hpop, hown⟩ := sketch_view t gen m large hn hr hs s1 e
  obtain ⟨b, hsrc, hpair⟩ := h
  have hsrc' : Src (probeOf t.toOps m) (viewOf t gen m hs.toFinset) k b := src_congr _ hpop hsrc
  have hp := hown b (src_pop _ hsrc')
  rw [← hpair, ← sel_eq t gen m hsrc'] at hp
  simp only [pair, key, ofLex_toLex, Prod.mk.injEq] at hp
  exact ⟨⟨b, hsrc'⟩, hp.2, hp.1⟩

/-- **the finished sketch shows `sel`**: stream `hs` (any order, any repetition) into a fresh
sketcher, finish with the optimal densification; if the run returns, position `k` holds the hash
`sel hs.toFinset k` (and the `r` that hash drew), and the relational probing terminates. -/
theorem finished_selects (large : K) (hn : Nice t m) (hr : ∀ g, (t.fr g).1 < large) (hs : List Nat)
    (fuel : Nat) (s1 s' : Dens K)
    (e1 : stream t.toOps (Dens.new large m) (withGen gen hs) = .ok s1)
    (e2 : Dens.densifyOpt t.toOps fuel s1 = .ok s') (k : Nat) (hk : k < m) :
    TermAtH t gen m hs.toFinset k ∧
    s'.values.getD k Dens.u64Max = sel t gen m hs.toFinset k ∧
    s'.hsketch.getD k large = (t.fr (gen (sel t gen m hs.toFinset k))).1 := by
  have hinv := (sketch_view t gen m large hn hr hs s1 e1).1
  exact selects_of_src t gen m large hn hr hs s1 s' e1 k
    (densifyOpt_src large m t.toOps fuel s1 s' hinv e2 k hk)

/-- the same for `end_sketch` with the optimal densification (which skips `densify` when no bin is
empty) … -/
theorem endSketch_selects (large : K) (hn : Nice t m) (hr : ∀ g, (t.fr g).1 < large) (hs : List Nat)
    (fuel : Nat) (s1 s' : Dens K)
    (e1 : stream t.toOps (Dens.new large m) (withGen gen hs) = .ok s1)
    (e2 : s1.endSketch t.toOps true fuel = .ok s') (k : Nat) (hk : k < m) :
    TermAtH t gen m hs.toFinset k ∧
    s'.values.getD k Dens.u64Max = sel t gen m hs.toFinset k ∧
    s'.hsketch.getD k large = (t.fr (gen (sel t gen m hs.toFinset k))).1 := by
  have hinv := (sketch_view t gen m large hn hr hs s1 e1).1
  by_cases hz : s1.nbEmpty = 0
  · have : s' = s1 := by unfold Dens.endSketch at e2; simp [hz] at e2; exact e2.symm
    subst this
    have hall := all_init_of_count s'.init (by rw [← hinv.2.2.2.1, hz]) k (by rw [hinv.2.2.1]; exact hk)
    exact selects_of_src t gen m large hn hr hs s' s' e1 k ⟨k, Src.self ⟨hk, hall⟩, rfl⟩
  · unfold Dens.endSketch at e2
    simp only [hz, if_false, if_true] at e2
    cases hd : Dens.densifyOpt t.toOps fuel s1 with
    | error er => rw [hd] at e2; cases er <;> simp at e2
    | ok s2 =>
      rw [hd] at e2; injection e2 with e2; subst e2
      exact finished_selects t gen m large hn hr hs fuel s1 _ e1 hd k hk

/-- … and for `sketch_slice` -/
theorem sketchSlice_selects (large : K) (hn : Nice t m) (hr : ∀ g, (t.fr g).1 < large) (hs : List Nat)
    (fuel : Nat) (s' : Dens K)
    (e : (Dens.new large m).sketchSlice t.toOps true fuel (withGen gen hs) = .ok s') (k : Nat) (hk : k < m) :
    TermAtH t gen m hs.toFinset k ∧
    s'.values.getD k Dens.u64Max = sel t gen m hs.toFinset k ∧
    s'.hsketch.getD k large = (t.fr (gen (sel t gen m hs.toFinset k))).1 := by
  obtain ⟨inv0, sp0⟩ := new_inv (K := K) large m
  obtain ⟨s1, e1, inv1, _⟩ := stream_spec large m t hn hr (withGen gen hs) _ _ inv0 sp0
  have hnn : 0 ≤ s1.nbEmpty := by rw [inv1.2.2.2.1]; exact Int.natCast_nonneg _
  exact endSketch_selects t gen m large hn hr hs fuel s1 s' e1
    ((sketchSlice_eq t.toOps true fuel _ s1 s' _ e1 hnn).mp e) k hk

/-- **collision of two finished sketches** (same `t`, `gen`, `m`; any streams for the hash sets
`A`, `B`): the sketches agree at position `k` iff the hash selected for `A ∪ B` lies in `A ∩ B`.
(The probing for `A ∪ B` terminates because that for `A` does: `termAtH_mono`.) -/
theorem finished_collision_iff (large : K) (hn : Nice t m) (hr : ∀ g, (t.fr g).1 < large)
    (ha hb : List Nat) (fuel fuel' : Nat) (a1 a' b1 b' : Dens K)
    (ea1 : stream t.toOps (Dens.new large m) (withGen gen ha) = .ok a1)
    (ea2 : Dens.densifyOpt t.toOps fuel a1 = .ok a')
    (eb1 : stream t.toOps (Dens.new large m) (withGen gen hb) = .ok b1)
    (eb2 : Dens.densifyOpt t.toOps fuel' b1 = .ok b') (k : Nat) (hk : k < m) :
    a'.values.getD k Dens.u64Max = b'.values.getD k Dens.u64Max ↔
      sel t gen m (ha.toFinset ∪ hb.toFinset) k ∈ ha.toFinset ∩ hb.toFinset := by
  obtain ⟨ta, va, _⟩ := finished_selects t gen m large hn hr ha fuel a1 a' ea1 ea2 k hk
  obtain ⟨tb, vb, _⟩ := finished_selects t gen m large hn hr hb fuel' b1 b' eb1 eb2 k hk
  rw [va, vb]
  exact sel_collision t gen m ta tb

/-- the same for two `sketch_slice` calls (optimal densification) on fresh sketchers -/
theorem sketchSlice_collision_iff (large : K) (hn : Nice t m) (hr : ∀ g, (t.fr g).1 < large)
    (ha hb : List Nat) (fuel fuel' : Nat) (a' b' : Dens K)
    (ea : (Dens.new large m).sketchSlice t.toOps true fuel (withGen gen ha) = .ok a')
    (eb : (Dens.new large m).sketchSlice t.toOps true fuel' (withGen gen hb) = .ok b')
    (k : Nat) (hk : k < m) :
    a'.values.getD k Dens.u64Max = b'.values.getD k Dens.u64Max ↔
      sel t gen m (ha.toFinset ∪ hb.toFinset) k ∈ ha.toFinset ∩ hb.toFinset := by
  obtain ⟨ta, va, _⟩ := sketchSlice_selects t gen m large hn hr ha fuel a' ea k hk
  obtain ⟨tb, vb, _⟩ := sketchSlice_selects t gen m large hn hr hb fuel' b' eb k hk
  rw [va, vb]
  exact sel_collision t gen m ta tb

end Hashes

/-! ## Part 6 — the counting form -/

section Transport
variable {Item Item' V V' : Type} [Inhabited Item] [Inhabited Item'] [LinearOrder V] [LinearOrder V']
variable (probe : Nat → Nat → Nat) (bin : Item → Nat) (score : Item → V)
variable (bin' : Item' → Nat) (score' : Item' → V')

/-- **transport of the selection along a relabelling** `f` of the items that keeps the bins and the
order of the scores of bin-mates: the relabelled set selects the relabelled item. -/
theorem selG_map (f : Item ↪ Item') (S : Finset Item) (hs' : Function.Injective score')
    (hbin : ∀ d ∈ S, bin' (f d) = bin d)
    (hord : ∀ d ∈ S, ∀ d' ∈ S, bin d = bin d' → score d ≤ score d' → score' (f d) ≤ score' (f d'))
    {k : Nat} (hT : TermAt probe bin score S k) :
    TermAt probe bin' score' (S.map f) k ∧
    selG probe bin' score' (S.map f) k = f (selG probe bin score S k) := by
  have hpop : ∀ b, (viewG bin score S).pop b ↔ (viewG bin' score' (S.map f)).pop b := by
    intro b
    constructor
    · rintro ⟨d, hd, hb⟩
      exact ⟨f d, Finset.mem_map_of_mem f hd, by rw [hbin d hd, hb]⟩
    · rintro ⟨d', hd', hb⟩
      obtain ⟨d, hd, rfl⟩ := Finset.mem_map.mp hd'
      exact ⟨d, hd, by rw [← hbin d hd, hb]⟩
  obtain ⟨b, hsrc⟩ := hT
  have hsrc' : Src probe (viewG bin' score' (S.map f)) k b := src_congr probe hpop hsrc
  refine ⟨⟨b, hsrc'⟩, ?_⟩
  rw [selG_eq probe bin score hsrc, selG_eq probe bin' score' hsrc']
  obtain ⟨h1, h2, h3⟩ := viewG_own_spec bin score (src_pop probe hsrc)
  apply viewG_own_eq bin' score' hs' (Finset.mem_map_of_mem f h1) (by rw [hbin _ h1, h2])
  intro d' hd' hb'
  obtain ⟨d, hd, rfl⟩ := Finset.mem_map.mp hd'
  rw [hbin d hd] at hb'
  exact hord _ h1 d hd (by rw [h2, hb']) (h3 d hd hb')

end Transport

section Counting
open DensP Finset
variable {K G R : Type} [LinearOrder K]
variable (t : TOps K G R) (m : Nat)

/-- if every bin is eventually probed from every bin, the probing terminates for every nonempty
hash set (so the termination hypotheses below are satisfiable for every `Ω`) -/
theorem termAtH_of_probe_onto (gen : Nat → G) (hn : Nice t m)
    (honto : ∀ k b, b < m → ∃ i, probeOf t.toOps m k i = b)
    {S : Finset Nat} (hS : S.Nonempty) : ∀ k, TermAtH t gen m S k := by
  obtain ⟨h0, hh0⟩ := hS
  have hp0 : (viewOf t gen m S).pop (binOf t gen m h0) := ⟨h0, hh0, rfl⟩
  intro k
  induction k using Nat.strong_induction_on with
  | _ k ih =>
    by_cases hk : (viewOf t gen m S).pop k
    · exact ⟨k, Src.self hk⟩
    · obtain ⟨i, hi⟩ := honto k (binOf t gen m h0) (hn _)
      have hst : Stop (probeOf t.toOps m) (viewOf t gen m S) k i := Or.inr (by rw [hi]; exact hp0)
      obtain ⟨i0, _, hs0, hm0⟩ := exists_first_stop _ hst
      by_cases hlt : probeOf t.toOps m k i0 < k
      · obtain ⟨b, hb⟩ := ih _ hlt
        exact ⟨b, Src.back hk hs0 hm0 hlt hb⟩
      · exact ⟨_, Src.hit hk hs0 hm0 hlt⟩

variable (U : Finset Nat) (g0 : G)

/-- the generators of all hashes, from an assignment `ω` of generators to the hashes of the
universe `U` (`g0` elsewhere; irrelevant for subsets of `U`) -/
def extGen (ω : ↥U → G) : Nat → G := fun h => if hh : h ∈ U then ω ⟨h, hh⟩ else g0

omit [LinearOrder K] in
theorem extGen_coe (ω : ↥U → G) (d : ↥U) : extGen U g0 ω d = ω d := by
  unfold extGen; rw [dif_pos d.2]

omit [LinearOrder K] in
theorem extGen_perm (ω : ↥U → G) (σ : Equiv.Perm ↥U) {h : Nat} (hh : h ∈ U) :
    extGen U g0 (ω ∘ ⇑σ.symm) (Equiv.Perm.ofSubtype σ h) = extGen U g0 ω h := by
  rw [Equiv.Perm.ofSubtype_apply_of_mem σ hh, extGen_coe]
  simp only [Function.comp_apply, Equiv.symm_apply_apply]
  exact (extGen_coe U g0 ω ⟨h, hh⟩).symm

omit [LinearOrder K] in
theorem map_ofSubtype_univ (σ : Equiv.Perm ↥U) :
    U.map (Equiv.Perm.ofSubtype σ).toEmbedding = U := by
  apply Finset.eq_of_subset_of_card_le
  · intro x hx
    obtain ⟨h, hh, rfl⟩ := Finset.mem_map.mp hx
    simp only [Equiv.coe_toEmbedding]
    rw [Equiv.Perm.ofSubtype_apply_of_mem σ hh]
    exact (σ ⟨h, hh⟩).2
  · rw [Finset.card_map]

/-- **equivariance of the selection**: relabelling the generators of the universe by `σ` relabels
the selected hash by `σ` — provided no two hashes of the universe drew the same `r` (ties are broken
by the hash itself, which is not exchangeable). -/
theorem sel_equivariant (ω : ↥U → G) (hinj : Function.Injective (fun d : ↥U => (t.fr (ω d)).1))
    (σ : Equiv.Perm ↥U) {k : Nat} (hT : TermAtH t (extGen U g0 ω) m U k) :
    TermAtH t (extGen U g0 (ω ∘ ⇑σ.symm)) m U k ∧
    sel t (extGen U g0 (ω ∘ ⇑σ.symm)) m U k
      = Equiv.Perm.ofSubtype σ (sel t (extGen U g0 ω) m U k) := by
  have hgen : ∀ h ∈ U, extGen U g0 (ω ∘ ⇑σ.symm) (Equiv.Perm.ofSubtype σ h) = extGen U g0 ω h :=
    fun h hh => extGen_perm U g0 ω σ hh
  have h := selG_map (probeOf t.toOps m) (binOf t (extGen U g0 ω) m) (key t (extGen U g0 ω))
    (binOf t (extGen U g0 (ω ∘ ⇑σ.symm)) m) (key t (extGen U g0 (ω ∘ ⇑σ.symm)))
    (Equiv.Perm.ofSubtype σ).toEmbedding U (key_injective t _)
    (by
      intro d hd
      simp only [Equiv.coe_toEmbedding, binOf]
      rw [hgen d hd])
    (by
      intro d hd d' hd' _ hle
      simp only [Equiv.coe_toEmbedding, key] at hle ⊢
      rw [hgen d hd, hgen d' hd']
      rw [Prod.Lex.toLex_le_toLex] at hle ⊢
      rcases hle with hlt | ⟨heq, _⟩
      · exact Or.inl hlt
      · have hdd : (⟨d, hd⟩ : ↥U) = ⟨d', hd'⟩ := by
          apply hinj
          simpa only [extGen_coe U g0 ω ⟨d, hd⟩, extGen_coe U g0 ω ⟨d', hd'⟩] using heq
        have : d = d' := congrArg Subtype.val hdd
        subst this
        exact Or.inr ⟨rfl, le_refl _⟩)
    hT
  rw [map_ofSubtype_univ] at h
  exact h

/-- **C08, counting form.**  Let `Ω` be a finite set of assignments of generators to the hashes of
`A ∪ B` that is closed under relabelling (`CS.PermClosed`: with the counting measure on `Ω` the
generators are an exchangeable family), tie-free in `r`, and such that the probing terminates for
`A` and `B`.  Then the number of assignments for which `A` and `B` select the same hash at position
`k`, times `|A ∪ B|`, is `|A ∩ B| · #Ω`: the collision probability is exactly the Jaccard index. -/
theorem sel_collision_count (A B : Finset Nat) (Ω : Finset (↥(A ∪ B) → G)) (hΩ : CS.PermClosed Ω)
    (hinj : ∀ ω ∈ Ω, Function.Injective (fun d : ↥(A ∪ B) => (t.fr (ω d)).1)) (k : Nat)
    (hterm : ∀ ω ∈ Ω, TermAtH t (extGen (A ∪ B) g0 ω) m A k ∧ TermAtH t (extGen (A ∪ B) g0 ω) m B k) :
    (Ω.filter (fun ω => sel t (extGen (A ∪ B) g0 ω) m A k = sel t (extGen (A ∪ B) g0 ω) m B k)).card
        * (A ∪ B).card = (A ∩ B).card * Ω.card := by
  classical
  by_cases hne : Ω.Nonempty
  swap
  · rw [Finset.not_nonempty_iff_eq_empty.mp hne]; simp
  obtain ⟨ω0, hω0⟩ := hne
  obtain ⟨a0, ha0⟩ := termAt_nonempty _ _ _ (hterm ω0 hω0).1
  have hU : ∀ ω ∈ Ω, TermAtH t (extGen (A ∪ B) g0 ω) m (A ∪ B) k :=
    fun ω hω => termAtH_mono t _ m Finset.subset_union_left (hterm ω hω).1
  let d0 : ↥(A ∪ B) := ⟨a0, Finset.mem_union_left _ ha0⟩
  let selU : (↥(A ∪ B) → G) → ↥(A ∪ B) := fun ω =>
    if h : sel t (extGen (A ∪ B) g0 ω) m (A ∪ B) k ∈ A ∪ B then ⟨_, h⟩ else d0
  have hselU : ∀ ω ∈ Ω, (selU ω : Nat) = sel t (extGen (A ∪ B) g0 ω) m (A ∪ B) k := by
    intro ω hω
    have := sel_mem t _ m (hU ω hω)
    simp only [selU, dif_pos this]
  have hequiv : ∀ ω ∈ Ω, ∀ σ : Equiv.Perm ↥(A ∪ B), selU (ω ∘ ⇑σ.symm) = σ (selU ω) := by
    intro ω hω σ
    apply Subtype.ext
    rw [hselU _ (hΩ ω hω σ), (sel_equivariant t m (A ∪ B) g0 ω (hinj ω hω) σ (hU ω hω)).2,
      ← hselU ω hω, Equiv.Perm.ofSubtype_apply_coe]
  have hcount := CS.selected_uniform_gen Ω hΩ selU hequiv ((A ∩ B).subtype (· ∈ A ∪ B))
  have hI : ((A ∩ B).subtype (· ∈ A ∪ B)).card = (A ∩ B).card := by
    rw [Finset.card_subtype, Finset.filter_true_of_mem]
    intro x hx
    exact mem_union_left _ (mem_inter.mp hx).1
  rw [Fintype.card_coe, hI] at hcount
  rw [← hcount]
  congr 1
  refine congrArg Finset.card (Finset.filter_congr (fun ω hω => ?_))
  rw [sel_collision t _ m (hterm ω hω).1 (hterm ω hω).2, Finset.mem_subtype, hselU ω hω]

/-- **C08 for the model.**  For every assignment `ω ∈ Ω` of generators to the hashes of the two
streams, let `sa ω`, `sb ω` be the finished sketches (sketch phase from a fresh sketcher, then
`densifyOpt`, all runs returning).  If `Ω` is closed under relabelling and tie-free in `r`, then
`#{ω | (sa ω).values[k] = (sb ω).values[k]} · |A ∪ B| = |A ∩ B| · #Ω` at every position `k < m`. -/
theorem finished_collision_count (large : K) (hn : Nice t m) (hr : ∀ g, (t.fr g).1 < large)
    (la lb : List Nat) (Ω : Finset (↥(la.toFinset ∪ lb.toFinset) → G)) (hΩ : CS.PermClosed Ω)
    (hinj : ∀ ω ∈ Ω, Function.Injective (fun d : ↥(la.toFinset ∪ lb.toFinset) => (t.fr (ω d)).1))
    (fa fb : (↥(la.toFinset ∪ lb.toFinset) → G) → Nat)
    (a1 sa b1 sb : (↥(la.toFinset ∪ lb.toFinset) → G) → Dens K)
    (ea1 : ∀ ω ∈ Ω, stream t.toOps (Dens.new large m)
      (withGen (extGen (la.toFinset ∪ lb.toFinset) g0 ω) la) = .ok (a1 ω))
    (ea2 : ∀ ω ∈ Ω, Dens.densifyOpt t.toOps (fa ω) (a1 ω) = .ok (sa ω))
    (eb1 : ∀ ω ∈ Ω, stream t.toOps (Dens.new large m)
      (withGen (extGen (la.toFinset ∪ lb.toFinset) g0 ω) lb) = .ok (b1 ω))
    (eb2 : ∀ ω ∈ Ω, Dens.densifyOpt t.toOps (fb ω) (b1 ω) = .ok (sb ω))
    (k : Nat) (hk : k < m) :
    (Ω.filter (fun ω => (sa ω).values.getD k Dens.u64Max = (sb ω).values.getD k Dens.u64Max)).card
        * (la.toFinset ∪ lb.toFinset).card = (la.toFinset ∩ lb.toFinset).card * Ω.card := by
  have hA := fun ω hω => finished_selects t (extGen (la.toFinset ∪ lb.toFinset) g0 ω) m large hn hr
    la (fa ω) (a1 ω) (sa ω) (ea1 ω hω) (ea2 ω hω) k hk
  have hB := fun ω hω => finished_selects t (extGen (la.toFinset ∪ lb.toFinset) g0 ω) m large hn hr
    lb (fb ω) (b1 ω) (sb ω) (eb1 ω hω) (eb2 ω hω) k hk
  rw [← sel_collision_count t m g0 la.toFinset lb.toFinset Ω hΩ hinj k
    (fun ω hω => ⟨(hA ω hω).1, (hB ω hω).1⟩)]
  congr 1
  refine congrArg Finset.card (Finset.filter_congr (fun ω hω => ?_))
  rw [(hA ω hω).2.1, (hB ω hω).2.1]

end Counting

/-! ## Part 7 — non-vacuity: an instance satisfying every hypothesis of the counting form -/
section Example
open DensP Finset

/-- toy operations: a generator is a pair `(r, bin) : Fin n × Fin m`; the probing generator of every
bin is a counter, so the probes are `0, 1, 2, …` (mod `m`) -/
def exOps (n m : Nat) : TOps Nat (Fin n × Fin m) Nat where
  fr g := (g.1.val, g)
  fk _ g := (g.2.val, g)
  mkRng _ := 0
  draw m' r := .ok (r % m', r + 1)

theorem exOps_nice (n m : Nat) : Nice (exOps n m) m := fun g => g.2.isLt

theorem exOps_lt (n m : Nat) : ∀ g, ((exOps n m).fr g).1 < n := fun g => g.1.isLt

theorem exOps_rngAt (n m k i : Nat) : rngAt (exOps n m).toOps m k i = i := by
  induction i with
  | zero => rfl
  | succ i ih => simp only [rngAt, ih]; rfl

theorem exOps_probe (n m k i : Nat) : probeOf (exOps n m).toOps m k i = i % m := by
  unfold probeOf; rw [exOps_rngAt]; rfl

theorem exOps_onto (n m : Nat) : ∀ k b, b < m → ∃ i, probeOf (exOps n m).toOps m k i = b :=
  fun k b hb => ⟨b, by rw [exOps_probe, Nat.mod_eq_of_lt hb]⟩

/-- all assignments of generators whose `r`-components are pairwise distinct -/
def exΩ (n m : Nat) (U : Finset Nat) : Finset (↥U → Fin n × Fin m) :=
  univ.filter (fun ω => Function.Injective (fun d => (ω d).1))

theorem exΩ_closed (n m : Nat) (U : Finset Nat) : CS.PermClosed (exΩ n m U) := by
  intro ω hω σ
  simp only [exΩ, mem_filter, mem_univ, true_and] at hω ⊢
  exact hω.comp σ.symm.injective

theorem exΩ_tiefree (n m : Nat) (U : Finset Nat) :
    ∀ ω ∈ exΩ n m U, Function.Injective (fun d : ↥U => ((exOps n m).fr (ω d)).1) := by
  intro ω hω a b h
  simp only [exΩ, mem_filter, mem_univ, true_and] at hω
  exact hω (Fin.val_injective h)

/-- the counting form holds for the toy operations, every pair of nonempty hash sets, every `n`,
`m` and every position: no hypothesis is left -/
theorem ex_collision_count (n m : Nat) (A B : Finset Nat) (hA : A.Nonempty) (hB : B.Nonempty)
    (g0 : Fin n × Fin m) (k : Nat) :
    ((exΩ n m (A ∪ B)).filter (fun ω =>
        sel (exOps n m) (extGen (A ∪ B) g0 ω) m A k = sel (exOps n m) (extGen (A ∪ B) g0 ω) m B k)).card
      * (A ∪ B).card = (A ∩ B).card * (exΩ n m (A ∪ B)).card :=
  sel_collision_count (exOps n m) m g0 A B (exΩ n m (A ∪ B)) (exΩ_closed n m _) (exΩ_tiefree n m _) k
    (fun _ _ => ⟨termAtH_of_probe_onto (exOps n m) m _ (exOps_nice n m) (exOps_onto n m) hA k,
      termAtH_of_probe_onto (exOps n m) m _ (exOps_nice n m) (exOps_onto n m) hB k⟩)

/-- … and the family of assignments is not empty (so the statement is not `0 = 0`), e.g. for
`A = {0,1}`, `B = {1,2}`, three `r`-values and two bins: the collision probability is `1/3`. -/
theorem exΩ_nonempty : (exΩ 3 2 (({0, 1} : Finset Nat) ∪ {1, 2})).Nonempty := by
  have hlt : ∀ d : ↥(({0, 1} : Finset Nat) ∪ {1, 2}), d.1 < 3 := by
    intro d
    have := d.2
    simp only [mem_union, mem_insert, mem_singleton] at this
    omega
  refine ⟨fun d => (⟨d.1, hlt d⟩, 0), ?_⟩
  simp only [exΩ, mem_filter, mem_univ, true_and]
  intro a b h
  exact Subtype.ext (by simpa using h)

theorem ex_collision_third (g0 : Fin 3 × Fin 2) (k : Nat) :
    ((exΩ 3 2 (({0, 1} : Finset Nat) ∪ {1, 2})).filter (fun ω =>
        sel (exOps 3 2) (extGen _ g0 ω) 2 {0, 1} k = sel (exOps 3 2) (extGen _ g0 ω) 2 {1, 2} k)).card * 3
      = (exΩ 3 2 (({0, 1} : Finset Nat) ∪ {1, 2})).card := by
  have h := ex_collision_count 3 2 {0, 1} {1, 2} (by decide) (by decide) g0 k
  have h1 : (({0, 1} : Finset Nat) ∪ {1, 2}).card = 3 := by decide
  have h2 : (({0, 1} : Finset Nat) ∩ {1, 2}).card = 1 := by decide
  rwa [h1, h2, one_mul] at h

/-- the runs of the toy model return for every nonempty stream, every generator assignment and
every fuel `≥ m` — so the run hypotheses of `finished_collision_count` are satisfiable as well -/
theorem ex_runs (n m : Nat) (gen : Nat → Fin n × Fin m) (hs : List Nat) (hne : hs ≠ [])
    (fuel : Nat) (hf : m ≤ fuel) :
    ∃ s1 s', stream (exOps n m).toOps (Dens.new n m) (withGen gen hs) = .ok s1 ∧
      Dens.densifyOpt (exOps n m).toOps fuel s1 = .ok s' := by
  obtain ⟨inv0, sp0⟩ := new_inv (K := Nat) n m
  obtain ⟨s1, e1, _, _⟩ := stream_spec n m (exOps n m) (exOps_nice n m) (exOps_lt n m)
    (withGen gen hs) _ _ inv0 sp0
  obtain ⟨inv1, hpop, _⟩ := sketch_view (exOps n m) gen m n (exOps_nice n m) (exOps_lt n m) hs s1 e1
  obtain ⟨h0, hh0⟩ := List.exists_mem_of_ne_nil hs hne
  have hp0 : (V0 n m s1).pop (binOf (exOps n m) gen m h0) :=
    (hpop _).mpr ⟨h0, List.mem_toFinset.mpr hh0, rfl⟩
  have hm : 0 < m := Nat.lt_of_le_of_lt (Nat.zero_le _) hp0.1
  obtain ⟨s', e2⟩ := densifyOpt_complete n m (exOps n m).toOps fuel s1 inv1
    (fun r => ⟨_, rfl⟩)
    (fun r => by
      have : drawT (exOps n m).toOps m r = (r % m, r + 1) := drawT_of_ok rfl
      rw [this]; exact Nat.mod_lt _ hm)
    ⟨_, hp0⟩
    (fun k _ _ => ⟨binOf (exOps n m) gen m h0, Nat.lt_of_lt_of_le hp0.1 hf,
      Or.inr (by rw [exOps_probe, Nat.mod_eq_of_lt hp0.1]; exact hp0)⟩)
  exact ⟨s1, s', e1, e2⟩

end Example

end PMH.DensSel

import Mathlib.Analysis.SpecialFunctions.ImproperIntegrals
import Mathlib.Analysis.SpecialFunctions.Log.Basic
import Mathlib.Algebra.Order.Floor.Ring
import Mathlib.Algebra.BigOperators.Intervals
import Mathlib.Tactic.Linarith
import Mathlib.Tactic.Positivity
import Mathlib.Tactic.FieldSimp
import Mathlib.Tactic.Ring
import Mathlib.Tactic.NormNum
/-!
# Parameter identities behind the ProbMinHash laws (exact arithmetic)

ProbMinHash (Ertl 2020) needs : "the first time at which item `d` (weight `w`) hits a GIVEN
signature position `k` is exponentially distributed with rate `w / m`" (up to a common rate
factor for all items, see below).  The two implementations obtain this with specific constants:

* `ProbMinHash3::new`  : `lambda = ln (m / (m-1))`, one point per interval `[winv*(i-1), winv*i)`,
  located at `winv*(i-1) + winv*x`, `x` ~ exponential of rate `lambda` truncated to `[0,1)`,
  position uniform on `m`.                                                   (PART A)
* `ProbMinHash2::new`  : `betas[i] = m / (m-i-1)`, `h_0 = winv*Exp1`,
  `h_{i+1} = h_i + winv*betas[i]*Exp1`, positions = uniform random permutation.  (PART B)

NB. for ProbMinHash3 the first-hit rate is `lambda * w` with `lambda = ln(m/(m-1))` (not `w/m`);
this common factor is irrelevant for the race (`race_winner_integral` is scale invariant) ;
for ProbMinHash2 the first-hit rate is exactly `w/m`.
-/
namespace PMH.Laws
open Real

/-! ## PART A : ProbMinHash3 -/

/-- the rate used by `ProbMinHash3::new` -/
noncomputable def lam (m : ℕ) : ℝ := Real.log ((m : ℝ) / ((m : ℝ) - 1))

/-- CDF on `[0,1]` of the exponential law of rate `l` truncated to `[0,1)` -/
noncomputable def truncCdf (l s : ℝ) : ℝ := (1 - Real.exp (-l * s)) / (1 - Real.exp (-l))

/-- CDF used by ProbMinHash3 -/
noncomputable def F (m : ℕ) (s : ℝ) : ℝ := truncCdf (lam m) s

private lemma cast_facts {m : ℕ} (hm : 2 ≤ m) : (0 : ℝ) < (m : ℝ) - 1 ∧ (0 : ℝ) < m := by
  have : (2 : ℝ) ≤ m := by exact_mod_cast hm
  constructor <;> linarith

theorem lam_pos {m : ℕ} (hm : 2 ≤ m) : 0 < lam m := by
  obtain ⟨h1, h0⟩ := cast_facts hm
  unfold lam
  apply Real.log_pos
  rw [lt_div_iff₀ h1]
  linarith

/-- the ProbMinHash3 rate is close to, but strictly larger than, the nominal `1/m` :
`1/m < λ < 1/(m-1)`. -/
theorem lam_bounds {m : ℕ} (hm : 2 ≤ m) : 1 / (m : ℝ) < lam m ∧ lam m < 1 / ((m : ℝ) - 1) := by
  obtain ⟨h1, h0⟩ := cast_facts hm
  constructor
  · have hx : (0 : ℝ) < ((m : ℝ) - 1) / m := div_pos h1 h0
    have hne : ((m : ℝ) - 1) / m ≠ 1 := by
      rw [Ne, div_eq_one_iff_eq h0.ne']
      linarith
    have h := Real.log_lt_sub_one_of_pos hx hne
    have e : lam m = -Real.log (((m : ℝ) - 1) / m) := by
      unfold lam
      rw [← Real.log_inv, inv_div]
    have e2 : ((m : ℝ) - 1) / m - 1 = -(1 / (m : ℝ)) := by field_simp; ring
    rw [e]
    linarith
  · have hx : (0 : ℝ) < (m : ℝ) / ((m : ℝ) - 1) := div_pos h0 h1
    have hne : (m : ℝ) / ((m : ℝ) - 1) ≠ 1 := by
      rw [Ne, div_eq_one_iff_eq h1.ne']
      linarith
    have h := Real.log_lt_sub_one_of_pos hx hne
    have e2 : (m : ℝ) / ((m : ℝ) - 1) - 1 = 1 / ((m : ℝ) - 1) := by field_simp; ring
    unfold lam
    linarith

/-- (A1) -/
theorem exp_neg_lambda {m : ℕ} (hm : 2 ≤ m) :
    Real.exp (-(lam m)) = ((m : ℝ) - 1) / m ∧ 1 - Real.exp (-(lam m)) = 1 / (m : ℝ) := by
  obtain ⟨h1, h0⟩ := cast_facts hm
  have hpos : 0 < (m : ℝ) / ((m : ℝ) - 1) := div_pos h0 h1
  have h : Real.exp (-(lam m)) = ((m : ℝ) - 1) / m := by
    unfold lam
    rw [Real.exp_neg, Real.exp_log hpos, inv_div]
  refine ⟨h, ?_⟩
  rw [h]
  field_simp
  ring

/-- `exp (-λ) = 1 - 1/m` : probability that one point misses a fixed position. -/
theorem exp_neg_lambda' {m : ℕ} (hm : 2 ≤ m) : Real.exp (-(lam m)) = 1 - 1 / (m : ℝ) := by
  have := (exp_neg_lambda hm).2
  linarith

/-- `F` is a CDF on `[0,1]` : value `0` at `0`. -/
theorem F_zero (m : ℕ) : F m 0 = 0 := by simp [F, truncCdf]

/-- `F` is a CDF on `[0,1]` : value `1` at `1`. -/
theorem F_one {m : ℕ} (hm : 2 ≤ m) : F m 1 = 1 := by
  obtain ⟨h1, h0⟩ := cast_facts hm
  have h := (exp_neg_lambda hm).2
  unfold F truncCdf
  rw [mul_one, h]
  field_simp

/-- `F` is nondecreasing. -/
theorem F_mono {m : ℕ} (hm : 2 ≤ m) : Monotone (F m) := by
  obtain ⟨h1, h0⟩ := cast_facts hm
  have h := (exp_neg_lambda hm).2
  have hl := lam_pos hm
  intro a b hab
  unfold F truncCdf
  rw [h]
  apply div_le_div_of_nonneg_right _ (by positivity)
  have : Real.exp (-lam m * b) ≤ Real.exp (-lam m * a) := by
    apply Real.exp_le_exp.mpr
    nlinarith
  linarith

/-- (A2) survival of a fixed position at time `n + s` (unit weight) : the first `n` points all miss
`k` (prob `(1-1/m)^n`), and the `(n+1)`-th point has not (arrived by `n+s` and hit `k`).
The identity holds for every real `s` (in particular `s ∈ [0,1]`). -/
theorem pmh3_survival {m : ℕ} (hm : 2 ≤ m) (n : ℕ) (s : ℝ) :
    (1 - 1 / (m : ℝ)) ^ n * (1 - (1 / (m : ℝ)) * F m s) = Real.exp (-(lam m) * ((n : ℝ) + s)) := by
  obtain ⟨h1, h0⟩ := cast_facts hm
  have hA := exp_neg_lambda' hm
  have hB := (exp_neg_lambda hm).2
  have e1 : (1 - (1 / (m : ℝ)) * F m s) = Real.exp (-(lam m) * s) := by
    unfold F truncCdf
    rw [hB]
    field_simp
    ring
  have e2 : (1 - 1 / (m : ℝ)) ^ n = Real.exp (-(lam m) * (n : ℝ)) := by
    rw [← hA, ← Real.exp_nat_mul]
    congr 1
    ring
  rw [e1, e2, ← Real.exp_add]
  congr 1
  ring

/-- The code's `λ` is the only rate for which (A2) can hold (instance `n = 1`, `s = 0`). -/
theorem pmh3_rate_unique {m : ℕ} (hm : 2 ≤ m) (mu : ℝ) (_hmu : 0 < mu)
    (h : (1 - 1 / (m : ℝ)) ^ 1 * 1 = Real.exp (-mu * 1)) : mu = lam m := by
  have hA := exp_neg_lambda' hm
  rw [pow_one, mul_one, mul_one, ← hA] at h
  have := Real.exp_injective h
  linarith

/-- Unit-weight survival function of a fixed position at (real) time `u ≥ 0`, defined through
(A2) with `n = ⌊u⌋₊` full unit intervals and `s = fract u`. -/
noncomputable def unitSurvival (m : ℕ) (u : ℝ) : ℝ :=
  (1 - 1 / (m : ℝ)) ^ ⌊u⌋₊ * (1 - (1 / (m : ℝ)) * F m (Int.fract u))

/-- Survival function for weight `w` : all point times are multiplied by `winv = 1/w`, hence
"no hit before `t`" for weight `w` is "no hit before `w * t`" for unit weight. -/
noncomputable def survival (m : ℕ) (w t : ℝ) : ℝ := unitSurvival m (w * t)

theorem unitSurvival_eq {m : ℕ} (hm : 2 ≤ m) {u : ℝ} (hu : 0 ≤ u) :
    unitSurvival m u = Real.exp (-(lam m) * u) := by
  unfold unitSurvival
  rw [pmh3_survival hm, natCast_floor_eq_intCast_floor hu, Int.floor_add_fract]

/-- (A3), decomposed form : if `w * t = n + s` then the (A2) survival is `exp (-(λ w) t)`. -/
theorem pmh3_first_hit_rate' {m : ℕ} (hm : 2 ≤ m) (w t : ℝ) (n : ℕ) (s : ℝ)
    (hts : w * t = (n : ℝ) + s) :
    (1 - 1 / (m : ℝ)) ^ n * (1 - (1 / (m : ℝ)) * F m s) = Real.exp (-(lam m * w) * t) := by
  rw [pmh3_survival hm, ← hts]
  congr 1
  ring

/-- (A3) the first-hit time of a fixed position is `Exp (λ w)` for an item of weight `w`. -/
theorem pmh3_first_hit_rate {m : ℕ} (hm : 2 ≤ m) {w t : ℝ} (hw : 0 ≤ w) (ht : 0 ≤ t) :
    survival m w t = Real.exp (-(lam m * w) * t) := by
  unfold survival
  rw [unitSurvival_eq hm (mul_nonneg hw ht)]
  congr 1
  ring

/-- (A4) law of the minimum of two independent exponentials of rates `a` and `b` : the first one
wins with probability `a / (a+b)` ("item `d` wins a position with probability `w_d / Σ w`"). -/
theorem race_winner_integral {a b : ℝ} (ha : 0 < a) (hb : 0 ≤ b) :
    ∫ t in Set.Ioi (0 : ℝ), a * Real.exp (-(a + b) * t) = a / (a + b) := by
  have hab : -(a + b) < 0 := by linarith
  rw [MeasureTheory.integral_const_mul, integral_exp_mul_Ioi hab 0]
  have : a + b ≠ 0 := by linarith
  simp only [mul_zero, Real.exp_zero]
  field_simp

/-- the race is invariant under a common rescaling of all the rates (so the factor
`m * ln (m/(m-1))` between ProbMinHash3 and the nominal rate `w/m` does not matter). -/
theorem race_winner_scale {a b c : ℝ} (hc : 0 < c) (ha : 0 < a) (hb : 0 ≤ b) :
    ∫ t in Set.Ioi (0 : ℝ), (c * a) * Real.exp (-(c * a + c * b) * t) = a / (a + b) := by
  rw [race_winner_integral (mul_pos hc ha) (mul_nonneg hc.le hb)]
  have : a + b ≠ 0 := by linarith
  field_simp

/-- the density of the exponential law integrates to one (case `b = 0` of the race) -/
theorem exp_density_total {a : ℝ} (ha : 0 < a) :
    ∫ t in Set.Ioi (0 : ℝ), a * Real.exp (-(a + 0) * t) = 1 := by
  rw [race_winner_integral ha le_rfl, add_zero, div_self ha.ne']

/-! ## PART B : ProbMinHash2 -/

/-- `betas[i]` of `ProbMinHash2::new` (over `ℚ`; `beta m (m-1) = m/0 = 0` by convention, it is
never used below). -/
def beta (m i : ℕ) : ℚ := (m : ℚ) / ((m : ℚ) - (i : ℚ) - 1)

/-- expected time (unit weight) of the point of 0-based index `J`, following the recursion of
`hash_item` : `h_0 = Exp1`, `h_{J+1} = h_J + beta_J * Exp1`, `E[Exp1] = 1`. -/
def E (m : ℕ) : ℕ → ℚ
  | 0 => 1
  | J + 1 => E m J + beta m J * 1

/-- (B1) -/
theorem pmh2_expected_gap (m J : ℕ) :
    E m J = 1 + ∑ i ∈ Finset.range J, (m : ℚ) / ((m : ℚ) - (i : ℚ) - 1) := by
  induction J with
  | zero => simp [E]
  | succ J ih => rw [E, ih, Finset.sum_range_succ, beta]; ring

/-- summation by parts / Fubini on the triangle `i < J ≤ n`. -/
theorem sum_triangle (f : ℕ → ℚ) (n : ℕ) :
    ∑ J ∈ Finset.range (n + 1), ∑ i ∈ Finset.range J, f i
      = ∑ i ∈ Finset.range n, ((n : ℚ) - (i : ℚ)) * f i := by
  induction n with
  | zero => simp
  | succ n ih =>
    rw [Finset.sum_range_succ, ih, Finset.sum_range_succ (fun i => f i) n,
      Finset.sum_range_succ (fun i => (((n + 1 : ℕ) : ℚ) - (i : ℚ)) * f i) n]
    have h1 : ((n + 1 : ℕ) : ℚ) - (n : ℚ) = 1 := by push_cast; ring
    have h2 : ∑ i ∈ Finset.range n, (((n + 1 : ℕ) : ℚ) - (i : ℚ)) * f i
        = ∑ i ∈ Finset.range n, ((n : ℚ) - (i : ℚ)) * f i + ∑ i ∈ Finset.range n, f i := by
      rw [← Finset.sum_add_distrib]
      apply Finset.sum_congr rfl
      intro i _
      push_cast
      ring
    rw [h1, h2]
    ring

/-- (B2), double-sum form : `Σ_{J<m} Σ_{i<J} β_i = m (m-1)`. -/
theorem pmh2_double_sum (m : ℕ) :
    ∑ J ∈ Finset.range m, ∑ i ∈ Finset.range J, (m : ℚ) / ((m : ℚ) - (i : ℚ) - 1)
      = (m : ℚ) * ((m : ℚ) - 1) := by
  cases m with
  | zero => simp
  | succ n =>
    rw [sum_triangle]
    have : ∀ i ∈ Finset.range n,
        ((n : ℚ) - (i : ℚ)) * (((n + 1 : ℕ) : ℚ) / (((n + 1 : ℕ) : ℚ) - (i : ℚ) - 1))
          = ((n + 1 : ℕ) : ℚ) := by
      intro i hi
      have hi' : (i : ℚ) < n := by exact_mod_cast Finset.mem_range.mp hi
      have hne : (n : ℚ) - (i : ℚ) ≠ 0 := by linarith
      push_cast
      have : (n : ℚ) + 1 - (i : ℚ) - 1 = (n : ℚ) - i := by ring
      rw [this]
      field_simp
    rw [Finset.sum_congr rfl this]
    simp
    ring

/-- (B2) the mean first-hit time of a fixed position is `m` (mean of `Exp (1/m)`). -/
theorem pmh2_mean_first_hit (m : ℕ) (_hm : 1 ≤ m) :
    ∑ J ∈ Finset.range m, (1 + ∑ i ∈ Finset.range J, (m : ℚ) / ((m : ℚ) - (i : ℚ) - 1))
      = (m : ℚ) * m := by
  rw [Finset.sum_add_distrib, pmh2_double_sum]
  simp
  ring

/-- (B2) in terms of `E` : `(1/m) Σ_{J<m} E J = m`. -/
theorem pmh2_mean_first_hit_E (m : ℕ) (hm : 1 ≤ m) :
    (1 / (m : ℚ)) * ∑ J ∈ Finset.range m, E m J = m := by
  have h0 : (m : ℚ) ≠ 0 := by exact_mod_cast (by omega : m ≠ 0)
  rw [Finset.sum_congr rfl (fun J _ => pmh2_expected_gap m J), pmh2_mean_first_hit m hm]
  field_simp

/-! ### (B3) the first-hit time of a fixed position is exactly `Exp (1/m)` : Laplace transforms

Unit weight.  The point of index `J` arrives at `T_J = G_0 + … + G_J` with independent gaps
`G_i ~ c_i * Exp1`, `c_0 = 1`, `c_{i+1} = β_i`, i.e. `c_i = m / (m-i)`  (Rényi representation :
`T_J` is the `J`-th order statistic of `m` i.i.d. `Exp (1/m)` variables).  The Laplace transform
of `c * Exp1` is `1 / (1 + s c)`, that of an independent sum is the product, and the position `k`
is the `J`-th one hit with `J` uniform on `0..m-1` independent of the times.  Hence the Laplace
transform of the first-hit time of `k` is `(1/m) Σ_{J<m} Π_{i≤J} 1 / (1 + s c_i)`, and the
theorem below says it is `(1/m) / (1/m + s)`, the Laplace transform of `Exp (1/m)`
(`race_winner_integral` with `a = 1/m`, `b = s` is exactly
`∫ (1/m) e^{-t/m} e^{-s t} dt = (1/m)/(1/m+s)`). -/

/-- mean of the `i`-th gap of `ProbMinHash2::hash_item` for unit weight : `1, β_0, β_1, …`. -/
noncomputable def gapMean (m : ℕ) : ℕ → ℝ
  | 0 => 1
  | i + 1 => ((beta m i : ℚ) : ℝ)

theorem gapMean_eq {m i : ℕ} (hi : i < m) : gapMean m i = (m : ℝ) / ((m : ℝ) - (i : ℝ)) := by
  cases i with
  | zero =>
    have : (m : ℝ) ≠ 0 := by exact_mod_cast (by omega : m ≠ 0)
    simp [gapMean, this]
  | succ i =>
    simp only [gapMean, beta]
    push_cast
    congr 1
    ring

/-- the telescoping identity behind (B3) (`x = s * m`). -/
theorem laplace_sum {x : ℝ} (hx : 0 ≤ x) (n : ℕ) :
    ∑ J ∈ Finset.range n, ∏ j ∈ Finset.range (J + 1),
        ((n : ℝ) - (j : ℝ)) / ((n : ℝ) - (j : ℝ) + x) = (n : ℝ) / (1 + x) := by
  induction n with
  | zero => simp
  | succ n ih =>
    have hshift : ∀ j : ℕ, (((n + 1 : ℕ) : ℝ) - ((j + 1 : ℕ) : ℝ)) /
        (((n + 1 : ℕ) : ℝ) - ((j + 1 : ℕ) : ℝ) + x) = ((n : ℝ) - (j : ℝ)) / ((n : ℝ) - (j : ℝ) + x) := by
      intro j
      push_cast
      have : (n : ℝ) + 1 - ((j : ℝ) + 1) = (n : ℝ) - j := by ring
      rw [this]
    have hterm : ∀ J : ℕ, ∏ j ∈ Finset.range (J + 1),
        (((n + 1 : ℕ) : ℝ) - (j : ℝ)) / (((n + 1 : ℕ) : ℝ) - (j : ℝ) + x)
        = (∏ j ∈ Finset.range J, ((n : ℝ) - (j : ℝ)) / ((n : ℝ) - (j : ℝ) + x)) *
          ((((n + 1 : ℕ) : ℝ)) / (((n + 1 : ℕ) : ℝ) + x)) := by
      intro J
      rw [Finset.prod_range_succ']
      simp only [hshift]
      simp
    simp only [hterm]
    rw [← Finset.sum_mul, Finset.sum_range_succ', ih]
    have hn : (0 : ℝ) ≤ n := Nat.cast_nonneg n
    have h1 : (1 : ℝ) + x ≠ 0 := by linarith
    have h2 : ((n + 1 : ℕ) : ℝ) + x ≠ 0 := by push_cast; linarith
    simp only [Finset.range_zero, Finset.prod_empty]
    push_cast at h2 ⊢
    field_simp
    ring

/-- (B3) Laplace transform of the first-hit time of a fixed position (ProbMinHash2, unit weight)
equals the Laplace transform of `Exp (1/m)`, for every `m ≥ 1` and `s ≥ 0`. -/
theorem pmh2_survival (m : ℕ) (hm : 1 ≤ m) {s : ℝ} (hs : 0 ≤ s) :
    (1 / (m : ℝ)) * ∑ J ∈ Finset.range m, ∏ i ∈ Finset.range (J + 1), 1 / (1 + s * gapMean m i)
      = (1 / (m : ℝ)) / (1 / (m : ℝ) + s) := by
  have hm0 : (0 : ℝ) < m := by exact_mod_cast hm
  have hx : 0 ≤ s * m := mul_nonneg hs hm0.le
  have hfac : ∀ J ∈ Finset.range m, ∏ i ∈ Finset.range (J + 1), 1 / (1 + s * gapMean m i)
      = ∏ j ∈ Finset.range (J + 1), ((m : ℝ) - (j : ℝ)) / ((m : ℝ) - (j : ℝ) + s * m) := by
    intro J hJ
    apply Finset.prod_congr rfl
    intro i hi
    have him : i < m := by
      have := Finset.mem_range.mp hi
      have := Finset.mem_range.mp hJ
      omega
    have hpos : (0 : ℝ) < (m : ℝ) - (i : ℝ) := by
      have : (i : ℝ) < m := by exact_mod_cast him
      linarith
    have h2 : (m : ℝ) - (i : ℝ) + s * m ≠ 0 := by linarith
    rw [gapMean_eq him]
    field_simp
  rw [Finset.sum_congr rfl hfac, laplace_sum hx]
  have h1 : (1 : ℝ) + s * m ≠ 0 := by linarith
  field_simp

/-- sanity examples of (B3) : `m = 2`, written out. -/
example (s : ℝ) (hs : 0 ≤ s) :
    (1 / 2 : ℝ) * (1 / (1 + s * 1) + 1 / (1 + s * 1) * (1 / (1 + s * 2))) = (1 / 2) / (1 / 2 + s) := by
  have h1 : (1 : ℝ) + s * 1 ≠ 0 := by linarith
  have h2 : (1 : ℝ) + s * 2 ≠ 0 := by linarith
  have h3 : (1 : ℝ) / 2 + s ≠ 0 := by linarith
  field_simp
  ring

/-- (B3) consequence : differentiating at `s = 0` is (B2); here the value at `s = 0` (total mass). -/
theorem pmh2_laplace_zero (m : ℕ) (hm : 1 ≤ m) :
    (1 / (m : ℝ)) * ∑ J ∈ Finset.range m, ∏ i ∈ Finset.range (J + 1), 1 / (1 + 0 * gapMean m i) = 1 := by
  have hm0 : (m : ℝ) ≠ 0 := by exact_mod_cast (by omega : m ≠ 0)
  rw [pmh2_survival m hm le_rfl]
  field_simp
  ring

end PMH.Laws


import PMH.Proofs.DensSelRev
import Mathlib.Probability.Independence.Basic
import Mathlib.Probability.Independence.InfinitePi
import Mathlib.Probability.Distributions.Uniform
import Mathlib.Analysis.SpecificLimits.Basic
/-!
# `DensTerm`: almost-sure termination of the densification under ideal (i.i.d. uniform) probes (C09)

`DensSel` / `DensSelRev` prove that the model's `densifyOpt` / `densifyRev` return as soon as the
draws hit the populated bins (`densifyOpt_complete`, `densifyRev_complete`).  Here the draws are
idealised: `IdealDraws P J` says that `J k t : Ω → Fin m` are measurable, uniform on `Fin m`, and
independent over `t` for every fixed `k` (no assumption across different `k`).

* Core — one i.i.d. uniform sequence `X t`: `tail_finset`, `tail`, `never_hit`, `hit_ae`,
  `hit_prob_one`; the limits `tendsto_pow_real`, `tendsto_pow_ennreal`.
* Optimal — `opt_tail` (1), `opt_terminates_as`, `opt_terminates_as_all` (2),
  `opt_fuel_bound_finset`, `opt_fuel_bound` (3) (+ `_real` forms with `Measure.real`).
* Reverse — `rev_tail`, `rev_terminates_ae`, `rev_terminates_as` (4), `rev_fuel_bound`.
* Link (5) — `opt_stop_ae`, `opt_fuel_ae` (relational `DensSel.Stop`), `rev_onto_ae`,
  `rev_revsel_ae` (relational `DensSelRev.RevSel`); on the model: `densifyOpt_terminates_ae`,
  `densifyOpt_fuel_bound`, `densifyRev_terminates_ae`, `densifyRev_fuel_bound` for a random family
  of operations `o ω` whose probe / target functions are the ideal draws.
* Canonical — non-vacuity: `ideal_can` (the hypotheses `IdealDraws` hold on the infinite product of
  uniform measures), `idealOps` and the closed forms `idealOps_opt_terminates_ae`, ….

The model's stop rule for the empty bin `k` is `probe < k ∨ pop probe` (`DensSel.Stop`); only the
second disjunct is used, so every bound below is an upper bound for the model.
-/

namespace PMH.DensTerm
open MeasureTheory ProbabilityTheory Filter Topology
open scoped ENNReal

section Core
variable {Ω : Type*} [MeasurableSpace Ω] {P : Measure Ω} {m : ℕ}

/-- a `Fin m`-valued random variable is uniform -/
def Unif (P : Measure Ω) (X : Ω → Fin m) : Prop := ∀ j, P {ω | X ω = j} = (m : ℝ≥0∞)⁻¹

theorem meas_mem {X : Ω → Fin m} (hX : Measurable X) (hu : Unif P X) (S : Finset (Fin m)) :
    P {ω | X ω ∈ S} = (S.card : ℝ≥0∞) / m := by
  have h1 : {ω | X ω ∈ S} = ⋃ j ∈ S, {ω | X ω = j} := by
    ext ω; simp
  rw [h1, measure_biUnion_finset]
  · simp only [hu _, Finset.sum_const, nsmul_eq_mul, div_eq_mul_inv]
  · intro i _ j _ hij
    refine Set.disjoint_left.mpr ?_
    intro ω h1 h2
    exact hij (h1.symm.trans h2)
  · intro j _
    exact hX (measurableSet_singleton j)


theorem meas_not_mem [IsProbabilityMeasure P] {X : Ω → Fin m} (hX : Measurable X) (hu : Unif P X)
    (S : Finset (Fin m)) : P {ω | X ω ∉ S} = 1 - (S.card : ℝ≥0∞) / m := by
  have h1 : {ω | X ω ∉ S} = {ω | X ω ∈ S}ᶜ := rfl
  have hms : MeasurableSet {ω | X ω ∈ S} := hX (Finset.measurableSet S)
  rw [h1, prob_compl_eq_one_sub hms, meas_mem hX hu]

/-- product formula: the probes with index in the finite set `I` all miss `S` -/
theorem tail_finset [IsProbabilityMeasure P] {X : ℕ → Ω → Fin m} (hX : ∀ t, Measurable (X t))
    (hu : ∀ t, Unif P (X t)) (hind : iIndepFun X P) (S : Finset (Fin m)) (I : Finset ℕ) :
    P {ω | ∀ t ∈ I, X t ω ∉ S} = (1 - (S.card : ℝ≥0∞) / m) ^ I.card := by
  have h1 : {ω | ∀ t ∈ I, X t ω ∉ S} = ⋂ t ∈ I, {ω | X t ω ∉ S} := by
    ext ω; simp
  rw [h1, hind.meas_biInter (S := I) (s := fun t => {ω | X t ω ∉ S})]
  · simp only [meas_not_mem (hX _) (hu _), Finset.prod_const]
  · intro t _
    exact ⟨{j | j ∉ S}, MeasurableSet.of_discrete, rfl⟩

/-- **(1) `opt_tail`**: the first `n` probes all miss the populated set `S` with probability
`(1 - s/m)^n` -/
theorem tail [IsProbabilityMeasure P] {X : ℕ → Ω → Fin m} (hX : ∀ t, Measurable (X t))
    (hu : ∀ t, Unif P (X t)) (hind : iIndepFun X P) (S : Finset (Fin m)) (n : ℕ) :
    P {ω | ∀ t < n, X t ω ∉ S} = (1 - (S.card : ℝ≥0∞) / m) ^ n := by
  have := tail_finset hX hu hind S (Finset.range n)
  simpa using this


/-- the elementary limit used for almost-sure termination (real form) -/
theorem tendsto_pow_real {s m : ℕ} (hs : 1 ≤ s) (hsm : s ≤ m) :
    Tendsto (fun n : ℕ => (1 - (s : ℝ) / m) ^ n) atTop (𝓝 0) := by
  have hm : (0 : ℝ) < m := by exact_mod_cast (by omega : 0 < m)
  have hs' : (1 : ℝ) ≤ s := by exact_mod_cast hs
  have hsm' : (s : ℝ) ≤ m := by exact_mod_cast hsm
  have h1 : (s : ℝ) / m ≤ 1 := (div_le_one hm).mpr hsm'
  have h2 : 0 < (s : ℝ) / m := div_pos (by linarith) hm
  exact tendsto_pow_atTop_nhds_zero_of_lt_one (by linarith) (by linarith)

theorem ratio_lt_one {s m : ℕ} (hs : 1 ≤ s) : 1 - (s : ℝ≥0∞) / m < 1 := by
  refine ENNReal.sub_lt_self ENNReal.one_ne_top one_ne_zero ?_
  rw [Ne, ENNReal.div_eq_zero_iff, not_or]
  refine ⟨?_, ENNReal.natCast_ne_top m⟩
  exact_mod_cast (by omega : s ≠ 0)

/-- the elementary limit (extended-nonnegative form) -/
theorem tendsto_pow_ennreal {s m : ℕ} (hs : 1 ≤ s) :
    Tendsto (fun n : ℕ => (1 - (s : ℝ≥0∞) / m) ^ n) atTop (𝓝 0) :=
  ENNReal.tendsto_pow_atTop_nhds_zero_of_lt_one (ratio_lt_one hs)

theorem toReal_ratio {s m : ℕ} (hsm : s ≤ m) (n : ℕ) :
    ((1 - (s : ℝ≥0∞) / m) ^ n).toReal = (1 - (s : ℝ) / m) ^ n := by
  rcases Nat.eq_zero_or_pos m with rfl | hm
  · have : s = 0 := by omega
    subst this; simp
  have hle : (s : ℝ≥0∞) / m ≤ 1 := by
    refine ENNReal.div_le_of_le_mul ?_
    rw [one_mul]; exact_mod_cast hsm
  rw [ENNReal.toReal_pow, ENNReal.toReal_sub_of_le hle ENNReal.one_ne_top, ENNReal.toReal_div]
  simp


theorem tail_real [IsProbabilityMeasure P] {X : ℕ → Ω → Fin m} (hX : ∀ t, Measurable (X t))
    (hu : ∀ t, Unif P (X t)) (hind : iIndepFun X P) (S : Finset (Fin m)) (n : ℕ) :
    P.real {ω | ∀ t < n, X t ω ∉ S} = (1 - (S.card : ℝ) / m) ^ n := by
  have hsm : S.card ≤ m := by simpa using S.card_le_univ
  rw [Measure.real, tail hX hu hind, toReal_ratio hsm]

/-- all probes miss `S` forever: probability `0` -/
theorem never_hit [IsProbabilityMeasure P] {X : ℕ → Ω → Fin m} (hX : ∀ t, Measurable (X t))
    (hu : ∀ t, Unif P (X t)) (hind : iIndepFun X P) {S : Finset (Fin m)} (hS : S.Nonempty) :
    P {ω | ∀ t, X t ω ∉ S} = 0 := by
  have hle : ∀ n : ℕ, P {ω | ∀ t, X t ω ∉ S} ≤ (1 - (S.card : ℝ≥0∞) / m) ^ n := by
    intro n
    rw [← tail hX hu hind S n]
    exact measure_mono (fun ω h t _ => h t)
  have h0 := ge_of_tendsto' (tendsto_pow_ennreal (m := m) (Finset.card_pos.mpr hS)) hle
  exact le_antisymm h0 zero_le

/-- almost surely some probe hits `S` -/
theorem hit_ae [IsProbabilityMeasure P] {X : ℕ → Ω → Fin m} (hX : ∀ t, Measurable (X t))
    (hu : ∀ t, Unif P (X t)) (hind : iIndepFun X P) {S : Finset (Fin m)} (hS : S.Nonempty) :
    ∀ᵐ ω ∂P, ∃ t, X t ω ∈ S := by
  rw [ae_iff]
  have := never_hit hX hu hind hS
  simpa using this

theorem measurableSet_hit {X : ℕ → Ω → Fin m} (hX : ∀ t, Measurable (X t)) (S : Finset (Fin m)) :
    MeasurableSet {ω | ∃ t, X t ω ∈ S} := by
  have : {ω | ∃ t, X t ω ∈ S} = ⋃ t, {ω | X t ω ∈ S} := by ext ω; simp
  rw [this]
  exact MeasurableSet.iUnion (fun t => hX t (Finset.measurableSet S))

theorem hit_prob_one [IsProbabilityMeasure P] {X : ℕ → Ω → Fin m} (hX : ∀ t, Measurable (X t))
    (hu : ∀ t, Unif P (X t)) (hind : iIndepFun X P) {S : Finset (Fin m)} (hS : S.Nonempty) :
    P {ω | ∃ t, X t ω ∈ S} = 1 := by
  rw [← prob_compl_eq_zero_iff (measurableSet_hit hX S)]
  have := never_hit hX hu hind hS
  convert this using 2
  ext ω; simp

end Core

/-! ## Optimal densification: probes `J k t` (empty bin `k`, attempt `t`) -/
section Optimal
variable {Ω : Type*} [MeasurableSpace Ω] {P : Measure Ω} {m : ℕ}

/-- **Ideal-hash hypotheses** on a doubly indexed family of draws `J k t : Ω → Fin m`
(`k` = bin keying the generator, `t` = attempt / pass): every draw is measurable and uniform on
`Fin m`, and for each fixed `k` the draws are independent over `t`.  Nothing is assumed about the
dependence between different `k`. -/
structure IdealDraws (P : Measure Ω) (J : ℕ → ℕ → Ω → Fin m) : Prop where
  meas : ∀ k t, Measurable (J k t)
  unif : ∀ k t j, P {ω | J k t ω = j} = (m : ℝ≥0∞)⁻¹
  indep : ∀ k, iIndepFun (fun t => J k t) P

variable [IsProbabilityMeasure P] {J : ℕ → ℕ → Ω → Fin m}

/-- **(1)** the first `n` probes of bin `k` all miss the populated set `S` with probability
exactly `(1 - s/m)^n`. -/
theorem opt_tail (hJ : IdealDraws P J) (S : Finset (Fin m)) (k n : ℕ) :
    P {ω | ∀ t < n, J k t ω ∉ S} = (1 - (S.card : ℝ≥0∞) / m) ^ n :=
  tail (hJ.meas k) (hJ.unif k) (hJ.indep k) S n

/-- (1), real-valued form -/
theorem opt_tail_real (hJ : IdealDraws P J) (S : Finset (Fin m)) (k n : ℕ) :
    P.real {ω | ∀ t < n, J k t ω ∉ S} = (1 - (S.card : ℝ) / m) ^ n :=
  tail_real (hJ.meas k) (hJ.unif k) (hJ.indep k) S n

/-- **(2)** almost surely some probe of bin `k` hits a populated bin. -/
theorem opt_terminates_as (hJ : IdealDraws P J) {S : Finset (Fin m)} (hS : S.Nonempty) (k : ℕ) :
    P {ω | ∃ t, J k t ω ∈ S} = 1 :=
  hit_prob_one (hJ.meas k) (hJ.unif k) (hJ.indep k) hS

/-- (2) for all bins simultaneously, `ae` form -/
theorem opt_terminates_ae_all (hJ : IdealDraws P J) {S : Finset (Fin m)} (hS : S.Nonempty) :
    ∀ᵐ ω ∂P, ∀ k, ∃ t, J k t ω ∈ S :=
  ae_all_iff.mpr (fun k => hit_ae (hJ.meas k) (hJ.unif k) (hJ.indep k) hS)

/-- **(2) for all bins simultaneously** (in particular for all empty bins) -/
theorem opt_terminates_as_all (hJ : IdealDraws P J) {S : Finset (Fin m)} (hS : S.Nonempty) :
    P {ω | ∀ k, ∃ t, J k t ω ∈ S} = 1 := by
  have hms : MeasurableSet {ω | ∀ k, ∃ t, J k t ω ∈ S} := by
    have : {ω | ∀ k, ∃ t, J k t ω ∈ S} = ⋂ k, {ω | ∃ t, J k t ω ∈ S} := by ext ω; simp
    rw [this]
    exact MeasurableSet.iInter (fun k => measurableSet_hit (hJ.meas k) S)
  rw [← prob_compl_eq_zero_iff hms]
  exact ae_iff.mp (opt_terminates_ae_all hJ hS)

/-- (2) restricted to any class `E` of bins (e.g. the empty bins `< m`) -/
theorem opt_terminates_as_on (hJ : IdealDraws P J) {S : Finset (Fin m)} (hS : S.Nonempty)
    (E : ℕ → Prop) : P {ω | ∀ k, E k → ∃ t, J k t ω ∈ S} = 1 := by
  refine le_antisymm prob_le_one ?_
  rw [← opt_terminates_as_all hJ hS]
  exact measure_mono (fun ω h k _ => h k)

theorem ratio_pow_le {s : ℕ} (hs : 1 ≤ s) (n : ℕ) :
    (1 - (s : ℝ≥0∞) / m) ^ n ≤ (1 - 1 / (m : ℝ≥0∞)) ^ n := by
  refine pow_le_pow_left' (tsub_le_tsub_left ?_ 1) n
  refine ENNReal.div_le_div_right ?_ _
  exact_mod_cast hs

/-- **(3), sharp form**: the probability that some bin of the finite set `E` needs more than `n`
probes is at most `|E| (1 - s/m)^n`. -/
theorem opt_fuel_bound_finset (hJ : IdealDraws P J) (S : Finset (Fin m)) (E : Finset ℕ) (n : ℕ) :
    P {ω | ∃ k ∈ E, ∀ t < n, J k t ω ∉ S} ≤ E.card * (1 - (S.card : ℝ≥0∞) / m) ^ n := by
  have h1 : {ω | ∃ k ∈ E, ∀ t < n, J k t ω ∉ S} = ⋃ k ∈ E, {ω | ∀ t < n, J k t ω ∉ S} := by
    ext ω; simp
  rw [h1]
  refine (measure_biUnion_finset_le E _).trans ?_
  simp only [opt_tail hJ, Finset.sum_const, nsmul_eq_mul, le_refl]

/-- **(3)** the probability that some bin `k < m` needs more than `n` probes (its first `n`
probes all miss the nonempty populated set `S`) is at most `m (1 - 1/m)^n`. -/
theorem opt_fuel_bound (hJ : IdealDraws P J) {S : Finset (Fin m)} (hS : S.Nonempty) (n : ℕ) :
    P {ω | ∃ k < m, ∀ t < n, J k t ω ∉ S} ≤ m * (1 - 1 / (m : ℝ≥0∞)) ^ n := by
  have := opt_fuel_bound_finset hJ S (Finset.range m) n
  simp only [Finset.mem_range, Finset.card_range] at this
  exact this.trans (mul_le_mul_right (ratio_pow_le (Finset.card_pos.mpr hS) n) _)


theorem toReal_bound (hm : 1 ≤ m) (n : ℕ) :
    ((m : ℝ≥0∞) * (1 - 1 / (m : ℝ≥0∞)) ^ n).toReal = (m : ℝ) * (1 - 1 / (m : ℝ)) ^ n := by
  have := toReal_ratio (s := 1) (m := m) hm n
  rw [ENNReal.toReal_mul]
  simp only [Nat.cast_one] at this
  rw [this]; simp

theorem bound_ne_top (n : ℕ) : (m : ℝ≥0∞) * (1 - 1 / (m : ℝ≥0∞)) ^ n ≠ ⊤ :=
  ENNReal.mul_ne_top (ENNReal.natCast_ne_top m)
    (ENNReal.pow_ne_top (ne_top_of_le_ne_top ENNReal.one_ne_top tsub_le_self))

/-- (3), real-valued form -/
theorem opt_fuel_bound_real (hJ : IdealDraws P J) {S : Finset (Fin m)} (hS : S.Nonempty) (n : ℕ) :
    P.real {ω | ∃ k < m, ∀ t < n, J k t ω ∉ S} ≤ (m : ℝ) * (1 - 1 / (m : ℝ)) ^ n := by
  have hm : 1 ≤ m := by
    obtain ⟨j, _⟩ := hS
    have := j.isLt; omega
  rw [← toReal_bound hm n]
  exact ENNReal.toReal_mono (bound_ne_top n) (opt_fuel_bound hJ hS n)

end Optimal

/-! ## Reverse densification: targets `T k p` (populated bin `k`, pass `p ≥ 1`) -/
section Reverse
variable {Ω : Type*} [MeasurableSpace Ω] {P : Measure Ω} {m : ℕ}
variable [IsProbabilityMeasure P] {T : ℕ → ℕ → Ω → Fin m}

/-- **(4)** the targets drawn from the fixed bin `b0` in passes `1..n` all miss the bin `j` with
probability exactly `(1 - 1/m)^n`. -/
theorem rev_tail (hT : IdealDraws P T) (b0 : ℕ) (j : Fin m) (n : ℕ) :
    P {ω | ∀ p, 1 ≤ p → p ≤ n → T b0 p ω ≠ j} = (1 - 1 / (m : ℝ≥0∞)) ^ n := by
  have := tail_finset (hT.meas b0) (hT.unif b0) (hT.indep b0) {j} (Finset.Icc 1 n)
  simp only [Finset.mem_Icc, Finset.mem_singleton, Finset.card_singleton, Nat.cast_one,
    Nat.card_Icc, Nat.add_sub_cancel, and_imp] at this
  exact this

/-- (4), real-valued form -/
theorem rev_tail_real (hT : IdealDraws P T) (b0 : ℕ) (j : Fin m) (n : ℕ) :
    P.real {ω | ∀ p, 1 ≤ p → p ≤ n → T b0 p ω ≠ j} = (1 - 1 / (m : ℝ)) ^ n := by
  have hm : 1 ≤ m := by have := j.isLt; omega
  have := toReal_ratio (s := 1) (m := m) hm n
  simp only [Nat.cast_one] at this
  rw [Measure.real, rev_tail hT, this]

/-- bin `j` is never targeted from `b0` in a pass `≥ 1`: probability `0` -/
theorem rev_never (hT : IdealDraws P T) (b0 : ℕ) (j : Fin m) :
    P {ω | ∀ p, 1 ≤ p → T b0 p ω ≠ j} = 0 := by
  have hind : iIndepFun (fun t => T b0 (t + 1)) P :=
    (hT.indep b0).precomp (g := fun t => t + 1) (fun a b h => by simpa using h)
  have := never_hit (X := fun t => T b0 (t + 1)) (fun t => hT.meas b0 (t + 1))
    (fun t => hT.unif b0 (t + 1)) hind (S := {j}) (Finset.singleton_nonempty j)
  refine le_antisymm ?_ zero_le
  rw [← this]
  refine measure_mono (fun ω h t => ?_)
  simpa using h (t + 1) (by omega)

/-- **(4) `rev_terminates_as`**, `ae` form: almost surely every bin `j` is targeted from the
populated bin `b0` at some pass `p ≥ 1`. -/
theorem rev_terminates_ae (hT : IdealDraws P T) (b0 : ℕ) :
    ∀ᵐ ω ∂P, ∀ j : Fin m, ∃ p, 1 ≤ p ∧ T b0 p ω = j := by
  rw [ae_all_iff]
  intro j
  rw [ae_iff]
  have := rev_never hT b0 j
  simpa using this

/-- **(4) `rev_terminates_as`** -/
theorem rev_terminates_as (hT : IdealDraws P T) (b0 : ℕ) :
    P {ω | ∀ j : Fin m, ∃ p, 1 ≤ p ∧ T b0 p ω = j} = 1 := by
  have hms : MeasurableSet {ω | ∀ j : Fin m, ∃ p, 1 ≤ p ∧ T b0 p ω = j} := by
    have : {ω | ∀ j : Fin m, ∃ p, 1 ≤ p ∧ T b0 p ω = j}
        = ⋂ j : Fin m, ⋃ p : ℕ, ⋃ _ : 1 ≤ p, {ω | T b0 p ω = j} := by ext ω; simp
    rw [this]
    refine MeasurableSet.iInter (fun j => MeasurableSet.iUnion (fun p =>
      MeasurableSet.iUnion (fun _ => hT.meas b0 p (measurableSet_singleton j))))
  rw [← prob_compl_eq_zero_iff hms]
  exact ae_iff.mp (rev_terminates_ae hT b0)

/-- reverse analogue of (3): the probability that some bin has not been targeted from `b0` within
the passes `1..n` is at most `m (1 - 1/m)^n` (coupon-collector union bound). -/
theorem rev_fuel_bound (hT : IdealDraws P T) (b0 : ℕ) (n : ℕ) :
    P {ω | ∃ j : Fin m, ∀ p, 1 ≤ p → p ≤ n → T b0 p ω ≠ j} ≤ m * (1 - 1 / (m : ℝ≥0∞)) ^ n := by
  have h1 : {ω | ∃ j : Fin m, ∀ p, 1 ≤ p → p ≤ n → T b0 p ω ≠ j}
      = ⋃ j ∈ (Finset.univ : Finset (Fin m)), {ω | ∀ p, 1 ≤ p → p ≤ n → T b0 p ω ≠ j} := by
    ext ω; simp
  rw [h1]
  refine (measure_biUnion_finset_le _ _).trans ?_
  simp only [rev_tail hT, Finset.sum_const, nsmul_eq_mul, Finset.card_univ, Fintype.card_fin,
    le_refl]

theorem rev_fuel_bound_real (hT : IdealDraws P T) (b0 : ℕ) (n : ℕ) :
    P.real {ω | ∃ j : Fin m, ∀ p, 1 ≤ p → p ≤ n → T b0 p ω ≠ j}
      ≤ (m : ℝ) * (1 - 1 / (m : ℝ)) ^ n := by
  rcases Nat.eq_zero_or_pos m with rfl | hm
  · have : {ω : Ω | ∃ j : Fin 0, ∀ p, 1 ≤ p → p ≤ n → T b0 p ω ≠ j} = ∅ := by
      ext ω; simp
    rw [this, Measure.real, measure_empty]; simp
  rw [← toReal_bound hm n]
  exact ENNReal.toReal_mono (bound_ne_top n) (rev_fuel_bound hT b0 n)

end Reverse

/-! ## (5) Link to the relational predicates and to the model runs -/
section Link
open PMH.DensSel PMH.DensSelRev PMH.DensP
variable {Ω : Type*} [MeasurableSpace Ω] {P : Measure Ω} {m : ℕ}

/-- finitely many existential witnesses have a common strict bound -/
theorem exists_bound (Q : ℕ → ℕ → Prop) (m : ℕ) (h : ∀ k, k < m → ∃ i, Q k i) :
    ∃ N, ∀ k, k < m → ∃ i, i < N ∧ Q k i := by
  induction m with
  | zero => exact ⟨0, fun k hk => absurd hk (Nat.not_lt_zero k)⟩
  | succ m ih =>
    obtain ⟨N, hN⟩ := ih (fun k hk => h k (Nat.lt_succ_of_lt hk))
    obtain ⟨i, hi⟩ := h m (Nat.lt_succ_self m)
    refine ⟨max N (i + 1), fun k hk => ?_⟩
    rcases Nat.lt_succ_iff_lt_or_eq.mp hk with hk | rfl
    · obtain ⟨i', hi', hq⟩ := hN k hk
      exact ⟨i', lt_of_lt_of_le hi' (le_max_left _ _), hq⟩
    · exact ⟨i, lt_of_lt_of_le (Nat.lt_succ_self i) (le_max_right _ _), hi⟩

omit [MeasurableSpace Ω] in
/-- a probe that hits a populated bin is a relational stop of `DensSel` -/
theorem stop_of_hit {Item : Type} {J : ℕ → ℕ → Ω → Fin m} {S : Finset (Fin m)} (V : View Item)
    (hV : ∀ b : Fin m, b ∈ S → V.pop b.val) {ω : Ω} {k t : ℕ} (h : J k t ω ∈ S) :
    Stop (fun k t => (J k t ω).val) V k t := Or.inr (hV _ h)

variable [IsProbabilityMeasure P]

/-- **(5)** almost surely every bin has a relational stop (`DensSel.Stop`) for the probe function
`probe k t := (J k t ω).val`, for every view `V` whose populated bins contain `S`. -/
theorem opt_stop_ae {J : ℕ → ℕ → Ω → Fin m} (hJ : IdealDraws P J) {S : Finset (Fin m)}
    (hS : S.Nonempty) {Item : Type} (V : View Item) (hV : ∀ b : Fin m, b ∈ S → V.pop b.val) :
    ∀ᵐ ω ∂P, ∀ k, ∃ i, Stop (fun k t => (J k t ω).val) V k i := by
  filter_upwards [opt_terminates_ae_all hJ hS] with ω hω k
  obtain ⟨t, ht⟩ := hω k
  exact ⟨t, stop_of_hit V hV ht⟩

/-- **(5)** almost surely some finite fuel satisfies the hypothesis `hfuel` of
`DensSel.densifyOpt_complete` (in relational form). -/
theorem opt_fuel_ae {J : ℕ → ℕ → Ω → Fin m} (hJ : IdealDraws P J) {S : Finset (Fin m)}
    (hS : S.Nonempty) {Item : Type} (V : View Item) (hV : ∀ b : Fin m, b ∈ S → V.pop b.val) :
    ∀ᵐ ω ∂P, ∃ fuel, ∀ k, k < m → ¬ V.pop k →
      ∃ i, i < fuel ∧ Stop (fun k t => (J k t ω).val) V k i := by
  filter_upwards [opt_stop_ae hJ hS V hV] with ω hω
  obtain ⟨N, hN⟩ := exists_bound (fun k i => Stop (fun k t => (J k t ω).val) V k i) m
    (fun k _ => hω k)
  exact ⟨N, fun k hk _ => hN k hk⟩

/-! ### model runs driven by ideal draws -/
variable {K G R : Type} [LinearOrder K]

/-- the populated bins of the start state, as a finite subset of `Fin m` -/
def popSet (m : ℕ) (s0 : Dens K) : Finset (Fin m) :=
  Finset.univ.filter (fun b : Fin m => s0.init.getD b.val false = true)

omit [LinearOrder K] in
theorem mem_popSet (large : K) (s0 : Dens K) (b : Fin m) :
    b ∈ popSet m s0 ↔ (V0 large m s0).pop b.val := by
  simp [popSet, V0, b.isLt]

omit [LinearOrder K] in
theorem popSet_nonempty (large : K) (s0 : Dens K) (hpop : ∃ b, (V0 large m s0).pop b) :
    (popSet m s0).Nonempty := by
  obtain ⟨b, hb⟩ := hpop
  exact ⟨⟨b, hb.1⟩, (mem_popSet large s0 ⟨b, hb.1⟩).mpr hb⟩

omit [MeasurableSpace Ω] in
/-- deterministic link: if the model's probe function is `J · · ω` and every bin hits a populated
bin within its first `n` probes, `densifyOpt` with fuel `n` returns. -/
theorem densifyOpt_returns_of_hit (large : K) (o : DensOps K G R) (s0 : Dens K)
    (hinv : DInv large m s0) (hd : DrawTotal o m) (hlt : ∀ r, (drawT o m r).1 < m)
    (hpop : ∃ b, (V0 large m s0).pop b) (J : ℕ → ℕ → Ω → Fin m) (ω : Ω)
    (hprobe : ∀ k t, k < m → probeOf o m k t = (J k t ω).val) (n : ℕ)
    (h : ∀ k, k < m → ∃ t, t < n ∧ J k t ω ∈ popSet m s0) :
    ∃ s', Dens.densifyOpt o n s0 = .ok s' := by
  refine densifyOpt_complete large m o n s0 hinv hd hlt hpop (fun k hk _ => ?_)
  obtain ⟨t, htn, ht⟩ := h k hk
  refine ⟨t, htn, Or.inr ?_⟩
  rw [hprobe k t hk]
  exact (mem_popSet large s0 _).mp ht

/-- **(3) on the model**: if the probe functions of the (random) operations `o ω` are ideal draws,
the optimal densification with fuel `n` fails to return with probability at most
`m (1 - 1/m)^n`. -/
theorem densifyOpt_fuel_bound (large : K) (o : Ω → DensOps K G R) (s0 : Dens K)
    (hinv : DInv large m s0) (hd : ∀ ω, DrawTotal (o ω) m)
    (hlt : ∀ ω r, (drawT (o ω) m r).1 < m) (hpop : ∃ b, (V0 large m s0).pop b)
    {J : ℕ → ℕ → Ω → Fin m} (hJ : IdealDraws P J)
    (hprobe : ∀ ω k t, k < m → probeOf (o ω) m k t = (J k t ω).val) (n : ℕ) :
    P {ω | ¬ ∃ s', Dens.densifyOpt (o ω) n s0 = .ok s'} ≤ m * (1 - 1 / (m : ℝ≥0∞)) ^ n := by
  refine (measure_mono ?_).trans (opt_fuel_bound hJ (popSet_nonempty large s0 hpop) n)
  intro ω hω
  by_contra hc
  refine hω (densifyOpt_returns_of_hit large (o ω) s0 hinv (hd ω) (hlt ω) hpop J ω (hprobe ω) n
    (fun k hk => ?_))
  by_contra hk'
  exact hc ⟨k, hk, fun t ht hin => hk' ⟨t, ht, hin⟩⟩

/-- **(2) on the model**: almost surely the optimal densification returns for some finite fuel. -/
theorem densifyOpt_terminates_ae (large : K) (o : Ω → DensOps K G R) (s0 : Dens K)
    (hinv : DInv large m s0) (hd : ∀ ω, DrawTotal (o ω) m)
    (hlt : ∀ ω r, (drawT (o ω) m r).1 < m) (hpop : ∃ b, (V0 large m s0).pop b)
    {J : ℕ → ℕ → Ω → Fin m} (hJ : IdealDraws P J)
    (hprobe : ∀ ω k t, k < m → probeOf (o ω) m k t = (J k t ω).val) :
    ∀ᵐ ω ∂P, ∃ fuel s', Dens.densifyOpt (o ω) fuel s0 = .ok s' := by
  filter_upwards [opt_terminates_ae_all hJ (popSet_nonempty large s0 hpop)] with ω hω
  obtain ⟨N, hN⟩ := exists_bound (fun k t => J k t ω ∈ popSet m s0) m (fun k _ => hω k)
  exact ⟨N, densifyOpt_returns_of_hit large (o ω) s0 hinv (hd ω) (hlt ω) hpop J ω (hprobe ω) N hN⟩


/-! ### reverse densification

`DensSelRev.termRevH_of_tgt_onto` needs `honto : ∀ b k, b < m → k < m → ∃ p ≥ 1, tgt b p = k`, but
its proof only uses `honto` at the single populated bin `b = binOf … h0`.  `rev_onto_ae` is exactly
that instance (`b = b0`) for `tgt k p := (T k p ω).val`, almost surely; `rev_revsel_ae` draws the
same conclusion as `termRevH_of_tgt_onto` (every bin `< m` gets populated by the relational
reverse process) for an arbitrary view with `b0` populated. -/

/-- almost surely the target function `tgt k p := (T k p ω).val` is onto `{0..m-1}` from the
bin `b0` over the passes `p ≥ 1` -/
theorem rev_onto_ae {T : ℕ → ℕ → Ω → Fin m} (hT : IdealDraws P T) (b0 : ℕ) :
    ∀ᵐ ω ∂P, ∀ k, k < m → ∃ p, 1 ≤ p ∧ (T b0 p ω).val = k := by
  filter_upwards [rev_terminates_ae hT b0] with ω hω k hk
  obtain ⟨p, hp, h⟩ := hω ⟨k, hk⟩
  exact ⟨p, hp, by rw [h]⟩

/-- almost surely the relational reverse process (`DensSelRev.RevSel`) run with the ideal targets
populates every bin `k < m`, for every view in which the bin `b0 < m` is populated -/
theorem rev_revsel_ae {T : ℕ → ℕ → Ω → Fin m} (hT : IdealDraws P T) {Item : Type} (V : View Item)
    {b0 : ℕ} (hb0 : b0 < m) (hp0 : V.pop b0) :
    ∀ᵐ ω ∂P, ∀ k, k < m → ∃ y, RevSel (fun k p => (T k p ω).val) m V k y := by
  filter_upwards [rev_onto_ae hT b0] with ω hω k hk
  obtain ⟨p, hp, h⟩ := hω k hk
  obtain ⟨y, hy⟩ := revsel_of_hit (fun k p => (T k p ω).val) hb0 hp0 hp h
  exact ⟨y, p, hy⟩

omit [MeasurableSpace Ω] in
/-- deterministic link: if the model's targets from the populated bin `b0` are `T b0 · ω` and every
bin is targeted from `b0` in some pass `1..n`, `densifyRev` with fuel `n + 1` returns. -/
theorem densifyRev_returns_of_hit (large : K) (o : DensOps K G R) (s0 : Dens K)
    (hinv : DInv large m s0) (hd : DrawTotal o m) (hlt : ∀ r, (drawT o m r).1 < m)
    {b0 : ℕ} (hb0 : (V0 large m s0).pop b0) (T : ℕ → ℕ → Ω → Fin m) (ω : Ω)
    (htgt : ∀ p, tgtOf o m b0 p = (T b0 p ω).val) (n : ℕ)
    (h : ∀ j : Fin m, ∃ p, 1 ≤ p ∧ p ≤ n ∧ T b0 p ω = j) :
    ∃ s', Dens.densifyRev o (n + 1) 1 s0 = .ok s' := by
  refine densifyRev_complete large m o (n + 1) s0 hinv hd hlt ⟨b0, hb0⟩ (fun k hk => ?_)
  obtain ⟨p, hp1, hpn, hp⟩ := h ⟨k, hk⟩
  have ht : tgtOf o m b0 p = k := by rw [htgt, hp]
  obtain ⟨y, hy⟩ := revsel_of_hit (tgtOf o m) hb0.1 hb0 hp1 ht
  exact ⟨p, by omega, y, hy⟩

/-- **reverse analogue of (3) on the model**: if the targets drawn from one populated bin `b0` are
ideal draws, the reverse densification with fuel `n + 1` (at most `n` filling passes) fails to
return with probability at most `m (1 - 1/m)^n`. -/
theorem densifyRev_fuel_bound (large : K) (o : Ω → DensOps K G R) (s0 : Dens K)
    (hinv : DInv large m s0) (hd : ∀ ω, DrawTotal (o ω) m)
    (hlt : ∀ ω r, (drawT (o ω) m r).1 < m) {b0 : ℕ} (hb0 : (V0 large m s0).pop b0)
    {T : ℕ → ℕ → Ω → Fin m} (hT : IdealDraws P T)
    (htgt : ∀ ω p, tgtOf (o ω) m b0 p = (T b0 p ω).val) (n : ℕ) :
    P {ω | ¬ ∃ s', Dens.densifyRev (o ω) (n + 1) 1 s0 = .ok s'}
      ≤ m * (1 - 1 / (m : ℝ≥0∞)) ^ n := by
  refine (measure_mono ?_).trans (rev_fuel_bound hT b0 n)
  intro ω hω
  by_contra hc
  refine hω (densifyRev_returns_of_hit large (o ω) s0 hinv (hd ω) (hlt ω) hb0 T ω (htgt ω) n
    (fun j => ?_))
  by_contra hj
  exact hc ⟨j, fun p hp1 hpn hp => hj ⟨p, hp1, hpn, hp⟩⟩

/-- **(4) on the model**: almost surely the reverse densification returns for some finite fuel. -/
theorem densifyRev_terminates_ae (large : K) (o : Ω → DensOps K G R) (s0 : Dens K)
    (hinv : DInv large m s0) (hd : ∀ ω, DrawTotal (o ω) m)
    (hlt : ∀ ω r, (drawT (o ω) m r).1 < m) {b0 : ℕ} (hb0 : (V0 large m s0).pop b0)
    {T : ℕ → ℕ → Ω → Fin m} (hT : IdealDraws P T)
    (htgt : ∀ ω p, tgtOf (o ω) m b0 p = (T b0 p ω).val) :
    ∀ᵐ ω ∂P, ∃ fuel s', Dens.densifyRev (o ω) fuel 1 s0 = .ok s' := by
  filter_upwards [rev_terminates_ae hT b0] with ω hω
  obtain ⟨N, hN⟩ := exists_bound (fun k p => 1 ≤ p ∧ (T b0 p ω).val = k) m
    (fun k hk => by
      obtain ⟨p, hp, h⟩ := hω ⟨k, hk⟩
      exact ⟨p, hp, by rw [h]⟩)
  refine ⟨N + 1, densifyRev_returns_of_hit large (o ω) s0 hinv (hd ω) (hlt ω) hb0 T ω (htgt ω) N
    (fun j => ?_)⟩
  obtain ⟨p, hpN, hp1, hp⟩ := hN j.val j.isLt
  exact ⟨p, hp1, by omega, Fin.ext hp⟩

end Link

/-! ## Non-vacuity: the canonical ideal probability space -/
section Canonical
open PMH.DensSel PMH.DensSelRev PMH.DensP
variable {Ω : Type*} [MeasurableSpace Ω] {P : Measure Ω}

/-- the `Measure.map` formulation of uniformity implies the pointwise one used by `IdealDraws` -/
theorem unif_of_map {m : ℕ} [NeZero m] {X : Ω → Fin m} (hX : Measurable X)
    (h : P.map X = (PMF.uniformOfFintype (Fin m)).toMeasure) (j : Fin m) :
    P {ω | X ω = j} = (m : ℝ≥0∞)⁻¹ := by
  have h1 : {ω | X ω = j} = X ⁻¹' {j} := rfl
  rw [h1, ← Measure.map_apply hX (measurableSet_singleton j), h,
    PMF.toMeasure_apply_singleton _ _ (measurableSet_singleton j), PMF.uniformOfFintype_apply,
    Fintype.card_fin]

variable (m : ℕ) [NeZero m]

/-- the uniform distribution on `Fin m` -/
noncomputable def μU : Measure (Fin m) := (PMF.uniformOfFintype (Fin m)).toMeasure

instance : IsProbabilityMeasure (μU m) := by unfold μU; infer_instance

/-- the canonical ideal space: i.i.d. uniform draws indexed by (generator seed, draw number) -/
noncomputable def Pcan : Measure (ℕ × ℕ → Fin m) := Measure.infinitePi (fun _ => μU m)

instance : IsProbabilityMeasure (Pcan m) := by unfold Pcan; infer_instance

/-- reading the canonical space along any map `f` that is injective in the second index gives an
ideal family: **the hypotheses `IdealDraws` are satisfiable** for every `m ≥ 1`. -/
theorem ideal_can (f : ℕ → ℕ → ℕ × ℕ) (hf : ∀ k, Function.Injective (f k)) :
    IdealDraws (Pcan m) (fun k t (ω : ℕ × ℕ → Fin m) => ω (f k t)) where
  meas k t := measurable_pi_apply _
  unif k t j := by
    refine unif_of_map (P := Pcan m) (X := fun ω : ℕ × ℕ → Fin m => ω (f k t))
      (measurable_pi_apply _) ?_ j
    exact Measure.infinitePi_map_eval (fun _ : ℕ × ℕ => μU m) (f k t)
  indep k := by
    have h := iIndepFun_infinitePi (P := fun _ : ℕ × ℕ => μU m)
      (X := fun (_ : ℕ × ℕ) (x : Fin m) => x) (fun _ => measurable_id)
    exact h.precomp (hf k)


/-! ### the model run on the canonical space -/
variable {K G R : Type}

/-- ideal generators: the generator seeded with `s` returns the coordinate `ω (s, t)` at its
`t`-th draw (the other operations are taken from `o0`) -/
def idealOps (o0 : DensOps K G R) (ω : ℕ × ℕ → Fin m) : DensOps K G (ℕ × ℕ) where
  unif := o0.unif
  unifK := o0.unifK
  mkRng s := (s, 0)
  draw _ r := .ok ((ω r).val, (r.1, r.2 + 1))

omit [NeZero m] in
theorem idealOps_drawT (o0 : DensOps K G R) (ω : ℕ × ℕ → Fin m) (m' : ℕ) (r : ℕ × ℕ) :
    drawT (idealOps m o0 ω) m' r = ((ω r).val, (r.1, r.2 + 1)) := rfl

omit [NeZero m] in
theorem idealOps_total (o0 : DensOps K G R) (ω : ℕ × ℕ → Fin m) (m' : ℕ) :
    DrawTotal (idealOps m o0 ω) m' := fun _ => ⟨_, rfl⟩

omit [NeZero m] in
theorem idealOps_rngAt (o0 : DensOps K G R) (ω : ℕ × ℕ → Fin m) (m' k t : ℕ) :
    rngAt (idealOps m o0 ω) m' k t = (k + 123743, t) := by
  induction t with
  | zero => rfl
  | succ t ih => simp only [rngAt, ih, idealOps_drawT]

omit [NeZero m] in
theorem idealOps_probe (o0 : DensOps K G R) (ω : ℕ × ℕ → Fin m) (m' k t : ℕ) :
    probeOf (idealOps m o0 ω) m' k t = (ω (k + 123743, t)).val := by
  simp only [probeOf, idealOps_rngAt, idealOps_drawT]

omit [NeZero m] in
theorem idealOps_tgt (o0 : DensOps K G R) (ω : ℕ × ℕ → Fin m) (m' k p : ℕ) :
    tgtOf (idealOps m o0 ω) m' k p = (ω ((k + 1) * m' + p + 253713, 0)).val := rfl

theorem ideal_probe : IdealDraws (Pcan m) (fun k t (ω : ℕ × ℕ → Fin m) => ω (k + 123743, t)) :=
  ideal_can m (fun k t => (k + 123743, t)) (fun k a b h => by simpa using h)

theorem ideal_tgt (m' : ℕ) :
    IdealDraws (Pcan m) (fun k p (ω : ℕ × ℕ → Fin m) => ω ((k + 1) * m' + p + 253713, 0)) :=
  ideal_can m (fun k p => ((k + 1) * m' + p + 253713, 0)) (fun k a b h => by
    simp only [Prod.mk.injEq, and_true] at h; omega)

variable [LinearOrder K]

/-- **closed form, optimal**: on the canonical ideal space the model's `densifyOpt`, run with the
ideal generators, returns for some finite fuel almost surely … -/
theorem idealOps_opt_terminates_ae (large : K) (o0 : DensOps K G R) (s0 : Dens K)
    (hinv : DInv large m s0) (hpop : ∃ b, (V0 large m s0).pop b) :
    ∀ᵐ ω ∂(Pcan m), ∃ fuel s', Dens.densifyOpt (idealOps m o0 ω) fuel s0 = .ok s' :=
  densifyOpt_terminates_ae large (idealOps m o0) s0 hinv (fun ω => idealOps_total m o0 ω m)
    (fun ω r => (ω r).isLt) hpop (ideal_probe m) (fun ω k t _ => idealOps_probe m o0 ω m k t)

/-- … and exhausts the fuel `n` with probability at most `m (1 - 1/m)^n`. -/
theorem idealOps_opt_fuel_bound (large : K) (o0 : DensOps K G R) (s0 : Dens K)
    (hinv : DInv large m s0) (hpop : ∃ b, (V0 large m s0).pop b) (n : ℕ) :
    Pcan m {ω | ¬ ∃ s', Dens.densifyOpt (idealOps m o0 ω) n s0 = .ok s'}
      ≤ m * (1 - 1 / (m : ℝ≥0∞)) ^ n :=
  densifyOpt_fuel_bound large (idealOps m o0) s0 hinv (fun ω => idealOps_total m o0 ω m)
    (fun ω r => (ω r).isLt) hpop (ideal_probe m) (fun ω k t _ => idealOps_probe m o0 ω m k t) n

/-- **closed form, reverse** -/
theorem idealOps_rev_terminates_ae (large : K) (o0 : DensOps K G R) (s0 : Dens K)
    (hinv : DInv large m s0) (hpop : ∃ b, (V0 large m s0).pop b) :
    ∀ᵐ ω ∂(Pcan m), ∃ fuel s', Dens.densifyRev (idealOps m o0 ω) fuel 1 s0 = .ok s' := by
  obtain ⟨b0, hb0⟩ := hpop
  exact densifyRev_terminates_ae large (idealOps m o0) s0 hinv
    (fun ω => idealOps_total m o0 ω m) (fun ω r => (ω r).isLt) hb0 (ideal_tgt m m)
    (fun ω p => idealOps_tgt m o0 ω m b0 p)

theorem idealOps_rev_fuel_bound (large : K) (o0 : DensOps K G R) (s0 : Dens K)
    (hinv : DInv large m s0) (hpop : ∃ b, (V0 large m s0).pop b) (n : ℕ) :
    Pcan m {ω | ¬ ∃ s', Dens.densifyRev (idealOps m o0 ω) (n + 1) 1 s0 = .ok s'}
      ≤ m * (1 - 1 / (m : ℝ≥0∞)) ^ n := by
  obtain ⟨b0, hb0⟩ := hpop
  exact densifyRev_fuel_bound large (idealOps m o0) s0 hinv
    (fun ω => idealOps_total m o0 ω m) (fun ω r => (ω r).isLt) hb0 (ideal_tgt m m)
    (fun ω p => idealOps_tgt m o0 ω m b0 p) n

end Canonical
end PMH.DensTerm

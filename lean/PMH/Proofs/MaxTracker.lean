import PMH.Model.MaxTracker
import Mathlib.Order.Basic
import Mathlib.Order.Lattice
import Mathlib.Order.MinMax
/-!
# Invariant of `MaxValueTracker.update` (helper lemmas for C15)

Functional view `v : Nat → α` of the node array; `NodeOK`: an internal node equals the max of its
two children.  `done_lemma` / `step_lemma` are the two ways one iteration of the loop can end.
-/
namespace PMH.MT
variable {α : Type} [LinearOrder α]

theorem xor1 (k : Nat) : k ^^^ 1 = if k % 2 = 0 then k + 1 else k - 1 := by
  have h2 : (k ^^^ 1) / 2 = k / 2 := by
    rw [Nat.xor_div_two]; simp
  have h1 : ((k ^^^ 1) % 2 = 1) ↔ ¬ ((k % 2 = 1) ↔ (1 % 2 = 1)) := Nat.xor_mod_two_eq_one
  split <;> omega

def NodeOK (m : Nat) (v : Nat → α) (i : Nat) : Prop := v i = max (v (2*(i - m))) (v (2*(i - m) + 1))
def InvF (m : Nat) (v : Nat → α) : Prop := ∀ i, m ≤ i → i < 2*m - 1 → NodeOK m v i

/-- invariant "everywhere except that node k is about to receive `cur`" -/
def InvExceptF (m : Nat) (v : Nat → α) (k : Nat) (cur : α) : Prop :=
  (∀ i, m ≤ i → i < 2*m - 1 → i ≠ k → i ≠ m + k/2 → NodeOK m v i) ∧
  (m ≤ k → cur = max (v (2*(k - m))) (v (2*(k - m) + 1))) ∧
  (k < 2*m - 2 → v (m + k/2) = max (v k) (v (k ^^^ 1))) ∧
  cur ≤ v k ∧ k < 2*m - 1

theorem children (m k : Nat) (hk2 : k < 2*m - 2) :
    (2 * (m + k/2 - m) = k ∧ 2 * (m + k/2 - m) + 1 = k ^^^ 1) ∨
    (2 * (m + k/2 - m) = k ^^^ 1 ∧ 2 * (m + k/2 - m) + 1 = k) := by
  rw [xor1]; split <;> omega

theorem done_lemma (m : Nat) (v : Nat → α) (k : Nat) (cur : α) (h : InvExceptF m v k cur)
    (hp : k < 2*m - 2 → v (m + k/2) = max cur (v (k ^^^ 1))) :
    InvF m (Function.update v k cur) := by
  obtain ⟨hoth, hself, _, _, hk⟩ := h
  have hsib : k ^^^ 1 = if k % 2 = 0 then k + 1 else k - 1 := xor1 k
  intro i hi1 hi2
  by_cases hik : i = k
  · subst hik
    have c1 : 2 * (i - m) ≠ i := by omega
    have c2 : 2 * (i - m) + 1 ≠ i := by omega
    simp only [NodeOK, Function.update_self, Function.update_of_ne c1, Function.update_of_ne c2]
    exact hself hi1
  · by_cases hip : i = m + k/2
    · subst hip
      have hk2 : k < 2*m - 2 := by omega
      have hsk : k ^^^ 1 ≠ k := by rw [hsib]; split <;> omega
      have hpk : m + k/2 ≠ k := by omega
      simp only [NodeOK, Function.update_of_ne hpk]
      rcases children m k hk2 with ⟨e1, e2⟩ | ⟨e1, e2⟩
      · rw [e2, e1, Function.update_self, Function.update_of_ne hsk, hp hk2]
      · rw [e2, e1, Function.update_self, Function.update_of_ne hsk, hp hk2, max_comm]
    · have c1 : 2 * (i - m) ≠ k := by omega
      have c2 : 2 * (i - m) + 1 ≠ k := by omega
      have := hoth i hi1 hi2 hik hip
      simp only [NodeOK, Function.update_of_ne hik, Function.update_of_ne c1, Function.update_of_ne c2] at this ⊢
      exact this

theorem step_lemma (m : Nat) (v : Nat → α) (k : Nat) (cur : α) (h : InvExceptF m v k cur)
    (hk2 : k < 2*m - 2) (hlt : max cur (v (k ^^^ 1)) < v (m + k/2)) :
    InvExceptF m (Function.update v k cur) (m + k/2) (max cur (v (k ^^^ 1))) := by
  obtain ⟨hoth, hself, hpar, hle, hk⟩ := h
  have hsib : k ^^^ 1 = if k % 2 = 0 then k + 1 else k - 1 := xor1 k
  have hsk : k ^^^ 1 ≠ k := by rw [hsib]; split <;> omega
  have hpk : m + k/2 ≠ k := by omega
  refine ⟨?_, ?_, ?_, ?_, ?_⟩
  · intro i hi1 hi2 hne1 hne2
    by_cases hik : i = k
    · subst hik
      have c1 : 2 * (i - m) ≠ i := by omega
      have c2 : 2 * (i - m) + 1 ≠ i := by omega
      simp only [NodeOK, Function.update_self, Function.update_of_ne c1, Function.update_of_ne c2]
      exact hself hi1
    · have c1 : 2 * (i - m) ≠ k := by omega
      have c2 : 2 * (i - m) + 1 ≠ k := by omega
      have := hoth i hi1 hi2 hik hne1
      simp only [NodeOK, Function.update_of_ne hik, Function.update_of_ne c1, Function.update_of_ne c2] at this ⊢
      exact this
  · intro _
    rcases children m k hk2 with ⟨e1, e2⟩ | ⟨e1, e2⟩
    · rw [e2, e1, Function.update_self, Function.update_of_ne hsk]
    · rw [e2, e1, Function.update_self, Function.update_of_ne hsk, max_comm]
  · intro hp2
    have hgp : m + (m + k/2)/2 ≠ k := by omega
    have hps' : (m + k/2) ^^^ 1 ≠ k := by rw [xor1]; split <;> omega
    rw [Function.update_of_ne hgp, Function.update_of_ne hpk, Function.update_of_ne hps']
    have hi1 : m ≤ m + (m + k/2)/2 := by omega
    have hi2 : m + (m + k/2)/2 < 2*m - 1 := by omega
    have := hoth _ hi1 hi2 (by omega) (by omega)
    simp only [NodeOK] at this
    rw [this]
    rcases children m (m + k/2) hp2 with ⟨e1, e2⟩ | ⟨e1, e2⟩
    · rw [e2, e1]
    · rw [e2, e1, max_comm]
  · simp only [Function.update_of_ne hpk]; exact le_of_lt hlt
  · omega

/-! ### array view -/

def vw (d : α) (a : Array α) : Nat → α := fun i => a.getD i d

theorem vw_set (d : α) (a : Array α) (k : Nat) (x : α) (h : k < a.size) :
    vw d (a.set k x h) = Function.update (vw d a) k x := by
  funext i
  unfold vw Function.update
  simp only [Array.getD_eq_getD_getElem?, Array.getElem?_set, eq_rec_constant, dite_eq_ite]
  by_cases hik : i = k
  · subst hik; simp
  · have : ¬ k = i := fun h => hik h.symm
    simp [hik, this]

theorem getElem?_vw (d : α) (a : Array α) (i : Nat) (h : i < a.size) : a[i]? = some (vw d a i) := by
  unfold vw; simp [Array.getD_eq_getD_getElem?, h]

def InvA (d : α) (m : Nat) (a : Array α) : Prop := a.size = 2*m - 1 ∧ InvF m (vw d a)

/-- the propagation loop never fails, restores the invariant, and changes no leaf but `k`. -/
theorem updLoop_spec (d : α) (m : Nat) (hm : 1 ≤ m) : ∀ (f : Nat) (a : Array α) (k : Nat) (cur : α),
    a.size = 2*m - 1 → 2*m - 1 ≤ k + f → InvExceptF m (vw d a) k cur →
    ∃ a', Tracker.updLoop m f a k cur = .ok a' ∧ InvA d m a' ∧
      ∀ i, i < m → vw d a' i = if i = k then cur else vw d a i := by
  intro f
  induction f with
  | zero =>
    intro a k cur hs hf h
    obtain ⟨_, _, _, _, hk⟩ := h
    omega
  | succ f ih =>
    intro a k cur hs hf h
    have hk : k < 2*m - 1 := h.2.2.2.2
    have hka : k < a.size := by omega
    have hsib : k ^^^ 1 = if k % 2 = 0 then k + 1 else k - 1 := xor1 k
    unfold Tracker.updLoop
    simp only [hka, dite_true]
    have hleaf : ∀ i, i < m → vw d (a.set k cur hka) i = if i = k then cur else vw d a i := by
      intro i _
      rw [vw_set]; unfold Function.update; simp
    by_cases hroot : m + k / 2 > 2 * m - 2
    · simp only [hroot, if_true]
      refine ⟨_, rfl, ⟨by simp [hs], ?_⟩, hleaf⟩
      rw [vw_set]
      exact done_lemma m _ k cur h (by omega)
    · simp only [hroot, if_false]
      have hk2 : k < 2*m - 2 := by omega
      have hsk : k ^^^ 1 ≠ k := by rw [hsib]; split <;> omega
      have hpk : m + k/2 ≠ k := by omega
      have hs1 : (a.set k cur hka).size = 2*m - 1 := by simp [hs]
      have hslt : k ^^^ 1 < (a.set k cur hka).size := by rw [hs1, hsib]; split <;> omega
      have hplt : m + k/2 < (a.set k cur hka).size := by rw [hs1]; omega
      rw [getElem?_vw d _ _ hslt, getElem?_vw d _ _ hplt]
      simp only [vw_set, Function.update_of_ne hsk, Function.update_of_ne hpk]
      obtain ⟨hoth, hself, hpar, hle, _⟩ := h
      have hparv := hpar hk2
      have hcur' : (if cur < vw d a (k ^^^ 1) then vw d a (k ^^^ 1) else cur) = max cur (vw d a (k ^^^ 1)) := by
        split
        · rw [max_eq_right (le_of_lt ‹_›)]
        · rw [max_eq_left (not_lt.mp ‹_›)]
      have hle' : max cur (vw d a (k ^^^ 1)) ≤ vw d a (m + k/2) := by
        rw [hparv]; exact max_le_max hle (le_refl _)
      have hA1 : ¬ (vw d a (m + k/2) < vw d a (k ^^^ 1)) := by
        rw [hparv]; exact not_lt.mpr (le_max_right _ _)
      have hA2 : ¬ (vw d a (m + k/2) < cur) := by
        rw [hparv]; exact not_lt.mpr (le_trans hle (le_max_left _ _))
      simp only [hA1, hA2, if_false, hcur']
      have hdone : vw d a (m + k/2) = max cur (vw d a (k ^^^ 1)) →
          InvA d m (a.set k cur hka) := by
        intro heq
        refine ⟨hs1, ?_⟩
        rw [vw_set]
        exact done_lemma m _ k cur ⟨hoth, hself, hpar, hle, hk⟩ (fun _ => heq)
      split
      · rename_i hall
        have heq : vw d a (m + k/2) = max cur (vw d a (k ^^^ 1)) := by
          apply le_antisymm _ hle'
          rcases hall with ⟨h1, h2⟩
          exact le_trans (not_lt.mp h2) (le_max_left _ _)
        exact ⟨_, rfl, hdone heq, hleaf⟩
      · split
        · rename_i hge
          have heq : vw d a (m + k/2) = max cur (vw d a (k ^^^ 1)) := le_antisymm (not_lt.mp hge) hle'
          exact ⟨_, rfl, hdone heq, hleaf⟩
        · rename_i hlt
          have hlt : max cur (vw d a (k ^^^ 1)) < vw d a (m + k/2) := not_not.mp hlt
          have hstep := step_lemma m (vw d a) k cur ⟨hoth, hself, hpar, hle, hk⟩ hk2 hlt
          rw [← vw_set d a k cur hka] at hstep
          obtain ⟨a', h1, h2, h3⟩ := ih (a.set k cur hka) (m + k/2) (max cur (vw d a (k ^^^ 1))) hs1 (by omega) hstep
          refine ⟨a', h1, h2, ?_⟩
          intro i hi
          rw [h3 i hi, if_neg (by omega), hleaf i hi]

end PMH.MT

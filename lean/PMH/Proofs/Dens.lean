import PMH.Model.DensMinHash
import PMH.Proofs.Race
import Mathlib.Order.Lex
import Mathlib.Data.Prod.Lex
import Mathlib.Tactic.Set
/-!
# Densified one-permutation hashing (helper lemmas for C09 / C04 / C08)

* sketch phase: bin `k` holds the lexicographic minimum `(r, hash)` over the items landing on `k` — a `Race`
  specification with values in `K ×ₗ ℕ`, so the whole sketch-phase state is a function of the item *set*;
* densification: populated bins are untouched, every other bin receives the pair of an originally
  populated bin; a successful run leaves no empty bin.
-/
namespace PMH.DensP
open PMH PMH.Race
variable {K G R : Type} [LinearOrder K]

structure TOps (K G R : Type) where
  fr : G → K × G
  fk : Nat → G → Nat × G
  mkRng : Nat → R
  draw : Nat → R → Except Err (Nat × R)

def TOps.toOps (t : TOps K G R) : DensOps K G R :=
  { unif := t.fr, unifK := fun m g => .ok (t.fk m g), mkRng := t.mkRng, draw := t.draw }

/-- bins drawn for items are in range -/
def Nice (t : TOps K G R) (m : Nat) : Prop := ∀ g, (t.fk m g).1 < m

abbrev V (K : Type) := Lex (K × Nat)

def topV (large : K) : V K := toLex (large, Dens.u64Max)

/-- bins as a `Race` state over the lexicographic order on `(value, hash)` -/
def view (large : K) (s : Dens K) : St (V K) Unit :=
  ⟨fun k => toLex (s.hsketch.getD k large, s.values.getD k Dens.u64Max), fun _ => ()⟩

theorem count_set (l : List Bool) (k : Nat) (h : l[k]? = some false) :
    (l.set k true).count false + 1 = l.count false := by
  induction l generalizing k with
  | nil => simp at h
  | cons x xs ih =>
    cases k with
    | zero => simp at h; subst h; simp
    | succ k =>
      simp only [List.getElem?_cons_succ] at h
      simp only [List.set_cons_succ, List.count_cons]
      have := ih k h
      omega

/-- sizes agree; a bin is flagged populated iff it differs from the initial pair; `nb_empty` counts unflagged bins -/
def DInv (large : K) (m : Nat) (s : Dens K) : Prop :=
  s.hsketch.size = m ∧ s.values.size = m ∧ s.init.size = m ∧
  s.nbEmpty = (s.init.toList.count false : Int) ∧
  ∀ k, k < m → (s.init.getD k false = true ↔ (view large s).reg k < topV large)

theorem new_inv (large : K) (m : Nat) : DInv large m (Dens.new large m) ∧
    Spec m (topV large) () (∅ : Set (Pt (V K) Unit)) (view large (Dens.new large m)) := by
  refine ⟨⟨by simp [Dens.new], by simp [Dens.new], by simp [Dens.new], ?_, ?_⟩, ?_⟩
  · simp [Dens.new, List.count_replicate]
  · intro k hk
    simp [Dens.new, view, topV, Array.getD_eq_getD_getElem?, Array.getElem?_replicate, hk]
  · refine ⟨fun _ h => absurd h (Set.notMem_empty _), fun k hk => Or.inl ⟨?_, rfl⟩⟩
    simp [Dens.new, view, topV, Array.getD_eq_getD_getElem?, Array.getElem?_replicate, hk]

/-- the point an item contributes -/
def itemPt (t : TOps K G R) (m : Nat) (hval : Nat) (g : G) : Pt (V K) Unit :=
  ⟨(t.fk m (t.fr g).2).1, toLex ((t.fr g).1, hval), ()⟩

theorem lex_le_iff (r old : K) (h oldv : Nat) :
    (r < old ∨ (¬ old < r ∧ h ≤ oldv)) ↔ (toLex (r, h) : V K) ≤ toLex (old, oldv) := by
  rw [Prod.Lex.toLex_le_toLex]
  constructor
  · rintro (h1 | ⟨h1, h2⟩)
    · exact Or.inl h1
    · rcases lt_or_eq_of_le (not_lt.mp h1) with h3 | h3
      · exact Or.inl h3
      · exact Or.inr ⟨h3, h2⟩
  · rintro (h1 | ⟨h1, h2⟩)
    · exact Or.inl h1
    · exact Or.inr ⟨by simp at h1; rw [h1]; exact lt_irrefl _, h2⟩

theorem getD_set {α : Type} (a : Array α) (k i : Nat) (x d : α) (hk : k < a.size) :
    (a.setIfInBounds k x).getD i d = if i = k then x else a.getD i d := by
  simp only [Array.getD_eq_getD_getElem?, Array.getElem?_setIfInBounds]
  by_cases hik : i = k
  · subst hik; simp [hk]
  · have : ¬ k = i := fun e => hik e.symm
    simp [hik, this]

/-- **sketch phase, one item**: never fails, keeps the invariant, and acts on the bins as `Race.offer` -/
theorem sketch_spec (large : K) (m : Nat) (t : TOps K G R) (hn : Nice t m) (s : Dens K) (hinv : DInv large m s)
    (hval : Nat) (g : G) (hlt : (toLex ((t.fr g).1, hval) : V K) < topV large) (P : Set (Pt (V K) Unit))
    (hs : Spec m (topV large) () P (view large s)) :
    ∃ s', s.sketch t.toOps hval g = .ok s' ∧ DInv large m s' ∧
      Spec m (topV large) () (P ∪ {itemPt t m hval g}) (view large s') := by
  obtain ⟨h1, h2, h3, h4, h5⟩ := hinv
  have hk : (t.fk m (t.fr g).2).1 < m := hn _
  set k := (t.fk m (t.fr g).2).1 with hkdef
  set r := (t.fr g).1 with hrdef
  have e1 : s.hsketch[k]? = some (s.hsketch.getD k large) := by simp [Array.getD_eq_getD_getElem?, h1, hk]
  have e2 : s.init[k]? = some (s.init.getD k false) := by simp [Array.getD_eq_getD_getElem?, h3, hk]
  have e3 : s.values[k]? = some (s.values.getD k Dens.u64Max) := by simp [Array.getD_eq_getD_getElem?, h2, hk]
  have hoff : view large s = view large s → True := fun _ => trivial
  unfold Dens.sketch
  simp only [TOps.toOps, h1, ← hkdef, ← hrdef, e1, e2, e3]
  have hpt : itemPt t m hval g = ⟨k, toLex (r, hval), ()⟩ := rfl
  rw [hpt]
  by_cases hle : r < s.hsketch.getD k large ∨ (¬ s.hsketch.getD k large < r ∧ hval ≤ s.values.getD k Dens.u64Max)
  · simp only [hle, if_true]
    have hle' : (toLex (r, hval) : V K) ≤ (view large s).reg k := (lex_le_iff _ _ _ _).mp hle
    -- the new view: position k holds the new pair
    have hview : ∀ (s' : Dens K), s'.hsketch = s.hsketch.setIfInBounds k r → s'.values = s.values.setIfInBounds k hval →
        view large s' = Race.offer (view large s) ⟨k, toLex (r, hval), ()⟩ := by
      intro s' eh ev
      unfold Race.offer
      rcases lt_or_eq_of_le hle' with hl | he
      · simp only [hl, if_true]
        unfold view
        congr 1
        funext i
        simp only [eh, ev, getD_set _ _ _ _ _ (by omega : k < s.hsketch.size), getD_set _ _ _ _ _ (by omega : k < s.values.size), Function.update]
        by_cases hik : i = k
        · subst hik; simp
        · simp [hik]
      · have hnl : ¬ (toLex (r, hval) : V K) < (view large s).reg k := by rw [he]; exact lt_irrefl _
        simp only [hnl, if_false]
        unfold view
        congr 1
        funext i
        simp only [eh, ev, getD_set _ _ _ _ _ (by omega : k < s.hsketch.size), getD_set _ _ _ _ _ (by omega : k < s.values.size)]
        by_cases hik : i = k
        · subst hik
          have := he
          simp only [view] at this
          simp only [if_true]
          exact this
        · simp [hik]
    by_cases hini : s.init.getD k false = true
    · simp only [hini, if_true]
      refine ⟨_, rfl, ⟨by simp [h1], by simp [h2], h3, h4, ?_⟩, ?_⟩
      · intro i hi
        rw [hview _ rfl rfl]
        by_cases hik : i = k
        · rw [hik]
          constructor
          · intro _; exact lt_of_le_of_lt (offer_reg_pos (view large s) ⟨k, toLex (r, hval), ()⟩) hlt
          · intro _; exact hini
        · rw [offer_reg_other _ _ _ hik]; exact h5 i hi
      · rw [hview _ rfl rfl]; exact spec_offer hs _
    · have hini' : s.init.getD k false = false := by simpa using hini
      simp only [hini', Bool.false_eq_true, if_false]
      refine ⟨_, rfl, ⟨by simp [h1], by simp [h2], by simp [h3], ?_, ?_⟩, ?_⟩
      · have hl : s.init.toList[k]? = some false := by
          rw [Array.getElem?_toList, e2, hini']
        have := count_set s.init.toList k hl
        simp only [Array.toList_setIfInBounds, h4]
        omega
      · intro i hi
        rw [hview _ rfl rfl]
        by_cases hik : i = k
        · rw [hik]
          simp only [getD_set _ _ _ _ _ (by omega : k < s.init.size), if_true, true_iff]
          exact lt_of_le_of_lt (offer_reg_pos (view large s) ⟨k, toLex (r, hval), ()⟩) hlt
        · rw [offer_reg_other _ _ _ hik, getD_set _ _ _ _ _ (by omega : k < s.init.size)]
          simp only [hik, if_false]; exact h5 i hi
      · rw [hview _ rfl rfl]; exact spec_offer hs _
  · simp only [hle, if_false]
    have hnle : ¬ (toLex (r, hval) : V K) ≤ (view large s).reg k := fun h => hle ((lex_le_iff _ _ _ _).mpr h)
    refine ⟨s, rfl, ⟨h1, h2, h3, h4, h5⟩, ?_⟩
    have : Race.offer (view large s) ⟨k, toLex (r, hval), ()⟩ = view large s := by
      unfold Race.offer
      have : ¬ (toLex (r, hval) : V K) < (view large s).reg k := fun h => hnle (le_of_lt h)
      simp only [this, if_false]
    rw [← this]; exact spec_offer hs _


/-! ### densification -/

def pair (large : K) (s : Dens K) (k : Nat) : K × Nat := (s.hsketch.getD k large, s.values.getD k Dens.u64Max)

/-- relation between the state `s0` at the start of densification and a later state `s` -/
def Keeps (large : K) (m : Nat) (s0 s : Dens K) : Prop :=
  s.hsketch.size = m ∧ s.values.size = m ∧ s.init.size = m ∧
  s.nbEmpty = (s.init.toList.count false : Int) ∧
  (∀ k, k < m → s0.init.getD k false = true → s.init.getD k false = true ∧ pair large s k = pair large s0 k) ∧
  (∀ k, k < m → s.init.getD k false = true → ∃ j, j < m ∧ s0.init.getD j false = true ∧ pair large s k = pair large s0 j)

theorem keeps_refl (large : K) (m : Nat) (s : Dens K) (h : DInv large m s) : Keeps large m s s :=
  ⟨h.1, h.2.1, h.2.2.1, h.2.2.2.1, fun _ _ hk => ⟨hk, rfl⟩, fun k hk hi => ⟨k, hk, hi, rfl⟩⟩

/-- one fill: empty bin `k` receives the pair of the populated bin `j` -/
theorem keeps_fill (large : K) (m : Nat) (s0 s : Dens K) (h : Keeps large m s0 s) (k j : Nat) (hk : k < m) (hj : j < m)
    (hke : s.init.getD k false = false) (hjp : s.init.getD j false = true) :
    Keeps large m s0 { s with values := s.values.setIfInBounds k (s.values.getD j Dens.u64Max),
                              hsketch := s.hsketch.setIfInBounds k (s.hsketch.getD j large),
                              init := s.init.setIfInBounds k true, nbEmpty := s.nbEmpty - 1 } := by
  obtain ⟨h1, h2, h3, h4, h5, h6⟩ := h
  refine ⟨by simp [h1], by simp [h2], by simp [h3], ?_, ?_, ?_⟩
  · have hl : s.init.toList[k]? = some false := by
      rw [Array.getElem?_toList]
      simp [Array.getD_eq_getD_getElem?] at hke ⊢
      have : k < s.init.size := by omega
      simp [this] at hke ⊢
      exact hke
    have := count_set s.init.toList k hl
    simp only [Array.toList_setIfInBounds, h4]
    omega
  · intro i hi h0
    obtain ⟨a, b⟩ := h5 i hi h0
    have hik : i ≠ k := by
      intro e; subst e; rw [a] at hke; exact absurd hke (by simp)
    refine ⟨by rw [getD_set _ _ _ _ _ (by omega : k < s.init.size)]; simp [hik, a], ?_⟩
    simp only [pair, getD_set _ _ _ _ _ (by omega : k < s.hsketch.size), getD_set _ _ _ _ _ (by omega : k < s.values.size), hik, if_false]
    exact b
  · intro i hi hin
    by_cases hik : i = k
    · obtain ⟨j0, hj0, hj0p, hj0e⟩ := h6 j hj hjp
      refine ⟨j0, hj0, hj0p, ?_⟩
      simp only [pair, getD_set _ _ _ _ _ (by omega : k < s.hsketch.size), getD_set _ _ _ _ _ (by omega : k < s.values.size), hik, if_true]
      exact hj0e
    · rw [getD_set _ _ _ _ _ (by omega : k < s.init.size)] at hin
      simp only [hik, if_false] at hin
      obtain ⟨j0, hj0, hj0p, hj0e⟩ := h6 i hi hin
      refine ⟨j0, hj0, hj0p, ?_⟩
      simp only [pair, getD_set _ _ _ _ _ (by omega : k < s.hsketch.size), getD_set _ _ _ _ _ (by omega : k < s.values.size), hik, if_false]
      exact hj0e

theorem probe_keeps (large : K) (m : Nat) (o : DensOps K G R) (s0 : Dens K) (k : Nat) (hk : k < m) :
    ∀ (fuel : Nat) (s : Dens K) (r : R) (s' : Dens K), Keeps large m s0 s → s.init.getD k false = false →
      Dens.probe o m s k fuel r = .ok s' → Keeps large m s0 s' ∧ s'.init.getD k false = true ∧
        (∀ i, s.init.getD i false = true → s'.init.getD i false = true) := by
  intro fuel
  induction fuel with
  | zero => intro s r s' _ _ e; simp [Dens.probe] at e
  | succ f ih =>
    intro s r s' hkp hke e
    simp only [Dens.probe] at e
    cases hd : o.draw m r with
    | error er => rw [hd] at e; simp at e
    | ok res =>
      obtain ⟨j, r'⟩ := res
      rw [hd] at e
      dsimp only at e
      obtain ⟨h1, h2, h3, _⟩ := hkp
      have hkp : Keeps large m s0 s := ⟨h1, h2, h3, ‹_›⟩
      by_cases hj : j < m
      · have e1 : s.init[j]? = some (s.init.getD j false) := by simp [Array.getD_eq_getD_getElem?, h3, hj]
        have e2 : s.values[j]? = some (s.values.getD j Dens.u64Max) := by simp [Array.getD_eq_getD_getElem?, h2, hj]
        have e3 : s.hsketch[j]? = some (s.hsketch.getD j large) := by simp [Array.getD_eq_getD_getElem?, h1, hj]
        rw [e1, e2, e3] at e
        by_cases hjp : s.init.getD j false = true
        · simp only [hjp] at e
          injection e with e; subst e
          refine ⟨keeps_fill large m s0 s hkp k j hk hj hke hjp, ?_, ?_⟩
          · simp [getD_set _ _ _ _ _ (by omega : k < s.init.size)]
          · intro i hi
            rw [getD_set _ _ _ _ _ (by omega : k < s.init.size)]
            split
            · rfl
            · exact hi
        · have hjf : s.init.getD j false = false := by simpa using hjp
          simp only [hjf] at e
          exact ih s r' s' hkp hke e
      · have e1 : s.init[j]? = none := by simp [h3]; omega
        rw [e1] at e
        simp at e


theorem go_keeps (large : K) (m : Nat) (o : DensOps K G R) (fuel : Nat) (s0 : Dens K) :
    ∀ (n k : Nat) (s s' : Dens K), Keeps large m s0 s → k + n = m →
      Dens.densifyOpt.go o fuel m n k s = .ok s' →
      Keeps large m s0 s' ∧ (∀ i, k ≤ i → i < m → s'.init.getD i false = true) ∧
        (∀ i, s.init.getD i false = true → s'.init.getD i false = true) := by
  intro n
  induction n with
  | zero =>
    intro k s s' hkp hkn e
    simp only [Dens.densifyOpt.go] at e
    injection e with e; subst e
    exact ⟨hkp, fun i h1 h2 => by omega, fun _ h => h⟩
  | succ n ih =>
    intro k s s' hkp hkn e
    simp only [Dens.densifyOpt.go] at e
    have hk : k < m := by omega
    have e1 : s.init[k]? = some (s.init.getD k false) := by
      simp [Array.getD_eq_getD_getElem?, hkp.2.2.1, hk]
    rw [e1] at e
    by_cases hp : s.init.getD k false = true
    · simp only [hp] at e
      obtain ⟨a, b, c⟩ := ih (k + 1) s s' hkp (by omega) e
      refine ⟨a, ?_, c⟩
      intro i hi1 hi2
      rcases Nat.eq_or_lt_of_le hi1 with rfl | hlt
      · exact c _ hp
      · exact b i hlt hi2
    · have hf : s.init.getD k false = false := by simpa using hp
      simp only [hf] at e
      cases hpr : Dens.probe o m s k fuel (o.mkRng (k + 123743)) with
      | error er => rw [hpr] at e; simp at e
      | ok s1 =>
        rw [hpr] at e
        dsimp only at e
        obtain ⟨a1, b1, c1⟩ := probe_keeps large m o s0 k hk fuel s _ s1 hkp hf hpr
        obtain ⟨a, b, c⟩ := ih (k + 1) s1 s' a1 (by omega) e
        refine ⟨a, ?_, fun i hi => c i (c1 i hi)⟩
        intro i hi1 hi2
        rcases Nat.eq_or_lt_of_le hi1 with rfl | hlt
        · exact c _ b1
        · exact b i hlt hi2

/-- what a successful densification guarantees, relative to the state `s0` it started from -/
def Densified (large : K) (m : Nat) (s0 s' : Dens K) : Prop :=
  s'.hsketch.size = m ∧ s'.values.size = m ∧ s'.init.size = m ∧ s'.nbEmpty = 0 ∧
  (∀ k, k < m → s'.init.getD k false = true) ∧
  (∀ k, k < m → s0.init.getD k false = true → pair large s' k = pair large s0 k) ∧
  (∀ k, k < m → ∃ j, j < m ∧ s0.init.getD j false = true ∧ pair large s' k = pair large s0 j)

theorem all_init_of_count (a : Array Bool) (h : (a.toList.count false : Int) = 0) :
    ∀ k, k < a.size → a.getD k false = true := by
  intro k hk
  have h0 : a.toList.count false = 0 := by exact_mod_cast h
  have hmem : a.getD k false ∈ a.toList := by
    simp only [Array.getD_eq_getD_getElem?, hk, Array.getElem?_eq_getElem, Option.getD_some]
    exact Array.getElem_mem_toList hk
  cases hb : a.getD k false with
  | true => rfl
  | false =>
    rw [hb] at hmem
    exact absurd (List.count_pos_iff.mpr hmem) (by omega)

/-- **C09 (optimal densification)**: a run that returns leaves no empty bin, does not touch populated
bins and fills the others with pairs of originally populated bins. -/
theorem densifyOpt_structure (large : K) (m : Nat) (o : DensOps K G R) (fuel : Nat) (s0 s' : Dens K)
    (hinv : DInv large m s0) (e : Dens.densifyOpt o fuel s0 = .ok s') : Densified large m s0 s' := by
  unfold Dens.densifyOpt at e
  dsimp only at e
  split at e
  · simp at e
  · rw [hinv.1] at e
    cases hg : Dens.densifyOpt.go o fuel m m 0 s0 with
    | error er => rw [hg] at e; simp at e
    | ok s1 =>
      rw [hg] at e
      dsimp only at e
      split at e
      · simp at e
      · rename_i hz
        injection e with e; subst e
        obtain ⟨⟨h1, h2, h3, h4, h5, h6⟩, b, _⟩ := go_keeps large m o fuel s0 m 0 s0 s1 (keeps_refl large m s0 hinv) (by omega) hg
        have hz' : s1.nbEmpty = 0 := by simpa using hz
        exact ⟨h1, h2, h3, hz', fun k hk => b k (by omega) hk, fun k hk hp => (h5 k hk hp).2,
          fun k hk => h6 k hk (b k (by omega) hk)⟩

theorem revPass_keeps (large : K) (m : Nat) (o : DensOps K G R) (pass : Nat) (s0 : Dens K) :
    ∀ (n k : Nat) (s s' : Dens K), Keeps large m s0 s → k + n = m →
      Dens.revPass o m pass n k s = .ok s' → Keeps large m s0 s' := by
  intro n
  induction n with
  | zero =>
    intro k s s' hkp _ e
    simp only [Dens.revPass] at e
    injection e with e; subst e; exact hkp
  | succ n ih =>
    intro k s s' hkp hkn e
    simp only [Dens.revPass] at e
    have hk : k < m := by omega
    obtain ⟨h1, h2, h3, hrest⟩ := hkp
    have hkp : Keeps large m s0 s := ⟨h1, h2, h3, hrest⟩
    have e1 : s.init[k]? = some (s.init.getD k false) := by simp [Array.getD_eq_getD_getElem?, h3, hk]
    rw [e1] at e
    by_cases hp : s.init.getD k false = true
    · simp only [hp] at e
      cases hd : o.draw m (o.mkRng ((k + 1) * m + pass + 253713)) with
      | error er => rw [hd] at e; simp at e
      | ok res =>
        obtain ⟨j, r'⟩ := res
        rw [hd] at e
        dsimp only at e
        have e2 : s.values[k]? = some (s.values.getD k Dens.u64Max) := by simp [Array.getD_eq_getD_getElem?, h2, hk]
        have e3 : s.hsketch[k]? = some (s.hsketch.getD k large) := by simp [Array.getD_eq_getD_getElem?, h1, hk]
        by_cases hj : j < m
        · have e4 : s.init[j]? = some (s.init.getD j false) := by simp [Array.getD_eq_getD_getElem?, h3, hj]
          rw [e4, e2, e3] at e
          by_cases hjp : s.init.getD j false = true
          · simp only [hjp] at e
            exact ih (k + 1) s s' hkp (by omega) e
          · have hjf : s.init.getD j false = false := by simpa using hjp
            simp only [hjf] at e
            exact ih (k + 1) _ s' (keeps_fill large m s0 s hkp j k hj hk hjf hp) (by omega) e
        · have e4 : s.init[j]? = none := by simp [h3]; omega
          rw [e4] at e
          simp at e
    · have hf : s.init.getD k false = false := by simpa using hp
      simp only [hf] at e
      exact ih (k + 1) s s' hkp (by omega) e

theorem revPasses_keeps (large : K) (m : Nat) (o : DensOps K G R) (s0 : Dens K) :
    ∀ (fuel pass : Nat) (s s' : Dens K), Keeps large m s0 s →
      Dens.revPasses o fuel pass s = .ok s' → Keeps large m s0 s' ∧ s'.nbEmpty = 0 := by
  intro fuel
  induction fuel with
  | zero => intro pass s s' _ e; simp [Dens.revPasses] at e
  | succ f ih =>
    intro pass s s' hkp e
    simp only [Dens.revPasses] at e
    split at e
    · rw [hkp.1] at e
      cases hr : Dens.revPass o m pass m 0 s with
      | error er => rw [hr] at e; simp at e
      | ok s1 =>
        rw [hr] at e
        exact ih (pass + 1) s1 s' (revPass_keeps large m o pass s0 m 0 s s1 hkp (by omega) hr) e
    · split at e
      · simp at e
      · rename_i hz
        injection e with e; subst e
        exact ⟨hkp, by simpa using hz⟩

/-- **C09 (reverse densification)**: same guarantees -/
theorem densifyRev_structure (large : K) (m : Nat) (o : DensOps K G R) (fuel : Nat) (s0 s' : Dens K)
    (hinv : DInv large m s0) (e : Dens.densifyRev o fuel 1 s0 = .ok s') : Densified large m s0 s' := by
  unfold Dens.densifyRev at e
  split at e
  · simp at e
  · obtain ⟨⟨h1, h2, h3, h4, h5, h6⟩, hz⟩ := revPasses_keeps large m o s0 fuel 1 s0 s' (keeps_refl large m s0 hinv) e
    have hall : ∀ k, k < m → s'.init.getD k false = true := by
      intro k hk
      exact all_init_of_count s'.init (by rw [← h4, hz]) k (by omega)
    exact ⟨h1, h2, h3, hz, hall, fun k hk hp => (h5 k hk hp).2, fun k hk => h6 k hk (hall k hk)⟩


/-! ### end_sketch / sketch_slice / the empty stream -/

/-- `end_sketch` on a finished sketch does nothing: idempotence -/
theorem endSketch_idem (o : DensOps K G R) (opt : Bool) (fuel : Nat) (s s' : Dens K)
    (e : s.endSketch o opt fuel = .ok s') : s'.endSketch o opt fuel = .ok s' := by
  have hz : s'.nbEmpty = 0 := by
    unfold Dens.endSketch at e
    split at e
    · rename_i h; injection e with e; subst e; exact h
    · cases opt with
      | true =>
        simp only [if_true] at e
        cases hd : Dens.densifyOpt o fuel s with
        | error er => rw [hd] at e; cases er <;> simp at e
        | ok s1 =>
          rw [hd] at e; injection e with e; subst e
          unfold Dens.densifyOpt at hd
          dsimp only at hd
          split at hd
          · simp at hd
          · split at hd
            · simp at hd
            · rename_i s2 _
              split at hd
              · simp at hd
              · rename_i hz; injection hd with hd; subst hd; simpa using hz
      | false =>
        simp only [Bool.false_eq_true, if_false] at e
        cases hd : Dens.densifyRev o fuel 1 s with
        | error er => rw [hd] at e; cases er <;> simp at e
        | ok s1 =>
          rw [hd] at e; injection e with e; subst e
          unfold Dens.densifyRev at hd
          split at hd
          · simp at hd
          · -- revPasses returns only with nb_empty = 0
            have : ∀ (fuel pass : Nat) (a b : Dens K), Dens.revPasses o fuel pass a = .ok b → b.nbEmpty = 0 := by
              intro fuel
              induction fuel with
              | zero => intro pass a b h; simp [Dens.revPasses] at h
              | succ f ih =>
                intro pass a b h
                simp only [Dens.revPasses] at h
                split at h
                · cases hr : Dens.revPass o a.hsketch.size pass a.hsketch.size 0 a with
                  | error er => rw [hr] at h; simp at h
                  | ok a1 => rw [hr] at h; exact ih _ _ _ h
                · split at h
                  · simp at h
                  · rename_i hz; injection h with h; subst h; simpa using hz
            exact this _ _ _ _ hd
  unfold Dens.endSketch
  simp [hz]

/-- nothing streamed: both densifications refuse at once (no search, no fuel) … -/
theorem densify_empty (large : K) (o : DensOps K G R) (fuel m : Nat) :
    Dens.densifyOpt o fuel (Dens.new large m) = .error (.badArg "densify : no item sketched") ∧
    Dens.densifyRev o fuel 1 (Dens.new large m) = .error (.badArg "densify : no item sketched") := by
  constructor
  · unfold Dens.densifyOpt; simp [Dens.new]
  · unfold Dens.densifyRev; simp [Dens.new]

/-- … so `end_sketch` on an empty sketch aborts through its assertion and `sketch_slice(&[])` returns `Err` -/
theorem endSketch_empty (large : K) (o : DensOps K G R) (opt : Bool) (fuel m : Nat) (hm : 1 ≤ m) :
    (Dens.new large m).endSketch o opt fuel = .error (.assertFail "end_sketch: assert!(res.is_ok())") := by
  have hne : (Dens.new large m).nbEmpty ≠ 0 := by simp [Dens.new]; omega
  unfold Dens.endSketch
  simp only [hne, if_false]
  cases opt with
  | true => simp only [if_true, (densify_empty large o fuel m).1]
  | false => simp only [Bool.false_eq_true, if_false, (densify_empty large o fuel m).2]

theorem sketchSlice_empty (large : K) (o : DensOps K G R) (opt : Bool) (fuel m : Nat) (hm : 1 ≤ m) :
    (Dens.new large m).sketchSlice o opt fuel [] = .error (.badArg "densify : no item sketched") := by
  have hpos : (Dens.new large m).nbEmpty > 0 := by simp [Dens.new]; omega
  unfold Dens.sketchSlice
  simp only [Dens.sketchSlice.go, hpos, if_true]
  cases opt with
  | true => simp only [if_true, (densify_empty large o fuel m).1]
  | false => simp only [Bool.false_eq_true, if_false, (densify_empty large o fuel m).2]

/-- item-wise streaming (the `go` of `sketch_slice`) -/
def stream (o : DensOps K G R) : Dens K → List (Nat × G) → Except Err (Dens K)
  | s, [] => .ok s
  | s, (h, g) :: rest => match s.sketch o h g with | .ok s => stream o s rest | .error e => .error e

theorem go_eq_stream (o : DensOps K G R) (items : List (Nat × G)) (s : Dens K) :
    Dens.sketchSlice.go o items s = stream o s items := by
  induction items generalizing s with
  | nil => rfl
  | cons it rest ih =>
    obtain ⟨h, g⟩ := it
    simp only [Dens.sketchSlice.go, stream]
    cases s.sketch o h g with
    | ok s1 => exact ih s1
    | error e => rfl

/-- **`sketch_slice` = item-wise `sketch` followed by `end_sketch`** (as far as successful runs go;
`nb_empty ≥ 0` by the invariant) -/
theorem sketchSlice_eq (o : DensOps K G R) (opt : Bool) (fuel : Nat) (s s1 s' : Dens K) (items : List (Nat × G))
    (hst : stream o s items = .ok s1) (hnn : 0 ≤ s1.nbEmpty) :
    s.sketchSlice o opt fuel items = .ok s' ↔ s1.endSketch o opt fuel = .ok s' := by
  unfold Dens.sketchSlice Dens.endSketch
  rw [go_eq_stream, hst]
  dsimp only
  by_cases hz : s1.nbEmpty = 0
  · simp [hz]
  · have hpos : s1.nbEmpty > 0 := by omega
    simp only [hz, hpos, if_true, if_false]
    cases opt with
    | true =>
      simp only [if_true]
      cases Dens.densifyOpt o fuel s1 with
      | ok x => simp
      | error er => cases er <;> simp
    | false =>
      simp only [Bool.false_eq_true, if_false]
      cases Dens.densifyRev o fuel 1 s1 with
      | ok x => simp
      | error er => cases er <;> simp


/-! ### the sketch phase over a whole stream: a function of the item set -/

def streamPts (t : TOps K G R) (m : Nat) (items : List (Nat × G)) : Set (Pt (V K) Unit) :=
  {p | ∃ it ∈ items, p = itemPt t m it.1 it.2}

theorem stream_spec (large : K) (m : Nat) (t : TOps K G R) (hn : Nice t m) (hr : ∀ g, (t.fr g).1 < large) :
    ∀ (items : List (Nat × G)) (s : Dens K) (P : Set (Pt (V K) Unit)), DInv large m s →
      Spec m (topV large) () P (view large s) →
      ∃ s', stream t.toOps s items = .ok s' ∧ DInv large m s' ∧
        Spec m (topV large) () (P ∪ streamPts t m items) (view large s') := by
  intro items
  induction items with
  | nil =>
    intro s P hinv hs
    refine ⟨s, rfl, hinv, ?_⟩
    have : streamPts t m ([] : List (Nat × G)) = ∅ := by ext p; simp [streamPts]
    rw [this, Set.union_empty]; exact hs
  | cons it rest ih =>
    obtain ⟨h, g⟩ := it
    intro s P hinv hs
    have hlt : (toLex ((t.fr g).1, h) : V K) < topV large := by
      unfold topV; rw [Prod.Lex.toLex_lt_toLex]; exact Or.inl (hr g)
    obtain ⟨s1, e1, inv1, sp1⟩ := sketch_spec large m t hn s hinv h g hlt P hs
    obtain ⟨s', e', inv', sp'⟩ := ih s1 _ inv1 sp1
    refine ⟨s', by simp only [stream, e1, e'], inv', spec_congr sp' ?_⟩
    ext p; simp only [streamPts, Set.mem_union, Set.mem_singleton_iff, Set.mem_setOf_eq, List.mem_cons]
    constructor
    · rintro ((hp | hp) | ⟨it, hit, hp⟩)
      · exact Or.inl hp
      · exact Or.inr ⟨(h, g), Or.inl rfl, hp⟩
      · exact Or.inr ⟨it, Or.inr hit, hp⟩
    · rintro (hp | ⟨it, hit | hit, hp⟩)
      · exact Or.inl (Or.inl hp)
      · subst hit; exact Or.inl (Or.inr hp)
      · exact Or.inr ⟨it, hit, hp⟩

/-- two states with the same invariant and the same registers are equal -/
theorem state_eq_of_regs (large : K) (m : Nat) (a b : Dens K) (ha : DInv large m a) (hb : DInv large m b)
    (hreg : ∀ k, k < m → (view large a).reg k = (view large b).reg k) : a = b := by
  obtain ⟨a1, a2, a3, a4, a5⟩ := ha
  obtain ⟨b1, b2, b3, b4, b5⟩ := hb
  have hpair : ∀ k, k < m → a.hsketch.getD k large = b.hsketch.getD k large ∧ a.values.getD k Dens.u64Max = b.values.getD k Dens.u64Max := by
    intro k hk
    have := hreg k hk
    simp only [view] at this
    have h2 := congrArg ofLex this
    simp only [ofLex_toLex, Prod.mk.injEq] at h2
    exact h2
  have eh : a.hsketch = b.hsketch := by
    apply Array.ext (by rw [a1, b1])
    intro i hi hi'
    have := (hpair i (by omega)).1
    simpa [Array.getD_eq_getD_getElem?, hi, hi'] using this
  have ev : a.values = b.values := by
    apply Array.ext (by rw [a2, b2])
    intro i hi hi'
    have := (hpair i (by omega)).2
    simpa [Array.getD_eq_getD_getElem?, hi, hi'] using this
  have ei : a.init = b.init := by
    apply Array.ext (by rw [a3, b3])
    intro i hi hi'
    have hk : i < m := by omega
    have h1 := a5 i hk
    have h2 := b5 i hk
    rw [hreg i hk] at h1
    have : a.init.getD i false = b.init.getD i false := by
      cases hav : a.init.getD i false <;> cases hbv : b.init.getD i false
      · rfl
      · exact absurd (h1.mpr (h2.mp hbv)) (by rw [hav]; simp)
      · exact absurd (h2.mpr (h1.mp hav)) (by rw [hbv]; simp)
      · rfl
    simpa [Array.getD_eq_getD_getElem?, hi, hi'] using this
  have en : a.nbEmpty = b.nbEmpty := by rw [a4, b4, ei]
  cases a; cases b; simp_all

/-- **sketch phase = set semantics**: two streams over the same *set* of items (any order, any
repetition, any chunking) from a fresh sketcher end in the very same state — bins, hashes, flags, `nb_empty`. -/
theorem stream_set_semantics (large : K) (m : Nat) (t : TOps K G R) (hn : Nice t m) (hr : ∀ g, (t.fr g).1 < large)
    (items items' : List (Nat × G)) (hset : ∀ it, it ∈ items ↔ it ∈ items') :
    ∃ s, stream t.toOps (Dens.new large m) items = .ok s ∧ stream t.toOps (Dens.new large m) items' = .ok s := by
  obtain ⟨inv0, sp0⟩ := new_inv (K := K) large m
  obtain ⟨s, e, inv, sp⟩ := stream_spec large m t hn hr items _ _ inv0 sp0
  obtain ⟨s', e', inv', sp'⟩ := stream_spec large m t hn hr items' _ _ inv0 sp0
  have hP : streamPts t m items' = streamPts t m items := by
    ext p; simp only [streamPts, Set.mem_setOf_eq]
    constructor
    · rintro ⟨it, hit, hp⟩; exact ⟨it, (hset it).mpr hit, hp⟩
    · rintro ⟨it, hit, hp⟩; exact ⟨it, (hset it).mp hit, hp⟩
  rw [hP] at sp'
  have := state_eq_of_regs large m s s' inv inv' (spec_unique_reg sp sp')
  subst this
  exact ⟨s, e, e'⟩

/-- every bin of the sketch-phase state is either unflagged or holds the pair of a streamed item -/
theorem stream_holds_items (large : K) (m : Nat) (t : TOps K G R) (hn : Nice t m) (hr : ∀ g, (t.fr g).1 < large)
    (items : List (Nat × G)) (s : Dens K) (e : stream t.toOps (Dens.new large m) items = .ok s) (k : Nat) (hk : k < m)
    (hflag : s.init.getD k false = true) :
    ∃ it ∈ items, s.values.getD k Dens.u64Max = it.1 ∧ s.hsketch.getD k large = (t.fr it.2).1 ∧ (t.fk m (t.fr it.2).2).1 = k := by
  obtain ⟨inv0, sp0⟩ := new_inv (K := K) large m
  obtain ⟨s', e', inv', sp'⟩ := stream_spec large m t hn hr items _ _ inv0 sp0
  rw [e] at e'; injection e' with e'; subst e'
  have hlt := (inv'.2.2.2.2 k hk).mp hflag
  obtain ⟨pt, hpt, p1, _, p3⟩ := spec_tag_mem sp' k hk hlt
  rcases hpt with hpt | ⟨it, hit, rfl⟩
  · exact absurd hpt (Set.notMem_empty _)
  · refine ⟨it, hit, ?_, ?_, p1⟩
    · have := congrArg (fun x => (ofLex x).2) p3
      simpa [itemPt, view] using this.symm
    · have := congrArg (fun x => (ofLex x).1) p3
      simpa [itemPt, view] using this.symm

end PMH.DensP

import PMH.Proofs.CS
import Mathlib.Algebra.BigOperators.Group.Finset.Basic
import Mathlib.Algebra.BigOperators.Ring.Finset
import Mathlib.Algebra.BigOperators.Fin
import Mathlib.Algebra.Field.Basic
import Mathlib.Algebra.BigOperators.Field
import Mathlib.Algebra.CharZero.Defs
import Mathlib.MeasureTheory.Constructions.Pi
import Mathlib.MeasureTheory.Measure.Dirac
import Mathlib.MeasureTheory.Measure.Prod
import Mathlib.MeasureTheory.Constructions.BorelSpace.Order
import Mathlib.MeasureTheory.Measure.Lebesgue.Basic
/-!
# `ExchLaw`: the Jaccard collision law under ARBITRARY exchangeable laws

`CS.lean` proves the law for the UNIFORM distribution on a finite permutation-closed set of
assignments (pure counting). Here the same is proved for every exchangeable law.

* Part A (weighted finite form): `Ω` permutation-closed, weights `w` relabelling-invariant on `Ω`,
  `sel` equivariant on `Ω`: `weighted_position_uniform` (`|ι| * ∑_{sel = d} w = ∑ w`),
  `weighted_selected_uniform`, `weighted_collision_eq_jaccard`, arg-min/collision form
  `weighted_collision_prob_eq_jaccard`, division forms `weighted_position_div/_prob`,
  `weighted_collision_prob`.
* Part B (measure form): `Exchangeable μ := ∀ σ, μ.map (· ∘ σ.symm) = μ`;
  `exch_position_uniform` (`μ{sel = d} = 1/|ι|`), `exch_selected_uniform`, `exch_inter_eq_jaccard`
  (+ real forms, + forms for arbitrary measures `exch_position_mul`, `exch_selected_mul`);
  `exchangeable_pi` (i.i.d. coordinates are exchangeable); random-variable forms `rv_*`.
  The events `{sel = d}` only need to be NULL-measurable and `sel` equivariant a.e.
* Part C (glue): `exch_collision_eq_jaccard` (collision ⇔ `sel ∈ A ∩ B` a.e. as a hypothesis),
  `exch_scheme_collision` (families of `CS.Scheme`), `exch_argmin_collision` (`CS.argmin`).
* Part D (non-vacuity): (D1) a non-uniform weighted example on `Fin 3 → Fin 4`; (D2) every finitely
  supported exchangeable law `∑ w ω • δ_ω` satisfies the hypotheses of Part B; (D3) i.i.d.
  coordinates with an atomless law on a second-countable order-closed linear order, `sel = argmin`
  (MinHash with real hash values), concretely the uniform law on `[0,1]`.
-/
namespace PMH.ExchLaw

open PMH.CS

/-! ## Part A — weighted finite form -/
section Weighted
open Finset
variable {ι Rnd : Type} {K : Type*}

/-- (A0) the weight of the fibre over `σ d` equals the weight of the fibre over `d`. -/
theorem fiber_weight_eq [DecidableEq ι] [AddCommMonoid K]
    (Ω : Finset (ι → Rnd)) (hΩ : PermClosed Ω) (w : (ι → Rnd) → K)
    (hw : ∀ r ∈ Ω, ∀ σ : Equiv.Perm ι, w (r ∘ ⇑σ.symm) = w r)
    (sel : (ι → Rnd) → ι)
    (hsel : ∀ r ∈ Ω, ∀ σ : Equiv.Perm ι, sel (r ∘ ⇑σ.symm) = σ (sel r))
    (σ : Equiv.Perm ι) (d : ι) :
    ∑ r ∈ Ω.filter (fun r => sel r = σ d), w r = ∑ r ∈ Ω.filter (fun r => sel r = d), w r := by
  symm
  refine Finset.sum_nbij' (fun r => r ∘ ⇑σ.symm) (fun r => r ∘ ⇑σ) ?_ ?_ ?_ ?_ ?_
  · intro r hr
    simp only [mem_filter] at hr ⊢
    exact ⟨hΩ r hr.1 σ, by rw [hsel r hr.1, hr.2]⟩
  · intro r hr
    simp only [mem_filter] at hr ⊢
    have h1 : r ∘ ⇑σ ∈ Ω := by
      have := hΩ r hr.1 σ.symm
      rwa [Equiv.symm_symm] at this
    refine ⟨h1, ?_⟩
    have h2 := hsel r hr.1 σ.symm
    rw [Equiv.symm_symm, hr.2] at h2
    rw [h2]; simp
  · intro r _
    funext i; simp
  · intro r _
    funext i; simp
  · intro r hr
    exact (hw r (mem_filter.mp hr).1 σ).symm

/-- (A0') any two fibres of an equivariant selector carry the same weight. -/
theorem fiber_weight_eq' [DecidableEq ι] [AddCommMonoid K]
    (Ω : Finset (ι → Rnd)) (hΩ : PermClosed Ω) (w : (ι → Rnd) → K)
    (hw : ∀ r ∈ Ω, ∀ σ : Equiv.Perm ι, w (r ∘ ⇑σ.symm) = w r)
    (sel : (ι → Rnd) → ι)
    (hsel : ∀ r ∈ Ω, ∀ σ : Equiv.Perm ι, sel (r ∘ ⇑σ.symm) = σ (sel r))
    (d d' : ι) :
    ∑ r ∈ Ω.filter (fun r => sel r = d'), w r = ∑ r ∈ Ω.filter (fun r => sel r = d), w r := by
  have h := fiber_weight_eq Ω hΩ w hw sel hsel (Equiv.swap d d') d
  rwa [Equiv.swap_apply_left] at h

variable [Fintype ι] [DecidableEq ι]

/-- (A1, additive form) `|ι| • (weight of {sel = d}) = total weight`, in any additive commutative
monoid of weights. -/
theorem weighted_position_nsmul [AddCommMonoid K]
    (Ω : Finset (ι → Rnd)) (hΩ : PermClosed Ω) (w : (ι → Rnd) → K)
    (hw : ∀ r ∈ Ω, ∀ σ : Equiv.Perm ι, w (r ∘ ⇑σ.symm) = w r)
    (sel : (ι → Rnd) → ι)
    (hsel : ∀ r ∈ Ω, ∀ σ : Equiv.Perm ι, sel (r ∘ ⇑σ.symm) = σ (sel r)) (d : ι) :
    Fintype.card ι • ∑ r ∈ Ω.filter (fun r => sel r = d), w r = ∑ r ∈ Ω, w r := by
  rw [← Finset.sum_fiberwise Ω sel w,
    Finset.sum_congr rfl (fun d' _ => fiber_weight_eq' Ω hΩ w hw sel hsel d d'),
    Finset.sum_const, Finset.card_univ]

/-- (A1) `|ι| * ∑_{ω ∈ Ω, sel ω = d} w ω = ∑_{ω ∈ Ω} w ω`: under any relabelling-invariant
weights every item is selected with weight `total / |ι|`. -/
theorem weighted_position_uniform [Semiring K]
    (Ω : Finset (ι → Rnd)) (hΩ : PermClosed Ω) (w : (ι → Rnd) → K)
    (hw : ∀ r ∈ Ω, ∀ σ : Equiv.Perm ι, w (r ∘ ⇑σ.symm) = w r)
    (sel : (ι → Rnd) → ι)
    (hsel : ∀ r ∈ Ω, ∀ σ : Equiv.Perm ι, sel (r ∘ ⇑σ.symm) = σ (sel r)) (d : ι) :
    (Fintype.card ι : K) * ∑ r ∈ Ω.filter (fun r => sel r = d), w r = ∑ r ∈ Ω, w r := by
  rw [← nsmul_eq_mul]
  exact weighted_position_nsmul Ω hΩ w hw sel hsel d

/-- (A2) `|ι| * ∑_{ω ∈ Ω, sel ω ∈ T} w ω = |T| * ∑_{ω ∈ Ω} w ω`. -/
theorem weighted_selected_uniform [Semiring K]
    (Ω : Finset (ι → Rnd)) (hΩ : PermClosed Ω) (w : (ι → Rnd) → K)
    (hw : ∀ r ∈ Ω, ∀ σ : Equiv.Perm ι, w (r ∘ ⇑σ.symm) = w r)
    (sel : (ι → Rnd) → ι)
    (hsel : ∀ r ∈ Ω, ∀ σ : Equiv.Perm ι, sel (r ∘ ⇑σ.symm) = σ (sel r)) (T : Finset ι) :
    (Fintype.card ι : K) * ∑ r ∈ Ω.filter (fun r => sel r ∈ T), w r
      = (T.card : K) * ∑ r ∈ Ω, w r := by
  have hT : ∑ r ∈ Ω.filter (fun r => sel r ∈ T), w r
      = ∑ d ∈ T, ∑ r ∈ Ω.filter (fun r => sel r = d), w r := by
    rw [← Finset.sum_fiberwise_of_maps_to (s := Ω.filter (fun r => sel r ∈ T)) (t := T)
      (g := sel) (fun r hr => (mem_filter.mp hr).2) w]
    refine Finset.sum_congr rfl (fun d hd => ?_)
    rw [Finset.filter_filter]
    refine Finset.sum_congr (Finset.filter_congr (fun r _ => ?_)) (fun _ _ => rfl)
    constructor
    · exact fun h => h.2
    · exact fun h => ⟨h ▸ hd, h⟩
  rw [hT, Finset.mul_sum,
    Finset.sum_congr rfl (fun d _ => weighted_position_uniform Ω hΩ w hw sel hsel d),
    Finset.sum_const, nsmul_eq_mul]

/-- (A3) collision form: for `A ∪ B` the whole universe,
`(∑_{ω ∈ Ω | sel ω ∈ A ∩ B} w ω) * |A ∪ B| = |A ∩ B| * ∑_{ω ∈ Ω} w ω`. -/
theorem weighted_collision_eq_jaccard [Semiring K]
    (Ω : Finset (ι → Rnd)) (hΩ : PermClosed Ω) (w : (ι → Rnd) → K)
    (hw : ∀ r ∈ Ω, ∀ σ : Equiv.Perm ι, w (r ∘ ⇑σ.symm) = w r)
    (sel : (ι → Rnd) → ι)
    (hsel : ∀ r ∈ Ω, ∀ σ : Equiv.Perm ι, sel (r ∘ ⇑σ.symm) = σ (sel r))
    {A B : Finset ι} (hAB : A ∪ B = univ) :
    (∑ r ∈ Ω.filter (fun r => sel r ∈ A ∩ B), w r) * ((A ∪ B).card : K)
      = ((A ∩ B).card : K) * ∑ r ∈ Ω, w r := by
  rw [hAB, Finset.card_univ, ← (Nat.cast_commute (Fintype.card ι) _).eq]
  exact weighted_selected_uniform Ω hΩ w hw sel hsel (A ∩ B)

/-- (A3') the same with the arg-min selector of equivariant tie-free scores and the collision event
itself (weighted version of `CS.collision_prob_eq_jaccard_gen`). -/
theorem weighted_collision_prob_eq_jaccard [Semiring K] [Inhabited ι] {V Pos : Type}
    [LinearOrder V]
    (Ω : Finset (ι → Rnd)) (hΩ : PermClosed Ω) (w : (ι → Rnd) → K)
    (hw : ∀ r ∈ Ω, ∀ σ : Equiv.Perm ι, w (r ∘ ⇑σ.symm) = w r)
    (v : (ι → Rnd) → Pos → ι → V) (p : Pos)
    (hinj : ∀ r ∈ Ω, Function.Injective (v r p))
    (hequiv : ∀ r ∈ Ω, ∀ (σ : Equiv.Perm ι) (d : ι), v (r ∘ ⇑σ.symm) p (σ d) = v r p d)
    {A B : Finset ι} (hA : A.Nonempty) (hB : B.Nonempty) (hAB : A ∪ B = univ) :
    (∑ r ∈ Ω.filter (fun r => argmin (v r p) A = argmin (v r p) B), w r) * ((A ∪ B).card : K)
      = ((A ∩ B).card : K) * ∑ r ∈ Ω, w r := by
  have hfil : Ω.filter (fun r => argmin (v r p) A = argmin (v r p) B)
      = Ω.filter (fun r => argmin (v r p) univ ∈ A ∩ B) := by
    refine Finset.filter_congr (fun r hr => ?_)
    rw [collision_iff_min_in_inter' (hinj r hr) hA hB, hAB]
  rw [hfil]
  exact weighted_collision_eq_jaccard Ω hΩ w hw (fun r => argmin (v r p) univ)
    (argmin_univ_equivariant Ω hΩ v p hinj hequiv) hAB

/-- (A4) division form: in a division ring of characteristic `0` (e.g. `ℚ`, `ℝ`), the weight of
`{sel = d}` is `total / |ι|`. -/
theorem weighted_position_div [DivisionRing K] [CharZero K] [Nonempty ι]
    (Ω : Finset (ι → Rnd)) (hΩ : PermClosed Ω) (w : (ι → Rnd) → K)
    (hw : ∀ r ∈ Ω, ∀ σ : Equiv.Perm ι, w (r ∘ ⇑σ.symm) = w r)
    (sel : (ι → Rnd) → ι)
    (hsel : ∀ r ∈ Ω, ∀ σ : Equiv.Perm ι, sel (r ∘ ⇑σ.symm) = σ (sel r)) (d : ι) :
    ∑ r ∈ Ω.filter (fun r => sel r = d), w r = (∑ r ∈ Ω, w r) / (Fintype.card ι : K) := by
  have hc : (Fintype.card ι : K) ≠ 0 := Nat.cast_ne_zero.mpr Fintype.card_ne_zero
  rw [eq_div_iff hc, ← (Nat.cast_commute (Fintype.card ι) _).eq]
  exact weighted_position_uniform Ω hΩ w hw sel hsel d

/-- (A4') for a finitely supported exchangeable PROBABILITY law (`∑ w = 1`): every item is selected
with probability `1 / |ι|`. -/
theorem weighted_position_prob [DivisionRing K] [CharZero K] [Nonempty ι]
    (Ω : Finset (ι → Rnd)) (hΩ : PermClosed Ω) (w : (ι → Rnd) → K)
    (hw : ∀ r ∈ Ω, ∀ σ : Equiv.Perm ι, w (r ∘ ⇑σ.symm) = w r) (hw1 : ∑ r ∈ Ω, w r = 1)
    (sel : (ι → Rnd) → ι)
    (hsel : ∀ r ∈ Ω, ∀ σ : Equiv.Perm ι, sel (r ∘ ⇑σ.symm) = σ (sel r)) (d : ι) :
    ∑ r ∈ Ω.filter (fun r => sel r = d), w r = 1 / (Fintype.card ι : K) := by
  rw [weighted_position_div Ω hΩ w hw sel hsel d, hw1]

/-- (A4'') for a finitely supported exchangeable probability law (`∑ w = 1`) and `A ∪ B` the whole
(nonempty) universe: `P(sel ∈ A ∩ B) = |A ∩ B| / |A ∪ B|`. -/
theorem weighted_collision_prob [DivisionRing K] [CharZero K] [Nonempty ι]
    (Ω : Finset (ι → Rnd)) (hΩ : PermClosed Ω) (w : (ι → Rnd) → K)
    (hw : ∀ r ∈ Ω, ∀ σ : Equiv.Perm ι, w (r ∘ ⇑σ.symm) = w r) (hw1 : ∑ r ∈ Ω, w r = 1)
    (sel : (ι → Rnd) → ι)
    (hsel : ∀ r ∈ Ω, ∀ σ : Equiv.Perm ι, sel (r ∘ ⇑σ.symm) = σ (sel r))
    {A B : Finset ι} (hAB : A ∪ B = univ) :
    ∑ r ∈ Ω.filter (fun r => sel r ∈ A ∩ B), w r
      = ((A ∩ B).card : K) / ((A ∪ B).card : K) := by
  have hc : ((A ∪ B).card : K) ≠ 0 := by
    rw [hAB, Finset.card_univ]; exact Nat.cast_ne_zero.mpr Fintype.card_ne_zero
  rw [eq_div_iff hc, weighted_collision_eq_jaccard Ω hΩ w hw sel hsel hAB, hw1, mul_one]

/-- Sanity: with `w ≡ 1` (the uniform law on `Ω`) (A1) is `CS.position_uniform_gen`. -/
theorem position_uniform_of_weighted
    (Ω : Finset (ι → Rnd)) (hΩ : PermClosed Ω) (sel : (ι → Rnd) → ι)
    (hsel : ∀ r ∈ Ω, ∀ σ : Equiv.Perm ι, sel (r ∘ ⇑σ.symm) = σ (sel r)) (d : ι) :
    Fintype.card ι * (Ω.filter (fun r => sel r = d)).card = Ω.card := by
  have h := weighted_position_uniform (K := ℕ) Ω hΩ (fun _ => 1) (fun _ _ _ => rfl) sel hsel d
  simpa using h

end Weighted

/-! ## Part B — measure form -/
section MeasureForm
open MeasureTheory
open scoped ENNReal
variable {ι : Type} {Rnd : Type*} [MeasurableSpace Rnd]

/-- Relabelling of an assignment: item `σ d` gets what `d` had. -/
def relabel (σ : Equiv.Perm ι) (x : ι → Rnd) : ι → Rnd := x ∘ ⇑σ.symm

omit [MeasurableSpace Rnd] in
@[simp] theorem relabel_apply (σ : Equiv.Perm ι) (x : ι → Rnd) (i : ι) :
    relabel σ x i = x (σ.symm i) := rfl

theorem measurable_relabel (σ : Equiv.Perm ι) : Measurable (relabel σ : (ι → Rnd) → ι → Rnd) :=
  measurable_pi_lambda _ (fun i => measurable_pi_apply (σ.symm i))

/-- A law `μ` on assignments is exchangeable: invariant under every relabelling of the items. -/
def Exchangeable (μ : Measure (ι → Rnd)) : Prop :=
  ∀ σ : Equiv.Perm ι, μ.map (fun x : ι → Rnd => x ∘ ⇑σ.symm) = μ

/-- (B0) under an exchangeable law the events `{sel = σ d}` and `{sel = d}` have the same measure,
for a selector that is a.e. equivariant. No finiteness of `μ` or `ι` is needed here. The events only
have to be NULL-measurable (measurable up to a `μ`-null set), so selectors that are defined by an
arbitrary choice on a null set of ties are covered. -/
theorem exch_fiber_eq (μ : Measure (ι → Rnd)) (hμ : Exchangeable μ) (sel : (ι → Rnd) → ι)
    (hmeas : ∀ d, NullMeasurableSet {x | sel x = d} μ)
    (hsel : ∀ σ : Equiv.Perm ι, ∀ᵐ x ∂μ, sel (x ∘ ⇑σ.symm) = σ (sel x))
    (σ : Equiv.Perm ι) (d : ι) :
    μ {x | sel x = σ d} = μ {x | sel x = d} := by
  have hm : NullMeasurableSet {x | sel x = σ d}
      (μ.map (fun x : ι → Rnd => x ∘ ⇑σ.symm)) := by rw [hμ σ]; exact hmeas _
  calc μ {x | sel x = σ d}
      = (μ.map (fun x : ι → Rnd => x ∘ ⇑σ.symm)) {x | sel x = σ d} := by rw [hμ σ]
    _ = μ ((fun x : ι → Rnd => x ∘ ⇑σ.symm) ⁻¹' {x | sel x = σ d}) :=
        Measure.map_apply₀ (measurable_relabel σ).aemeasurable hm
    _ = μ {x | sel x = d} := by
        apply measure_congr
        rw [Filter.eventuallyEq_set]
        filter_upwards [hsel σ] with x hx
        change sel (x ∘ ⇑σ.symm) = σ d ↔ sel x = d
        rw [hx, σ.injective.eq_iff]

omit [MeasurableSpace Rnd] in
/-- the events `{sel = d}` are pairwise disjoint. -/
theorem fibers_pairwiseDisjoint (sel : (ι → Rnd) → ι) (T : Set ι) :
    T.PairwiseDisjoint (fun d => {x | sel x = d}) := by
  intro a _ b _ hab
  refine Set.disjoint_left.mpr (fun x hxa hxb => hab ?_)
  exact (show sel x = a from hxa).symm.trans hxb

/-- `μ{sel ∈ T} = ∑_{d ∈ T} μ{sel = d}`. -/
theorem measure_sel_mem (μ : Measure (ι → Rnd)) (sel : (ι → Rnd) → ι)
    (hmeas : ∀ d, NullMeasurableSet {x | sel x = d} μ) (T : Finset ι) :
    μ {x | sel x ∈ T} = ∑ d ∈ T, μ {x | sel x = d} := by
  rw [← measure_biUnion_finset₀ (fibers_pairwiseDisjoint sel _).aedisjoint (fun d _ => hmeas d)]
  congr 1
  ext x
  simp

variable [Fintype ι] [DecidableEq ι]

/-- (B1, general measure) `|ι| * μ{sel = d} = μ(univ)` for any (not necessarily finite)
exchangeable measure. -/
theorem exch_position_mul (μ : Measure (ι → Rnd)) (hμ : Exchangeable μ) (sel : (ι → Rnd) → ι)
    (hmeas : ∀ d, NullMeasurableSet {x | sel x = d} μ)
    (hsel : ∀ σ : Equiv.Perm ι, ∀ᵐ x ∂μ, sel (x ∘ ⇑σ.symm) = σ (sel x)) (d : ι) :
    (Fintype.card ι : ℝ≥0∞) * μ {x | sel x = d} = μ Set.univ := by
  have hall : ∀ d' ∈ (Finset.univ : Finset ι), μ {x | sel x = d'} = μ {x | sel x = d} := by
    intro d' _
    have h := exch_fiber_eq μ hμ sel hmeas hsel (Equiv.swap d d') d
    rwa [Equiv.swap_apply_left] at h
  have hsum := measure_sel_mem μ sel hmeas Finset.univ
  rw [Finset.sum_congr rfl hall, Finset.sum_const, Finset.card_univ, nsmul_eq_mul] at hsum
  rw [← hsum]
  congr 1
  ext x
  simp

/-- (B1') `|ι| * μ{sel ∈ T} = |T| * μ(univ)`. -/
theorem exch_selected_mul (μ : Measure (ι → Rnd)) (hμ : Exchangeable μ) (sel : (ι → Rnd) → ι)
    (hmeas : ∀ d, NullMeasurableSet {x | sel x = d} μ)
    (hsel : ∀ σ : Equiv.Perm ι, ∀ᵐ x ∂μ, sel (x ∘ ⇑σ.symm) = σ (sel x)) (T : Finset ι) :
    (Fintype.card ι : ℝ≥0∞) * μ {x | sel x ∈ T} = (T.card : ℝ≥0∞) * μ Set.univ := by
  have hp : ∀ d' ∈ T, (Fintype.card ι : ℝ≥0∞) * μ {x | sel x = d'} = μ Set.univ :=
    fun d' _ => exch_position_mul μ hμ sel hmeas hsel d'
  rw [measure_sel_mem μ sel hmeas T, Finset.mul_sum, Finset.sum_congr rfl hp, Finset.sum_const,
    nsmul_eq_mul]

/-- (B2) **Main theorem, measure form.** Under an exchangeable probability law, an a.e.-equivariant
measurable selector picks every item with probability `1 / |ι|`. -/
theorem exch_position_uniform (μ : Measure (ι → Rnd)) [IsProbabilityMeasure μ]
    (hμ : Exchangeable μ) (sel : (ι → Rnd) → ι)
    (hmeas : ∀ d, NullMeasurableSet {x | sel x = d} μ)
    (hsel : ∀ σ : Equiv.Perm ι, ∀ᵐ x ∂μ, sel (x ∘ ⇑σ.symm) = σ (sel x)) (d : ι) :
    μ {x | sel x = d} = 1 / (Fintype.card ι : ℝ≥0∞) := by
  have h := exch_position_mul μ hμ sel hmeas hsel d
  rw [measure_univ, mul_comm] at h
  rw [one_div]
  exact ENNReal.eq_inv_of_mul_eq_one_left h

/-- (B2') `P(sel ∈ T) = |T| / |ι|`. -/
theorem exch_selected_uniform [Nonempty ι] (μ : Measure (ι → Rnd)) [IsProbabilityMeasure μ]
    (hμ : Exchangeable μ) (sel : (ι → Rnd) → ι)
    (hmeas : ∀ d, NullMeasurableSet {x | sel x = d} μ)
    (hsel : ∀ σ : Equiv.Perm ι, ∀ᵐ x ∂μ, sel (x ∘ ⇑σ.symm) = σ (sel x)) (T : Finset ι) :
    μ {x | sel x ∈ T} = (T.card : ℝ≥0∞) / (Fintype.card ι : ℝ≥0∞) := by
  have h := exch_selected_mul μ hμ sel hmeas hsel T
  rw [measure_univ, mul_one] at h
  rw [ENNReal.eq_div_iff (Nat.cast_ne_zero.mpr Fintype.card_ne_zero) (ENNReal.natCast_ne_top _)]
  exact h

/-- (B3) **Jaccard law, measure form.** For `A ∪ B` the whole (nonempty) universe:
`μ{sel ∈ A ∩ B} = |A ∩ B| / |A ∪ B|` under any exchangeable probability law. -/
theorem exch_inter_eq_jaccard [Nonempty ι] (μ : Measure (ι → Rnd)) [IsProbabilityMeasure μ]
    (hμ : Exchangeable μ) (sel : (ι → Rnd) → ι)
    (hmeas : ∀ d, NullMeasurableSet {x | sel x = d} μ)
    (hsel : ∀ σ : Equiv.Perm ι, ∀ᵐ x ∂μ, sel (x ∘ ⇑σ.symm) = σ (sel x))
    {A B : Finset ι} (hAB : A ∪ B = Finset.univ) :
    μ {x | sel x ∈ A ∩ B} = ((A ∩ B).card : ℝ≥0∞) / ((A ∪ B).card : ℝ≥0∞) := by
  rw [hAB, Finset.card_univ]
  exact exch_selected_uniform μ hμ sel hmeas hsel (A ∩ B)

/-- (B2, real form). -/
theorem exch_position_uniform_real (μ : Measure (ι → Rnd)) [IsProbabilityMeasure μ]
    (hμ : Exchangeable μ) (sel : (ι → Rnd) → ι)
    (hmeas : ∀ d, NullMeasurableSet {x | sel x = d} μ)
    (hsel : ∀ σ : Equiv.Perm ι, ∀ᵐ x ∂μ, sel (x ∘ ⇑σ.symm) = σ (sel x)) (d : ι) :
    μ.real {x | sel x = d} = 1 / (Fintype.card ι : ℝ) := by
  rw [measureReal_def, exch_position_uniform μ hμ sel hmeas hsel d]
  simp

/-- (B3, real form). -/
theorem exch_inter_eq_jaccard_real [Nonempty ι] (μ : Measure (ι → Rnd)) [IsProbabilityMeasure μ]
    (hμ : Exchangeable μ) (sel : (ι → Rnd) → ι)
    (hmeas : ∀ d, NullMeasurableSet {x | sel x = d} μ)
    (hsel : ∀ σ : Equiv.Perm ι, ∀ᵐ x ∂μ, sel (x ∘ ⇑σ.symm) = σ (sel x))
    {A B : Finset ι} (hAB : A ∪ B = Finset.univ) :
    μ.real {x | sel x ∈ A ∩ B} = ((A ∩ B).card : ℝ) / ((A ∪ B).card : ℝ) := by
  rw [measureReal_def, exch_inter_eq_jaccard μ hμ sel hmeas hsel hAB]
  simp [ENNReal.toReal_div]

omit [DecidableEq ι] in
/-- (B4) **i.i.d. coordinates are exchangeable**: the product `ν^ι` of a σ-finite measure is
invariant under every relabelling of the items. -/
theorem exchangeable_pi (ν : Measure Rnd) [SigmaFinite ν] :
    Exchangeable (Measure.pi (fun _ : ι => ν)) := by
  intro σ
  have h := measurePreserving_piCongrLeft (fun _ : ι => ν) σ
  have hf : ⇑(MeasurableEquiv.piCongrLeft (fun _ : ι => Rnd) σ)
      = fun x : ι → Rnd => x ∘ ⇑σ.symm := by
    funext x i
    rw [MeasurableEquiv.coe_piCongrLeft, Equiv.piCongrLeft_apply_eq_cast]
    rfl
  rw [← hf]
  exact h.map_eq

omit [Fintype ι] [DecidableEq ι] in
/-- The measurability hypothesis of the (B) theorems follows from measurability of `sel` w.r.t. any
σ-algebra on `ι` with measurable singletons (in particular the discrete one). -/
theorem nullMeasurable_fibers_of_measurable [MeasurableSpace ι] [MeasurableSingletonClass ι]
    (μ : Measure (ι → Rnd)) (sel : (ι → Rnd) → ι) (h : Measurable sel) :
    ∀ d, NullMeasurableSet {x | sel x = d} μ :=
  fun d => (h (measurableSet_singleton d)).nullMeasurableSet

/-! ### (B5) random-variable form -/

/-- A random assignment `X` on `(Ωm, P)` is exchangeable: relabelling the items does not change its
law. -/
def ExchangeableRV {Ωm : Type*} [MeasurableSpace Ωm] (P : Measure Ωm) (X : Ωm → ι → Rnd) : Prop :=
  ∀ σ : Equiv.Perm ι, P.map (fun ω => X ω ∘ ⇑σ.symm) = P.map X

omit [Fintype ι] [DecidableEq ι] in
theorem exchangeable_law {Ωm : Type*} [MeasurableSpace Ωm] (P : Measure Ωm) (X : Ωm → ι → Rnd)
    (hX : AEMeasurable X P) (h : ExchangeableRV P X) : Exchangeable (P.map X) := by
  intro σ
  have hm : AEMeasurable (fun x : ι → Rnd => x ∘ ⇑σ.symm) (P.map X) :=
    (measurable_relabel σ).aemeasurable
  rw [AEMeasurable.map_map_of_aemeasurable hm hX]
  exact h σ

/-- (B5) random-variable form of (B2'):
`P(sel X ∈ T) = |T| / |ι|` for an exchangeable random assignment `X`.
The hypotheses on `sel` are stated on the law `P.map X`. -/
theorem rv_selected_uniform [Nonempty ι] {Ωm : Type*} [MeasurableSpace Ωm] (P : Measure Ωm)
    [IsProbabilityMeasure P] (X : Ωm → ι → Rnd) (hX : AEMeasurable X P) (hexch : ExchangeableRV P X)
    (sel : (ι → Rnd) → ι)
    (hmeas : ∀ d, NullMeasurableSet {x | sel x = d} (P.map X))
    (hsel : ∀ σ : Equiv.Perm ι, ∀ᵐ x ∂(P.map X), sel (x ∘ ⇑σ.symm) = σ (sel x)) (T : Finset ι) :
    P {ω | sel (X ω) ∈ T} = (T.card : ℝ≥0∞) / (Fintype.card ι : ℝ≥0∞) := by
  have : IsProbabilityMeasure (P.map X) := Measure.isProbabilityMeasure_map hX
  have hT : NullMeasurableSet {x | sel x ∈ T} (P.map X) := by
    have : {x | sel x ∈ T} = ⋃ d ∈ T, {x | sel x = d} := by ext x; simp
    rw [this]
    exact Finset.nullMeasurableSet_biUnion T (fun d _ => hmeas d)
  rw [← exch_selected_uniform (P.map X) (exchangeable_law P X hX hexch) sel hmeas hsel T,
    Measure.map_apply₀ hX hT]
  rfl

/-- (B5') `P(sel X = d) = 1 / |ι|`. -/
theorem rv_position_uniform [Nonempty ι] {Ωm : Type*} [MeasurableSpace Ωm] (P : Measure Ωm)
    [IsProbabilityMeasure P] (X : Ωm → ι → Rnd) (hX : AEMeasurable X P) (hexch : ExchangeableRV P X)
    (sel : (ι → Rnd) → ι)
    (hmeas : ∀ d, NullMeasurableSet {x | sel x = d} (P.map X))
    (hsel : ∀ σ : Equiv.Perm ι, ∀ᵐ x ∂(P.map X), sel (x ∘ ⇑σ.symm) = σ (sel x)) (d : ι) :
    P {ω | sel (X ω) = d} = 1 / (Fintype.card ι : ℝ≥0∞) := by
  have h := rv_selected_uniform P X hX hexch sel hmeas hsel {d}
  simpa using h

/-- (B5'') Jaccard law for a random assignment: for `A ∪ B` the whole universe,
`P(sel X ∈ A ∩ B) = |A ∩ B| / |A ∪ B|`. -/
theorem rv_inter_eq_jaccard [Nonempty ι] {Ωm : Type*} [MeasurableSpace Ωm] (P : Measure Ωm)
    [IsProbabilityMeasure P] (X : Ωm → ι → Rnd) (hX : AEMeasurable X P) (hexch : ExchangeableRV P X)
    (sel : (ι → Rnd) → ι)
    (hmeas : ∀ d, NullMeasurableSet {x | sel x = d} (P.map X))
    (hsel : ∀ σ : Equiv.Perm ι, ∀ᵐ x ∂(P.map X), sel (x ∘ ⇑σ.symm) = σ (sel x))
    {A B : Finset ι} (hAB : A ∪ B = Finset.univ) :
    P {ω | sel (X ω) ∈ A ∩ B} = ((A ∩ B).card : ℝ≥0∞) / ((A ∪ B).card : ℝ≥0∞) := by
  rw [hAB, Finset.card_univ]
  exact rv_selected_uniform P X hX hexch sel hmeas hsel (A ∩ B)

omit [DecidableEq ι] in
/-- the equivariance event is null-measurable under an exchangeable law. -/
theorem nullMeasurableSet_equivariant (μ : Measure (ι → Rnd)) (hμ : Exchangeable μ)
    (sel : (ι → Rnd) → ι) (hmeas : ∀ d, NullMeasurableSet {x | sel x = d} μ)
    (σ : Equiv.Perm ι) : NullMeasurableSet {x | sel (x ∘ ⇑σ.symm) = σ (sel x)} μ := by
  have hset : {x : ι → Rnd | sel (x ∘ ⇑σ.symm) = σ (sel x)}
      = ⋃ d, ((fun x : ι → Rnd => x ∘ ⇑σ.symm) ⁻¹' {x | sel x = σ d}) ∩ {x | sel x = d} := by
    ext x
    simp only [Set.mem_iUnion, Set.mem_inter_iff, Set.mem_preimage]
    constructor
    · intro h; exact ⟨sel x, h, rfl⟩
    · rintro ⟨d, h1, h2⟩
      have h2' : sel x = d := h2
      have h1' : sel (x ∘ ⇑σ.symm) = σ d := h1
      change sel (x ∘ ⇑σ.symm) = σ (sel x)
      rw [h2']; exact h1'
  have qmp : Measure.QuasiMeasurePreserving (fun x : ι → Rnd => x ∘ ⇑σ.symm) μ μ :=
    ⟨measurable_relabel σ, by rw [hμ σ]⟩
  rw [hset]
  exact NullMeasurableSet.iUnion (fun d => ((hmeas (σ d)).preimage qmp).inter (hmeas d))

/-- (B5, hypotheses on `P`) the same with the equivariance of `sel` assumed `P`-almost surely along
`X` (instead of on the law of `X`). -/
theorem rv_selected_uniform' [Nonempty ι] {Ωm : Type*} [MeasurableSpace Ωm] (P : Measure Ωm)
    [IsProbabilityMeasure P] (X : Ωm → ι → Rnd) (hX : AEMeasurable X P) (hexch : ExchangeableRV P X)
    (sel : (ι → Rnd) → ι)
    (hmeas : ∀ d, NullMeasurableSet {x | sel x = d} (P.map X))
    (hsel : ∀ σ : Equiv.Perm ι, ∀ᵐ ω ∂P, sel (X ω ∘ ⇑σ.symm) = σ (sel (X ω))) (T : Finset ι) :
    P {ω | sel (X ω) ∈ T} = (T.card : ℝ≥0∞) / (Fintype.card ι : ℝ≥0∞) := by
  refine rv_selected_uniform P X hX hexch sel hmeas (fun σ => ?_) T
  have hn := nullMeasurableSet_equivariant (P.map X) (exchangeable_law P X hX hexch) sel hmeas σ
  rw [ae_iff]
  change (P.map X) {x | sel (x ∘ ⇑σ.symm) = σ (sel x)}ᶜ = 0
  rw [Measure.map_apply₀ hX hn.compl]
  exact ae_iff.mp (hsel σ)

end MeasureForm

/-! ## Part C — glue: collision probability of consistent sketches under any exchangeable law -/
section Glue
open MeasureTheory
open scoped ENNReal
variable {ι : Type} {Rnd : Type*} [MeasurableSpace Rnd] [Fintype ι] [DecidableEq ι]

/-- (C1) If, `μ`-a.e., the collision event is equivalent to "`sel x ∈ A ∩ B`" (this is what
`CS.cs_collision` provides for consistent selection schemes, `sel` = the selection for the union),
then under any exchangeable probability law `P(collision) = |A ∩ B| / |A ∪ B|`. -/
theorem exch_collision_eq_jaccard [Nonempty ι] (μ : Measure (ι → Rnd)) [IsProbabilityMeasure μ]
    (hμ : Exchangeable μ) (sel : (ι → Rnd) → ι)
    (hmeas : ∀ d, NullMeasurableSet {x | sel x = d} μ)
    (hsel : ∀ σ : Equiv.Perm ι, ∀ᵐ x ∂μ, sel (x ∘ ⇑σ.symm) = σ (sel x))
    {A B : Finset ι} (hAB : A ∪ B = Finset.univ) (collision : (ι → Rnd) → Prop)
    (hcoll : ∀ᵐ x ∂μ, collision x ↔ sel x ∈ A ∩ B) :
    μ {x | collision x} = ((A ∩ B).card : ℝ≥0∞) / ((A ∪ B).card : ℝ≥0∞) := by
  rw [← exch_inter_eq_jaccard μ hμ sel hmeas hsel hAB]
  apply measure_congr
  rw [Filter.eventuallyEq_set]
  exact hcoll

/-- (C2) A random family of `CS.Scheme`s (the sketcher, as a function of the per-item randomness
`x`): if the selection for the whole universe is (null-)measurable and a.e. equivariant, then for
nonempty `A`, `B` covering the universe, the sketches of `A` and `B` agree at position `p` with
probability `|A ∩ B| / |A ∪ B|`, under any exchangeable probability law. -/
theorem exch_scheme_collision {Pos : Type} (μ : Measure (ι → Rnd)) [IsProbabilityMeasure μ]
    (hμ : Exchangeable μ) (sch : (ι → Rnd) → Scheme ι Pos) (p : Pos)
    (hmeas : ∀ d, NullMeasurableSet {x | (sch x).c Finset.univ p = d} μ)
    (hsel : ∀ σ : Equiv.Perm ι, ∀ᵐ x ∂μ,
      (sch (x ∘ ⇑σ.symm)).c Finset.univ p = σ ((sch x).c Finset.univ p))
    {A B : Finset ι} (hA : A.Nonempty) (hB : B.Nonempty) (hAB : A ∪ B = Finset.univ) :
    μ {x | (sch x).c A p = (sch x).c B p}
      = ((A ∩ B).card : ℝ≥0∞) / ((A ∪ B).card : ℝ≥0∞) := by
  have : Nonempty ι := hA.to_type
  refine exch_collision_eq_jaccard μ hμ (fun x => (sch x).c Finset.univ p) hmeas hsel hAB
    (fun x => (sch x).c A p = (sch x).c B p) (Filter.Eventually.of_forall (fun x => ?_))
  rw [cs_collision (sch x) hA hB p, hAB]

omit [MeasurableSpace Rnd] [DecidableEq ι] in
/-- pointwise equivariance of the arg-min selector under an equivariant tie-free score. -/
theorem argmin_equivariant_pointwise [Inhabited ι] {V : Type} [LinearOrder V]
    (v : (ι → Rnd) → ι → V) (x : ι → Rnd) (σ : Equiv.Perm ι)
    (hinj : Function.Injective (v x))
    (hequiv : ∀ d, v (x ∘ ⇑σ.symm) (σ d) = v x d) :
    argmin (v (x ∘ ⇑σ.symm)) Finset.univ = σ (argmin (v x) Finset.univ) := by
  have hinj' : Function.Injective (v (x ∘ ⇑σ.symm)) := by
    intro a b hab
    have ha : a = σ (σ.symm a) := (σ.apply_symm_apply a).symm
    have hb : b = σ (σ.symm b) := (σ.apply_symm_apply b).symm
    rw [ha, hb, hequiv, hequiv] at hab
    exact σ.symm.injective (hinj hab)
  symm
  apply argmin_unique hinj' (Finset.mem_univ _)
  intro d' _
  have hd' : d' = σ (σ.symm d') := (σ.apply_symm_apply d').symm
  rw [hd', hequiv, hequiv]
  exact (argmin_spec (v x) Finset.univ_nonempty).2 _ (Finset.mem_univ _)

/-- (C3) arg-min sketches (`CS.argmin` of a score `v x d` computed from the per-item randomness):
if the scores are a.e. tie-free and a.e. equivariant, then under any exchangeable probability law
`P(argmin_A = argmin_B) = |A ∩ B| / |A ∪ B|` (measure-theoretic version of
`CS.collision_prob_eq_jaccard_gen`). -/
theorem exch_argmin_collision [Inhabited ι] {V : Type} [LinearOrder V]
    (μ : Measure (ι → Rnd)) [IsProbabilityMeasure μ] (hμ : Exchangeable μ)
    (v : (ι → Rnd) → ι → V)
    (hmeas : ∀ d, NullMeasurableSet {x | argmin (v x) Finset.univ = d} μ)
    (hinj : ∀ᵐ x ∂μ, Function.Injective (v x))
    (hequiv : ∀ σ : Equiv.Perm ι, ∀ᵐ x ∂μ, ∀ d, v (x ∘ ⇑σ.symm) (σ d) = v x d)
    {A B : Finset ι} (hA : A.Nonempty) (hB : B.Nonempty) (hAB : A ∪ B = Finset.univ) :
    μ {x | argmin (v x) A = argmin (v x) B}
      = ((A ∩ B).card : ℝ≥0∞) / ((A ∪ B).card : ℝ≥0∞) := by
  refine exch_collision_eq_jaccard μ hμ (fun x => argmin (v x) Finset.univ) hmeas ?_ hAB
    (fun x => argmin (v x) A = argmin (v x) B) ?_
  · intro σ
    filter_upwards [hinj, hequiv σ] with x h1 h2
    exact argmin_equivariant_pointwise v x σ h1 h2
  · filter_upwards [hinj] with x h1
    rw [collision_iff_min_in_inter' h1 hA hB, hAB]

end Glue

/-! ## Part D — non-vacuity -/

/-! ### (D1) a NON-uniform finitely supported exchangeable law: `ι = Fin 3`, `Rnd = Fin 4`,
`Ω` = the 24 injective assignments, weight of `r` = `1 + r 0 + r 1 + r 2` (takes the values
`4, 5, 6, 7`), selector = arg-min of the assigned values. -/
section ExampleA
open Finset

/-- the 24 injective assignments `Fin 3 → Fin 4`. -/
def exΩ : Finset (Fin 3 → Fin 4) := injAssignments (Fin 3) (Fin 4)

/-- a relabelling-invariant, non-constant weight. -/
def exW (r : Fin 3 → Fin 4) : ℕ := (∑ i, (r i : ℕ)) + 1

theorem exΩ_closed : PermClosed exΩ := injAssignments_closed

theorem exW_invariant (r : Fin 3 → Fin 4) (σ : Equiv.Perm (Fin 3)) : exW (r ∘ ⇑σ.symm) = exW r := by
  unfold exW
  congr 1
  exact Equiv.sum_comp σ.symm (fun i => (r i : ℕ))

/-- the selector: arg-min of the assigned values. -/
noncomputable def exSel (r : Fin 3 → Fin 4) : Fin 3 := argmin (idScore r ()) univ

theorem exSel_equivariant :
    ∀ r ∈ exΩ, ∀ σ : Equiv.Perm (Fin 3), exSel (r ∘ ⇑σ.symm) = σ (exSel r) :=
  argmin_univ_equivariant exΩ exΩ_closed idScore ()
    (fun r hr => idScore_injective r hr ()) (fun r _ σ d => idScore_equivariant r σ () d)

/-- the total weight is `6 * (4 + 5 + 6 + 7) = 132` … -/
theorem ex_total : ∑ r ∈ exΩ, exW r = 132 := by decide

/-- … the weights are not constant on `Ω` (the law is NOT the uniform one) … -/
theorem ex_nonuniform : ∃ r ∈ exΩ, ∃ r' ∈ exΩ, exW r ≠ exW r' :=
  ⟨![0, 1, 2], by decide, ![1, 2, 3], by decide, by decide⟩

/-- … and every item is selected with weight exactly `132 / 3 = 44`. -/
theorem ex_fiber (d : Fin 3) : ∑ r ∈ exΩ.filter (fun r => exSel r = d), exW r = 44 := by
  have h := weighted_position_uniform exΩ exΩ_closed exW (fun r _ σ => exW_invariant r σ) exSel
    exSel_equivariant d
  rw [ex_total] at h
  simp only [Fintype.card_fin, Nat.cast_ofNat] at h
  omega

/-- the collision form for `A = {0,1}`, `B = {1,2}`: weight of `{sel ∈ A ∩ B}` times `3` is
`1 * 132`. -/
theorem ex_collision_weight :
    (∑ r ∈ exΩ.filter (fun r => exSel r ∈ ({0, 1} : Finset (Fin 3)) ∩ {1, 2}), exW r) * 3
      = 1 * 132 := by
  have h := weighted_collision_eq_jaccard exΩ exΩ_closed exW (fun r _ σ => exW_invariant r σ) exSel
    exSel_equivariant (A := {0, 1}) (B := {1, 2}) (by decide)
  rw [ex_total] at h
  have h1 : (({0, 1} : Finset (Fin 3)) ∪ {1, 2}).card = 3 := by decide
  have h2 : (({0, 1} : Finset (Fin 3)) ∩ {1, 2}).card = 1 := by decide
  rw [h1, h2] at h
  exact_mod_cast h

/-- the normalised law `P(r) = exW r / 132` on `Ω` (a non-uniform exchangeable probability law):
every item is selected with probability `1/3`. -/
theorem ex_prob (d : Fin 3) :
    ∑ r ∈ exΩ.filter (fun r => exSel r = d), ((exW r : ℚ) / 132) = 1 / 3 := by
  have h1 : ∑ r ∈ exΩ, ((exW r : ℚ) / 132) = 1 := by
    rw [← Finset.sum_div, ← Nat.cast_sum, ex_total]; norm_num
  have h := weighted_position_prob exΩ exΩ_closed (fun r => (exW r : ℚ) / 132)
    (fun r _ σ => by rw [exW_invariant r σ]) h1 exSel exSel_equivariant d
  rw [h]; simp

end ExampleA

/-! ### (D2) every finitely supported exchangeable law is an instance of Part B
(`μ = ∑_{ω ∈ Ω} w ω • δ_ω`); in particular the hypotheses of the (B) theorems are satisfiable by
non-product, non-uniform laws, and (A) and (B) agree. -/
section FiniteSupport
open MeasureTheory
open scoped ENNReal
variable {ι Rnd : Type} [MeasurableSpace Rnd]

/-- the finitely supported measure `∑_{ω ∈ Ω} w ω • δ_ω`. -/
noncomputable def finMeasure (Ω : Finset (ι → Rnd)) (w : (ι → Rnd) → ℝ≥0∞) : Measure (ι → Rnd) :=
  ∑ ω ∈ Ω, w ω • Measure.dirac ω

theorem finMeasure_apply' (Ω : Finset (ι → Rnd)) (w : (ι → Rnd) → ℝ≥0∞) {s : Set (ι → Rnd)}
    (hs : MeasurableSet s) :
    finMeasure Ω w s = ∑ ω ∈ Ω, w ω * s.indicator 1 ω := by
  unfold finMeasure
  rw [Measure.finsetSum_apply]
  refine Finset.sum_congr rfl (fun ω _ => ?_)
  rw [Measure.smul_apply, Measure.dirac_apply' _ hs, smul_eq_mul]

/-- (D2a) `∑ w ω • δ_ω` is exchangeable when `Ω` is closed under relabelling and `w` is
relabelling-invariant on `Ω` (any measurable space `Rnd`). -/
theorem exchangeable_finMeasure (Ω : Finset (ι → Rnd)) (hΩ : PermClosed Ω) (w : (ι → Rnd) → ℝ≥0∞)
    (hw : ∀ r ∈ Ω, ∀ σ : Equiv.Perm ι, w (r ∘ ⇑σ.symm) = w r) :
    Exchangeable (finMeasure Ω w) := by
  intro σ
  ext s hs
  have hm : Measurable (fun x : ι → Rnd => x ∘ ⇑σ.symm) := measurable_relabel σ
  rw [Measure.map_apply hm hs, finMeasure_apply' Ω w (hm hs), finMeasure_apply' Ω w hs]
  refine Finset.sum_nbij' (fun r => r ∘ ⇑σ.symm) (fun r => r ∘ ⇑σ) ?_ ?_ ?_ ?_ ?_
  · intro r hr; exact hΩ r hr σ
  · intro r hr
    have := hΩ r hr σ.symm
    rwa [Equiv.symm_symm] at this
  · intro r _; funext i; simp
  · intro r _; funext i; simp
  · intro r hr
    rw [hw r hr σ]
    congr 1

variable [MeasurableSingletonClass Rnd] [Countable ι]

theorem finMeasure_apply (Ω : Finset (ι → Rnd)) (w : (ι → Rnd) → ℝ≥0∞) (s : Set (ι → Rnd)) :
    finMeasure Ω w s = ∑ ω ∈ Ω, w ω * s.indicator 1 ω := by
  unfold finMeasure
  rw [Measure.finsetSum_apply]
  refine Finset.sum_congr rfl (fun ω _ => ?_)
  rw [Measure.smul_apply, Measure.dirac_apply, smul_eq_mul]

/-- a property that holds on `Ω` holds `finMeasure Ω w`-almost everywhere. -/
theorem ae_finMeasure (Ω : Finset (ι → Rnd)) (w : (ι → Rnd) → ℝ≥0∞) (p : (ι → Rnd) → Prop)
    (hp : ∀ ω ∈ Ω, p ω) : ∀ᵐ x ∂(finMeasure Ω w), p x := by
  rw [ae_iff, finMeasure_apply]
  refine Finset.sum_eq_zero (fun ω hω => ?_)
  rw [Set.indicator_of_notMem, mul_zero]
  exact fun h => h (hp ω hω)

/-- every set is null-measurable for a finitely supported measure. -/
theorem nullMeasurableSet_finMeasure (Ω : Finset (ι → Rnd)) (w : (ι → Rnd) → ℝ≥0∞)
    (s : Set (ι → Rnd)) : NullMeasurableSet s (finMeasure Ω w) := by
  have hfin : (s ∩ ↑Ω : Set (ι → Rnd)).Finite := Ω.finite_toSet.subset Set.inter_subset_right
  refine hfin.measurableSet.nullMeasurableSet.congr ?_
  rw [Filter.eventuallyEq_set]
  exact ae_finMeasure Ω w _ (fun ω hω => ⟨fun h => h.1, fun h => ⟨h, hω⟩⟩)

theorem isProbabilityMeasure_finMeasure (Ω : Finset (ι → Rnd)) (w : (ι → Rnd) → ℝ≥0∞)
    (hw1 : ∑ ω ∈ Ω, w ω = 1) : IsProbabilityMeasure (finMeasure Ω w) := by
  refine ⟨?_⟩
  rw [finMeasure_apply, ← hw1]
  refine Finset.sum_congr rfl (fun ω _ => ?_)
  simp

/-- the measure of an event is the weight of the event (bridge to Part A). -/
theorem finMeasure_event (Ω : Finset (ι → Rnd)) (w : (ι → Rnd) → ℝ≥0∞) (p : (ι → Rnd) → Prop)
    [DecidablePred p] : finMeasure Ω w {x | p x} = ∑ ω ∈ Ω.filter p, w ω := by
  rw [finMeasure_apply, Finset.sum_filter]
  refine Finset.sum_congr rfl (fun ω _ => ?_)
  by_cases h : p ω
  · rw [Set.indicator_of_mem (show ω ∈ {x | p x} from h), if_pos h]; simp
  · rw [Set.indicator_of_notMem (show ω ∉ {x | p x} from h), if_neg h, mul_zero]

/-- (D2b) **the hypotheses of the (B) theorems are satisfiable**: for every permutation-closed
finite `Ω`, relabelling-invariant weights with total mass `1` and selector equivariant on `Ω`, the
law `∑ w ω • δ_ω` is an exchangeable probability law, `sel` is null-measurable and a.e. equivariant;
so (B2) applies, and its conclusion is the `ℝ≥0∞`-instance of (A4'). -/
theorem finMeasure_position_uniform [Fintype ι] [DecidableEq ι]
    (Ω : Finset (ι → Rnd)) (hΩ : PermClosed Ω) (w : (ι → Rnd) → ℝ≥0∞)
    (hw : ∀ r ∈ Ω, ∀ σ : Equiv.Perm ι, w (r ∘ ⇑σ.symm) = w r) (hw1 : ∑ ω ∈ Ω, w ω = 1)
    (sel : (ι → Rnd) → ι)
    (hsel : ∀ r ∈ Ω, ∀ σ : Equiv.Perm ι, sel (r ∘ ⇑σ.symm) = σ (sel r)) (d : ι) :
    ∑ ω ∈ Ω.filter (fun r => sel r = d), w ω = 1 / (Fintype.card ι : ℝ≥0∞) := by
  have := isProbabilityMeasure_finMeasure Ω w hw1
  rw [← finMeasure_event Ω w (fun r => sel r = d)]
  exact exch_position_uniform (finMeasure Ω w) (exchangeable_finMeasure Ω hΩ w hw) sel
    (fun d => nullMeasurableSet_finMeasure Ω w _)
    (fun σ => ae_finMeasure Ω w _ (fun r hr => hsel r hr σ)) d

/-- (D2c) concrete: the non-uniform law of (D1), as a measure on `Fin 3 → Fin 4`; it is an
exchangeable probability measure which is neither uniform nor a product, and (B2) gives `1/3`. -/
theorem ex_measure_position (d : Fin 3) :
    finMeasure exΩ (fun r => (exW r : ℝ≥0∞) / 132) {x | exSel x = d} = 1 / 3 := by
  classical
  have hw1 : ∑ ω ∈ exΩ, ((exW ω : ℝ≥0∞) / 132) = 1 := by
    simp only [div_eq_mul_inv]
    rw [← Finset.sum_mul, ← Nat.cast_sum, ex_total]
    exact ENNReal.mul_inv_cancel (by norm_num) (by norm_num)
  have h := finMeasure_position_uniform exΩ exΩ_closed (fun r => (exW r : ℝ≥0∞) / 132)
    (fun r _ σ => by rw [exW_invariant r σ]) hw1 exSel exSel_equivariant d
  rw [finMeasure_event exΩ _ (fun r => exSel r = d), h]
  simp

end FiniteSupport

/-! ### (D3) the i.i.d. instance with a continuous law: MinHash with real hash values -/
section IID
open MeasureTheory
open scoped ENNReal
variable {ι : Type} [Fintype ι] [DecidableEq ι]
variable {V : Type} [LinearOrder V] [MeasurableSpace V] [TopologicalSpace V]
  [OpensMeasurableSpace V] [OrderClosedTopology V] [SecondCountableTopology V]

/-- under a product of an atomless law two distinct coordinates are a.s. different. -/
theorem pi_tie_null (ν : Measure V) [SigmaFinite ν] [NullSingletonClass ν] {i j : ι}
    (hij : i ≠ j) : Measure.pi (fun _ : ι => ν) {x | x i = x j} = 0 := by
  have hmp := measurePreserving_piEquivPiSubtypeProd (fun _ : ι => ν) (fun k => k = j)
  let S' : Set (({k : ι // k = j} → V) × ({k : ι // ¬ k = j} → V)) :=
    {q | q.2 ⟨i, hij⟩ = q.1 ⟨j, rfl⟩}
  have hS : {x : ι → V | x i = x j}
      = (MeasurableEquiv.piEquivPiSubtypeProd (fun _ : ι => V) (fun k => k = j)) ⁻¹' S' := rfl
  rw [hS, hmp.measure_preimage_equiv]
  have hS'meas : MeasurableSet S' :=
    measurableSet_eq_fun ((measurable_pi_apply _).comp measurable_snd)
      ((measurable_pi_apply _).comp measurable_fst)
  rw [Measure.measure_prod_null hS'meas]
  refine Filter.Eventually.of_forall (fun a => ?_)
  exact Measure.pi_hyperplane (fun _ : {k : ι // ¬ k = j} => ν) ⟨i, hij⟩ (a ⟨j, rfl⟩)

/-- i.i.d. samples of an atomless law are a.s. tie-free. -/
theorem pi_ae_injective (ν : Measure V) [SigmaFinite ν] [NullSingletonClass ν] :
    ∀ᵐ x ∂(Measure.pi (fun _ : ι => ν)), Function.Injective x := by
  have h : ∀ᵐ x ∂(Measure.pi (fun _ : ι => ν)), ∀ i j : ι, i ≠ j → x i ≠ x j := by
    rw [ae_all_iff]; intro i
    rw [ae_all_iff]; intro j
    by_cases hij : i = j
    · exact Filter.Eventually.of_forall (fun x h => absurd hij h)
    · filter_upwards [measure_eq_zero_iff_ae_notMem.mp (pi_tie_null ν hij)] with x hx _
      exact hx
  filter_upwards [h] with x hx a b hab
  by_contra hne
  exact hx a b hne hab

omit [DecidableEq ι] in
/-- the arg-min event is null-measurable as soon as ties are null. -/
theorem nullMeasurable_argmin [Inhabited ι] (μ : Measure (ι → V))
    (hinj : ∀ᵐ x ∂μ, Function.Injective x) (d : ι) :
    NullMeasurableSet {x : ι → V | argmin x Finset.univ = d} μ := by
  have hM : MeasurableSet {x : ι → V | ∀ d', x d ≤ x d'} := by
    have : {x : ι → V | ∀ d', x d ≤ x d'} = ⋂ d', {x | x d ≤ x d'} := by ext; simp
    rw [this]
    exact MeasurableSet.iInter
      (fun d' => measurableSet_le (measurable_pi_apply d) (measurable_pi_apply d'))
  refine hM.nullMeasurableSet.congr ?_
  rw [Filter.eventuallyEq_set]
  filter_upwards [hinj] with x hx
  constructor
  · intro h
    exact (argmin_unique hx (Finset.mem_univ d) (fun d' _ => h d')).symm
  · intro h d'
    rw [← h]
    exact (argmin_spec x Finset.univ_nonempty).2 d' (Finset.mem_univ _)

/-- (D3a) **MinHash with i.i.d. continuous hash values**: the minimiser is uniform. -/
theorem iid_argmin_uniform [Inhabited ι] (ν : Measure V) [IsProbabilityMeasure ν]
    [NullSingletonClass ν] (d : ι) :
    Measure.pi (fun _ : ι => ν) {x | argmin x Finset.univ = d}
      = 1 / (Fintype.card ι : ℝ≥0∞) := by
  refine exch_position_uniform _ (exchangeable_pi ν) (fun x => argmin x Finset.univ)
    (nullMeasurable_argmin _ (pi_ae_injective ν)) (fun σ => ?_) d
  filter_upwards [pi_ae_injective (ι := ι) ν] with x hx
  exact argmin_equivariant_pointwise (fun x => x) x σ hx (fun d => by simp)

/-- (D3b) **MinHash with i.i.d. continuous hash values**: for nonempty `A`, `B` covering the
universe, `P(argmin_A = argmin_B) = |A ∩ B| / |A ∪ B|`. All hypotheses of (C3) are discharged. -/
theorem iid_argmin_collision [Inhabited ι] (ν : Measure V) [IsProbabilityMeasure ν]
    [NullSingletonClass ν] {A B : Finset ι} (hA : A.Nonempty) (hB : B.Nonempty)
    (hAB : A ∪ B = Finset.univ) :
    Measure.pi (fun _ : ι => ν) {x | argmin x A = argmin x B}
      = ((A ∩ B).card : ℝ≥0∞) / ((A ∪ B).card : ℝ≥0∞) :=
  exch_argmin_collision _ (exchangeable_pi ν) (fun x => x)
    (nullMeasurable_argmin _ (pi_ae_injective ν)) (pi_ae_injective ν)
    (fun σ => Filter.Eventually.of_forall (fun x d => by simp)) hA hB hAB

/-- the uniform law on `[0,1]`. -/
noncomputable def unif01 : Measure ℝ := volume.restrict (Set.Icc 0 1)

instance : IsProbabilityMeasure unif01 := ⟨by simp [unif01]⟩

instance : NullSingletonClass unif01 := by unfold unif01; infer_instance

/-- (D3c) fully concrete: three items with i.i.d. uniform `[0,1]` hash values, `A = {0,1}`,
`B = {1,2}`: the MinHash collision probability is `1/3`. -/
theorem unif01_example :
    Measure.pi (fun _ : Fin 3 => unif01)
        {x | argmin x ({0, 1} : Finset (Fin 3)) = argmin x ({1, 2} : Finset (Fin 3))}
      = 1 / 3 := by
  have h := iid_argmin_collision (ι := Fin 3) unif01 (A := {0, 1}) (B := {1, 2})
    (by decide) (by decide) (by decide)
  have h1 : (({0, 1} : Finset (Fin 3)) ∪ {1, 2}).card = 3 := by decide
  have h2 : (({0, 1} : Finset (Fin 3)) ∩ {1, 2}).card = 1 := by decide
  rw [h1, h2] at h
  simpa using h

end IID

end PMH.ExchLaw

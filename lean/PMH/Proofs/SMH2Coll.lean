import PMH.Proofs.SMH2
import PMH.Proofs.Collision
import Mathlib.Data.Finset.Sort
import Mathlib.Tactic.Choose

/-!
# `SMH2Coll`: exact finite unbiasedness of SuperMinHash2 (the `get_hsketch` observable)

`SMH2P.stream_spec` says that a sketcher reached from `new` satisfies `Race.Spec` for the set of all points of all
streamed items, registers `(l[k], values[k])` in lexicographic order, tag = the item's hash (`hsketch[k]`).

* §1 `ptsFrom_retag`, `score`, `itemPts_eq_scores`: an item has exactly one point per position, whose value
  `score t m g p` depends on the generator only; `score_lt_top`; `streamPts_eq_pointsOf`, `run_spec_pointsOf`:
  the point set is `Coll.pointsOf score h m A`.
* §2 `smh2_collision_count` (hashes shown at `p` agree for exactly `J · #Ω` assignments; `A`, `B` nonempty),
  `smh2_collision_count_nz` (no nonemptiness, hashes `≠ 0`), `smh2_collision_count_regs` (internal registers, no
  nonemptiness), `hsketch_eq_argmin`, `hsketch_empty`, `smh2_position_law`, `smh2_position_law_regs`.
* §3 non-vacuity: `exOps`, `ex_tiefree`, `ex_runs`, `ex_collision_count`, `ex_collision_third`, concrete runs.
-/
namespace PMH.SMH2Coll
open PMH PMH.Race PMH.SMH2P

variable {G : Type}

/-! ## 1. one score per (item, position) -/

/-- positions and values of an item's points do not depend on the item's hash: only the tag does -/
theorem ptsFrom_retag (t : TOps G) (hval hval' : Nat) : ∀ (n j : Nat) (g : G) (fy : FY),
    ptsFrom t hval n j g fy = (ptsFrom t hval' n j g fy).map (fun q => ⟨q.pos, q.val, hval⟩) := by
  intro n
  induction n with
  | zero => intro j g fy; simp [ptsFrom]
  | succ n ih =>
    intro j g fy
    simp only [ptsFrom]
    cases h : fy.nextOff (t.offsetOf (t.fu (t.fr g).2).1 (fy.m - fy.cursor)) with
    | error e => simp
    | ok x =>
      obtain ⟨k, fy'⟩ := x
      simp only [List.map_cons]
      rw [ih (j + 1) (t.fu (t.fr g).2).2 fy']

theorem itemList_retag (t : TOps G) (m hval hval' : Nat) (g : G) :
    itemList t m hval g = (itemList t m hval' g).map (fun q => ⟨q.pos, q.val, hval⟩) :=
  ptsFrom_retag t hval hval' m 0 g _

/-- the value (`(level, r)`, lexicographic) that an item with generator `g` offers to position `p` -/
def score (t : TOps G) (m : Nat) (g : G) (p : Nat) : V :=
  ((itemList t m 0 g).find? (fun q => q.pos = p)).elim (top m) (·.val)

theorem find_pos_of_nodup {l : List (Pt V ℕ)} (hnd : (l.map Pt.pos).Nodup) {q : Pt V ℕ} (hq : q ∈ l) :
    l.find? (fun q' => q'.pos = q.pos) = some q := by
  cases h : l.find? (fun q' => decide (q'.pos = q.pos)) with
  | none =>
    have := List.find?_eq_none.mp h q hq
    simp at this
  | some q' =>
    have h1 : q'.pos = q.pos := by simpa using List.find?_some h
    have h2 : q' ∈ l := List.mem_of_find?_eq_some h
    rw [List.inj_on_of_nodup_map hnd h2 hq h1]

theorem score_spec (t : TOps G) (hn : Nice t) (m : Nat) (g : G) (q : Pt V ℕ) (hq : q ∈ itemList t m 0 g) :
    score t m g q.pos = q.val := by
  unfold score
  rw [find_pos_of_nodup (itemPts_slots t hn m 0 g).2 hq]; rfl

/-- **one point per position**: the points of a SuperMinHash2 item are exactly `⟨p, score … p, hval⟩`, `p < m` -/
theorem itemPts_eq_scores (t : TOps G) (hn : Nice t) (m hval : Nat) (g : G) :
    itemPts t m hval g = {pt | ∃ p, p < m ∧ pt = ⟨p, score t m g p, hval⟩} := by
  have hperm := (itemList_facts t hn m 0 g).1
  ext q
  show q ∈ itemList t m hval g ↔ _
  rw [itemList_retag t m hval 0 g, List.mem_map]
  constructor
  · rintro ⟨q0, h0, rfl⟩
    have hp : q0.pos < m := by
      have : q0.pos ∈ (itemList t m 0 g).map Pt.pos := List.mem_map_of_mem h0
      simpa using hperm.subset this
    exact ⟨q0.pos, hp, by rw [score_spec t hn m g q0 h0]⟩
  · rintro ⟨p, hp, rfl⟩
    have : p ∈ (itemList t m 0 g).map Pt.pos := hperm.symm.subset (List.mem_range.mpr hp)
    obtain ⟨q0, h0, rfl⟩ := List.mem_map.mp this
    exact ⟨q0, h0, by rw [score_spec t hn m g q0 h0]⟩

/-- the score at a position `< m` is a pair `(level, r)` with `level < m`, `r < usize::MAX` -/
theorem score_shape (t : TOps G) (hn : Nice t) (m : Nat) (g : G) (p : Nat) (hp : p < m) :
    ∃ j r, j < m ∧ r < SMH2.usizeMax ∧ score t m g p = toLex (j, r) := by
  obtain ⟨q, hq, rfl⟩ := itemPts_cover t hn m 0 g p hp
  obtain ⟨_, _, _, j, r, hj, hr, e⟩ := itemPts_mem t hn m 0 g q hq
  exact ⟨j, r, hj, hr, by rw [score_spec t hn m g q hq, e]⟩

/-- … hence strictly below the untouched register (`values below the ceiling` holds automatically) -/
theorem score_lt_top (t : TOps G) (hn : Nice t) (m : Nat) (g : G) (p : Nat) (hp : p < m) :
    score t m g p < top m := by
  obtain ⟨q, hq, rfl⟩ := itemPts_cover t hn m 0 g p hp
  rw [score_spec t hn m g q hq]
  exact (itemPts_mem t hn m 0 g q hq).2.2.1

variable {ι : Type}

/-- the stream of the items of `A` (hash `h d`, generator `r d`), in the order of `A.toList` -/
noncomputable def itemsOf (h : ι → Nat) (r : ι → G) (A : Finset ι) : List (Nat × G) := A.toList.map (fun d => (h d, r d))

/-- the point set of the items of `A` is of the one-score-per-position form -/
theorem streamPts_eq_pointsOf (t : TOps G) (hn : Nice t) (m : Nat) (h : ι → Nat) (r : ι → G) (A : Finset ι) :
    streamPts t m (itemsOf h r A) = Coll.pointsOf (fun d p => score t m (r d) p) h m A := by
  ext pt
  simp only [streamPts, itemsOf, Set.mem_ofPred_eq, List.mem_map, Finset.mem_toList, Coll.pointsOf]
  constructor
  · rintro ⟨x, ⟨d, hd, rfl⟩, hp⟩
    rw [itemPts_eq_scores t hn m (h d) (r d)] at hp
    obtain ⟨p, hp1, rfl⟩ := hp
    exact ⟨d, hd, p, hp1, rfl⟩
  · rintro ⟨d, hd, p, hp1, rfl⟩
    refine ⟨(h d, r d), ⟨d, hd, rfl⟩, ?_⟩
    rw [itemPts_eq_scores t hn m (h d) (r d)]
    exact ⟨p, hp1, rfl⟩

/-- **refinement in `Coll` form**: the sketch of the items of `A` from a new sketcher satisfies the `Race`
specification for `pointsOf score h m A` -/
theorem run_spec_pointsOf (t : TOps G) (hn : Nice t) (imax m : Nat) (h : ι → Nat) (r : ι → G) (A : Finset ι)
    (s0 s : SMH2) (h0 : SMH2.new imax m = .ok s0) (e : run t s0 (itemsOf h r A) = .ok s) :
    Spec m (top m) 0 (Coll.pointsOf (fun d p => score t m (r d) p) h m A) (view s) := by
  have := (stream_spec t hn imax m _ s0 s h0 e).2.2
  rw [streamPts_eq_pointsOf t hn m h r A] at this
  exact this

/-! ## 2. the exact collision law -/
section Count
variable [Fintype ι] [DecidableEq ι] [Inhabited ι]

/-- **SuperMinHash2: the probability that two sketches (`get_hsketch`) agree at a position is exactly the Jaccard
index.**  `ι = A ∪ B` the item universe, item `d` has the 64-bit hash `h d` (pairwise distinct); Ω: any finite set of
assignments `r` of generators to the items, closed under relabelling of the items, tie-free at position `p`;
`a r`, `b r`: the sketchers obtained from a new one by streaming the items of `A`, `B` (in the order of
`A.toList`; by `C04.smh2_set_semantics` any order / repetition gives the same). `A`, `B` nonempty: an empty
sketch shows `0`, which may be the hash of an item — see `smh2_collision_count_nz`, `smh2_collision_count_regs`. -/
theorem smh2_collision_count (t : TOps G) (hn : Nice t) (imax m : Nat) (h : ι → Nat) (hh : Function.Injective h)
    (Ω : Finset (ι → G)) (hΩ : CS.PermClosed Ω) (p : Nat) (hp : p < m)
    (hinj : ∀ r ∈ Ω, Function.Injective (fun d => score t m (r d) p))
    {A B : Finset ι} (hA : A.Nonempty) (hB : B.Nonempty) (hAB : A ∪ B = Finset.univ)
    (s0 : SMH2) (h0 : SMH2.new imax m = .ok s0) (a b : (ι → G) → SMH2)
    (ha : ∀ r ∈ Ω, run t s0 (itemsOf h r A) = .ok (a r))
    (hb : ∀ r ∈ Ω, run t s0 (itemsOf h r B) = .ok (b r)) :
    (Ω.filter (fun r => (a r).hsketch.getD p 0 = (b r).hsketch.getD p 0)).card * (A ∪ B).card
      = (A ∩ B).card * Ω.card :=
  Coll.collision_count_tags Ω hΩ m (top m) 0 (fun r d p => score t m (r d) p) h hh p hp hinj
    (fun r _ d => score_lt_top t hn m (r d) p hp) (fun r _ σ d => by simp) hA hB hAB
    (fun r => view (a r)) (fun r => view (b r))
    (fun r hr => run_spec_pointsOf t hn imax m h r A s0 (a r) h0 (ha r hr))
    (fun r hr => run_spec_pointsOf t hn imax m h r B s0 (b r) h0 (hb r hr))

/-- the same for the internal registers `(l[p], values[p])` — no nonemptiness, no hypothesis on the hashes -/
theorem smh2_collision_count_regs (t : TOps G) (hn : Nice t) (imax m : Nat) (h : ι → Nat)
    (Ω : Finset (ι → G)) (hΩ : CS.PermClosed Ω) (p : Nat) (hp : p < m)
    (hinj : ∀ r ∈ Ω, Function.Injective (fun d => score t m (r d) p))
    {A B : Finset ι} (hAB : A ∪ B = Finset.univ)
    (s0 : SMH2) (h0 : SMH2.new imax m = .ok s0) (a b : (ι → G) → SMH2)
    (ha : ∀ r ∈ Ω, run t s0 (itemsOf h r A) = .ok (a r))
    (hb : ∀ r ∈ Ω, run t s0 (itemsOf h r B) = .ok (b r)) :
    (Ω.filter (fun r => (a r).l.getD p 0 = (b r).l.getD p 0 ∧
        (a r).values.getD p 0 = (b r).values.getD p 0)).card * (A ∪ B).card
      = (A ∩ B).card * Ω.card := by
  have := Coll.collision_count_regs Ω hΩ m (top m) 0 (fun r d p => score t m (r d) p) h p hp hinj
    (fun r _ d => score_lt_top t hn m (r d) p hp) (fun r _ σ d => by simp) hAB
    (fun r => view (a r)) (fun r => view (b r))
    (fun r hr => run_spec_pointsOf t hn imax m h r A s0 (a r) h0 (ha r hr))
    (fun r hr => run_spec_pointsOf t hn imax m h r B s0 (b r) h0 (hb r hr))
  rw [← this]
  congr 2
  refine Finset.filter_congr (fun r _ => ?_)
  simp only [view]
  constructor
  · rintro ⟨e1, e2⟩; rw [e1, e2]
  · intro e
    have := congrArg ofLex e
    simpa using this

omit [Fintype ι] [DecidableEq ι] in
/-- the position of a nonempty sketch holds the hash of the item of least score -/
theorem hsketch_eq_argmin (t : TOps G) (hn : Nice t) (imax m : Nat) (h : ι → Nat) (r : ι → G) (p : Nat) (hp : p < m)
    (hinj : Function.Injective (fun d => score t m (r d) p)) {A : Finset ι} (hA : A.Nonempty)
    (s0 s : SMH2) (h0 : SMH2.new imax m = .ok s0) (e : run t s0 (itemsOf h r A) = .ok s) :
    s.hsketch.getD p 0 = h (CS.argmin (fun d => score t m (r d) p) A) ∧
    (toLex (s.l.getD p 0, s.values.getD p 0) : V) = score t m (r (CS.argmin (fun d => score t m (r d) p) A)) p := by
  have sp := run_spec_pointsOf t hn imax m h r A s0 s h0 e
  exact ⟨Coll.tag_eq_argmin_at sp hA hp (fun d _ => score_lt_top t hn m (r d) p hp) hinj.injOn,
    Coll.reg_eq_argmin_at sp hA hp (fun d _ => score_lt_top t hn m (r d) p hp)⟩

omit [Fintype ι] [DecidableEq ι] [Inhabited ι] in
/-- the position of an empty sketch holds `0` -/
theorem hsketch_empty (t : TOps G) (hn : Nice t) (imax m : Nat) (h : ι → Nat) (r : ι → G) (p : Nat) (hp : p < m)
    (s0 s : SMH2) (h0 : SMH2.new imax m = .ok s0) (e : run t s0 (itemsOf h r ∅) = .ok s) :
    s.hsketch.getD p 0 = 0 :=
  (Coll.spec_empty_reg (run_spec_pointsOf t hn imax m h r ∅ s0 s h0 e) p hp).2

/-- `smh2_collision_count` without nonemptiness when no item has the hash `0` (the content of an untouched position) -/
theorem smh2_collision_count_nz (t : TOps G) (hn : Nice t) (imax m : Nat) (h : ι → Nat) (hh : Function.Injective h)
    (hz : ∀ d, h d ≠ 0)
    (Ω : Finset (ι → G)) (hΩ : CS.PermClosed Ω) (p : Nat) (hp : p < m)
    (hinj : ∀ r ∈ Ω, Function.Injective (fun d => score t m (r d) p))
    {A B : Finset ι} (hAB : A ∪ B = Finset.univ)
    (s0 : SMH2) (h0 : SMH2.new imax m = .ok s0) (a b : (ι → G) → SMH2)
    (ha : ∀ r ∈ Ω, run t s0 (itemsOf h r A) = .ok (a r))
    (hb : ∀ r ∈ Ω, run t s0 (itemsOf h r B) = .ok (b r)) :
    (Ω.filter (fun r => (a r).hsketch.getD p 0 = (b r).hsketch.getD p 0)).card * (A ∪ B).card
      = (A ∩ B).card * Ω.card := by
  rcases A.eq_empty_or_nonempty with hA | hA
  · subst hA
    have hBu : B = Finset.univ := by simpa using hAB
    have hBne : B.Nonempty := hBu ▸ Finset.univ_nonempty
    rw [Finset.filter_false_of_mem]
    · simp
    · intro r hr e
      rw [hsketch_empty t hn imax m h r p hp s0 (a r) h0 (ha r hr),
        (hsketch_eq_argmin t hn imax m h r p hp (hinj r hr) hBne s0 (b r) h0 (hb r hr)).1] at e
      exact hz _ e.symm
  rcases B.eq_empty_or_nonempty with hB | hB
  · subst hB
    rw [Finset.filter_false_of_mem]
    · simp
    · intro r hr e
      rw [hsketch_empty t hn imax m h r p hp s0 (b r) h0 (hb r hr),
        (hsketch_eq_argmin t hn imax m h r p hp (hinj r hr) hA s0 (a r) h0 (ha r hr)).1] at e
      exact hz _ e
  exact smh2_collision_count t hn imax m h hh Ω hΩ p hp hinj hA hB hAB s0 h0 a b ha hb

/-- **single-set law**: in the sketch of all `n = |ι|` items, each item `d` is the one whose hash is shown at position
`p` for exactly `#Ω / n` of the assignments -/
theorem smh2_position_law (t : TOps G) (hn : Nice t) (imax m : Nat) (h : ι → Nat) (hh : Function.Injective h)
    (Ω : Finset (ι → G)) (hΩ : CS.PermClosed Ω) (p : Nat) (hp : p < m)
    (hinj : ∀ r ∈ Ω, Function.Injective (fun d => score t m (r d) p))
    (s0 : SMH2) (h0 : SMH2.new imax m = .ok s0) (a : (ι → G) → SMH2)
    (ha : ∀ r ∈ Ω, run t s0 (itemsOf h r Finset.univ) = .ok (a r)) (d : ι) :
    (Ω.filter (fun r => (a r).hsketch.getD p 0 = h d)).card * Fintype.card ι = Ω.card := by
  have := Coll.position_holds_item_count Ω hΩ m (top m) 0 (fun r d p => score t m (r d) p) h hh p hp hinj
    (fun r _ d => score_lt_top t hn m (r d) p hp) (fun r _ σ d => by simp) (A := Finset.univ) rfl
    (fun r => view (a r))
    (fun r hr => run_spec_pointsOf t hn imax m h r Finset.univ s0 (a r) h0 (ha r hr)) d
  rw [Finset.card_univ] at this
  exact this

/-- … and position `p` holds the score of item `d` for exactly `#Ω / n` of the assignments -/
theorem smh2_position_law_regs (t : TOps G) (hn : Nice t) (imax m : Nat) (h : ι → Nat)
    (Ω : Finset (ι → G)) (hΩ : CS.PermClosed Ω) (p : Nat) (hp : p < m)
    (hinj : ∀ r ∈ Ω, Function.Injective (fun d => score t m (r d) p))
    (s0 : SMH2) (h0 : SMH2.new imax m = .ok s0) (a : (ι → G) → SMH2)
    (ha : ∀ r ∈ Ω, run t s0 (itemsOf h r Finset.univ) = .ok (a r)) (d : ι) :
    (Ω.filter (fun r => (toLex ((a r).l.getD p 0, (a r).values.getD p 0) : V) = score t m (r d) p)).card
      * Fintype.card ι = Ω.card := by
  have := Coll.position_holds_score_count Ω hΩ m (top m) 0 (fun r d p => score t m (r d) p) h p hp hinj
    (fun r _ d => score_lt_top t hn m (r d) p hp) (fun r _ σ d => by simp) (A := Finset.univ) rfl
    (fun r => view (a r))
    (fun r hr => run_spec_pointsOf t hn imax m h r Finset.univ s0 (a r) h0 (ha r hr)) d
  rw [Finset.card_univ] at this
  exact this

end Count

/-! ## 3. non-vacuity: an instance satisfying every hypothesis -/
section Example
open Finset

/-- toy source: a generator is a number `g < n`; every `r`-draw of the item is `g`, the generator never changes,
the Fisher–Yates offset is always `0` -/
def exOps (n : Nat) : TOps (Fin n) where
  fr g := (g.val, g)
  fu g := (0, g)
  offsetOf _ _ := 0

theorem exOps_nice (n : Nat) (hn : n ≤ SMH2.usizeMax) : Nice (exOps n) :=
  ⟨fun g => Nat.lt_of_lt_of_le g.isLt hn, fun _ _ h => h⟩

theorem exOps_pts_snd (n hval : Nat) : ∀ (k j : Nat) (g : Fin n) (fy : FY),
    ∀ q ∈ ptsFrom (exOps n) hval k j g fy, (ofLex q.val).2 = g.val := by
  intro k
  induction k with
  | zero => intro j g fy q hq; simp [ptsFrom] at hq
  | succ k ih =>
    intro j g fy q hq
    simp only [ptsFrom] at hq
    cases h : fy.nextOff ((exOps n).offsetOf ((exOps n).fu ((exOps n).fr g).2).1 (fy.m - fy.cursor)) with
    | error e => rw [h] at hq; simp at hq
    | ok x =>
      obtain ⟨k', fy'⟩ := x
      rw [h] at hq
      rcases List.mem_cons.mp hq with rfl | hq
      · rfl
      · exact ih (j + 1) g fy' q hq

/-- the score of the toy item `g` at any position is `(level, g)` -/
theorem exOps_score_snd (n m : Nat) (hn : n ≤ SMH2.usizeMax) (g : Fin n) (p : Nat) (hp : p < m) :
    (ofLex (score (exOps n) m g p)).2 = g.val := by
  obtain ⟨q, hq, rfl⟩ := itemPts_cover (exOps n) (exOps_nice n hn) m 0 g p hp
  rw [score_spec (exOps n) (exOps_nice n hn) m g q hq]
  exact exOps_pts_snd n 0 m 0 g _ q hq

variable [Fintype ι] [DecidableEq ι]

/-- tie-freeness of all injective assignments -/
theorem ex_tiefree (n m : Nat) (hn : n ≤ SMH2.usizeMax) (p : Nat) (hp : p < m) :
    ∀ r ∈ CS.injAssignments ι (Fin n), Function.Injective (fun d => score (exOps n) m (r d) p) := by
  intro r hr d d' e
  have e' := congrArg (fun v : V => (ofLex v).2) e
  simp only [exOps_score_snd n m hn _ p hp] at e'
  exact (mem_filter.mp hr).2 (Fin.val_injective e')

omit [Fintype ι] [DecidableEq ι] in
/-- the runs of the toy model return for every set of items whose hashes fit -/
theorem ex_runs (n m imax : Nat) (hn : n ≤ SMH2.usizeMax) (hm : 1 ≤ m) (h : ι → Nat) (hfit : ∀ d, h d ≤ imax) :
    ∃ s0, SMH2.new imax m = .ok s0 ∧ ∀ (A : Finset ι) (r : ι → Fin n), ∃ s, run (exOps n) s0 (itemsOf h r A) = .ok s := by
  have hne : ¬ m = 0 := by omega
  obtain ⟨s0, h0⟩ : ∃ s0, SMH2.new imax m = .ok s0 := by
    unfold SMH2.new; simp only [hne, if_false]; exact ⟨_, rfl⟩
  refine ⟨s0, h0, fun A r => ?_⟩
  obtain ⟨wf0, him, _⟩ := stream_spec (exOps n) (exOps_nice n hn) imax m [] s0 s0 h0 rfl
  refine run_ok (exOps n) (exOps_nice n hn) m _ s0 wf0 ?_
  intro x hx
  obtain ⟨d, _, rfl⟩ := List.mem_map.mp hx
  rw [him]; exact hfit d

/-- **no hypothesis is left**: for the toy source, every `m ≥ 1`, every position, every pair of nonempty sets covering
`ι` with pairwise distinct fitting hashes, the model runs return and the count over all injective assignments of
generators is exactly Jaccard -/
theorem ex_collision_count [Inhabited ι] (n m imax : Nat) (hn : n ≤ SMH2.usizeMax) (hm : 1 ≤ m) (h : ι → Nat)
    (hh : Function.Injective h) (hfit : ∀ d, h d ≤ imax) {A B : Finset ι} (hA : A.Nonempty) (hB : B.Nonempty)
    (hAB : A ∪ B = univ) (p : Nat) (hp : p < m) :
    ∃ (s0 : SMH2) (a b : (ι → Fin n) → SMH2), SMH2.new imax m = .ok s0 ∧
      (∀ r, run (exOps n) s0 (itemsOf h r A) = .ok (a r)) ∧ (∀ r, run (exOps n) s0 (itemsOf h r B) = .ok (b r)) ∧
      ((CS.injAssignments ι (Fin n)).filter (fun r => (a r).hsketch.getD p 0 = (b r).hsketch.getD p 0)).card * (A ∪ B).card
        = (A ∩ B).card * (CS.injAssignments ι (Fin n)).card := by
  obtain ⟨s0, h0, hrun⟩ := ex_runs n m imax hn hm h hfit
  choose a ha using hrun A
  choose b hb using hrun B
  exact ⟨s0, a, b, h0, ha, hb,
    smh2_collision_count (exOps n) (exOps_nice n hn) imax m h hh _ CS.injAssignments_closed p hp
      (ex_tiefree n m hn p hp) hA hB hAB s0 h0 a b (fun r _ => ha r) (fun r _ => hb r)⟩

/-- … and the family is not empty (the statement is not `0 = 0`): three items with hashes `10, 11, 12`,
`A = {0,1}`, `B = {1,2}`, three generators, `m = 4`: `#Ω = 6` and exactly `2` of the assignments collide at every
position (`2/6 = 1/3 = |A ∩ B| / |A ∪ B|`) -/
theorem ex_collision_third (p : Nat) (hp : p < 4) :
    ∃ (s0 : SMH2) (a b : (Fin 3 → Fin 3) → SMH2), SMH2.new 1000 4 = .ok s0 ∧
      (∀ r, run (exOps 3) s0 (itemsOf (fun d => 10 + d.val) r {0, 1}) = .ok (a r)) ∧
      (∀ r, run (exOps 3) s0 (itemsOf (fun d => 10 + d.val) r {1, 2}) = .ok (b r)) ∧
      (CS.injAssignments (Fin 3) (Fin 3)).card = 6 ∧
      ((CS.injAssignments (Fin 3) (Fin 3)).filter
        (fun r => (a r).hsketch.getD p 0 = (b r).hsketch.getD p 0)).card = 2 := by
  obtain ⟨s0, a, b, h0, ha, hb, hc⟩ := ex_collision_count (ι := Fin 3) 3 4 1000 (by decide) (by decide)
    (fun d => 10 + d.val) (fun x y e => Fin.val_injective (by simpa using e)) (fun d => by have := d.isLt; omega)
    (A := {0, 1}) (B := {1, 2}) (by decide) (by decide) (by decide) p hp
  have h1 : (({0, 1} : Finset (Fin 3)) ∪ {1, 2}).card = 3 := by decide
  have h2 : (({0, 1} : Finset (Fin 3)) ∩ {1, 2}).card = 1 := by decide
  have h3 : (CS.injAssignments (Fin 3) (Fin 3)).card = 6 := by decide
  rw [h1, h2, h3] at hc
  exact ⟨s0, a, b, h0, ha, hb, h3, by omega⟩

/-- concrete runs of the toy model (`m = 2`): the position shows the hash of the item with the smallest generator;
`{10, 11}` vs `{11, 12}` under `r = (2, 0, 1)` collide (item `11` is the minimum of the union and lies in both),
under `r = (0, 1, 2)` they do not -/
example :
    ((do let s ← SMH2.new 1000 2; run (exOps 3) s [(10, 2), (11, 0)] : Except Err SMH2).toOption.map
        (fun s => s.hsketch.toList)) = some [11, 11] ∧
    ((do let s ← SMH2.new 1000 2; run (exOps 3) s [(11, 0), (12, 1)] : Except Err SMH2).toOption.map
        (fun s => s.hsketch.toList)) = some [11, 11] ∧
    ((do let s ← SMH2.new 1000 2; run (exOps 3) s [(10, 0), (11, 1)] : Except Err SMH2).toOption.map
        (fun s => s.hsketch.toList)) = some [10, 10] ∧
    ((do let s ← SMH2.new 1000 2; run (exOps 3) s [(11, 1), (12, 2)] : Except Err SMH2).toOption.map
        (fun s => s.hsketch.toList)) = some [11, 11] := by decide

end Example

end PMH.SMH2Coll

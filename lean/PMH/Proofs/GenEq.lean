import PMH.Model.JaccardBoundsGen
import PMH.Model.Exp01Gen
import PMH.Model.PmhConstGen
import PMH.Proofs.PmhLaws
import PMH.Proofs.RealAnalysis
/-!
# The definitions GENERATED from the Rust source equal the hand-written models (at `ℝ`)

`Model/JaccardBoundsGen.lean` and `Model/Exp01Gen.lean` are regenerated from `/repo/src/setsketcher.rs` and
`/repo/src/exp01.rs` by `tools/translate_float.py` on every check.  The theorems below transfer every
theorem about the hand-written transcriptions (`jaccardBoundsG`, `Exp01.new`, `Exp01.sample`) to what the
source says now; they are re-proved on every run, so a change of a formula, a constant, a comparison or the
order of the tests in the source breaks them.
-/
set_option linter.unusedTactic false
set_option linter.unreachableTactic false
namespace PMH.GenEq
open PMH PMH.RA

noncomputable def realBOps : BOps ℝ := ⟨fun x y => x ^ y, Real.sqrt, max, min⟩

theorem jaccardBounds_eq (b jac : ℝ) : Gen.jaccardBounds realBOps b jac = jaccardBoundsG realBOps b jac := by
  unfold Gen.jaccardBounds jaccardBoundsG
  first
    | rfl
    | (push_cast; ring_nf)

theorem exp01New_eq (lam : ℝ) : Gen.exp01New realOps lam = Exp01.new realOps lam := by
  unfold Gen.exp01New Exp01.new
  first
    | rfl
    | (push_cast; ring_nf)

private theorem half_mul (u : ℝ) : ((1 : ℕ) : ℝ) / ((2 : ℕ) : ℝ) * u = u / ((2 : ℕ) : ℝ) := by push_cast; ring

private theorem ite_or_eq {α : Type} (a b : Prop) [Decidable a] [Decidable b] (x y : α) :
    (if a ∨ b then x else y) = if a then x else (if b then x else y) := by
  split_ifs <;> simp_all

theorem exp01Loop_eq {G : Type} (e : Exp01 ℝ) (next : G → ℝ × G) (f : Nat) (g : G) :
    Gen.exp01Sample_loop1 realOps e next f g = Exp01.loop realOps e next f g := by
  induction f generalizing g with
  | zero => rfl
  | succ f ih =>
    unfold Gen.exp01Sample_loop1 Exp01.loop
    simp only [ih]
    first
      | rfl
      | (simp only [half_mul]; done)
      | (gen_unfold_Exp01Gen; simp only [half_mul, ite_or_eq]; done)
      | (push_cast; ring_nf; done)

theorem exp01Sample_eq {G : Type} (e : Exp01 ℝ) (next : G → ℝ × G) (g : G) :
    Gen.exp01Sample realOps e next g = Exp01.sample realOps e next g := by
  unfold Gen.exp01Sample Exp01.sample
  simp only [exp01Loop_eq]

/-! ### the constants of ProbMinHash, cut out of the constructors in the source (`Model/PmhConstGen.lean`) -/

/-- the rate computed by `ProbMinHash3::new` is the `λ = ln(m/(m-1))` of the law theorems (`Laws.lam`) -/
theorem pmh3Lambda_eq {m : ℕ} (hm : 1 ≤ m) : Gen.pmh3Lambda realOps m = Laws.lam m := by
  unfold Gen.pmh3Lambda Laws.lam realOps
  simp only [Nat.cast_sub hm, Nat.cast_one]

theorem pmh3aLambda_eq {m : ℕ} (hm : 1 ≤ m) : Gen.pmh3aLambda realOps m = Laws.lam m := by
  unfold Gen.pmh3aLambda Laws.lam realOps
  simp only [Nat.cast_sub hm, Nat.cast_one]

theorem pmh3aShaLambda_eq {m : ℕ} (hm : 1 ≤ m) : Gen.pmh3aShaLambda realOps m = Laws.lam m := by
  unfold Gen.pmh3aShaLambda Laws.lam realOps
  simp only [Nat.cast_sub hm, Nat.cast_one]

/-- `betas[i]` computed by `ProbMinHash2::new` is the mean of the gap after the point of rank `i` (`Laws.gapMean m (i+1)`) -/
theorem pmh2Beta_eq {m i : ℕ} (hi : i + 1 < m) : (Gen.pmh2Beta m i : ℝ) = Laws.gapMean m (i + 1) := by
  rw [Laws.gapMean_eq hi]
  unfold Gen.pmh2Beta
  have h1 : i ≤ m := by omega
  have h2 : 1 ≤ m - i := by omega
  simp only [Nat.cast_sub h2, Nat.cast_sub h1, Nat.cast_one]
  push_cast
  ring_nf

end PMH.GenEq

import PMH.Model.SuperMinHash
import PMH.Proofs.Race
import Mathlib.Algebra.Order.Field.Basic
import Mathlib.Algebra.Order.Floor.Semiring
import Mathlib.Algebra.BigOperators.Group.Finset.Basic
import Mathlib.Logic.Equiv.Basic
import Mathlib.Algebra.Group.End
import Mathlib.Tactic.Linarith
import Mathlib.Algebra.BigOperators.Ring.Finset
import Mathlib.Tactic.Ring
/-!
# Refinement of the SuperMinHash model to the `Race` specification

Exact arithmetic (`K` an ordered field with a floor).  The item's generator is *total*
(`TOps`): `fr` is the `Uniform<F>(0,1)` draw, `fk j m` the `Uniform<usize>(j, m)` draw.
An item's `m` points are those of the *unpruned* process (`j = 0, …, m-1`) on the identity
permutation; the model (pruned at `a_upper`, lazily initialised `q/p`) maintains
"`hsketch[pos]` = minimum over all points landing on `pos`" (`Race.Spec`).
-/
namespace PMH.SMHP
open PMH PMH.Race

/-! ### the per-iteration body of `SMH.loop`, as a function -/
section Body
variable {F G : Type} [Add F] [LT F] [DecidableLT F]

/-- the two lazy initialisations and the swap -/
def lazyQP (irank : Int) (q : Array Int) (p : Array Nat) (j k : Nat) : Array Int × Array Nat :=
  let qp1 := if q.getD j 0 ≠ irank then (q.setIfInBounds j irank, p.setIfInBounds j j) else (q, p)
  let qp2 := if qp1.1.getD k 0 ≠ irank then (qp1.1.setIfInBounds k irank, qp1.2.setIfInBounds k k) else qp1
  (qp2.1, (qp2.2.setIfInBounds j (qp2.2.getD k 0)).setIfInBounds k (qp2.2.getD j 0))

/-- one iteration of `SMH.loop` after the two draws `r`, `k` -/
def stepS (o : SmhOps F G) (m : Nat) (irank : Int) (s : SMH F) (j : Nat) (r : F) (k : Nat) : Except Err (SMH F) :=
  if ¬ (j < m ∧ k < m) then .error (.oob "superminhash q[j]/q[k]") else
  let qp := lazyQP irank s.q s.p j k
  let pos := qp.2.getD j 0
  let rpj := r + o.ofNat j
  match s.hsketch[pos]? with
  | none => .error (.oob "superminhash hsketch[p[j]]")
  | some old =>
    if rpj < old then
      match o.toUsize old with
      | none => .error (.assertFail "superminhash to_usize")
      | some fl =>
        let j2 := min fl (m - 1)
        let hs := s.hsketch.setIfInBounds pos rpj
        if j < j2 then
          let b := s.b.setIfInBounds j2 (s.b.getD j2 0 - 1)
          let b := b.setIfInBounds j (b.getD j 0 + 1)
          match SMH.lowerUpper b (m + 1) s.aUpper with
          | .error e => .error e
          | .ok a => .ok { s with hsketch := hs, q := qp.1, p := qp.2, b := b, aUpper := a }
        else .ok { s with hsketch := hs, q := qp.1, p := qp.2 }
    else .ok { s with q := qp.1, p := qp.2 }

theorem loop_succ (o : SmhOps F G) (m : Nat) (irank : Int) (fuel : Nat) (s : SMH F) (j : Nat) (g : G) :
    SMH.loop o m irank (fuel + 1) s j g =
      if j ≤ s.aUpper then
        match o.unifK j m (o.unif g).2 with
        | .error e => .error e
        | .ok (k, g') =>
          match stepS o m irank s j (o.unif g).1 k with
          | .error e => .error e
          | .ok s' => SMH.loop o m irank fuel s' (j + 1) g'
      else .ok { s with itemRank := s.itemRank + 1 } := by
  rw [SMH.loop]
  split
  · rcases o.unif g with ⟨r, g1⟩
    dsimp only
    rcases o.unifK j m g1 with e | ⟨k, g2⟩
    · rfl
    · unfold stepS lazyQP
      dsimp only
      split
      · rfl
      · split
        · rename_i h; rw [h]
        · rename_i h; rw [h]; dsimp only
          split
          · split
            · rename_i h; rw [h]
            · rename_i h; rw [h]; dsimp only
              split
              · split
                · rename_i h; rw [h]
                · rename_i h; rw [h]
              · rfl
          · rfl
  · rfl

end Body

/-! ### array helpers -/
theorem getD_sib {α : Type} (a : Array α) (i k : Nat) (v d : α) :
    (a.setIfInBounds i v).getD k d = if i = k ∧ i < a.size then v else a.getD k d := by
  simp only [Array.getD_eq_getD_getElem?, Array.getElem?_setIfInBounds]
  by_cases h1 : i = k
  · subst h1
    by_cases h2 : i < a.size
    · simp [h2]
    · simp [h2]
  · simp [h1]

theorem getElem?_of_lt {α : Type} (a : Array α) (i : Nat) (d : α) (h : i < a.size) : a[i]? = some (a.getD i d) := by
  simp [Array.getD_eq_getD_getElem?, h]

theorem getD_of_ge {α : Type} (a : Array α) (i : Nat) (d : α) (h : a.size ≤ i) : a.getD i d = d := by
  simp [Array.getD_eq_getD_getElem?, h]

/-! ### counting -/
/-- number of positions `< m` whose bucket is `t` -/
def cnt (f : Nat → Nat) (m t : Nat) : Int := (((Finset.range m).filter (fun p => f p = t)).card : Int)

theorem cnt_eq_sum (f : Nat → Nat) (m t : Nat) : cnt f m t = ∑ p ∈ Finset.range m, if f p = t then (1 : Int) else 0 := by
  unfold cnt; exact Finset.natCast_card_filter _ _

theorem cnt_nonneg (f : Nat → Nat) (m t : Nat) : 0 ≤ cnt f m t := Int.natCast_nonneg _

theorem cnt_pos_of (f : Nat → Nat) (m t pos : Nat) (hp : pos < m) (h : f pos = t) : 0 < cnt f m t := by
  unfold cnt
  have : 0 < ((Finset.range m).filter (fun p => f p = t)).card :=
    Finset.card_pos.mpr ⟨pos, Finset.mem_filter.mpr ⟨Finset.mem_range.mpr hp, h⟩⟩
  exact_mod_cast this

theorem cnt_update (f : Nat → Nat) (m t pos v : Nat) (hp : pos < m) :
    cnt (Function.update f pos v) m t = cnt f m t - (if f pos = t then 1 else 0) + (if v = t then 1 else 0) := by
  rw [cnt_eq_sum, cnt_eq_sum]
  have hm : pos ∈ Finset.range m := Finset.mem_range.mpr hp
  rw [← Finset.add_sum_erase _ _ hm, ← Finset.add_sum_erase (Finset.range m) (fun p => if f p = t then (1:Int) else 0) hm]
  have : ∑ x ∈ (Finset.range m).erase pos, (if Function.update f pos v x = t then (1:Int) else 0) =
      ∑ x ∈ (Finset.range m).erase pos, (if f x = t then (1:Int) else 0) := by
    apply Finset.sum_congr rfl
    intro x hx
    rw [Function.update_of_ne (Finset.ne_of_mem_erase hx)]
  rw [this, Function.update_self]
  ring

theorem cnt_congr (f f' : Nat → Nat) (m t : Nat) (h : ∀ p, p < m → f p = f' p) : cnt f m t = cnt f' m t := by
  unfold cnt
  congr 2
  apply Finset.filter_congr
  intro x hx
  rw [h x (Finset.mem_range.mp hx)]

/-! ### `lowerUpper` -/
theorem lowerUpper_ok (b : Array Int) : ∀ (fuel a : Nat), a < fuel → a < b.size →
    (∃ t, t ≤ a ∧ b.getD t 0 ≠ 0) →
    ∃ a', SMH.lowerUpper b fuel a = .ok a' ∧ a' ≤ a ∧ b.getD a' 0 ≠ 0 ∧ ∀ t, a' < t → t ≤ a → b.getD t 0 = 0 := by
  intro fuel
  induction fuel with
  | zero => intro a h; omega
  | succ f ih =>
    intro a hf ha hex
    rw [SMH.lowerUpper, getElem?_of_lt b a 0 ha]
    dsimp only
    by_cases hz : b.getD a 0 = 0
    · have hz' : (b.getD a 0 == 0) = true := by rw [beq_iff_eq]; exact hz
      rw [if_pos hz']
      obtain ⟨t, hta, htb⟩ := hex
      have hne : a ≠ 0 := by
        rintro rfl
        have : t = 0 := by omega
        subst this; exact htb hz
      rw [if_neg hne]
      have hta' : t ≤ a - 1 := by
        rcases Nat.lt_or_eq_of_le hta with h | h
        · omega
        · subst h; exact absurd hz htb
      obtain ⟨a', e, h1, h2, h3⟩ := ih (a - 1) (by omega) (by omega) ⟨t, hta', htb⟩
      refine ⟨a', e, by omega, h2, ?_⟩
      intro u hu1 hu2
      rcases Nat.lt_or_eq_of_le hu2 with h | h
      · exact h3 u hu1 (by omega)
      · subst h; exact hz
    · have hz' : ¬ (b.getD a 0 == 0) = true := by rw [beq_iff_eq]; exact hz
      rw [if_neg hz']
      exact ⟨a, rfl, le_refl _, hz, fun t h1 h2 => by omega⟩

/-! ### the lazily initialised permutation -/
/-- entry `i` is valid iff `q[i] = ir`; a valid entry holds `σ i`, an invalid one stands for `i = σ i` -/
def Lazy (m : Nat) (ir : Int) (q : Array Int) (p : Array Nat) (σ : Nat → Nat) : Prop :=
  q.size = m ∧ p.size = m ∧ (∀ i, i < m → q.getD i 0 ≤ ir) ∧
  ∀ i, i < m → (q.getD i 0 = ir → p.getD i 0 = σ i) ∧ (q.getD i 0 ≠ ir → σ i = i)

def initQP (ir : Int) (q : Array Int) (p : Array Nat) (a : Nat) : Array Int × Array Nat :=
  if q.getD a 0 ≠ ir then (q.setIfInBounds a ir, p.setIfInBounds a a) else (q, p)

theorem initQP_lazy {m : Nat} {ir : Int} {q : Array Int} {p : Array Nat} {σ : Nat → Nat}
    (h : Lazy m ir q p σ) (a : Nat) (ha : a < m) :
    Lazy m ir (initQP ir q p a).1 (initQP ir q p a).2 σ ∧ (initQP ir q p a).1.getD a 0 = ir ∧
      ∀ i, q.getD i 0 = ir → (initQP ir q p a).1.getD i 0 = ir := by
  obtain ⟨hq, hp, hle, hl⟩ := h
  unfold initQP
  by_cases hc : q.getD a 0 = ir
  · rw [if_neg (not_not.mpr hc)]
    exact ⟨⟨hq, hp, hle, hl⟩, hc, fun i hi => hi⟩
  · rw [if_pos hc]
    dsimp only
    refine ⟨⟨by simp [hq], by simp [hp], ?_, ?_⟩, ?_, ?_⟩
    · intro i hi
      rw [getD_sib]
      split_ifs
      · exact le_refl _
      · exact hle i hi
    · intro i hi
      rw [getD_sib, getD_sib]
      by_cases hai : a = i
      · subst hai
        have := (hl a ha).2 hc
        simp [hq, hp, ha, this]
      · simp only [hai, false_and, if_false]
        exact hl i hi
    · rw [getD_sib]; simp [hq, ha]
    · intro i hi
      rw [getD_sib]
      split_ifs
      · rfl
      · exact hi

theorem lazyQP_eq (ir : Int) (q : Array Int) (p : Array Nat) (j k : Nat) :
    lazyQP ir q p j k =
      let qp1 := initQP ir q p j
      let qp2 := initQP ir qp1.1 qp1.2 k
      (qp2.1, (qp2.2.setIfInBounds j (qp2.2.getD k 0)).setIfInBounds k (qp2.2.getD j 0)) := rfl

theorem lazyQP_lazy {m : Nat} {ir : Int} {q : Array Int} {p : Array Nat} {σ : Nat → Nat}
    (h : Lazy m ir q p σ) (j k : Nat) (hj : j < m) (hk : k < m) :
    Lazy m ir (lazyQP ir q p j k).1 (lazyQP ir q p j k).2 (fun i => σ (Equiv.swap j k i)) ∧
      (lazyQP ir q p j k).2.getD j 0 = σ k := by
  rw [lazyQP_eq]
  dsimp only
  obtain ⟨h1, e1, _⟩ := initQP_lazy h j hj
  obtain ⟨h2, e2, k2⟩ := initQP_lazy h1 k hk
  have e1' := k2 j e1
  generalize (initQP ir (initQP ir q p j).1 (initQP ir q p j).2 k) = qp at h2 e2 e1'
  obtain ⟨q2, p2⟩ := qp
  dsimp only at h2 e2 e1' ⊢
  obtain ⟨hq, hp, hle, hl⟩ := h2
  have pj := (hl j hj).1 e1'
  have pk := (hl k hk).1 e2
  refine ⟨⟨hq, by simp [hp], hle, ?_⟩, ?_⟩
  · intro i hi
    dsimp only
    rw [getD_sib, getD_sib, Equiv.swap_apply_def]
    simp only [Array.size_setIfInBounds, hp, hj, hk, and_true]
    constructor
    · intro hv
      by_cases hik : k = i
      · subst hik
        by_cases hij : k = j
        · subst hij; simp [pj]
        · simp [hij, pj]
      · by_cases hij : j = i
        · subst hij
          simp [hik, pk]
        · have h1 : ¬ i = j := fun h => hij h.symm
          have h2 : ¬ i = k := fun h => hik h.symm
          simp only [hik, hij, h1, h2, if_false]
          exact (hl i hi).1 hv
    · intro hv
      have h1 : ¬ i = j := by rintro rfl; exact hv e1'
      have h2 : ¬ i = k := by rintro rfl; exact hv e2
      simp only [h1, h2, if_false]
      exact (hl i hi).2 hv
  · rw [getD_sib, getD_sib]
    simp only [Array.size_setIfInBounds, hp, hj, hk, and_true]
    by_cases hkj : k = j
    · subst hkj; simp [pj]
    · simp [hkj, pk]

section Theory
set_option linter.unusedSectionVars false
variable {K G : Type} [Field K] [LinearOrder K] [IsStrictOrderedRing K] [FloorSemiring K]

/-! ### total draw source, the item's points -/
/-- a total source of the two draws of one loop iteration -/
structure TOps (K G : Type) where
  /-- `Uniform<F>(0,1)` -/
  fr : G → K × G
  /-- `Uniform<usize>(j, m)` -/
  fk : Nat → Nat → G → Nat × G

def TOps.toOps (t : TOps K G) : SmhOps K G :=
  { unif := t.fr, unifK := fun j m g => .ok (t.fk j m g), ofNat := Nat.cast, toUsize := fun x => some ⌊x⌋₊ }

def Nice (t : TOps K G) : Prop :=
  (∀ g, 0 ≤ (t.fr g).1 ∧ (t.fr g).1 < 1) ∧ (∀ j m g, j < m → j ≤ (t.fk j m g).1 ∧ (t.fk j m g).1 < m)

/-- generator state before iteration `j` of the (unpruned) loop -/
def gen (t : TOps K G) (m : Nat) (g : G) : Nat → G
  | 0 => g
  | j + 1 => (t.fk j m (t.fr (gen t m g j)).2).2
/-- the `r` of iteration `j` -/
def rOf (t : TOps K G) (m : Nat) (g : G) (j : Nat) : K := (t.fr (gen t m g j)).1
/-- the `k` of iteration `j` -/
def kOf (t : TOps K G) (m : Nat) (g : G) (j : Nat) : Nat := (t.fk j m (t.fr (gen t m g j)).2).1
/-- the array `p` (as a permutation of ℕ, the identity initially) after `j` iterations: iteration `j`
swaps entries `j` and `k_j` -/
def perm (t : TOps K G) (m : Nat) (g : G) : Nat → Equiv.Perm Nat
  | 0 => 1
  | j + 1 => perm t m g j * Equiv.swap j (kOf t m g j)
/-- the point of iteration `j`: position `p[j]` after the `j`-th swap, value `r_j + j` -/
def ptOf (t : TOps K G) (m : Nat) (g : G) (j : Nat) : Pt K Unit :=
  ⟨perm t m g (j + 1) j, rOf t m g j + (j : K), ()⟩
/-- all `m` points of the item with generator `g` (the unpruned process, `j = 0, …, m-1`) -/
def itemPts (t : TOps K G) (m : Nat) (g : G) : Set (Pt K Unit) := {pt | ∃ j, j < m ∧ pt = ptOf t m g j}

theorem perm_succ_apply (t : TOps K G) (m : Nat) (g : G) (j i : Nat) :
    perm t m g (j + 1) i = perm t m g j (Equiv.swap j (kOf t m g j) i) := rfl

theorem kOf_bounds {t : TOps K G} (hn : Nice t) (m : Nat) (g : G) (j : Nat) (hj : j < m) :
    j ≤ kOf t m g j ∧ kOf t m g j < m := hn.2 j m _ hj

theorem perm_lt {t : TOps K G} (hn : Nice t) (m : Nat) (g : G) :
    ∀ j, j ≤ m → ∀ i, i < m → perm t m g j i < m := by
  intro j
  induction j with
  | zero => intro _ i hi; exact hi
  | succ j ih =>
    intro hj i hi
    rw [perm_succ_apply]
    apply ih (by omega)
    have := kOf_bounds hn m g j (by omega)
    rw [Equiv.swap_apply_def]
    split_ifs <;> omega

theorem perm_ge {t : TOps K G} (hn : Nice t) (m : Nat) (g : G) :
    ∀ j, j ≤ m → ∀ i, m ≤ i → perm t m g j i = i := by
  intro j
  induction j with
  | zero => intro _ i _; rfl
  | succ j ih =>
    intro hj i hi
    rw [perm_succ_apply]
    have := kOf_bounds hn m g j (by omega)
    rw [Equiv.swap_apply_def, if_neg (by omega), if_neg (by omega)]
    exact ih (by omega) i hi

theorem perm_stable {t : TOps K G} (hn : Nice t) (m : Nat) (g : G) (i j : Nat) (hij : i < j) :
    ∀ j', j ≤ j' → j' ≤ m → perm t m g j' i = perm t m g j i := by
  intro j' hj'
  induction hj' with
  | refl => intro _; rfl
  | step h ih =>
    rename_i n
    intro hm
    have h' : j ≤ n := h
    rw [perm_succ_apply]
    have := kOf_bounds hn m g n (by omega)
    rw [Equiv.swap_apply_def, if_neg (by omega), if_neg (by omega)]
    exact ih (by omega)

theorem ptOf_pos_eq {t : TOps K G} (hn : Nice t) (m : Nat) (g : G) (j : Nat) (hj : j < m) :
    (ptOf t m g j).pos = perm t m g m j :=
  (perm_stable hn m g j (j + 1) (by omega) m (by omega) (le_refl _)).symm

theorem ptOf_val_bounds {t : TOps K G} (hn : Nice t) (m : Nat) (g : G) (j : Nat) :
    (j : K) ≤ (ptOf t m g j).val ∧ (ptOf t m g j).val < (j : K) + 1 := by
  have := hn.1 (gen t m g j)
  constructor
  · show (j : K) ≤ rOf t m g j + j
    unfold rOf; linarith [this.1]
  · show rOf t m g j + j < (j : K) + 1
    unfold rOf; linarith [this.2]

/-- the `m` points of an item: point `j` sits on position `σ j` for a permutation `σ` of `0..m-1`
(`σ = perm t m g m`, the final state of the Fisher–Yates array), with value in `[j, j+1)` -/
theorem itemPts_perm {t : TOps K G} (hn : Nice t) (m : Nat) (g : G) :
    ∃ σ : Equiv.Perm Nat, (∀ i, i < m → σ i < m) ∧ (∀ i, m ≤ i → σ i = i) ∧
      (∀ j, j < m → (ptOf t m g j).pos = σ j ∧ (j : K) ≤ (ptOf t m g j).val ∧ (ptOf t m g j).val < (j : K) + 1) ∧
      itemPts t m g = {pt | ∃ j, j < m ∧ pt = ⟨σ j, rOf t m g j + (j : K), ()⟩} := by
  refine ⟨perm t m g m, perm_lt hn m g m (le_refl _), perm_ge hn m g m (le_refl _), ?_, ?_⟩
  · intro j hj
    exact ⟨ptOf_pos_eq hn m g j hj, ptOf_val_bounds hn m g j⟩
  · ext pt
    constructor
    · rintro ⟨j, hj, rfl⟩
      refine ⟨j, hj, ?_⟩
      have := ptOf_pos_eq hn m g j hj
      unfold ptOf at this ⊢
      simp only at this
      rw [this]
    · rintro ⟨j, hj, rfl⟩
      refine ⟨j, hj, ?_⟩
      have := ptOf_pos_eq hn m g j hj
      unfold ptOf at this ⊢
      simp only at this
      rw [this]

/-- positions of the `m` points are pairwise distinct, `< m`, and cover `0..m-1` -/
theorem itemPts_pos_bij {t : TOps K G} (hn : Nice t) (m : Nat) (g : G) :
    (∀ j, j < m → (ptOf t m g j).pos < m) ∧
    (∀ i j, i < m → j < m → (ptOf t m g i).pos = (ptOf t m g j).pos → i = j) ∧
    (∀ pos, pos < m → ∃ j, j < m ∧ (ptOf t m g j).pos = pos) := by
  refine ⟨?_, ?_, ?_⟩
  · intro j hj; rw [ptOf_pos_eq hn m g j hj]; exact perm_lt hn m g m (le_refl _) j hj
  · intro i j hi hj h
    rw [ptOf_pos_eq hn m g i hi, ptOf_pos_eq hn m g j hj] at h
    exact (perm t m g m).injective h
  · intro pos hp
    refine ⟨(perm t m g m).symm pos, ?_, ?_⟩
    · by_contra hge
      have := perm_ge hn m g m (le_refl _) _ (not_lt.mp hge)
      rw [Equiv.apply_symm_apply] at this
      omega
    · have hlt : (perm t m g m).symm pos < m := by
        by_contra hge
        have := perm_ge hn m g m (le_refl _) _ (not_lt.mp hge)
        rw [Equiv.apply_symm_apply] at this
        omega
      rw [ptOf_pos_eq hn m g _ hlt, Equiv.apply_symm_apply]

end Theory
section State
set_option linter.unusedSectionVars false
variable {K G : Type} [Field K] [LinearOrder K] [IsStrictOrderedRing K] [FloorSemiring K]

/-! ### view, invariant -/
/-- position `k` holds `hsketch[k]` (`large` outside the array); tags are trivial -/
def view (large : K) (s : SMH K) : St K Unit := ⟨fun k => s.hsketch.getD k large, fun _ => ()⟩

/-- histogram bucket of a position: `min(⌊h⌋, m-1)` -/
def bucket (large : K) (m : Nat) (hs : Array K) (pos : Nat) : Nat := min ⌊hs.getD pos large⌋₊ (m - 1)

/-- sizes, value bound, histogram and `a_upper` invariants -/
structure Core (large : K) (m : Nat) (s : SMH K) : Prop where
  hsz : s.hsketch.size = m
  qsz : s.q.size = m
  psz : s.p.size = m
  bsz : s.b.size = m
  hle : ∀ pos, pos < m → s.hsketch.getD pos large ≤ large
  hist : ∀ t, s.b.getD t 0 = cnt (bucket large m s.hsketch) m t
  aub : s.aUpper < m
  bpos : 0 < s.b.getD s.aUpper 0
  bzero : ∀ t, s.aUpper < t → s.b.getD t 0 = 0

/-- `Core` + no entry of `q/p` is valid for the next item -/
structure WF (large : K) (m : Nat) (s : SMH K) : Prop where
  core : Core large m s
  qlt : ∀ i, i < m → s.q.getD i 0 < (s.itemRank : Int)

theorem bucket_le (large : K) (m : Nat) (hs : Array K) (pos : Nat) : bucket large m hs pos ≤ m - 1 :=
  min_le_right _ _

theorem bucket_set (large : K) (m : Nat) (hs : Array K) (pos : Nat) (v : K) (hp : pos < hs.size) (p : Nat) :
    bucket large m (hs.setIfInBounds pos v) p = Function.update (bucket large m hs) pos (min ⌊v⌋₊ (m - 1)) p := by
  unfold bucket
  rw [getD_sib]
  by_cases h : p = pos
  · subst h; simp [hp]
  · rw [Function.update_of_ne h, if_neg (by rintro ⟨h1, _⟩; exact h h1.symm)]

/-- a position whose bucket is above `a_upper` does not exist -/
theorem Core.bucket_le_aUpper {large : K} {m : Nat} {s : SMH K} (hc : Core large m s) (pos : Nat) (hp : pos < m) :
    bucket large m s.hsketch pos ≤ s.aUpper := by
  by_contra h
  have h0 := hc.bzero _ (not_le.mp h)
  rw [hc.hist] at h0
  have := cnt_pos_of (bucket large m s.hsketch) m _ pos hp rfl
  omega

/-- every stored value is `< a_upper + 1` unless `a_upper = m - 1` -/
theorem Core.val_lt {large : K} {m : Nat} {s : SMH K} (hc : Core large m s) (pos : Nat) (hp : pos < m)
    (i : Nat) (hi : s.aUpper < i) (him : i < m) : s.hsketch.getD pos large < (i : K) := by
  have h1 := hc.bucket_le_aUpper pos hp
  unfold bucket at h1
  apply Nat.lt_of_floor_lt
  rcases min_le_iff.mp h1 with h | h
  · omega
  · omega

theorem floor_r_add {r : K} (h0 : 0 ≤ r) (h1 : r < 1) (j : Nat) : ⌊r + (j : K)⌋₊ = j := by
  rw [Nat.floor_add_natCast h0, Nat.floor_eq_zero.mpr h1, Nat.zero_add]

/-- `b[j2] -= 1; b[j] += 1` -/
def bUpd (b : Array Int) (j2 j : Nat) : Array Int :=
  (b.setIfInBounds j2 (b.getD j2 0 - 1)).setIfInBounds j ((b.setIfInBounds j2 (b.getD j2 0 - 1)).getD j 0 + 1)

/-- histogram bookkeeping of one accepted offer `v = r + j` at `pos` -/
theorem Core.offer_step {large : K} {m : Nat} {s : SMH K} (hc : Core large m s) (q' : Array Int) (p' : Array Nat)
    (hq' : q'.size = m) (hp' : p'.size = m) (pos : Nat) (hp : pos < m) (v : K) (j : Nat)
    (hv : v < s.hsketch.getD pos large) (hfl : ⌊v⌋₊ = j) (hja : j ≤ s.aUpper) :
    (j < bucket large m s.hsketch pos →
      ∃ a, SMH.lowerUpper (bUpd s.b (bucket large m s.hsketch pos) j) (m + 1) s.aUpper = .ok a ∧
        Core large m { s with hsketch := s.hsketch.setIfInBounds pos v, q := q', p := p', b := bUpd s.b (bucket large m s.hsketch pos) j, aUpper := a }) ∧
    (¬ j < bucket large m s.hsketch pos →
      Core large m { s with hsketch := s.hsketch.setIfInBounds pos v, q := q', p := p' }) := by
  have hjm : j < m := lt_of_le_of_lt hja hc.aub
  have hb' : min ⌊v⌋₊ (m - 1) = j := by rw [hfl]; exact min_eq_left (by omega)
  have hps : pos < s.hsketch.size := by rw [hc.hsz]; exact hp
  have hcnt : ∀ t, cnt (bucket large m (s.hsketch.setIfInBounds pos v)) m t =
      cnt (bucket large m s.hsketch) m t - (if bucket large m s.hsketch pos = t then 1 else 0) + (if j = t then 1 else 0) := by
    intro t
    rw [cnt_congr _ _ m t (fun p _ => bucket_set large m s.hsketch pos v hps p), hb', cnt_update _ _ _ _ _ hp]
  have hle' : ∀ p, p < m → (s.hsketch.setIfInBounds pos v).getD p large ≤ large := by
    intro p hpm
    rw [getD_sib]
    split_ifs
    · exact le_of_lt (lt_of_lt_of_le hv (hc.hle pos hp))
    · exact hc.hle p hpm
  generalize hj2 : bucket large m s.hsketch pos = j2 at *
  have hj2a : j2 ≤ s.aUpper := by rw [← hj2]; exact hc.bucket_le_aUpper pos hp
  have hj2m : j2 < m := lt_of_le_of_lt hj2a hc.aub
  constructor
  · intro hlt
    have hbget : ∀ t, (bUpd s.b j2 j).getD t 0 =
        s.b.getD t 0 - (if j2 = t then 1 else 0) + (if j = t then 1 else 0) := by
      intro t
      unfold bUpd
      rw [getD_sib, getD_sib, getD_sib]
      simp only [Array.size_setIfInBounds, hc.bsz, hjm, hj2m, and_true]
      have hne : ¬ j2 = j := by omega
      by_cases h1 : j = t
      · subst h1; simp [hne]
      · by_cases h2 : j2 = t
        · subst h2; simp [h1]
        · simp [h1, h2]
    have hbs : (bUpd s.b j2 j).size = m := by unfold bUpd; simp [hc.bsz]
    generalize (bUpd s.b j2 j) = b' at hbget hbs ⊢
    have hist' : ∀ t, b'.getD t 0 = cnt (bucket large m (s.hsketch.setIfInBounds pos v)) m t := by
      intro t; rw [hbget, hcnt, hc.hist]
    have hbj : b'.getD j 0 ≠ 0 := by
      rw [hist']
      have := cnt_pos_of (bucket large m (s.hsketch.setIfInBounds pos v)) m j pos hp (by
        rw [bucket_set large m s.hsketch pos v hps, Function.update_self, hb'])
      omega
    obtain ⟨a, e, ha1, ha2, ha3⟩ := lowerUpper_ok b' (m + 1) s.aUpper (by have := hc.aub; omega) (by rw [hbs]; exact hc.aub) ⟨j, hja, hbj⟩
    refine ⟨a, e, ?_⟩
    refine ⟨by simp [hc.hsz], hq', hp', hbs, hle', hist', lt_of_le_of_lt ha1 hc.aub, ?_, ?_⟩
    · show 0 < b'.getD a 0
      have := cnt_nonneg (bucket large m (s.hsketch.setIfInBounds pos v)) m a
      rw [← hist'] at this
      omega
    · intro t hat
      show b'.getD t 0 = 0
      by_cases hta : t ≤ s.aUpper
      · exact ha3 t hat hta
      · rw [hbget, hc.bzero t (not_le.mp hta), if_neg (by omega), if_neg (by omega)]; rfl
  · intro hnlt
    have hle2 : j ≤ j2 := by
      rw [← hj2, ← hb']
      unfold bucket
      exact min_le_min (Nat.floor_mono (le_of_lt hv)) (le_refl _)
    have hjj : j = j2 := by omega
    refine ⟨by simp [hc.hsz], hq', hp', hc.bsz, hle', ?_, hc.aub, hc.bpos, hc.bzero⟩
    intro t
    show s.b.getD t 0 = cnt (bucket large m (s.hsketch.setIfInBounds pos v)) m t
    rw [hcnt, hc.hist, hjj]
    ring

theorem view_set (large : K) (s s' : SMH K) (pos : Nat) (v : K) (hp : pos < s.hsketch.size)
    (hv : v < s.hsketch.getD pos large) (hs' : s'.hsketch = s.hsketch.setIfInBounds pos v) :
    view large s' = offer (view large s) ⟨pos, v, ()⟩ := by
  unfold offer view
  rw [if_pos hv, hs']
  congr 1
  funext k
  rw [getD_sib]
  by_cases h : k = pos
  · subst h; simp [hp]
  · rw [Function.update_of_ne h, if_neg (by rintro ⟨h1, _⟩; exact h h1.symm)]

theorem view_keep (large : K) (s s' : SMH K) (pos : Nat) (v : K)
    (hv : ¬ v < s.hsketch.getD pos large) (hs' : s'.hsketch = s.hsketch) :
    view large s' = offer (view large s) ⟨pos, v, ()⟩ := by
  unfold offer view
  rw [if_neg hv, hs']

end State
section Step
set_option linter.unusedSectionVars false
variable {K G : Type} [Field K] [LinearOrder K] [IsStrictOrderedRing K] [FloorSemiring K]

/-! ### one loop iteration -/
/-- loop invariant before iteration `j` (item generator `g0`): `Core`, and the valid part of `q/p` is
the `j`-step Fisher–Yates state of the identity -/
structure LInv (large : K) (t : TOps K G) (m : Nat) (g0 : G) (s : SMH K) (j : Nat) : Prop where
  core : Core large m s
  lz : Lazy m (s.itemRank : Int) s.q s.p (perm t m g0 j)

theorem stepS_ok {t : TOps K G} (hn : Nice t) {large : K} {m : Nat} {g0 : G} {s : SMH K} {j : Nat}
    (inv : LInv large t m g0 s j) (hj : j ≤ s.aUpper) :
    ∃ s', stepS t.toOps m (s.itemRank : Int) s j (rOf t m g0 j) (kOf t m g0 j) = .ok s' ∧
      LInv large t m g0 s' (j + 1) ∧ s'.itemRank = s.itemRank ∧
      view large s' = offer (view large s) (ptOf t m g0 j) := by
  obtain ⟨hc, hl⟩ := inv
  have hjm : j < m := lt_of_le_of_lt hj hc.aub
  have hk := (kOf_bounds hn m g0 j hjm).2
  obtain ⟨hlz, hpos⟩ := lazyQP_lazy hl j (kOf t m g0 j) hjm hk
  have hlz' : Lazy m (s.itemRank : Int) (lazyQP s.itemRank s.q s.p j (kOf t m g0 j)).1
      (lazyQP s.itemRank s.q s.p j (kOf t m g0 j)).2 (perm t m g0 (j + 1)) := hlz
  have hpos' : (lazyQP s.itemRank s.q s.p j (kOf t m g0 j)).2.getD j 0 = (ptOf t m g0 j).pos := by
    rw [hpos]; show _ = perm t m g0 (j + 1) j
    rw [perm_succ_apply, Equiv.swap_apply_left]
  have hpm : (ptOf t m g0 j).pos < m := (itemPts_pos_bij hn m g0).1 j hjm
  have hr := hn.1 (gen t m g0 j)
  have hfl : ⌊(ptOf t m g0 j).val⌋₊ = j := floor_r_add hr.1 hr.2 j
  unfold stepS
  rw [if_neg (not_not.mpr ⟨hjm, hk⟩)]
  dsimp only
  rw [hpos']
  generalize hqp : lazyQP (↑s.itemRank) s.q s.p j (kOf t m g0 j) = qp at hlz'
  generalize hpt : ptOf t m g0 j = pt at hpm hfl
  obtain ⟨pos, v, tg⟩ := pt
  dsimp only at hpm hfl
  have hv : rOf t m g0 j + t.toOps.ofNat j = v := by
    have : (ptOf t m g0 j).val = v := by rw [hpt]
    exact this
  rw [hv]
  rw [getElem?_of_lt s.hsketch pos large (by rw [hc.hsz]; exact hpm)]
  dsimp only
  by_cases hlt : v < s.hsketch.getD pos large
  · rw [if_pos hlt]
    have htu : t.toOps.toUsize (s.hsketch.getD pos large) = some ⌊s.hsketch.getD pos large⌋₊ := rfl
    rw [htu]
    dsimp only
    obtain ⟨h1, h2⟩ := hc.offer_step qp.1 qp.2 hlz'.1 hlz'.2.1 pos hpm v j hlt hfl hj
    by_cases hjj : j < bucket large m s.hsketch pos
    · obtain ⟨a, e, hc'⟩ := h1 hjj
      have hjj' : j < min ⌊s.hsketch.getD pos large⌋₊ (m - 1) := hjj
      rw [if_pos hjj']
      have e' : SMH.lowerUpper ((s.b.setIfInBounds (min ⌊s.hsketch.getD pos large⌋₊ (m - 1))
            (s.b.getD (min ⌊s.hsketch.getD pos large⌋₊ (m - 1)) 0 - 1)).setIfInBounds j
          ((s.b.setIfInBounds (min ⌊s.hsketch.getD pos large⌋₊ (m - 1))
            (s.b.getD (min ⌊s.hsketch.getD pos large⌋₊ (m - 1)) 0 - 1)).getD j 0 + 1)) (m + 1) s.aUpper = .ok a := e
      rw [e']
      exact ⟨_, rfl, ⟨hc', hlz'⟩, rfl, view_set large s _ pos v (by rw [hc.hsz]; exact hpm) hlt rfl⟩
    · have hjj' : ¬ j < min ⌊s.hsketch.getD pos large⌋₊ (m - 1) := hjj
      rw [if_neg hjj']
      exact ⟨_, rfl, ⟨h2 hjj, hlz'⟩, rfl, view_set large s _ pos v (by rw [hc.hsz]; exact hpm) hlt rfl⟩
  · rw [if_neg hlt]
    refine ⟨_, rfl, ⟨?_, hlz'⟩, rfl, view_keep large s _ pos v hlt rfl⟩
    exact ⟨hc.hsz, hlz'.1, hlz'.2.1, hc.bsz, hc.hle, hc.hist, hc.aub, hc.bpos, hc.bzero⟩

end Step
section Main
set_option linter.unusedSectionVars false
variable {K G : Type} [Field K] [LinearOrder K] [IsStrictOrderedRing K] [FloorSemiring K]

/-! ### the loop -/
/-- the points of iterations `j, …, m-1` -/
def ptsFrom (t : TOps K G) (m : Nat) (g : G) (j : Nat) : Set (Pt K Unit) := {pt | ∃ i, j ≤ i ∧ i < m ∧ pt = ptOf t m g i}

theorem ptsFrom_zero (t : TOps K G) (m : Nat) (g : G) : ptsFrom t m g 0 = itemPts t m g := by
  ext pt; constructor
  · rintro ⟨i, _, hi, rfl⟩; exact ⟨i, hi, rfl⟩
  · rintro ⟨i, hi, rfl⟩; exact ⟨i, Nat.zero_le _, hi, rfl⟩

theorem ptsFrom_succ (t : TOps K G) (m : Nat) (g : G) (j : Nat) (hj : j < m) (Q : Set (Pt K Unit)) :
    (Q ∪ {ptOf t m g j}) ∪ ptsFrom t m g (j + 1) = Q ∪ ptsFrom t m g j := by
  ext pt; constructor
  · rintro ((h | h) | ⟨i, h1, h2, rfl⟩)
    · exact Or.inl h
    · rw [Set.mem_singleton_iff] at h; subst h; exact Or.inr ⟨j, le_refl _, hj, rfl⟩
    · exact Or.inr ⟨i, by omega, h2, rfl⟩
  · rintro (h | ⟨i, h1, h2, rfl⟩)
    · exact Or.inl (Or.inl h)
    · rcases Nat.lt_or_eq_of_le h1 with h | h
      · exact Or.inr ⟨i, h, h2, rfl⟩
      · subst h; exact Or.inl (Or.inr rfl)

theorem loop_ok {t : TOps K G} (hn : Nice t) {large : K} {m : Nat} {g0 : G} :
    ∀ (fuel : Nat) (s : SMH K) (j : Nat), LInv large t m g0 s j → j ≤ m → m + 2 ≤ fuel + j →
      ∃ s', SMH.loop t.toOps m (s.itemRank : Int) fuel s j (gen t m g0 j) = .ok s' ∧ WF large m s' ∧
        ∀ Q, Spec m large () Q (view large s) → Spec m large () (Q ∪ ptsFrom t m g0 j) (view large s') := by
  intro fuel
  induction fuel with
  | zero => intro s j _ h1 h2; omega
  | succ f ih =>
    intro s j inv hjm hf
    by_cases hj : j ≤ s.aUpper
    · obtain ⟨s1, hstep, inv1, hir, hview⟩ := stepS_ok hn inv hj
      have hjlt : j < m := lt_of_le_of_lt hj inv.core.aub
      have e : SMH.loop t.toOps m ↑s.itemRank (f + 1) s j (gen t m g0 j) =
          (match stepS t.toOps m (s.itemRank : Int) s j (rOf t m g0 j) (kOf t m g0 j) with
            | .error e => .error e
            | .ok s' => SMH.loop t.toOps m ↑s.itemRank f s' (j + 1) (gen t m g0 (j + 1))) := by
        rw [loop_succ, if_pos hj]; rfl
      rw [e, hstep]
      dsimp only
      rw [← hir]
      obtain ⟨s', e', hwf, hsp⟩ := ih s1 (j + 1) inv1 (by omega) (by omega)
      refine ⟨s', e', hwf, ?_⟩
      intro Q hQ
      have h1 := spec_offer hQ (ptOf t m g0 j)
      rw [← hview] at h1
      exact spec_congr (hsp _ h1) (ptsFrom_succ t m g0 j hjlt Q)
    · rw [loop_succ, if_neg hj]
      obtain ⟨hc, hl⟩ := inv
      refine ⟨_, rfl, ⟨⟨hc.hsz, hc.qsz, hc.psz, hc.bsz, hc.hle, hc.hist, hc.aub, hc.bpos, hc.bzero⟩, ?_⟩, ?_⟩
      · intro i hi
        have := hl.2.2.1 i hi
        show s.q.getD i 0 < ((s.itemRank + 1 : Nat) : Int)
        push_cast; omega
      · intro Q hQ
        show Spec m large () (Q ∪ ptsFrom t m g0 j) (view large s)
        apply spec_dominated hQ
        rintro pt ⟨i, h1, h2, rfl⟩
        have hpm := (itemPts_pos_bij hn m g0).1 i h2
        have hlt : s.hsketch.getD (ptOf t m g0 i).pos large < (i : K) := hc.val_lt _ hpm i (by omega) h2
        exact le_of_lt (lt_of_lt_of_le hlt (ptOf_val_bounds hn m g0 i).1)

/-! ### main theorems -/
theorem getD_replicate {α : Type} (n i : Nat) (v d : α) : (Array.replicate n v).getD i d = if i < n then v else d := by
  simp only [Array.getD_eq_getD_getElem?, Array.getElem?_replicate]
  split_ifs <;> rfl

theorem cnt_const (c m t : Nat) : cnt (fun _ => c) m t = if c = t then (m : Int) else 0 := by
  unfold cnt
  by_cases h : c = t
  · simp [h]
  · simp [h]

/-- the state built by `new`/`reinit` -/
def fresh (large : K) (m : Nat) : SMH K :=
  { hsketch := Array.replicate m large, q := Array.replicate m (-1), p := Array.replicate m 0,
    b := (Array.replicate m (0 : Int)).setIfInBounds (m - 1) (m : Int), itemRank := 0, aUpper := m - 1 }

theorem fresh_wf (large : K) (m : Nat) (hm : 1 ≤ m) (hl : m - 1 ≤ ⌊large⌋₊) :
    WF large m (fresh large m) ∧
    Spec m large () ∅ (view large (fresh large m)) := by
  have hb : ∀ t, ((Array.replicate m (0 : Int)).setIfInBounds (m - 1) (m : Int)).getD t 0 = if m - 1 = t then (m : Int) else 0 := by
    intro t
    rw [getD_sib, getD_replicate]
    by_cases h : m - 1 = t
    · simp [h]; omega
    · simp [h]
  have hbk : ∀ p, bucket large m (Array.replicate m large) p = m - 1 := by
    intro p
    unfold bucket
    rw [getD_replicate, ite_self]
    exact min_eq_right hl
  refine ⟨⟨⟨by simp [fresh], by simp [fresh], by simp [fresh], by simp [fresh], ?_, ?_, by show m - 1 < m; omega, ?_, ?_⟩, ?_⟩, ?_, ?_⟩
  · intro pos _; show (Array.replicate m large).getD pos large ≤ large
    rw [getD_replicate, ite_self]
  · intro t
    show ((Array.replicate m (0 : Int)).setIfInBounds (m - 1) (m : Int)).getD t 0 = cnt (bucket large m (Array.replicate m large)) m t
    rw [hb, cnt_congr _ (fun _ => m - 1) m t (fun p _ => hbk p), cnt_const]
  · show 0 < ((Array.replicate m (0 : Int)).setIfInBounds (m - 1) (m : Int)).getD (m - 1) 0
    rw [hb, if_pos rfl]; omega
  · intro t ht
    show ((Array.replicate m (0 : Int)).setIfInBounds (m - 1) (m : Int)).getD t 0 = 0
    have ht' : m - 1 < t := ht
    rw [hb, if_neg (by omega)]
  · intro i hi
    show (Array.replicate m (-1 : Int)).getD i 0 < ((0 : Nat) : Int)
    rw [getD_replicate, if_pos hi]; decide
  · intro pt hpt; exact absurd hpt (Set.notMem_empty _)
  · intro k _
    left
    refine ⟨?_, rfl⟩
    show (Array.replicate m large).getD k large = large
    rw [getD_replicate, ite_self]

theorem new_eq (t : TOps K G) (large : K) (m : Nat) (s : SMH K) (h : SMH.new t.toOps large m = .ok s) :
    1 ≤ m ∧ m < ⌊large⌋₊ ∧
    s = (fresh large m) := by
  unfold SMH.new at h
  have htu : t.toOps.toUsize large = some ⌊large⌋₊ := rfl
  rw [htu] at h
  dsimp only at h
  split_ifs at h with h1 h2
  injection h with h
  exact ⟨by omega, h1, h.symm⟩

/-- `new` returns a well-formed, empty sketch -/
theorem new_wf (t : TOps K G) (large : K) (m : Nat) (s : SMH K) (h : SMH.new t.toOps large m = .ok s) :
    WF large m s ∧ Spec m large () ∅ (view large s) := by
  obtain ⟨hm, hl, rfl⟩ := new_eq t large m s h
  exact fresh_wf large m hm (by omega)

theorem LInv.init {t : TOps K G} {large : K} {m : Nat} {s : SMH K} (hwf : WF large m s) (g : G) :
    LInv large t m g s 0 := by
  refine ⟨hwf.core, hwf.core.qsz, hwf.core.psz, fun i hi => le_of_lt (hwf.qlt i hi), fun i hi => ⟨?_, fun _ => rfl⟩⟩
  intro h
  have := hwf.qlt i hi
  omega

/-- **one `sketch(item)` = offering all `m` points of the item** -/
theorem sketch_spec {t : TOps K G} (hn : Nice t) {large : K} {m : Nat} (_hl : (m : K) ≤ large) {s s' : SMH K}
    {P : Set (Pt K Unit)} {g : G}
    (hwf : WF large m s) (hsp : Spec m large () P (view large s)) (h : s.sketch t.toOps g = .ok s') :
    WF large m s' ∧ Spec m large () (P ∪ itemPts t m g) (view large s') := by
  obtain ⟨s'', e, hwf', hsp'⟩ := loop_ok hn (m + 2) s 0 (LInv.init hwf g) (Nat.zero_le _) (le_refl _)
  unfold SMH.sketch at h
  rw [hwf.core.hsz] at h
  have e' : SMH.loop t.toOps m (↑s.itemRank) (m + 2) s 0 g = .ok s'' := e
  rw [e'] at h
  injection h with h
  subst h
  refine ⟨hwf', ?_⟩
  rw [← ptsFrom_zero]
  exact hsp' P hsp

/-- **`sketch` does not panic** on a well-formed state -/
theorem sketch_ok {t : TOps K G} (hn : Nice t) {large : K} {m : Nat} (_hl : (m : K) ≤ large) {s : SMH K}
    (hwf : WF large m s) (_hm : 1 ≤ m) (g : G) : ∃ s', s.sketch t.toOps g = .ok s' := by
  obtain ⟨s'', e, _, _⟩ := loop_ok hn (m + 2) s 0 (LInv.init hwf g) (Nat.zero_le _) (le_refl _)
  refine ⟨s'', ?_⟩
  unfold SMH.sketch
  rw [hwf.core.hsz]
  exact e

/-- `reinit` gives back the state `new` returns -/
theorem reinit_eq_new (t : TOps K G) {large : K} {m : Nat} {s s0 : SMH K} (hwf : WF large m s)
    (h : SMH.new t.toOps large m = .ok s0) : s.reinit large = s0 := by
  obtain ⟨_, _, rfl⟩ := new_eq t large m s0 h
  unfold SMH.reinit
  rw [hwf.core.hsz]
  rfl

end Main
end PMH.SMHP

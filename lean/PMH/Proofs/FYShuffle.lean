import PMH.Model.FYShuffle
import PMH.Proofs.FYList
/-! Refinement of the array-with-cursor model `PMH.FY` to the remaining-suffix view `PMH.FYL`. -/
namespace PMH.FYP
open PMH PMH.FYL

/-- consecutive draws with given offsets -/
def draws : FY → List Nat → Except Err (List Nat × FY)
  | s, [] => .ok ([], s)
  | s, c :: cs =>
    match s.nextOff c with
    | .ok (k, s') =>
      match draws s' cs with
      | .ok (ks, s'') => .ok (k :: ks, s'')
      | .error e => .error e
    | .error e => .error e

theorem nextOff_step (s : FY) (pre : List Nat) (x : Nat) (xs : List Nat) (c : Nat)
    (hv : s.v.toList = pre ++ x :: xs) (hcur : s.cursor = pre.length) (hc : c < xs.length + 1) :
    ∃ s', s.nextOff c = .ok (pick x xs c, s') ∧ s'.v.toList = pre ++ pick x xs c :: nextRest x xs c ∧
      s'.lastidx = pre.length + 1 ∧ s'.m = s.m := by
  have h1 : s.v[pre.length + c]? = some (pick x xs c) := by
    rw [← Array.getElem?_toList, hv, List.getElem?_append_right (by omega)]
    simp only [Nat.add_sub_cancel_left, pick]
    rw [List.getD_eq_getElem?_getD]
    have : c < (x :: xs).length := by simpa using hc
    simp [List.getElem?_eq_getElem this]
  have h2 : s.v[pre.length]? = some x := by
    rw [← Array.getElem?_toList, hv, List.getElem?_append_right (by omega)]
    simp
  unfold FY.nextOff
  simp only [hcur, h1, h2]
  refine ⟨_, rfl, ?_, rfl, rfl⟩
  simp only [Array.toList_setIfInBounds, hv]
  rw [List.set_append_right _ _ (by omega), List.set_append_right _ _ (by omega)]
  simp only [Nat.add_sub_cancel_left, Nat.sub_self, nextRest]
  cases c with
  | zero => simp [pick]
  | succ c => simp

/-- a block: from a state whose remaining suffix is `rest`, drawing with valid offsets outputs
`fy rest cs`, leaves `pre ++ fy rest cs` in the array and the cursor at the end. -/
theorem draws_block : ∀ (n : Nat) (s : FY) (pre rest : List Nat) (cs : List Nat),
    rest.length = n → s.v.toList = pre ++ rest → (n ≠ 0 → s.cursor = pre.length) → (n = 0 → s.lastidx = s.m) →
    pre.length + n = s.m → Valid n cs →
    ∃ s', draws s cs = .ok (fy rest cs, s') ∧ s'.v.toList = pre ++ fy rest cs ∧ s'.lastidx = s.m ∧ s'.m = s.m := by
  intro n
  induction n with
  | zero =>
    intro s pre rest cs hl hv hcur hlast hm hval
    have : rest = [] := List.length_eq_zero_iff.mp hl
    subst this
    simp only [Valid] at hval
    subst hval
    exact ⟨s, rfl, by simpa [fy] using hv, hlast rfl, rfl⟩
  | succ n ih =>
    intro s pre rest cs hl hv hcur _ hm hval
    cases rest with
    | nil => simp at hl
    | cons x xs =>
      cases cs with
      | nil => exact absurd hval (by simp [Valid])
      | cons c cs =>
        obtain ⟨hc, hval'⟩ := hval
        have hxl : xs.length = n := by simpa using hl
        obtain ⟨s1, e1, v1, l1, m1⟩ := nextOff_step s pre x xs c hv (hcur (by omega)) (by omega)
        have hcur1 : n ≠ 0 → s1.cursor = (pre ++ [pick x xs c]).length := by
          intro hn
          unfold FY.cursor
          rw [l1, m1]
          simp only [List.length_append, List.length_cons, List.length_nil]
          split
          · omega
          · rfl
        obtain ⟨s2, e2, v2, l2, m2⟩ := ih s1 (pre ++ [pick x xs c]) (nextRest x xs c) cs
          (by rw [nextRest_length]; exact hxl) (by simpa using v1) hcur1
          (by intro hn; rw [l1, m1]; omega) (by rw [m1]; simp; omega) hval'
        refine ⟨s2, ?_, ?_, by rw [l2, m1], by rw [m2, m1]⟩
        · simp only [draws, e1, e2, fy]
        · simpa [fy] using v2

end PMH.FYP

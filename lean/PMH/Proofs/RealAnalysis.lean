import PMH.Model.Exp01
import Mathlib.Analysis.SpecialFunctions.Pow.Real
import Mathlib.Analysis.SpecialFunctions.Log.Basic
import Mathlib.Analysis.SpecialFunctions.Exp
import Mathlib.Analysis.SpecialFunctions.Integrals.Basic
import Mathlib.Tactic.Linarith
import Mathlib.Tactic.Positivity
import Mathlib.Tactic.FieldSimp
import Mathlib.Tactic.Ring
/-!
# Real-analysis facts behind C16 (truncated exponential sampler), C07 (Jaccard bounds) and
# C06 (cardinality estimate).  Everything is over `ℝ` (exact arithmetic).
-/
namespace PMH.RA
open Real

/-! ## Group 1 : C16, `ExpRestricted01` -/

/-- the transcendental operations of `ExpOps` interpreted in `ℝ` -/
noncomputable def realOps : PMH.ExpOps ℝ := ⟨Real.exp, Real.log, fun x => Real.exp x - 1⟩

theorem new_lambda (lam : ℝ) : (PMH.Exp01.new realOps lam).lambda = lam := rfl

theorem new_c1 (lam : ℝ) : (PMH.Exp01.new realOps lam).c1 = (Real.exp lam - 1) / lam := rfl

theorem new_c2 (lam : ℝ) :
    (PMH.Exp01.new realOps lam).c2 = Real.log (2 / (1 + Real.exp (-lam))) / lam := by
  simp [PMH.Exp01.new, realOps]

theorem new_c3 (lam : ℝ) : (PMH.Exp01.new realOps lam).c3 = (1 - Real.exp (-lam)) / lam := by
  simp [PMH.Exp01.new, realOps]

theorem c1_gt_one {lam : ℝ} (hl : 0 < lam) : 1 < (Real.exp lam - 1) / lam := by
  rw [lt_div_iff₀ hl]
  have := Real.add_one_lt_exp hl.ne'
  linarith

theorem c2_pos {lam : ℝ} (hl : 0 < lam) : 0 < Real.log (2 / (1 + Real.exp (-lam))) / lam := by
  have hd : Real.exp (-lam) < 1 := by rw [Real.exp_lt_one_iff]; linarith
  have hd0 := Real.exp_pos (-lam)
  apply div_pos _ hl
  apply Real.log_pos
  rw [lt_div_iff₀ (by linarith)]
  linarith

theorem c2_lt_one {lam : ℝ} (hl : 0 < lam) : Real.log (2 / (1 + Real.exp (-lam))) / lam < 1 := by
  have hd0 := Real.exp_pos (-lam)
  have hE : 1 < Real.exp lam := by rw [Real.one_lt_exp_iff]; exact hl
  have hEd : Real.exp lam * Real.exp (-lam) = 1 := by rw [← Real.exp_add]; simp
  rw [div_lt_one hl, Real.log_lt_iff_lt_exp (by positivity), div_lt_iff₀ (by linarith)]
  nlinarith

theorem c3_pos {lam : ℝ} (hl : 0 < lam) : 0 < (1 - Real.exp (-lam)) / lam := by
  have hd : Real.exp (-lam) < 1 := by rw [Real.exp_lt_one_iff]; linarith
  exact div_pos (by linarith) hl

theorem c3_lt_one {lam : ℝ} (hl : 0 < lam) : (1 - Real.exp (-lam)) / lam < 1 := by
  rw [div_lt_one hl]
  have := Real.add_one_lt_exp (neg_ne_zero.mpr hl.ne')
  linarith

/-- (1b) the constants of `ExpRestricted01::new(λ)` for `λ > 0`. -/
theorem constants_pos (lam : ℝ) (hl : 0 < lam) :
    0 < (PMH.Exp01.new realOps lam).c1 ∧ 1 ≤ (PMH.Exp01.new realOps lam).c1 ∧
    0 < (PMH.Exp01.new realOps lam).c2 ∧ (PMH.Exp01.new realOps lam).c2 < 1 ∧
    0 < (PMH.Exp01.new realOps lam).c3 ∧ (PMH.Exp01.new realOps lam).c3 < 1 := by
  rw [new_c1, new_c2, new_c3]
  have h1 := c1_gt_one hl
  exact ⟨by linarith, h1.le, c2_pos hl, c2_lt_one hl, c3_pos hl, c3_lt_one hl⟩

/-- the rejection loop only returns values in `[0,1)` when the uniform source does -/
theorem loop_range {G : Type} (lam : ℝ) (hl : 0 < lam) (next : G → ℝ × G)
    (hnext : ∀ g, 0 ≤ (next g).1 ∧ (next g).1 < 1) :
    ∀ (fuel : ℕ) (g : G) (x : ℝ) (g' : G),
      PMH.Exp01.loop realOps (PMH.Exp01.new realOps lam) next fuel g = .ok (x, g') →
        0 ≤ x ∧ x < 1 := by
  intro fuel
  induction fuel with
  | zero => intro g x g' h; simp [PMH.Exp01.loop] at h
  | succ f ih =>
    intro g x g' h
    have hc2 := c2_lt_one hl
    rw [← new_c2] at hc2
    obtain ⟨hx0, hx1⟩ := hnext g
    obtain ⟨hu0, hu1⟩ := hnext (next g).2
    simp only [PMH.Exp01.loop, Nat.cast_one, Nat.cast_ofNat] at h
    set p : ℝ × ℝ := (if 1 - (next g).1 < (next (next g).2).1 / 2
      then (1 - (next g).1, 1 - (next (next g).2).1 / 2)
      else ((next g).1, (next (next g).2).1 / 2)) with hp
    have hp1 : 0 ≤ p.1 ∧ p.1 < 1 := by
      rw [hp]
      split_ifs with hc
      · constructor <;> simp only <;> linarith
      · exact ⟨hx0, hx1⟩
    split_ifs at h with h1 h2 h3 h4
    · obtain ⟨rfl, _⟩ := Prod.mk.inj (Except.ok.inj h)
      exact ⟨hx0, by linarith⟩
    · obtain ⟨rfl, _⟩ := Prod.mk.inj (Except.ok.inj h)
      exact hp1
    · obtain ⟨rfl, _⟩ := Prod.mk.inj (Except.ok.inj h)
      exact hp1
    · obtain ⟨rfl, _⟩ := Prod.mk.inj (Except.ok.inj h)
      exact hp1
    · exact ih _ _ _ h

/-- (1a) `sample` only returns values in `[0,1)` when the uniform source does.  The strict upper
bound holds even when a draw is exactly `0`: the reflected abscissa `1 - x` is only used when
`1 - x < u/2 < 1/2`, and it is `> 0` because `x < 1`. -/
theorem sample_range {G : Type} (lam : ℝ) (hl : 0 < lam) (next : G → ℝ × G)
    (hnext : ∀ g, 0 ≤ (next g).1 ∧ (next g).1 < 1) (g : G) (x : ℝ) (g' : G)
    (h : PMH.Exp01.sample realOps (PMH.Exp01.new realOps lam) next g = .ok (x, g')) :
    0 ≤ x ∧ x < 1 := by
  obtain ⟨hu0, hu1⟩ := hnext g
  simp only [PMH.Exp01.sample, Nat.cast_one] at h
  split_ifs at h with h1
  · obtain ⟨rfl, _⟩ := Prod.mk.inj (Except.ok.inj h)
    have hc1 := (constants_pos lam hl).1
    exact ⟨mul_nonneg hc1.le hu0, h1⟩
  · exact loop_range lam hl next hnext _ _ _ _ h

/-- (1c) first cheap acceptance test (`x ≤ c3 (1-y)`, i.e. the point is under the tangent at `0`
of the convex curve `T`) implies the exact test. -/
theorem squeeze_sound_c3 (lam x y : ℝ) (hl : 0 < lam)
    (h : x ≤ (PMH.Exp01.new realOps lam).c3 * (1 - y)) :
    y * (PMH.Exp01.new realOps lam).c1 * lam ≤ Real.exp (lam * (1 - x)) - 1 := by
  rw [new_c3] at h
  rw [new_c1]
  have hE := Real.exp_pos lam
  have hEd : Real.exp lam * Real.exp (-lam) = 1 := by rw [← Real.exp_add]; simp
  have h1 : lam * x ≤ (1 - Real.exp (-lam)) * (1 - y) := by
    have := mul_le_mul_of_nonneg_left h hl.le
    calc lam * x ≤ lam * ((1 - Real.exp (-lam)) / lam * (1 - y)) := this
      _ = (1 - Real.exp (-lam)) * (1 - y) := by field_simp
  have h2 : Real.exp lam * (lam * x) ≤ (Real.exp lam - 1) * (1 - y) := by
    have := mul_le_mul_of_nonneg_left h1 hE.le
    calc Real.exp lam * (lam * x) ≤ Real.exp lam * ((1 - Real.exp (-lam)) * (1 - y)) := this
      _ = (Real.exp lam - Real.exp lam * Real.exp (-lam)) * (1 - y) := by ring
      _ = (Real.exp lam - 1) * (1 - y) := by rw [hEd]
  have h3 : Real.exp (lam * (1 - x)) = Real.exp lam * Real.exp (-(lam * x)) := by
    rw [← Real.exp_add]; congr 1; ring
  have h4 : -(lam * x) + 1 ≤ Real.exp (-(lam * x)) := Real.add_one_le_exp _
  have h5 : y * ((Real.exp lam - 1) / lam) * lam = y * (Real.exp lam - 1) := by field_simp
  rw [h5, h3]
  nlinarith [mul_le_mul_of_nonneg_left h4 hE.le]

/-- (1c) second cheap acceptance test (`c1 y ≤ 1 - x`, the point is under the tangent at `1`)
implies the exact test. -/
theorem squeeze_sound_c1 (lam x y : ℝ) (hl : 0 < lam)
    (h : (PMH.Exp01.new realOps lam).c1 * y ≤ 1 - x) :
    y * (PMH.Exp01.new realOps lam).c1 * lam ≤ Real.exp (lam * (1 - x)) - 1 := by
  have h4 : lam * (1 - x) + 1 ≤ Real.exp (lam * (1 - x)) := Real.add_one_le_exp _
  have := mul_le_mul_of_nonneg_left h hl.le
  nlinarith

/-- (1c) as requested (the side conditions `0 ≤ x ≤ 1`, `0 ≤ y` are not needed). -/
theorem squeeze_sound (lam x y : ℝ) (hl : 0 < lam) (_hx0 : 0 ≤ x) (_hx1 : x ≤ 1) (_hy : 0 ≤ y) :
    (x ≤ (PMH.Exp01.new realOps lam).c3 * (1 - y) →
      y * (PMH.Exp01.new realOps lam).c1 * lam ≤ Real.exp (lam * (1 - x)) - 1) ∧
    ((PMH.Exp01.new realOps lam).c1 * y ≤ 1 - x →
      y * (PMH.Exp01.new realOps lam).c1 * lam ≤ Real.exp (lam * (1 - x)) - 1) :=
  ⟨squeeze_sound_c3 lam x y hl, squeeze_sound_c1 lam x y hl⟩

/-- the target curve of the rejection part, normalised to `T 0 = 1`, `T 1 = 0` -/
noncomputable def T (lam x : ℝ) : ℝ := (Real.exp (lam * (1 - x)) - 1) / (Real.exp lam - 1)

/-- closed form of `∫₀¹ T` -/
noncomputable def I (lam : ℝ) : ℝ := (Real.exp lam - 1 - lam) / (lam * (Real.exp lam - 1))

/-- (1d) the mixture "uniform with mass `1/c1`" + "density `T/I` with mass `1 - 1/c1`" is the
density of the exponential law of rate `λ` truncated to `[0,1)`. -/
theorem mixture_density (lam x : ℝ) (hl : 0 < lam) :
    1 / (PMH.Exp01.new realOps lam).c1 * 1 +
      (1 - 1 / (PMH.Exp01.new realOps lam).c1) * (T lam x / I lam) =
    lam * Real.exp (-lam * x) / (1 - Real.exp (-lam)) := by
  rw [new_c1, T, I]
  have hE1 : lam + 1 < Real.exp lam := Real.add_one_lt_exp hl.ne'
  have hEd : Real.exp (-lam) = (Real.exp lam)⁻¹ := Real.exp_neg lam
  have h3 : Real.exp (lam * (1 - x)) = Real.exp lam * Real.exp (-lam * x) := by
    rw [← Real.exp_add]; congr 1; ring
  have hE := Real.exp_pos lam
  have ha : Real.exp lam - 1 ≠ 0 := by linarith
  have hb : Real.exp lam - 1 - lam ≠ 0 := by linarith
  rw [hEd, h3]
  field_simp
  ring

/-- the closed form `I` really is `∫₀¹ T` -/
theorem integral_T (lam : ℝ) (hl : 0 < lam) : ∫ x in (0:ℝ)..1, T lam x = I lam := by
  have hE1 : lam + 1 < Real.exp lam := Real.add_one_lt_exp hl.ne'
  have ha : Real.exp lam - 1 ≠ 0 := by linarith
  have hderiv : ∀ x ∈ Set.uIcc (0:ℝ) 1,
      HasDerivAt (fun x => (-(1 / lam) * Real.exp (lam * (1 - x)) - x) / (Real.exp lam - 1))
        (T lam x) x := by
    intro x _
    have h1 : HasDerivAt (fun x : ℝ => lam * (1 - x)) (lam * (0 - 1)) x :=
      ((hasDerivAt_const x (1:ℝ)).sub (hasDerivAt_id' x)).const_mul lam
    have h2 := (h1.exp.const_mul (-(1 / lam))).sub (hasDerivAt_id' x)
    have h3 := h2.div_const (Real.exp lam - 1)
    refine h3.congr_deriv ?_
    unfold T
    field_simp
    ring
  have hcont : IntervalIntegrable (T lam) MeasureTheory.volume 0 1 := by
    apply Continuous.intervalIntegrable
    unfold T
    fun_prop
  rw [intervalIntegral.integral_eq_sub_of_hasDerivAt hderiv hcont]
  unfold I
  field_simp
  simp
  ring

/-! ## Group 2 : C07, `SetSketchParams::get_jaccard_bounds` -/

/-- transcription of `get_jaccard_bounds` in exact arithmetic: `(jinf, jsup)` -/
noncomputable def jaccardBounds (b jac : ℝ) : ℝ × ℝ :=
  let b_aux := b ^ (jac / 2)
  let jsup := (b_aux * b_aux - 1) / (b - 1)
  let b_inf := 2 * (b_aux * Real.sqrt b - 1) / (b - 1) - 1
  let jinf := max b_inf 0
  (jinf, jsup)

theorem jaccardBounds_fst (b jac : ℝ) : (jaccardBounds b jac).1 =
    max (2 * (b ^ (jac / 2) * Real.sqrt b - 1) / (b - 1) - 1) 0 := rfl

theorem jaccardBounds_snd (b jac : ℝ) : (jaccardBounds b jac).2 =
    (b ^ (jac / 2) * b ^ (jac / 2) - 1) / (b - 1) := rfl

theorem rpow_half_mul_self {b : ℝ} (hb : 0 < b) (p : ℝ) : b ^ (p / 2) * b ^ (p / 2) = b ^ p := by
  rw [← Real.rpow_add hb, add_halves]

/-- core inequality: the un-clamped lower bound is below the upper bound, for every `p` -/
theorem binf_le_jsup (b p : ℝ) (hb : 1 < b) :
    2 * (b ^ (p / 2) * Real.sqrt b - 1) / (b - 1) - 1 ≤
      ((b ^ (p / 2)) * (b ^ (p / 2)) - 1) / (b - 1) := by
  have hb0 : 0 < b := by linarith
  have hb1 : 0 < b - 1 := by linarith
  set x := b ^ (p / 2) with hx
  set s := Real.sqrt b with hs
  have hss : s * s = b := Real.mul_self_sqrt hb0.le
  rw [div_sub_one hb1.ne', div_le_div_iff_of_pos_right hb1]
  nlinarith [sq_nonneg (x - s)]

theorem jsup_nonneg (b jac : ℝ) (hb : 1 < b) (hj : 0 ≤ jac) : 0 ≤ (jaccardBounds b jac).2 := by
  rw [jaccardBounds_snd]
  have hx1 : 1 ≤ b ^ (jac / 2) := Real.one_le_rpow hb.le (by linarith)
  exact div_nonneg (by nlinarith) (by linarith)

/-- (2a) -/
theorem bounds_ordered (b jac : ℝ) (hb : 1 < b) (hj0 : 0 ≤ jac) (_hj1 : jac ≤ 1) :
    (jaccardBounds b jac).1 ≤ (jaccardBounds b jac).2 := by
  have h0 := jsup_nonneg b jac hb hj0
  rw [jaccardBounds_fst]
  rw [jaccardBounds_snd] at h0 ⊢
  exact max_le (binf_le_jsup b jac hb) h0

/-- (2b) -/
theorem bounds_nonneg_le_one (b jac : ℝ) (hb : 1 < b) (hj0 : 0 ≤ jac) (hj1 : jac ≤ 1) :
    0 ≤ (jaccardBounds b jac).1 ∧ (jaccardBounds b jac).2 ≤ 1 ∧ 0 ≤ (jaccardBounds b jac).2 := by
  refine ⟨le_max_right _ _, ?_, jsup_nonneg b jac hb hj0⟩
  have hb0 : 0 < b := by linarith
  rw [jaccardBounds_snd, rpow_half_mul_self hb0, div_le_one (by linarith)]
  have := Real.rpow_le_rpow_of_exponent_le hb.le hj1
  rw [Real.rpow_one] at this
  linarith

/-- `p_b(x)` of the SetSketch paper -/
noncomputable def pb (b x : ℝ) : ℝ := -Real.log (1 - x * (b - 1) / b) / Real.log b

/-- register-collision probability of the paper for relative cardinalities `u`, `v` and Jaccard
index `J` -/
noncomputable def collisionP (b u v J : ℝ) : ℝ := 1 - pb b (u - v * J) - pb b (v - u * J)

/-- `b ^ P = b (1 - cα)(1 - cβ)` with `α = u - vJ`, `β = v - uJ`, `c = (b-1)/b` -/
theorem rpow_collisionP (b u v J : ℝ) (hb : 1 < b) (hu : 0 ≤ u) (hv : 0 ≤ v) (huv : u + v = 1)
    (hJ : 0 ≤ J) :
    b ^ collisionP b u v J =
      b * (1 - (u - v * J) * (b - 1) / b) * (1 - (v - u * J) * (b - 1) / b) := by
  have hb0 : 0 < b := by linarith
  have hlb : 0 < Real.log b := Real.log_pos hb
  have hA : 0 < 1 - (u - v * J) * (b - 1) / b := by
    rw [sub_pos, div_lt_one hb0]
    nlinarith [mul_nonneg hv hJ]
  have hB : 0 < 1 - (v - u * J) * (b - 1) / b := by
    rw [sub_pos, div_lt_one hb0]
    nlinarith [mul_nonneg hu hJ]
  have hP : Real.log b * collisionP b u v J =
      Real.log b + Real.log (1 - (u - v * J) * (b - 1) / b)
        + Real.log (1 - (v - u * J) * (b - 1) / b) := by
    unfold collisionP pb
    field_simp
    ring
  rw [Real.rpow_def_of_pos hb0, hP, Real.exp_add, Real.exp_add, Real.exp_log hb0, Real.exp_log hA,
    Real.exp_log hB]

/-- (2c) the true Jaccard index lies between the two bounds computed from the exact collision
probability.  The hypotheses `v * J ≤ u`, `u * J ≤ v` are `J ≤ min (u/v) (v/u)` with the
denominators cleared (so that `u = 0` or `v = 0` is covered too). -/
theorem bounds_contain (b u v J : ℝ) (hb : 1 < b) (hu : 0 ≤ u) (hv : 0 ≤ v) (huv : u + v = 1)
    (hJ : 0 ≤ J) (hJu : v * J ≤ u) (hJv : u * J ≤ v) :
    (jaccardBounds b (collisionP b u v J)).1 ≤ J ∧ J ≤ (jaccardBounds b (collisionP b u v J)).2 := by
  have hb0 : 0 < b := by linarith
  have hb1 : 0 < b - 1 := by linarith
  have hP := rpow_collisionP b u v J hb hu hv huv hJ
  have hxx := rpow_half_mul_self hb0 (collisionP b u v J)
  set x := b ^ (collisionP b u v J / 2) with hx
  have hx0 : 0 ≤ x := Real.rpow_nonneg hb0.le _
  set s := Real.sqrt b with hs
  have hs0 : 0 ≤ s := Real.sqrt_nonneg b
  have hss : s * s = b := Real.mul_self_sqrt hb0.le
  set α := u - v * J with hα
  set β := v - u * J with hβ
  have hα0 : 0 ≤ α := by linarith
  have hβ0 : 0 ≤ β := by linarith
  have hαβ : α + β = 1 - J := by rw [hα, hβ]; linear_combination (1 - J) * huv
  -- `b^P = 1 + J (b-1) + (b-1)² αβ / b`
  have hkey : b * (x * x) = b * (1 + J * (b - 1)) + (b - 1) ^ 2 * (α * β) := by
    rw [hxx, hP]
    field_simp
    linear_combination (-(b * (b - 1))) * hαβ
  constructor
  · rw [jaccardBounds_fst]
    apply max_le _ hJ
    rw [sub_le_iff_le_add, div_le_iff₀ hb1]
    -- `(x s)² = (b - (b-1)α)(b - (b-1)β) ≤ (b - (b-1)(1-J)/2)²`
    have hsq : (x * s) ^ 2 = (b - (b - 1) * α) * (b - (b - 1) * β) := by
      have : (x * s) ^ 2 = b * (x * x) := by rw [← hss]; ring
      rw [this, hkey]
      linear_combination (b * (b - 1)) * hαβ
    have ht0 : 0 ≤ b - (b - 1) * (1 - J) / 2 := by nlinarith
    have hle : x * s ≤ b - (b - 1) * (1 - J) / 2 := by
      by_contra hcon
      rw [not_le] at hcon
      have h1 : (b - (b - 1) * (1 - J) / 2) ^ 2 < (x * s) ^ 2 := by nlinarith
      rw [hsq, ← hαβ] at h1
      nlinarith [sq_nonneg (α - β)]
    linarith
  · rw [jaccardBounds_snd, le_div_iff₀ hb1]
    have : 0 ≤ (b - 1) ^ 2 * (α * β) := by positivity
    nlinarith

/-- (2c) in the `min` form, for `u, v > 0` -/
theorem bounds_contain_min (b u v J : ℝ) (hb : 1 < b) (hu : 0 < u) (hv : 0 < v) (huv : u + v = 1)
    (hJ : 0 ≤ J) (hJm : J ≤ min (u / v) (v / u)) :
    (jaccardBounds b (collisionP b u v J)).1 ≤ J ∧ J ≤ (jaccardBounds b (collisionP b u v J)).2 := by
  have h1 : J ≤ u / v := le_trans hJm (min_le_left _ _)
  have h2 : J ≤ v / u := le_trans hJm (min_le_right _ _)
  rw [le_div_iff₀ hv] at h1
  rw [le_div_iff₀ hu] at h2
  exact bounds_contain b u v J hb hu.le hv.le huv hJ (by linarith) (by linarith)

/-! ## Group 3 : C06, cardinality estimate -/

/-- `Σ b^{-k}` over the registers, written as the code does (`exp (-k ln b)`) -/
noncomputable def sumbk (b : ℝ) (regs : List ℕ) : ℝ :=
  (regs.map (fun (k : ℕ) => Real.exp (-(k : ℝ) * Real.log b))).sum

/-- `get_cardinal_estimate` / first component of `get_cardinal_stats` -/
noncomputable def cardEst (b a : ℝ) (m : ℕ) (regs : List ℕ) : ℝ :=
  (m : ℝ) * (1 - 1 / b) / (a * Real.log b * sumbk b regs)

@[simp] theorem sumbk_nil (b : ℝ) : sumbk b [] = 0 := rfl

@[simp] theorem sumbk_cons (b : ℝ) (k : ℕ) (l : List ℕ) :
    sumbk b (k :: l) = Real.exp (-(k : ℝ) * Real.log b) + sumbk b l := by
  simp [sumbk]

/-- (3b) -/
theorem sumbk_append (b : ℝ) (l₁ l₂ : List ℕ) : sumbk b (l₁ ++ l₂) = sumbk b l₁ + sumbk b l₂ := by
  simp [sumbk]

/-- (3b) -/
theorem sumbk_perm (b : ℝ) {regs regs' : List ℕ} (h : regs.Perm regs') :
    sumbk b regs = sumbk b regs' := by
  unfold sumbk
  exact (h.map (fun k : ℕ => Real.exp (-(k : ℝ) * Real.log b))).sum_eq

theorem sumbk_nonneg (b : ℝ) (regs : List ℕ) : 0 ≤ sumbk b regs := by
  induction regs with
  | nil => simp
  | cons k l ih => rw [sumbk_cons]; have := Real.exp_pos (-(k : ℝ) * Real.log b); linarith

theorem sumbk_pos (b : ℝ) {regs : List ℕ} (h : regs ≠ []) : 0 < sumbk b regs := by
  cases regs with
  | nil => exact absurd rfl h
  | cons k l =>
    rw [sumbk_cons]
    have := Real.exp_pos (-(k : ℝ) * Real.log b)
    have := sumbk_nonneg b l
    linarith

/-- larger registers give a smaller sum -/
theorem sumbk_anti (b : ℝ) (hb : 1 < b) {regs regs' : List ℕ}
    (h : List.Forall₂ (· ≤ ·) regs regs') : sumbk b regs' ≤ sumbk b regs := by
  have hlb : 0 < Real.log b := Real.log_pos hb
  induction h with
  | nil => simp
  | @cons k k' l l' hk _ ih =>
    rw [sumbk_cons, sumbk_cons]
    have hk' : (k : ℝ) ≤ (k' : ℝ) := by exact_mod_cast hk
    have : Real.exp (-(k' : ℝ) * Real.log b) ≤ Real.exp (-(k : ℝ) * Real.log b) := by
      apply Real.exp_le_exp.mpr
      nlinarith
    linarith

/-- (3a) the estimate is monotone in the registers (no non-emptiness hypothesis is needed: for
empty lists both sides are `0` by `x / 0 = 0`). -/
theorem cardEst_mono (b a : ℝ) (m : ℕ) (hb : 1 < b) (ha : 0 < a) {regs regs' : List ℕ}
    (h : List.Forall₂ (· ≤ ·) regs regs') : cardEst b a m regs ≤ cardEst b a m regs' := by
  have hlb : 0 < Real.log b := Real.log_pos hb
  have hnum : 0 ≤ (m : ℝ) * (1 - 1 / b) := by
    apply mul_nonneg (Nat.cast_nonneg m)
    rw [sub_nonneg, div_le_one (by linarith)]
    exact hb.le
  unfold cardEst
  by_cases hn : regs' = []
  · subst hn
    cases h
    exact le_refl _
  · have hpos := sumbk_pos b hn
    have hle := sumbk_anti b hb h
    apply div_le_div_of_nonneg_left hnum (by positivity)
    exact mul_le_mul_of_nonneg_left hle (by positivity)

/-- `2 (b-1)/(b+1) ≤ ln b` for `b ≥ 1` -/
theorem two_mul_div_le_log (b : ℝ) (hb : 1 ≤ b) : 2 * (b - 1) / (b + 1) ≤ Real.log b := by
  have := Real.le_log_one_add_of_nonneg (x := b - 1) (by linarith)
  have e1 : b - 1 + 2 = b + 1 := by ring
  have e2 : 1 + (b - 1) = b := by ring
  rwa [e1, e2] at this

/-- (3c) the radicand of the relative standard deviation is non-negative -/
theorem rsd_radicand_nonneg (b : ℝ) (m : ℕ) (hb : 1 < b) (hm : 0 < m) :
    0 ≤ ((b + 1) / (b - 1) * Real.log b - 1) / (m : ℝ) := by
  have hb1 : 0 < b - 1 := by linarith
  have hb2 : 0 < b + 1 := by linarith
  have hm' : (0 : ℝ) < m := by exact_mod_cast hm
  apply div_nonneg _ hm'.le
  have h := two_mul_div_le_log b hb.le
  have hq : 0 < (b + 1) / (b - 1) := div_pos hb2 hb1
  have : (b + 1) / (b - 1) * (2 * (b - 1) / (b + 1)) = 2 := by field_simp
  have := mul_le_mul_of_nonneg_left h hq.le
  linarith

/-- (3d) -/
theorem cardEst_pos (b a : ℝ) (m : ℕ) (hb : 1 < b) (ha : 0 < a) (hm : 0 < m) {regs : List ℕ}
    (h : regs ≠ []) : 0 < cardEst b a m regs := by
  have hlb : 0 < Real.log b := Real.log_pos hb
  have hm' : (0 : ℝ) < m := by exact_mod_cast hm
  have hpos := sumbk_pos b h
  have h1 : 0 < 1 - 1 / b := by
    rw [sub_pos, div_lt_one (by linarith)]
    exact hb
  unfold cardEst
  positivity

end PMH.RA
